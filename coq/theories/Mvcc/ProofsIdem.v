(* Mvcc/ProofsIdem.v — repeating a command whose effect is in place gives the same answer and
   changes nothing: commit, batch rollback, cleanup, check-txn-status, resolve (single and
   batch), heartbeat at store level for arbitrary key lists; prewrite at key level. *)
From Verif Require Import Mvcc.Model Mvcc.Spec Mvcc.ProofsStore Mvcc.ProofsKey Mvcc.ProofsKstep Mvcc.ProofsShape Mvcc.ProofsStep Mvcc.ProofsMarker.

Definition upd (o : option kstate) (ks : kstate) : kstate := match o with Some x => x | None => ks end.

Lemma find_start_put w ws : ~ In (w_start w) (map w_start ws) -> find_start (w_start w) (put_write w ws) = Some w.
Proof.
  induction ws as [|x r IH]; intros Hn; cbn [put_write find_start].
  - rewrite N.eqb_refl. reflexivity.
  - cbn [map In] in Hn. destruct (w_commit x <? w_commit w); [|destruct (w_commit x =? w_commit w)]; cbn [find_start].
    + rewrite N.eqb_refl. reflexivity.
    + rewrite N.eqb_refl. reflexivity.
    + destruct (N.eqb_spec (w_start x) (w_start w)); [tauto|]. apply IH. tauto.
Qed.

Section Idem.
  Variable W : world.
  Hypothesis HW : World_ok W.

  Lemma own_lock_drop ws s : own_lock (mkKs None ws) s = None.
  Proof. reflexivity. Qed.

  Lemma commit_key_idem ks s c o : wf_ks W ks -> commit_key ks s c = KOk o -> commit_key (upd o ks) s c = KOk None.
  Proof.
    intros Hwf. unfold commit_key. destruct (own_lock ks s) as [l|] eqn:Eo.
    - apply own_lock_some in Eo. destruct Eo as [El Es]. destruct (c <? l_min_commit l); [discriminate|].
      intros E; inversion E; subst o. cbn [upd]. unfold commit_lock. rewrite own_lock_drop. cbn [ks_writes].
      destruct (wf_lock _ _ Hwf l El) as [_ Hn]. rewrite Es in Hn.
      pose proof (find_start_put (mkWrite (wkind_of_op (l_op l)) s c (l_value l)) (ks_writes ks) Hn) as Hf.
      cbn [w_start] in Hf. rewrite Hf. unfold is_rollback. cbn [w_kind]. destruct (l_op l); reflexivity.
    - destruct (find_start s (ks_writes ks)) as [w|] eqn:Ef; [|discriminate].
      destruct (is_rollback w) eqn:Er; [discriminate|]. intros E; inversion E; subst o. cbn [upd]. rewrite Eo, Ef, Er. reflexivity.
  Qed.

  Lemma rollback_key_idem ks s o : wf_ks W ks -> rollback_key ks s = KOk o -> rollback_key (upd o ks) s = KOk None.
  Proof.
    intros Hwf. unfold rollback_key. destruct (own_lock ks s) as [l|] eqn:Eo.
    - apply own_lock_some in Eo. destruct Eo as [El Es]. intros E; inversion E; subst o. cbn [upd]. unfold rollback_lock.
      rewrite own_lock_drop. cbn [ks_writes]. destruct (wf_lock _ _ Hwf l El) as [_ Hn]. rewrite Es in Hn.
      pose proof (find_start_put (rollback_write s) (ks_writes ks) Hn) as Hf. cbn [rollback_write w_start] in Hf. rewrite Hf. reflexivity.
    - destruct (find_start s (ks_writes ks)) as [w|] eqn:Ef.
      + destruct (is_rollback w) eqn:Er; [|discriminate]. intros E; inversion E; subst o. cbn [upd]. rewrite Eo, Ef, Er. reflexivity.
      + intros E; inversion E; subst o. cbn [upd]. unfold write_rollback.
        assert (Ho : own_lock (mkKs (ks_lock ks) (put_write (rollback_write s) (ks_writes ks))) s = None) by exact Eo.
        rewrite Ho. cbn [ks_writes]. apply find_start_none in Ef.
        pose proof (find_start_put (rollback_write s) (ks_writes ks) Ef) as Hf. cbn [rollback_write w_start] in Hf. rewrite Hf. reflexivity.
  Qed.

  Lemma cleanup_key_idem ks k s cur o : wf_ks W ks -> cleanup_key ks k s cur = KOk o -> cleanup_key (upd o ks) k s cur = KOk None.
  Proof.
    intros Hwf. unfold cleanup_key. destruct (own_lock ks s) as [l|] eqn:Eo.
    - destruct ((cur =? 0) || ttl_expired l cur); [|discriminate].
      intros E. assert (E' : rollback_key ks s = KOk o) by (unfold rollback_key; rewrite Eo; exact E).
      pose proof (rollback_key_idem ks s o Hwf E') as H. inversion E; subst o. cbn [upd] in *. unfold rollback_lock. rewrite own_lock_drop. exact H.
    - intros E. pose proof (rollback_key_idem ks s o Hwf E) as H.
      assert (Ho : own_lock (upd o ks) s = None).
      { unfold rollback_key in E. rewrite Eo in E. destruct (find_start s (ks_writes ks)) as [w|]; [destruct (is_rollback w)|]; inversion E; subst; exact Eo. }
      rewrite Ho. exact H.
  Qed.

  Lemma resolve_key_idem s c k ks : resolve_key s c k (upd (resolve_key s c k ks) ks) = None.
  Proof.
    unfold resolve_key. destruct (own_lock ks s) as [l|] eqn:Eo; cbn [upd]; [|rewrite Eo; reflexivity].
    destruct (0 <? c); reflexivity.
  Qed.
  Lemma batch_resolve_key_idem infos k ks : batch_resolve_key infos k (upd (batch_resolve_key infos k ks) ks) = None.
  Proof.
    unfold batch_resolve_key. destruct (ks_lock ks) as [l|] eqn:El; cbn [upd]; [|rewrite El; reflexivity].
    destruct (assoc_ts (l_start l) infos) as [c|] eqn:Ea; cbn [upd]; [|rewrite El, Ea; reflexivity].
    unfold resolve_key, own_lock. rewrite El, N.eqb_refl. cbn [upd]. destruct (0 <? c); reflexivity.
  Qed.

  Lemma heartbeat_key_idem ks k s adv o r : heartbeat_key ks k s adv = (o, r) -> heartbeat_key (upd o ks) k s adv = (None, r).
  Proof.
    unfold heartbeat_key. destruct (own_lock ks s) as [l|] eqn:Eo.
    - destruct (negb (l_primary l =? k)) eqn:Ep; [intros E; inversion E; subst; cbn [upd]; rewrite Eo, Ep; reflexivity|].
      destruct (N.ltb_spec (l_ttl l) adv) as [Hlt|Hge].
      + intros E; inversion E; subst. cbn [upd]. apply own_lock_some in Eo. destruct Eo as [El Es].
        unfold own_lock. cbn [ks_lock l_start]. rewrite Es, N.eqb_refl. cbn [l_primary l_ttl]. rewrite Ep. rewrite N.ltb_irrefl. reflexivity.
      + intros E; inversion E; subst. cbn [upd]. rewrite Eo, Ep. destruct (N.ltb_spec (l_ttl l) adv); [lia|reflexivity].
    - intros E; inversion E; subst. cbn [upd]. rewrite Eo. reflexivity.
  Qed.

  Lemma cts_key_idem ks k s caller cur rine rp o r : wf_ks W ks -> rine || negb rp = true ->
    check_txn_status_key ks k s caller cur rine rp = (o, r) ->
    exists r', check_txn_status_key (upd o ks) k s caller cur rine rp = (None, r') /\ resp_status r' = resp_status r.
  Proof.
    intros Hwf Hfl E. unfold check_txn_status_key in E. destruct (own_lock ks s) as [l|] eqn:Eo.
    - pose proof Eo as Eo'. apply own_lock_some in Eo'. destruct Eo' as [El Es].
      destruct (wf_lock _ _ Hwf l El) as [_ Hn]. rewrite Es in Hn.
      destruct (ttl_expired l cur) eqn:Et.
      + destruct (rp && is_pess l) eqn:Erp.
        * (* pessimistic rollback: the lock vanishes without a record *)
          inversion E; subst o r. unfold pess_rollback_key, pess_rollback_match. rewrite El.
          apply andb_true_iff in Erp. destruct Erp as [Erp Epess]. subst rp. rewrite Epess, N.eqb_refl, N.leb_refl. cbn [andb upd].
          unfold check_txn_status_key. rewrite own_lock_drop. cbn [ks_writes]. apply find_start_none in Hn. rewrite Hn.
          destruct rine; [|discriminate]. eexists; split; reflexivity.
        * inversion E; subst o r. cbn [upd]. unfold check_txn_status_key, rollback_lock. rewrite own_lock_drop. cbn [ks_writes].
          pose proof (find_start_put (rollback_write s) (ks_writes ks) Hn) as Hf. cbn [rollback_write w_start] in Hf. rewrite Hf.
          eexists; split; reflexivity.
      + destruct (caller =? max_ts) eqn:Ec.
        * inversion E; subst o r. cbn [upd]. unfold check_txn_status_key. rewrite Eo, Et, Ec. eexists; split; reflexivity.
        * destruct (0 <? l_min_commit l) eqn:Em.
          -- destruct (N.ltb_spec (l_min_commit l) (caller + 1)) as [Hlt|Hge].
             ++ inversion E; subst o r. subst s. cbn [upd]. unfold check_txn_status_key, own_lock. cbn [ks_lock l_start]. rewrite N.eqb_refl.
                unfold ttl_expired in *. cbn [l_start l_ttl]. rewrite Et, Ec. cbn [l_min_commit].
                assert (Hm : 0 <? (if caller + 1 <? cur then cur else caller + 1) = true) by (apply N.ltb_lt; destruct (caller + 1 <? cur) eqn:X; [apply N.ltb_lt in X|]; lia).
                rewrite Hm.
                assert (Hn2 : (if caller + 1 <? cur then cur else caller + 1) <? caller + 1 = false).
                { apply N.ltb_ge. destruct (N.ltb_spec (caller + 1) cur); lia. }
                rewrite Hn2. eexists; split; reflexivity.
             ++ inversion E; subst o r. cbn [upd]. unfold check_txn_status_key. rewrite Eo, Et, Ec, Em.
                destruct (N.ltb_spec (l_min_commit l) (caller + 1)); [lia|]. eexists; split; reflexivity.
          -- inversion E; subst o r. cbn [upd]. unfold check_txn_status_key. rewrite Eo, Et, Ec, Em. eexists; split; reflexivity.
    - destruct (find_start s (ks_writes ks)) as [w|] eqn:Ef.
      + destruct (is_rollback w) eqn:Er; inversion E; subst o r; cbn [upd]; unfold check_txn_status_key; rewrite Eo, Ef, Er; eexists; split; reflexivity.
      + destruct rine.
        * destruct rp; [inversion E; subst o r; cbn [upd]; unfold check_txn_status_key; rewrite Eo, Ef; eexists; split; reflexivity|].
          inversion E; subst o r. cbn [upd]. unfold check_txn_status_key, write_rollback.
          assert (Ho : own_lock (mkKs (ks_lock ks) (put_write (rollback_write s) (ks_writes ks))) s = None) by exact Eo.
          rewrite Ho. cbn [ks_writes]. apply find_start_none in Ef.
          pose proof (find_start_put (rollback_write s) (ks_writes ks) Ef) as Hf. cbn [rollback_write w_start] in Hf. rewrite Hf.
          eexists; split; reflexivity.
        * inversion E; subst o r. cbn [upd]. unfold check_txn_status_key. rewrite Eo, Ef. eexists; split; reflexivity.
  Qed.
End Idem.

(* ------------------------------------------------------------------ store level *)
Lemma bfe_all_none st f keys : (forall k, In k keys -> f (get_ks st k) = KOk None) ->
  forall acc, batch_first_err st acc f keys = (acc, RErr None).
Proof.
  induction keys as [|k r IH]; intros H acc; cbn [batch_first_err]; [reflexivity|].
  rewrite (H k (or_introl eq_refl)). cbn [apply_opt]. apply IH. intros k' Hk'. apply H; right; exact Hk'.
Qed.

Lemma map_range_none st s e f : keys_sorted st ->
  (forall k, in_range s e k = true -> f k (get_ks st k) = None) -> map_range st s e f = st.
Proof.
  intros Hs H. unfold map_range, keys_in_range.
  assert (G : forall l acc, (forall kv, In kv l -> f (fst kv) (snd kv) = None) ->
                            fold_left (fun a kv => apply_opt a (fst kv) (f (fst kv) (snd kv))) l acc = acc).
  { induction l as [|kv r IH]; intros acc Hl; cbn [fold_left]; [reflexivity|].
    rewrite (Hl kv (or_introl eq_refl)). cbn [apply_opt]. apply IH. intros kv' Hkv'. apply Hl; right; exact Hkv'. }
  apply G. intros [k v] Hin. apply filter_In in Hin. destruct Hin as [Hin Hr]. cbn [fst snd] in *.
  rewrite <- (get_ks_in st k v Hs Hin). apply H; exact Hr.
Qed.

Section StoreIdem.
  Variable W : world.
  Hypothesis HW : World_ok W.

  Definition idem_class (c : cmd) : bool :=
    match c with
    | Commit _ _ _ | Rollback _ _ | Cleanup _ _ _ | HeartBeat _ _ _ | ResolveLock _ _ _ _ | BatchResolveLock _ _ _ => true
    | CheckTxnStatus _ _ _ _ rine rp => rine || negb rp
    | _ => false
    end.

  Lemma bfe_idem st f keys st1 r1 : wf_store W st ->
    (forall ks o, wf_ks W ks -> f ks = KOk o -> f (upd o ks) = KOk None) ->
    batch_first_err st st f keys = (st1, r1) -> batch_first_err st1 st1 f keys = (st1, r1).
  Proof.
    intros [Hs Hk] Hf E. destruct r1 as [[e|]|es0|es0 rs0|t0 c0 a0|t0|v0|ps0|ls0|mk0 mks0|].
    2:{ destruct (bfe_success st f Hs keys st st1 Hs E) as [H1 H2].
        apply bfe_all_none. intros k Hin. rewrite H2.
        assert (Hex : existsb (N.eqb k) keys = true) by (apply existsb_exists; exists k; split; [exact Hin|apply N.eqb_refl]).
        rewrite Hex. destruct (H1 k Hin) as [o Ho]. rewrite Ho. specialize (Hf _ _ (Hk k) Ho). destruct o; exact Hf. }
    all: assert (st1 = st) by
        (clear Hf; revert E; generalize st at 2 as acc; induction keys as [|k r IH]; intros acc E; cbn [batch_first_err] in E;
         [inversion E|destruct (f (get_ks st k)); [inversion E; reflexivity|eapply IH; exact E]]); subst st1; exact E.
  Qed.

  Theorem step_idem st c : wf_store W st -> idem_class c = true ->
    exists r2, step (fst (step st c)) c = (fst (step st c), r2) /\ resp_status r2 = resp_status (snd (step st c)).
  Proof.
    intros Hst Hc. pose proof Hst as [Hs Hk]. destruct c; cbn [idem_class] in Hc; try discriminate; cbn [step].
    - (* Commit *)
      destruct (batch_first_err st st (fun x => commit_key x start commit) ks) as [st1 r1] eqn:E. cbn [fst snd].
      exists r1. split; [|reflexivity]. eapply bfe_idem; [exact Hst| |exact E]. intros ks0 o Hwf Ho. eapply commit_key_idem; eauto.
    - (* Rollback *)
      destruct (batch_first_err st st (fun x => rollback_key x start) ks) as [st1 r1] eqn:E. cbn [fst snd].
      exists r1. split; [|reflexivity]. eapply bfe_idem; [exact Hst| |exact E]. intros ks0 o Hwf Ho. eapply rollback_key_idem; eauto.
    - (* Cleanup *)
      destruct (cleanup_key (get_ks st k) k start current) as [e|o] eqn:E; cbn [fst snd].
      + rewrite E. eexists; split; reflexivity.
      + rewrite get_apply_opt by exact Hs. rewrite N.eqb_refl.
        pose proof (cleanup_key_idem W _ k start current o (Hk k) E) as H. unfold upd in H. rewrite H. cbn [apply_opt].
        eexists; split; reflexivity.
    - (* CheckTxnStatus *)
      destruct (check_txn_status_key (get_ks st k) k lock_ts caller current rollback_if_not_exist resolving_pess) as [o r] eqn:E. cbn [fst snd].
      rewrite get_apply_opt by exact Hs. rewrite N.eqb_refl.
      destruct (cts_key_idem W _ k lock_ts caller current _ _ o r (Hk k) Hc E) as [r' [H1 H2]]. unfold upd in H1. rewrite H1. cbn [apply_opt].
      exists r'. split; [reflexivity|exact H2].
    - (* HeartBeat *)
      destruct (heartbeat_key (get_ks st k) k start advise) as [o r] eqn:E. cbn [fst snd].
      rewrite get_apply_opt by exact Hs. rewrite N.eqb_refl.
      pose proof (heartbeat_key_idem _ k start advise o r E) as H. unfold upd in H. rewrite H. cbn [apply_opt]. eexists; split; reflexivity.
    - (* ResolveLock *)
      cbn [fst snd]. rewrite map_range_none; [eexists; split; reflexivity|apply map_range_sorted; exact Hs|].
      intros k Hr. rewrite map_range_get by exact Hs. rewrite Hr. cbn [andb].
      destruct (existsb (fun kv => fst kv =? k) st) eqn:Ex.
      + apply (resolve_key_idem start commit k (get_ks st k)).
      + rewrite (get_ks_absent st k Hs); [reflexivity|]. intros Hin. apply in_map_iff in Hin. destruct Hin as [kv [Ek Hin]].
        assert (existsb (fun kv0 => fst kv0 =? k) st = true); [|congruence]. apply existsb_exists. exists kv. split; [exact Hin|apply N.eqb_eq; exact Ek].
    - (* BatchResolveLock *)
      cbn [fst snd]. rewrite map_range_none; [eexists; split; reflexivity|apply map_range_sorted; exact Hs|].
      intros k Hr. rewrite map_range_get by exact Hs. rewrite Hr. cbn [andb].
      destruct (existsb (fun kv => fst kv =? k) st) eqn:Ex.
      + apply (batch_resolve_key_idem infos k (get_ks st k)).
      + rewrite (get_ks_absent st k Hs); [reflexivity|]. intros Hin. apply in_map_iff in Hin. destruct Hin as [kv [Ek Hin]].
        assert (existsb (fun kv0 => fst kv0 =? k) st = true); [|congruence]. apply existsb_exists. exists kv. split; [exact Hin|apply N.eqb_eq; exact Ek].
  Qed.

  (* prewrite over the transaction's own lock, key level: whatever a successful prewrite of a key
     left, prewriting that key again (any mutation of that transaction) writes nothing and succeeds *)
  Lemma prewrite_key_idem ks m m' s p ttl mc ao x : prewrite_key ks m s p ttl mc ao = KOk (Some x) ->
    prewrite_key x m' s p ttl mc ao = KOk None.
  Proof.
    unfold prewrite_key. intros H.
    assert (G : forall ttl0 mc0, ks_lock (mkKs (Some (mkLock s p (mop_lock_op (m_op m)) (m_value m) ttl0 0 mc0)) (ks_writes ks))
                                 = Some (mkLock s p (mop_lock_op (m_op m)) (m_value m) ttl0 0 mc0)) by reflexivity.
    destruct (ks_lock ks) as [l|].
    - destruct (negb (l_start l =? s)); [discriminate|]. destruct (negb (is_pess l)); [discriminate|].
      destruct (ccv _ false ao false (ks_writes ks)); [discriminate|]. inversion H; subst x. cbn [ks_lock l_start].
      rewrite N.eqb_refl. cbn [negb]. unfold is_pess. cbn [l_op]. destruct (m_op m); reflexivity.
    - destruct (m_pess_check m); [discriminate|]. destruct (ccv _ false ao false (ks_writes ks)); [discriminate|].
      inversion H; subst x. cbn [ks_lock l_start]. rewrite N.eqb_refl. cbn [negb]. unfold is_pess. cbn [l_op]. destruct (m_op m); reflexivity.
  Qed.
  Lemma prewrite_key_idem_none ks m s p ttl mc ao : prewrite_key ks m s p ttl mc ao = KOk None ->
    forall m', prewrite_key ks m' s p ttl mc ao = KOk None.
  Proof.
    unfold prewrite_key. destruct (ks_lock ks) as [l|].
    - destruct (negb (l_start l =? s)); [discriminate|]. destruct (negb (is_pess l)); [reflexivity|].
      destruct (ccv _ false ao false (ks_writes ks)); discriminate.
    - destruct (m_pess_check m); [discriminate|]. destruct (ccv _ false ao false (ks_writes ks)); discriminate.
  Qed.
End StoreIdem.
