(* Mvcc/ProofsDef.v — the three behaviours the property fixes by definition (TiKV's):
   a prewrite over the own pessimistic lock is not re-checked for write conflicts; a pessimistic
   lock request over the own prewrite lock is refused; committing a leftover pessimistic lock
   changes no data. *)
From Verif Require Import Mvcc.Model Mvcc.Spec Mvcc.ProofsStore Mvcc.ProofsKey.

Definition is_write_conflict (e : err) : bool := match e with EWriteConflict _ _ _ _ => true | _ => false end.

Lemma ccv_loop_no_conflict a ao ws : forall nsne ngv ncr ret e,
  ccv_loop a ao None ws nsne ngv ncr ret = inl e -> is_write_conflict e = false.
Proof.
  induction ws as [|w r IH]; intros nsne ngv ncr ret e; cbn [ccv_loop]; [discriminate|].
  destruct (ncr && is_rollback w && (w_commit w =? c_start a)); [intros E; inversion E; reflexivity|].
  assert (G : forall nsne0,
    (let '(ngv0, ret0) := match w_kind w with
                          | WPut => if ngv then (false, if w_value w =? 0 then None else Some (w_value w)) else (ngv, ret)
                          | WDel => if ngv then (false, None) else (ngv, ret)
                          | _ => (ngv, ret)
                          end in
     if negb nsne0 && negb ngv0 && negb (ncr && negb (w_commit w <? c_start a)) then inr ret0
     else match r with
          | [] => if as_eqb (c_assert a) AsExist && ao then inl (EAssertionFailed 0 0) else inr ret0
          | _ => ccv_loop a ao None r nsne0 ngv0 (ncr && negb (w_commit w <? c_start a)) ret0
          end) = inl e -> is_write_conflict e = false).
  { intros nsne0. destruct (match w_kind w with WPut => _ | WDel => _ | _ => _ end) as [ngv0 ret0].
    destruct (negb nsne0 && negb ngv0 && negb (ncr && negb (w_commit w <? c_start a))); [discriminate|].
    destruct r as [|w1 r1].
    - destruct (as_eqb (c_assert a) AsExist && ao); [intros E; inversion E; reflexivity|discriminate].
    - apply IH. }
  destruct (w_kind w).
  - destruct nsne; [intros E; inversion E; reflexivity|].
    destruct (negb (as_eqb (c_assert a) AsNone) && negb (c_pess_op a) && ao && as_eqb (c_assert a) AsNotExist); [intros E; inversion E; reflexivity|apply G].
  - apply G.
  - apply G.
  - destruct nsne; [intros E; inversion E; reflexivity|].
    destruct (negb (as_eqb (c_assert a) AsNone) && negb (c_pess_op a) && ao && as_eqb (c_assert a) AsNotExist); [intros E; inversion E; reflexivity|apply G].
Qed.

Lemma own_pess_prewrite_not_rechecked ks m s p ttl mc ao l e :
  ks_lock ks = Some l -> l_start l = s -> is_pess l = true ->
  (forall w, In w (ks_writes ks) -> w_commit w <= max_ts) ->
  prewrite_key ks m s p ttl mc ao = KErr e -> is_write_conflict e = false.
Proof.
  intros El Es Ep Hb. unfold prewrite_key. rewrite El, Es, N.eqb_refl, Ep. cbn [negb].
  unfold ccv. cbn [c_for_update c_assert c_pess_op c_key].
  destruct (ks_writes ks) as [|w r] eqn:Ew.
  - destruct (as_eqb (m_assert m) AsExist && ao && negb false); [intros E; inversion E; reflexivity|discriminate].
  - assert (Hw : max_ts <? w_commit w = false) by (apply N.ltb_ge; apply Hb; left; reflexivity). rewrite Hw.
    destruct (ccv_loop _ ao None (w :: r) _ false true None) as [e0|ret] eqn:El0; [|discriminate].
    intros E; inversion E; subst e0. eapply ccv_loop_no_conflict; exact El0.
Qed.

Lemma pess_lock_over_prewrite_refused ks r k ne l :
  ks_lock ks = Some l -> l_start l = p_start r -> is_pess l = false ->
  exists e, pess_lock_key ks r k ne = inl e.
Proof.
  intros El Es Ep. unfold pess_lock_key. destruct (p_lock_only_if_exists r && negb (p_return_values r)); [eexists; reflexivity|].
  rewrite El, Es, N.eqb_refl, Ep. cbn [negb]. eexists; reflexivity.
Qed.

Lemma read_writes_put_lock w ws t : w_kind w = WLock -> ~ In (w_commit w) (map w_commit ws) ->
  read_writes (put_write w ws) t = read_writes ws t.
Proof.
  intros Hk. induction ws as [|x r IH]; intros Hn; cbn [put_write].
  - cbn [read_writes]. rewrite Hk. reflexivity.
  - cbn [map In] in Hn. destruct (w_commit x <? w_commit w).
    + cbn [read_writes]. rewrite Hk. reflexivity.
    + destruct (N.eqb_spec (w_commit x) (w_commit w)); [tauto|].
      cbn [read_writes]. rewrite IH by tauto. reflexivity.
Qed.

Lemma commit_pess_lock_no_data ks l s c t : is_pess l = true -> ~ In c (map w_commit (ks_writes ks)) ->
  read_writes (ks_writes (commit_lock ks l s c)) t = read_writes (ks_writes ks) t.
Proof.
  intros Hp Hn. unfold commit_lock. cbn [ks_writes]. apply read_writes_put_lock; [|exact Hn].
  unfold is_pess in Hp. destruct (l_op l); try discriminate. reflexivity.
Qed.
