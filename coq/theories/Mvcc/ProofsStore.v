(* Mvcc/ProofsStore.v — the store as a sorted association list: get/set/delete laws,
   range maps and write batches. *)
From Verif Require Import Mvcc.Model Mvcc.Spec.
From Coq Require Import Sorted.

Definition keys_sorted (st : store) : Prop := StronglySorted N.lt (map fst st).

Lemma ks_is_empty_eq v : ks_is_empty v = true -> v = empty_ks.
Proof. destruct v as [[l|] [|w ws]]; cbn; intros; try discriminate; reflexivity. Qed.

Lemma keys_sorted_nil : keys_sorted [].
Proof. constructor. Qed.

Lemma keys_sorted_cons k v r : keys_sorted ((k, v) :: r) <-> keys_sorted r /\ Forall (fun k' => k < k') (map fst r).
Proof.
  unfold keys_sorted; cbn [map fst]. split.
  - intros H. inversion H; subst. split; assumption.
  - intros [H1 H2]. constructor; assumption.
Qed.

Lemma get_ks_below k v r k' : Forall (fun x => k < x) (map fst r) -> k' <= k -> k' <> k -> get_ks ((k, v) :: r) k' = empty_ks.
Proof.
  intros _ Hle Hne. cbn [get_ks]. destruct (N.eqb_spec k k'); [congruence|].
  destruct (N.ltb_spec k' k); [reflexivity|lia].
Qed.

Lemma get_ks_notin st k : keys_sorted st -> Forall (fun x => k < x) (map fst st) -> get_ks st k = empty_ks.
Proof.
  destruct st as [|[k0 v0] r]; intros Hs Hf; [reflexivity|].
  cbn [map fst] in Hf. inversion Hf; subst. cbn [get_ks].
  destruct (N.eqb_spec k0 k); [lia|]. destruct (N.ltb_spec k k0); [reflexivity|lia].
Qed.

Lemma get_set_raw st k v k' : keys_sorted st ->
  get_ks (set_ks_raw st k v) k' = if k' =? k then v else get_ks st k'.
Proof.
  induction st as [|[k0 v0] r IH]; intros Hs.
  - cbn [set_ks_raw get_ks]. rewrite (N.eqb_sym k k'). destruct (N.eqb_spec k' k); [reflexivity|].
    destruct (k' <? k); reflexivity.
  - apply keys_sorted_cons in Hs. destruct Hs as [Hr Hf]. cbn [set_ks_raw].
    destruct (N.eqb_spec k0 k) as [EE|Hne]; [subst k0|].
    + cbn [get_ks]. rewrite (N.eqb_sym k k'). destruct (N.eqb_spec k' k); reflexivity.
    + destruct (N.ltb_spec k k0) as [Hlt|Hge].
      * cbn [get_ks]. rewrite (N.eqb_sym k k'). destruct (N.eqb_spec k' k) as [EE|Hne']; [subst k'; reflexivity|].
        destruct (N.ltb_spec k' k) as [Hl|Hg].
        -- destruct (N.eqb_spec k0 k'); [lia|]. destruct (N.ltb_spec k' k0); [reflexivity|lia].
        -- reflexivity.
      * cbn [get_ks]. destruct (N.eqb_spec k0 k') as [EE|Hne']; [subst k0|].
        -- destruct (N.eqb_spec k' k); [congruence|reflexivity].
        -- destruct (N.ltb_spec k' k0) as [Hl|Hg].
           ++ destruct (N.eqb_spec k' k); [lia|reflexivity].
           ++ apply IH; exact Hr.
Qed.

Lemma keys_set_raw st k v x : In x (map fst (set_ks_raw st k v)) -> x = k \/ In x (map fst st).
Proof.
  induction st as [|[k0 v0] r IH]; cbn [set_ks_raw map fst In].
  - intros [H|[]]; auto.
  - destruct (k0 =? k) eqn:E; [|destruct (k <? k0)]; cbn [map fst In]; intros H.
    + apply N.eqb_eq in E; subst. destruct H; auto.
    + destruct H as [H|H]; auto.
    + destruct H as [H|H]; auto. destruct (IH H); auto.
Qed.

Lemma sorted_set_raw st k v : keys_sorted st -> keys_sorted (set_ks_raw st k v).
Proof.
  induction st as [|[k0 v0] r IH]; intros Hs.
  - cbn. apply keys_sorted_cons. split; constructor.
  - pose proof Hs as Hs0. apply keys_sorted_cons in Hs. destruct Hs as [Hr Hf]. cbn [set_ks_raw].
    destruct (N.eqb_spec k0 k) as [EE|Hne]; [subst k0|].
    + apply keys_sorted_cons. split; assumption.
    + destruct (N.ltb_spec k k0) as [Hlt|Hge].
      * apply keys_sorted_cons. split; [exact Hs0|]. cbn [map fst]. constructor; [exact Hlt|].
        eapply Forall_impl; [|exact Hf]. cbn. intros; lia.
      * apply keys_sorted_cons. split; [apply IH; exact Hr|].
        apply Forall_forall. intros x Hx. destruct (keys_set_raw _ _ _ _ Hx) as [EE|Hx']; [subst x; lia|].
        rewrite Forall_forall in Hf. apply Hf; exact Hx'.
Qed.

Lemma keys_del st k x : In x (map fst (del_ks st k)) -> In x (map fst st).
Proof.
  induction st as [|[k0 v0] r IH]; cbn [del_ks map fst In]; [tauto|].
  destruct (k0 =? k); [|destruct (k <? k0)]; cbn [map fst In]; intros H; auto.
  destruct H; auto.
Qed.

Lemma sorted_del st k : keys_sorted st -> keys_sorted (del_ks st k).
Proof.
  induction st as [|[k0 v0] r IH]; intros Hs; [exact Hs|].
  pose proof Hs as Hs0. apply keys_sorted_cons in Hs. destruct Hs as [Hr Hf]. cbn [del_ks].
  destruct (k0 =? k); [exact Hr|]. destruct (k <? k0); [exact Hs0|].
  apply keys_sorted_cons. split; [apply IH; exact Hr|].
  apply Forall_forall. intros x Hx. apply keys_del in Hx. rewrite Forall_forall in Hf; auto.
Qed.

Lemma get_del st k k' : keys_sorted st -> get_ks (del_ks st k) k' = if k' =? k then empty_ks else get_ks st k'.
Proof.
  induction st as [|[k0 v0] r IH]; intros Hs.
  - cbn. destruct (k' =? k); reflexivity.
  - pose proof Hs as Hs0. apply keys_sorted_cons in Hs. destruct Hs as [Hr Hf]. cbn [del_ks].
    destruct (N.eqb_spec k0 k) as [EE|Hne]; [subst k0|].
    + destruct (N.eqb_spec k' k) as [EE|Hne']; [subst k'|].
      * apply get_ks_notin; assumption.
      * cbn [get_ks]. destruct (N.eqb_spec k k'); [congruence|].
        destruct (N.ltb_spec k' k) as [Hl|Hg]; [|reflexivity].
        apply get_ks_notin; [exact Hr|]. eapply Forall_impl; [|exact Hf]. cbn; intros; lia.
    + destruct (N.ltb_spec k k0) as [Hlt|Hge].
      * destruct (N.eqb_spec k' k) as [EE|Hne']; [subst k'|reflexivity].
        cbn [get_ks]. destruct (N.eqb_spec k0 k); [congruence|]. destruct (N.ltb_spec k k0); [reflexivity|lia].
      * cbn [get_ks]. destruct (N.eqb_spec k0 k') as [EE|Hne']; [subst k0|].
        -- destruct (N.eqb_spec k' k); [congruence|reflexivity].
        -- destruct (N.ltb_spec k' k0) as [Hl|Hg].
           ++ destruct (N.eqb_spec k' k); [lia|reflexivity].
           ++ apply IH; exact Hr.
Qed.

Lemma get_set st k v k' : keys_sorted st -> get_ks (set_ks st k v) k' = if k' =? k then v else get_ks st k'.
Proof.
  intros Hs. unfold set_ks. destruct (ks_is_empty v) eqn:E.
  - rewrite get_del by exact Hs. apply ks_is_empty_eq in E. subst. reflexivity.
  - apply get_set_raw; exact Hs.
Qed.
Lemma sorted_set st k v : keys_sorted st -> keys_sorted (set_ks st k v).
Proof. intros Hs. unfold set_ks. destruct (ks_is_empty v); [apply sorted_del|apply sorted_set_raw]; exact Hs. Qed.

Lemma get_apply_opt st k o k' : keys_sorted st ->
  get_ks (apply_opt st k o) k' = if k' =? k then match o with Some x => x | None => get_ks st k' end else get_ks st k'.
Proof.
  intros Hs. destruct o; cbn [apply_opt]; [apply get_set; exact Hs|]. destruct (k' =? k); reflexivity.
Qed.
Lemma sorted_apply_opt st k o : keys_sorted st -> keys_sorted (apply_opt st k o).
Proof. destruct o; cbn; [apply sorted_set|auto]. Qed.

(* a stored pair is what get_ks returns *)
Lemma get_ks_in st k v : keys_sorted st -> In (k, v) st -> get_ks st k = v.
Proof.
  induction st as [|[k0 v0] r IH]; intros Hs Hin; [destruct Hin|].
  apply keys_sorted_cons in Hs. destruct Hs as [Hr Hf]. cbn [get_ks]. destruct Hin as [E|Hin].
  - inversion E; subst. rewrite N.eqb_refl. reflexivity.
  - assert (k0 < k) by (rewrite Forall_forall in Hf; apply Hf; change k with (fst (k, v)); apply in_map; exact Hin).
    destruct (N.eqb_spec k0 k); [lia|]. destruct (N.ltb_spec k k0); [lia|]. apply IH; assumption.
Qed.
Lemma get_ks_absent st k : keys_sorted st -> ~ In k (map fst st) -> get_ks st k = empty_ks.
Proof.
  induction st as [|[k0 v0] r IH]; intros Hs Hn; [reflexivity|].
  apply keys_sorted_cons in Hs. destruct Hs as [Hr Hf]. cbn [get_ks map fst In] in *.
  destruct (N.eqb_spec k0 k); [tauto|]. destruct (k <? k0); [reflexivity|]. apply IH; tauto.
Qed.

Lemma get_ks_mem st k : keys_sorted st -> get_ks st k <> empty_ks -> In (k, get_ks st k) st.
Proof.
  induction st as [|[k0 v0] r IH]; intros Hs Hne; cbn [get_ks] in *; [congruence|].
  apply keys_sorted_cons in Hs. destruct Hs as [Hr _].
  destruct (N.eqb_spec k0 k); [subst; left; reflexivity|]. destruct (k <? k0); [congruence|]. right. apply IH; assumption.
Qed.

(* ------------------------------------------------------------------ fold of per-key updates *)
Section Fold.
  Variable P : kstate -> Prop.
  (* a fold of optional per-key replacements keeps a per-key invariant when every replacement does *)
  Lemma fold_apply_inv (l : list (key * option kstate)) acc :
    keys_sorted acc -> (forall k, P (get_ks acc k)) ->
    (forall k x, In (k, Some x) l -> P x) ->
    let st' := fold_left (fun a kv => apply_opt a (fst kv) (snd kv)) l acc in
    keys_sorted st' /\ forall k, P (get_ks st' k).
  Proof.
    revert acc. induction l as [|[k0 o] r IH]; intros acc Hs Hp Hl; cbn [fold_left]; [split; assumption|].
    apply IH.
    - apply sorted_apply_opt; exact Hs.
    - intros k. cbn [fst snd]. rewrite get_apply_opt by exact Hs. destruct (k =? k0); [|apply Hp].
      destruct o; [apply (Hl k0); left; reflexivity|apply Hp].
    - intros k x Hin. apply (Hl k); right; exact Hin.
  Qed.
End Fold.

(* the value of one key after a fold: the last replacement of that key, if any *)
Lemma fold_apply_get (l : list (key * option kstate)) acc k :
  keys_sorted acc ->
  let st' := fold_left (fun a kv => apply_opt a (fst kv) (snd kv)) l acc in
  get_ks st' k = get_ks acc k \/ exists x, In (k, Some x) l /\ get_ks st' k = x.
Proof.
  revert acc. induction l as [|[k0 o] r IH]; intros acc Hs; cbn [fold_left]; [left; reflexivity|].
  destruct (IH (apply_opt acc (fst (k0, o)) (snd (k0, o))) (sorted_apply_opt _ _ _ Hs)) as [H|[x [Hin Hx]]].
  - cbn [fst snd] in H. rewrite get_apply_opt in H by exact Hs. destruct (N.eqb_spec k k0) as [EE|]; [subst k0|left; exact H].
    destruct o; [right; eexists; split; [left; reflexivity|exact H]|left; exact H].
  - right. exists x. split; [right; exact Hin|exact Hx].
Qed.

(* keys not mentioned keep their value *)
Lemma fold_apply_other (l : list (key * option kstate)) acc k :
  keys_sorted acc -> ~ In k (map fst l) ->
  get_ks (fold_left (fun a kv => apply_opt a (fst kv) (snd kv)) l acc) k = get_ks acc k.
Proof.
  revert acc. induction l as [|[k0 o] r IH]; intros acc Hs Hn; cbn [fold_left]; [reflexivity|].
  cbn [map fst In] in Hn. rewrite IH; [|apply sorted_apply_opt; exact Hs|tauto].
  cbn [fst snd]. rewrite get_apply_opt by exact Hs. destruct (N.eqb_spec k k0); [subst; tauto|reflexivity].
Qed.

(* with distinct keys the fold is a pointwise update *)
Lemma fold_apply_nodup (l : list (key * option kstate)) acc k o :
  keys_sorted acc -> NoDup (map fst l) -> In (k, o) l ->
  get_ks (fold_left (fun a kv => apply_opt a (fst kv) (snd kv)) l acc) k = match o with Some x => x | None => get_ks acc k end.
Proof.
  revert acc. induction l as [|[k0 o0] r IH]; intros acc Hs Hnd Hin; [destruct Hin|].
  cbn [map fst] in Hnd. inversion Hnd; subst. cbn [fold_left]. destruct Hin as [E|Hin].
  - inversion E; subst. rewrite fold_apply_other; [|apply sorted_apply_opt; exact Hs|assumption].
    cbn [fst snd]. rewrite get_apply_opt by exact Hs. rewrite N.eqb_refl. reflexivity.
  - rewrite (IH _ (sorted_apply_opt _ _ _ Hs) H2 Hin). destruct o; [reflexivity|].
    cbn [fst snd]. rewrite get_apply_opt by exact Hs.
    destruct (N.eqb_spec k k0); [|reflexivity]. subst. exfalso. apply H1. change k0 with (fst (k0, @None kstate)). apply in_map; exact Hin.
Qed.

(* map_range as such a fold *)
Lemma map_range_fold st s e f :
  map_range st s e f = fold_left (fun a kv => apply_opt a (fst kv) (snd kv))
                                 (map (fun kv => (fst kv, f (fst kv) (snd kv))) (keys_in_range st s e)) st.
Proof.
  unfold map_range. generalize (keys_in_range st s e). intros l. generalize st.
  induction l as [|kv r IH]; intros acc; cbn [fold_left map]; [reflexivity|]. apply IH.
Qed.

Lemma sorted_nodup st : keys_sorted st -> NoDup (map fst st).
Proof.
  unfold keys_sorted. induction (map fst st) as [|x r IH]; intros H; [constructor|].
  inversion H; subst. constructor; [|apply IH; assumption].
  intros Hin. rewrite Forall_forall in H3. specialize (H3 _ Hin). lia.
Qed.

Lemma nodup_filter_keys (st : store) p : NoDup (map fst st) -> NoDup (map fst (filter p st)).
Proof.
  induction st as [|kv r IH]; cbn [filter map]; intros H; [constructor|].
  inversion H; subst. destruct (p kv); [|apply IH; assumption].
  cbn [map]. constructor; [|apply IH; assumption].
  intros Hin. apply H2. apply in_map_iff in Hin. destruct Hin as [x [E Hx]]. apply filter_In in Hx.
  apply in_map_iff. exists x. tauto.
Qed.

Lemma map_range_get st s e f k : keys_sorted st ->
  get_ks (map_range st s e f) k =
  if in_range s e k && existsb (fun kv => fst kv =? k) st
  then match f k (get_ks st k) with Some x => x | None => get_ks st k end
  else get_ks st k.
Proof.
  intros Hs. rewrite map_range_fold.
  destruct (in_range s e k && existsb (fun kv => fst kv =? k) st) eqn:E.
  - apply andb_true_iff in E. destruct E as [Hr Hex]. apply existsb_exists in Hex. destruct Hex as [[k0 v0] [Hin Hk]].
    cbn [fst] in Hk. apply N.eqb_eq in Hk. subst k0.
    rewrite (fold_apply_nodup _ st k (f k v0)); [rewrite (get_ks_in st k v0 Hs Hin); reflexivity|exact Hs| |].
    + rewrite map_map. cbn [fst]. apply nodup_filter_keys. apply sorted_nodup; exact Hs.
    + apply in_map_iff. exists (k, v0). cbn [fst snd]. split; [reflexivity|].
      apply filter_In. split; [exact Hin|exact Hr].
  - apply fold_apply_other; [exact Hs|]. rewrite map_map. cbn [fst]. intros Hin.
    apply in_map_iff in Hin. destruct Hin as [[k0 v0] [Hk Hin]]. cbn [fst] in Hk. subst k0.
    apply filter_In in Hin. destruct Hin as [Hin Hr]. cbn [fst] in Hr. rewrite Hr in E. cbn [andb] in E.
    assert (existsb (fun kv => fst kv =? k) st = true); [|congruence].
    apply existsb_exists. exists (k, v0). split; [exact Hin|cbn; apply N.eqb_refl].
Qed.

Lemma map_range_sorted st s e f : keys_sorted st -> keys_sorted (map_range st s e f).
Proof.
  intros Hs. rewrite map_range_fold.
  apply (fold_apply_inv (fun _ => True) _ st Hs); auto.
Qed.
