(* Mvcc/ProofsLate.v — a prewrite arriving after its transaction's commit / rollback record is
   rejected; the record stays until GC passes its start ts; every rollback path leaves it;
   the three behaviours fixed by definition (own pessimistic lock, own prewrite lock, leftover
   pessimistic lock). *)
From Verif Require Import Mvcc.Model Mvcc.Spec Mvcc.ProofsStore Mvcc.ProofsKey Mvcc.ProofsKstep Mvcc.ProofsShape Mvcc.ProofsStep.

(* ------------------------------------------------------------------ late prewrite *)
Lemma prewrite_key_late W ks m s p ttl mc ao : World_ok W -> wf_ks W ks -> In s (map w_start (ks_writes ks)) ->
  exists e, prewrite_key ks m s p ttl mc ao = KErr e.
Proof.
  intros HW Hwf Hin. unfold prewrite_key. destruct (ks_lock ks) as [l|] eqn:El.
  - destruct (N.eqb_spec (l_start l) s) as [E|E]; cbn [negb]; [|eexists; reflexivity].
    exfalso. destruct (wf_lock _ _ Hwf l El) as [_ Hn]. rewrite E in Hn. exact (Hn Hin).
  - destruct (m_pess_check m); [eexists; reflexivity|].
    destruct (ccv _ false ao false (ks_writes ks)) as [e|v c] eqn:Ec; [eexists; reflexivity|].
    exfalso. eapply ccv_accept_no_start; [exact (wf_desc _ _ Hwf)|apply (wf_no_start_bound W HW); exact Hwf|exact Ec|exact Hin].
Qed.

Lemma prewrite_item_late W st m primary s fu ttl mc ao : World_ok W -> wf_ks W (get_ks st (m_key m)) ->
  In s (map w_start (ks_writes (get_ks st (m_key m)))) -> m_op m <> MCheckNotExists ->
  exists e, prewrite_item st m primary s fu ttl mc ao = Some (KErr e).
Proof.
  intros HW Hwf Hin Hop. unfold prewrite_item.
  destruct (match m_op m with
            | MInsert | MCheckNotExists =>
              if fu =? 0 then match get_ks_value (get_ks st (m_key m)) (m_key m) s [] with
                              | RdLocked l => if l_start l =? s then None else Some (ELocked (m_key m) l)
                              | RdVal (Some _) => Some (EAlreadyExist (m_key m))
                              | RdVal None => None
                              end else None
            | _ => None end) as [e|]; [eexists; reflexivity|].
  destruct (prewrite_key_late W _ m s primary ttl mc ao HW Hwf Hin) as [e He]. rewrite He.
  destruct (m_op m); try (eexists; reflexivity). congruence.
Qed.

Lemma prewrite_all_err st primary s fu ttl mc ao m e : forall ms acc,
  In m ms -> prewrite_item st m primary s fu ttl mc ao = Some (KErr e) ->
  has_err (snd (prewrite_all st acc ms primary s fu ttl mc ao)) = true.
Proof.
  induction ms as [|m0 r IH]; intros acc Hin He; [destruct Hin|]. cbn [prewrite_all].
  destruct Hin as [E|Hin].
  - subst m0. rewrite He. destruct (prewrite_all st acc r primary s fu ttl mc ao). reflexivity.
  - destruct (prewrite_item st m0 primary s fu ttl mc ao) as [[e0|o]|].
    + destruct (prewrite_all st acc r primary s fu ttl mc ao). reflexivity.
    + specialize (IH (apply_opt acc (m_key m0) o) Hin He).
      destruct (prewrite_all st (apply_opt acc (m_key m0) o) r primary s fu ttl mc ao). cbn [snd] in *. cbn [has_err existsb]. exact IH.
    + apply IH; assumption.
Qed.

Lemma late_prewrite_rejected cmds k s ms primary fu ttl mc ao :
  oracle_ts cmds = true -> has_write (run cmds) k s = true ->
  (exists m, In m ms /\ m_key m = k /\ m_op m <> MCheckNotExists) ->
  exists es, step (run cmds) (Prewrite ms primary s fu ttl mc ao) = (run cmds, RErrs es) /\ has_err es = true.
Proof.
  intros Ho Hw [m [Hin [Ek Hop]]]. pose proof (oracle_run_wf cmds Ho) as [Hs Hk].
  assert (HW : World_ok (world_of cmds)).
  { apply world_ok_spec. unfold oracle_ts in Ho. apply andb_true_iff in Ho. tauto. }
  apply has_write_true in Hw. subst k.
  destruct (prewrite_item_late _ (run cmds) m primary s fu ttl mc ao HW (Hk _) Hw Hop) as [e He].
  pose proof (prewrite_all_err (run cmds) primary s fu ttl mc ao m e ms (run cmds) Hin He) as H.
  cbn [step]. destruct (prewrite_all (run cmds) (run cmds) ms primary s fu ttl mc ao) as [acc es]. cbn [snd] in H.
  exists es. rewrite H. split; reflexivity.
Qed.

(* ------------------------------------------------------------------ the record stays until GC passes its start *)
Lemma gc_writes_keep sp b ws x : In x ws -> sp < w_commit x -> In x (gc_writes sp b ws).
Proof.
  revert b. induction ws as [|w r IH]; intros b Hin Hlt; [destruct Hin|]. cbn [gc_writes].
  destruct (N.ltb_spec sp (w_commit w)) as [H|H].
  - destruct Hin as [E|Hin]; [left; exact E|right; apply IH; assumption].
  - destruct Hin as [E|Hin]; [subst; lia|].
    destruct (w_kind w); [destruct b; [right|]|..]; apply IH; assumption.
Qed.

Lemma put_keep_start W w ws s : World_ok W -> Forall (write_ok W) ws -> write_ok W w ->
  In s (map w_start ws) -> In s (map w_start (put_write w ws)).
Proof.
  intros HW Hf Hw Hin. apply in_map_iff in Hin. destruct Hin as [w0 [Es Hw0]].
  destruct (N.eq_dec (w_commit w0) (w_commit w)) as [Ec|Ec].
  - assert (Hws : w_start w = s); [|rewrite <- Hws; apply in_map; apply put_write_has].
    rewrite Forall_forall in Hf. destruct (Hf _ Hw0) as [Hs0 H0]. destruct Hw as [Hs1 H1].
    destruct (is_rollback w0), (is_rollback w).
    + congruence.
    + exfalso. apply (wo_disj W HW _ _ (w_start w0) H1 Hs0). congruence.
    + exfalso. apply (wo_disj W HW _ _ (w_start w) H0 Hs1). congruence.
    + rewrite Ec in H0. rewrite <- Es. apply eq_sym. apply (proj2 (wo_inj W HW _ _ _ _ H0 H1)). reflexivity.
  - rewrite <- Es. apply in_map. apply put_write_keep; assumption.
Qed.

Lemma marker_kstep W st c k x s : World_ok W -> wf_ks W (get_ks st k) -> wf_ks W x ->
  kstep st c k x -> is_gc_over c s = false ->
  In s (map w_start (ks_writes (get_ks st k))) -> In s (map w_start (ks_writes x)).
Proof.
  intros HW Hwf Hwx Hk Hgc Hin. pose proof (kstep_shape st c k x Hk) as Hsh.
  pose proof (wf_wok _ _ Hwx) as Hfx. remember (ks_writes x) as wx eqn:Ex.
  destruct Hsh as [|w|s0 e0 sp Ec|s0 e0 Ec].
  4:{ subst c. discriminate Hgc. }
  - exact Hin.
  - eapply put_keep_start; [exact HW|exact (wf_wok _ _ Hwf)| |exact Hin].
    rewrite Forall_forall in Hfx. apply Hfx. apply put_write_has.
  - subst c. cbn [is_gc_over] in Hgc. apply N.leb_gt in Hgc.
    apply in_map_iff in Hin. destruct Hin as [w0 [Es Hw0]]. rewrite <- Es. apply in_map.
    apply gc_writes_keep; [exact Hw0|].
    destruct (wf_no_start_bound W HW _ s Hwf w0 Hw0 Es) as [[_ H]|H]; lia.
Qed.
