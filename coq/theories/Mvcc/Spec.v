(* Mvcc/Spec.v — the discipline [oracle_ts], declarative (order-independent) read / scan
   specifications and the boolean forms of the C12 conclusions that the check evaluates on
   the implementation's observables. Executable definitions only. *)
From Verif Require Export Mvcc.Model.

(* ------------------------------------------------------------------ the discipline *)
(* transaction identities (start ts) and (start, commit) pairs a command mentions *)
Definition cmd_starts (c : cmd) : list ts :=
  match c with
  | Prewrite _ _ s _ _ _ _ => [s]
  | PessLock r => [p_start r]
  | PessRollback _ _ _ s _ => [s]
  | Commit _ s _ => [s]
  | Rollback _ s => [s]
  | Cleanup _ s _ => [s]
  | CheckTxnStatus _ s _ _ _ _ => [s]
  | HeartBeat _ s _ => [s]
  | ResolveLock _ _ s _ => [s]
  | BatchResolveLock _ _ infos => map fst infos
  | _ => []
  end.
Definition cmd_pairs (c : cmd) : list (ts * ts) :=
  match c with
  | Commit _ s c => [(s, c)]
  | ResolveLock _ _ s c => if 0 <? c then [(s, c)] else []
  | BatchResolveLock _ _ infos => filter (fun p => 0 <? snd p) infos
  | _ => []
  end.

Record world := mkWorld { w_starts : list ts; w_pairs : list (ts * ts) }.
Definition world_of (cmds : list cmd) : world :=
  mkWorld (flat_map cmd_starts cmds) (flat_map cmd_pairs cmds).

(* timestamps a timestamp oracle can issue: a transaction commits after it starts, two
   transactions never share a commit ts, one transaction has one commit ts, and no commit ts
   is any transaction's start ts *)
Definition world_ok (W : world) : bool :=
  forallb (fun p => (fst p <? snd p)
                    && forallb (fun q => Bool.eqb (fst p =? fst q) (snd p =? snd q)) (w_pairs W)
                    && forallb (fun s => negb (snd p =? s)) (w_starts W)) (w_pairs W).

(* no lock request of a transaction reaches a key on which that transaction's commit or
   rollback record lies *)
Definition lock_req_ok (st : store) (c : cmd) : bool :=
  match c with
  | PessLock r => forallb (fun kb => negb (has_write st (fst kb) (p_start r))) (p_keys r)
  | _ => true
  end.
Fixpoint disciplined_from (st : store) (cmds : list cmd) : bool :=
  match cmds with
  | [] => true
  | c :: r => lock_req_ok st c && disciplined_from (fst (step st c)) r
  end.
Definition oracle_ts (cmds : list cmd) : bool := world_ok (world_of cmds) && disciplined_from [] cmds.

(* ------------------------------------------------------------------ declarative reads *)
Definition is_data (w : write) : bool := match w_kind w with WPut | WDel => true | _ => false end.
Definition visible (t : ts) (w : write) : bool := is_data w && (w_commit w <=? t).
(* the visible record of greatest commit ts, whatever the order of the list *)
Fixpoint newest_visible (ws : list write) (t : ts) : option write :=
  match ws with
  | [] => None
  | w :: r => match newest_visible r t with
              | Some x => if visible t w && (w_commit x <? w_commit w) then Some w else Some x
              | None => if visible t w then Some w else None
              end
  end.
Definition spec_read (ws : list write) (t : ts) : option (value * ts) :=
  match newest_visible ws t with
  | Some w => match w_kind w with WPut => Some (w_value w, w_commit w) | _ => None end
  | None => None
  end.
Definition data_lock (l : lock) : bool := op_eqb (l_op l) LPut || op_eqb (l_op l) LDel.
(* the point-get exception: a read at max ts of the lock's own primary key reads below the lock *)
Definition max_ts_exception (l : lock) (k : key) (t : ts) : bool := (t =? max_ts) && (l_primary l =? k).
Definition blocking (l : lock) (k : key) (t : ts) (resolved : list ts) : bool :=
  (l_start l <=? t) && data_lock l && negb (max_ts_exception l k t) && negb (existsb (N.eqb (l_start l)) resolved).
Definition spec_get_ks (ks : kstate) (k : key) (t : ts) (resolved : list ts) : rd :=
  match ks_lock ks with
  | Some l => if blocking l k t resolved then RdLocked l
              else if (l_start l <=? t) && data_lock l && max_ts_exception l k t
                   then RdVal (spec_read (ks_writes ks) (l_start l - 1))
                   else RdVal (spec_read (ks_writes ks) t)
  | None => RdVal (spec_read (ks_writes ks) t)
  end.
Definition rd_resp (k : key) (r : rd) : resp :=
  match r with RdLocked l => RErr (Some (ELocked k l)) | RdVal v => RGet v end.
Definition spec_get (st : store) (k : key) (t : ts) (resolved : list ts) : resp :=
  rd_resp k (spec_get_ks (get_ks st k) k t resolved).

(* a scan is the per-key gets of its range, in key order, cut at limit *)
Definition get_pairs (st : store) (t : ts) (resolved : list ts) (k : key) : list pair :=
  match get st k t resolved with
  | RErr (Some e) => [PErr k e]
  | RGet (Some (v, _)) => [PVal k v 0]
  | _ => []
  end.
Definition spec_scan_all (st : store) (s e : key) (t : ts) (resolved : list ts) : list pair :=
  flat_map (get_pairs st t resolved) (filter (in_range s e) (map fst st)).
Definition spec_scan (st : store) (s e : key) (limit : nat) (t : ts) (resolved : list ts) : list pair :=
  firstn limit (spec_scan_all st s e t resolved).
Definition spec_rscan (st : store) (s e : key) (limit : nat) (t : ts) (resolved : list ts) : list pair :=
  firstn limit (rev (spec_scan_all st s e t resolved)).

(* isolation level RC: the same reads with every lock ignored *)
Definition unlocked (st : store) : store := map (fun kv => (fst kv, mkKs None (ks_writes (snd kv)))) st.

(* ------------------------------------------------------------------ boolean conclusions *)
Fixpoint nodupb (l : list N) : bool :=
  match l with [] => true | x :: r => negb (existsb (N.eqb x) r) && nodupb r end.
(* at most one record per (key, start): in particular never both committed and rolled back *)
Definition exclusive_ok (st : store) : bool :=
  forallb (fun kv => nodupb (map w_start (ks_writes (snd kv)))) st.
Definition gc_refused (st : store) (s e : key) (sp : ts) : bool :=
  existsb (gc_blocked sp) (keys_in_range st s e).

(* commands whose repetition must give the same answer and change nothing *)
Definition idem_cmd (c : cmd) : bool :=
  match c with
  | Prewrite _ _ _ _ _ _ _
  | Commit _ _ _ | Rollback _ _ | Cleanup _ _ _ | HeartBeat _ _ _
  | ResolveLock _ _ _ _ | BatchResolveLock _ _ _ | PessRollback _ _ _ _ _ | PessLock _ => true
  | CheckTxnStatus _ _ _ _ rine rp => rine || negb rp
  | _ => true
  end.
(* the answer up to the informational action of a status check *)
Definition resp_status (r : resp) : resp :=
  match r with
  | RStatus t c _ => RStatus t c ANoAction
  | RErrs es => if has_err es then r else RErrs []
  | _ => r
  end.

(* which (key, start) a prewrite would lock *)
Definition prewrite_targets (c : cmd) : list (key * ts) :=
  match c with
  | Prewrite ms _ s _ _ _ _ =>
    flat_map (fun m => match m_op m with MCheckNotExists => [] | _ => [(m_key m, s)] end) ms
  | _ => []
  end.
Definition resp_has_error (r : resp) : bool :=
  match r with RErrs es => has_err es | RErr (Some _) => true | RPess (_ :: _) _ => true | _ => false end.
(* commands that may remove a commit / rollback record of start ts s: GC at or above it, DeleteRange *)
Definition is_gc_over (c : cmd) (s : ts) : bool :=
  match c with GC _ _ sp => s <=? sp | DeleteRange _ _ => true | _ => false end.
