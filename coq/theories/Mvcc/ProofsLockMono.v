(* Mvcc/ProofsLockMono.v — the fields a reader's status check or the owner's heartbeat pushed on a lock
   survive the owner's later requests: ttl never decreases, min_commit_ts of a primary lock never decreases
   (exception, as in TiKV: a pessimistic lock request of the owner with a larger for-update ts rewrites the
   lock with the request's values); a commit below the lock's min_commit_ts is refused. *)
From Verif Require Import Mvcc.Model Mvcc.Spec Mvcc.ProofsStore Mvcc.ProofsKey Mvcc.ProofsKstep Mvcc.ProofsShape.

(* the owner re-requests its pessimistic lock *)
Definition relocks (c : cmd) (s : ts) : bool := match c with PessLock r => p_start r =? s | _ => false end.
Definition lock_fields_le (k : key) (l l' : lock) : bool :=
  (l_ttl l <=? l_ttl l') && (negb (l_primary l' =? k) || (l_min_commit l <=? l_min_commit l')).
(* boolean form evaluated by the check on the implementation's dumps *)
Definition lock_mono_ok (before after : store) (c : cmd) (k : key) : bool :=
  match lock_of before k, lock_of after k with
  | Some l, Some l' => negb (l_start l =? l_start l') || relocks c (l_start l) || lock_fields_le k l l'
  | _, _ => true
  end.
Definition commit_must_be_refused (st : store) (keys : list key) (s c : ts) : bool :=
  existsb (fun k => match own_lock (get_ks st k) s with Some l => c <? l_min_commit l | None => false end) keys.

Lemma lock_fields_le_refl k l : lock_fields_le k l l = true.
Proof. unfold lock_fields_le. rewrite !N.leb_refl. rewrite orb_true_r. reflexivity. Qed.

Lemma kstep_lock_mono st c k x l l' : kstep st c k x ->
  ks_lock (get_ks st k) = Some l -> ks_lock x = Some l' -> l_start l' = l_start l -> relocks c (l_start l) = false ->
  lock_fields_le k l l' = true.
Proof.
  intros H El El' Es Hre. destruct c; cbn [kstep relocks] in *.
  - (* Prewrite *)
    destruct H as [m [_ [Ek H]]]. unfold prewrite_key in H. rewrite El in H.
    destruct (negb (l_start l =? start)); [discriminate|]. destruct (negb (is_pess l)); [discriminate|].
    destruct (ccv _ false assert_on false _); [discriminate|]. inversion H; subst x. cbn [ks_lock] in El'. inversion El'; subst l'.
    unfold lock_fields_le. cbn [l_ttl l_primary l_min_commit]. rewrite Ek.
    apply andb_true_iff. split.
    + destruct (N.ltb_spec ttl (l_ttl l)); apply N.leb_le; lia.
    + destruct (N.eqb_spec primary k); cbn [negb orb]; [|reflexivity].
      destruct (N.ltb_spec min_commit (l_min_commit l)); apply N.leb_le; lia.
  - (* PessLock: the new lock belongs to the requester *)
    destruct H as [ne [res [_ H]]]. exfalso.
    assert (G : forall al, pess_lock_go (get_ks st k) r k ne al = inr (res, Some x) -> l_start l' = p_start r).
    { intros al. unfold pess_lock_go. destruct (ccv _ true false (p_force r) _) as [e|v cf]; [discriminate|]. cbv zeta.
      destruct (match cf with Some (EWriteConflict _ _ cc _) => _ | Some e => _ | None => _ end) as [e|r0]; [discriminate|].
      destruct (p_lock_only_if_exists r && _); [discriminate|]. destruct (match al with None => true | Some l0 => _ end); [|discriminate].
      intros E. inversion E; subst x. cbn [ks_lock] in El'. inversion El'; subst l'. reflexivity. }
    assert (Hs : l_start l' = p_start r).
    { unfold pess_lock_key in H. destruct (p_lock_only_if_exists r && negb (p_return_values r)); [discriminate|]. rewrite El in H.
      destruct (negb (l_start l =? p_start r)); [discriminate|]. destruct (negb (is_pess l)); [discriminate|]. eapply G; exact H. }
    rewrite Es in Hs. rewrite Hs, N.eqb_refl in Hre. discriminate.
  - unfold pess_rollback_key in H. destruct (pess_rollback_match _ _ _); [|discriminate]. inversion H; subst x. discriminate.
  - unfold commit_key, commit_lock in H. destruct (own_lock _ _); [destruct (_ <? _); [discriminate|]; inversion H; subst x; discriminate|].
    destruct (find_start _ _) as [w|]; [destruct (is_rollback w)|]; discriminate.
  - unfold rollback_key, rollback_lock, write_rollback in H. destruct (own_lock _ _) eqn:Eo; [inversion H; subst x; discriminate|].
    destruct (find_start _ _) as [w|]; [destruct (is_rollback w); discriminate|]. inversion H; subst x. cbn [ks_lock] in El'.
    rewrite El in El'. inversion El'; subst. apply lock_fields_le_refl.
  - destruct H as [_ H]. unfold cleanup_key, rollback_key, rollback_lock, write_rollback in H.
    destruct (own_lock _ _) eqn:Eo; [destruct (_ || _); [inversion H; subst x; discriminate|discriminate]|].
    destruct (find_start _ _) as [w|]; [destruct (is_rollback w); discriminate|]. inversion H; subst x. cbn [ks_lock] in El'.
    rewrite El in El'. inversion El'; subst. apply lock_fields_le_refl.
  - (* CheckTxnStatus *)
    destruct H as [_ [r H]]. unfold check_txn_status_key, pess_rollback_key, rollback_lock, write_rollback in H.
    destruct (own_lock (get_ks st k) lock_ts) as [l0|] eqn:Eo.
    + apply own_lock_some in Eo. destruct Eo as [E0 _]. rewrite El in E0. inversion E0; subst l0.
      destruct (ttl_expired l current).
      * destruct (resolving_pess && is_pess l); [destruct (pess_rollback_match _ _ _); inversion H; subst x; discriminate|inversion H; subst x; discriminate].
      * destruct (caller =? max_ts); [discriminate|]. destruct (0 <? l_min_commit l); [|discriminate].
        destruct (N.ltb_spec (l_min_commit l) (caller + 1)); [|discriminate]. inversion H; subst x. cbn [ks_lock] in El'. inversion El'; subst l'.
        unfold lock_fields_le. cbn [l_ttl l_primary l_min_commit]. rewrite N.leb_refl. cbn [andb].
        apply orb_true_iff. right. apply N.leb_le. destruct (N.ltb_spec (caller + 1) current); lia.
    + destruct (find_start _ _) as [w|]; [destruct (is_rollback w); discriminate|].
      destruct rollback_if_not_exist; [|discriminate]. destruct resolving_pess; [discriminate|]. inversion H; subst x. cbn [ks_lock] in El'.
      rewrite El in El'. inversion El'; subst. apply lock_fields_le_refl.
  - (* HeartBeat *)
    destruct H as [_ [r H]]. unfold heartbeat_key in H. destruct (own_lock (get_ks st k) start) as [l0|] eqn:Eo; [|discriminate].
    apply own_lock_some in Eo. destruct Eo as [E0 _]. rewrite El in E0. inversion E0; subst l0.
    destruct (negb (l_primary l =? k)); [discriminate|]. destruct (N.ltb_spec (l_ttl l) advise); [|discriminate].
    inversion H; subst x. cbn [ks_lock] in El'. inversion El'; subst l'. unfold lock_fields_le. cbn [l_ttl l_primary l_min_commit].
    rewrite N.leb_refl, orb_true_r, andb_true_r. apply N.leb_le; lia.
  - destruct H as [_ H]. unfold resolve_key in H. destruct (own_lock _ _); [|discriminate]. inversion H; subst x.
    destruct (0 <? commit); discriminate.
  - destruct H as [_ H]. unfold batch_resolve_key, resolve_key in H. destruct (ks_lock (get_ks st k)); [|discriminate].
    destruct (assoc_ts _ _) as [c0|]; [|discriminate]. destruct (own_lock _ _); [|discriminate]. inversion H; subst x. destruct (0 <? c0); discriminate.
  - destruct H.
  - destruct H as [_ H]. unfold gc_key in H. inversion H; subst x. cbn [ks_lock] in El'. rewrite El in El'. inversion El'; subst. apply lock_fields_le_refl.
  - destruct H. - destruct H. - destruct H. - destruct H. - destruct H.
  - destruct H as [_ H]. subst x. discriminate.
  - destruct H.
Qed.

Theorem lock_fields_monotone st c k : keys_sorted st -> lock_mono_ok st (fst (step st c)) c k = true.
Proof.
  intros Hs. unfold lock_mono_ok, lock_of. destruct (step_kstep st c Hs) as [_ Hr].
  destruct (ks_lock (get_ks st k)) as [l|] eqn:El; [|reflexivity].
  destruct (ks_lock (get_ks (fst (step st c)) k)) as [l'|] eqn:El'; [|reflexivity].
  destruct (N.eqb_spec (l_start l) (l_start l')) as [Es|]; cbn [negb orb]; [|reflexivity].
  destruct (relocks c (l_start l)) eqn:Hre; cbn [orb]; [reflexivity|].
  destruct (Hr k) as [E|H].
  - rewrite E, El in El'. inversion El'; subst. apply lock_fields_le_refl.
  - eapply kstep_lock_mono; [exact H|exact El|exact El'|congruence|exact Hre].
Qed.

(* a commit below the min_commit_ts of the transaction's lock on one of its keys is refused and changes nothing *)
Lemma bfe_some_error st f keys : (exists k e, In k keys /\ f (get_ks st k) = KErr e) ->
  forall acc, exists e', batch_first_err st acc f keys = (st, RErr (Some e')).
Proof.
  induction keys as [|k0 r IH]; intros [k [e [Hin He]]] acc; [destruct Hin|]. cbn [batch_first_err].
  destruct (f (get_ks st k0)) as [e0|o] eqn:E0; [eexists; reflexivity|].
  destruct Hin as [Ek|Hin]; [subst k0; congruence|]. apply IH. eauto.
Qed.
Theorem commit_below_min_commit_refused st keys s c : commit_must_be_refused st keys s c = true ->
  exists e, step st (Commit keys s c) = (st, RErr (Some e)).
Proof.
  intros H. apply existsb_exists in H. destruct H as [k [Hin Hk]]. cbn [step]. apply bfe_some_error.
  exists k. destruct (own_lock (get_ks st k) s) as [l|] eqn:Eo; [|discriminate].
  exists (ECommitTsExpired (l_min_commit l)). split; [exact Hin|]. unfold commit_key. rewrite Eo, Hk. reflexivity.
Qed.

Lemma lock_fields_monotone_seq cmds c k : lock_mono_ok (run cmds) (fst (step (run cmds) c)) c k = true.
Proof. apply lock_fields_monotone. apply (run_sorted cmds). Qed.

(* a status check that reports the transaction rolled back (TTL expiry, either flavour) has removed its lock *)
Lemma status_rolled_back_unlocked cmds k s caller cur rine rp a :
  snd (step (run cmds) (CheckTxnStatus k s caller cur rine rp)) = RStatus 0 0 a ->
  a = ATTLExpireRollback \/ a = ATTLExpirePessimisticRollback ->
  own_lock (get_ks (fst (step (run cmds) (CheckTxnStatus k s caller cur rine rp))) k) s = None.
Proof.
  destruct (run_sorted cmds) as [Hs _]. set (st := run cmds) in *. cbn [step].
  destruct (check_txn_status_key (get_ks st k) k s caller cur rine rp) as [o r] eqn:E. cbn [fst snd].
  intros Er Ha. subst r. rewrite get_apply_opt by exact Hs. rewrite N.eqb_refl.
  unfold check_txn_status_key in E. destruct (own_lock (get_ks st k) s) as [l|] eqn:Eo.
  - pose proof Eo as Eo'. apply own_lock_some in Eo'. destruct Eo' as [El Es]. destruct (ttl_expired l cur).
    + destruct (rp && is_pess l) eqn:Erp.
      * apply andb_true_iff in Erp. destruct Erp as [_ Ep]. inversion E; subst o.
        unfold pess_rollback_key, pess_rollback_match. rewrite El, Ep, N.eqb_refl, N.leb_refl. reflexivity.
      * inversion E; subst o. reflexivity.
    + destruct (caller =? max_ts); [inversion E; subst; destruct Ha; discriminate|].
      destruct (0 <? l_min_commit l); [destruct (l_min_commit l <? caller + 1)|]; inversion E; subst; destruct Ha; discriminate.
  - destruct (find_start s (ks_writes (get_ks st k))) as [w|]; [destruct (is_rollback w); inversion E; subst; destruct Ha; discriminate|].
    destruct rine; [destruct rp|]; inversion E; subst; destruct Ha; discriminate.
Qed.
