(* Mvcc/ProofsDeadlock.v — the wait-for graph of the deadlock detector stays acyclic over every command
   sequence; hence the detector's DFS (which has no visited set) terminates within depth |graph|+1, and its
   verdict is exactly reachability in the graph. *)
From Verif Require Import Mvcc.Model Mvcc.Deadlock.

Definition edge (d : detector) (a b : ts) : Prop := exists k, In (b, k) (d_get d a).
Fixpoint walk (d : detector) (a : ts) (l : list ts) : Prop :=
  match l with [] => True | b :: r => edge d a b /\ walk d b r end.
Definition reach (d : detector) (a b : ts) : Prop := exists l, walk d a (l ++ [b]).
Definition acyclic (d : detector) : Prop := forall a, ~ reach d a a.

(* ------------------------------------------------------------------ walks *)
Lemma walk_app d a l1 b l2 : walk d a (l1 ++ [b]) -> walk d b l2 -> walk d a ((l1 ++ [b]) ++ l2).
Proof.
  revert a. induction l1 as [|x r IH]; intros a; cbn [app walk].
  - intros [He _] H2. split; assumption.
  - intros [He Hw] H2. split; [exact He|]. apply IH; assumption.
Qed.
Lemma reach_trans d a b c : reach d a b -> reach d b c -> reach d a c.
Proof.
  intros [l1 H1] [l2 H2]. exists ((l1 ++ [b]) ++ l2). rewrite <- app_assoc. rewrite <- app_assoc in *.
  pose proof (walk_app d a l1 b (l2 ++ [c]) H1 H2) as H. rewrite <- app_assoc in H. exact H.
Qed.
Lemma reach_edge d a b : edge d a b -> reach d a b.
Proof. intros H. exists []. cbn. tauto. Qed.
Lemma reach_step d a b c : edge d a b -> reach d b c -> reach d a c.
Proof. intros He [l H]. exists (b :: l). cbn [app walk]. tauto. Qed.
(* every node of a walk is reached from its start *)
Lemma walk_reach d a l x : walk d a l -> In x l -> reach d a x.
Proof.
  revert a. induction l as [|b r IH]; intros a Hw Hin; [destruct Hin|]. cbn [walk] in Hw. destruct Hw as [He Hw].
  destruct Hin as [E|Hin]; [subst; apply reach_edge; exact He|]. eapply reach_step; [exact He|apply IH; assumption].
Qed.

(* ------------------------------------------------------------------ the map *)
Lemma d_get_del d w x : d_get (d_del d w) x = if x =? w then [] else d_get d x.
Proof.
  unfold d_del. induction d as [|[t l] r IH]; cbn [filter d_get fst]; [destruct (x =? w); reflexivity|].
  destruct (N.eqb_spec t w) as [E|E]; cbn [negb].
  - subst t. rewrite IH. destruct (N.eqb_spec x w) as [E2|E2]; [reflexivity|]. destruct (N.eqb_spec w x); [congruence|reflexivity].
  - cbn [d_get]. rewrite IH. destruct (N.eqb_spec t x) as [E2|E2]; [|reflexivity]. subst x. destruct (N.eqb_spec t w); [congruence|reflexivity].
Qed.
Lemma d_get_set d t l x : d_get (d_set d t l) x = if x =? t then l else d_get d x.
Proof.
  induction d as [|[t' l'] r IH]; cbn [d_set d_get].
  - rewrite (N.eqb_sym t x). destruct (x =? t); reflexivity.
  - destruct (N.eqb_spec t' t) as [E|E]; cbn [d_get].
    + subst t'. rewrite (N.eqb_sym t x). destruct (N.eqb_spec x t); reflexivity.
    + rewrite IH. destruct (N.eqb_spec t' x) as [E2|E2]; [|reflexivity]. subst x. destruct (N.eqb_spec t' t); [congruence|reflexivity].
Qed.
Lemma d_get_in d a : d_get d a <> [] -> In a (map fst d).
Proof.
  induction d as [|[t l] r IH]; cbn [d_get map fst In]; [congruence|].
  destruct (N.eqb_spec t a); [left; assumption|right; apply IH; assumption].
Qed.
Lemma filter_len_le {A} (f : A -> bool) l : (length (filter f l) <= length l)%nat.
Proof. induction l as [|x r IH]; cbn [filter length]; [lia|]. destruct (f x); cbn [length]; lia. Qed.
Lemma d_del_shorter d w : In w (map fst d) -> (length (d_del d w) < length d)%nat.
Proof.
  unfold d_del. induction d as [|[t l] r IH]; cbn [map fst In filter length]; [tauto|]. intros Hin.
  destruct (N.eqb_spec t w) as [E|E]; cbn [negb].
  - pose proof (filter_len_le (fun p : ts * edges => negb (fst p =? w)) r). lia.
  - cbn [length]. destruct Hin as [Hin|Hin]; [congruence|]. specialize (IH Hin). lia.
Qed.
Lemma edge_del d w a b : edge (d_del d w) a b -> edge d a b /\ a <> w.
Proof.
  intros [k H]. rewrite d_get_del in H. destruct (N.eqb_spec a w); [destruct H|]. split; [exists k; exact H|assumption].
Qed.
Lemma walk_del_sub d w a l : walk (d_del d w) a l -> walk d a l.
Proof.
  revert a. induction l as [|b r IH]; intros a; cbn [walk]; [tauto|]. intros [He Hw]. split; [apply (edge_del d w a b He)|apply IH; exact Hw].
Qed.
Lemma acyclic_del d w : acyclic d -> acyclic (d_del d w).
Proof. intros H a [l Hw]. apply (H a). exists l. eapply walk_del_sub; exact Hw. Qed.
(* a walk that never leaves from w is a walk of the graph without w's edges *)
Lemma walk_del d w a l : walk d a l -> a <> w -> ~ In w l -> walk (d_del d w) a l.
Proof.
  revert a. induction l as [|b r IH]; intros a; cbn [walk In]; [tauto|]. intros [[k He] Hw] Ha Hn. split.
  - exists k. rewrite d_get_del. destruct (N.eqb_spec a w); [congruence|exact He].
  - apply IH; [exact Hw| |]; intros E; apply Hn; [left; congruence|right; exact E].
Qed.

(* ------------------------------------------------------------------ an acyclic graph has no walk longer than its size *)
Lemma walk_bound : forall n d, (length d <= n)%nat -> acyclic d -> forall a l, walk d a l -> (length l <= length d)%nat.
Proof.
  induction n as [|n IH]; intros d Hn Hac a l Hw.
  - destruct d; [|cbn in Hn; lia]. destruct l as [|b r]; [cbn; lia|]. cbn [walk] in Hw. destruct Hw as [[k He] _]. destruct He.
  - destruct l as [|b r]; [cbn; lia|]. cbn [walk] in Hw. destruct Hw as [He Hw].
    assert (Hin : In a (map fst d)). { apply d_get_in. destruct He as [k He]. intros E. rewrite E in He. destruct He. }
    pose proof (d_del_shorter d a Hin) as Hlt.
    assert (Hb : b <> a). { intros E. subst b. apply (Hac a). apply reach_edge; exact He. }
    assert (Hnr : ~ In a r). { intros Hr. apply (Hac a). eapply reach_step; [exact He|]. eapply walk_reach; [exact Hw|exact Hr]. }
    pose proof (walk_del d a b r Hw Hb Hnr) as Hw'.
    assert (Hle : (length r <= length (d_del d a))%nat) by (apply (IH (d_del d a)) with (a := b); [lia|apply acyclic_del; exact Hac|exact Hw']).
    cbn [length]. lia.
Qed.

(* ------------------------------------------------------------------ the DFS *)
Definition scan_of (f : nat) (d : detector) (source : ts) :=
  fix scan (l : edges) : option (option key) :=
    match l with
    | [] => Some None
    | (t, k) :: r => if t =? source then Some (Some k)
                     else match do_detect f d source t with
                          | None => None
                          | Some (Some k') => Some (Some k')
                          | Some None => scan r
                          end
    end.
Lemma do_detect_S f d s w : do_detect (S f) d s w = scan_of f d s (d_get d w).
Proof. reflexivity. Qed.

Lemma dd_sound : forall f d s w k, do_detect f d s w = Some (Some k) -> reach d w s.
Proof.
  induction f as [|f IH]; intros d s w k; [discriminate|]. rewrite do_detect_S.
  assert (G : forall l, (forall x, In x l -> In x (d_get d w)) -> scan_of f d s l = Some (Some k) -> reach d w s).
  { induction l as [|[t k0] r IHl]; intros Hsub; cbn [scan_of]; [discriminate|].
    assert (He : edge d w t) by (exists k0; apply Hsub; left; reflexivity).
    destruct (N.eqb_spec t s) as [E|E]; [intros _; subst t; apply reach_edge; exact He|].
    destruct (do_detect f d s t) as [[k'|]|] eqn:Ed; [intros _|apply IHl; intros x Hx; apply Hsub; right; exact Hx|discriminate].
    eapply reach_step; [exact He|eapply IH; exact Ed]. }
  apply G. auto.
Qed.

(* no deadlock reported: no path of at most [fuel] edges *)
Lemma dd_none : forall f d s w, do_detect f d s w = Some None -> forall l, walk d w (l ++ [s]) -> (length l < f)%nat -> False.
Proof.
  induction f as [|f IH]; intros d s w; [discriminate|]. rewrite do_detect_S. intros Hs l Hw Hl.
  assert (G : forall es, scan_of f d s es = Some None -> forall t k, In (t, k) es -> t <> s /\ do_detect f d s t = Some None).
  { induction es as [|[t0 k0] r IHl]; cbn [scan_of]; [intros _ t k []|].
    destruct (N.eqb_spec t0 s) as [E|E]; [discriminate|]. destruct (do_detect f d s t0) as [[k'|]|] eqn:Ed; try discriminate.
    intros Hr t k [Ein|Hin]; [inversion Ein; subst; tauto|eapply IHl; eassumption]. }
  destruct l as [|b l']; cbn [app walk] in Hw.
  - destruct Hw as [[k He] _]. destruct (G _ Hs s k He) as [Hne _]. congruence.
  - destruct Hw as [[k He] Hw]. destruct (G _ Hs b k He) as [_ Hb]. eapply (IH d s b Hb l' Hw). cbn [length] in Hl. lia.
Qed.

(* out of fuel: there is a walk of [fuel] edges *)
Lemma dd_fuel : forall f d s w, do_detect f d s w = None -> exists l, length l = f /\ walk d w l.
Proof.
  induction f as [|f IH]; intros d s w; [intros _; exists []; split; [reflexivity|exact I]|]. rewrite do_detect_S.
  assert (G : forall es, (forall x, In x es -> In x (d_get d w)) -> scan_of f d s es = None -> exists t, edge d w t /\ do_detect f d s t = None).
  { induction es as [|[t0 k0] r IHl]; intros Hsub; cbn [scan_of]; [discriminate|].
    destruct (t0 =? s); [discriminate|]. destruct (do_detect f d s t0) as [[k'|]|] eqn:Ed; [discriminate| |].
    - apply IHl. intros x Hx. apply Hsub; right; exact Hx.
    - intros _. exists t0. split; [exists k0; apply Hsub; left; reflexivity|exact Ed]. }
  intros Hn. destruct (G _ (fun x H => H) Hn) as [t [He Ht]]. destruct (IH d s t Ht) as [l [Hl Hw]].
  exists (t :: l). split; [cbn; congruence|cbn [walk]; tauto].
Qed.

Theorem detect_terminates d s w : acyclic d -> do_detect (S (length d)) d s w <> None.
Proof.
  intros Hac Hn. destruct (dd_fuel _ _ _ _ Hn) as [l [Hl Hw]].
  pose proof (walk_bound (length d) d (le_n _) Hac w l Hw). lia.
Qed.

Theorem detect_spec d s w : acyclic d ->
  (forall k, do_detect (S (length d)) d s w = Some (Some k) -> reach d w s) /\
  (do_detect (S (length d)) d s w = Some None -> ~ reach d w s).
Proof.
  intros Hac. split; [intros k; apply dd_sound|].
  intros Hn [l Hw]. apply (dd_none _ _ _ _ Hn l Hw).
  pose proof (walk_bound (length d) d (le_n _) Hac w (l ++ [s]) Hw) as Hb. rewrite app_length in Hb. cbn in Hb. lia.
Qed.

(* ------------------------------------------------------------------ registering an edge that closes no cycle *)
Lemma edge_register d p q k x b : edge (register d p q k) x b -> edge d x b \/ (x = p /\ b = q).
Proof.
  unfold register. destruct (existsb _ (d_get d p)); [tauto|]. intros [k' H]. rewrite d_get_set in H.
  destruct (N.eqb_spec x p) as [E|E]; [|left; exists k'; exact H]. subst x.
  apply in_app_or in H. destruct H as [H|[H|[]]]; [left; exists k'; exact H|right]. inversion H; tauto.
Qed.

Lemma walk_register d p q k : forall l x y, walk (register d p q k) x (l ++ [y]) ->
  reach d x y \/ (q = p \/ reach d q p) \/ ((x = p \/ reach d x p) /\ (q = y \/ reach d q y)).
Proof.
  induction l as [|b l IH]; intros x y; cbn [app walk].
  - intros [He _]. destruct (edge_register _ _ _ _ _ _ He) as [Ho|[E1 E2]]; [left; apply reach_edge; exact Ho|subst; right; right; tauto].
  - intros [He Hw]. destruct (edge_register _ _ _ _ _ _ He) as [Ho|[E1 E2]]; destruct (IH b y Hw) as [H1|[H2|[H3 H4]]].
    + left. eapply reach_step; eassumption.
    + tauto.
    + right; right. split; [right|exact H4]. destruct H3 as [E|H3]; [subst b; apply reach_edge; exact Ho|eapply reach_step; eassumption].
    + subst x b. right; right. split; [left; reflexivity|right; exact H1].
    + tauto.
    + subst x b. right; left. exact H3.
Qed.

Lemma acyclic_register d p q k : acyclic d -> p <> q -> ~ reach d q p -> acyclic (register d p q k).
Proof.
  intros Hac Hne Hnr a [l Hw]. destruct (walk_register d p q k l a a Hw) as [H1|[[E|H2]|[H3 H4]]].
  - exact (Hac a H1).
  - congruence.
  - exact (Hnr H2).
  - destruct H3 as [E3|H3], H4 as [E4|H4].
    + congruence.
    + subst a. exact (Hnr H4).
    + subst a. exact (Hnr H3).
    + exact (Hnr (reach_trans _ _ _ _ H4 H3)).
Qed.

Lemma detect_acyclic d s w k : acyclic d -> s <> w -> acyclic (fst (detect d s w k)).
Proof.
  intros Hac Hne. unfold detect. destruct (do_detect (S (length d)) d s w) as [[k'|]|] eqn:E; cbn [fst]; [exact Hac| |exact Hac].
  apply acyclic_register; [exact Hac|exact Hne|]. apply (proj2 (detect_spec d s w Hac) E).
Qed.
