(* Mvcc/ProofsIdem3.v — whole-request idempotence of PessimisticRollback (explicit keys and the
   scan-the-range form), and the statement covering every write request. *)
From Verif Require Import Mvcc.Model Mvcc.Spec Mvcc.ProofsStore Mvcc.ProofsKey Mvcc.ProofsKstep Mvcc.ProofsShape Mvcc.ProofsStep
     Mvcc.ProofsMarker Mvcc.ProofsIdem Mvcc.ProofsIdem2.

Lemma fold_keys_sorted (g : key -> option kstate) l : forall acc, keys_sorted acc ->
  keys_sorted (fold_left (fun a k => apply_opt a k (g k)) l acc).
Proof. induction l as [|k r IH]; intros acc H; cbn [fold_left]; [exact H|]. apply IH. apply sorted_apply_opt; exact H. Qed.

(* exactness of a fold of per-key replacements computed from the key alone *)
Lemma fold_keys_exact (g : key -> option kstate) l : forall acc k, keys_sorted acc ->
  get_ks (fold_left (fun a k0 => apply_opt a k0 (g k0)) l acc) k =
  if existsb (N.eqb k) l then match g k with Some x => x | None => get_ks acc k end else get_ks acc k.
Proof.
  induction l as [|k0 r IH]; intros acc k Hs; cbn [fold_left existsb]; [reflexivity|].
  rewrite IH by (apply sorted_apply_opt; exact Hs). rewrite get_apply_opt by exact Hs.
  destruct (N.eqb_spec k k0) as [E|E]; cbn [orb].
  - subst k0. destruct (existsb (N.eqb k) r); destruct (g k); reflexivity.
  - reflexivity.
Qed.

Lemma fold_keys_none (g : key -> option kstate) l : (forall k, In k l -> g k = None) ->
  forall acc, fold_left (fun a k => apply_opt a k (g k)) l acc = acc.
Proof.
  induction l as [|k r IH]; intros H acc; cbn [fold_left]; [reflexivity|].
  rewrite (H k (or_introl eq_refl)). cbn [apply_opt]. apply IH. intros k' Hk'. apply H; right; exact Hk'.
Qed.

Lemma pess_rollback_key_after ks s fu : pess_rollback_key (match pess_rollback_key ks s fu with Some x => x | None => ks end) s fu = None.
Proof.
  unfold pess_rollback_key. destruct (pess_rollback_match ks s fu) eqn:E; [reflexivity|]. rewrite E. reflexivity.
Qed.

Theorem pess_rollback_idem st s e ks start fu : keys_sorted st ->
  let c := PessRollback s e ks start fu in
  exists r2, step (fst (step st c)) c = (fst (step st c), r2) /\ resp_status r2 = resp_status (snd (step st c)).
Proof.
  intros Hs c. subst c. cbn [step fst snd].
  set (g := fun k => pess_rollback_key (get_ks st k) start fu).
  set (ks' := match ks with [] => map fst (filter (fun kv => pess_rollback_match (snd kv) start fu) (keys_in_range st s e)) | _ => ks end).
  set (st1 := fold_left (fun acc k => apply_opt acc k (g k)) ks' st).
  change (fold_left (fun acc k => apply_opt acc k (pess_rollback_key (get_ks st k) start fu)) ks' st) with st1.
  assert (Hs1 : keys_sorted st1) by (apply fold_keys_sorted; exact Hs).
  assert (Hget : forall k, get_ks st1 k = if existsb (N.eqb k) ks' then match g k with Some x => x | None => get_ks st k end else get_ks st k)
    by (intros k; apply fold_keys_exact; exact Hs).
  assert (Hnone : forall k, In k ks' -> pess_rollback_key (get_ks st1 k) start fu = None).
  { intros k Hin. rewrite Hget. assert (Hex : existsb (N.eqb k) ks' = true) by (apply existsb_exists; exists k; split; [exact Hin|apply N.eqb_refl]).
    rewrite Hex. apply pess_rollback_key_after. }
  destruct ks as [|k0 rest].
  - (* scan form: nothing matches any more *)
    assert (Hempty : filter (fun kv => pess_rollback_match (snd kv) start fu) (keys_in_range st1 s e) = []).
    { remember (filter (fun kv => pess_rollback_match (snd kv) start fu) (keys_in_range st1 s e)) as F eqn:Ef.
      destruct F as [|[k v] l]; [reflexivity|]. exfalso.
      assert (Hin : In (k, v) (filter (fun kv => pess_rollback_match (snd kv) start fu) (keys_in_range st1 s e))) by (rewrite <- Ef; left; reflexivity).
      apply filter_In in Hin. destruct Hin as [Hin Hm]. apply filter_In in Hin. destruct Hin as [Hin Hr]. cbn [fst snd] in *.
      pose proof (get_ks_in st1 k v Hs1 Hin) as Ev. rewrite Hget in Ev.
      destruct (existsb (N.eqb k) ks') eqn:Ex.
      - pose proof (pess_rollback_key_after (get_ks st k) start fu) as Ha. fold (g k) in Ha. rewrite Ev in Ha.
        unfold pess_rollback_key in Ha. rewrite Hm in Ha. discriminate.
      - (* k was not among the matching keys of st, yet it matches *)
        subst v. assert (Hne : get_ks st k <> empty_ks) by (intros E0; rewrite E0 in Hm; discriminate).
        pose proof (get_ks_mem st k Hs Hne) as Hmem.
        assert (In k ks').
        { unfold ks'. apply in_map_iff. exists (k, get_ks st k). split; [reflexivity|]. apply filter_In. split; [|exact Hm].
          apply filter_In. split; [exact Hmem|exact Hr]. }
        assert (existsb (N.eqb k) ks' = true); [|congruence]. apply existsb_exists. exists k. split; [assumption|apply N.eqb_refl]. }
    rewrite Hempty. cbn [map fold_left]. eexists. split; [reflexivity|]. cbn [resp_status].
    assert (Hh : forall l0 : list key, has_err (map (fun _ : key => @None err) l0) = false) by (intros l0; induction l0 as [|a l0 IHl0]; [reflexivity|exact IHl0]).
    rewrite (Hh ks'). reflexivity.
  - (* explicit keys *)
    change (match k0 :: rest with [] => map fst (filter (fun kv => pess_rollback_match (snd kv) start fu) (keys_in_range st1 s e)) | _ => k0 :: rest end) with ks'.
    rewrite (fold_keys_none (fun k => pess_rollback_key (get_ks st1 k) start fu) ks' Hnone). eexists; split; reflexivity.
Qed.

(* ------------------------------------------------------------------ every write request *)
Definition idem_class_all (c : cmd) : bool :=
  idem_class c || match c with
                  | Prewrite _ _ s _ _ _ _ => negb (s =? max_ts)
                  | PessLock _ | PessRollback _ _ _ _ _ => true
                  | _ => false
                  end.

Theorem step_idem_all W st c : World_ok W -> wf_store W st -> idem_class_all c = true ->
  exists r2, step (fst (step st c)) c = (fst (step st c), r2) /\ resp_status r2 = resp_status (snd (step st c)).
Proof.
  intros HW Hwf Hc. pose proof Hwf as [Hs _]. unfold idem_class_all in Hc. apply orb_true_iff in Hc. destruct Hc as [Hc|Hc].
  - eapply step_idem; eassumption.
  - destruct c; try discriminate.
    + apply prewrite_idem; [exact Hs|]. apply negb_true_iff in Hc. apply N.eqb_neq; exact Hc.
    + destruct (pess_lock_idem st r Hs) as [r2 [H E]]. exists r2. split; [exact H|]. subst r2. reflexivity.
    + apply pess_rollback_idem; exact Hs.
Qed.

Lemma idem_all_seq cmds c : oracle_ts (cmds ++ [c]) = true -> idem_class_all c = true ->
  exists r2, step (fst (step (run cmds) c)) c = (fst (step (run cmds) c), r2)
             /\ resp_status r2 = resp_status (snd (step (run cmds) c)).
Proof.
  intros Ho Hc. destruct (oracle_app_wf cmds [c] Ho) as [HW [Hwf _]]. eapply step_idem_all; eassumption.
Qed.
Lemma pess_rollback_idem_seq cmds s e ks start fu :
  let c := PessRollback s e ks start fu in
  exists r2, step (fst (step (run cmds) c)) c = (fst (step (run cmds) c), r2)
             /\ resp_status r2 = resp_status (snd (step (run cmds) c)).
Proof. apply pess_rollback_idem. apply (run_sorted cmds). Qed.
