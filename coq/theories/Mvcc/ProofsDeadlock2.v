(* Mvcc/ProofsDeadlock2.v — the detector inside the store: acyclicity over all command sequences, the DFS never
   runs out of fuel, and the layered store [drun] has exactly the store of [run] (so every C12 theorem about the
   store of [run cmds] holds for the store with the detector). *)
From Verif Require Import Mvcc.Model Mvcc.Deadlock Mvcc.ProofsDeadlock.

Definition not_locked (e : err) : Prop := match e with ELocked _ _ => False | _ => True end.

Lemma ccv_loop_not_locked a ao cf ws : (forall c, cf = Some c -> not_locked c) ->
  forall nsne ngv ncr ret e, ccv_loop a ao cf ws nsne ngv ncr ret = inl e -> not_locked e.
Proof.
  intros Hcf. induction ws as [|w r IH]; intros nsne ngv ncr ret e; cbn [ccv_loop]; [discriminate|].
  destruct (ncr && is_rollback w && (w_commit w =? c_start a)); [intros E; inversion E; exact I|].
  assert (G : forall nsne0,
    (let '(ngv0, ret0) := match w_kind w with
                          | WPut => if ngv then (false, if w_value w =? 0 then None else Some (w_value w)) else (ngv, ret)
                          | WDel => if ngv then (false, None) else (ngv, ret)
                          | _ => (ngv, ret)
                          end in
     if negb nsne0 && negb ngv0 && negb (ncr && negb (w_commit w <? c_start a)) then inr ret0
     else match r with
          | [] => if as_eqb (c_assert a) AsExist && ao then inl (EAssertionFailed 0 0) else inr ret0
          | _ => ccv_loop a ao cf r nsne0 ngv0 (ncr && negb (w_commit w <? c_start a)) ret0
          end) = inl e -> not_locked e).
  { intros nsne0. destruct (match w_kind w with WPut => _ | WDel => _ | _ => _ end) as [ngv0 ret0].
    destruct (negb nsne0 && negb ngv0 && negb (ncr && negb (w_commit w <? c_start a))); [discriminate|].
    destruct r as [|w1 r1].
    - destruct (as_eqb (c_assert a) AsExist && ao); [intros E; inversion E; exact I|discriminate].
    - apply IH. }
  assert (Hc : forall e0, match cf with Some c => c | None => EAlreadyExist (c_key a) end = e0 -> not_locked e0).
  { intros e0 E. destruct cf as [c|]; subst e0; [apply Hcf; reflexivity|exact I]. }
  destruct (w_kind w).
  - destruct nsne; [intros E; inversion E; subst; eapply Hc; reflexivity|].
    destruct (negb (as_eqb (c_assert a) AsNone) && negb (c_pess_op a) && ao && as_eqb (c_assert a) AsNotExist); [intros E; inversion E; exact I|apply G].
  - destruct cf as [c|]; [destruct (c_lock_only_if_exists a); [intros E; inversion E; subst; apply Hcf; reflexivity|apply G]|apply G].
  - apply G.
  - destruct nsne; [intros E; inversion E; subst; eapply Hc; reflexivity|].
    destruct (negb (as_eqb (c_assert a) AsNone) && negb (c_pess_op a) && ao && as_eqb (c_assert a) AsNotExist); [intros E; inversion E; exact I|apply G].
Qed.

Lemma ccv_not_locked a gv ao al ws e : ccv a gv ao al ws = CErr e -> not_locked e.
Proof.
  unfold ccv. destruct ws as [|w r]; [destruct (_ && _ && _); [intros E; inversion E; exact I|discriminate]|].
  set (cf := if c_for_update a <? w_commit w then Some (EWriteConflict (c_for_update a) (w_start w) (w_commit w) (c_key a)) else None).
  assert (Hcf : forall c, cf = Some c -> not_locked c).
  { intros c E. unfold cf in E. destruct (c_for_update a <? w_commit w); inversion E; exact I. }
  destruct cf as [c|] eqn:Ecf.
  - destruct al; [|intros E; inversion E; subst; apply Hcf; reflexivity].
    destruct (ccv_loop a false (Some c) (w :: r) _ gv true None) as [e0|ret] eqn:El; [|discriminate].
    intros E; inversion E; subst. eapply ccv_loop_not_locked; [exact Hcf|exact El].
  - assert (G : match ccv_loop a ao None (w :: r) (as_eqb (c_assert a) AsNotExist && c_pess_op a) gv true None with
               | inl e0 => CErr e0 | inr ret => COk (if gv then ret else None) None end = CErr e -> not_locked e).
    { destruct (ccv_loop a ao None (w :: r) _ gv true None) as [e0|ret] eqn:El; [|discriminate].
      intros E; inversion E; subst. eapply ccv_loop_not_locked; [|exact El]. intros c0 E0; discriminate. }
    destruct al; exact G.
Qed.

Lemma ccv_ok_conflict a gv ao al ws v c : ccv a gv ao al ws = COk v (Some c) -> exists x y z u, c = EWriteConflict x y z u.
Proof.
  unfold ccv. destruct ws as [|w r]; [destruct (_ && _ && _); [discriminate|intros E; inversion E]|].
  destruct (c_for_update a <? w_commit w).
  - destruct al; [|discriminate]. destruct (ccv_loop _ _ _ _ _ _ _ _); [discriminate|]. intros E; inversion E; subst. eauto.
  - destruct al; (destruct (ccv_loop _ _ _ _ _ _ _ _); [discriminate|]; intros E; inversion E).
Qed.

Lemma pess_lock_go_not_locked ks r k ne al e : pess_lock_go ks r k ne al = inl e -> not_locked e.
Proof.
  unfold pess_lock_go. destruct (ccv _ true false (p_force r) (ks_writes ks)) as [e0|v cf] eqn:Ec.
  - intros E; inversion E; subst. eapply ccv_not_locked; exact Ec.
  - cbv zeta. destruct cf as [c|].
    + destruct (ccv_ok_conflict _ _ _ _ _ _ _ Ec) as [x [y [z [u Ecf]]]]. subst c.
      destruct (p_lock_only_if_exists r && _); [discriminate|]. destruct (match al with None => true | Some l => _ end); discriminate.
    + destruct (p_lock_only_if_exists r && _); [discriminate|]. destruct (match al with None => true | Some l => _ end); discriminate.
Qed.

Lemma pess_lock_key_locked ks r k ne k' l : pess_lock_key ks r k ne = inl (ELocked k' l) -> l_start l <> p_start r.
Proof.
  unfold pess_lock_key. destruct (p_lock_only_if_exists r && negb (p_return_values r)); [discriminate|].
  destruct (ks_lock ks) as [l0|].
  - destruct (N.eqb_spec (l_start l0) (p_start r)) as [E|E]; cbn [negb]; [|intros H; inversion H; subst; exact E].
    destruct (negb (is_pess l0)); [discriminate|]. intros H. apply pess_lock_go_not_locked in H. destruct H.
  - intros H. apply pess_lock_go_not_locked in H. destruct H.
Qed.

Definition no_fuel_err (es : list errd) : Prop := Forall (fun e => e <> EDetectorOutOfFuel) es.

Lemma pess_lock_all_d_inv st r : forall keys acc d, acyclic d ->
  let '(a, d', es, rs) := pess_lock_all_d st acc d r keys in acyclic d' /\ no_fuel_err es.
Proof.
  induction keys as [|[k ne] rest IH]; intros acc d Hac; cbn [pess_lock_all_d]; [split; [exact Hac|constructor]|].
  destruct (pess_lock_key (get_ks st k) r k ne) as [e|[res o]] eqn:Ek.
  - destruct e;
      try (specialize (IH acc d Hac); cbn iota beta; destruct (pess_lock_all_d st acc d r rest) as [[[a9 d9] es9] rs9]; destruct IH;
           split; [assumption|constructor; [discriminate|assumption]]).
    pose proof (pess_lock_key_locked _ _ _ _ _ _ Ek) as Hne.
    pose proof (detect_acyclic d (p_start r) (l_start l) k Hac (fun E => Hne (eq_sym E))) as Hd.
    unfold detect in *. pose proof (detect_terminates d (p_start r) (l_start l) Hac) as Ht.
    destruct (do_detect (S (length d)) d (p_start r) (l_start l)) as [[wk|]|] eqn:Ed; try rewrite Ed in Hd; cbn [fst] in Hd;
      [| |first [congruence|exfalso; apply Ht; exact Ed]]; cbn iota beta.
    + specialize (IH acc d Hd). destruct (pess_lock_all_d st acc d r rest) as [[[a9 d9] es9] rs9]. destruct IH.
      split; [assumption|constructor; [discriminate|assumption]].
    + destruct (p_no_wait r).
      * split; [exact Hd|constructor; [discriminate|constructor]].
      * specialize (IH acc _ Hd). destruct (pess_lock_all_d st acc (register d (p_start r) (l_start l) k) r rest) as [[[a9 d9] es9] rs9]. destruct IH.
        split; [assumption|constructor; [discriminate|assumption]].
  - specialize (IH (apply_opt acc k o) d Hac). destruct (pess_lock_all_d st (apply_opt acc k o) d r rest) as [[[a9 d9] es9] rs9]. exact IH.
Qed.

Lemma dstep_acyclic sd c : acyclic (snd sd) -> acyclic (snd (fst (dstep sd c))).
Proof.
  destruct sd as [st d]. cbn [snd]. intros Hac. destruct c; cbn [dstep];
    try (destruct (step st _) as [st' r0]; cbn [fst snd]; first [exact Hac|apply acyclic_del; exact Hac]).
  pose proof (pess_lock_all_d_inv st r (p_keys r) st d Hac) as H. destruct (pess_lock_all_d st st d r (p_keys r)) as [[[a d'] es] rs].
  destruct H as [H _]. destruct (_ && _); [exact H|]. destruct es; exact H.
Qed.

Lemma drun_from_acyclic cmds : forall sd, acyclic (snd sd) -> acyclic (snd (fold_left (fun sd c => fst (dstep sd c)) cmds sd)).
Proof. induction cmds as [|c r IH]; intros sd H; cbn [fold_left]; [exact H|]. apply IH. apply dstep_acyclic; exact H. Qed.

Theorem drun_acyclic cmds : acyclic (snd (drun cmds)).
Proof. apply drun_from_acyclic. intros a [l H]. destruct l; cbn in H; destruct H as [[k []] _]. Qed.

(* the DFS never runs out of fuel on a reachable detector *)
Theorem drun_detect_terminates cmds s w k : snd (detect (snd (drun cmds)) s w k) <> VOutOfFuel.
Proof.
  unfold detect. pose proof (detect_terminates (snd (drun cmds)) s w (drun_acyclic cmds)) as H.
  destruct (do_detect _ _ s w) as [[k'|]|]; cbn [snd]; congruence.
Qed.
Theorem drun_no_fuel_error cmds r :
  match snd (dstep (drun cmds) (PessLock r)) with RPessD es _ => no_fuel_err es | RD _ => True end.
Proof.
  destruct (drun cmds) as [st d] eqn:E. pose proof (drun_acyclic cmds) as Hac. rewrite E in Hac. cbn [snd] in Hac. cbn [dstep].
  pose proof (pess_lock_all_d_inv st r (p_keys r) st d Hac) as H. destruct (pess_lock_all_d st st d r (p_keys r)) as [[[a d'] es] rs].
  destruct H as [_ H]. destruct (_ && _); cbn [snd]; [exact I|]. destruct es; cbn [snd]; [exact I|exact H].
Qed.

(* the verdict of Detect on a reachable detector is reachability in the wait-for graph *)
Theorem drun_detect_spec cmds s w k :
  let d := snd (drun cmds) in
  (forall wk, snd (detect d s w k) = VDeadlock wk -> reach d w s) /\ (snd (detect d s w k) = VWait -> ~ reach d w s).
Proof.
  cbv zeta. pose proof (detect_spec (snd (drun cmds)) s w (drun_acyclic cmds)) as [H1 H2]. unfold detect.
  destruct (do_detect _ _ s w) as [[k'|]|] eqn:E; cbn [snd]; split; try discriminate.
  - intros wk _. eapply H1; reflexivity.
  - intros _. apply H2; reflexivity.
Qed.

(* ------------------------------------------------------------------ the store component is that of [step] *)
Lemma pess_lock_all_d_store st r : forall keys acc d,
  let '(a, d', es, rs) := pess_lock_all_d st acc d r keys in
  let '(a0, es0, rs0) := pess_lock_all st acc r keys in
  (es = [] <-> es0 = []) /\ (es0 = [] -> a = a0 /\ rs = rs0).
Proof.
  induction keys as [|[k ne] rest IH]; intros acc d; cbn [pess_lock_all_d pess_lock_all]; [split; [tauto|intros _; split; reflexivity]|].
  destruct (pess_lock_key (get_ks st k) r k ne) as [e|[res o]].
  - destruct (match e with ELocked _ l => match detect d (p_start r) (l_start l) k with
                                           | (d', VWait) => (d', EPlain e, p_no_wait r)
                                           | (d', VDeadlock wk) => (d', EDeadlock (l_start l) k wk, false)
                                           | (d', VOutOfFuel) => (d', EDetectorOutOfFuel, false) end
                      | _ => (d, EPlain e, false) end) as [[d1 e1] stop].
    destruct (if stop then (acc, d1, [], []) else pess_lock_all_d st acc d1 r rest) as [[[a d2] es] rs].
    destruct (if p_no_wait r && match e with ELocked _ _ => true | _ => false end then (acc, [], []) else pess_lock_all st acc r rest) as [[a0 es0] rs0].
    split; [split; discriminate|discriminate].
  - specialize (IH (apply_opt acc k o) d). destruct (pess_lock_all_d st (apply_opt acc k o) d r rest) as [[[a d2] es] rs].
    destruct (pess_lock_all st (apply_opt acc k o) r rest) as [[a0 es0] rs0]. destruct IH as [H1 H2]. split; [exact H1|].
    intros E. destruct (H2 E). split; congruence.
Qed.

Lemma dstep_store sd c : fst (fst (dstep sd c)) = fst (step (fst sd) c).
Proof.
  destruct sd as [st d]. cbn [fst]. destruct c; cbn [dstep]; try (destruct (step st _) as [st' r0]; reflexivity).
  cbn [step]. pose proof (pess_lock_all_d_store st r (p_keys r) st d) as H.
  destruct (pess_lock_all_d st st d r (p_keys r)) as [[[a d'] es] rs]. destruct (pess_lock_all st st r (p_keys r)) as [[a0 es0] rs0].
  destruct H as [H1 H2]. destruct es0 as [|e0 es0].
  - destruct (H2 eq_refl) as [Ea Er]. subst a0 rs0. assert (es = []) by (apply H1; reflexivity). subst es.
    cbn [andb]. destruct (negb (Nat.eqb (length rs) (length (p_keys r)))); reflexivity.
  - destruct es as [|e es]; [assert (e0 :: es0 = []) by (apply H1; reflexivity); discriminate|].
    destruct (p_force r && negb (Nat.eqb (length rs) (length (p_keys r)))); cbn [fst];
      destruct (p_force r && negb (Nat.eqb (length rs0) (length (p_keys r)))); reflexivity.
Qed.

Theorem drun_store cmds : fst (drun cmds) = run cmds.
Proof.
  unfold drun, run. assert (G : forall sd st, fst sd = st ->
    fst (fold_left (fun sd c => fst (dstep sd c)) cmds sd) = fold_left (fun st c => fst (step st c)) cmds st).
  { induction cmds as [|c r IH]; intros sd st E; cbn [fold_left]; [exact E|]. apply IH. rewrite dstep_store, E. reflexivity. }
  apply G. reflexivity.
Qed.

(* commit / batch rollback / cleanup of a transaction drop its outgoing edges, whatever they answer *)
Definition finishes (c : cmd) : option ts :=
  match c with Commit _ s _ | Rollback _ s | Cleanup _ s _ => Some s | _ => None end.
Theorem finish_clears_edges sd c s : finishes c = Some s -> d_get (snd (fst (dstep sd c))) s = [].
Proof.
  destruct sd as [st d]. destruct c; cbn [finishes]; try discriminate; intros E; inversion E; subst; cbn [dstep];
    destruct (step st _) as [st' r0]; cbn [fst snd]; rewrite d_get_del, N.eqb_refl; reflexivity.
Qed.
