(* Mvcc/ProofsGcIdem.v — GC at the same safe point twice: same answer, and the second run leaves every key as
   the first run left it. *)
From Verif Require Import Mvcc.Model Mvcc.Spec Mvcc.ProofsStore Mvcc.ProofsKey Mvcc.ProofsKstep Mvcc.ProofsShape.

Lemma gc_writes_all_new sp b ws : (forall x, In x ws -> sp < w_commit x) -> gc_writes sp b ws = ws.
Proof.
  induction ws as [|w r IH]; intros H; cbn [gc_writes]; [reflexivity|].
  destruct (N.ltb_spec sp (w_commit w)) as [Hlt|Hge]; [|specialize (H w (or_introl eq_refl)); lia].
  rewrite IH; [reflexivity|]. intros x Hx. apply H. right; exact Hx.
Qed.
Lemma gc_writes_false_new sp ws x : In x (gc_writes sp false ws) -> sp < w_commit x.
Proof.
  induction ws as [|w r IH]; cbn [gc_writes]; [intros []|].
  destruct (N.ltb_spec sp (w_commit w)) as [Hlt|Hge]; [intros [E|H]; [subst; exact Hlt|apply IH; exact H]|].
  destruct (w_kind w); exact IH.
Qed.
Lemma gc_writes_idem sp ws : forall b, gc_writes sp b (gc_writes sp b ws) = gc_writes sp b ws.
Proof.
  induction ws as [|w r IH]; intros b; cbn [gc_writes]; [reflexivity|].
  destruct (N.ltb_spec sp (w_commit w)) as [Hlt|Hge].
  - cbn [gc_writes]. destruct (N.ltb_spec sp (w_commit w)); [|lia]. rewrite IH. reflexivity.
  - assert (Hf : forall b', gc_writes sp b' (gc_writes sp false r) = gc_writes sp false r)
      by (intros b'; apply gc_writes_all_new; intros x Hx; eapply gc_writes_false_new; exact Hx).
    destruct (w_kind w) eqn:Ek.
    + destruct b.
      * cbn [gc_writes]. destruct (N.ltb_spec sp (w_commit w)); [lia|]. rewrite Ek, Hf. reflexivity.
      * apply Hf.
    + apply Hf.
    + apply IH.
    + apply IH.
Qed.

(* GC is refused iff some key of the range carries a lock at or below the safe point (in terms of get_ks) *)
Lemma gc_refused_iff st s e sp : keys_sorted st ->
  (gc_refused st s e sp = true <-> exists k l, in_range s e k = true /\ ks_lock (get_ks st k) = Some l /\ l_start l <= sp).
Proof.
  intros Hs. unfold gc_refused. rewrite existsb_exists. split.
  - intros [[k v] [Hin Hb]]. apply filter_In in Hin. destruct Hin as [Hin Hr]. cbn [fst] in Hr. unfold gc_blocked in Hb. cbn [snd] in Hb.
    destruct (ks_lock v) as [l|] eqn:El; [|discriminate]. exists k, l. rewrite (get_ks_in st k v Hs Hin). apply N.leb_le in Hb. tauto.
  - intros [k [l [Hr [El Hl]]]]. exists (k, get_ks st k). split.
    + apply filter_In. split; [|exact Hr]. apply get_ks_mem; [exact Hs|]. intros E0. rewrite E0 in El. discriminate.
    + unfold gc_blocked. cbn [snd]. rewrite El. apply N.leb_le; exact Hl.
Qed.

Lemma gc_step_get st s e sp k : keys_sorted st -> gc_refused st s e sp = false ->
  get_ks (fst (step st (GC s e sp))) k =
  if in_range s e k && existsb (fun kv => fst kv =? k) st
  then mkKs (ks_lock (get_ks st k)) (gc_writes sp true (ks_writes (get_ks st k))) else get_ks st k.
Proof.
  intros Hs Hg. cbn [step]. unfold gc_refused in Hg. rewrite Hg. cbn [fst]. rewrite map_range_get by exact Hs. reflexivity.
Qed.

Theorem gc_idem st s e sp : keys_sorted st ->
  let st1 := fst (step st (GC s e sp)) in
  snd (step st1 (GC s e sp)) = snd (step st (GC s e sp)) /\ forall k, get_ks (fst (step st1 (GC s e sp))) k = get_ks st1 k.
Proof.
  intros Hs st1. destruct (gc_refused st s e sp) eqn:Hg.
  - (* refused: nothing changed, the second run is the first *)
    assert (E : st1 = st) by (unfold st1; cbn [step]; unfold gc_refused in Hg; rewrite Hg; reflexivity). split; [rewrite E; reflexivity|].
    intros k. rewrite E. change (fst (step st (GC s e sp))) with st1. rewrite E. reflexivity.
  - assert (Hs1 : keys_sorted st1) by (unfold st1; cbn [step]; unfold gc_refused in Hg; rewrite Hg; cbn [fst]; apply map_range_sorted; exact Hs).
    assert (Hlock : forall k, ks_lock (get_ks st1 k) = ks_lock (get_ks st k)).
    { intros k. unfold st1. rewrite gc_step_get by assumption. destruct (_ && _); reflexivity. }
    assert (Hg1 : gc_refused st1 s e sp = false).
    { destruct (gc_refused st1 s e sp) eqn:G; [|reflexivity]. apply (gc_refused_iff st1 s e sp Hs1) in G.
      destruct G as [k [l [Hr [El Hl]]]]. rewrite Hlock in El.
      assert (gc_refused st s e sp = true) by (apply (gc_refused_iff st s e sp Hs); eauto). congruence. }
    split.
    + cbn [step]. unfold gc_refused in Hg, Hg1. rewrite Hg, Hg1. reflexivity.
    + intros k. rewrite (gc_step_get st1 s e sp k Hs1 Hg1).
      destruct (in_range s e k && existsb (fun kv => fst kv =? k) st1) eqn:C; [|reflexivity].
      apply andb_true_iff in C. destruct C as [Hr _].
      unfold st1. rewrite gc_step_get by assumption. rewrite Hr. cbn [andb].
      destruct (existsb (fun kv => fst kv =? k) st) eqn:Ex.
      * cbn [ks_lock ks_writes]. rewrite gc_writes_idem. reflexivity.
      * assert (E0 : get_ks st k = empty_ks).
        { apply get_ks_absent; [exact Hs|]. intros Hin. apply in_map_iff in Hin. destruct Hin as [kv [Ek Hin]].
          assert (existsb (fun kv0 => fst kv0 =? k) st = true); [|congruence]. apply existsb_exists. exists kv. split; [exact Hin|apply N.eqb_eq; exact Ek]. }
        rewrite E0. reflexivity.
Qed.

Lemma gc_idem_seq cmds s e sp :
  let st1 := fst (step (run cmds) (GC s e sp)) in
  snd (step st1 (GC s e sp)) = snd (step (run cmds) (GC s e sp)) /\ forall k, get_ks (fst (step st1 (GC s e sp))) k = get_ks st1 k.
Proof. apply gc_idem. apply (run_sorted cmds). Qed.

(* GC against an independent predicate: a key of the range carrying a lock with start ts <= safe point makes GC
   answer the error and change nothing; without such a key GC runs *)
Lemma gc_refuses_lock_seq cmds s e sp :
  let st := run cmds in
  ((exists k l, in_range s e k = true /\ lock_of st k = Some l /\ l_start l <= sp) ->
   step st (GC s e sp) = (st, RErr (Some (EAbort AGcLock)))) /\
  (~ (exists k l, in_range s e k = true /\ lock_of st k = Some l /\ l_start l <= sp) ->
   snd (step st (GC s e sp)) = RErr None).
Proof.
  cbv zeta. destruct (run_sorted cmds) as [Hs _]. pose proof (gc_refused_iff (run cmds) s e sp Hs) as Hiff. unfold lock_of.
  split; intros H; cbn [step]; unfold gc_refused in Hiff.
  - apply (proj2 Hiff) in H. rewrite H. reflexivity.
  - destruct (existsb (gc_blocked sp) (keys_in_range (run cmds) s e)) eqn:E; [exfalso; apply H; apply (proj1 Hiff); reflexivity|reflexivity].
Qed.
