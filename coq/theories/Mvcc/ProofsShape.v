(* Mvcc/ProofsShape.v — what a per-key transition can do to the write records of a key:
   nothing, one put_write, or one gc_writes. Unconditional sortedness of the store follows. *)
From Verif Require Import Mvcc.Model Mvcc.Spec Mvcc.ProofsStore Mvcc.ProofsKey Mvcc.ProofsKstep.

Inductive wshape (c : cmd) (ws : list write) : list write -> Prop :=
| ws_same : wshape c ws ws
| ws_put w : wshape c ws (put_write w ws)
| ws_gc s e sp : c = GC s e sp -> wshape c ws (gc_writes sp true ws)
| ws_clear s e : c = DeleteRange s e -> wshape c ws [].

Ltac kcrush :=
  repeat (match goal with
          | H : KOk _ = KOk _ |- _ => inversion H; clear H; subst
          | H : Some _ = Some _ |- _ => inversion H; clear H; subst
          | H : (_, _) = (_, _) |- _ => inversion H; clear H; subst
          | H : inr _ = inr _ |- _ => inversion H; clear H; subst
          | H : context [match ?x with _ => _ end] |- _ => destruct x eqn:?; try discriminate
          end).

Lemma prewrite_key_shape ks m s p ttl mc ao x : prewrite_key ks m s p ttl mc ao = KOk (Some x) -> ks_writes x = ks_writes ks.
Proof. unfold prewrite_key. intros H. kcrush; reflexivity. Qed.
Lemma pess_lock_go_shape ks r k ne al res x : pess_lock_go ks r k ne al = inr (res, Some x) -> ks_writes x = ks_writes ks.
Proof. unfold pess_lock_go. intros H. kcrush; reflexivity. Qed.
Lemma pess_lock_key_shape ks r k ne res x : pess_lock_key ks r k ne = inr (res, Some x) -> ks_writes x = ks_writes ks.
Proof.
  unfold pess_lock_key. intros H.
  destruct (p_lock_only_if_exists r && negb (p_return_values r)); [discriminate|].
  destruct (ks_lock ks) as [l|]; [|eapply pess_lock_go_shape; exact H].
  destruct (negb (l_start l =? p_start r)); [discriminate|]. destruct (negb (is_pess l)); [discriminate|].
  eapply pess_lock_go_shape; exact H.
Qed.
Lemma pess_rollback_key_shape ks s fu x : pess_rollback_key ks s fu = Some x -> ks_writes x = ks_writes ks.
Proof. unfold pess_rollback_key. intros H. kcrush; reflexivity. Qed.
Lemma commit_key_shape ks s c x : commit_key ks s c = KOk (Some x) -> exists w, ks_writes x = put_write w (ks_writes ks).
Proof. unfold commit_key, commit_lock. intros H. kcrush. eexists; reflexivity. Qed.
Lemma rollback_key_shape ks s x : rollback_key ks s = KOk (Some x) -> exists w, ks_writes x = put_write w (ks_writes ks).
Proof. unfold rollback_key, rollback_lock, write_rollback. intros H. kcrush; eexists; reflexivity. Qed.
Lemma cleanup_key_shape ks k s cur x : cleanup_key ks k s cur = KOk (Some x) -> exists w, ks_writes x = put_write w (ks_writes ks).
Proof.
  unfold cleanup_key. destruct (own_lock ks s); [|apply rollback_key_shape].
  unfold rollback_lock. intros H. kcrush; eexists; reflexivity.
Qed.
Lemma cts_key_shape ks k s ca cur rine rp x r : forall c, check_txn_status_key ks k s ca cur rine rp = (Some x, r) -> wshape c (ks_writes ks) (ks_writes x).
Proof.
  unfold check_txn_status_key, pess_rollback_key, rollback_lock, write_rollback. intros c H.
  kcrush; cbn [ks_writes]; constructor.
Qed.
Lemma heartbeat_key_shape ks k s adv x r : heartbeat_key ks k s adv = (Some x, r) -> ks_writes x = ks_writes ks.
Proof. unfold heartbeat_key. intros H. kcrush; reflexivity. Qed.
Lemma resolve_key_shape s c k ks x : resolve_key s c k ks = Some x -> exists w, ks_writes x = put_write w (ks_writes ks).
Proof. unfold resolve_key, commit_lock, rollback_lock. intros H. kcrush. destruct (0 <? c); eexists; reflexivity. Qed.
Lemma batch_resolve_key_shape infos k ks x : batch_resolve_key infos k ks = Some x -> exists w, ks_writes x = put_write w (ks_writes ks).
Proof. unfold batch_resolve_key. intros H. destruct (ks_lock ks); [|discriminate]. destruct (assoc_ts _ _); [|discriminate]. eapply resolve_key_shape; exact H. Qed.

Lemma kstep_shape st c k x : kstep st c k x -> wshape c (ks_writes (get_ks st k)) (ks_writes x).
Proof.
  destruct c; cbn [kstep]; intros H.
  - destruct H as [m [_ [_ H]]]. rewrite (prewrite_key_shape _ _ _ _ _ _ _ _ H). constructor.
  - destruct H as [ne [res [_ H]]]. rewrite (pess_lock_key_shape _ _ _ _ _ _ H). constructor.
  - rewrite (pess_rollback_key_shape _ _ _ _ H). constructor.
  - destruct (commit_key_shape _ _ _ _ H) as [w E]. rewrite E. constructor.
  - destruct (rollback_key_shape _ _ _ H) as [w E]. rewrite E. constructor.
  - destruct H as [_ H]. destruct (cleanup_key_shape _ _ _ _ _ H) as [w E]. rewrite E. constructor.
  - destruct H as [_ [r H]]. eapply cts_key_shape; exact H.
  - destruct H as [_ [r H]]. rewrite (heartbeat_key_shape _ _ _ _ _ _ H). constructor.
  - destruct H as [_ H]. destruct (resolve_key_shape _ _ _ _ _ H) as [w E]. rewrite E. constructor.
  - destruct H as [_ H]. destruct (batch_resolve_key_shape _ _ _ _ H) as [w E]. rewrite E. constructor.
  - destruct H.
  - destruct H as [_ H]. unfold gc_key in H. inversion H; subst. cbn [ks_writes]. eapply ws_gc; reflexivity.
  - destruct H. - destruct H. - destruct H. - destruct H. - destruct H.
  - destruct H as [_ H]. subst x. cbn [ks_writes empty_ks]. eapply ws_clear; reflexivity.
  - destruct H.
Qed.

(* ------------------------------------------------------------------ unconditional sortedness *)
Definition sorted_store (st : store) : Prop := keys_sorted st /\ forall k, desc (ks_writes (get_ks st k)).

Lemma wshape_desc c ws ws' : wshape c ws ws' -> desc ws -> desc ws'.
Proof. intros Hw Hd. destruct Hw; [exact Hd|apply put_write_desc; exact Hd|apply gc_writes_desc; exact Hd|constructor]. Qed.

Lemma step_sorted st c : sorted_store st -> sorted_store (fst (step st c)).
Proof.
  intros [Hs Hk]. apply (step_inv (fun ks => desc (ks_writes ks)) st c Hs Hk).
  intros k x H Hd. eapply wshape_desc; [eapply kstep_shape; exact H|exact Hd].
Qed.
Lemma run_from_sorted cmds : forall st, sorted_store st -> sorted_store (run_from st cmds).
Proof.
  induction cmds as [|c r IH]; intros st H; cbn [run_from fold_left]; [exact H|]. apply IH. apply step_sorted; exact H.
Qed.
Theorem run_sorted cmds : sorted_store (run cmds).
Proof. apply (run_from_sorted cmds []). split; [apply keys_sorted_nil|]. intros k. constructor. Qed.
