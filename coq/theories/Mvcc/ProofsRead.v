(* Mvcc/ProofsRead.v — reads, scans and GC against their declarative specifications. *)
From Verif Require Import Mvcc.Model Mvcc.Spec Mvcc.ProofsStore Mvcc.ProofsKey Mvcc.ProofsKstep Mvcc.ProofsShape.
From Coq Require Import Sorted.

(* ------------------------------------------------------------------ the newest visible record *)
Lemma newest_visible_max ws t :
  match newest_visible ws t with
  | Some w => In w ws /\ visible t w = true /\ forall x, In x ws -> visible t x = true -> w_commit x <= w_commit w
  | None => forall x, In x ws -> visible t x = false
  end.
Proof.
  induction ws as [|w r IH]; cbn [newest_visible]; [intros x []|].
  destruct (newest_visible r t) as [y|].
  - destruct IH as [Hy [Hv Hm]]. destruct (visible t w) eqn:Ev; cbn [andb].
    + destruct (N.ltb_spec (w_commit y) (w_commit w)) as [Hlt|Hge].
      * split; [left; reflexivity|]. split; [exact Ev|]. intros x [E|Hx] Hvx; [subst; lia|]. specialize (Hm x Hx Hvx). lia.
      * split; [right; exact Hy|]. split; [exact Hv|]. intros x [E|Hx] Hvx; [subst; lia|]. apply Hm; assumption.
    + split; [right; exact Hy|]. split; [exact Hv|]. intros x [E|Hx] Hvx; [subst; congruence|]. apply Hm; assumption.
  - destruct (visible t w) eqn:Ev.
    + split; [left; reflexivity|]. split; [exact Ev|]. intros x [E|Hx] Hvx; [subst; lia|]. rewrite (IH x Hx) in Hvx. discriminate.
    + intros x [E|Hx]; [subst; exact Ev|apply IH; exact Hx].
Qed.

Lemma newest_visible_find ws t : desc ws -> newest_visible ws t = find (visible t) ws.
Proof.
  unfold desc. induction ws as [|w r IH]; intros H; cbn [newest_visible find]; [reflexivity|].
  inversion H as [|? ? Hr Hf]; subst. rewrite (IH Hr).
  destruct (find (visible t) r) as [x|] eqn:Ef.
  - apply find_some in Ef. destruct Ef as [Hx _]. rewrite Forall_forall in Hf. specialize (Hf x Hx).
    destruct (visible t w); cbn [andb]; [|reflexivity]. destruct (N.ltb_spec (w_commit x) (w_commit w)); [reflexivity|lia].
  - destruct (visible t w); reflexivity.
Qed.

Lemma read_writes_find ws t :
  read_writes ws t = match find (visible t) ws with
                     | Some w => match w_kind w with WPut => Some (w_value w, w_commit w) | _ => None end
                     | None => None
                     end.
Proof.
  induction ws as [|w r IH]; cbn [read_writes find]; [reflexivity|].
  unfold visible at 1, is_data. destruct (w_kind w) eqn:Ek; cbn [andb]; try exact IH.
  - destruct (w_commit w <=? t); [rewrite Ek; reflexivity|exact IH].
  - destruct (w_commit w <=? t); [rewrite Ek; reflexivity|exact IH].
Qed.

Lemma read_writes_spec ws t : desc ws -> read_writes ws t = spec_read ws t.
Proof. intros H. unfold spec_read. rewrite (newest_visible_find ws t H). apply read_writes_find. Qed.

Lemma get_ks_value_spec ks k t rs : desc (ks_writes ks) -> get_ks_value ks k t rs = spec_get_ks ks k t rs.
Proof.
  intros Hd. unfold get_ks_value, spec_get_ks. destruct (ks_lock ks) as [l|]; [|rewrite read_writes_spec by exact Hd; reflexivity].
  unfold lock_check, blocking, data_lock, max_ts_exception.
  destruct (N.ltb_spec t (l_start l)) as [Hlt|Hge].
  - cbn [orb]. destruct (N.leb_spec (l_start l) t); [lia|]. cbn [andb]. rewrite read_writes_spec by exact Hd. reflexivity.
  - destruct (N.leb_spec (l_start l) t); [|lia]. destruct (l_op l); cbn [op_eqb orb andb negb];
      try (rewrite read_writes_spec by exact Hd; reflexivity).
    + destruct ((t =? max_ts) && (l_primary l =? k)); cbn [negb andb]; [rewrite read_writes_spec by exact Hd; reflexivity|].
      destruct (existsb (N.eqb (l_start l)) rs); cbn [negb]; [rewrite read_writes_spec by exact Hd; reflexivity|reflexivity].
    + destruct ((t =? max_ts) && (l_primary l =? k)); cbn [negb andb]; [rewrite read_writes_spec by exact Hd; reflexivity|].
      destruct (existsb (N.eqb (l_start l)) rs); cbn [negb]; [rewrite read_writes_spec by exact Hd; reflexivity|reflexivity].
Qed.

Lemma get_unfold st k t rs : get st k t rs = rd_resp k (get_ks_value (get_ks st k) k t rs).
Proof. unfold get. cbn [step snd]. destruct (get_ks_value (get_ks st k) k t rs); reflexivity. Qed.

Lemma read_correct cmds k t rs : get (run cmds) k t rs = spec_get (run cmds) k t rs.
Proof.
  rewrite get_unfold. unfold spec_get. rewrite get_ks_value_spec; [reflexivity|]. apply (run_sorted cmds).
Qed.

(* ------------------------------------------------------------------ scans *)
Lemma scan_entry_len t rs kv : (length (scan_entry t rs kv) <= 1)%nat.
Proof. unfold scan_entry. destruct (get_ks_value _ _ _ _) as [l|[[v c]|]]; cbn; lia. Qed.

Lemma scan_gen_firstn (entry : key * kstate -> list pair) s e st : (forall kv, (length (entry kv) <= 1)%nat) -> forall limit,
  scan_gen entry st s e limit = firstn limit (flat_map entry (filter (fun kv => in_range s e (fst kv)) st)).
Proof.
  intros Hlen. induction st as [|kv r IH]; intros limit.
  - destruct limit; reflexivity.
  - destruct limit as [|n]; [reflexivity|]. cbn [scan_gen filter]. destruct (in_range s e (fst kv)).
    + cbn [flat_map]. rewrite firstn_app. rewrite IH. f_equal.
      apply eq_sym, firstn_all2. specialize (Hlen kv). lia.
    + apply IH.
Qed.
Lemma scan_fwd_firstn s e t rs st limit :
  scan_fwd st s e limit t rs = firstn limit (flat_map (scan_entry t rs) (filter (fun kv => in_range s e (fst kv)) st)).
Proof. unfold scan_fwd. apply scan_gen_firstn. apply scan_entry_len. Qed.

Lemma scan_entry_get st t rs kv : keys_sorted st -> In kv st -> scan_entry t rs kv = get_pairs st t rs (fst kv).
Proof.
  intros Hs Hin. unfold scan_entry, get_pairs. rewrite get_unfold.
  destruct kv as [k v]. cbn [fst snd]. rewrite (get_ks_in st k v Hs Hin).
  destruct (get_ks_value v k t rs) as [l|[[x c]|]]; reflexivity.
Qed.

Lemma flat_map_ext_in {A B} (f g : A -> list B) l : (forall x, In x l -> f x = g x) -> flat_map f l = flat_map g l.
Proof.
  induction l as [|x r IH]; intros H; cbn [flat_map]; [reflexivity|].
  rewrite (H x (or_introl eq_refl)). rewrite IH; [reflexivity|]. intros y Hy. apply H. right; exact Hy.
Qed.

Lemma flat_map_filter_keys (st : store) p (f : key -> list pair) :
  flat_map f (filter p (map fst st)) = flat_map (fun kv => f (fst kv)) (filter (fun kv => p (fst kv)) st).
Proof.
  induction st as [|kv r IH]; cbn [map filter flat_map]; [reflexivity|].
  destruct (p (fst kv)); cbn [flat_map]; rewrite IH; reflexivity.
Qed.

Lemma scan_all_entries st s e t rs : keys_sorted st ->
  spec_scan_all st s e t rs = flat_map (scan_entry t rs) (filter (fun kv => in_range s e (fst kv)) st).
Proof.
  intros Hs. unfold spec_scan_all. rewrite flat_map_filter_keys.
  apply eq_sym, flat_map_ext_in. intros kv Hin. apply filter_In in Hin. apply scan_entry_get; tauto.
Qed.

Lemma scan_correct cmds s e limit t rs :
  snd (step (run cmds) (Scan s e limit t rs)) = RPairs (spec_scan (run cmds) s e limit t rs).
Proof.
  cbn [step snd]. unfold spec_scan. rewrite scan_fwd_firstn, scan_all_entries; [reflexivity|apply (run_sorted cmds)].
Qed.

Lemma filter_rev' {A} (p : A -> bool) l : filter p (rev l) = rev (filter p l).
Proof.
  induction l as [|x r IH]; cbn [rev filter]; [reflexivity|].
  rewrite filter_app, IH. cbn [filter]. destruct (p x); [reflexivity|apply app_nil_r].
Qed.
Lemma flat_map_rev_small {A B} (f : A -> list B) l : (forall x, (length (f x) <= 1)%nat) ->
  flat_map f (rev l) = rev (flat_map f l).
Proof.
  intros Hf. induction l as [|x r IH]; cbn [rev flat_map]; [reflexivity|].
  rewrite flat_map_app, IH, rev_app_distr. cbn [flat_map]. rewrite app_nil_r. f_equal.
  specialize (Hf x). destruct (f x) as [|a [|b q]]; cbn in *; [reflexivity|reflexivity|lia].
Qed.

Lemma rscan_correct cmds s e limit t rs :
  snd (step (run cmds) (ReverseScan s e limit t rs)) = RPairs (spec_rscan (run cmds) s e limit t rs).
Proof.
  cbn [step snd]. unfold scan_rev, spec_rscan. rewrite (scan_gen_firstn _ s e (rev (run cmds)) (scan_entry_len t rs)), filter_rev'.
  rewrite flat_map_rev_small by (apply scan_entry_len).
  rewrite scan_all_entries; [reflexivity|apply (run_sorted cmds)].
Qed.

(* ------------------------------------------------------------------ GC *)
Lemma gc_writes_all_old sp ws : (forall x, In x ws -> w_commit x <= sp) -> gc_writes sp false ws = [].
Proof.
  induction ws as [|w r IH]; intros H; cbn [gc_writes]; [reflexivity|].
  destruct (N.ltb_spec sp (w_commit w)) as [Hlt|Hge]; [specialize (H w (or_introl eq_refl)); lia|].
  destruct (w_kind w); apply IH; intros x Hx; apply H; right; exact Hx.
Qed.

Lemma gc_writes_read sp t ws : desc ws -> sp <= t -> read_writes (gc_writes sp true ws) t = read_writes ws t.
Proof.
  unfold desc. induction ws as [|w r IH]; intros Hd Ht; cbn [gc_writes read_writes]; [reflexivity|].
  inversion Hd as [|? ? Hr Hf]; subst. specialize (IH Hr Ht).
  destruct (N.ltb_spec sp (w_commit w)) as [Hlt|Hge].
  - cbn [read_writes]. destruct (w_kind w); try exact IH; destruct (w_commit w <=? t); try reflexivity; exact IH.
  - assert (Hle : (w_commit w <=? t) = true) by (apply N.leb_le; lia).
    destruct (w_kind w) eqn:Ek.
    + cbn [read_writes]. rewrite Ek, Hle. reflexivity.
    + rewrite Hle. rewrite gc_writes_all_old; [reflexivity|].
      intros x Hx. rewrite Forall_forall in Hf. specialize (Hf x Hx). lia.
    + exact IH.
    + exact IH.
Qed.

Lemma gc_not_refused st s e sp k l : keys_sorted st -> gc_refused st s e sp = false ->
  in_range s e k = true -> existsb (fun kv => fst kv =? k) st = true -> ks_lock (get_ks st k) = Some l -> sp < l_start l.
Proof.
  intros Hs Hg Hr Hex Hl. apply existsb_exists in Hex. destruct Hex as [[k0 v0] [Hin Ek]]. cbn [fst] in Ek. apply N.eqb_eq in Ek. subst k0.
  unfold gc_refused in Hg. destruct (N.ltb_spec sp (l_start l)) as [H|H]; [exact H|]. exfalso.
  assert (existsb (gc_blocked sp) (keys_in_range st s e) = true); [|congruence].
  apply existsb_exists. exists (k, v0). split; [apply filter_In; split; [exact Hin|exact Hr]|].
  unfold gc_blocked. cbn [snd]. rewrite <- (get_ks_in st k v0 Hs Hin), Hl. apply N.leb_le; exact H.
Qed.

Lemma gc_preserves cmds s e sp k t rs :
  gc_refused (run cmds) s e sp = false -> sp <= t ->
  get (fst (step (run cmds) (GC s e sp))) k t rs = get (run cmds) k t rs.
Proof.
  intros Hg Ht. destruct (run_sorted cmds) as [Hs Hd]. set (st := run cmds) in *.
  rewrite !get_unfold. cbn [step]. unfold gc_refused in Hg. rewrite Hg. cbn [fst].
  rewrite map_range_get by exact Hs.
  destruct (in_range s e k) eqn:Er; cbn [andb]; [|reflexivity].
  destruct (existsb (fun kv => fst kv =? k) st) eqn:Ex; [|reflexivity].
  cbn [gc_key]. unfold get_ks_value. cbn [ks_lock ks_writes].
  destruct (ks_lock (get_ks st k)) as [l|] eqn:El.
  - pose proof (gc_not_refused st s e sp k l Hs Hg Er Ex El) as Hl.
    unfold lock_check.
    destruct ((t <? l_start l) || op_eqb (l_op l) LLock || op_eqb (l_op l) LPess); [rewrite gc_writes_read by (auto; lia); reflexivity|].
    destruct ((t =? max_ts) && (l_primary l =? k)); [rewrite gc_writes_read by (auto; lia); reflexivity|].
    destruct (existsb (N.eqb (l_start l)) rs); [rewrite gc_writes_read by (auto; lia); reflexivity|reflexivity].
  - rewrite gc_writes_read by (auto; lia). reflexivity.
Qed.

(* ------------------------------------------------------------------ isolation level RC = the same read with all locks removed *)
Lemma get_ks_unlocked st k : get_ks (unlocked st) k = mkKs None (ks_writes (get_ks st k)).
Proof.
  unfold unlocked. induction st as [|[k0 v0] r IH]; cbn [map get_ks fst snd]; [reflexivity|].
  destruct (k0 =? k); [reflexivity|]. destruct (k <? k0); [reflexivity|exact IH].
Qed.
Lemma scan_gen_map entry (g : key * kstate -> key * kstate) s e : (forall kv, fst (g kv) = fst kv) ->
  forall st limit, scan_gen entry (map g st) s e limit = scan_gen (fun kv => entry (g kv)) st s e limit.
Proof.
  intros Hg. induction st as [|kv r IH]; intros limit; destruct limit as [|n]; cbn [map scan_gen]; try reflexivity.
  rewrite Hg. destruct (in_range s e (fst kv)); rewrite IH; reflexivity.
Qed.
Lemma scan_gen_ext (f g : key * kstate -> list pair) s e : (forall kv, f kv = g kv) ->
  forall st limit, scan_gen f st s e limit = scan_gen g st s e limit.
Proof.
  intros H. induction st as [|kv r IH]; intros limit; destruct limit as [|n]; cbn [scan_gen]; try reflexivity.
  rewrite H. destruct (in_range s e (fst kv)); rewrite IH; reflexivity.
Qed.
Lemma rc_entry_unlocked t kv : scan_entry t [] (fst kv, mkKs None (ks_writes (snd kv))) = rc_entry t kv.
Proof.
  unfold scan_entry, rc_entry, get_ks_value. cbn [fst snd ks_lock ks_writes].
  destruct (read_writes (ks_writes (snd kv)) t) as [[v c]|]; reflexivity.
Qed.

Lemma rc_reads st q :
  snd (step st (Rc q)) =
  match q with
  | QGet k t => get (unlocked st) k t []
  | QBatchGet ks t => snd (step (unlocked st) (BatchGet ks t []))
  | QScan s e limit t => snd (step (unlocked st) (Scan s e limit t []))
  | QReverseScan s e limit t => snd (step (unlocked st) (ReverseScan s e limit t []))
  end.
Proof.
  destruct q; cbn [step snd].
  - rewrite get_unfold, get_ks_unlocked. reflexivity.
  - unfold batch_get. apply (f_equal RPairs). apply flat_map_ext. intros k0. rewrite get_ks_unlocked. unfold get_ks_value. cbn [ks_lock ks_writes].
    destruct (read_writes (ks_writes (get_ks st k0)) t) as [[v c]|]; reflexivity.
  - unfold scan_fwd, unlocked. rewrite scan_gen_map by reflexivity. apply (f_equal RPairs). apply scan_gen_ext. intros kv. apply eq_sym, rc_entry_unlocked.
  - unfold scan_rev, unlocked. rewrite <- map_rev. rewrite scan_gen_map by reflexivity. apply (f_equal RPairs). apply scan_gen_ext. intros kv. apply eq_sym, rc_entry_unlocked.
Qed.

(* ------------------------------------------------------------------ ScanLock lists exactly the locks of the range *)
Lemma scan_lock_spec cmds s e m k l :
  (exists ls, snd (step (run cmds) (ScanLock s e m)) = RLocks ls /\
              (In (k, l) ls <-> in_range s e k = true /\ lock_of (run cmds) k = Some l /\ l_start l <= m)).
Proof.
  destruct (run_sorted cmds) as [Hs _]. set (st := run cmds) in *. cbn [step snd]. eexists. split; [reflexivity|].
  unfold lock_of. rewrite in_flat_map. split.
  - intros [[k0 v0] [Hin Hx]]. apply filter_In in Hin. destruct Hin as [Hin Hr]. cbn [fst snd] in *.
    destruct (ks_lock v0) as [l0|] eqn:El; [|destruct Hx]. destruct (N.leb_spec (l_start l0) m); [|destruct Hx].
    destruct Hx as [E|[]]. inversion E; subst. rewrite (get_ks_in st k v0 Hs Hin). tauto.
  - intros [Hr [El Hm]]. exists (k, get_ks st k). split.
    + apply filter_In. split; [|exact Hr]. apply get_ks_mem; [exact Hs|]. intros E0. rewrite E0 in El. discriminate.
    + cbn [fst snd]. rewrite El. destruct (N.leb_spec (l_start l) m); [left; reflexivity|lia].
Qed.
