(* Mvcc/ExampleCmds.v — command sequences used by the non-vacuity Examples of Mvcc/Props.v *)
From Verif Require Import Mvcc.Model Mvcc.Spec.

Definition T (r : N) : N := r * 262144.

Definition put (k s : N) : cmd := Prewrite [mkMut MPut k (16 + k) AsNone false] 1 (T s) 0 1 0 false.

Definition ex_cmds : list cmd :=
  [ put 1 1; put 2 1; Commit [1] (T 1) (T 3); Rollback [2] (T 1);            (* commits one key, rolls back the other *)
    PessLock (mkPessReq [(1, false)] 1 (T 2) (T 5) 3 0 true false false false true);
    Prewrite [mkMut MPut 1 33 AsNone true] 1 (T 2) (T 5) 1 0 false;          (* over the own pessimistic lock, commit T3 in between *)
    CheckTxnStatus 1 (T 2) (T 6) (T 4) true false; Commit [1] (T 2) (T 8); Commit [1] (T 2) (T 8);
    put 2 1;                                                                  (* late prewrite: rejected *)
    Cleanup 2 (T 4) 0; ResolveLock 0 0 (T 4) 0; GC 0 0 (T 9); Get 1 (T 10) [] ].

Definition ex_bad : list cmd :=
  [ put 1 1; Commit [1] (T 1) (T 3);
    PessLock (mkPessReq [(1, false)] 1 (T 1) (T 5) 3 0 false false false false true); Rollback [1] (T 1) ].

Definition pl1 (s fu ttl mc : N) : cmd := PessLock (mkPessReq [(1, false)] 1 s fu ttl mc false false false false true).

Definition plk (s : N) (k : N) : cmd := PessLock (mkPessReq [(k, false)] 1 s (T 9) 3 0 false false false false true).
