(* Mvcc/Props.v — theorems of property C12 (the mock TiKV implements Percolator MVCC).
   Model: Mvcc/Model.v ([step], [run cmds := fold_left step]); discipline and declarative
   specifications: Mvcc/Spec.v. Every statement is over ALL command sequences. *)
From Verif Require Import Mvcc.Model Mvcc.Spec Mvcc.ProofsStore Mvcc.ProofsKey Mvcc.ProofsKstep Mvcc.ProofsShape
     Mvcc.ProofsStep Mvcc.ProofsRead Mvcc.ProofsLate Mvcc.ProofsMarker Mvcc.ProofsIdem Mvcc.ProofsIdem2 Mvcc.ProofsIdem3 Mvcc.ProofsLockMono Mvcc.ProofsDef Mvcc.ProofsSeq Mvcc.ExampleCmds Mvcc.ProofsGcIdem Mvcc.Handler Mvcc.Deadlock Mvcc.ProofsDeadlock Mvcc.ProofsDeadlock2.

(* ---- induction carriers *)
(* unconditional: keys ascending, write records of every key strictly descending by commit ts *)
Theorem C12_sorted_store : forall cmds, sorted_store (run cmds).
Proof. exact run_sorted. Qed.
Print Assumptions C12_sorted_store.

(* under the discipline: additionally at most one record per (key, start), every record / lock belongs
   to a transaction of the sequence with its own commit ts, and a lock's transaction has no record on that key *)
Theorem C12_wf_store : forall cmds, oracle_ts cmds = true -> wf_store (world_of cmds) (run cmds).
Proof. exact oracle_run_wf. Qed.
Print Assumptions C12_wf_store.

(* ---- on one key a transaction is never both committed and rolled back *)
Theorem C12_exclusive_outcome : forall cmds k s, oracle_ts cmds = true ->
  ~ (committed (run cmds) k s = true /\ rolled_back (run cmds) k s = true).
Proof. exact exclusive_outcome. Qed.
Print Assumptions C12_exclusive_outcome.

(* ---- repeating a command whose effect is in place: same answer (up to the informational action of a
   status check), state unchanged. Classes: commit, batch rollback, cleanup, check-txn-status
   (rollback_if_not_exist or not resolving_pessimistic_lock), resolve, batch resolve, heartbeat;
   arbitrary key lists / ranges. *)
Theorem C12_idempotent : forall cmds c, oracle_ts (cmds ++ [c]) = true -> idem_class c = true ->
  exists r2, step (fst (step (run cmds) c)) c = (fst (step (run cmds) c), r2)
             /\ resp_status r2 = resp_status (snd (step (run cmds) c)).
Proof. exact seq_idempotent. Qed.
Print Assumptions C12_idempotent.

(* whole Prewrite requests (any number of mutations, duplicates allowed, optimistic or pessimistic, incl. the
   Insert / CheckNotExists existence pre-check of repaired defect a799b8b) and whole PessimisticLock requests
   (any number of keys, every mode: return values, check existence, lock-only-if-exists, ForceLock, no-wait):
   ANY sequence (no discipline needed), same answer, state unchanged. Only restriction: start ts <> 2^64-1. *)
Theorem C12_idempotent_prewrite : forall cmds ms primary s fu ttl mc ao, s <> max_ts ->
  let c := Prewrite ms primary s fu ttl mc ao in
  exists r2, step (fst (step (run cmds) c)) c = (fst (step (run cmds) c), r2)
             /\ resp_status r2 = resp_status (snd (step (run cmds) c)).
Proof. exact seq_idempotent_prewrite. Qed.
Print Assumptions C12_idempotent_prewrite.

Theorem C12_idempotent_pessimistic_lock : forall cmds r,
  step (fst (step (run cmds) (PessLock r))) (PessLock r) = (fst (step (run cmds) (PessLock r)), snd (step (run cmds) (PessLock r))).
Proof. exact seq_idempotent_pessimistic_lock. Qed.
Print Assumptions C12_idempotent_pessimistic_lock.

Theorem C12_idempotent_pessimistic_rollback : forall cmds s e ks start fu,
  let c := PessRollback s e ks start fu in
  exists r2, step (fst (step (run cmds) c)) c = (fst (step (run cmds) c), r2)
             /\ resp_status r2 = resp_status (snd (step (run cmds) c)).
Proof. exact pess_rollback_idem_seq. Qed.
Print Assumptions C12_idempotent_pessimistic_rollback.

(* every write request as a whole: Prewrite, PessimisticLock, PessimisticRollback, Commit, BatchRollback, Cleanup,
   ResolveLock (single and TxnInfos form), TxnHeartBeat, CheckTxnStatus (same arguments, incl. the same current_ts;
   rollback_if_not_exist or not resolving_pessimistic_lock) - whatever it answered, repeating it answers the same
   (up to the Action of a status check) and leaves the store unchanged. What does NOT hold: see the Examples
   ex_cts_not_idempotent (resolving_pessimistic_lock without rollback_if_not_exist over an expired pessimistic lock:
   rolled back, then TxnNotFound - as in TiKV) and ex_cts_moving_current_ts (a later current_ts is another request). *)
Theorem C12_idempotent_every_write_request : forall cmds c, oracle_ts (cmds ++ [c]) = true -> idem_class_all c = true ->
  exists r2, step (fst (step (run cmds) c)) c = (fst (step (run cmds) c), r2)
             /\ resp_status r2 = resp_status (snd (step (run cmds) c)).
Proof. exact idem_all_seq. Qed.
Print Assumptions C12_idempotent_every_write_request.

(* ---- what a reader's status check / the owner's heartbeat pushed on a lock survives the owner's later requests:
   over any step that keeps the lock with the same owner, ttl does not decrease and min_commit_ts of a primary lock
   does not decrease, unless the step is the owner's own PessimisticLock request (a re-lock with a larger for-update ts
   writes the request's ttl / min_commit_ts, as TiKV does: ex_relock_exception); a commit below the lock's
   min_commit_ts is refused and changes nothing *)
Theorem C12_lock_fields_monotone : forall cmds c k, lock_mono_ok (run cmds) (fst (step (run cmds) c)) c k = true.
Proof. exact lock_fields_monotone_seq. Qed.
Print Assumptions C12_lock_fields_monotone.

Theorem C12_status_rolled_back_unlocked : forall cmds k s caller cur rine rp a,
  snd (step (run cmds) (CheckTxnStatus k s caller cur rine rp)) = RStatus 0 0 a ->
  a = ATTLExpireRollback \/ a = ATTLExpirePessimisticRollback ->
  own_lock (get_ks (fst (step (run cmds) (CheckTxnStatus k s caller cur rine rp))) k) s = None.
Proof. exact status_rolled_back_unlocked. Qed.
Print Assumptions C12_status_rolled_back_unlocked.

Theorem C12_commit_below_min_commit_refused : forall st keys s c, commit_must_be_refused st keys s c = true ->
  exists e, step st (Commit keys s c) = (st, RErr (Some e)).
Proof. exact commit_below_min_commit_refused. Qed.
Print Assumptions C12_commit_below_min_commit_refused.

(* ---- a prewrite arriving after the transaction's commit or rollback record is rejected and changes
   nothing, as long as no GC with safe point >= start ran in between *)
Theorem C12_late_prewrite_rejected : forall a b k s ms primary fu ttl mc ao,
  oracle_ts (a ++ b) = true -> has_write (run a) k s = true ->
  (forall c, In c b -> is_gc_over c s = false) ->
  (exists m, In m ms /\ m_key m = k /\ m_op m <> MCheckNotExists) ->
  exists es, step (run (a ++ b)) (Prewrite ms primary s fu ttl mc ao) = (run (a ++ b), RErrs es) /\ has_err es = true.
Proof. exact late_prewrite_seq. Qed.
Print Assumptions C12_late_prewrite_rejected.

Theorem C12_marker_until_gc : forall a b k s, oracle_ts (a ++ b) = true -> has_write (run a) k s = true ->
  (forall c, In c b -> is_gc_over c s = false) -> has_write (run (a ++ b)) k s = true.
Proof. exact marker_until_gc. Qed.
Print Assumptions C12_marker_until_gc.

(* every rollback path (batch rollback, cleanup, check-txn-status, resolve) leaves the record *)
Theorem C12_rollback_leaves_marker : forall cmds,
  let st := run cmds in
  (forall keys s, snd (step st (Rollback keys s)) = RErr None ->
                  forall k, In k keys -> rolled_back (fst (step st (Rollback keys s))) k s = true) /\
  (forall k s cur, snd (step st (Cleanup k s cur)) = RErr None -> rolled_back (fst (step st (Cleanup k s cur))) k s = true) /\
  (forall k s caller cur rine rp a, snd (step st (CheckTxnStatus k s caller cur rine rp)) = RStatus 0 0 a ->
        a = ATTLExpireRollback \/ a = ALockNotExistRollback ->
        rolled_back (fst (step st (CheckTxnStatus k s caller cur rine rp))) k s = true) /\
  (forall s0 e0 s k l, lock_of st k = Some l -> l_start l = s -> in_range s0 e0 k = true ->
        rolled_back (fst (step st (ResolveLock s0 e0 s 0))) k s = true /\ lock_of (fst (step st (ResolveLock s0 e0 s 0))) k = None).
Proof. exact seq_rollback_leaves_marker. Qed.
Print Assumptions C12_rollback_leaves_marker.

Theorem C12_commit_ok_committed : forall cmds keys s c, snd (step (run cmds) (Commit keys s c)) = RErr None ->
  forall k, In k keys -> committed (fst (step (run cmds) (Commit keys s c))) k s = true.
Proof. exact seq_commit_ok_committed. Qed.
Print Assumptions C12_commit_ok_committed.

(* ---- reads: the answer of Get is the declarative one - the lock blocks iff start <= ts, op in {Put,Del},
   not the max-ts read of the lock's own primary, not in the resolved list; otherwise the value of the
   visible Put/Delete record of greatest commit ts (order-independent definition) *)
Theorem C12_read : forall cmds k t resolved, get (run cmds) k t resolved = spec_get (run cmds) k t resolved.
Proof. exact read_correct. Qed.
Print Assumptions C12_read.

Theorem C12_read_newest : forall ws t,
  match newest_visible ws t with
  | Some w => In w ws /\ visible t w = true /\ forall x, In x ws -> visible t x = true -> w_commit x <= w_commit w
  | None => forall x, In x ws -> visible t x = false
  end.
Proof. exact newest_visible_max. Qed.
Print Assumptions C12_read_newest.

Theorem C12_scan_is_gets : forall cmds s e limit t resolved,
  snd (step (run cmds) (Scan s e limit t resolved)) = RPairs (spec_scan (run cmds) s e limit t resolved).
Proof. exact scan_correct. Qed.
Print Assumptions C12_scan_is_gets.

Theorem C12_reverse_mirror : forall cmds s e limit t resolved,
  snd (step (run cmds) (ReverseScan s e limit t resolved)) = RPairs (spec_rscan (run cmds) s e limit t resolved).
Proof. exact rscan_correct. Qed.
Print Assumptions C12_reverse_mirror.

(* ---- ScanLock lists exactly the locks of the keys of [s,e) whose start ts is at most max, each with its full lock
   record (primary, start ts, type, ttl, for-update ts are what the code reports; min_commit_ts is not reported) *)
Theorem C12_scan_lock : forall cmds s e m k l,
  (exists ls, snd (step (run cmds) (ScanLock s e m)) = RLocks ls /\
              (In (k, l) ls <-> in_range s e k = true /\ lock_of (run cmds) k = Some l /\ l_start l <= m)).
Proof. exact scan_lock_spec. Qed.
Print Assumptions C12_scan_lock.

(* the ScanLock REQUEST as handleKvScanLock serves it (since /repo 9f23e58): start key / end key clipped to the region
   [rs,re), at most [limit] locks (0 = no limit): the first [limit] locks, in ascending key order, of the locks of the
   clipped window with start ts <= max *)
Theorem C12_scan_lock_handler : forall cmds rs re s e limit max,
  exists ls, handler_scan_lock (run cmds) rs re s e limit max = cut_limit limit ls /\
             (forall k l, In (k, l) ls <-> in_range (clip_start rs s) (clip_end re e) k = true /\ lock_of (run cmds) k = Some l /\ l_start l <= max) /\
             Sorted.StronglySorted N.lt (map fst ls).
Proof. exact handler_scan_lock_spec. Qed.
Print Assumptions C12_scan_lock_handler.

(* ---- isolation level RC: Get / BatchGet / Scan / ReverseScan answer what the SI read answers on the store
   with every lock removed (any state) *)
Theorem C12_rc_ignores_locks : forall st q,
  snd (step st (Rc q)) =
  match q with
  | QGet k t => get (unlocked st) k t []
  | QBatchGet ks t => snd (step (unlocked st) (BatchGet ks t []))
  | QScan s e limit t => snd (step (unlocked st) (Scan s e limit t []))
  | QReverseScan s e limit t => snd (step (unlocked st) (ReverseScan s e limit t []))
  end.
Proof. exact rc_reads. Qed.
Print Assumptions C12_rc_ignores_locks.

(* ---- DeleteRange removes every row of the keys of [s,e) and nothing else *)
Theorem C12_delete_range : forall cmds s e k,
  get_ks (fst (step (run cmds) (DeleteRange s e))) k = if in_range s e k then empty_ks else get_ks (run cmds) k.
Proof. exact seq_delete_range. Qed.
Print Assumptions C12_delete_range.

(* ---- GC *)
(* against a predicate independent of the model's own branch condition: a key of [s,e) carrying a lock with
   start ts <= safe point makes GC answer the error and change nothing; without such a key GC runs *)
Theorem C12_gc_refuses_lock : forall cmds s e sp,
  let st := run cmds in
  ((exists k l, in_range s e k = true /\ lock_of st k = Some l /\ l_start l <= sp) ->
   step st (GC s e sp) = (st, RErr (Some (EAbort AGcLock)))) /\
  (~ (exists k l, in_range s e k = true /\ lock_of st k = Some l /\ l_start l <= sp) ->
   snd (step st (GC s e sp)) = RErr None).
Proof. exact gc_refuses_lock_seq. Qed.
Print Assumptions C12_gc_refuses_lock.

(* GC at the same safe point twice: same answer, and the second run leaves every key exactly as the first left it *)
Theorem C12_idempotent_gc : forall cmds s e sp,
  let st1 := fst (step (run cmds) (GC s e sp)) in
  snd (step st1 (GC s e sp)) = snd (step (run cmds) (GC s e sp)) /\ forall k, get_ks (fst (step st1 (GC s e sp))) k = get_ks st1 k.
Proof. exact gc_idem_seq. Qed.
Print Assumptions C12_idempotent_gc.

Theorem C12_gc_preserves_reads : forall cmds s e sp k t resolved,
  gc_refused (run cmds) s e sp = false -> sp <= t ->
  get (fst (step (run cmds) (GC s e sp))) k t resolved = get (run cmds) k t resolved.
Proof. exact gc_preserves. Qed.
Print Assumptions C12_gc_preserves_reads.

(* ---- behaviours fixed by definition (TiKV's), per key, any state *)
Theorem C12_own_pess_prewrite_not_rechecked : forall ks m s p ttl mc ao l e,
  ks_lock ks = Some l -> l_start l = s -> is_pess l = true ->
  (forall w, In w (ks_writes ks) -> w_commit w <= max_ts) ->
  prewrite_key ks m s p ttl mc ao = KErr e -> is_write_conflict e = false.
Proof. exact own_pess_prewrite_not_rechecked. Qed.
Print Assumptions C12_own_pess_prewrite_not_rechecked.

Theorem C12_pess_lock_over_prewrite_refused : forall ks r k ne l,
  ks_lock ks = Some l -> l_start l = p_start r -> is_pess l = false -> exists e, pess_lock_key ks r k ne = inl e.
Proof. exact pess_lock_over_prewrite_refused. Qed.
Print Assumptions C12_pess_lock_over_prewrite_refused.

Theorem C12_commit_pess_lock_no_data : forall ks l s c t, is_pess l = true -> ~ In c (map w_commit (ks_writes ks)) ->
  read_writes (ks_writes (commit_lock ks l s c)) t = read_writes (ks_writes ks) t.
Proof. exact commit_pess_lock_no_data. Qed.
Print Assumptions C12_commit_pess_lock_no_data.

(* ---- the deadlock detector (state that survives across calls; Mvcc/Deadlock.v: [dstep], [drun]) *)
(* the wait-for graph stays acyclic over every command sequence ... *)
Theorem C12_deadlock_graph_acyclic : forall cmds, acyclic (snd (drun cmds)).
Proof. exact drun_acyclic. Qed.
Print Assumptions C12_deadlock_graph_acyclic.

(* ... hence doDetect - a DFS WITHOUT a visited set - terminates: recursion depth |waitForMap|+1 always suffices *)
Theorem C12_deadlock_detector_terminates : forall cmds s w k, snd (detect (snd (drun cmds)) s w k) <> VOutOfFuel.
Proof. exact drun_detect_terminates. Qed.
Print Assumptions C12_deadlock_detector_terminates.

Theorem C12_deadlock_no_fuel_error : forall cmds r,
  match snd (dstep (drun cmds) (PessLock r)) with RPessD es _ => no_fuel_err es | RD _ => True end.
Proof. exact drun_no_fuel_error. Qed.
Print Assumptions C12_deadlock_no_fuel_error.

(* ... and its verdict is exactly reachability: Deadlock iff the lock holder (transitively) waits for the requester *)
Theorem C12_deadlock_verdict_is_reachability : forall cmds s w k,
  let d := snd (drun cmds) in
  (forall wk, snd (detect d s w k) = VDeadlock wk -> reach d w s) /\ (snd (detect d s w k) = VWait -> ~ reach d w s).
Proof. exact drun_detect_spec. Qed.
Print Assumptions C12_deadlock_verdict_is_reachability.

(* commit / batch rollback / cleanup of a transaction drop its wait-for edges, whatever they answer *)
Theorem C12_deadlock_finish_clears_edges : forall sd c s, finishes c = Some s -> d_get (snd (fst (dstep sd c))) s = [].
Proof. exact finish_clears_edges. Qed.
Print Assumptions C12_deadlock_finish_clears_edges.

(* the store of the layered model is the store of [run]: every theorem above about [run cmds] holds with the detector *)
Theorem C12_deadlock_store_refines : forall cmds, fst (drun cmds) = run cmds.
Proof. exact drun_store. Qed.
Print Assumptions C12_deadlock_store_refines.

(* ------------------------------------------------------------------ non-vacuity *)
Example ex_disciplined : oracle_ts ex_cmds = true.
Proof. vm_compute. reflexivity. Qed.
Example ex_state : committed (run ex_cmds) 1 (T 2) = true /\ rolled_back (run (firstn 12 ex_cmds)) 2 (T 4) = true
                   /\ get (run ex_cmds) 1 (T 10) [] = RGet (Some (33, T 8)).
Proof. vm_compute. repeat split. Qed.
Example ex_late_prewrite : has_write (run (firstn 9 ex_cmds)) 2 (T 1) = true
                           /\ snd (step (run (firstn 9 ex_cmds)) (put 2 1)) = RErrs [Some EAlreadyRolledBack].
Proof. vm_compute. split; reflexivity. Qed.
Example ex_idem_class : idem_class (Commit [1] (T 2) (T 8)) = true /\ oracle_ts (firstn 8 ex_cmds ++ [Commit [1] (T 2) (T 8)]) = true.
Proof. vm_compute. split; reflexivity. Qed.
(* the discipline is needed: a pessimistic lock request after the commit record lets the mock roll the
   committed transaction back on that key *)
Example ex_bad_not_disciplined : oracle_ts ex_bad = false
  /\ committed (run ex_bad) 1 (T 1) = true /\ rolled_back (run ex_bad) 1 (T 1) = true.
Proof. vm_compute. repeat split. Qed.
Example ex_gc : gc_refused (run ex_cmds) 0 0 (T 9) = false /\ gc_refused (run (firstn 5 ex_cmds)) 0 0 (T 9) = true.
Proof. vm_compute. split; reflexivity. Qed.

(* ---- idempotence: what does not hold / why the side conditions are there *)
Example ex_cts_not_idempotent :
  let st := run [pl1 (T 1) (T 2) 1 0] in
  let c := CheckTxnStatus 1 (T 1) (T 9) (T 9) false true in
  snd (step st c) = RStatus 0 0 ATTLExpirePessimisticRollback /\ snd (step (fst (step st c)) c) = RErr (Some ETxnNotFound)
  /\ idem_class_all c = false.
Proof. vm_compute. repeat split. Qed.
Example ex_cts_moving_current_ts :
  let st := run [put 1 1] in
  snd (step st (CheckTxnStatus 1 (T 1) (T 9) (T 1) true false)) = RStatus 1 0 ANoAction
  /\ snd (step st (CheckTxnStatus 1 (T 1) (T 9) (T 9) true false)) = RStatus 0 0 ATTLExpireRollback.
Proof. vm_compute. split; reflexivity. Qed.
(* the lock-field exception is needed: the owner's re-lock with a larger for-update ts lowers a heartbeat-extended ttl *)
Example ex_relock_exception :
  let st := run [pl1 (T 1) (T 2) 1 0; HeartBeat 1 (T 1) 40] in
  option_map l_ttl (lock_of st 1) = Some 40
  /\ option_map l_ttl (lock_of (fst (step st (pl1 (T 1) (T 3) 1 0))) 1) = Some 1.
Proof. vm_compute. split; reflexivity. Qed.
(* a pushed min_commit_ts survives the prewrite over the own pessimistic lock, and the commit below it is refused *)
Example ex_pushed_min_commit_kept :
  let st := run [pl1 (T 1) (T 2) 9 (T 1 + 1); CheckTxnStatus 1 (T 1) (T 6) (T 3) true false;
                 Prewrite [mkMut MPut 1 5 AsNone false] 1 (T 1) (T 2) 1 0 false] in
  option_map l_min_commit (lock_of st 1) = Some (T 6 + 1)
  /\ step st (Commit [1] (T 1) (T 4)) = (st, RErr (Some (ECommitTsExpired (T 6 + 1)))).
Proof. vm_compute. split; reflexivity. Qed.
(* timestamps: the code keeps the lock of a key in the row of version 2^64-1, so 2^64-1 is no usable start / commit ts
   (on the code a commit at 2^64-1 answers ok and leaves no record: docs/C12.md); in the model, which has no such row
   collision, the side condition start <> 2^64-1 of C12_idempotent_prewrite is needed: *)
Example ex_prewrite_at_max_ts_not_idempotent :
  let st := run [put 1 1; Commit [1] (T 1) (T 2); Prewrite [mkMut MDel 1 0 AsNone false] 1 (T 3) 0 1 0 false; Commit [1] (T 3) max_ts] in
  let c := Prewrite [mkMut MInsert 1 7 AsNone false] 1 max_ts 0 1 0 false in
  snd (step st c) = RErrs [None] /\ snd (step (fst (step st c)) c) = RErrs [Some (EAlreadyExist 1)].
Proof. vm_compute. split; reflexivity. Qed.

(* ---- deadlock detector *)
Example ex_deadlock_two_cycle :
  snd (dstep (drun [plk (T 1) 1; plk (T 2) 2; plk (T 1) 2]) (plk (T 2) 1))
  = RPessD [EDeadlock (T 1) 1 2] []
  /\ snd (drun [plk (T 1) 1; plk (T 2) 2; plk (T 1) 2]) = [(T 1, [(T 2, 2)])].
Proof. vm_compute. split; reflexivity. Qed.
(* the waiter's batch rollback drops its edges: no deadlock any more *)
Example ex_deadlock_cleared_by_rollback :
  match snd (dstep (drun [plk (T 1) 1; plk (T 2) 2; plk (T 1) 2; Rollback [3] (T 1)]) (plk (T 2) 1)) with
  | RPessD [EPlain (ELocked _ _)] [] => True | _ => False end.
Proof. vm_compute. exact I. Qed.
(* the code as it is: releasing the locks (pessimistic rollback) does not clear edges - a stale edge still closes a "cycle" *)
Example ex_deadlock_stale_edge :
  match snd (dstep (drun [plk (T 1) 1; plk (T 2) 2; plk (T 1) 2; PessRollback 0 0 [] (T 2) (T 9); plk (T 1) 2]) (plk (T 2) 1)) with
  | RPessD [EDeadlock _ _ _] [] => True | _ => False end.
Proof. vm_compute. exact I. Qed.
(* acyclicity is what makes the DFS terminate: on a cyclic graph (unreachable by the theorem) the fuel runs out *)
Example ex_cyclic_graph_runs_out_of_fuel :
  do_detect 3 [(1, [(2, 5)]); (2, [(1, 5)])] 9 1 = None /\ do_detect 50 [(1, [(2, 5)]); (2, [(1, 5)])] 9 1 = None.
Proof. vm_compute. split; reflexivity. Qed.

(* ---- handler-level scan lock: window clipped to the region, cut at limit *)
Example ex_scan_lock_handler :
  let st := run [plk (T 1) 1; plk (T 2) 2; plk (T 3) 3; plk (T 4) 4] in
  map fst (handler_scan_lock st 0 3 2 0 0 (T 9)) = [2] /\ map fst (handler_scan_lock st 3 0 1 0 1 (T 9)) = [3]
  /\ map fst (handler_scan_lock st 0 0 0 0 3 (T 9)) = [1; 2; 3] /\ map fst (handler_scan_lock st 0 0 2 4 0 (T 2)) = [2].
Proof. vm_compute. repeat split. Qed.

Example ex_gc_twice :
  let st := run (firstn 12 ex_cmds) in
  writes_of (fst (step st (GC 0 0 (T 9)))) 1 <> writes_of st 1
  /\ fst (step (fst (step st (GC 0 0 (T 9)))) (GC 0 0 (T 9))) = fst (step st (GC 0 0 (T 9))).
Proof. vm_compute. split; [discriminate|reflexivity]. Qed.
