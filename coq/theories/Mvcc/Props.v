(* Mvcc/Props.v — theorems of property C12 (the mock TiKV implements Percolator MVCC).
   Model: Mvcc/Model.v ([step], [run cmds := fold_left step]); discipline and declarative
   specifications: Mvcc/Spec.v. Every statement is over ALL command sequences. *)
From Verif Require Import Mvcc.Model Mvcc.Spec Mvcc.ProofsStore Mvcc.ProofsKey Mvcc.ProofsKstep Mvcc.ProofsShape
     Mvcc.ProofsStep Mvcc.ProofsRead Mvcc.ProofsLate Mvcc.ProofsMarker Mvcc.ProofsIdem Mvcc.ProofsIdem2 Mvcc.ProofsDef.

(* ---- induction carriers *)
(* unconditional: keys ascending, write records of every key strictly descending by commit ts *)
Theorem C12_sorted_store : forall cmds, sorted_store (run cmds).
Proof. exact run_sorted. Qed.
Print Assumptions C12_sorted_store.

(* under the discipline: additionally at most one record per (key, start), every record / lock belongs
   to a transaction of the sequence with its own commit ts, and a lock's transaction has no record on that key *)
Theorem C12_wf_store : forall cmds, oracle_ts cmds = true -> wf_store (world_of cmds) (run cmds).
Proof. exact oracle_run_wf. Qed.
Print Assumptions C12_wf_store.

(* ---- on one key a transaction is never both committed and rolled back *)
Theorem C12_exclusive_outcome : forall cmds k s, oracle_ts cmds = true ->
  ~ (committed (run cmds) k s = true /\ rolled_back (run cmds) k s = true).
Proof. exact exclusive_outcome. Qed.
Print Assumptions C12_exclusive_outcome.

(* ---- repeating a command whose effect is in place: same answer (up to the informational action of a
   status check), state unchanged. Classes: commit, batch rollback, cleanup, check-txn-status
   (rollback_if_not_exist or not resolving_pessimistic_lock), resolve, batch resolve, heartbeat;
   arbitrary key lists / ranges. *)
Theorem C12_idempotent : forall cmds c, oracle_ts (cmds ++ [c]) = true -> idem_class c = true ->
  exists r2, step (fst (step (run cmds) c)) c = (fst (step (run cmds) c), r2)
             /\ resp_status r2 = resp_status (snd (step (run cmds) c)).
Proof.
  intros cmds c Ho Hc. destruct (oracle_app_wf cmds [c] Ho) as [HW [Hwf _]].
  eapply step_idem; eassumption.
Qed.
Print Assumptions C12_idempotent.

(* whole Prewrite requests (any number of mutations, duplicates allowed, optimistic or pessimistic, incl. the
   Insert / CheckNotExists existence pre-check of repaired defect a799b8b) and whole PessimisticLock requests
   (any number of keys, every mode: return values, check existence, lock-only-if-exists, ForceLock, no-wait):
   ANY sequence (no discipline needed), same answer, state unchanged. Only restriction: start ts <> 2^64-1. *)
Theorem C12_idempotent_prewrite : forall cmds ms primary s fu ttl mc ao, s <> max_ts ->
  let c := Prewrite ms primary s fu ttl mc ao in
  exists r2, step (fst (step (run cmds) c)) c = (fst (step (run cmds) c), r2)
             /\ resp_status r2 = resp_status (snd (step (run cmds) c)).
Proof. intros cmds ms primary s fu ttl mc ao Hs. apply prewrite_idem; [apply (run_sorted cmds)|exact Hs]. Qed.
Print Assumptions C12_idempotent_prewrite.

Theorem C12_idempotent_pessimistic_lock : forall cmds r,
  step (fst (step (run cmds) (PessLock r))) (PessLock r) = (fst (step (run cmds) (PessLock r)), snd (step (run cmds) (PessLock r))).
Proof. intros cmds r. destruct (pess_lock_idem (run cmds) r (proj1 (run_sorted cmds))) as [r2 [H E]]. subst r2. exact H. Qed.
Print Assumptions C12_idempotent_pessimistic_lock.

(* ---- a prewrite arriving after the transaction's commit or rollback record is rejected and changes
   nothing, as long as no GC with safe point >= start ran in between *)
Theorem C12_late_prewrite_rejected : forall a b k s ms primary fu ttl mc ao,
  oracle_ts (a ++ b) = true -> has_write (run a) k s = true ->
  (forall c, In c b -> is_gc_over c s = false) ->
  (exists m, In m ms /\ m_key m = k /\ m_op m <> MCheckNotExists) ->
  exists es, step (run (a ++ b)) (Prewrite ms primary s fu ttl mc ao) = (run (a ++ b), RErrs es) /\ has_err es = true.
Proof. exact late_prewrite_seq. Qed.
Print Assumptions C12_late_prewrite_rejected.

Theorem C12_marker_until_gc : forall a b k s, oracle_ts (a ++ b) = true -> has_write (run a) k s = true ->
  (forall c, In c b -> is_gc_over c s = false) -> has_write (run (a ++ b)) k s = true.
Proof. exact marker_until_gc. Qed.
Print Assumptions C12_marker_until_gc.

(* every rollback path (batch rollback, cleanup, check-txn-status, resolve) leaves the record *)
Theorem C12_rollback_leaves_marker : forall cmds,
  let st := run cmds in
  (forall keys s, snd (step st (Rollback keys s)) = RErr None ->
                  forall k, In k keys -> rolled_back (fst (step st (Rollback keys s))) k s = true) /\
  (forall k s cur, snd (step st (Cleanup k s cur)) = RErr None -> rolled_back (fst (step st (Cleanup k s cur))) k s = true) /\
  (forall k s caller cur rine rp a, snd (step st (CheckTxnStatus k s caller cur rine rp)) = RStatus 0 0 a ->
        a = ATTLExpireRollback \/ a = ALockNotExistRollback ->
        rolled_back (fst (step st (CheckTxnStatus k s caller cur rine rp))) k s = true) /\
  (forall s0 e0 s k l, lock_of st k = Some l -> l_start l = s -> in_range s0 e0 k = true ->
        rolled_back (fst (step st (ResolveLock s0 e0 s 0))) k s = true /\ lock_of (fst (step st (ResolveLock s0 e0 s 0))) k = None).
Proof.
  intros cmds st. destruct (run_sorted cmds) as [Hs _]. fold st in Hs. repeat split.
  - intros keys s H k Hk. apply rollback_leaves_marker; assumption.
  - intros k s cur H. apply cleanup_leaves_marker; assumption.
  - intros k s caller cur rine rp a H Ha. eapply cts_leaves_marker; eassumption.
  - apply (resolve_rollback_leaves_marker st s0 e0 s k l Hs); assumption.
  - apply (resolve_rollback_leaves_marker st s0 e0 s k l Hs); assumption.
Qed.
Print Assumptions C12_rollback_leaves_marker.

Theorem C12_commit_ok_committed : forall cmds keys s c, snd (step (run cmds) (Commit keys s c)) = RErr None ->
  forall k, In k keys -> committed (fst (step (run cmds) (Commit keys s c))) k s = true.
Proof. intros cmds keys s c. apply commit_ok_committed. apply (run_sorted cmds). Qed.
Print Assumptions C12_commit_ok_committed.

(* ---- reads: the answer of Get is the declarative one - the lock blocks iff start <= ts, op in {Put,Del},
   not the max-ts read of the lock's own primary, not in the resolved list; otherwise the value of the
   visible Put/Delete record of greatest commit ts (order-independent definition) *)
Theorem C12_read : forall cmds k t resolved, get (run cmds) k t resolved = spec_get (run cmds) k t resolved.
Proof. exact read_correct. Qed.
Print Assumptions C12_read.

Theorem C12_read_newest : forall ws t,
  match newest_visible ws t with
  | Some w => In w ws /\ visible t w = true /\ forall x, In x ws -> visible t x = true -> w_commit x <= w_commit w
  | None => forall x, In x ws -> visible t x = false
  end.
Proof. exact newest_visible_max. Qed.
Print Assumptions C12_read_newest.

Theorem C12_scan_is_gets : forall cmds s e limit t resolved,
  snd (step (run cmds) (Scan s e limit t resolved)) = RPairs (spec_scan (run cmds) s e limit t resolved).
Proof. exact scan_correct. Qed.
Print Assumptions C12_scan_is_gets.

Theorem C12_reverse_mirror : forall cmds s e limit t resolved,
  snd (step (run cmds) (ReverseScan s e limit t resolved)) = RPairs (spec_rscan (run cmds) s e limit t resolved).
Proof. exact rscan_correct. Qed.
Print Assumptions C12_reverse_mirror.

(* ---- isolation level RC: Get / BatchGet / Scan / ReverseScan answer what the SI read answers on the store
   with every lock removed (any state) *)
Theorem C12_rc_ignores_locks : forall st q,
  snd (step st (Rc q)) =
  match q with
  | QGet k t => get (unlocked st) k t []
  | QBatchGet ks t => snd (step (unlocked st) (BatchGet ks t []))
  | QScan s e limit t => snd (step (unlocked st) (Scan s e limit t []))
  | QReverseScan s e limit t => snd (step (unlocked st) (ReverseScan s e limit t []))
  end.
Proof. exact rc_reads. Qed.
Print Assumptions C12_rc_ignores_locks.

(* ---- DeleteRange removes every row of the keys of [s,e) and nothing else *)
Theorem C12_delete_range : forall cmds s e k,
  get_ks (fst (step (run cmds) (DeleteRange s e))) k = if in_range s e k then empty_ks else get_ks (run cmds) k.
Proof.
  intros cmds s e k. destruct (run_sorted cmds) as [Hs _]. cbn [step fst]. rewrite map_range_get by exact Hs.
  destruct (in_range s e k); cbn [andb]; [|reflexivity].
  destruct (existsb (fun kv => fst kv =? k) (run cmds)) eqn:Ex; [reflexivity|].
  apply get_ks_absent; [exact Hs|]. intros Hin. apply in_map_iff in Hin. destruct Hin as [kv [Ek Hin]].
  assert (existsb (fun kv0 => fst kv0 =? k) (run cmds) = true); [|congruence].
  apply existsb_exists. exists kv. split; [exact Hin|apply N.eqb_eq; exact Ek].
Qed.
Print Assumptions C12_delete_range.

(* ---- GC *)
Theorem C12_gc_refuses_lock : forall st s e sp,
  (snd (step st (GC s e sp)) = RErr (Some (EAbort AGcLock)) <-> gc_refused st s e sp = true)
  /\ (gc_refused st s e sp = true -> fst (step st (GC s e sp)) = st)
  /\ (gc_refused st s e sp = false -> snd (step st (GC s e sp)) = RErr None).
Proof.
  intros. unfold gc_refused. cbn [step]. destruct (existsb (gc_blocked sp) (keys_in_range st s e)); cbn [fst snd].
  - repeat split; auto; discriminate.
  - repeat split; auto; discriminate.
Qed.
Print Assumptions C12_gc_refuses_lock.

Theorem C12_gc_preserves_reads : forall cmds s e sp k t resolved,
  gc_refused (run cmds) s e sp = false -> sp <= t ->
  get (fst (step (run cmds) (GC s e sp))) k t resolved = get (run cmds) k t resolved.
Proof. exact gc_preserves. Qed.
Print Assumptions C12_gc_preserves_reads.

(* ---- behaviours fixed by definition (TiKV's), per key, any state *)
Theorem C12_own_pess_prewrite_not_rechecked : forall ks m s p ttl mc ao l e,
  ks_lock ks = Some l -> l_start l = s -> is_pess l = true ->
  (forall w, In w (ks_writes ks) -> w_commit w <= max_ts) ->
  prewrite_key ks m s p ttl mc ao = KErr e -> is_write_conflict e = false.
Proof. exact own_pess_prewrite_not_rechecked. Qed.
Print Assumptions C12_own_pess_prewrite_not_rechecked.

Theorem C12_pess_lock_over_prewrite_refused : forall ks r k ne l,
  ks_lock ks = Some l -> l_start l = p_start r -> is_pess l = false -> exists e, pess_lock_key ks r k ne = inl e.
Proof. exact pess_lock_over_prewrite_refused. Qed.
Print Assumptions C12_pess_lock_over_prewrite_refused.

Theorem C12_commit_pess_lock_no_data : forall ks l s c t, is_pess l = true -> ~ In c (map w_commit (ks_writes ks)) ->
  read_writes (ks_writes (commit_lock ks l s c)) t = read_writes (ks_writes ks) t.
Proof. exact commit_pess_lock_no_data. Qed.
Print Assumptions C12_commit_pess_lock_no_data.

(* ------------------------------------------------------------------ non-vacuity *)
Definition T (r : N) : N := r * 262144.
Definition put (k s : N) : cmd := Prewrite [mkMut MPut k (16 + k) AsNone false] 1 (T s) 0 1 0 false.
Definition ex_cmds : list cmd :=
  [ put 1 1; put 2 1; Commit [1] (T 1) (T 3); Rollback [2] (T 1);            (* commits one key, rolls back the other *)
    PessLock (mkPessReq [(1, false)] 1 (T 2) (T 5) 3 0 true false false false true);
    Prewrite [mkMut MPut 1 33 AsNone true] 1 (T 2) (T 5) 1 0 false;          (* over the own pessimistic lock, commit T3 in between *)
    CheckTxnStatus 1 (T 2) (T 6) (T 4) true false; Commit [1] (T 2) (T 8); Commit [1] (T 2) (T 8);
    put 2 1;                                                                  (* late prewrite: rejected *)
    Cleanup 2 (T 4) 0; ResolveLock 0 0 (T 4) 0; GC 0 0 (T 9); Get 1 (T 10) [] ].
Example ex_disciplined : oracle_ts ex_cmds = true.
Proof. vm_compute. reflexivity. Qed.
Example ex_state : committed (run ex_cmds) 1 (T 2) = true /\ rolled_back (run (firstn 12 ex_cmds)) 2 (T 4) = true
                   /\ get (run ex_cmds) 1 (T 10) [] = RGet (Some (33, T 8)).
Proof. vm_compute. repeat split. Qed.
Example ex_late_prewrite : has_write (run (firstn 9 ex_cmds)) 2 (T 1) = true
                           /\ snd (step (run (firstn 9 ex_cmds)) (put 2 1)) = RErrs [Some EAlreadyRolledBack].
Proof. vm_compute. split; reflexivity. Qed.
Example ex_idem_class : idem_class (Commit [1] (T 2) (T 8)) = true /\ oracle_ts (firstn 8 ex_cmds ++ [Commit [1] (T 2) (T 8)]) = true.
Proof. vm_compute. split; reflexivity. Qed.
(* the discipline is needed: a pessimistic lock request after the commit record lets the mock roll the
   committed transaction back on that key *)
Definition ex_bad : list cmd :=
  [ put 1 1; Commit [1] (T 1) (T 3);
    PessLock (mkPessReq [(1, false)] 1 (T 1) (T 5) 3 0 false false false false true); Rollback [1] (T 1) ].
Example ex_bad_not_disciplined : oracle_ts ex_bad = false
  /\ committed (run ex_bad) 1 (T 1) = true /\ rolled_back (run ex_bad) 1 (T 1) = true.
Proof. vm_compute. repeat split. Qed.
Example ex_gc : gc_refused (run ex_cmds) 0 0 (T 9) = false /\ gc_refused (run (firstn 5 ex_cmds)) 0 0 (T 9) = true.
Proof. vm_compute. split; reflexivity. Qed.
