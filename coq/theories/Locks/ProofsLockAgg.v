(* Locks/ProofsLockAgg.v — LockKeys in aggressive locking mode, and the whole of LockKeys *)
From Coq Require Import List NArith ZArith Bool Lia.
From Verif Require Import Locks.Model Locks.ProofsBase Locks.ProofsInv Locks.ProofsLock.
Import ListNotations.
Open Scope N_scope.

Arguments N.max : simpl never.
Arguments N.leb : simpl never.
Arguments N.ltb : simpl never.
Arguments N.eqb : simpl never.
Arguments dedup_sort : simpl never.
Arguments len : simpl never.

Lemma lock_rpc_core_agg k a assigned rv ce loie f o s :
  agg s = Some a -> Inv s -> book_ok s -> fu s = f -> findk k (cur a) = None ->
  Inv (lock_rpc_core [k] [k] assigned rv ce loie f o s).
Proof.
  intros Ha (HI & HL & HC) B Hf Hnc. unfold lock_rpc_core.
  assert (Hw : eff_lwc s [k] o = lo_lwc o) by (unfold eff_lwc; rewrite Ha; auto). rewrite Hw.
  set (w := lo_lwc o). set (lf := N.max f w).
  set (st1 := fold_right (put_pess lf) (store s) (eff_locked [k] loie o)).
  simpl agg. rewrite Ha. cbv iota beta.
  set (a2 := a_maxc (N.max (amaxc a) w) a).
  assert (HL2 : forall k0 e, In (k0, e) (cur a ++ prev a) -> e_lwc e <= N.max (amaxc a) w).
  { intros k0 e Hin. pose proof (HL a k0 e Ha Hin). lia. }
  assert (Hst1 : forall p, In p st1 -> (fst p = k /\ snd p = Pess lf /\ In k (eff_locked [k] loie o)) \/ In p (store s)).
  { intros p Hp. apply fold_put_pess_In in Hp. destruct Hp as [[H1 H2]|Hp]; auto. left.
    pose proof (eff_locked_In _ _ _ _ H1) as [H3 _]. simpl in H3. destruct H3 as [H3|[]]. subst k. auto. }
  destruct B as (B1 & B2 & B3).
  destruct (lo_res o) as [e|] eqn:Er.
  - apply Inv_if_primary. replace (many [k]) with false by reflexivity. rewrite orb_false_l.
    destruct (may_be_locked e) eqn:Eb.
    + (* asynchronous pessimistic rollback of the key *)
      simpl. split; [|split].
      * intros p Hp. simpl in Hp. apply Hst1 in Hp. destruct Hp as [(H1 & H2 & _)|Hp].
        -- right. apply cov_task_new. destruct p as [k0 l]; simpl in H1, H2; subst k0 l.
           apply releases_pessrb; [simpl; auto|lia].
        -- destruct (HI p Hp) as [[_ Hc]|Ht].
           ++ destruct p as [k0 [f'|]]; simpl in Hc; [|tauto].
              destruct Hc as [[H1 H2]|(a0 & e0 & Ha0 & Hfd & H2)].
              ** left. split; [unfold book_ok; simpl; auto|]. simpl. left. auto.
              ** rewrite Ha in Ha0. inversion Ha0; subst a0.
                 left. split; [unfold book_ok; simpl; auto|]. simpl. right.
                 eexists. exists e0. split; [reflexivity|]. simpl. split; [|lia].
                 destruct Hfd as [Hfd|Hfd]; auto. left.
                 change (fun p : N * entry => negb ((fst p =? k) || false)) with (fun p : N * entry => negb (memk (fst p) [k])).
                 rewrite findk_filter_notin. destruct (memk k0 [k]) eqn:Em; auto.
                 apply memk_In in Em. simpl in Em. destruct Em as [Em|[]]. subst k0. congruence.
           ++ right. apply cov_task_add. destruct Ht as (t & T1 & T2). exists t; auto.
      * intros a' k0 e0 Ha' Hin. simpl in Ha'. inversion Ha'; subst a'. simpl in *.
        apply HL2 with k0. apply in_app_or in Hin. apply in_or_app. destruct Hin as [Hin|Hin]; auto.
        apply filter_In in Hin. tauto.
      * unfold cnt_ok, agg_len in *. simpl. rewrite Ha in HC.
        pose proof (length_filter_le (fun p : N * entry => negb (memk (fst p) [k])) (cur a)) as Hlen.
        unfold len in *. simpl. simpl in Hlen. lia.
    + (* single key, write conflict / key exists: no rollback; a key of the previous attempt stays there *)
      assert (Est : st1 = store s).
      { unfold st1, eff_locked, hard_single. rewrite Er, Eb. reflexivity. }
      simpl. rewrite Est. split; [|split].
      * intros p Hp. simpl in Hp. destruct (HI p Hp) as [[_ Hc]|Ht].
        -- left. split; [unfold book_ok; simpl; auto|]. simpl.
           destruct (snd p) as [f'|]; auto. destruct Hc as [Hc|(a0 & e0 & Ha0 & Hfd & H2)]; auto.
           rewrite Ha in Ha0. inversion Ha0; subst a0. right.
           eexists. exists e0. split; [reflexivity|]. simpl. split; auto. lia.
        -- right. destruct Ht as (t & T1 & T2). exists t; auto.
      * intros a' k0 e0 Ha' Hin. simpl in Ha'. inversion Ha'; subst a'. simpl in *. eapply HL2; eauto.
      * unfold cnt_ok, agg_len in *. simpl. rewrite Ha in HC. auto.
  - (* success *)
    set (s2 := set_agg (Some a2) (set_store st1 s)).
    set (s3 := if assigned && loie then _ else _).
    assert (E3 : store s3 = st1 /\ flags s3 = flags s /\ agg s3 = Some a2 /\ cnt s3 = cnt s /\ tasks s3 = tasks s /\
                 valid s3 = valid s /\ pess s3 = pess s /\ committer s3 = committer s /\ fu s3 = fu s /\ cmaxc s3 = cmaxc s).
    { unfold s3. destruct (assigned && loie); simpl; [|repeat split; auto].
      destruct (primary s); simpl; [|repeat split; auto]. destruct (memk _ _); simpl; repeat split; auto. }
    destruct E3 as (Est & Efl & Eag & Ecn & Etk & Eva & Epe & Eco & Efu & Ecm).
    apply (finish_lock_Inv [k] rv ce loie (lo_absent o) w true s3
             (filter (fun p => (fst p =? k) && match snd p with Pess f' => f' <=? lf | Prew => false end
                               && memk k (kept loie (lo_absent o) [k])) st1)).
    + intros p Hp. rewrite Est in Hp. pose proof Hp as Hp0. apply Hst1 in Hp. destruct Hp as [(H1 & H2 & H3)|Hp].
      * right. apply filter_In. split; [exact Hp0|]. rewrite H1, H2, N.eqb_refl. simpl.
        apply andb_true_iff. split; [apply N.leb_le; lia|]. apply memk_In, kept_In.
        apply eff_locked_In in H3. auto.
      * destruct (HI p Hp) as [[_ Hc]|Ht].
        -- left. left. split; [unfold book_ok; rewrite Eva, Epe, Eco; auto|].
           destruct (snd p) as [f'|]; auto. destruct Hc as [[H1 H2]|(a0 & e0 & Ha0 & Hfd & H2)].
           ++ left. rewrite Efl, Efu, Ecm. auto.
           ++ rewrite Ha in Ha0. inversion Ha0; subst a0. right. exists a2, e0. rewrite Efu. simpl. repeat split; auto. lia.
        -- left. right. destruct Ht as (t & T1 & T2). exists t. rewrite Etk. auto.
    + intros a' k0 e0 Ha' Hin. rewrite Eag in Ha'. inversion Ha'; subst a'. simpl in *. eapply HL2; eauto.
    + unfold cnt_ok, agg_len in *. rewrite Eag, Efl, Ecn. rewrite Ha in HC. simpl. auto.
    + intros k0 [Hk|[]]. subst k0. unfold in_cur. rewrite Eag. simpl.
      apply memk_false. intros Hin. unfold keys_of in Hin. apply in_map_iff in Hin.
      destruct Hin as ([k1 e1] & E1 & Hin). simpl in E1. subst k1.
      assert (findk k (cur a) <> None).
      { clear - Hin. induction (cur a) as [|[k2 e2] r IH]; simpl in *; [tauto|].
        destruct (N.eqb_spec k k2); [discriminate|]. destruct Hin as [Hin|Hin]; [inversion Hin; congruence|auto]. }
      congruence.
    + intros Hn. congruence.
    + intros a' Ha'. rewrite Eag in Ha'. inversion Ha'; subst a'. simpl. lia.
    + intros p Hp. apply filter_In in Hp. destruct Hp as [_ Hp].
      apply andb_true_iff in Hp. destruct Hp as [Hp H3]. apply andb_true_iff in Hp. destruct Hp as [H1 H2].
      split; [unfold book_ok; rewrite Eva, Epe, Eco; auto|]. apply N.eqb_eq in H1. apply memk_In in H3.
      split; [rewrite H1; auto|]. destruct (snd p) as [f'|]; [|discriminate]. exists f'. split; auto.
      apply N.leb_le in H2. rewrite Efu, Hf. exact H2.
Qed.

Lemma lock_rpc_agg k a assigned rv ce loie f o s :
  agg s = Some a -> Inv s -> book_ok s -> fu s = f -> findk k (cur a) = None ->
  Inv (lock_rpc [k] [k] assigned rv ce loie f o s).
Proof. intros. unfold lock_rpc. apply Inv_ka. eapply lock_rpc_core_agg; eauto. Qed.

(* ---- filterAggressiveLockedKeys on the single key of an aggressive-mode call ---- *)
Lemma filter_agg_single a rv ce f ex cs k :
  filter_agg a rv ce f ex cs [k] =
  match findk k (prev a) with
  | Some e => if f <? e_lwc e then (a, [], true)
              else match (if cs then if ex then None else try_skip e rv ce else None) with
                   | Some e' => (a_cur ((k, e') :: delk k (cur a)) (a_prev (delk k (prev a)) a), [], false)
                   | None => (a, [k], false)
                   end
  | None => (a, [k], false)
  end.
Proof.
  simpl. destruct (findk k (prev a)); auto.
Qed.

Lemma try_skip_lwc e rv ce e' : try_skip e rv ce = Some e' -> e_lwc e' = 0.
Proof. unfold try_skip. destruct (if negb (e_lwc e =? 0) then _ else _); intros H; inversion H; auto. Qed.

(* the key is taken over from the previous attempt without a request *)
Lemma skip_Inv s a k e e' :
  Inv s -> agg s = Some a -> findk k (prev a) = Some e -> e_lwc e' = 0 ->
  Inv (set_agg (Some (a_cur ((k, e') :: delk k (cur a)) (a_prev (delk k (prev a)) a))) s).
Proof.
  intros (HI & HL & HC) Ha Hp He'. split; [|split].
  - intros p Hin. simpl in Hin. destruct (HI p Hin) as [[B Hcv]|Ht].
    + left. split; [exact B|]. simpl. destruct (snd p) as [f'|]; auto.
      destruct Hcv as [Hcv|(a0 & e0 & Ha0 & Hfd & H2)]; auto. right.
      rewrite Ha in Ha0. inversion Ha0; subst a0.
      destruct (N.eq_dec (fst p) k) as [E|E].
      * rewrite E in *. eexists. exists e'. split; [reflexivity|]. simpl. split; auto.
        left. rewrite N.eqb_refl. auto.
      * eexists. exists e0. split; [reflexivity|]. simpl. split; auto.
        destruct (N.eqb_spec (fst p) k); [congruence|].
        rewrite !findk_delk_ne by congruence. auto.
    + right. destruct Ht as (t & T1 & T2). exists t; auto.
  - intros a' k0 e0 Ha' Hin. simpl in Ha'. inversion Ha'; subst a'. simpl in *.
    destruct Hin as [Hin|Hin]; [inversion Hin; subst; lia|].
    apply (HL a k0 e0 Ha). apply in_app_or in Hin. apply in_or_app.
    destruct Hin as [Hin|Hin]; apply In_delk in Hin; tauto.
  - unfold cnt_ok, agg_len in *. cbn [agg set_agg flags cnt cur prev a_cur a_prev]. rewrite Ha in HC.
    pose proof (length_delk k (cur a)). pose proof (length_delk_lt k (prev a) e Hp).
    unfold len in *. cbn [length]. lia.
Qed.
