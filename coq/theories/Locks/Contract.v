(* Locks/Contract.v — executable form of the extra contract of C06_tracked_keys_hold_locks (evaluated by the model
   driver along every replayed program; soundness w.r.t. the Prop version: ProofsHeldLock.held_contractb_sound) *)
From Coq Require Import List NArith ZArith Bool.
From Verif Require Import Locks.Model.
Import ListNotations.
Open Scope N_scope.

Definition failed (o : lock_out) : bool := match lo_res o with Some _ => true | None => false end.
Definition in_agg (s : st) : bool := match agg s with Some _ => true | None => false end.
(* blocked = a LockKeys call failed inside the running aggressive-locking attempt *)
Definition next_blocked (b : bool) (s : st) (e : ev) : bool :=
  match e with
  | ELock _ _ _ _ _ o => failed o && in_agg (step s e)
  | EAggRetry | EAggCancel | EAggDone | ECommit _ | ERollback | ERollbackLost _ => false
  | _ => b
  end.

(* a fresh for-update ts: positive, greater than the ts of every pending rollback and than every ts the transaction used *)
Definition fresh_tsb (s : st) (f : ts) : bool :=
  (0 <? f) &&
  forallb (fun t => match t with TPessRb _ f' => f' <? f | _ => true end) (tasks s) &&
  match agg s with Some a => N.max (fu s) (amaxc a) <? f | None => true end.
(* the store acknowledges a request only if it locked every key of it (or found it absent under lock-only-if-exists) *)
Definition store_okb (rk : list key) (loie : bool) (o : lock_out) : bool :=
  match lo_res o with
  | Some _ => true
  | None => forallb (fun k => memk k (lo_locked o) || (loie && memk k (lo_absent o))) rk
  end.
Definition held_contractb (b : bool) (s : st) (e : ev) : bool :=
  match e with
  | ELock ks rv ce loie f o => negb b && fresh_tsb s f && store_okb (snd (lock_keys_full ks rv ce loie f o s)) loie o
  | _ => true
  end.
