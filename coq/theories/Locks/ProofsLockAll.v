(* Locks/ProofsLockAll.v — LockKeys as a whole preserves the invariant; every step does *)
From Coq Require Import List NArith ZArith Bool Lia.
From Verif Require Import Locks.Model Locks.ProofsBase Locks.ProofsInv Locks.ProofsCommit Locks.ProofsLock Locks.ProofsLockAgg.
Import ListNotations.
Open Scope N_scope.

Arguments N.max : simpl never.
Arguments N.leb : simpl never.
Arguments N.ltb : simpl never.
Arguments N.eqb : simpl never.
Arguments dedup_sort : simpl never.
Arguments len : simpl never.

Definition agg_same (x y : option actx) : Prop :=
  match x, y with
  | None, None => True
  | Some a, Some b => cur b = cur a /\ prev b = prev a /\ amaxc b = amaxc a
  | _, _ => False
  end.

(* committer creation, primary selection, for-update ts *)
Definition prep (keys : list key) (f : ts) (s : st) : st :=
  let s2 := set_committer true s in
  set_fu f (if match primary s2 with None => true | Some _ => false end then select_primary keys s2 else s2).

Lemma prep_props keys f s :
  let s4 := prep keys f s in
  store s4 = store s /\ flags s4 = flags s /\ cnt s4 = cnt s /\ tasks s4 = tasks s /\ valid s4 = valid s /\
  pess s4 = pess s /\ cmaxc s4 = cmaxc s /\ fu s4 = f /\ committer s4 = true /\ agg_same (agg s) (agg s4).
Proof.
  unfold prep. simpl. destruct (primary s); simpl.
  - repeat split; auto. unfold agg_same. destruct (agg s); auto.
  - unfold select_primary. simpl. destruct (agg s) as [a|] eqn:Ea; simpl; rewrite ?Ea; simpl; repeat split; auto.
Qed.

Lemma Inv_agg_same s s' :
  store s' = store s -> flags s' = flags s -> cnt s' = cnt s -> tasks s' = tasks s -> valid s' = valid s ->
  pess s' = pess s -> cmaxc s' = cmaxc s -> fu s <= fu s' -> (committer s = true -> committer s' = true) ->
  agg_same (agg s) (agg s') -> Inv s -> Inv s'.
Proof.
  intros H1 H2 H3 H4 H5 H6 H7 H8 H9 HA. apply Inv_frame; auto.
  - intros t. rewrite H4. auto.
  - intros k f' (a & e & Ha & Hf & Hle). unfold agg_same in HA. rewrite Ha in HA.
    destruct (agg s') as [b|] eqn:Eb; [|tauto]. destruct HA as (A1 & A2 & A3). exists b, e. rewrite A1, A2, A3.
    repeat split; auto. lia.
  - intros HL b k e Hb Hin. unfold agg_same in HA. rewrite Hb in HA.
    destruct (agg s) as [a|] eqn:Ea; [|tauto]. destruct HA as (A1 & A2 & A3). rewrite A1, A2 in Hin. rewrite A3. eapply HL; eauto.
  - unfold agg_len, agg_same in *. destruct (agg s) as [a|]; destruct (agg s') as [b|]; try tauto; try lia.
    destruct HA as (A1 & A2 & A3). rewrite A1, A2. lia.
Qed.

Lemma Inv_prep keys f s : Inv s -> fu s <= f -> Inv (prep keys f s).
Proof.
  intros HInv Hle. pose proof (prep_props keys f s) as P. cbv zeta in P.
  destruct P as (P1 & P2 & P3 & P4 & P5 & P6 & P7 & P8 & P9 & P10).
  eapply Inv_agg_same; eauto; lia.
Qed.

Ltac rpc_after_ttl_reset k a4 s4 :=
  match goal with
  | |- Inv (lock_rpc _ _ ?as_ ?rv ?ce ?loie ?f ?o (if ?c then ka_reset s4 else s4)) =>
    destruct c;
    [ let K := fresh "K" in
      destruct (ka_ops_fields s4 ka_reset) as (K1&K2&K3&K4&K5&K6&K7&K8&K9&K10&_); auto;
      apply (lock_rpc_agg k a4 as_ rv ce loie f o (ka_reset s4));
      [congruence | apply Inv_ka_reset; auto | unfold book_ok in *; rewrite K3, K4, K5; auto | congruence | auto]
    | apply (lock_rpc_agg k a4 as_ rv ce loie f o s4); auto ]
  end.

Lemma lock_pess_Inv keys rv ce loie f o s :
  Inv s -> valid s = true -> pess s = true -> fu s <= f ->
  (forall a, agg s = Some a -> exists k, keys = [k] /\ findk k (cur a) = None) ->
  Inv (fst (lock_pess keys rv ce loie f o s)).
Proof.
  intros HInv Hv Hp Hle Hagg. unfold lock_pess.
  change (set_fu f (if match primary (set_committer true s) with None => true | Some _ => false end
                    then select_primary keys (set_committer true s) else set_committer true s))
    with (prep keys f s).
  pose proof (Inv_prep keys f s HInv Hle) as HI4.
  pose proof (prep_props keys f s) as P. cbv zeta in P.
  destruct P as (P1 & P2 & P3 & P4 & P5 & P6 & P7 & P8 & P9 & P10).
  set (s4 := prep keys f s) in *.
  set (assigned := match primary (set_committer true s) with None => true | Some _ => false end).
  assert (B4 : book_ok s4) by (unfold book_ok; rewrite P5, P6, P9; auto).
  destruct (agg s4) as [a4|] eqn:E4.
  - unfold agg_same in P10. destruct (agg s) as [a|] eqn:Ea; [|tauto]. destruct P10 as (A1 & A2 & A3).
    destruct (Hagg a eq_refl) as (k & Hk & Hnc). subst keys.
    rewrite filter_agg_single. rewrite <- A1 in Hnc.
    destruct (findk k (prev a4)) as [e|] eqn:Ep.
    + destruct (f <? e_lwc e) eqn:El.
      * simpl. rewrite set_agg_same; auto.
      * destruct (if negb (aprim a4) || opt_eqb (alastpk a4) (apk a4) then if lo_expired o then None else try_skip e rv ce else None) as [e'|] eqn:Esk.
        -- simpl. apply skip_Inv with e; auto.
           destruct (negb (aprim a4) || opt_eqb (alastpk a4) (apk a4)); [|discriminate].
           destruct (lo_expired o); [discriminate|]. eapply try_skip_lwc; eauto.
        -- simpl. rewrite set_agg_same; auto. rpc_after_ttl_reset k a4 s4.
    + simpl. rewrite set_agg_same; auto. rpc_after_ttl_reset k a4 s4.
  - simpl. apply lock_rpc_noagg; auto.
Qed.

Lemma exit_agg_props ks s :
  Inv s -> let s1 := exit_agg ks s in
  Inv s1 /\ valid s1 = valid s /\ fu s1 = fu s /\ (forall a, agg s1 = Some a -> many ks = false).
Proof.
  intros HInv. unfold exit_agg. destruct (agg s) as [a|] eqn:Ea; simpl.
  - destruct (many ks) eqn:Em.
    + split; [apply Inv_agg_done; auto|]. unfold agg_done. rewrite Ea.
      set (s0 := if alastprim a && negb (aprim a) then ka_reset s else s).
      assert (E0 : valid s0 = valid s /\ fu s0 = fu s).
      { unfold s0. destruct (alastprim a && negb (aprim a)); auto.
        destruct (ka_ops_fields s ka_reset) as (_&_&K3&_&_&K6&_); auto. }
      pose proof (cleanup_props a s0) as CP. cbv zeta in CP. destruct CP as (_ & _ & _ & C4 & _ & _ & C7 & _).
      destruct E0 as [E1 E2]. simpl. rewrite C4, C7, E1, E2. repeat split; auto. intros a' H; discriminate.
    + split; [exact HInv|]. repeat split; auto.
  - split; [exact HInv|]. repeat split; auto. intros a H. congruence.
Qed.

Lemma Inv_lock_keys ks rv ce loie f o s :
  Inv s -> valid s = true -> fu s <= f ->
  Inv (lock_keys ks rv ce loie f o s).
Proof.
  intros HInv Hv Hle. unfold lock_keys, lock_keys_full.
  destruct (exit_agg_props ks s HInv) as (HI1 & Hv1 & Hf1 & Hm1).
  set (s1 := exit_agg ks s) in *.
  destruct (negb (pess s1) && match agg s1 with Some _ => true | None => false end); [exact HI1|].
  destruct (early_exists s1 ks); [exact HI1|].
  destruct (filter (need_lock s1) ks) as [|k0 r0] eqn:Ek; [exact HI1|]. rewrite <- Ek.
  destruct (loie && negb rv); [exact HI1|].
  destruct (loie && (negb (committer s1) || match primary s1 with None => true | Some _ => false end) && many (filter (need_lock s1) ks)); [exact HI1|].
  assert (Hkeys : forall k, In k (dedup_sort (filter (need_lock s1) ks)) -> In k ks /\ need_lock s1 k = true).
  { intros k Hk. apply (proj1 (dedup_sort_In _ _)) in Hk. apply (proj1 (filter_In _ _ _)) in Hk. auto. }
  assert (Hnc : forall k, In k (dedup_sort (filter (need_lock s1) ks)) -> in_cur s1 k = false).
  { intros k Hk. apply Hkeys in Hk. destruct Hk as [_ Hk]. unfold need_lock in Hk.
    apply andb_true_iff in Hk. destruct Hk as [Hk _]. apply negb_true_iff in Hk. auto. }
  destruct (pess s1 && (0 <? f)) eqn:Eb.
  - apply andb_true_iff in Eb. destruct Eb as [Ep _].
    apply lock_pess_Inv; auto; [congruence|lia|].
    intros a Ha. pose proof (Hm1 a Ha) as Hm. apply many_false_cases in Hm.
    destruct Hm as [Hm|(k & Hm)]; rewrite Hm in *; [simpl in Ek; discriminate|].
    simpl in Ek. simpl. destruct (need_lock s1 k) eqn:En; [|discriminate].
    exists k. split; [reflexivity|].
    apply in_cur_findk with s1; auto. unfold need_lock in En.
    apply andb_true_iff in En. destruct En as [En _]. apply negb_true_iff in En. auto.
  - simpl. destruct HI1 as (HI & HL & HC).
    apply (finish_lock_Inv _ rv ce loie [] 0 false s1 []); auto.
    + intros a Ha. lia.
    + intros p [].
Qed.

(* ---- every step preserves the invariant ---- *)
Lemma Inv_step s e : Inv s -> wf_ev s e -> Inv (step s e).
Proof.
  intros HInv Hapi. unfold wf_ev in Hapi. destruct e; simpl in *.
  - apply Inv_written; auto.
  - apply Inv_written; auto.
  - apply Inv_presume. apply Inv_written; auto.
  - apply Inv_presume; auto.
  - destruct (findk k (written s)); auto; apply Inv_presume; auto.
  - destruct Hapi. apply Inv_lock_keys; auto.
  - apply Inv_agg_start; auto.
  - apply Inv_agg_retry; auto.
  - apply Inv_agg_cancel; auto.
  - apply Inv_agg_done; auto.
  - apply Inv_commit; auto.
  - apply Inv_rollback; auto.
  - apply Inv_rollback_l; auto.
  - apply Inv_run_nth; auto.
  - apply Inv_run_some; auto.
Qed.

Lemma Inv_run s evs : Inv s -> wf_run s evs -> Inv (run s evs).
Proof.
  revert s. induction evs as [|e r IH]; simpl; intros s HInv Hwf; auto.
  destruct Hwf as [H1 H2]. apply IH; auto. apply Inv_step; auto.
Qed.
