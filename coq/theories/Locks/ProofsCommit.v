(* Locks/ProofsCommit.v — Commit preserves the bookkeeping invariant *)
From Coq Require Import List NArith ZArith Bool Lia.
From Verif Require Import Locks.Model Locks.ProofsBase Locks.ProofsInv.
Import ListNotations.
Open Scope N_scope.

Arguments N.max : simpl never.
Arguments dedup_sort : simpl never.
Arguments len : simpl never.

Lemma cov_split s p : agg s = None -> covered s p ->
  cov_task s p \/ (exists f', snd p = Pess f' /\ In (fst p) (flags s) /\ f' <= N.max (fu s) (cmaxc s) /\ pess s = true).
Proof.
  intros Ha [[(B1 & B2 & B3) Hc]|Ht]; auto. right.
  destruct (snd p) as [f'|]; [|tauto]. destruct Hc as [[H1 H2]|(a & e & Ha' & _ & _)]; [|congruence].
  exists f'. auto.
Qed.

Lemma Inv_of_tasks s s' :
  Inv s -> agg s = None -> agg s' = None -> flags s' = flags s -> cnt s' = cnt s ->
  (forall p, In p (store s') -> cov_task s' p) -> Inv s'.
Proof.
  intros (HI & HL & HC) Ha Ha' Hf Hc Hcov. split; [|split].
  - intros p Hp. right. auto.
  - intros a k e H. congruence.
  - unfold cnt_ok, agg_len in *. rewrite Ha', Hf, Hc. rewrite Ha in HC. auto.
Qed.

Lemma flags_in_mutations s unn k : In k (flags s) -> In k (mutations unn s).
Proof.
  intros H. unfold mutations. apply dedup_sort_In. apply filter_In. split; [apply in_or_app; auto|].
  unfold keep_mut. destruct (findk k (written s)) as [b|] eqn:Ef; auto.
  apply orb_true_iff. right. apply memk_In; auto.
Qed.

(* commit_body without the keep-alive bookkeeping (proof device): the two differ in the [ka] field only *)
Definition commit_body0 (o : commit_out) (s : st) : st :=
  let s0 := set_valid false s in
  let muts := mutations (co_unnecessary o) s in
  match muts with
  | [] => s0
  | _ =>
    let s1 := set_committer true s0 in
    match co_mode o with
    | M1PC =>
      match co_res o with
      | COk => set_store (filter (fun l => negb (memk (fst l) muts)) (store s1)) s1
      | _ => if pess s1 then add_task (TPessRb muts (N.max (fu s1) (cmaxc s1))) s1 else s1
      end
    | _ =>
      let pw := match co_res o with
                | CPrewriteFail => filter (fun k => memk k muts) (co_prewritten o)
                | _ => muts
                end in
      let s2 := set_store (fold_right put_prew (store s1) pw) s1 in
      match co_res o with
      | COk =>
        match co_mode o with
        | MAsync => add_task (TCommitSec muts) s2
        | _ =>
          let s3 := add_task (TCommitSec muts) (set_store (run_task (TCommitSec (co_sync o)) (store s2)) s2) in
          if primary_in muts s then s3 else add_task (TCleanup muts) s3
        end
      | _ => add_task (TCleanup muts) s2
      end
    end
  end.

Lemma commit_body_ka o s :
  commit_body o s = match ka s with KRunning _ => set_ka KClosed (commit_body0 o s) | _ => commit_body0 o s end.
Proof.
  unfold commit_body, commit_body0, ka_close, mutations, keep_mut, primary_in.
  destruct s as [a1 a2 a3 a4 a5 a6 a7 a8 a9 a10 a11 a12 a13 a14 a15]. cbn [ka set_valid valid written flags primary pess store fu cmaxc tasks set_ka set_committer].
  destruct a14; cbn [ka set_valid valid written flags primary pess store fu cmaxc tasks set_ka set_committer];
    destruct (dedup_sort _); try reflexivity;
    destruct (co_mode o); destruct (co_res o); try reflexivity;
    try (destruct a13; reflexivity);
    match goal with |- context [match a8 with _ => _ end] => destruct (match a8 with Some p => memk p _ | None => true end); reflexivity end.
Qed.

Lemma Inv_commit_body0 o s : Inv s -> agg s = None -> Inv (commit_body0 o s).
Proof.
  intros HInv Ha. pose proof HInv as (HI & HL & HC). unfold commit_body0.
  pose proof (flags_in_mutations s (co_unnecessary o)) as Hfm.
  destruct (mutations (co_unnecessary o) s) as [|m0 ms] eqn:Em.
  - apply (Inv_of_tasks s); auto. intros p Hp. simpl in Hp.
    destruct (cov_split s p Ha (HI p Hp)) as [Ht|(f' & _ & Hin & _)]; auto.
    apply Hfm in Hin. inversion Hin.
  - rewrite <- Em in *. clear Em m0 ms. set (muts := mutations (co_unnecessary o) s) in *.
    destruct (co_mode o); destruct (co_res o); simpl.
    (* 2PC *)
    + assert (Hc : forall p, In p (run_task (TCommitSec (co_sync o)) (fold_right put_prew (store s) muts)) ->
                   cov_task (add_task (TCommitSec muts) (set_store (run_task (TCommitSec (co_sync o)) (fold_right put_prew (store s) muts))
                                                            (set_committer true (set_valid false s)))) p).
      { intros p Hp. apply run_task_In in Hp. destruct Hp as [Hp _]. apply fold_put_prew_In in Hp.
        destruct Hp as [[H1 H2]|[H1 H2]].
        * apply cov_task_new. destruct p as [k l]; simpl in *. subst l. simpl. apply memk_In; auto.
        * destruct (cov_split s p Ha (HI p H1)) as [Ht|(f' & _ & Hin & _)].
          -- apply cov_task_add. destruct Ht as (t & T1 & T2). exists t; auto.
          -- exfalso. apply H2. apply Hfm. auto. }
      destruct (primary_in muts s).
      * apply (Inv_of_tasks s); auto.
      * apply (Inv_of_tasks s); auto. intros p Hp. simpl in Hp. apply cov_task_add. apply Hc. exact Hp.
    + apply (Inv_of_tasks s); auto. intros p Hp. simpl in Hp. apply fold_put_prew_In in Hp.
      destruct Hp as [[H1 H2]|[H1 H2]].
      * apply cov_task_new. simpl. apply memk_In. apply filter_In in H2. destruct H2 as [_ H2]. apply memk_In; auto.
      * destruct (cov_split s p Ha (HI p H1)) as [Ht|(f' & _ & Hin & _)].
        -- apply cov_task_add. destruct Ht as (t & T1 & T2). exists t; auto.
        -- apply cov_task_new. simpl. apply memk_In. apply Hfm. auto.
    + apply (Inv_of_tasks s); auto. intros p Hp. simpl in Hp. apply fold_put_prew_In in Hp.
      destruct Hp as [[H1 H2]|[H1 H2]].
      * apply cov_task_new. simpl. apply memk_In. auto.
      * destruct (cov_split s p Ha (HI p H1)) as [Ht|(f' & _ & Hin & _)].
        -- apply cov_task_add. destruct Ht as (t & T1 & T2). exists t; auto.
        -- apply cov_task_new. simpl. apply memk_In. apply Hfm. auto.
    (* async commit *)
    + apply (Inv_of_tasks s); auto. intros p Hp. simpl in Hp. apply fold_put_prew_In in Hp.
      destruct Hp as [[H1 H2]|[H1 H2]].
      * apply cov_task_new. destruct p as [k l]; simpl in *. subst l. simpl. apply memk_In; auto.
      * destruct (cov_split s p Ha (HI p H1)) as [Ht|(f' & _ & Hin & _)].
        -- apply cov_task_add. destruct Ht as (t & T1 & T2). exists t; auto.
        -- exfalso. apply H2. apply Hfm. auto.
    + apply (Inv_of_tasks s); auto. intros p Hp. simpl in Hp. apply fold_put_prew_In in Hp.
      destruct Hp as [[H1 H2]|[H1 H2]].
      * apply cov_task_new. simpl. apply memk_In. apply filter_In in H2. destruct H2 as [_ H2]. apply memk_In; auto.
      * destruct (cov_split s p Ha (HI p H1)) as [Ht|(f' & _ & Hin & _)].
        -- apply cov_task_add. destruct Ht as (t & T1 & T2). exists t; auto.
        -- apply cov_task_new. simpl. apply memk_In. apply Hfm. auto.
    + apply (Inv_of_tasks s); auto. intros p Hp. simpl in Hp. apply fold_put_prew_In in Hp.
      destruct Hp as [[H1 H2]|[H1 H2]].
      * apply cov_task_new. simpl. apply memk_In. auto.
      * destruct (cov_split s p Ha (HI p H1)) as [Ht|(f' & _ & Hin & _)].
        -- apply cov_task_add. destruct Ht as (t & T1 & T2). exists t; auto.
        -- apply cov_task_new. simpl. apply memk_In. apply Hfm. auto.
    (* 1PC *)
    + apply (Inv_of_tasks s); auto. intros p Hp. simpl in Hp. apply filter_In in Hp.
      destruct Hp as [H1 H2]. apply negb_true_iff in H2. apply memk_false in H2.
      destruct (cov_split s p Ha (HI p H1)) as [Ht|(f' & _ & Hin & _)].
      * destruct Ht as (t & T1 & T2). exists t; auto.
      * exfalso. apply H2. apply Hfm. auto.
    + destruct (pess s) eqn:Ep.
      * apply (Inv_of_tasks s); auto. intros p Hp. simpl in Hp.
        destruct (cov_split s p Ha (HI p Hp)) as [Ht|(f' & Hs & Hin & Hle & _)].
        -- apply cov_task_add. destruct Ht as (t & T1 & T2). exists t; auto.
        -- apply cov_task_new. destruct p as [k l]; simpl in *. subst l. apply releases_pessrb; auto.
      * apply (Inv_of_tasks s); auto. intros p Hp. simpl in Hp.
        destruct (cov_split s p Ha (HI p Hp)) as [Ht|(f' & _ & _ & _ & Hpe)]; [|congruence].
        destruct Ht as (t & T1 & T2). exists t; auto.
    + destruct (pess s) eqn:Ep.
      * apply (Inv_of_tasks s); auto. intros p Hp. simpl in Hp.
        destruct (cov_split s p Ha (HI p Hp)) as [Ht|(f' & Hs & Hin & Hle & _)].
        -- apply cov_task_add. destruct Ht as (t & T1 & T2). exists t; auto.
        -- apply cov_task_new. destruct p as [k l]; simpl in *. subst l. apply releases_pessrb; auto.
      * apply (Inv_of_tasks s); auto. intros p Hp. simpl in Hp.
        destruct (cov_split s p Ha (HI p Hp)) as [Ht|(f' & _ & _ & _ & Hpe)]; [|congruence].
        destruct Ht as (t & T1 & T2). exists t; auto.
Qed.

Lemma Inv_commit_body o s : Inv s -> agg s = None -> Inv (commit_body o s).
Proof.
  intros H1 H2. rewrite commit_body_ka. destruct (ka s); auto using Inv_commit_body0, Inv_ka.
Qed.

Lemma agg_cancel_flags s : flags (agg_cancel s) = flags s.
Proof.
  unfold agg_cancel. destruct (agg s) as [a|]; auto. unfold cleanup_redundant, reset_primary, ka_reset.
  destruct s as [a1 a2 a3 a4 a5 a6 a7 a8 a9 a10 a11 a12 a13 a14 a15]; simpl.
  destruct (prev a); destruct (aprim a || alastprim a); destruct a14; destruct (cur a); reflexivity.
Qed.
Lemma agg_cancel_written s : written (agg_cancel s) = written s.
Proof.
  unfold agg_cancel. destruct (agg s) as [a|]; auto. unfold cleanup_redundant, reset_primary, ka_reset.
  destruct s as [a1 a2 a3 a4 a5 a6 a7 a8 a9 a10 a11 a12 a13 a14 a15]; simpl.
  destruct (prev a); destruct (aprim a || alastprim a); destruct a14; destruct (cur a); reflexivity.
Qed.

Lemma Inv_commit o s : Inv s -> pending s = false -> Inv (commit o s).
Proof.
  intros HInv Hp. unfold commit. destruct (valid s) eqn:Ev; simpl; auto. rewrite Hp.
  destruct (Inv_agg_cancel s HInv) as (H1 & H2 & H3). apply Inv_commit_body; auto.
Qed.

Lemma valid_commit_body o s : valid (commit_body o s) = false.
Proof.
  rewrite commit_body_ka. assert (valid (commit_body0 o s) = false).
  { unfold commit_body0. destruct (mutations (co_unnecessary o) s); auto.
    destruct (co_mode o); destruct (co_res o); simpl; auto; try (destruct (pess s); auto); destruct (primary_in _ _); auto. }
  destruct (ka s); auto.
Qed.
