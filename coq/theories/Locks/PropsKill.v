(* Locks/PropsKill.v — C06 under the session's kill flag (model: Locks/Kill.v) *)
From Coq Require Import List NArith ZArith Bool Lia.
From Verif Require Import Locks.Model Locks.ProofsBase Locks.ProofsInv Locks.ProofsMain Locks.Kill Locks.ProofsTop Locks.ProofsKill Locks.Props.
Import ListNotations.
Open Scope N_scope.

(* the session's kill flag (kv.Variables.Killed).  The sender drops INTERRUPTIBLE requests of a killed session without
   sending them; which types are interruptible is the table [interruptible] (= tikvrpc.Request.IsInterruptible and the
   2PC actions' isInterruptible): everything except PessimisticRollback, BatchRollback and Commit.  [kstep] = one event
   under the flag: an interrupted LockKeys / Commit is the failed call with nothing sent (the existing failure paths), a
   release request that does not go out is dropped (its error is only logged).  With the table of the code, for ANY kill
   schedule: every release task that runs sends its request, the run is a run of the plain model, and a finished, drained
   transaction leaves no lock.  (Seeded change C06-9 swaps PessimisticLock and PessimisticRollback in the table:
   [C06_kill_table_matters].)
   What these two theorems are: [C06_release_requests_ignore_kill] is a fact about the hand-transcribed table (three
   cases by computation); [C06_no_leftover_under_any_kill_schedule] is C06_no_leftover transported along
   [krun = run . map kill_ev] — a corollary, not a new argument.  The tie to the code is the check: the kill programs
   d100-d108 / random kills, and the table differential (the driver reads IsInterruptible of every command type of the
   client on every run and the check compares it with the extracted [interruptible]).  Scripts: ProofsKill.v. *)
Theorem C06_release_requests_ignore_kill :
  forall (killed : bool) (t : task), goes_out interruptible killed (task_cmd t) = true.
Proof. exact C06_release_requests_ignore_kill_proof. Qed.
Print Assumptions C06_release_requests_ignore_kill.

Theorem C06_no_leftover_under_any_kill_schedule :
  forall (p : bool) (kevs : list (bool * ev)), kwf_run interruptible (init p) kevs ->
  let s := krun interruptible (init p) kevs in
  (s = run (init p) (map (kill_ev interruptible) kevs) /\ wf_run (init p) (map (kill_ev interruptible) kevs)) /\
  (valid s = false -> tasks s = [] -> store s = []).
Proof. exact C06_no_leftover_under_any_kill_schedule_proof. Qed.
Print Assumptions C06_no_leftover_under_any_kill_schedule.

(* d100 / d101 of the check: Rollback of a killed session; the background rollback of a failed call runs killed — clean
   with the table of the code, a leftover lock with the seeded table *)
Definition seeded_table (c : cmd) : bool := match c with CPessLock | CBatchRollback | CCommit => false | _ => true end.
Definition killed_runs : list (list (bool * ev)) :=
  [[(false, ELock [1; 2] false false false 10 (ok_lock [1; 2])); (true, ERollback)];
   [(false, ELock [1; 2; 3] false false false 10 (fail_lock [1; 2] FNoWait)); (true, ERun 0); (true, ERollback)];
   [(true, ELock [1] false false false 10 (ok_lock [1])); (false, ELock [1] false false false 11 (ok_lock [1]));
    (true, ECommit (mkCO M2PC [1] [1] [] COk)); (true, ERun 0); (true, ERun 0)]].
Example C06_kill_table_matters :
  Forall (fun kevs => kwf_run interruptible (init true) kevs /\
                      let s := krun interruptible (init true) kevs in valid s = false /\ tasks s = [] /\ store s = []) killed_runs /\
  map (fun kevs => map fst (store (krun seeded_table (init true) kevs))) (firstn 2 killed_runs) = [[1; 2]; [1; 2]] /\
  (* an interrupted LockKeys locks nothing and flags nothing; the interrupted Commit fails and cleans up *)
  flags (krun interruptible (init true) (firstn 1 (nth 2 killed_runs []))) = [].
Proof.
  split; [|vm_compute; auto]. kill_runs_solve.
Qed.
