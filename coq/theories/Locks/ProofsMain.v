(* Locks/ProofsMain.v — the C06 statements derived from the invariant *)
From Coq Require Import List NArith ZArith Bool Lia.
From Verif Require Import Locks.Model Locks.ProofsBase Locks.ProofsInv Locks.ProofsCommit Locks.ProofsLock
  Locks.ProofsLockAgg Locks.ProofsLockAll.
Import ListNotations.
Open Scope N_scope.

Arguments N.max : simpl never.
Arguments dedup_sort : simpl never.
Arguments len : simpl never.

Lemma bookkeeping_inv p evs : wf_run (init p) evs -> Inv (run (init p) evs).
Proof. intros H. apply Inv_run; auto. apply Inv_init. Qed.

Lemma no_leftover_from s : Inv s -> valid s = false -> tasks s = [] -> store s = [].
Proof.
  intros (HI & _ & _) Hv Ht. destruct (store s) as [|p r] eqn:Es; auto. exfalso.
  destruct (HI p (or_introl eq_refl)) as [[(B1 & _) _]|(t & T1 & _)]; [congruence|].
  rewrite Ht in T1. inversion T1.
Qed.

(* no task pending, not in aggressive locking mode: the store holds locks of S on flagged keys only *)
Lemma quiescent_store_flags s p :
  Inv s -> tasks s = [] -> agg s = None -> In p (store s) ->
  valid s = true /\ In (fst p) (flags s) /\ exists f', snd p = Pess f' /\ f' <= N.max (fu s) (cmaxc s).
Proof.
  intros (HI & _ & _) Ht Ha Hin. destruct (HI p Hin) as [[(B1 & _) Hc]|(t & T1 & _)].
  - destruct (snd p) as [f'|]; [|tauto]. destruct Hc as [[H1 H2]|(e & (a & Ha' & _) & _)]; [|congruence].
    split; auto. split; auto. exists f'. auto.
  - rewrite Ht in T1. inversion T1.
Qed.

(* ---- failed LockKeys ---- *)
Lemma filter_agg_sub a rv ce f ex cs ks a' rk err k :
  filter_agg a rv ce f ex cs ks = (a', rk, err) -> In k rk -> In k ks.
Proof.
  revert a a' rk err. induction ks as [|x r IH]; simpl; intros a a' rk err H Hin.
  - inversion H; subst. inversion Hin.
  - destruct (findk x (prev a)) as [e|].
    + destruct (f <? e_lwc e); [inversion H; subst; inversion Hin|].
      destruct (if cs then if ex then None else try_skip e rv ce else None).
      * right. eapply IH; eauto.
      * destruct (filter_agg _ rv ce f ex cs r) as [[a2 ks'] err'] eqn:E. inversion H; subst.
        destruct Hin as [Hin|Hin]; auto. right. eapply IH; eauto.
    + destruct (filter_agg a rv ce f ex cs r) as [[a2 ks'] err'] eqn:E. inversion H; subst.
      destruct Hin as [Hin|Hin]; auto. right. eapply IH; eauto.
Qed.

Lemma lock_keys_full_rpc ks rv ce loie f o s s' rk :
  lock_keys_full ks rv ce loie f o s = (s', rk) -> rk <> [] ->
  exists s5 assigned, s' = lock_rpc (dedup_sort (filter (need_lock (exit_agg ks s)) ks)) rk assigned rv ce loie f o s5 /\
                      (forall k, In k rk -> In k (dedup_sort (filter (need_lock (exit_agg ks s)) ks))).
Proof.
  unfold lock_keys_full. set (s1 := exit_agg ks s). intros H Hne.
  destruct (negb (pess s1) && match agg s1 with Some _ => true | None => false end); [inversion H; congruence|].
  destruct (lo_early o); [inversion H; congruence|].
  destruct (filter (need_lock s1) ks) as [|k0 r0] eqn:Ek; [inversion H; congruence|]. rewrite <- Ek in *.
  destruct (loie && negb rv); [inversion H; congruence|].
  destruct (loie && (negb (committer s1) || match primary s1 with None => true | Some _ => false end) && many (filter (need_lock s1) ks)); [inversion H; congruence|].
  destruct (pess s1 && (0 <? f)); [|inversion H; congruence].
  unfold lock_pess in H.
  set (keys := dedup_sort (filter (need_lock s1) ks)) in *.
  set (s4 := set_fu f _) in H. set (assigned := match primary (set_committer true s1) with None => true | Some _ => false end) in *.
  destruct (agg s4) as [a|].
  - destruct (filter_agg a rv ce f (lo_expired o) (negb (aprim a) || opt_eqb (alastpk a) (apk a)) keys) as [[a' rk0] err] eqn:Ef.
    destruct err; [inversion H; congruence|]. destruct rk0 as [|x r]; [inversion H; congruence|].
    inversion H; subst. eexists. exists assigned. split; [reflexivity|].
    intros k Hk. eapply filter_agg_sub; eauto.
  - inversion H; subst. eexists. exists assigned. split; [reflexivity|]. auto.
Qed.

Lemma lock_rpc_fail_task all rk assigned rv ce loie f o s e :
  lo_res o = Some e -> (many rk || may_be_locked e) = true ->
  In (TPessRb all (N.max f (eff_lwc s rk o))) (tasks (lock_rpc all rk assigned rv ce loie f o s)).
Proof.
  intros Hr Hb. unfold lock_rpc. rewrite Hr, Hb.
  match goal with |- In ?T (tasks (if assigned then set_primary None ?X else ?X)) =>
    assert (In T (tasks X)) as HX; [| destruct assigned; auto] end.
  match goal with |- In ?T (tasks (match agg ?Y with Some a => _ | None => _ end)) =>
    assert (In T (tasks Y)) as HY; [simpl; apply in_or_app; right; simpl; auto | destruct (agg Y); simpl; auto] end.
Qed.

Lemma failed_lockkeys ks rv ce loie f o s e :
  lo_res o = Some e ->
  let s1 := exit_agg ks s in
  let s' := fst (lock_keys_full ks rv ce loie f o s) in
  let rk := snd (lock_keys_full ks rv ce loie f o s) in
  rk <> [] ->
  forall k, In k (eff_locked rk loie o) ->
  exists ks' t lf, In (TPessRb ks' t) (tasks s') /\ releases (TPessRb ks' t) (k, Pess lf) = true /\ f <= lf /\
                 (forall k', In k' ks' -> In k' ks /\ need_lock s1 k' = true).
Proof.
  intros Hr s1 s' rk Hne k Hk.
  destruct (lock_keys_full ks rv ce loie f o s) as [s0 rk0] eqn:E. simpl in s', rk. subst s' rk.
  destruct (lock_keys_full_rpc _ _ _ _ _ _ _ _ _ E Hne) as (s5 & assigned & Hs & Hsub). fold s1 in Hs, Hsub.
  destruct (many rk0 || may_be_locked e) eqn:Eb.
  - exists (dedup_sort (filter (need_lock s1) ks)), (N.max f (eff_lwc s5 rk0 o)), (N.max f (eff_lwc s5 rk0 o)).
    split; [rewrite Hs; eapply lock_rpc_fail_task; eauto|]. split; [|split; [lia|]].
    + apply releases_pessrb; [|lia]. apply Hsub. apply eff_locked_In in Hk. tauto.
    + intros k' Hk'. apply (proj1 (dedup_sort_In _ _)) in Hk'. apply (proj1 (filter_In _ _ _)) in Hk'. auto.
  - exfalso. unfold eff_locked in Hk. rewrite (hard_single_false rk0 o e Hr Eb) in Hk. inversion Hk.
Qed.

(* a failed call flags nothing *)
Lemma lock_rpc_fail_flags all rk assigned rv ce loie f o s e :
  lo_res o = Some e -> flags (lock_rpc all rk assigned rv ce loie f o s) = flags s.
Proof.
  intros Hr. unfold lock_rpc. rewrite Hr.
  destruct s as [a1 a2 a3 a4 a5 ag a7 a8 a9 a10 a11 a12 a13].
  destruct assigned; destruct (many rk || may_be_locked e); destruct ag; reflexivity.
Qed.
