(* Locks/ProofsMain.v — the C06 statements derived from the invariant *)
From Coq Require Import List NArith ZArith Bool Lia.
From Verif Require Import Locks.Model Locks.ProofsBase Locks.ProofsInv Locks.ProofsCommit Locks.ProofsLock
  Locks.ProofsLockAgg Locks.ProofsLockAll.
Import ListNotations.
Open Scope N_scope.

Arguments N.max : simpl never.
Arguments dedup_sort : simpl never.
Arguments len : simpl never.

Lemma bookkeeping_inv p evs : wf_run (init p) evs -> Inv (run (init p) evs).
Proof. intros H. apply Inv_run; auto. apply Inv_init. Qed.

Lemma no_leftover_from s : Inv s -> valid s = false -> tasks s = [] -> store s = [].
Proof.
  intros (HI & _ & _) Hv Ht. destruct (store s) as [|p r] eqn:Es; auto. exfalso.
  destruct (HI p (or_introl eq_refl)) as [[(B1 & _) _]|(t & T1 & _)]; [congruence|].
  rewrite Ht in T1. inversion T1.
Qed.

(* no task pending, not in aggressive locking mode: the store holds locks of S on flagged keys only *)
Lemma quiescent_store_flags s p :
  Inv s -> tasks s = [] -> agg s = None -> In p (store s) ->
  valid s = true /\ In (fst p) (flags s) /\ exists f', snd p = Pess f' /\ f' <= N.max (fu s) (cmaxc s).
Proof.
  intros (HI & _ & _) Ht Ha Hin. destruct (HI p Hin) as [[(B1 & _) Hc]|(t & T1 & _)].
  - destruct (snd p) as [f'|]; [|tauto]. destruct Hc as [[H1 H2]|(a & e & Ha' & _ & _)]; [|congruence].
    split; auto. split; auto. exists f'. auto.
  - rewrite Ht in T1. inversion T1.
Qed.

(* ---- failed LockKeys ---- *)
Lemma filter_agg_sub a rv ce f ex cs ks a' rk err k :
  filter_agg a rv ce f ex cs ks = (a', rk, err) -> In k rk -> In k ks.
Proof.
  revert a a' rk err. induction ks as [|x r IH]; simpl; intros a a' rk err H Hin.
  - inversion H; subst. inversion Hin.
  - destruct (findk x (prev a)) as [e|].
    + destruct (f <? e_lwc e); [inversion H; subst; inversion Hin|].
      destruct (if cs then if ex then None else try_skip e rv ce else None).
      * right. eapply IH; eauto.
      * destruct (filter_agg _ rv ce f ex cs r) as [[a2 ks'] err'] eqn:E. inversion H; subst.
        destruct Hin as [Hin|Hin]; auto. right. eapply IH; eauto.
    + destruct (filter_agg a rv ce f ex cs r) as [[a2 ks'] err'] eqn:E. inversion H; subst.
      destruct Hin as [Hin|Hin]; auto. right. eapply IH; eauto.
Qed.

Lemma lock_keys_full_rpc ks rv ce loie f o s s' rk :
  lock_keys_full ks rv ce loie f o s = (s', rk) -> rk <> [] ->
  exists s5 assigned, s' = lock_rpc (dedup_sort (filter (need_lock (exit_agg ks s)) ks)) rk assigned rv ce loie f o s5 /\
                      (forall k, In k rk -> In k (dedup_sort (filter (need_lock (exit_agg ks s)) ks))).
Proof.
  unfold lock_keys_full. set (s1 := exit_agg ks s). intros H Hne.
  destruct (negb (pess s1) && match agg s1 with Some _ => true | None => false end); [inversion H; congruence|].
  destruct (early_exists s1 ks); [inversion H; congruence|].
  destruct (filter (need_lock s1) ks) as [|k0 r0] eqn:Ek; [inversion H; congruence|]. rewrite <- Ek in *.
  destruct (loie && negb rv); [inversion H; congruence|].
  destruct (loie && (negb (committer s1) || match primary s1 with None => true | Some _ => false end) && many (filter (need_lock s1) ks)); [inversion H; congruence|].
  destruct (pess s1 && (0 <? f)); [|inversion H; congruence].
  unfold lock_pess in H.
  set (keys := dedup_sort (filter (need_lock s1) ks)) in *.
  set (s4 := set_fu f _) in H. set (assigned := match primary (set_committer true s1) with None => true | Some _ => false end) in *.
  destruct (agg s4) as [a|].
  - destruct (filter_agg a rv ce f (lo_expired o) (negb (aprim a) || opt_eqb (alastpk a) (apk a)) keys) as [[a' rk0] err] eqn:Ef.
    destruct err; [inversion H; congruence|]. destruct rk0 as [|x r]; [inversion H; congruence|].
    inversion H; subst. eexists. exists assigned. split; [reflexivity|].
    intros k Hk. eapply filter_agg_sub; eauto.
  - inversion H; subst. eexists. exists assigned. split; [reflexivity|]. auto.
Qed.

Lemma lock_rpc_fail_task all rk assigned rv ce loie f o s e :
  lo_res o = Some e -> (many rk || may_be_locked e) = true ->
  In (TPessRb all (N.max f (eff_lwc s rk o))) (tasks (lock_rpc all rk assigned rv ce loie f o s)).
Proof.
  intros Hr Hb. unfold lock_rpc. cbn [tasks set_ka]. unfold lock_rpc_core. rewrite Hr, Hb.
  match goal with |- In ?T (tasks (if assigned then set_primary None ?X else ?X)) =>
    assert (In T (tasks X)) as HX; [| destruct assigned; auto] end.
  match goal with |- In ?T (tasks (match agg ?Y with Some a => _ | None => _ end)) =>
    assert (In T (tasks Y)) as HY; [simpl; apply in_or_app; right; simpl; auto | destruct (agg Y); simpl; auto] end.
Qed.

Lemma failed_lockkeys ks rv ce loie f o s e :
  lo_res o = Some e ->
  let s1 := exit_agg ks s in
  let s' := fst (lock_keys_full ks rv ce loie f o s) in
  let rk := snd (lock_keys_full ks rv ce loie f o s) in
  rk <> [] ->
  forall k, In k (eff_locked rk loie o) ->
  exists ks' t lf, In (TPessRb ks' t) (tasks s') /\ releases (TPessRb ks' t) (k, Pess lf) = true /\ f <= lf /\
                 (forall k', In k' ks' -> In k' ks /\ need_lock s1 k' = true).
Proof.
  intros Hr s1 s' rk Hne k Hk.
  destruct (lock_keys_full ks rv ce loie f o s) as [s0 rk0] eqn:E. simpl in s', rk. subst s' rk.
  destruct (lock_keys_full_rpc _ _ _ _ _ _ _ _ _ E Hne) as (s5 & assigned & Hs & Hsub). fold s1 in Hs, Hsub.
  destruct (many rk0 || may_be_locked e) eqn:Eb.
  - exists (dedup_sort (filter (need_lock s1) ks)), (N.max f (eff_lwc s5 rk0 o)), (N.max f (eff_lwc s5 rk0 o)).
    split; [rewrite Hs; eapply lock_rpc_fail_task; eauto|]. split; [|split; [lia|]].
    + apply releases_pessrb; [|lia]. apply Hsub. apply eff_locked_In in Hk. tauto.
    + intros k' Hk'. apply (proj1 (dedup_sort_In _ _)) in Hk'. apply (proj1 (filter_In _ _ _)) in Hk'. auto.
  - exfalso. unfold eff_locked in Hk. rewrite (hard_single_false rk0 o e Hr Eb) in Hk. inversion Hk.
Qed.

(* a failed call flags nothing *)
Lemma lock_rpc_fail_flags all rk assigned rv ce loie f o s e :
  lo_res o = Some e -> flags (lock_rpc all rk assigned rv ce loie f o s) = flags s.
Proof.
  intros Hr. unfold lock_rpc. cbn [flags set_ka]. unfold lock_rpc_core. rewrite Hr.
  destruct s as [a1 a2 a3 a4 a5 ag a7 a8 a9 a10 a11 a12 a13 a14 a15].
  destruct assigned; destruct (many rk || may_be_locked e); destruct ag; reflexivity.
Qed.

(* ---- draining, and: every state can be finished by well-formed events ---- *)
Lemma run_nth0_tasks s : tasks (run_nth 0 s) = tl (tasks s).
Proof. unfold run_nth. destruct (tasks s) as [|t r] eqn:E; simpl; auto. Qed.

Lemma run_nth_valid n s : valid (run_nth n s) = valid s.
Proof. unfold run_nth. destruct (nth_error (tasks s) n); reflexivity. Qed.

Lemma drain_props n s :
  Inv s -> (length (tasks s) <= n)%nat ->
  Inv (drain n s) /\ tasks (drain n s) = [] /\ valid (drain n s) = valid s.
Proof.
  revert s. induction n as [|n IH]; simpl; intros s HI Hl.
  - destruct (tasks s); simpl in Hl; [auto|lia].
  - destruct (tasks s) as [|t r] eqn:E; [auto|].
    destruct (IH (run_nth 0 s)) as (A & B & C).
    + apply Inv_run_nth; auto.
    + rewrite run_nth0_tasks, E. simpl in *. lia.
    + rewrite run_nth_valid in C. auto.
Qed.

Lemma no_leftover_drain s n :
  Inv s -> valid s = false -> (length (tasks s) <= n)%nat -> store (drain n s) = [].
Proof.
  intros HI Hv Hl. destruct (drain_props n s HI Hl) as (A & B & C).
  apply no_leftover_from; auto. congruence.
Qed.

Lemma run_app s a b : run s (a ++ b) = run (run s a) b.
Proof. unfold run. apply fold_left_app. Qed.

Lemma wf_run_runs n s : wf_run s (repeat (ERun 0) n).
Proof. revert s. induction n; simpl; intros s; auto. Qed.

Lemma run_runs n s :
  (length (tasks s) <= n)%nat ->
  tasks (run s (repeat (ERun 0) n)) = [] /\ valid (run s (repeat (ERun 0) n)) = valid s.
Proof.
  revert s. induction n as [|n IH]; simpl; intros s Hl.
  - destruct (tasks s); simpl in Hl; [auto|lia].
  - destruct (IH (run_nth 0 s)) as (A & B).
    + rewrite run_nth0_tasks. destruct (tasks s); simpl in *; lia.
    + rewrite run_nth_valid in B. auto.
Qed.

Lemma rollback_valid s : pending s = false -> valid (rollback s) = false.
Proof.
  intros Hp. unfold rollback. destruct (valid s) eqn:Ev; simpl; auto. rewrite Hp.
  unfold rollback_body. reflexivity.
Qed.

Lemma agg_cancel_not_pending s : pending (agg_cancel s) = false.
Proof.
  unfold pending, agg_cancel. destruct (agg s) as [a|] eqn:Ea; [reflexivity|]. rewrite Ea. auto.
Qed.

Definition finish_evs (s : st) : list ev :=
  EAggCancel :: ERollback :: repeat (ERun 0) (length (tasks (rollback (agg_cancel s)))).

Lemma can_always_finish s :
  wf_run s (finish_evs s) /\ valid (run s (finish_evs s)) = false /\ tasks (run s (finish_evs s)) = [].
Proof.
  unfold finish_evs. pose proof (agg_cancel_not_pending s) as Hp.
  split.
  - simpl. repeat split; auto. apply wf_run_runs.
  - simpl. destruct (run_runs (length (tasks (rollback (agg_cancel s)))) (rollback (agg_cancel s)) (le_n _)) as (A & B).
    split; auto. rewrite B. apply rollback_valid; auto.
Qed.

Lemma no_leftover_general s evs :
  Inv s -> wf_run s evs -> valid (run s evs) = false -> tasks (run s evs) = [] -> store (run s evs) = [].
Proof. intros HI Hwf. apply no_leftover_from. apply Inv_run; auto. Qed.

(* the contract can be met in every state, with ANY answer of the store *)
Lemma wf_ev_exists s :
  (forall k, wf_ev s (ESet k) /\ wf_ev s (EDel k) /\ wf_ev s (EInsert k)) /\
  wf_ev s EAggStart /\ wf_ev s EAggRetry /\ wf_ev s EAggCancel /\ wf_ev s EAggDone /\
  (forall n ks, wf_ev s (ERun n) /\ wf_ev s (ERunSome n ks)) /\
  (valid s = true -> forall ks rv ce loie f o, fu s <= f -> wf_ev s (ELock ks rv ce loie f o)) /\
  (pending s = false -> wf_ev s ERollback /\ forall o, wf_ev s (ECommit o)).
Proof. unfold wf_ev. repeat split; simpl; auto. Qed.

Lemma wf_run_app s a b : wf_run s a -> wf_run (run s a) b -> wf_run s (a ++ b).
Proof.
  revert s. induction a as [|e r IH]; simpl; intros s Ha Hb; auto.
  destruct Ha as [H1 H2]. split; auto.
Qed.

Lemma every_run_can_finish_clean p evs :
  wf_run (init p) evs ->
  exists more, wf_run (init p) (evs ++ more) /\
    valid (run (init p) (evs ++ more)) = false /\ tasks (run (init p) (evs ++ more)) = [] /\
    store (run (init p) (evs ++ more)) = [].
Proof.
  intros H. exists (finish_evs (run (init p) evs)).
  destruct (can_always_finish (run (init p) evs)) as (A & B & C).
  assert (W : wf_run (init p) (evs ++ finish_evs (run (init p) evs))) by (apply wf_run_app; auto).
  split; [exact W|]. rewrite run_app. repeat split; auto.
  rewrite <- run_app. apply no_leftover_from; [apply bookkeeping_inv; auto| |]; rewrite run_app; auto.
Qed.

(* ---- re-batching: a task whose batch is re-split into sub-batches (region error, split in the
   request's window) releases exactly what the whole task releases, provided ALL sub-batches are processed *)
Definition task_keys (t : task) : list key :=
  match t with TPessRb l _ => l | TCleanup l => l | TCommitSec l => l end.

Definition run_parts (t : task) (parts : list (list key)) (s : list slock) : list slock :=
  fold_left (fun s p => run_task (restrict_task p t) s) parts s.

Lemma releases_restrict_eq p t l : releases (restrict_task p t) l = releases t l && memk (fst l) p.
Proof.
  assert (M : forall ks, memk (fst l) (filter (fun k => memk k p) ks) = memk (fst l) ks && memk (fst l) p).
  { intros ks. destruct (memk (fst l) (filter (fun k => memk k p) ks)) eqn:E.
    - apply memk_In in E. apply filter_In in E. destruct E as [E1 E2]. apply memk_In in E1. rewrite E1, E2. auto.
    - destruct (memk (fst l) ks) eqn:E1; auto. destruct (memk (fst l) p) eqn:E2; auto.
      apply memk_false in E. exfalso. apply E. apply filter_In. split; [apply memk_In|]; auto. }
  destruct t as [ks f|ks|ks]; simpl; destruct (snd l); rewrite ?M; auto;
    destruct (memk (fst l) ks); destruct (memk (fst l) p); simpl; auto; rewrite ?andb_true_r, ?andb_false_r; auto.
Qed.

Lemma releases_in_keys t l : releases t l = true -> In (fst l) (task_keys t).
Proof.
  destruct t as [ks f|ks|ks]; simpl; destruct (snd l); intros H; try discriminate;
    try (apply andb_true_iff in H; destruct H as [H _]); apply memk_In; auto.
Qed.

Lemma filter_filter {A} (f g : A -> bool) l : filter f (filter g l) = filter (fun x => g x && f x) l.
Proof.
  induction l as [|x l IH]; simpl; auto. destruct (g x); simpl; [destruct (f x); simpl; rewrite IH; auto|auto].
Qed.

Lemma run_parts_spec t parts s :
  run_parts t parts s = filter (fun l => negb (releases t l && existsb (fun p => memk (fst l) p) parts)) s.
Proof.
  unfold run_parts. revert s. induction parts as [|p r IH]; intros s.
  - simpl. induction s as [|l s IHs]; simpl; auto. rewrite andb_false_r. simpl. f_equal. auto.
  - cbn [fold_left]. rewrite IH. unfold run_task. rewrite filter_filter. apply filter_ext. intros l.
    rewrite releases_restrict_eq. cbn [existsb].
    destruct (releases t l); destruct (memk (fst l) p); destruct (existsb (fun p0 => memk (fst l) p0) r); reflexivity.
Qed.

Lemma rebatched_task_equals_whole t parts s :
  (forall k, In k (task_keys t) -> exists p, In p parts /\ In k p) ->
  run_parts t parts s = run_task t s.
Proof.
  intros Hcov. rewrite run_parts_spec. unfold run_task. apply filter_ext_in. intros l _.
  destruct (releases t l) eqn:E; simpl; auto.
  apply releases_in_keys in E. destruct (Hcov _ E) as (p & Hp & Hk).
  assert (X : existsb (fun p0 => memk (fst l) p0) parts = true).
  { apply existsb_exists. exists p. split; auto. apply memk_In; auto. }
  rewrite X. reflexivity.
Qed.

(* a background rollback scheduled late releases with the for-update ts of the FAILED call: locks
   that a retried call acquired with a newer ts survive it *)
Lemma late_rollback_spares_newer ks f s k f' :
  In (k, Pess f') s -> f < f' -> In (k, Pess f') (run_task (TPessRb ks f) s).
Proof.
  intros Hin Hlt. apply run_task_In. split; auto. simpl.
  destruct (memk k ks); simpl; auto. apply N.leb_gt. auto.
Qed.

(* ---- lost release requests: a task whose request is lost is retried by the sender (it stays pending: any number
   of partial runs [ERunSome] and finally [ERun]); a task lost for good never completes.  After the transaction ended,
   every lock that is still there is one that a release task which has NOT completed would release ---- *)
Lemma leftover_under_unfinished_tasks s l :
  Inv s -> valid s = false -> In l (store s) -> exists t, In t (tasks s) /\ releases t l = true.
Proof.
  intros (HI & _ & _) Hv Hin. destruct (HI l Hin) as [[(B1 & _) _]|Ht]; [congruence|exact Ht].
Qed.
