(* Locks/ProofsBase.v — list / association-list / lock-table lemmas for the Locks model *)
From Coq Require Import List NArith ZArith Bool Lia.
From Verif Require Import Locks.Model.
Import ListNotations.
Open Scope N_scope.

Lemma memk_In k l : memk k l = true <-> In k l.
Proof.
  unfold memk. rewrite existsb_exists. split.
  - intros (x & Hx & E). apply N.eqb_eq in E. subst; auto.
  - intros H. exists k. split; auto. apply N.eqb_refl.
Qed.

Lemma memk_false k l : memk k l = false <-> ~ In k l.
Proof.
  rewrite <- memk_In. destruct (memk k l); split; intros H; try congruence; try (intro; congruence).
Qed.

Lemma findk_In {A} k (l : list (key * A)) a : findk k l = Some a -> In (k, a) l.
Proof.
  induction l as [|[k' a'] r IH]; simpl; intros H; try discriminate.
  destruct (N.eqb_spec k k').
  - inversion H; subst; auto.
  - right; auto.
Qed.

Lemma findk_keys {A} k (l : list (key * A)) a : findk k l = Some a -> In k (keys_of l).
Proof. intros H. apply findk_In in H. unfold keys_of. change k with (fst (k, a)). apply in_map; auto. Qed.

Lemma findk_none {A} k (l : list (key * A)) : ~ In k (keys_of l) -> findk k l = None.
Proof.
  induction l as [|[k' a'] r IH]; simpl; intros H; auto.
  destruct (N.eqb_spec k k'); [ subst; exfalso; auto | apply IH; auto ].
Qed.

Lemma In_delk {A} (p : key * A) k l : In p (delk k l) <-> In p l /\ fst p <> k.
Proof.
  unfold delk. rewrite filter_In. split; intros [H1 H2]; split; auto.
  - destruct (N.eqb_spec k (fst p)); simpl in H2; congruence.
  - destruct (N.eqb_spec k (fst p)); simpl; congruence.
Qed.

Lemma findk_delk_eq {A} k (l : list (key * A)) : findk k (delk k l) = None.
Proof.
  apply findk_none. unfold keys_of. rewrite in_map_iff. intros ([k' a] & E & H).
  apply In_delk in H. simpl in *. destruct H; congruence.
Qed.

Lemma findk_delk_ne {A} k k' (l : list (key * A)) : k <> k' -> findk k' (delk k l) = findk k' l.
Proof.
  intros Hne. induction l as [|[k2 a] r IH]; simpl; auto.
  destruct (N.eqb_spec k k2); simpl.
  - subst. destruct (N.eqb_spec k' k2); [congruence | auto].
  - destruct (N.eqb_spec k' k2); auto.
Qed.

Lemma length_filter_le {A} (f : A -> bool) l : (length (filter f l) <= length l)%nat.
Proof. induction l as [|a l IH]; simpl; [lia|]. destruct (f a); simpl; lia. Qed.

Lemma length_delk {A} k (l : list (key * A)) : (length (delk k l) <= length l)%nat.
Proof. apply length_filter_le. Qed.

Lemma length_delk_lt {A} k (l : list (key * A)) a : findk k l = Some a -> (length (delk k l) < length l)%nat.
Proof.
  unfold delk. induction l as [|[k2 a2] r IH]; simpl; try discriminate.
  destruct (N.eqb_spec k k2); simpl; intros H.
  - pose proof (length_filter_le (fun p : N * A => negb (k =? fst p)) r). lia.
  - apply IH in H. lia.
Qed.

Lemma findk_filter_notin {A} (all : list key) k (l : list (key * A)) :
  findk k (filter (fun p => negb (memk (fst p) all)) l) = if memk k all then None else findk k l.
Proof.
  induction l as [|[k2 a] r IH]; simpl.
  - destruct (memk k all); auto.
  - destruct (memk k2 all) eqn:E2; simpl.
    + rewrite IH. destruct (N.eqb_spec k k2); auto. subst. rewrite E2. auto.
    + rewrite IH. destruct (N.eqb_spec k k2); auto. subst. rewrite E2. auto.
Qed.

Lemma insert_sorted_In x k l : In x (insert_sorted k l) <-> x = k \/ In x l.
Proof.
  induction l as [|y r IH]; simpl.
  - intuition.
  - destruct (k <? y); simpl; [intuition|].
    destruct (N.eqb_spec k y); simpl.
    + subst. intuition.
    + rewrite IH. intuition.
Qed.

Lemma dedup_sort_In x l : In x (dedup_sort l) <-> In x l.
Proof.
  unfold dedup_sort. induction l; simpl; [tauto|]. rewrite insert_sorted_In, IHl. intuition.
Qed.

Lemma dedup_sort_single k : dedup_sort [k] = [k].
Proof. reflexivity. Qed.

Lemma minus_In x l r : In x (minus l r) <-> In x l /\ ~ In x r.
Proof. unfold minus. rewrite filter_In. rewrite negb_true_iff, memk_false. tauto. Qed.

Lemma many_false_cases {A} (l : list A) : many l = false -> l = [] \/ exists x, l = [x].
Proof. destruct l as [|x [|y r]]; simpl; intros; try discriminate; eauto. Qed.

(* ---- lock table ---- *)
Lemma put_pess_In p f k s : In p (put_pess f k s) -> p = (k, Pess f) \/ In p s.
Proof.
  unfold put_pess. destruct (findk k s) as [[f'|]|]; auto.
  - destruct (f' <? f); auto. intros [H|H]; auto. apply In_delk in H. tauto.
  - intros [H|H]; auto.
Qed.

Lemma fold_put_pess_In p f ks s :
  In p (fold_right (put_pess f) s ks) -> (In (fst p) ks /\ snd p = Pess f) \/ In p s.
Proof.
  induction ks as [|k r IH]; simpl; auto.
  intros H. apply put_pess_In in H. destruct H as [H|H].
  - subst. simpl. auto.
  - apply IH in H. tauto.
Qed.

Lemma fold_put_prew_In p ks s :
  In p (fold_right put_prew s ks) -> (snd p = Prew /\ In (fst p) ks) \/ (In p s /\ ~ In (fst p) ks).
Proof.
  induction ks as [|k r IH]; simpl; auto.
  unfold put_prew at 1. intros [H|H].
  - subst. simpl. auto.
  - apply In_delk in H. destruct H as [H Hne]. apply IH in H. destruct H as [[H1 H2]|[H1 H2]]; [left|right]; intuition.
Qed.

Lemma run_task_In p t s : In p (run_task t s) <-> In p s /\ releases t p = false.
Proof. unfold run_task. rewrite filter_In, negb_true_iff. tauto. Qed.

Lemma In_remove_nth {A} (x : A) n l : In x l -> In x (remove_nth n l) \/ nth_error l n = Some x.
Proof.
  revert n. induction l as [|y r IH]; simpl; intros n H; [tauto|].
  destruct n; simpl.
  - destruct H; [right; congruence | left; auto].
  - destruct H; [left; left; auto|]. destruct (IH n H); auto.
Qed.

Lemma remove_nth_In {A} (x : A) n l : In x (remove_nth n l) -> In x l.
Proof.
  revert n. induction l as [|y r IH]; destruct n; simpl; auto.
  intros [H|H]; eauto.
Qed.

Lemma remove_nth_length {A} n (l : list A) x : nth_error l n = Some x -> length l = S (length (remove_nth n l)).
Proof.
  revert n. induction l as [|y r IH]; destruct n; simpl; intros H; try discriminate; auto.
Qed.

(* fold of the final loop of lockKeys over currentLockedKeys *)
Definition cur_add (E : key -> entry) (kp : list key) (c : list (key * entry)) :=
  fold_left (fun c k => (k, E k) :: delk k c) kp c.

Lemma cur_add_find E kp c k : findk k (cur_add E kp c) = if memk k kp then Some (E k) else findk k c.
Proof.
  unfold cur_add. revert c. induction kp as [|x r IH]; simpl; intros c; auto.
  rewrite IH. destruct (N.eqb_spec k x).
  - subst. simpl. destruct (memk x r); auto. simpl. rewrite N.eqb_refl. auto.
  - simpl. destruct (memk k r); auto. simpl. destruct (N.eqb_spec k x); [congruence|].
    apply findk_delk_ne. congruence.
Qed.

Lemma cur_add_In E kp c p : In p (cur_add E kp c) -> snd p = E (fst p) \/ In p c.
Proof.
  unfold cur_add. revert c. induction kp as [|x r IH]; simpl; intros c H; auto.
  apply IH in H. destruct H as [H|[H|H]]; auto.
  - subst. auto.
  - apply In_delk in H. tauto.
Qed.

Lemma cur_add_length E kp c : (length (cur_add E kp c) <= length c + length kp)%nat.
Proof.
  unfold cur_add. revert c. induction kp as [|x r IH]; simpl; intros c; [lia|].
  specialize (IH ((x, E x) :: delk x c)). simpl in IH. pose proof (length_delk x c). lia.
Qed.

(* the success loop of lockKeys also takes the keys out of the previous-attempt map *)
Definition prev_del (kp : list key) (c : list (key * entry)) := fold_left (fun c k => delk k c) kp c.

Lemma prev_del_find kp c k : findk k (prev_del kp c) = if memk k kp then None else findk k c.
Proof.
  unfold prev_del. revert c. induction kp as [|x r IH]; simpl; intros c; auto.
  rewrite IH. destruct (N.eqb_spec k x).
  - subst. simpl. destruct (memk x r); auto. apply findk_delk_eq.
  - simpl. destruct (memk k r); auto. apply findk_delk_ne. congruence.
Qed.

Lemma prev_del_In kp c p : In p (prev_del kp c) -> In p c.
Proof.
  unfold prev_del. revert c. induction kp as [|x r IH]; simpl; intros c H; auto.
  apply IH in H. apply In_delk in H. tauto.
Qed.

Lemma prev_del_length kp c : (length (prev_del kp c) <= length c)%nat.
Proof.
  unfold prev_del. revert c. induction kp as [|x r IH]; simpl; intros c; auto.
  specialize (IH (delk x c)). pose proof (length_delk x c). lia.
Qed.
