(* Locks/ProofsPrim.v — the committer's primary key is always a key the client tracks as locked
   (flagged, or a current aggressive-locking key of the attempt that chose it): no "ghost" primary *)
From Coq Require Import List NArith ZArith Bool Lia.
From Verif Require Import Locks.Model Locks.ProofsBase Locks.ProofsInv Locks.ProofsCommit Locks.ProofsLock Locks.ProofsKA.
Import ListNotations.
Open Scope N_scope.

Arguments N.max : simpl never.
Arguments N.eqb : simpl never.
Arguments N.ltb : simpl never.
Arguments N.leb : simpl never.
Arguments dedup_sort : simpl never.
Arguments len : simpl never.

Definition tracked (s : st) (p : key) : Prop :=
  In p (flags s) \/ exists a, agg s = Some a /\ aprim a = true /\ In p (keys_of (cur a)).
Definition prim_ok (s : st) : Prop := forall p, primary s = Some p -> tracked s p.

Lemma keys_cons_delk {A} k (e : A) c x : In x (keys_of c) -> In x (keys_of ((k, e) :: delk k c)).
Proof.
  intros H. simpl. destruct (N.eq_dec k x) as [E|E]; auto. right.
  unfold keys_of in *. apply in_map_iff in H. destruct H as ([k' e'] & E1 & H). simpl in E1. subst k'.
  apply in_map_iff. exists (x, e'). split; auto. apply In_delk. simpl. split; auto.
Qed.

Lemma cur_add_keys E kp c x : In x (keys_of c) \/ In x kp -> In x (keys_of (cur_add E kp c)).
Proof.
  unfold cur_add. revert c. induction kp as [|k r IH]; simpl; intros c H.
  - tauto.
  - apply IH. destruct H as [H|[H|H]]; [left; apply keys_cons_delk; auto | left; subst; simpl; auto | right; auto].
Qed.

Lemma filter_agg_cur a rv ce f ex cs ks a' rk err :
  filter_agg a rv ce f ex cs ks = (a', rk, err) ->
  (forall x, In x (keys_of (cur a)) -> In x (keys_of (cur a'))) /\
  (err = false -> forall x, In x ks -> In x rk \/ In x (keys_of (cur a'))).
Proof.
  revert a a' rk err. induction ks as [|k r IH]; simpl; intros a a' rk err H.
  - inversion H; subst. split; [auto|intros _ x []].
  - destruct (findk k (prev a)) as [e|].
    + destruct (f <? e_lwc e); [inversion H; subst; split; [auto|discriminate]|].
      destruct (if cs then if ex then None else try_skip e rv ce else None) as [e'|].
      * apply IH in H. destruct H as [H1 H2]. split.
        -- intros x Hx. apply H1. cbn [cur a_cur a_prev prev]. apply (keys_cons_delk k e'). auto.
        -- intros He x [Hx|Hx]; [|auto]. subst x. right. apply H1. cbn [cur a_cur a_prev prev]. simpl. auto.
      * destruct (filter_agg a rv ce f ex cs r) as [[a2 ks'] err'] eqn:E. inversion H; subst.
        destruct (IH _ _ _ _ E) as [H1 H2]. split; auto.
        intros He x [Hx|Hx]; [subst; left; simpl; auto|]. destruct (H2 He x Hx); [left; simpl; auto|auto].
    + destruct (filter_agg a rv ce f ex cs r) as [[a2 ks'] err'] eqn:E. inversion H; subst.
      destruct (IH _ _ _ _ E) as [H1 H2]. split; auto.
      intros He x [Hx|Hx]; [subst; left; simpl; auto|]. destruct (H2 He x Hx); [left; simpl; auto|auto].
Qed.

(* what the request and the bookkeeping after it do to the flags and the current aggressive-locking keys *)
Lemma core_fail all rk assigned rv ce loie f o s e :
  lo_res o = Some e ->
  let s' := lock_rpc_core all rk assigned rv ce loie f o s in
  flags s' = flags s /\
  match agg s with
  | None => agg s' = None
  | Some a => exists a', agg s' = Some a' /\ aprim a' = aprim a /\
                (cur a' = cur a \/ cur a' = filter (fun p => negb (memk (fst p) all)) (cur a))
  end.
Proof.
  intros Hr. unfold lock_rpc_core. rewrite Hr.
  destruct s as [a1 a2 a3 a4 a5 ag a7 a8 a9 a10 a11 a12 a13 a14 a15]. cbn [agg set_store flags].
  destruct ag as [a|]; destruct assigned; destruct (many rk || may_be_locked e); simpl; split; auto;
    eexists; split; try reflexivity; simpl; auto.
Qed.

Lemma core_ok all rk assigned rv ce loie f o s :
  lo_res o = None ->
  let s' := lock_rpc_core all rk assigned rv ce loie f o s in
  match agg s with
  | None => agg s' = None /\ flags s' = flags s ++ kept loie (lo_absent o) rk
  | Some a => flags s' = flags s /\ exists a', agg s' = Some a' /\ aprim a' = aprim a /\
                cur a' = cur_add (fun k => mkE rv ce (eff_lwc s rk o) (ex_of true rv ce (eff_lwc s rk o) (lo_absent o) k)) (kept loie (lo_absent o) rk) (cur a)
  end.
Proof.
  intros Hr. unfold lock_rpc_core, finish_lock. rewrite Hr.
  destruct s as [a1 a2 a3 a4 a5 ag a7 a8 a9 a10 a11 a12 a13 a14 a15]. cbn [agg set_store flags].
  destruct ag as [a|]; destruct (assigned && loie); try destruct a8 as [q|]; cbn [primary set_agg set_store];
    repeat match goal with |- context [if memk ?x ?y then _ else _] => destruct (memk x y) end; simpl;
    try (split; reflexivity); split; try reflexivity; eexists; split; try reflexivity; simpl; auto.
Qed.

Lemma in_filter_notin {A} (all : list key) (c : list (key * A)) x :
  In x (keys_of c) -> ~ In x all -> In x (keys_of (filter (fun p => negb (memk (fst p) all)) c)).
Proof.
  unfold keys_of. intros H Hn. apply in_map_iff in H. destruct H as ([k e] & E & H). simpl in E. subst k.
  apply in_map_iff. exists (x, e). split; auto. apply filter_In. split; auto. simpl.
  apply negb_true_iff. apply memk_false. auto.
Qed.

Lemma primary_lock_rpc all rk assigned rv ce loie f o s :
  primary (lock_rpc all rk assigned rv ce loie f o s) = primary_after assigned loie o (primary s).
Proof. pose proof (kv_lock_rpc all rk assigned rv ce loie f o s) as H. unfold kv in H. congruence. Qed.

(* the call did not choose the primary *)
Lemma prim_rpc_keep all rk rv ce loie f o s :
  (forall p, primary s = Some p ->
     In p (flags s) \/ exists a, agg s = Some a /\ aprim a = true /\ In p (keys_of (cur a)) /\ ~ In p all) ->
  prim_ok (lock_rpc all rk false rv ce loie f o s).
Proof.
  intros H p Hp.
  assert (Hpr : primary (lock_rpc all rk false rv ce loie f o s) = primary s).
  { rewrite primary_lock_rpc. unfold primary_after. destruct (lo_res o); reflexivity. }
  rewrite Hpr in Hp. unfold tracked, lock_rpc. cbn [flags agg set_ka].
  destruct (lo_res o) as [e|] eqn:Er.
  - destruct (core_fail all rk false rv ce loie f o s e Er) as [Hf Ha]. cbv zeta in Hf, Ha.
    destruct (H p Hp) as [Hin|(a & Ea & Eap & Hin & Hn)]; [left; rewrite Hf; auto|right].
    rewrite Ea in Ha. destruct Ha as (a' & Ea' & Eap' & [Ec|Ec]); exists a'; rewrite Ec; repeat split; auto; try congruence.
    apply in_filter_notin; auto.
  - pose proof (core_ok all rk false rv ce loie f o s Er) as Hok. cbv zeta in Hok.
    destruct (H p Hp) as [Hin|(a & Ea & Eap & Hin & Hn)].
    + left. destruct (agg s); [destruct Hok as [Hf _]; rewrite Hf; auto|destruct Hok as [_ Hf]; rewrite Hf; apply in_or_app; auto].
    + right. rewrite Ea in Hok. destruct Hok as (_ & a' & Ea' & Eap' & Ec). exists a'. rewrite Ec.
      repeat split; auto; try congruence. apply cur_add_keys. auto.
Qed.

(* the call chose the primary [pk] *)
Lemma prim_rpc_assigned all rk rv ce loie f o s pk :
  primary s = Some pk ->
  (forall a, agg s = Some a -> aprim a = true) ->
  (In pk rk \/ exists a, agg s = Some a /\ In pk (keys_of (cur a))) ->
  prim_ok (lock_rpc all rk true rv ce loie f o s).
Proof.
  intros Hpk Hap Hin p Hp. rewrite primary_lock_rpc, Hpk in Hp. unfold primary_after in Hp.
  destruct (lo_res o) as [e|] eqn:Er; [discriminate|].
  assert (Hk : p = pk /\ (loie = true -> ~ In pk (lo_absent o))).
  { simpl in Hp. destruct loie; simpl in Hp.
    - destruct (memk pk (lo_absent o)) eqn:Em; [discriminate|]. inversion Hp; subst. split; auto. intros _. apply memk_false; auto.
    - inversion Hp; subst. split; auto. discriminate. }
  destruct Hk as [-> Hab]. unfold tracked, lock_rpc. cbn [flags agg set_ka].
  pose proof (core_ok all rk true rv ce loie f o s Er) as Hok. cbv zeta in Hok.
  destruct (agg s) as [a|] eqn:Ea.
  - right. destruct Hok as (_ & a' & Ea' & Eap' & Ec). exists a'. rewrite Ec. repeat split; auto.
    + rewrite Eap'. apply Hap; auto.
    + apply cur_add_keys. destruct Hin as [Hin|(a0 & Ea0 & Hin)].
      * right. apply kept_In. auto.
      * left. congruence.
  - left. destruct Hok as [_ Hf]. rewrite Hf. apply in_or_app. right. apply kept_In.
    destruct Hin as [Hin|(a0 & Ea0 & _)]; [auto|discriminate].
Qed.

Lemma in_cur_keys s a x : agg s = Some a -> In x (keys_of (cur a)) -> in_cur s x = true.
Proof. intros Ha H. unfold in_cur. rewrite Ha. apply memk_In. auto. Qed.

Lemma prim_lock_pess keys rv ce loie f o s :
  prim_ok s -> keys <> [] ->
  (forall x, In x keys -> in_cur s x = false) ->
  (forall a k e', agg s = Some a -> findk k (prev a) = Some e' -> e_lwc e' <= f) ->
  prim_ok (fst (lock_pess keys rv ce loie f o s)).
Proof.
  intros Hok Hne Hnc Hts. destruct keys as [|k0 kr]; [congruence|]. unfold lock_pess.
  destruct s as [a1 a2 a3 a4 a5 ag a7 a8 a9 a10 a11 a12 a13 a14 a15].
  cbn [primary set_committer]. destruct a8 as [p|].
  - (* the primary was chosen by an earlier call *)
    cbn [set_fu agg set_committer set_primary set_agg]. destruct ag as [a|].
    + destruct (filter_agg a rv ce f (lo_expired o) (negb (aprim a) || opt_eqb (alastpk a) (apk a)) (k0 :: kr)) as [[a' rk] err] eqn:Ef.
      pose proof (filter_agg_flags _ _ _ _ _ _ _ _ _ _ Ef) as Hfl.
      assert (Hap : aprim a' = aprim a) by (unfold aflags in Hfl; congruence).
      destruct (filter_agg_cur _ _ _ _ _ _ _ _ _ _ Ef) as [Hcur _].
      assert (err = false) by (eapply filter_agg_noerr; [|exact Ef]; intros; eapply Hts; simpl; eauto). subst err.
      rewrite andb_false_r. cbn [andb].
      assert (Hbase : forall q, Some p = Some q ->
                In q a2 \/ exists b, Some a' = Some b /\ aprim b = true /\ In q (keys_of (cur b)) /\ ~ In q (k0 :: kr)).
      { intros q Eq. inversion Eq; subst q. destruct (Hok p eq_refl) as [Hin|(b & Eb & Hb & Hin)]; [left; exact Hin|right].
        simpl in Eb. inversion Eb; subst b. exists a'. repeat split; auto; try congruence.
        intros Hk. pose proof (Hnc p Hk) as Hc. unfold in_cur in Hc. simpl in Hc. apply memk_false in Hc. contradiction. }
      destruct rk as [|r0 rr]; cbn [fst].
      * intros q Hq. simpl in Hq. destruct (Hbase q Hq) as [Hin|(b & Eb & Hb & Hin & _)]; [left; exact Hin|right].
        exists b. simpl. auto.
      * apply prim_rpc_keep. simpl. exact Hbase.
    + cbn [fst]. apply prim_rpc_keep. simpl. intros q Hq. left. inversion Hq; subst q.
      destruct (Hok p eq_refl) as [Hin|(b & Eb & _)]; [exact Hin|discriminate].
  - (* this call chooses the primary *)
    unfold select_primary. destruct ag as [a|]; cbn [agg set_primary set_committer set_fu set_agg].
    + set (pk := match alastpk a with Some p => if memk p (k0 :: kr) then Some p else Some k0 | None => Some k0 end).
      assert (Hpk : exists q, pk = Some q /\ In q (k0 :: kr)).
      { unfold pk. destruct (alastpk a) as [p|]; [destruct (memk p (k0 :: kr)) eqn:Em|]; eexists; split; try reflexivity; simpl; auto.
        apply memk_In in Em. exact Em. }
      destruct Hpk as (q0 & Hq0 & Hq0in).
      cbn [a_prim aprim alastpk apk].
      destruct (filter_agg (a_prim true pk a) rv ce f (lo_expired o) (negb true || opt_eqb (alastpk a) pk) (k0 :: kr)) as [[a' rk] err] eqn:Ef.
      pose proof (filter_agg_flags _ _ _ _ _ _ _ _ _ _ Ef) as Hfl.
      assert (Hap : aprim a' = true) by (unfold aflags in Hfl; simpl in Hfl; congruence).
      destruct (filter_agg_cur _ _ _ _ _ _ _ _ _ _ Ef) as [_ Hcov].
      assert (err = false) by (eapply filter_agg_noerr; [|exact Ef]; intros; eapply Hts; simpl; eauto). subst err.
      specialize (Hcov eq_refl q0 Hq0in).
      destruct rk as [|r0 rr]; cbn [fst]; cbv beta iota zeta; change (negb true) with false; change (negb false) with true; cbn [andb fst].
      * intros q Hq. simpl in Hq. rewrite Hq0 in Hq. inversion Hq; subst q. right. exists a'. simpl. repeat split; auto.
        destruct Hcov as [[]|Hc]. exact Hc.
      * match goal with |- prim_ok (lock_rpc _ _ _ _ _ _ _ _ ?x) =>
          assert (E7 : primary x = Some q0 /\ agg x = Some a') by
            (destruct (negb (opt_eqb (apk a') (alastpk a'))); unfold ka_reset; simpl; [destruct a14; simpl|]; rewrite Hq0; auto)
        end.
        destruct E7 as [P1 P2].
        apply (prim_rpc_assigned _ _ _ _ _ _ _ _ q0); auto.
        -- intros b Hb. rewrite P2 in Hb. inversion Hb; subst b. exact Hap.
        -- destruct Hcov as [Hc|Hc]; [left; exact Hc|right; exists a'; auto].
    + cbn [fst]. apply (prim_rpc_assigned _ _ _ _ _ _ _ _ k0); simpl; auto.
      intros b Hb. discriminate.
Qed.

(* ---- the other steps ---- *)
Ltac open_state s :=
  destruct s as [a1 a2 a3 a4 a5 ag a7 a8 a9 a10 a11 a12 a13 a14 a15].

Lemma prim_agg_done s : prim_ok s -> prim_ok (agg_done s).
Proof.
  intros Hok. unfold agg_done. open_state s. cbn [agg]. destruct ag as [a|]; [|exact Hok].
  unfold cleanup_redundant, ka_reset.
  destruct (alastprim a && negb (aprim a)); destruct a14; destruct (prev a) as [|pp0 pr0]; simpl;
    intros p Hp; simpl in Hp; left; simpl;
    (destruct (Hok p Hp) as [Hin|(b & Eb & _ & Hin)]; [apply in_or_app; auto|]);
    simpl in Eb; inversion Eb; subst b; apply in_or_app; auto.
Qed.

Lemma prim_agg_start s : prim_ok s -> prim_ok (agg_start s).
Proof.
  intros Hok. unfold agg_start. open_state s. cbn [agg]. destruct ag as [a|]; [exact Hok|].
  intros p Hp. simpl in Hp. destruct (Hok p Hp) as [Hin|(b & Eb & _)]; [left; exact Hin|discriminate].
Qed.

Lemma prim_agg_retry s : prim_ok s -> prim_ok (agg_retry s).
Proof.
  intros Hok. unfold agg_retry. open_state s. cbn [agg]. destruct ag as [a|]; [|exact Hok].
  unfold cleanup_redundant, reset_primary. destruct (aprim a) eqn:Ea; destruct (prev a) as [|pp0 pr0]; simpl;
    intros p Hp; simpl in Hp; try discriminate;
    (destruct (Hok p Hp) as [Hin|(b & Eb & Hb & _)]; [left; exact Hin|]);
    simpl in Eb; inversion Eb; subst b; congruence.
Qed.

Lemma prim_agg_cancel s : prim_ok s -> prim_ok (agg_cancel s).
Proof.
  intros Hok. unfold agg_cancel. open_state s. cbn [agg]. destruct ag as [a|]; [|exact Hok].
  unfold cleanup_redundant, reset_primary, ka_reset.
  destruct (aprim a) eqn:Ea; destruct (alastprim a); destruct (prev a) as [|pp0 pr0]; destruct (cur a) as [|cc0 cr0]; destruct a14; simpl;
    intros p Hp; simpl in Hp; try discriminate;
    (destruct (Hok p Hp) as [Hin|(b & Eb & Hb & _)]; [left; exact Hin|]);
    simpl in Eb; inversion Eb; subst b; congruence.
Qed.

Lemma prim_same s s' :
  primary s' = primary s -> flags s' = flags s -> agg s' = agg s -> prim_ok s -> prim_ok s'.
Proof.
  intros H1 H2 H3 Hok p Hp. rewrite H1 in Hp. unfold tracked. rewrite H2, H3. apply Hok. exact Hp.
Qed.

Lemma prim_rollback_body s : prim_ok s -> prim_ok (rollback_body s).
Proof.
  apply prim_same; unfold rollback_body, ka_close; open_state s; simpl;
    destruct (a13 && a7); simpl; auto; destruct (a5 =? 0)%Z; simpl; destruct a14; reflexivity.
Qed.

Lemma prim_rollback_body_l lost s : prim_ok s -> prim_ok (rollback_body_l lost s).
Proof.
  apply prim_same; unfold rollback_body_l, ka_close; open_state s; simpl;
    destruct (a13 && a7); simpl; auto; destruct (a5 =? 0)%Z; simpl;
    try (destruct a14; reflexivity);
    destruct (filter (fun k => memk k lost) a2); destruct a14; reflexivity.
Qed.

Lemma prim_commit_body o s : prim_ok s -> prim_ok (commit_body o s).
Proof.
  intros Hok. rewrite commit_body_ka.
  assert (H0 : prim_ok (commit_body0 o s)).
  { revert Hok. apply prim_same; unfold commit_body0;
      destruct (mutations (co_unnecessary o) s); try reflexivity;
      destruct (co_mode o); destruct (co_res o); simpl; try reflexivity; try (destruct (pess s); reflexivity);
      try (match goal with |- context [primary_in ?m ?x] => destruct (primary_in m x) end; reflexivity). }
  destruct (ka s); auto; revert H0; apply prim_same; reflexivity.
Qed.

Lemma prim_finish_lock rk rv ce loie absent lwc hv s : prim_ok s -> prim_ok (finish_lock rk rv ce loie absent lwc hv s).
Proof.
  intros Hok. unfold finish_lock. open_state s. cbn [agg]. destruct ag as [a|]; simpl; intros p Hp; simpl in Hp.
  - destruct (Hok p Hp) as [Hin|(b & Eb & Hb & Hin)]; [left; exact Hin|right].
    simpl in Eb. inversion Eb; subst b. eexists. split; [reflexivity|]. simpl. split; auto.
    change (fold_left _ (kept loie absent rk) (cur a)) with (cur_add (fun k => mkE rv ce lwc (ex_of hv rv ce lwc absent k)) (kept loie absent rk) (cur a)). apply cur_add_keys. auto.
  - destruct (Hok p Hp) as [Hin|(b & Eb & _)]; [left; simpl; apply in_or_app; auto|discriminate].
Qed.

Lemma prim_lock_keys ks rv ce loie f o s :
  prim_ok s -> ts_contract s (ELock ks rv ce loie f o) -> prim_ok (lock_keys ks rv ce loie f o s).
Proof.
  intros H Hts. unfold lock_keys, lock_keys_full.
  assert (H1 : prim_ok (exit_agg ks s)).
  { unfold exit_agg. destruct (agg s); auto. destruct (many ks); auto. apply prim_agg_done. auto. }
  simpl in Hts. set (s1 := exit_agg ks s) in *.
  destruct (negb (pess s1) && match agg s1 with Some _ => true | None => false end); [exact H1|].
  destruct (early_exists _ ks); [exact H1|].
  destruct (filter (need_lock s1) ks) as [|k0 r0] eqn:Ek; [exact H1|]. rewrite <- Ek.
  destruct (loie && negb rv); [exact H1|].
  destruct (loie && (negb (committer s1) || match primary s1 with None => true | Some _ => false end) && many (filter (need_lock s1) ks)); [exact H1|].
  destruct (pess s1 && (0 <? f)).
  - apply prim_lock_pess; auto;
      try (apply dedup_sort_nonempty; rewrite Ek; discriminate);
      try (intros a k e' Ha Hf; eapply Hts; eauto; fail).
    intros x Hx. apply (proj1 (dedup_sort_In _ _)) in Hx. apply (proj1 (filter_In _ _ _)) in Hx. destruct Hx as [_ Hx].
    unfold need_lock in Hx. apply andb_true_iff in Hx. destruct Hx as [Hx _]. apply negb_true_iff in Hx. exact Hx.
  - simpl. apply prim_finish_lock. exact H1.
Qed.

Lemma prim_step s e : prim_ok s -> ts_contract s e -> prim_ok (step s e).
Proof.
  intros H Ht. destruct e; simpl.
  - revert H. apply prim_same; reflexivity.
  - revert H. apply prim_same; reflexivity.
  - revert H. apply prim_same; reflexivity.
  - revert H. apply prim_same; reflexivity.
  - destruct (findk k (written s)); auto; revert H; apply prim_same; reflexivity.
  - apply prim_lock_keys; auto.
  - apply prim_agg_start; auto.
  - apply prim_agg_retry; auto.
  - apply prim_agg_cancel; auto.
  - apply prim_agg_done; auto.
  - unfold commit. destruct (valid s); simpl; auto. destruct (pending s).
    + revert H. apply prim_same; reflexivity.
    + apply prim_commit_body. apply prim_agg_cancel. auto.
  - unfold rollback. destruct (valid s); simpl; auto. destruct (pending s).
    + revert H. apply prim_same; reflexivity.
    + apply prim_rollback_body. apply prim_agg_cancel. auto.
  - unfold rollback_l. destruct (valid s); simpl; auto. destruct (pending s).
    + revert H. apply prim_same; reflexivity.
    + apply prim_rollback_body_l. apply prim_agg_cancel. auto.
  - unfold run_nth. destruct (nth_error (tasks s) n); auto; revert H; apply prim_same; reflexivity.
  - unfold run_some. destruct (nth_error (tasks s) n); auto; revert H; apply prim_same; reflexivity.
Qed.

Lemma prim_run s evs : prim_ok s -> wf_run_ts s evs -> prim_ok (run s evs).
Proof.
  revert s. induction evs as [|e r IH]; simpl; intros s H Hw; auto.
  destruct Hw as [[_ H2] H3]. apply IH; auto. apply prim_step; auto.
Qed.

Lemma primary_is_tracked p evs :
  wf_run_ts (init p) evs ->
  let s := run (init p) evs in
  forall k, primary s = Some k ->
    In k (flags s) \/ exists a, agg s = Some a /\ aprim a = true /\ In k (keys_of (cur a)).
Proof. intros H s k Hk. apply (prim_run (init p) evs); auto. intros q Hq. discriminate. Qed.
