(* Locks/ProofsTop.v — the proof scripts of the C06 theorems of Locks/Props.v that are more than one [exact], and the
   tactics the Examples of Props.v / PropsKill.v use.  Statements are repeated verbatim in Props.v. *)
From Coq Require Import List NArith ZArith Bool Lia.
From Verif Require Import Locks.Model Locks.ProofsBase Locks.ProofsInv Locks.ProofsCommit Locks.ProofsLock
  Locks.ProofsLockAgg Locks.ProofsLockAll Locks.ProofsMain Locks.ProofsKA Locks.ProofsSched Locks.ProofsPrim Locks.ProofsEarly Locks.ProofsHeld Locks.Contract Locks.ProofsHeldLock.
Import ListNotations.
Open Scope N_scope.

Ltac wf_solve :=
  vm_compute; repeat split; try reflexivity; try (intros; discriminate);
  try (intros; split; [reflexivity | intros; first [discriminate | contradiction]]);
  try (intros; contradiction);
  try (let k := fresh "k" in let Hk := fresh "Hk" in
       intros k Hk; repeat (destruct Hk as [Hk|Hk]; [subst k; vm_compute; intros; first [discriminate | contradiction | tauto]|]);
       contradiction).
Ltac split_hyps := repeat match goal with H : _ /\ _ |- _ => destruct H end.

Ltac held_solve :=
  vm_compute; repeat split; intros; try discriminate;
  repeat match goal with
         | H : _ \/ _ |- _ => destruct H
         | H : False |- _ => destruct H
         | H : TPessRb _ _ = TPessRb _ _ |- _ => inversion H; clear H; subst
         | H : Some _ = Some _ |- _ => inversion H; clear H; subst
         end; subst; try reflexivity; try discriminate; try (vm_compute; reflexivity); try tauto; auto 6.

(* [wf_run_ts] of a concrete run (after unfolding its definition) *)
Ltac wf_ts_solve :=
  cbn [wf_run_ts]; repeat split;
    try (vm_compute; repeat split; try reflexivity; intros; discriminate);
    try exact I;
    cbn [ts_contract];
    let a := fresh "a" in let k := fresh "k" in let e' := fresh "e'" in let Ha := fresh "Ha" in let Hf := fresh "Hf" in
    intros a k e' Ha Hf; apply findk_In in Hf; vm_compute in Ha; try discriminate;
    inversion Ha; subst a; simpl in Hf; intuition;
    match goal with H : (_, _) = (_, _) |- _ => inversion H; subst; vm_compute; intros; discriminate end.

Lemma C06_bookkeeping_inv_proof :
  forall (p : bool) (evs : list ev), wf_run (init p) evs ->
  let s := run (init p) evs in
  (forall l, In l (store s) -> cov_book s l \/ cov_task s l) /\ lwc_ok s /\ cnt_ok s.
Proof. intros p evs H. exact (bookkeeping_inv p evs H). Qed.

Lemma C06_no_leftover_proof :
  forall (p : bool) (evs : list ev), wf_run (init p) evs ->
  let s := run (init p) evs in
  valid s = false -> tasks s = [] -> store s = [].
Proof. intros p evs H s Hv Ht. apply no_leftover_from; auto. apply bookkeeping_inv; auto. Qed.

Lemma C06_aggressive_retry_releases_unneeded_proof :
  forall (p : bool) (before mid after : list ev) a,
  let s0 := run (init p) before in
  agg s0 = Some a ->
  let s := run (init p) (before ++ EAggRetry :: mid ++ EAggDone :: after) in
  wf_run (init p) (before ++ EAggRetry :: mid ++ EAggDone :: after) ->
  tasks s = [] -> agg s = None ->
  forall k, In k (keys_of (cur a)) -> ~ In k (flags s) -> ~ In k (keys_of (store s)).
Proof.
  intros p before mid after a s0 Ha s Hwf Ht Hag k Hk Hnf Hin.
  unfold keys_of in Hin. apply in_map_iff in Hin. destruct Hin as (l & El & Hin).
  destruct (quiescent_store_flags s l (bookkeeping_inv p _ Hwf) Ht Hag Hin) as (_ & Hf & _).
  rewrite El in Hf. auto.
Qed.

Lemma C06_quiescent_store_within_flags_proof :
  forall (p : bool) (evs : list ev), wf_run (init p) evs ->
  let s := run (init p) evs in
  tasks s = [] -> agg s = None -> forall l, In l (store s) -> In (fst l) (flags s) /\ valid s = true.
Proof.
  intros p evs H s Ht Ha l Hl.
  destruct (quiescent_store_flags s l (bookkeeping_inv p evs H) Ht Ha Hl) as (A & B & _). auto.
Qed.

Lemma C06_no_leftover_after_drain_proof :
  forall (p : bool) (evs : list ev) (n : nat), wf_run (init p) evs ->
  let s := run (init p) evs in
  valid s = false -> (length (tasks s) <= n)%nat -> store (drain n s) = [].
Proof. intros p evs n H s Hv Hl. apply no_leftover_drain; auto. apply bookkeeping_inv; auto. Qed.

Lemma C06_can_always_finish_proof :
  forall s, exists evs, wf_run s evs /\ valid (run s evs) = false /\ tasks (run s evs) = [].
Proof. intros s. exists (finish_evs s). apply can_always_finish. Qed.

Lemma C06_every_run_can_finish_clean_proof :
  forall (p : bool) (evs : list ev), wf_run (init p) evs ->
  exists more, wf_run (init p) (evs ++ more) /\
    let s := run (init p) (evs ++ more) in valid s = false /\ tasks s = [] /\ store s = [].
Proof. intros p evs H. exact (every_run_can_finish_clean p evs H). Qed.

Lemma C06_leftover_only_under_unfinished_release_proof :
  forall (p : bool) (evs : list ev), wf_run (init p) evs ->
  let s := run (init p) evs in
  valid s = false -> forall l, In l (store s) -> exists t, In t (tasks s) /\ releases t l = true.
Proof. intros p evs H s Hv l Hl. apply leftover_under_unfinished_tasks; auto. apply bookkeeping_inv; auto. Qed.

Lemma C06_tracked_keys_hold_locks_checked_proof :
  forall evs : list ev, wf_run (init true) evs -> wf_run_heldb false (init true) evs = true ->
  let s := run (init true) evs in
  valid s = true ->
  forall k, (In k (flags s) \/ in_cur s k = true) ->
  exists l, In (k, l) (store s) /\ forall t, In t (tasks s) -> releases t (k, l) = false.
Proof.
  intros evs Hw Hb s Hv k Hk. apply (tracked_keys_hold_locks evs); auto.
  - apply wf_run_heldb_sound; auto.
  - tauto.
Qed.

