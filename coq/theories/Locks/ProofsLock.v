(* Locks/ProofsLock.v — LockKeys preserves the bookkeeping invariant (under the API contract) *)
From Coq Require Import List NArith ZArith Bool Lia.
From Verif Require Import Locks.Model Locks.ProofsBase Locks.ProofsInv.
Import ListNotations.
Open Scope N_scope.

Arguments N.max : simpl never.
Arguments N.leb : simpl never.
Arguments N.ltb : simpl never.
Arguments N.eqb : simpl never.
Arguments dedup_sort : simpl never.
Arguments len : simpl never.
Arguments cur_add : simpl never.

Lemma set_agg_same s a : agg s = Some a -> set_agg (Some a) s = s.
Proof. destruct s; simpl; intros; subst; reflexivity. Qed.

Lemma kept_In loie absent rk k : In k (kept loie absent rk) <-> In k rk /\ (loie = true -> ~ In k absent).
Proof.
  unfold kept. destruct loie.
  - rewrite minus_In. intuition.
  - intuition discriminate.
Qed.

Lemma kept_len loie absent rk : (len (kept loie absent rk) <= len rk)%Z.
Proof.
  unfold kept, minus, len. destruct loie; [|lia].
  pose proof (length_filter_le (fun k => negb (memk k absent)) rk). lia.
Qed.

Lemma in_cur_findk s a k : agg s = Some a -> in_cur s k = false -> findk k (cur a) = None.
Proof.
  unfold in_cur. intros Ha H. rewrite Ha in H. apply findk_none. apply memk_false; auto.
Qed.

(* ---- the final loop ---- *)
Lemma finish_lock_Inv rk rv ce loie absent lwc hv s news :
  (forall p, In p (store s) -> covered s p \/ In p news) ->
  lwc_ok s -> cnt_ok s ->
  (forall k, In k rk -> in_cur s k = false) ->
  (agg s = None -> lwc = 0) ->
  (forall a, agg s = Some a -> lwc <= amaxc a) ->
  (forall p, In p news -> book_ok s /\ In (fst p) (kept loie absent rk) /\ exists f', snd p = Pess f' /\ f' <= N.max (fu s) lwc) ->
  Inv (finish_lock rk rv ce loie absent lwc hv s).
Proof.
  intros HI HL HC Hnc Hl0 Hla Hnew. unfold finish_lock. set (kp := kept loie absent rk) in *.
  assert (Hkp : forall k, In k kp -> in_cur s k = false).
  { intros k Hk. apply Hnc. apply kept_In in Hk. tauto. }
  destruct (agg s) as [a|] eqn:Ea.
  - set (E := fun k => mkE rv ce lwc (ex_of hv rv ce lwc absent k)).
    change (fold_left _ kp (cur a)) with (cur_add E kp (cur a)). fold (prev_del kp (prev a)).
    assert (Hold : forall k f', agg_cov s k f' ->
             agg_cov (set_agg (Some (a_prev (prev_del kp (prev a)) (a_cur (cur_add E kp (cur a)) a))) s) k f').
    { intros k f' (a0 & e & Ha0 & Hf & Hle). rewrite Ea in Ha0. inversion Ha0; subst a0.
      destruct (memk k kp) eqn:Em.
      - eexists. exists (E k). split; [reflexivity|]. simpl. split; auto.
        left. rewrite cur_add_find, Em. auto.
      - eexists. exists e. split; [reflexivity|]. simpl. split; auto.
        rewrite cur_add_find, prev_del_find, Em. auto. }
    split; [|split].
    + intros p Hp. simpl in Hp. destruct (HI p Hp) as [[[B Hc]|Ht]|Hn].
      * left. split; [exact B|]. simpl. destruct (snd p) as [f'|]; auto.
        destruct Hc as [Hc|Hc]; [left; auto|]. right. apply Hold. exact Hc.
      * right. destruct Ht as (t & T1 & T2). exists t; auto.
      * destruct (Hnew p Hn) as (B & Hk & f' & Hs & Hle). left. split; [exact B|]. simpl. rewrite Hs.
        right. eexists. exists (E (fst p)). split; [simpl; reflexivity|]. simpl. split.
        -- left. rewrite cur_add_find. apply memk_In in Hk. rewrite Hk. auto.
        -- pose proof (Hla a eq_refl). lia.
    + intros a' k e Ha' Hin. simpl in Ha'. inversion Ha'; subst a'. simpl in *.
      apply in_app_or in Hin. destruct Hin as [Hin|Hin].
      * apply cur_add_In in Hin. simpl in Hin. destruct Hin as [Hin|Hin].
        -- subst e. simpl. auto.
        -- apply (HL a k e Ea). apply in_or_app; auto.
      * apply prev_del_In in Hin. apply (HL a k e Ea). apply in_or_app; auto.
    + unfold cnt_ok, agg_len in *. simpl. rewrite Ea in HC.
      pose proof (cur_add_length E kp (cur a)). pose proof (prev_del_length kp (prev a)). unfold len in *. lia.
  - split; [|split].
    + intros p Hp. simpl in Hp. destruct (HI p Hp) as [[[B Hc]|Ht]|Hn].
      * left. split; [exact B|]. simpl. destruct (snd p) as [f'|]; auto.
        destruct Hc as [[H1 H2]|(a0 & e & Ha0 & _ & _)]; [|congruence]. left. split; auto. apply in_or_app; auto.
      * right. destruct Ht as (t & T1 & T2). exists t; auto.
      * destruct (Hnew p Hn) as (B & Hk & f' & Hs & Hle). left. split; [exact B|]. simpl. rewrite Hs.
        left. split; [apply in_or_app; auto|]. rewrite (Hl0 eq_refl) in Hle. lia.
    + intros a k e Ha. simpl in Ha. congruence.
    + unfold cnt_ok, agg_len in *. simpl. rewrite Ea in *. rewrite len_app. lia.
Qed.

(* ---- the request, transaction not in aggressive locking mode ---- *)
Lemma hard_single_false rk o e :
  lo_res o = Some e -> (many rk || may_be_locked e) = false -> hard_single rk o = true.
Proof.
  intros Hr Hb. apply orb_false_iff in Hb. destruct Hb as [H1 H2].
  unfold hard_single. rewrite Hr, H1, H2. reflexivity.
Qed.

Lemma eff_locked_In rk loie o k :
  In k (eff_locked rk loie o) -> In k rk /\ (loie = true -> ~ In k (lo_absent o)).
Proof.
  unfold eff_locked. destruct (hard_single rk o); [intros []|].
  intros H. apply filter_In in H. destruct H as [_ H]. apply andb_true_iff in H. destruct H as [H1 H2].
  apply memk_In in H1. split; auto. intros ->. simpl in H2. apply negb_true_iff, memk_false in H2. auto.
Qed.

Lemma Inv_if_primary (b : bool) s : Inv s -> Inv (if b then set_primary None s else s).
Proof. destruct b; auto; apply Inv_primary. Qed.

Lemma lock_rpc_core_noagg rk assigned rv ce loie f o s :
  Inv s -> agg s = None -> book_ok s -> fu s = f ->
  Inv (lock_rpc_core rk rk assigned rv ce loie f o s).
Proof.
  intros (HI & HL & HC) Ha B Hf. unfold lock_rpc_core.
  assert (Hw : eff_lwc s rk o = 0) by (unfold eff_lwc; rewrite Ha; auto). rewrite Hw.
  replace (N.max f 0) with f by lia. simpl. rewrite Ha.
  destruct (lo_res o) as [e|] eqn:Er.
  - apply Inv_if_primary. destruct (many rk || may_be_locked e) eqn:Eb.
    + simpl. rewrite Ha. split; [|split].
      * intros p Hp. simpl in Hp. apply fold_put_pess_In in Hp. destruct Hp as [[H1 H2]|Hp].
        -- right. apply cov_task_new. destruct p as [k l]; simpl in *. subst l.
           apply releases_pessrb; [|lia]. apply eff_locked_In in H1. tauto.
        -- destruct (HI p Hp) as [[B' Hc]|Ht].
           ++ left. split; [exact B'|]. simpl. auto.
           ++ right. apply cov_task_add. destruct Ht as (t & T1 & T2). exists t; auto.
      * intros a k e0 Ha'. simpl in Ha'. congruence.
      * unfold cnt_ok, agg_len in *. simpl. rewrite Ha in *. lia.
    + rewrite (hard_single_false rk o e Er Eb) || (unfold eff_locked; rewrite (hard_single_false rk o e Er Eb)).
      simpl. split; [|split].
      * intros p Hp. simpl in Hp. destruct (HI p Hp) as [[B' Hc]|Ht]; [left; split; auto|right].
        destruct Ht as (t & T1 & T2). exists t; auto.
      * intros a k e0 Ha'. simpl in Ha'. congruence.
      * unfold cnt_ok, agg_len in *. simpl. rewrite Ha in *. lia.
  - set (st1 := fold_right (put_pess f) (store s) (eff_locked rk loie o)).
    set (s3 := if assigned && loie then _ else _).
    assert (E3 : store s3 = st1 /\ flags s3 = flags s /\ agg s3 = None /\ cnt s3 = cnt s /\ tasks s3 = tasks s /\
                 valid s3 = valid s /\ pess s3 = pess s /\ committer s3 = committer s /\ fu s3 = fu s /\ cmaxc s3 = cmaxc s).
    { unfold s3. destruct (assigned && loie); simpl; [|repeat split; auto].
      destruct (primary s); simpl; [|repeat split; auto]. destruct (memk _ _); simpl; repeat split; auto. }
    destruct E3 as (Est & Efl & Eag & Ecn & Etk & Eva & Epe & Eco & Efu & Ecm).
    apply (finish_lock_Inv rk rv ce loie (lo_absent o) 0 true s3
             (filter (fun p => match snd p with Pess f' => (f' =? f) && memk (fst p) (kept loie (lo_absent o) rk) | Prew => false end) st1)).
    + intros p Hp. rewrite Est in Hp. unfold st1 in Hp. pose proof Hp as Hp0. apply fold_put_pess_In in Hp. destruct Hp as [[H1 H2]|Hp].
      * right. apply filter_In. split; [exact Hp0|]. rewrite H2. rewrite N.eqb_refl. simpl.
        apply memk_In. apply kept_In. apply eff_locked_In in H1. auto.
      * left. destruct (HI p Hp) as [[(B1 & B2 & B3) Hc]|Ht].
        -- left. split; [unfold book_ok; rewrite Eva, Epe, Eco; auto|].
           destruct (snd p) as [f'|]; auto. destruct Hc as [[H1 H2]|(a0 & e & Ha0 & _ & _)]; [|congruence].
           left. rewrite Efl, Efu, Ecm. auto.
        -- right. destruct Ht as (t & T1 & T2). exists t. rewrite Etk. auto.
    + intros a k e Ha'. congruence.
    + unfold cnt_ok, agg_len in *. rewrite Eag, Efl, Ecn. rewrite Ha in HC. auto.
    + intros k _. unfold in_cur. rewrite Eag. auto.
    + auto.
    + intros a Ha'. congruence.
    + intros p Hp. apply filter_In in Hp. destruct Hp as [_ Hp]. destruct B as (B1 & B2 & B3).
      split; [unfold book_ok; rewrite Eva, Epe, Eco; auto|].
      destruct (snd p) as [f'|]; [|discriminate]. apply andb_true_iff in Hp. destruct Hp as [H1 H2].
      apply N.eqb_eq in H1. apply memk_In in H2. split; auto. exists f'. split; auto. rewrite Efu. lia.
Qed.

Lemma lock_rpc_noagg rk assigned rv ce loie f o s :
  Inv s -> agg s = None -> book_ok s -> fu s = f ->
  Inv (lock_rpc rk rk assigned rv ce loie f o s).
Proof. intros. unfold lock_rpc. apply Inv_ka. apply lock_rpc_core_noagg; auto. Qed.
