(* Locks/ProofsHeld.v — the converse of the bookkeeping invariant (oracle A of the check as a theorem):
   while the transaction is open, every key the client tracks as locked (flagged, or a current aggressive-locking
   key) holds a lock in the store that no pending background release removes.  Needs what [Inv] does not: the
   store's success contract, fresh for-update timestamps, and "after a failed LockKeys inside an attempt the caller
   retries / cancels / finishes the attempt before locking again" (see C06_note_skip_after_failed_relock). *)
From Coq Require Import List NArith ZArith Bool Lia.
From Verif Require Import Locks.Model Locks.ProofsBase Locks.ProofsInv Locks.ProofsCommit Locks.ProofsLock Locks.ProofsLockAgg Locks.ProofsLockAll.
Import ListNotations.
Open Scope N_scope.

Arguments N.max : simpl never.
Arguments N.eqb : simpl never.
Arguments N.ltb : simpl never.
Arguments N.leb : simpl never.
Arguments dedup_sort : simpl never.
Arguments len : simpl never.

(* ---- held keys ---- *)
Definition safe (tk : list task) (p : slock) : Prop := forall t, In t tk -> releases t p = false.
Definition heldv (stv : list slock) (tk : list task) (k : key) : Prop := exists l, In (k, l) stv /\ safe tk (k, l).
Definition held (s : st) (k : key) : Prop := heldv (store s) (tasks s) k.
Definition only_rb (tk : list task) : Prop := forall t, In t tk -> exists ks f, t = TPessRb ks f.
Definition cpv (s : st) : option (list key * list key) :=
  match agg s with Some a => Some (keys_of (cur a), keys_of (prev a)) | None => None end.

(* [b] = a LockKeys call failed inside the current aggressive-locking attempt and the attempt was not yet retried /
   cancelled / finished: keys of the previous attempt named by the call lose their lock to the scheduled rollback *)
Definition HV (b : bool) (stv : list slock) (tk : list task) (fl : list key) (cp : option (list key * list key)) : Prop :=
  only_rb tk /\
  (forall k, In k fl -> heldv stv tk k) /\
  (forall c p, cp = Some (c, p) ->
     (forall k, In k c -> heldv stv tk k) /\
     (b = false -> forall k, In k p -> heldv stv tk k) /\
     (forall k, In k (c ++ p) -> ~ In k fl) /\
     (forall k, In k c -> ~ In k p)).
Definition HInv (b : bool) (s : st) : Prop := pess s = true /\ HV b (store s) (tasks s) (flags s) (cpv s).

Lemma HInv_view b s s' :
  store s' = store s -> tasks s' = tasks s -> flags s' = flags s -> cpv s' = cpv s -> pess s' = pess s ->
  HInv b s -> HInv b s'.
Proof. unfold HInv. intros E1 E2 E3 E4 E5 H. rewrite E1, E2, E3, E4, E5. exact H. Qed.

Lemma HV_nocp b b' stv tk fl : HV b stv tk fl None -> HV b' stv tk fl None.
Proof. intros (H1 & H2 & _). split; [|split]; auto. intros c p E; discriminate. Qed.

Lemma HV_weaken stv tk fl cp : HV false stv tk fl cp -> HV true stv tk fl cp.
Proof.
  intros (H1 & H2 & H3). split; [|split]; auto. intros c p E. destruct (H3 c p E) as (A & B & C & D).
  repeat split; auto; try (intros; discriminate).
Qed.

(* ---- the lock table under requests ---- *)
Definition fresh_lock (lf : ts) (l : lkind) : Prop := l = Prew \/ exists f', l = Pess f' /\ lf <= f'.

Lemma put_pess_keeps f k st k0 l :
  In (k0, l) st -> exists l', In (k0, l') (put_pess f k st) /\ (l' = l \/ l' = Pess f).
Proof.
  intros H. unfold put_pess. destruct (findk k st) as [[f'|]|] eqn:Ef.
  - destruct (f' <? f); [|exists l; auto]. destruct (N.eq_dec k0 k) as [->|Hne].
    + exists (Pess f). simpl; auto.
    + exists l. split; auto. right. apply In_delk. simpl; auto.
  - exists l; auto.
  - exists l. split; auto. right; auto.
Qed.

Lemma put_pess_new f k st : exists l', In (k, l') (put_pess f k st) /\ fresh_lock f l'.
Proof.
  unfold put_pess. destruct (findk k st) as [[f'|]|] eqn:Ef.
  - destruct (f' <? f) eqn:El.
    + exists (Pess f). split; [left; auto|]. right. exists f. split; auto. lia.
    + exists (Pess f'). split; [eapply findk_In; eauto|]. right. exists f'. split; auto. apply N.ltb_ge in El. lia.
  - exists Prew. split; [eapply findk_In; eauto|]. left; auto.
  - exists (Pess f). split; [left; auto|]. right. exists f. split; auto. lia.
Qed.

Lemma fresh_lock_keep f l l' : fresh_lock f l -> l' = l \/ l' = Pess f -> fresh_lock f l'.
Proof. intros H [->| ->]; auto. right. exists f. split; auto. lia. Qed.

Lemma fold_put_keeps f ks st k0 l :
  In (k0, l) st -> exists l', In (k0, l') (fold_right (put_pess f) st ks) /\ (l' = l \/ l' = Pess f).
Proof.
  intros H. induction ks as [|k r IH]; simpl; [exists l; auto|].
  destruct IH as (l1 & H1 & H2). destruct (put_pess_keeps f k _ _ _ H1) as (l2 & H3 & H4).
  exists l2. split; auto. destruct H4 as [->| ->]; auto.
Qed.

Lemma fold_put_new f ks st k : In k ks -> exists l', In (k, l') (fold_right (put_pess f) st ks) /\ fresh_lock f l'.
Proof.
  induction ks as [|x r IH]; simpl; [tauto|]. intros [->|H].
  - apply put_pess_new.
  - destruct (IH H) as (l1 & H1 & H2). destruct (put_pess_keeps f x _ _ _ H1) as (l2 & H3 & H4).
    exists l2. split; auto. eapply fresh_lock_keep; eauto.
Qed.

(* a lock taken (or refreshed) at [lf] survives every pending rollback with an older ts *)
Lemma fresh_safe tk lf k l :
  only_rb tk -> (forall ks f', In (TPessRb ks f') tk -> f' < lf) -> fresh_lock lf l -> safe tk (k, l).
Proof.
  intros Hrb Hts Hl t Ht. destruct (Hrb t Ht) as (ks & f' & ->). simpl.
  destruct Hl as [->|(f2 & -> & Hle)]; auto. pose proof (Hts ks f' Ht).
  apply andb_false_iff. right. apply N.leb_gt. lia.
Qed.

Lemma heldv_refresh stv tk lf ks k :
  only_rb tk -> (forall ks' f', In (TPessRb ks' f') tk -> f' < lf) ->
  heldv stv tk k -> heldv (fold_right (put_pess lf) stv ks) tk k.
Proof.
  intros Hrb Hts (l & H1 & H2). destruct (fold_put_keeps lf ks _ _ _ H1) as (l' & H3 & [->| ->]).
  - exists l; auto.
  - exists (Pess lf). split; auto. eapply fresh_safe; eauto. right. exists lf. split; auto. lia.
Qed.

Lemma heldv_new stv tk lf ks k :
  only_rb tk -> (forall ks' f', In (TPessRb ks' f') tk -> f' < lf) ->
  In k ks -> heldv (fold_right (put_pess lf) stv ks) tk k.
Proof.
  intros Hrb Hts Hk. destruct (fold_put_new lf ks stv k Hk) as (l & H1 & H2).
  exists l. split; auto. eapply fresh_safe; eauto.
Qed.

Lemma heldv_add_task stv tk ks f k : heldv stv tk k -> ~ In k ks -> heldv stv (tk ++ [TPessRb ks f]) k.
Proof.
  intros (l & H1 & H2) Hn. exists l. split; auto. intros t Ht. apply in_app_or in Ht. destruct Ht as [Ht|[<-|[]]]; auto.
  simpl. destruct l; auto. apply andb_false_iff. left. apply memk_false. auto.
Qed.

Lemma only_rb_add tk ks f : only_rb tk -> only_rb (tk ++ [TPessRb ks f]).
Proof. intros H t Ht. apply in_app_or in Ht. destruct Ht as [Ht|[<-|[]]]; eauto. Qed.

(* ---- list-level steps of the invariant ---- *)
Lemma HV_task b stv tk fl cp ks f :
  HV b stv tk fl cp ->
  (forall k, In k ks -> ~ In k fl) ->
  (forall c p, cp = Some (c, p) -> forall k, In k ks -> ~ In k c /\ (b = false -> ~ In k p)) ->
  HV b stv (tk ++ [TPessRb ks f]) fl cp.
Proof.
  intros (H1 & H2 & H3) Hf Hc. split; [apply only_rb_add; auto|]. split.
  - intros k Hk. apply heldv_add_task; auto. intros Hin. exact (Hf k Hin Hk).
  - intros c p E. destruct (H3 c p E) as (A & B & C & D). repeat split; auto.
    + intros k Hk. apply heldv_add_task; auto. intros Hin. destruct (Hc c p E k Hin) as [X _]. auto.
    + intros Hb k Hk. apply heldv_add_task; auto. intros Hin. destruct (Hc c p E k Hin) as [_ X]. exact (X Hb Hk).
Qed.

Lemma HV_refresh b stv tk fl cp lf ks :
  HV b stv tk fl cp -> (forall ks' f', In (TPessRb ks' f') tk -> f' < lf) ->
  HV b (fold_right (put_pess lf) stv ks) tk fl cp.
Proof.
  intros (H1 & H2 & H3) Hts. split; auto. split.
  - intros k Hk. apply heldv_refresh; auto.
  - intros c p E. destruct (H3 c p E) as (A & B & C & D). repeat split; auto.
    + intros k Hk. apply heldv_refresh; auto.
    + intros Hb k Hk. apply heldv_refresh; auto.
Qed.

Lemma HV_run stv tk fl cp b t tk' :
  HV b stv tk fl cp -> In t tk -> (forall x, In x tk' -> In x tk) -> HV b (run_task t stv) tk' fl cp.
Proof.
  intros (H1 & H2 & H3) Ht Hsub.
  assert (Hh : forall k, heldv stv tk k -> heldv (run_task t stv) tk' k).
  { intros k (l & A & B). exists l. split; [apply run_task_In; split; auto|]. intros x Hx. apply B. auto. }
  split; [intros x Hx; apply H1; auto|]. split; [intros k Hk; auto|].
  intros c p E. destruct (H3 c p E) as (A & B & C & D). repeat split; auto.
Qed.

Lemma HV_run_part stv tk fl cp b t ks :
  HV b stv tk fl cp -> In t tk -> HV b (run_task (restrict_task ks t) stv) tk fl cp.
Proof.
  intros (H1 & H2 & H3) Ht.
  assert (Hh : forall k, heldv stv tk k -> heldv (run_task (restrict_task ks t) stv) tk k).
  { intros k (l & A & B). exists l. split; auto. apply run_task_In. split; auto.
    destruct (releases (restrict_task ks t) (k, l)) eqn:E; auto. apply releases_restrict in E. rewrite (B t Ht) in E. discriminate. }
  split; auto. split; [intros k Hk; auto|].
  intros c p E. destruct (H3 c p E) as (A & B & C & D). repeat split; auto.
Qed.

(* ---- what the aggressive-locking operations do to the view ---- *)
Ltac open_state s :=
  destruct s as [a1 a2 a3 a4 a5 ag a7 a8 a9 a10 a11 a12 a13 a14 a15].

Definition with_task (tk : list task) (ks : list key) (f : ts) : list task :=
  match ks with [] => tk | _ => tk ++ [TPessRb ks f] end.

Lemma keys_of_nil {A} (l : list (key * A)) : keys_of l = [] -> l = [].
Proof. destruct l; simpl; auto; discriminate. Qed.

Lemma cleanup_view a s :
  let s' := cleanup_redundant a s in
  store s' = store s /\ flags s' = flags s /\ agg s' = agg s /\ pess s' = pess s /\ valid s' = valid s /\ fu s' = fu s /\
  tasks s' = with_task (tasks s) (keys_of (prev a)) (N.max (fu s) (amaxc a)).
Proof. unfold cleanup_redundant, with_task. destruct (prev a); simpl; repeat split; auto. Qed.

Lemma HV_with_task b stv tk fl cp ks f :
  HV b stv tk fl cp ->
  (forall k, In k ks -> ~ In k fl) ->
  (forall c p, cp = Some (c, p) -> forall k, In k ks -> ~ In k c /\ (b = false -> ~ In k p)) ->
  HV b stv (with_task tk ks f) fl cp.
Proof. intros H H1 H2. unfold with_task. destruct ks; auto. apply HV_task; auto. Qed.

Lemma agg_retry_view s a :
  agg s = Some a ->
  let s' := agg_retry s in
  store s' = store s /\ flags s' = flags s /\ pess s' = pess s /\ valid s' = valid s /\
  cpv s' = Some ([], keys_of (cur a)) /\
  tasks s' = with_task (tasks s) (keys_of (prev a)) (N.max (fu s) (amaxc a)).
Proof.
  intros Ha. unfold agg_retry. rewrite Ha. cbv zeta.
  pose proof (cleanup_view a s) as CV. cbv zeta in CV. destruct CV as (C1 & C2 & C3 & C4 & C5 & C6 & C7).
  set (s1 := cleanup_redundant a s) in *.
  destruct (aprim a); unfold reset_primary, cpv; simpl; rewrite ?C1, ?C2, ?C4, ?C5, ?C7; repeat split; auto.
Qed.

Lemma H_agg_retry b s : HInv b s -> HInv false (agg_retry s).
Proof.
  intros [Hp H]. destruct (agg s) as [a|] eqn:Ha.
  - pose proof (agg_retry_view s a Ha) as AV. cbv zeta in AV. destruct AV as (E1 & E2 & E3 & E4 & E5 & E6).
    split; [congruence|]. rewrite E1, E2, E5, E6.
    unfold cpv in H. rewrite Ha in H. destruct H as (H1 & H2 & H3).
    destruct (H3 _ _ eq_refl) as (A & B & C & D).
    apply HV_with_task.
    + split; auto. split; auto. intros c p E. inversion E; subst c p. repeat split; auto.
      * intros k [].
      * intros k Hk. apply C. apply in_or_app; auto.
    + intros k Hk. apply C. apply in_or_app; auto.
    + intros c p E k Hk. inversion E; subst c p. split; [intros []|]. intros _ Hc. exact (D k Hc Hk).
  - unfold agg_retry. rewrite Ha. split; auto. unfold cpv in *. rewrite Ha in *. eapply HV_nocp; eauto.
Qed.

Lemma agg_cancel_view s a :
  agg s = Some a ->
  let s' := agg_cancel s in
  store s' = store s /\ flags s' = flags s /\ pess s' = pess s /\ valid s' = valid s /\ cpv s' = None /\
  exists f1 f2, tasks s' = with_task (with_task (tasks s) (keys_of (prev a)) f1) (keys_of (cur a)) f2.
Proof.
  intros Ha. unfold agg_cancel. rewrite Ha. cbv zeta.
  pose proof (cleanup_view a s) as CV. cbv zeta in CV. destruct CV as (C1 & C2 & C3 & C4 & C5 & C6 & C7).
  set (s1 := cleanup_redundant a s) in *.
  set (s2 := if aprim a || alastprim a then reset_primary false s1 else s1).
  assert (E2 : store s2 = store s /\ flags s2 = flags s /\ pess s2 = pess s /\ valid s2 = valid s /\ tasks s2 = tasks s1).
  { unfold s2. destruct (aprim a || alastprim a); [|repeat split; auto].
    unfold reset_primary. destruct (ka_ops_fields (set_primary None s1) ka_reset) as (K1&K2&K3&K4&_&_&_&_&K9&_); auto.
    rewrite K1, K2, K3, K4, K9. simpl. repeat split; auto. }
  destruct E2 as (F1 & F2 & F3 & F4 & F5).
  unfold cpv. destruct (cur a) as [|c0 cr] eqn:Ec; simpl; rewrite ?F1, ?F2, ?F3, ?F4; repeat split; auto;
    exists (N.max (fu s) (amaxc a)), (N.max (fu s2) (amaxc a)); rewrite ?F5, ?C7; reflexivity.
Qed.

Lemma H_agg_cancel b b' s : HInv b s -> HInv b' (agg_cancel s).
Proof.
  intros [Hp H]. destruct (agg s) as [a|] eqn:Ha.
  - pose proof (agg_cancel_view s a Ha) as AV. cbv zeta in AV. destruct AV as (E1 & E2 & E3 & E4 & E5 & f1 & f2 & E6).
    split; [congruence|]. rewrite E1, E2, E5, E6.
    unfold cpv in H. rewrite Ha in H. destruct H as (H1 & H2 & H3).
    destruct (H3 _ _ eq_refl) as (A & B & C & D).
    apply HV_with_task; [apply HV_with_task|..]; try (intros; discriminate).
    + split; auto. split; auto. intros; discriminate.
    + intros k Hk. apply C. apply in_or_app; auto.
    + intros k Hk. apply C. apply in_or_app; auto.
  - unfold agg_cancel. rewrite Ha. split; auto. unfold cpv in *. rewrite Ha in *. eapply HV_nocp; eauto.
Qed.

Lemma agg_done_view s a :
  agg s = Some a ->
  let s' := agg_done s in
  store s' = store s /\ flags s' = flags s ++ keys_of (cur a) /\ pess s' = pess s /\ valid s' = valid s /\ cpv s' = None /\
  fu s' = fu s /\
  tasks s' = with_task (tasks s) (keys_of (prev a)) (N.max (fu s) (amaxc a)).
Proof.
  intros Ha. unfold agg_done. rewrite Ha. cbv zeta.
  set (s0 := if alastprim a && negb (aprim a) then ka_reset s else s).
  assert (E0 : store s0 = store s /\ flags s0 = flags s /\ pess s0 = pess s /\ valid s0 = valid s /\ tasks s0 = tasks s /\ fu s0 = fu s).
  { unfold s0. destruct (alastprim a && negb (aprim a)); [|repeat split; auto].
    destruct (ka_ops_fields s ka_reset) as (K1&K2&K3&K4&_&K6&_&_&K9&_); auto. repeat split; auto. }
  destruct E0 as (F1 & F2 & F3 & F4 & F5 & F6).
  pose proof (cleanup_view a s0) as CV. cbv zeta in CV. destruct CV as (C1 & C2 & C3 & C4 & C5 & C6 & C7).
  unfold cpv. simpl. rewrite C1, C2, C4, C5, C6, C7, F1, F2, F3, F4, F5, F6. repeat split; auto.
Qed.

Lemma H_agg_done b b' s : HInv b s -> HInv b' (agg_done s).
Proof.
  intros [Hp H]. destruct (agg s) as [a|] eqn:Ha.
  - pose proof (agg_done_view s a Ha) as AV. cbv zeta in AV. destruct AV as (E1 & E2 & E3 & E4 & E5 & _ & E6).
    split; [congruence|]. rewrite E1, E2, E5, E6.
    unfold cpv in H. rewrite Ha in H. destruct H as (H1 & H2 & H3).
    destruct (H3 _ _ eq_refl) as (A & B & C & D).
    apply HV_with_task; try (intros; discriminate).
    + split; auto. split; [|intros; discriminate].
      intros k Hk. apply in_app_or in Hk. destruct Hk; auto.
    + intros k Hk Hin. apply in_app_or in Hin. destruct Hin as [Hin|Hin].
      * apply (C k); auto. apply in_or_app; auto.
      * exact (D k Hin Hk).
  - unfold agg_done. rewrite Ha. split; auto. unfold cpv in *. rewrite Ha in *. eapply HV_nocp; eauto.
Qed.

Lemma H_agg_start b s : HInv b s -> HInv b (agg_start s).
Proof.
  intros [Hp H]. unfold agg_start. destruct (agg s) as [a|] eqn:Ha; [split; auto|].
  split; [exact Hp|]. unfold cpv in *. simpl. rewrite Ha in H. destruct H as (H1 & H2 & _).
  split; auto. split; auto. intros c p E. inversion E; subst c p. repeat split; intros; simpl in *; tauto.
Qed.

Lemma H_run_nth b n s : HInv b s -> HInv b (run_nth n s).
Proof.
  intros [Hp H]. unfold run_nth. destruct (nth_error (tasks s) n) as [t|] eqn:En; [|split; auto].
  split; [exact Hp|]. unfold cpv. simpl. fold (cpv s). eapply HV_run; eauto.
  - eapply nth_error_In; eauto.
  - intros x. apply remove_nth_In.
Qed.

Lemma H_run_some b n ks s : HInv b s -> HInv b (run_some n ks s).
Proof.
  intros [Hp H]. unfold run_some. destruct (nth_error (tasks s) n) as [t|] eqn:En; [|split; auto].
  split; [exact Hp|]. unfold cpv. simpl. fold (cpv s). eapply HV_run_part; eauto. eapply nth_error_In; eauto.
Qed.
