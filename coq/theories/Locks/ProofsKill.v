(* Locks/ProofsKill.v — proof scripts of the C06 theorems of Locks/PropsKill.v (statements repeated verbatim there).
   Both are corollaries: the first is a fact about the transcribed table [interruptible] (Kill.v), the second is
   C06_no_leftover transported along [krun = run . map kill_ev]. *)
From Coq Require Import List NArith ZArith Bool Lia.
From Verif Require Import Locks.Model Locks.ProofsBase Locks.ProofsInv Locks.ProofsMain Locks.Kill Locks.ProofsTop.
Import ListNotations.
Open Scope N_scope.

Lemma C06_release_requests_ignore_kill_proof :
  forall (killed : bool) (t : task), goes_out interruptible killed (task_cmd t) = true.
Proof. intros. apply release_goes_out. exact code_table_ok. Qed.

Lemma C06_no_leftover_under_any_kill_schedule_proof :
  forall (p : bool) (kevs : list (bool * ev)), kwf_run interruptible (init p) kevs ->
  let s := krun interruptible (init p) kevs in
  (s = run (init p) (map (kill_ev interruptible) kevs) /\ wf_run (init p) (map (kill_ev interruptible) kevs)) /\
  (valid s = false -> tasks s = [] -> store s = []).
Proof.
  intros p kevs H s.
  assert (E : s = run (init p) (map (kill_ev interruptible) kevs)) by (apply krun_run; exact code_table_ok).
  assert (W : wf_run (init p) (map (kill_ev interruptible) kevs)) by (apply kwf_wf; [exact code_table_ok|exact H]).
  split; [split; auto|]. rewrite E. apply C06_no_leftover_proof. exact W.
Qed.

(* [kwf_run] + clean end of a concrete killed run *)
Ltac kill_runs_solve := repeat constructor; vm_compute; repeat split; intros; try discriminate; auto.
