(* Locks/Model.v — executable model of the CLIENT's lock bookkeeping of one transaction S (C06).
   Mirrors txnkv/transaction/txn.go (lockKeys incl. its error paths, asyncPessimisticRollback,
   resetPrimary / unsetPrimaryKeyIfNeeded / selectPrimaryForPessimisticLock, Rollback /
   rollbackPessimisticLocks, Start/Retry/Cancel/DoneAggressiveLocking,
   cleanupAggressiveLockingRedundantLocks, filterAggressiveLockedKeys, trySkipLockingOnRetry),
   pessimistic.go (per-key results: locked / locked with conflict / failed), 2pc.go (execute's
   deferred block -> cleanup; secondaries / async commit in background), cleanup.go.
   The store is represented only by the set of locks it holds for S ([store]); what the store did
   in one call is an INPUT of the event (relational treatment), sanitised to the store contract:
   only requested keys are locked, a single-key request failing with write conflict / key exists
   writes nothing, lock-only-if-exists does not lock an absent key, a conflict ts is reported
   only in force-lock mode.  No lost message, no crash: every pending task eventually [ERun]s. *)
From Coq Require Import List NArith ZArith Bool.
Import ListNotations.
Open Scope N_scope.

Notation key := N (only parsing).
Notation ts := N (only parsing).

Inductive lkind := Pess (f : ts) | Prew.
Definition slock := (key * lkind)%type.

Inductive fail := FConflict | FExists | FDeadlock | FTimeout | FNoWait | FOther.
(* keyMayBeLocked := !IsErrWriteConflict(err) && !IsErrKeyExist(err) *)
Definition may_be_locked (e : fail) : bool :=
  match e with FConflict | FExists => false | _ => true end.

(* background work of the client *)
Inductive task :=
| TPessRb (ks : list key) (f : ts)   (* asyncPessimisticRollback / pessimisticRollbackMutations *)
| TCleanup (ks : list key)           (* 2pc cleanup: BatchRollback of all mutations *)
| TCommitSec (ks : list key).        (* commit of secondaries / async commit of all keys *)

(* tempLockBufferEntry *)
Record entry := mkE { e_rv : bool; e_ce : bool; e_lwc : ts; e_ex : bool }.   (* e_ex: Value.Exists *)

(* ttlManager (keep-alive of the primary lock): state and the key its goroutine was started with *)
Inductive kast := KUninit | KRunning (k : key) | KClosed.

(* aggressiveLockingContext *)
Record actx := mkA {
  cur : list (key * entry);        (* currentLockedKeys *)
  prev : list (key * entry);       (* lastRetryUnnecessaryLocks *)
  amaxc : ts;                      (* maxLockedWithConflictTS *)
  aprim : bool;                    (* assignedPrimaryKey *)
  alastprim : bool;                (* lastAssignedPrimaryKey *)
  apk : option key;                (* primaryKey *)
  alastpk : option key }.          (* lastPrimaryKey *)

Record st := mkS {
  store : list slock;      (* locks of S held by the store *)
  flags : list key;        (* buffer keys flagged 'locked' *)
  written : list (key * bool);  (* buffer writes, newest first: (key, value is empty = Delete) *)
  presume : list key;      (* buffer keys flagged PresumeKeyNotExists / NeedCheckExists *)
  cnt : Z;                 (* lockedCnt *)
  agg : option actx;
  committer : bool;        (* txn.committer != nil *)
  primary : option key;    (* committer.primaryKey *)
  fu : ts;                 (* committer.forUpdateTS *)
  cmaxc : ts;              (* committer.maxLockedWithConflictTS *)
  tasks : list task;
  valid : bool;
  pess : bool;
  ka : kast;               (* committer.ttlManager *)
  fnx : list key }.        (* flagged keys whose flag says LockedValueNotExists (default: value exists) *)

Definition init (p : bool) : st := mkS [] [] [] [] 0%Z None false None 0 0 [] true p KUninit [].

(* ---- setters ---- *)
Definition set_store x s := mkS x (flags s) (written s) (presume s) (cnt s) (agg s) (committer s) (primary s) (fu s) (cmaxc s) (tasks s) (valid s) (pess s) (ka s) (fnx s).
Definition set_flags x s := mkS (store s) x (written s) (presume s) (cnt s) (agg s) (committer s) (primary s) (fu s) (cmaxc s) (tasks s) (valid s) (pess s) (ka s) (fnx s).
Definition set_written x s := mkS (store s) (flags s) x (presume s) (cnt s) (agg s) (committer s) (primary s) (fu s) (cmaxc s) (tasks s) (valid s) (pess s) (ka s) (fnx s).
Definition set_presume x s := mkS (store s) (flags s) (written s) x (cnt s) (agg s) (committer s) (primary s) (fu s) (cmaxc s) (tasks s) (valid s) (pess s) (ka s) (fnx s).
Definition set_cnt x s := mkS (store s) (flags s) (written s) (presume s) x (agg s) (committer s) (primary s) (fu s) (cmaxc s) (tasks s) (valid s) (pess s) (ka s) (fnx s).
Definition set_agg x s := mkS (store s) (flags s) (written s) (presume s) (cnt s) x (committer s) (primary s) (fu s) (cmaxc s) (tasks s) (valid s) (pess s) (ka s) (fnx s).
Definition set_committer x s := mkS (store s) (flags s) (written s) (presume s) (cnt s) (agg s) x (primary s) (fu s) (cmaxc s) (tasks s) (valid s) (pess s) (ka s) (fnx s).
Definition set_primary x s := mkS (store s) (flags s) (written s) (presume s) (cnt s) (agg s) (committer s) x (fu s) (cmaxc s) (tasks s) (valid s) (pess s) (ka s) (fnx s).
Definition set_fu x s := mkS (store s) (flags s) (written s) (presume s) (cnt s) (agg s) (committer s) (primary s) x (cmaxc s) (tasks s) (valid s) (pess s) (ka s) (fnx s).
Definition set_cmaxc x s := mkS (store s) (flags s) (written s) (presume s) (cnt s) (agg s) (committer s) (primary s) (fu s) x (tasks s) (valid s) (pess s) (ka s) (fnx s).
Definition set_tasks x s := mkS (store s) (flags s) (written s) (presume s) (cnt s) (agg s) (committer s) (primary s) (fu s) (cmaxc s) x (valid s) (pess s) (ka s) (fnx s).
Definition set_valid x s := mkS (store s) (flags s) (written s) (presume s) (cnt s) (agg s) (committer s) (primary s) (fu s) (cmaxc s) (tasks s) x (pess s) (ka s) (fnx s).
Definition set_ka x s := mkS (store s) (flags s) (written s) (presume s) (cnt s) (agg s) (committer s) (primary s) (fu s) (cmaxc s) (tasks s) (valid s) (pess s) x (fnx s).
Definition kreset (k : kast) : kast := match k with KRunning _ => KUninit | x => x end.
Definition kclose (k : kast) : kast := match k with KRunning _ => KClosed | x => x end.
Definition krun (p : option key) (k : kast) : kast := match k, p with KUninit, Some q => KRunning q | x, _ => x end.
Definition set_fnx x s := mkS (store s) (flags s) (written s) (presume s) (cnt s) (agg s) (committer s) (primary s) (fu s) (cmaxc s) (tasks s) (valid s) (pess s) (ka s) x.
(* ttlManager.reset / close / run *)
Definition ka_reset (s : st) : st := match ka s with KRunning _ => set_ka KUninit s | _ => s end.
Definition ka_close (s : st) : st := match ka s with KRunning _ => set_ka KClosed s | _ => s end.
Definition ka_run (s : st) : st :=
  match ka s, primary s with KUninit, Some p => set_ka (KRunning p) s | _, _ => s end.
(* resetPrimary(keepTTLManager) *)
Definition reset_primary (keep : bool) (s : st) : st :=
  let s1 := set_primary None s in if keep then s1 else ka_reset s1.
Definition add_task t s := set_tasks (tasks s ++ [t]) s.

Definition a_cur x a := mkA x (prev a) (amaxc a) (aprim a) (alastprim a) (apk a) (alastpk a).
Definition a_prev x a := mkA (cur a) x (amaxc a) (aprim a) (alastprim a) (apk a) (alastpk a).
Definition a_maxc x a := mkA (cur a) (prev a) x (aprim a) (alastprim a) (apk a) (alastpk a).
Definition a_prim b pk a := mkA (cur a) (prev a) (amaxc a) b (alastprim a) pk (alastpk a).

(* ---- small list library (keys as sets / association lists) ---- *)
Definition memk (k : key) (l : list key) : bool := existsb (N.eqb k) l.
Definition keys_of {A} (l : list (key * A)) : list key := map fst l.
Fixpoint findk {A} (k : key) (l : list (key * A)) : option A :=
  match l with
  | [] => None
  | (k', a) :: r => if N.eqb k k' then Some a else findk k r
  end.
Definition delk {A} (k : key) (l : list (key * A)) : list (key * A) :=
  filter (fun p => negb (N.eqb k (fst p))) l.
Definition minus (l r : list key) : list key := filter (fun k => negb (memk k r)) l.
Fixpoint insert_sorted (k : key) (l : list key) : list key :=
  match l with
  | [] => [k]
  | x :: r => if k <? x then k :: l else if k =? x then l else x :: insert_sorted k r
  end.
(* deduplicateKeys: sorted, duplicate free *)
Definition dedup_sort (l : list key) : list key := fold_right insert_sorted [] l.
Definition opt_eqb (a b : option key) : bool :=
  match a, b with
  | None, None => true
  | Some x, Some y => N.eqb x y
  | _, _ => false
  end.
Definition len {A} (l : list A) : Z := Z.of_nat (length l).
Definition many {A} (l : list A) : bool := match l with _ :: _ :: _ => true | _ => false end.

(* ---- the store's lock table for S ---- *)
(* mocktikv pessimisticLockMutation: write unless an own lock with for-update ts >= f exists *)
Definition put_pess (f : ts) (k : key) (s : list slock) : list slock :=
  match findk k s with
  | Some Prew => s
  | Some (Pess f') => if f' <? f then (k, Pess f) :: delk k s else s
  | None => (k, Pess f) :: s
  end.
Definition put_prew (k : key) (s : list slock) : list slock := (k, Prew) :: delk k s.

(* what one request of a task removes: PessimisticRollback removes a pessimistic lock whose
   for-update ts is <= the request's; BatchRollback removes any lock; Commit removes a prewrite lock *)
Definition releases (t : task) (l : slock) : bool :=
  match t with
  | TPessRb ks f => match snd l with Pess f' => memk (fst l) ks && (f' <=? f) | Prew => false end
  | TCleanup ks => memk (fst l) ks
  | TCommitSec ks => match snd l with Prew => memk (fst l) ks | Pess _ => false end
  end.
Definition run_task (t : task) (s : list slock) : list slock :=
  filter (fun l => negb (releases t l)) s.
Fixpoint remove_nth {A} (n : nat) (l : list A) : list A :=
  match n, l with
  | _, [] => []
  | O, _ :: r => r
  | S m, x :: r => x :: remove_nth m r
  end.

(* ---- aggressive locking ---- *)
Definition agg_start (s : st) : st :=
  match agg s with
  | Some _ => s                                    (* panics: nothing changed *)
  | None => set_agg (Some (mkA [] [] 0 false false None None)) s
  end.

(* cleanupAggressiveLockingRedundantLocks *)
Definition cleanup_redundant (a : actx) (s : st) : st :=
  match prev a with
  | [] => s
  | _ => add_task (TPessRb (keys_of (prev a)) (N.max (fu s) (amaxc a)))
                  (set_cnt (cnt s - len (prev a))%Z s)
  end.

Definition agg_retry (s : st) : st :=
  match agg s with
  | None => s
  | Some a =>
    let s1 := cleanup_redundant a s in
    let s2 := if aprim a then reset_primary true s1 else s1 in
    set_agg (Some (mkA [] (cur a) (amaxc a) false (aprim a || alastprim a) None (apk a))) s2
  end.

Definition agg_cancel (s : st) : st :=
  match agg s with
  | None => s
  | Some a =>
    let s1 := cleanup_redundant a s in
    let s2 := if aprim a || alastprim a then reset_primary false s1 else s1 in
    let s3 := match cur a with
              | [] => s2
              | _ => add_task (TPessRb (keys_of (cur a)) (N.max (fu s2) (amaxc a)))
                              (set_cnt (cnt s2 - len (cur a))%Z s2)
              end in
    set_agg None s3
  end.

Definition agg_done (s : st) : st :=
  match agg s with
  | None => s
  | Some a =>
    (* no key became the primary in the last attempt: stop the keep-alive started for an earlier one *)
    let s0 := if alastprim a && negb (aprim a) then ka_reset s else s in
    let s1 := cleanup_redundant a s0 in
    (* UpdateFlags(key, SetKeyLocked, DelNeedCheckExists, LockedValue(Not)Exists) for every current key *)
    let nx := keys_of (filter (fun p => (e_ce (snd p) || e_rv (snd p)) && negb (e_ex (snd p))) (cur a)) in
    set_fnx (minus (fnx s1) (keys_of (cur a)) ++ nx)
      (set_presume (minus (presume s1) (keys_of (cur a)))
        (set_agg None (set_cmaxc (N.max (cmaxc s1) (amaxc a)) (set_flags (flags s1 ++ keys_of (cur a)) s1))))
  end.

(* trySkipLockingOnRetry *)
Definition try_skip (e : entry) (rv ce : bool) : option entry :=
  let ok := if negb (e_lwc e =? 0) then true
            else negb ((negb (e_rv e) && rv) || (negb rv && negb (e_ce e) && ce)) in
  if ok then Some (mkE (e_rv e && rv) (e_ce e && ce) 0 (if ce then e_ex e else true)) else None.

(* filterAggressiveLockedKeys: (context, keys that still need a request, error) *)
Fixpoint filter_agg (a : actx) (rv ce : bool) (f : ts) (expired canskip : bool) (ks : list key)
  : actx * list key * bool :=
  match ks with
  | [] => (a, [], false)
  | k :: r =>
    match findk k (prev a) with
    | Some e =>
      if f <? e_lwc e then (a, [], true)
      else
        match (if canskip then (if expired then None else try_skip e rv ce) else None) with
        | Some e' =>
          let a1 := a_prev (delk k (prev a)) a in
          filter_agg (a_cur ((k, e') :: delk k (cur a1)) a1) rv ce f expired canskip r
        | None =>
          (* the key is requested again; it stays in the previous-attempt map until that succeeds *)
          let '(a2, ks', err) := filter_agg a rv ce f expired canskip r in (a2, k :: ks', err)
        end
    | None =>
      let '(a2, ks', err) := filter_agg a rv ce f expired canskip r in (a2, k :: ks', err)
    end
  end.

(* selectPrimaryForPessimisticLock (keys sorted, non-empty) *)
Definition select_primary (keys : list key) (s : st) : st :=
  let hd := match keys with k :: _ => Some k | [] => None end in
  match agg s with
  | Some a =>
    let pk := match alastpk a with
              | Some p => if memk p keys then Some p else hd
              | None => hd
              end in
    set_agg (Some (a_prim true pk a)) (set_primary pk s)
  | None => set_primary hd s
  end.

(* ---- LockKeys ---- *)
Record lock_out := mkLO {
  lo_expired : bool;         (* mayAggressiveLockingLastLockedKeysExpire *)
  lo_locked : list key;      (* keys the store locked (or re-locked) during the call *)
  lo_absent : list key;      (* keys reported as not existing *)
  lo_lwc : ts;               (* LockedWithConflictTS of a force-lock reply, 0 = none *)
  lo_res : option fail }.    (* None = the call succeeded *)

Definition in_cur (s : st) (k : key) : bool :=
  match agg s with Some a => memk k (keys_of (cur a)) | None => false end.
Definition in_prev (s : st) (k : key) : bool :=
  match agg s with Some a => memk k (keys_of (prev a)) | None => false end.
(* !locked || isInLastAggressiveLockingStage *)
Definition need_lock (s : st) (k : key) : bool :=
  negb (in_cur s k) && (in_prev s k || negb (memk k (flags s))).

(* the pre-loop of lockKeys: a key that is already locked, still flagged NeedCheckExists and known to exist makes the
   call return ErrKeyExist before anything else happens *)
Definition entry_of (s : st) (k : key) : option entry :=
  match agg s with
  | Some a => match findk k (cur a) with Some e => Some e | None => findk k (prev a) end
  | None => None
  end.
Definition early_exists (s : st) (ks : list key) : bool :=
  pess s &&
  existsb (fun k =>
    memk k (presume s) &&
    match entry_of s k with
    | Some e => e_ex e
    | None => memk k (flags s) && negb (memk k (fnx s))
    end) ks.

(* exitAggressiveLockingIfInapplicable *)
Definition exit_agg (ks : list key) (s : st) : st :=
  match agg s with
  | Some _ => if many ks then agg_done s else s
  | None => s
  end.

(* the final loop of lockKeys: flag the keys / record them in currentLockedKeys *)
Definition kept (loie : bool) (absent rk : list key) : list key :=
  if loie then minus rk absent else rk.
(* Value.Exists recorded for a key by the final loop: only a request answered with values (return-values,
   check-existence or a conflict reply) says anything; without it the entry's zero value reads "not exists" *)
Definition ex_of (hasvals rv ce : bool) (lwc : ts) (absent : list key) (k : key) : bool :=
  hasvals && (rv || ce || negb (lwc =? 0)) && negb (memk k absent).
Definition finish_lock (rk : list key) (rv ce loie : bool) (absent : list key) (lwc : ts) (hasvals : bool) (s : st) : st :=
  let kp := kept loie absent rk in
  let s1 := match agg s with
            | Some a =>
              set_agg (Some (a_prev (fold_left (fun c k => delk k c) kp (prev a))
                                    (a_cur (fold_left (fun c k => (k, mkE rv ce lwc (ex_of hasvals rv ce lwc absent k)) :: delk k c) kp (cur a)) a))) s
            | None =>
              (* UpdateFlags(key, SetKeyLocked, DelNeedCheckExists, LockedValue(Not)Exists) *)
              let nx := filter (fun k => hasvals && (rv || ce) && memk k absent) kp in
              set_fnx (minus (fnx s) kp ++ nx) (set_presume (minus (presume s) kp) (set_flags (flags s ++ kp) s))
            end in
  set_cnt (cnt s1 + len kp)%Z s1.

(* sanitised store outcome (store contract) *)
Definition eff_lwc (s : st) (rk : list key) (o : lock_out) : ts :=
  match agg s, rk with Some _, [_] => lo_lwc o | _, _ => 0 end.
Definition hard_single (rk : list key) (o : lock_out) : bool :=
  negb (many rk) && match lo_res o with Some e => negb (may_be_locked e) | None => false end.
Definition eff_locked (rk : list key) (loie : bool) (o : lock_out) : list key :=
  if hard_single rk o then []
  else filter (fun k => memk k rk && negb (loie && memk k (lo_absent o))) (lo_locked o).

Definition prim_batch_ok (rk : list key) (loie : bool) (o : lock_out) (s : st) : bool :=
  match primary s with
  | Some p => memk p rk && match lo_res o with None => true | Some _ => memk p (eff_locked rk loie o) end
  | None => false
  end.

(* the request and everything after it (bookkeeping of keys; the keep-alive is added by [lock_rpc]) *)
Definition lock_rpc_core (all rk : list key) (assigned rv ce loie : bool) (f : ts) (o : lock_out) (s : st) : st :=
  let lwc := eff_lwc s rk o in
  let lf := N.max f lwc in
  let s1 := set_store (fold_right (put_pess lf) (store s) (eff_locked rk loie o)) s in
  let s2 := match agg s1 with
            | Some a => set_agg (Some (a_maxc (N.max (amaxc a) lwc) a)) s1
            | None => s1
            end in
  match lo_res o with
  | Some e =>
    let s3 := set_presume (minus (presume s2) rk) s2 in
    let s4 := if many rk || may_be_locked e then
                let s5 := add_task (TPessRb all lf) (set_cnt (cnt s3 - (len all - len rk))%Z s3) in
                match agg s5 with
                | Some a => set_agg (Some (a_cur (filter (fun p => negb (memk (fst p) all)) (cur a)) a)) s5
                | None => s5
                end
              else s3 in
    if assigned then set_primary None s4 else s4          (* resetPrimary(false) *)
  | None =>
    let s3 := if assigned && loie then                    (* unsetPrimaryKeyIfNeeded *)
                match primary s2 with
                | Some p => if memk p (lo_absent o) then set_primary None s2 else s2
                | None => s2
                end
              else s2 in
    finish_lock rk rv ce loie (lo_absent o) lwc true s3
  end.

(* the keep-alive across the request: ttlManager.run when the batch holding the primary was answered
   without a key error (no-op unless uninitialised); reset by resetPrimary(false) on a failing call that
   had assigned the primary, and by unsetPrimaryKeyIfNeeded *)
Definition lock_rpc_ka (rk : list key) (assigned loie : bool) (o : lock_out) (s : st) : kast :=
  let k1 := if prim_batch_ok rk loie o s then krun (primary s) (ka s) else ka s in
  match lo_res o with
  | Some _ => if assigned then kreset k1 else k1
  | None => if assigned && loie then
              match primary s with
              | Some p => if memk p (lo_absent o) then kreset k1 else k1
              | None => k1
              end
            else k1
  end.

Definition lock_rpc (all rk : list key) (assigned rv ce loie : bool) (f : ts) (o : lock_out) (s : st) : st :=
  set_ka (lock_rpc_ka rk assigned loie o s) (lock_rpc_core all rk assigned rv ce loie f o s).

(* pessimistic branch: committer, primary, for-update ts, aggressive filter, request *)
Definition lock_pess (keys : list key) (rv ce loie : bool) (f : ts) (o : lock_out) (s : st) : st * list key :=
  let s2 := set_committer true s in
  let assigned := match primary s2 with None => true | Some _ => false end in
  let s3 := if assigned then select_primary keys s2 else s2 in
  let s4 := set_fu f s3 in
  match agg s4 with
  | Some a =>
    let canskip := negb (aprim a) || opt_eqb (alastpk a) (apk a) in
    let '(a', rk, err) := filter_agg a rv ce f (lo_expired o) canskip keys in
    let s5 := set_agg (Some a') s4 in
    if err then (s5, [])
    else
      (* resetTTLManagerForAggressiveLockingMode(hasNewLockToAcquire, assignedPrimary) *)
      let s6 := if negb (match rk with [] => true | _ => false end) && assigned && negb (opt_eqb (apk a') (alastpk a'))
                then ka_reset s5 else s5 in
      match rk with
      | [] => (s6, [])
      | _ => (lock_rpc keys rk assigned rv ce loie f o s6, rk)
      end
  | None => (lock_rpc keys keys assigned rv ce loie f o s4, keys)
  end.

(* lockKeys; second component = keys sent to the store *)
Definition lock_keys_full (ks : list key) (rv ce loie : bool) (f : ts) (o : lock_out) (s : st) : st * list key :=
  let s1 := exit_agg ks s in
  if negb (pess s1) && (match agg s1 with Some _ => true | None => false end) then (s1, [])
  else if early_exists s1 ks then (s1, [])
  else
    let keys0 := filter (need_lock s1) ks in
    match keys0 with
    | [] => (s1, [])
    | _ =>
      if loie && negb rv then (s1, [])
      else if loie && (negb (committer s1) || match primary s1 with None => true | Some _ => false end) && many keys0
      then (s1, [])
      else
        let keys := dedup_sort keys0 in
        if pess s1 && (0 <? f) then lock_pess keys rv ce loie f o s1
        else (finish_lock keys rv ce loie [] 0 false s1, [])
    end.
Definition lock_keys ks rv ce loie f o s : st := fst (lock_keys_full ks rv ce loie f o s).

(* ---- Rollback ---- *)
Definition pending (s : st) : bool :=
  match agg s with Some a => match cur a with [] => false | _ => true end | None => false end.

Definition rollback_body (s : st) : st :=
  let s1 := if pess s && committer s then
              ka_close (if (cnt s =? 0)%Z then s
                        else set_store (run_task (TPessRb (flags s) (N.max (fu s) (cmaxc s))) (store s)) s)
            else s in
  set_valid false s1.

(* Rollback whose synchronous PessimisticRollback did not complete for the keys [lost] (request lost, retry budget
   exhausted; Rollback only logs the error): the part that completed is released, the rest is a release that stays
   unfinished *)
Definition rollback_body_l (lost : list key) (s : st) : st :=
  let s1 := if pess s && committer s then
              ka_close (if (cnt s =? 0)%Z then s
                        else
                          let thr := N.max (fu s) (cmaxc s) in
                          let s' := set_store (run_task (TPessRb (minus (flags s) lost) thr) (store s)) s in
                          match filter (fun k => memk k lost) (flags s) with
                          | [] => s'
                          | rest => add_task (TPessRb rest thr) s'
                          end)
            else s in
  set_valid false s1.

Definition rollback_l (lost : list key) (s : st) : st :=
  if negb (valid s) then s
  else if pending s then set_valid false s
  else rollback_body_l lost (agg_cancel s).

Definition rollback (s : st) : st :=
  if negb (valid s) then s
  else if pending s then set_valid false s       (* "aggressive locking is pending": closes, no clean-up *)
  else rollback_body (agg_cancel s).

(* ---- Commit ---- *)
Inductive cmode := M2PC | MAsync | M1PC.
Inductive cres := COk | CPrewriteFail | CCommitFail.
Record commit_out := mkCO {
  co_mode : cmode;              (* protocol in effect after fall-backs *)
  co_prewritten : list key;     (* keys the store prewrote before the failure *)
  co_sync : list key;           (* keys committed before Commit returned *)
  co_unnecessary : list key;    (* keys whose buffer entry the transaction's KVFilter declares unnecessary *)
  co_res : cres }.

(* initKeysAndMutations: a flagged key without value is an Op_Lock mutation; a buffered value
   (empty = Delete, or not) that the filter declares unnecessary is kept, as Op_Lock, only if the
   key is flagged (before the fix of finding "kvfilter_drops_locked_delete" the Delete case was
   skipped even for a flagged key) *)
Definition keep_mut (unn : list key) (s : st) (k : key) : bool :=
  match findk k (written s) with
  | None => true
  | Some _ => negb (memk k unn) || memk k (flags s)
  end.
Definition mutations (unn : list key) (s : st) : list key :=
  dedup_sort (filter (keep_mut unn s) (flags s ++ keys_of (written s))).
(* the committer's primary key is among the mutations (otherwise no batch is the primary batch) *)
Definition primary_in (muts : list key) (s : st) : bool :=
  match primary s with Some p => memk p muts | None => true end.

Definition commit_body (o : commit_out) (s : st) : st :=
  let s0 := ka_close (set_valid false s) in        (* defer txn.close(); defer committer.close() *)
  let muts := mutations (co_unnecessary o) s in
  match muts with
  | [] => s0
  | _ =>
    let s1 := set_committer true s0 in
    match co_mode o with
    | M1PC =>
      match co_res o with
      | COk => set_store (filter (fun l => negb (memk (fst l) muts)) (store s1)) s1
      | _ => if pess s1 then add_task (TPessRb muts (N.max (fu s1) (cmaxc s1))) s1 else s1
      end
    | _ =>
      let pw := match co_res o with
                | CPrewriteFail => filter (fun k => memk k muts) (co_prewritten o)
                | _ => muts
                end in
      let s2 := set_store (fold_right put_prew (store s1) pw) s1 in
      match co_res o with
      | COk =>
        match co_mode o with
        | MAsync => add_task (TCommitSec muts) s2
        | _ =>
          let s3 := add_task (TCommitSec muts) (set_store (run_task (TCommitSec (co_sync o)) (store s2)) s2) in
          (* no primary batch: every commit batch runs in the background, c.mu.committed stays false,
             execute's deferred block also spawns the clean-up (the two race) *)
          if primary_in muts s then s3 else add_task (TCleanup muts) s3
        end
      | _ => add_task (TCleanup muts) s2
      end
    end
  end.

Definition commit (o : commit_out) (s : st) : st :=
  if negb (valid s) then s
  else if pending s then set_valid false s
  else commit_body o (agg_cancel s).

(* ---- events ---- *)
Inductive ev :=
| ESet (k : key)                      (* Set (non-empty value) *)
| EDel (k : key)                      (* Delete (empty value) *)
| EInsert (k : key)                   (* SetWithFlags(.., SetPresumeKeyNotExists) *)
| EMark (k : key)                     (* the flags of an insert whose value was discarded again (staging clean-up) *)
| EUnmark (k : key)                   (* the staged insert is reverted (the call failed) *)
| ELock (ks : list key) (rv ce loie : bool) (f : ts) (o : lock_out)
| EAggStart | EAggRetry | EAggCancel | EAggDone
| ECommit (o : commit_out)
| ERollback
| ERollbackLost (lost : list key)    (* Rollback whose synchronous release of [lost] never completed *)
| ERun (n : nat)                      (* the n-th pending background task runs to completion *)
| ERunSome (n : nat) (ks : list key). (* ... finishes the batches holding [ks] only (region error / re-batching: the rest is retried later) *)

Definition run_nth (n : nat) (s : st) : st :=
  match nth_error (tasks s) n with
  | Some t => set_tasks (remove_nth n (tasks s)) (set_store (run_task t (store s)) s)
  | None => s
  end.

(* the part of a task that concerns the keys [ks] *)
Definition restrict_task (ks : list key) (t : task) : task :=
  let r := filter (fun k => memk k ks) in
  match t with
  | TPessRb l f => TPessRb (r l) f
  | TCleanup l => TCleanup (r l)
  | TCommitSec l => TCommitSec (r l)
  end.
Definition run_some (n : nat) (ks : list key) (s : st) : st :=
  match nth_error (tasks s) n with
  | Some t => set_store (run_task (restrict_task ks t) (store s)) s
  | None => s
  end.

Definition step (s : st) (e : ev) : st :=
  match e with
  | ESet k => set_written ((k, false) :: written s) s
  | EDel k => set_written ((k, true) :: written s) s
  | EInsert k => set_presume (k :: presume s) (set_written ((k, false) :: written s) s)
  | EMark k => set_presume (k :: presume s) s
  | EUnmark k =>
    (* reverting the staged insert: the non-persistent key flags survive only if the key still holds an older buffered value *)
    match findk k (written s) with Some _ => s | None => set_presume (minus (presume s) [k]) s end
  | ELock ks rv ce loie f o => lock_keys ks rv ce loie f o s
  | EAggStart => agg_start s
  | EAggRetry => agg_retry s
  | EAggCancel => agg_cancel s
  | EAggDone => agg_done s
  | ECommit o => commit o s
  | ERollback => rollback s
  | ERollbackLost lost => rollback_l lost s
  | ERun n => run_nth n s
  | ERunSome n ks => run_some n ks s
  end.

Definition run (s : st) (evs : list ev) : st := fold_left step evs s.

(* drain: run the first pending task until none is left *)
Fixpoint drain (fuel : nat) (s : st) : st :=
  match fuel with
  | O => s
  | S m => match tasks s with [] => s | _ => drain m (run_nth 0 s) end
  end.
