(* Locks/ProofsKA.v — the keep-alive (ttlManager) component: whenever it is running it is bound to the
   current primary, except inside an aggressive-locking retry window (primary given up by
   RetryAggressiveLocking, keep-alive deliberately kept); it is not running once the transaction ended *)
From Coq Require Import List NArith ZArith Bool Lia.
From Verif Require Import Locks.Model Locks.ProofsBase Locks.ProofsInv Locks.ProofsCommit.
Import ListNotations.
Open Scope N_scope.

Arguments N.max : simpl never.
Arguments N.eqb : simpl never.
Arguments N.ltb : simpl never.
Arguments N.leb : simpl never.
Arguments dedup_sort : simpl never.
Arguments len : simpl never.

(* the caller never passes a for-update ts below a conflict ts it was told (the code calls the
   violation "an unreachable path"; it would keep a tentative primary) *)
Definition ts_contract (s : st) (e : ev) : Prop :=
  match e with
  | ELock ks rv ce loie f o =>
    forall a k e', agg (exit_agg ks s) = Some a -> findk k (prev a) = Some e' -> e_lwc e' <= f
  | _ => True
  end.
Fixpoint wf_run_ts (s : st) (evs : list ev) : Prop :=
  match evs with [] => True | e :: r => (wf_ev s e /\ ts_contract s e) /\ wf_run_ts (step s e) r end.

Definition aflags (a : actx) := (aprim a, alastprim a, apk a, alastpk a).
Definition view := (kast * option key * bool * bool * bool * option (bool * bool * option key * option key))%type.
Definition kv (s : st) : view := (ka s, primary s, valid s, pess s, committer s, option_map aflags (agg s)).

Definition ka_ok_v (v : view) : Prop :=
  let '(k, p, vl, pe, co, ag) := v in
  (match k with
   | KRunning q => pe = true /\ co = true /\
       match p with
       | Some p' => p' = q
       | None => match ag with
                 | Some (ap, alp, _, alpk) => ap = false /\ alp = true /\ (alpk = Some q \/ alpk = None)
                 | None => False
                 end
       end
   | _ => True
   end) /\
  (vl = false -> match k with KRunning _ => False | _ => True end) /\
  (match ag with
   | Some (ap, _, apk_, _) => (ap = true -> forall p', p = Some p' -> apk_ = Some p') /\ (ap = false -> apk_ = None)
   | None => True
   end).
Definition ka_ok (s : st) : Prop := ka_ok_v (kv s).

(* bound to the current primary, outside a retry window *)
Definition retry_window (s : st) : Prop :=
  primary s = None /\ exists a, agg s = Some a /\ aprim a = false /\ alastprim a = true.

Lemma ka_ok_meaning s :
  ka_ok s ->
  (forall k, ka s = KRunning k -> primary s = Some k \/ retry_window s) /\
  (valid s = false -> forall k, ka s <> KRunning k).
Proof.
  unfold ka_ok, ka_ok_v, kv, retry_window. destruct (ka s) as [|q|]; intros (H1 & H2 & H3); split; try (intros; discriminate).
  - intros k E. inversion E; subst q. destruct H1 as (_ & _ & H1). destruct (primary s) as [p|]; [left; congruence|right].
    split; auto. destruct (agg s) as [a|]; simpl in H1; [|tauto]. exists a. tauto.
  - intros Hv k E. apply H2. auto.
Qed.

Ltac kcrush :=
  unfold ka_ok, ka_ok_v, kv in *; simpl in *;
  repeat match goal with
         | |- context [match ?x with _ => _ end] => destruct x eqn:?; simpl in *
         | H : context [match ?x with _ => _ end] |- _ => destruct x eqn:?; simpl in *
         end;
  intuition (try congruence; try discriminate).

(* ---- views of the building blocks ---- *)
Lemma kv_cleanup a s : kv (cleanup_redundant a s) = kv s.
Proof. unfold cleanup_redundant. destruct (prev a); reflexivity. Qed.

Lemma filter_agg_flags a rv ce f ex cs ks a' rk err :
  filter_agg a rv ce f ex cs ks = (a', rk, err) -> aflags a' = aflags a.
Proof.
  revert a a' rk err. induction ks as [|x r IH]; simpl; intros a a' rk err H.
  - inversion H; auto.
  - destruct (findk x (prev a)) as [e|].
    + destruct (f <? e_lwc e); [inversion H; auto|].
      destruct (if cs then if ex then None else try_skip e rv ce else None).
      * apply IH in H. rewrite H. reflexivity.
      * destruct (filter_agg a rv ce f ex cs r) as [[a2 ks'] err'] eqn:E. inversion H; subst. eapply IH; eauto.
    + destruct (filter_agg a rv ce f ex cs r) as [[a2 ks'] err'] eqn:E. inversion H; subst. eapply IH; eauto.
Qed.

Lemma filter_agg_noskip a rv ce f ex ks a' rk :
  filter_agg a rv ce f ex false ks = (a', rk, false) -> rk = ks.
Proof.
  revert a a' rk. induction ks as [|x r IH]; simpl; intros a a' rk H.
  - inversion H; auto.
  - destruct (findk x (prev a)) as [e|].
    + destruct (f <? e_lwc e); [inversion H|].
      destruct (filter_agg a rv ce f ex false r) as [[a2 ks'] err'] eqn:E. inversion H; subst. f_equal. eapply IH; eauto.
    + destruct (filter_agg a rv ce f ex false r) as [[a2 ks'] err'] eqn:E. inversion H; subst. f_equal. eapply IH; eauto.
Qed.

Lemma filter_agg_noerr a rv ce f ex cs ks a' rk err :
  (forall k e, findk k (prev a) = Some e -> e_lwc e <= f) ->
  filter_agg a rv ce f ex cs ks = (a', rk, err) -> err = false.
Proof.
  revert a a' rk err. induction ks as [|x r IH]; simpl; intros a a' rk err Hts H.
  - inversion H; auto.
  - destruct (findk x (prev a)) as [e|] eqn:Ef.
    + destruct (f <? e_lwc e) eqn:El; [apply N.ltb_lt in El; specialize (Hts _ _ Ef); lia|].
      destruct (if cs then if ex then None else try_skip e rv ce else None).
      * eapply IH; [|exact H]. simpl. intros k ee Hk. destruct (N.eq_dec x k) as [->|Hne].
        -- rewrite findk_delk_eq in Hk. discriminate.
        -- rewrite findk_delk_ne in Hk; eauto.
      * destruct (filter_agg a rv ce f ex cs r) as [[a2 ks'] err'] eqn:E. inversion H; subst. eapply IH; eauto.
    + destruct (filter_agg a rv ce f ex cs r) as [[a2 ks'] err'] eqn:E. inversion H; subst. eapply IH; eauto.
Qed.

Lemma kv_finish_lock rk rv ce loie absent lwc hv s : kv (finish_lock rk rv ce loie absent lwc hv s) = kv s.
Proof.
  unfold finish_lock, kv. destruct s as [a1 a2 a3 a4 a5 ag a7 a8 a9 a10 a11 a12 a13 a14 a15]. cbn [agg]. destruct ag as [a|]; reflexivity.
Qed.

Definition primary_after (assigned loie : bool) (o : lock_out) (p : option key) : option key :=
  match lo_res o with
  | Some _ => if assigned then None else p
  | None => if assigned && loie then
              match p with Some q => if memk q (lo_absent o) then None else Some q | None => None end
            else p
  end.

Lemma kv_lock_rpc_core all rk assigned rv ce loie f o s :
  kv (lock_rpc_core all rk assigned rv ce loie f o s) =
  (ka s, primary_after assigned loie o (primary s), valid s, pess s, committer s, option_map aflags (agg s)).
Proof.
  unfold lock_rpc_core, primary_after. destruct (lo_res o) as [e|].
  - destruct s as [a1 a2 a3 a4 a5 ag a7 a8 a9 a10 a11 a12 a13 a14 a15]. unfold kv. cbn [agg set_store].
    destruct assigned; destruct (many rk || may_be_locked e); destruct ag as [a|]; reflexivity.
  - rewrite kv_finish_lock.
    destruct s as [a1 a2 a3 a4 a5 ag a7 a8 a9 a10 a11 a12 a13 a14 a15]. unfold kv. cbn [agg set_store].
    destruct ag as [a|]; destruct a8 as [q|]; destruct (assigned && loie); simpl; try destruct (memk q (lo_absent o)); reflexivity.
Qed.

Lemma dedup_sort_nonempty l : l <> [] -> dedup_sort l <> [].
Proof.
  unfold dedup_sort. destruct l as [|x r]; [congruence|]. intros _. simpl.
  destruct (fold_right insert_sorted [] r); simpl; [discriminate|].
  destruct (x <? n); [discriminate|]. destruct (x =? n); discriminate.
Qed.

(* ---- view-level transitions ---- *)
Definition v_start (v : view) : view :=
  let '(k, p, vl, pe, co, ag) := v in
  match ag with Some _ => v | None => (k, p, vl, pe, co, Some (false, false, None, None)) end.
Definition v_retry (v : view) : view :=
  let '(k, p, vl, pe, co, ag) := v in
  match ag with
  | None => v
  | Some (ap, alp, apk_, alpk) => (k, (if ap then None else p), vl, pe, co, Some (false, ap || alp, None, apk_))
  end.
Definition v_cancel (v : view) : view :=
  let '(k, p, vl, pe, co, ag) := v in
  match ag with
  | None => v
  | Some (ap, alp, _, _) => if ap || alp then (kreset k, None, vl, pe, co, None) else (k, p, vl, pe, co, None)
  end.
Definition v_done (v : view) : view :=
  let '(k, p, vl, pe, co, ag) := v in
  match ag with
  | None => v
  | Some (ap, alp, _, _) => ((if alp && negb ap then kreset k else k), p, vl, pe, co, None)
  end.

Ltac kv_eq :=
  intros;
  match goal with s : st |- _ => destruct s end;
  try (match goal with ag : option actx |- _ => destruct ag as [[? ? ? ? ? ? ?]|] end);
  unfold kv, aflags; simpl;
  repeat match goal with
         | |- context [?x || _] => is_var x; destruct x; simpl
         | |- context [?x && _] => is_var x; destruct x; simpl
         | |- context [negb ?x] => is_var x; destruct x; simpl
         | |- context [match ?x with _ => _ end] => is_var x; destruct x; simpl
         | |- context [if ?x then _ else _] => is_var x; destruct x; simpl
         end; try reflexivity.

Lemma kv_agg_start s : kv (agg_start s) = v_start (kv s).
Proof. unfold agg_start, v_start. kv_eq. Qed.

Lemma kv_agg_retry s : kv (agg_retry s) = v_retry (kv s).
Proof. unfold agg_retry, v_retry, cleanup_redundant, reset_primary. kv_eq. Qed.

Lemma kv_agg_cancel s : kv (agg_cancel s) = v_cancel (kv s).
Proof. unfold agg_cancel, v_cancel, cleanup_redundant, reset_primary, ka_reset, kreset. kv_eq. Qed.

Lemma kv_agg_done s : kv (agg_done s) = v_done (kv s).
Proof. unfold agg_done, v_done, cleanup_redundant, ka_reset, kreset. kv_eq. Qed.

Ltac vcrush :=
  unfold ka_ok_v; intros;
  repeat match goal with
         | v : view |- _ => destruct v
         | p : (_ * _)%type |- _ => destruct p
         | o : option _ |- _ => destruct o
         | b : bool |- _ => destruct b
         | k : kast |- _ => destruct k
         end; simpl in *; intuition (try congruence; try discriminate);
  repeat match goal with
         | H : forall p' : N, Some ?x = Some p' -> _ |- _ => specialize (H x eq_refl)
         end; subst; intuition (try congruence; try discriminate).

Lemma ok_start v : ka_ok_v v -> ka_ok_v (v_start v).
Proof. unfold v_start. vcrush. Qed.
Lemma ok_retry v : ka_ok_v v -> ka_ok_v (v_retry v).
Proof. unfold v_retry. vcrush. Qed.
Lemma ok_cancel v : ka_ok_v v -> ka_ok_v (v_cancel v).
Proof. unfold v_cancel, kreset. vcrush. Qed.
Lemma ok_done v : ka_ok_v v -> ka_ok_v (v_done v).
Proof. unfold v_done, kreset. vcrush. Qed.

(* ---- Rollback / Commit ---- *)
Lemma kv_rollback_body s :
  kv (rollback_body s) = ((if pess s && committer s then kclose (ka s) else ka s), primary s, false, pess s, committer s, option_map aflags (agg s)).
Proof.
  unfold rollback_body, ka_close, kclose. destruct s as [a1 a2 a3 a4 a5 ag a7 a8 a9 a10 a11 a12 a13 a14 a15]. unfold kv. simpl.
  destruct (a13 && a7); simpl; [|reflexivity]. destruct (a5 =? 0)%Z; simpl; destruct a14; reflexivity.
Qed.

Lemma ok_rollback_body s : ka_ok s -> ka_ok (rollback_body s).
Proof.
  unfold ka_ok. rewrite kv_rollback_body. unfold kv, kclose.
  destruct (ka s); destruct (primary s); destruct (valid s); destruct (pess s); destruct (committer s);
    destruct (option_map aflags (agg s)) as [[[[? ?] ?] ?]|]; simpl; unfold ka_ok_v; intuition (try congruence; try discriminate).
Qed.

Lemma ka_ok_rollback s : ka_ok s -> pending s = false -> ka_ok (rollback s).
Proof.
  intros H Hp. unfold rollback. destruct (valid s); simpl; auto. rewrite Hp.
  apply ok_rollback_body. unfold ka_ok. rewrite kv_agg_cancel. apply ok_cancel. exact H.
Qed.

Lemma kv_rollback_body_l lost s : kv (rollback_body_l lost s) = kv (rollback_body s).
Proof.
  unfold rollback_body_l, rollback_body, ka_close. destruct s as [a1 a2 a3 a4 a5 ag a7 a8 a9 a10 a11 a12 a13 a14 a15]. unfold kv. simpl.
  destruct (a13 && a7); simpl; [|reflexivity]. destruct (a5 =? 0)%Z; simpl; [destruct a14; reflexivity|].
  destruct (filter (fun k => memk k lost) a2); destruct a14; reflexivity.
Qed.

Lemma ka_ok_rollback_l lost s : ka_ok s -> pending s = false -> ka_ok (rollback_l lost s).
Proof.
  intros H Hp. unfold rollback_l. destruct (valid s); simpl; auto. rewrite Hp.
  unfold ka_ok. rewrite kv_rollback_body_l. apply ok_rollback_body. unfold ka_ok. rewrite kv_agg_cancel. apply ok_cancel. exact H.
Qed.

Lemma kv_commit_body0 o s :
  exists co, kv (commit_body0 o s) = (ka s, primary s, false, pess s, co, option_map aflags (agg s)) /\ (committer s = true -> co = true).
Proof.
  unfold commit_body0. destruct (mutations (co_unnecessary o) s).
  - exists (committer s). split; auto.
  - exists true. split; auto.
    destruct (co_mode o); destruct (co_res o); simpl; try reflexivity; try (destruct (pess s) eqn:Ep; unfold kv; simpl; rewrite ?Ep; reflexivity);
      try (match goal with |- context [primary_in ?m ?x] => destruct (primary_in m x) end; reflexivity).
Qed.

Lemma ok_commit_body o s : ka_ok s -> ka_ok (commit_body o s).
Proof.
  unfold ka_ok. intros H. rewrite commit_body_ka. destruct (kv_commit_body0 o s) as (co & E & Hco).
  assert (E' : kv (match ka s with KRunning _ => set_ka KClosed (commit_body0 o s) | _ => commit_body0 o s end)
               = (kclose (ka s), primary s, false, pess s, co, option_map aflags (agg s))).
  { unfold kv in *. destruct (ka s); simpl; inversion E; subst; try rewrite H1; reflexivity. }
  rewrite E'. unfold kv, kclose in *.
  destruct (ka s); destruct (primary s); destruct (valid s); destruct (pess s); destruct (committer s); destruct co;
    destruct (option_map aflags (agg s)) as [[[[? ?] ?] ?]|]; simpl in *; unfold ka_ok_v in *;
    try (specialize (Hco eq_refl)); intuition (try congruence; try discriminate).
Qed.

Lemma ka_ok_commit o s : ka_ok s -> pending s = false -> ka_ok (commit o s).
Proof.
  intros H Hp. unfold commit. destruct (valid s); simpl; auto. rewrite Hp.
  apply ok_commit_body. unfold ka_ok. rewrite kv_agg_cancel. apply ok_cancel. exact H.
Qed.

(* ---- LockKeys ---- *)
Lemma ok_exit_agg ks s : ka_ok s -> ka_ok (exit_agg ks s).
Proof.
  unfold exit_agg. destruct (agg s); auto. destruct (many ks); auto.
  unfold ka_ok. rewrite kv_agg_done. apply ok_done.
Qed.

Lemma opt_eqb_true a b : opt_eqb a b = true -> a = b.
Proof. destruct a, b; simpl; intros H; try discriminate; auto. apply N.eqb_eq in H. congruence. Qed.

Lemma kv_lock_rpc all rk assigned rv ce loie f o s :
  kv (lock_rpc all rk assigned rv ce loie f o s) =
  (lock_rpc_ka rk assigned loie o s, primary_after assigned loie o (primary s), valid s, pess s, committer s, option_map aflags (agg s)).
Proof.
  unfold lock_rpc. pose proof (kv_lock_rpc_core all rk assigned rv ce loie f o s) as H.
  unfold kv in *. simpl. inversion H. reflexivity.
Qed.

(* the keep-alive after the request, as a function of the one before it *)
Lemma lock_rpc_ka_cases rk assigned loie o s :
  let k' := lock_rpc_ka rk assigned loie o s in
  let p' := primary_after assigned loie o (primary s) in
  (forall q, k' = KRunning q -> p' = primary s /\ (ka s = KRunning q \/ (ka s = KUninit /\ primary s = Some q))) /\
  (assigned = false -> p' = primary s) /\ (p' = primary s \/ p' = None).
Proof.
  unfold lock_rpc_ka, primary_after, krun, kreset.
  destruct (prim_batch_ok rk loie o s); destruct (lo_res o); destruct assigned; destruct loie; simpl;
    destruct (ka s); destruct (primary s) as [pp|]; simpl; try destruct (memk pp (lo_absent o)); simpl;
    repeat split; intros; try discriminate; auto;
    match goal with H : KRunning _ = KRunning _ |- _ => inversion H; subst; auto end.
Qed.

Lemma ka_ok_lock_pess keys rv ce loie f o s :
  ka_ok s -> pess s = true -> valid s = true -> keys <> [] ->
  (forall a k e', agg s = Some a -> findk k (prev a) = Some e' -> e_lwc e' <= f) ->
  ka_ok (fst (lock_pess keys rv ce loie f o s)).
Proof.
  intros Hok Hp Hvl Hne Hts. destruct keys as [|k0 kr]; [congruence|]. unfold lock_pess.
  destruct s as [a1 a2 a3 a4 a5 ag a7 a8 a9 a10 a11 a12 a13 a14 a15]. simpl in Hp, Hvl. subst a13 a12.
  cbn [primary set_committer].
  destruct a8 as [p|].
  - (* the primary was chosen by an earlier call *)
    cbn [set_fu agg set_committer set_primary set_agg]. destruct ag as [a|].
    + destruct (filter_agg a rv ce f (lo_expired o) (negb (aprim a) || opt_eqb (alastpk a) (apk a)) (k0 :: kr)) as [[a' rk] err] eqn:Ef.
      pose proof (filter_agg_flags _ _ _ _ _ _ _ _ _ _ Ef) as Hfl.
      assert (err = false) by (eapply filter_agg_noerr; [|exact Ef]; intros; eapply Hts; simpl; eauto). subst err.
      rewrite andb_false_r. cbn [andb].
      assert (F1 : aprim a' = aprim a) by (unfold aflags in Hfl; congruence).
      assert (F2 : alastprim a' = alastprim a) by (unfold aflags in Hfl; congruence).
      assert (F3 : apk a' = apk a) by (unfold aflags in Hfl; congruence).
      assert (F4 : alastpk a' = alastpk a) by (unfold aflags in Hfl; congruence).
      assert (Hv5 : forall x, kv x = (a14, Some p, true, true, true, Some (aflags a)) -> ka_ok_v (kv x)).
      { intros x E. rewrite E. unfold ka_ok, kv in Hok. simpl in Hok. unfold ka_ok_v in *.
        unfold aflags in *; simpl in *. destruct a14; intuition (try congruence; try discriminate). }
      destruct rk as [|r0 rr]; cbn [fst].
      * apply Hv5. unfold kv, aflags in *. simpl. congruence.
      * unfold ka_ok. rewrite kv_lock_rpc.
        match goal with |- context [lock_rpc_ka ?r ?as_ ?l ?oo ?x] => destruct (lock_rpc_ka_cases r as_ l oo x) as (C1 & C2 & C3) end.
        cbv zeta in C1, C2, C3. simpl in C1, C2, C3. specialize (C2 eq_refl).
        simpl. rewrite C2. unfold aflags. rewrite ?F1, ?F2, ?F3, ?F4.
        unfold ka_ok, kv in Hok. simpl in Hok. unfold ka_ok_v in *.
        match goal with |- context [lock_rpc_ka ?r ?as_ ?l ?oo ?x] => destruct (lock_rpc_ka r as_ l oo x) as [|q|] eqn:Ek end;
          unfold aflags in *; simpl in *; try (intuition (try congruence; try discriminate); fail).
        destruct (C1 q eq_refl) as [_ [E|[E1 E2]]]; [subst a14|inversion E2; subst];
          intuition (try congruence; try discriminate).
    + cbn [fst]. unfold ka_ok. rewrite kv_lock_rpc.
      match goal with |- context [lock_rpc_ka ?r ?as_ ?l ?oo ?x] => destruct (lock_rpc_ka_cases r as_ l oo x) as (C1 & C2 & C3) end.
      cbv zeta in C1, C2, C3. simpl in C1, C2, C3. specialize (C2 eq_refl). simpl. rewrite C2.
      unfold ka_ok, kv in Hok. simpl in Hok. unfold ka_ok_v in *.
      match goal with |- context [lock_rpc_ka ?r ?as_ ?l ?oo ?x] => destruct (lock_rpc_ka r as_ l oo x) as [|q|] eqn:Ek end;
        try (intuition (try congruence; try discriminate); fail).
      destruct (C1 q eq_refl) as [_ [E|[E1 E2]]]; [subst a14|inversion E2; subst];
        intuition (try congruence; try discriminate).
  - (* this call chooses the primary *)
    unfold select_primary. destruct ag as [a|]; cbn [agg set_primary set_committer set_fu set_agg].
    + set (pk := match alastpk a with Some p => if memk p (k0 :: kr) then Some p else Some k0 | None => Some k0 end).
      assert (Hpk : exists q, pk = Some q) by (unfold pk; destruct (alastpk a) as [p|]; [destruct (memk p (k0 :: kr))|]; eauto).
      destruct Hpk as (q0 & Hq0).
      cbn [set_agg agg a_prim aprim alastpk apk].
      destruct (filter_agg (a_prim true pk a) rv ce f (lo_expired o) (negb true || opt_eqb (alastpk a) pk) (k0 :: kr)) as [[a' rk] err] eqn:Ef.
      pose proof (filter_agg_flags _ _ _ _ _ _ _ _ _ _ Ef) as Hfl.
      assert (err = false) by (eapply filter_agg_noerr; [|exact Ef]; intros; eapply Hts; simpl; eauto). subst err.
      assert (Hfl' : aflags a' = (true, alastprim a, pk, alastpk a)) by (rewrite Hfl; reflexivity).
      assert (G1 : aprim a' = true) by (unfold aflags in Hfl'; congruence).
      assert (G2 : alastprim a' = alastprim a) by (unfold aflags in Hfl'; congruence).
      assert (G3 : apk a' = pk) by (unfold aflags in Hfl'; congruence).
      assert (G4 : alastpk a' = alastpk a) by (unfold aflags in Hfl'; congruence).
      unfold ka_ok, kv in Hok. simpl in Hok. unfold ka_ok_v in Hok. destruct Hok as (K1 & K2 & K3).
      destruct rk as [|r0 rr]; cbn [fst]; cbv beta iota zeta; change (negb true) with false; change (negb false) with true; cbn [andb fst].
      * (* every key was taken over without a request: the primary is the one of the previous attempt *)
        assert (Hcs : opt_eqb (alastpk a) pk = true).
        { revert Ef. destruct (opt_eqb (alastpk a) pk); auto. intros Ef. cbn [negb orb] in Ef. apply filter_agg_noskip in Ef. discriminate. }
        apply opt_eqb_true in Hcs.
        unfold ka_ok, kv. simpl. unfold aflags. rewrite ?G1, ?G2, ?G3, ?G4. unfold ka_ok_v. rewrite Hq0 in *.
        unfold aflags in K1, K3. simpl in K1, K3.
        destruct a14; repeat split; intros; try discriminate; auto; try congruence.
        destruct K1 as (_ & _ & _ & _ & [E|E]); congruence.
      * unfold ka_ok. rewrite kv_lock_rpc. rewrite G3, G4.
        match goal with |- context [lock_rpc_ka ?r ?as_ ?l ?oo ?x] => destruct (lock_rpc_ka_cases r as_ l oo x) as (C1 & C2 & C3) end.
        cbv zeta in C1, C2, C3.
        assert (E6 : forall x, (x = ka_reset (set_agg (Some a') (mkS a1 a2 a3 a4 a5 (Some (a_prim true pk a)) true pk f a10 a11 true true a14 a15)) \/
                              x = set_agg (Some a') (mkS a1 a2 a3 a4 a5 (Some (a_prim true pk a)) true pk f a10 a11 true true a14 a15)) ->
                     primary x = pk /\ valid x = true /\ pess x = true /\ committer x = true /\ agg x = Some a' /\
                     (ka x = a14 \/ ka x = kreset a14)).
        { intros x [E|E]; subst x; unfold ka_reset, kreset; simpl; destruct a14; simpl; auto 10. }
        match goal with |- context [lock_rpc_ka _ _ _ _ ?x] =>
          assert (E7 : primary x = pk /\ valid x = true /\ pess x = true /\ committer x = true /\ agg x = Some a' /\ (ka x = a14 \/ ka x = kreset a14))
            by (apply E6; destruct (negb (opt_eqb pk (alastpk a))); [left|right]; reflexivity);
          assert (E8 : opt_eqb pk (alastpk a) = false -> ka x = kreset a14)
            by (intros E; rewrite E; simpl; unfold ka_reset, kreset; simpl; destruct a14; reflexivity);
          destruct E7 as (P1 & P2 & P3 & P4 & P5 & P6); rewrite P1, P2, P3, P4, P5 in *;
          destruct (lock_rpc_ka (r0 :: rr) true loie o x) as [|q|] eqn:Ek
        end; simpl; unfold aflags; rewrite ?G1, ?G2, ?G3, ?G4; unfold ka_ok_v; rewrite Hq0 in *;
          destruct C3 as [C3|C3]; rewrite C3;
          repeat split; intros; try discriminate; auto; try congruence.
        all: try (exfalso; destruct (C1 q eq_refl) as [C1' _]; congruence).
        destruct (C1 q eq_refl) as [_ [E|[E1 E2]]]; [|congruence].
        destruct (opt_eqb (Some q0) (alastpk a)) eqn:Eo.
        -- apply opt_eqb_true in Eo. destruct P6 as [P6|P6]; rewrite P6 in E; [|unfold kreset in E; destruct a14; discriminate].
           subst a14. unfold aflags in K1. simpl in K1. destruct K1 as (_ & _ & _ & _ & [E'|E']); congruence.
        -- rewrite (E8 eq_refl) in E. unfold kreset in E. destruct a14; discriminate.
    + (* no aggressive locking: the first key becomes the primary *)
      cbn [fst]. unfold ka_ok. rewrite kv_lock_rpc.
      match goal with |- context [lock_rpc_ka ?r ?as_ ?l ?oo ?x] =>
        destruct (lock_rpc_ka_cases r as_ l oo x) as (C1 & C2 & C3);
        assert (PX : primary x = Some k0 /\ ka x = a14 /\ valid x = true /\ pess x = true /\ committer x = true /\ agg x = None) by (simpl; auto 10);
        destruct PX as (P1 & P2 & P3 & P4 & P5 & P6); cbv zeta in C1, C2, C3; rewrite ?P1, ?P2, ?P3, ?P4, ?P5, ?P6 in *;
        destruct (lock_rpc_ka r as_ l oo x) as [|q|] eqn:Ek
      end; destruct C3 as [C3|C3]; rewrite C3; simpl; unfold ka_ok, kv in Hok; simpl in Hok; unfold ka_ok_v in *;
        try (intuition (try congruence; try discriminate); fail).
      * destruct (C1 q eq_refl) as [_ [E|[E1 E2]]]; [subst a14; intuition (try congruence; try discriminate)|inversion E2; subst; intuition (try congruence; try discriminate)].
      * destruct (C1 q eq_refl) as [C1' _]. congruence.
Qed.

Lemma valid_exit_agg ks s : valid (exit_agg ks s) = valid s.
Proof.
  unfold exit_agg. destruct (agg s) as [a|] eqn:Ea; auto. destruct (many ks); auto.
  pose proof (kv_agg_done s) as H. unfold kv, v_done in H. rewrite Ea in H. simpl in H.
  destruct (aflags a) as [[[? ?] ?] ?]. inversion H. reflexivity.
Qed.

Lemma ka_ok_lock_keys ks rv ce loie f o s :
  ka_ok s -> valid s = true -> ts_contract s (ELock ks rv ce loie f o) ->
  ka_ok (lock_keys ks rv ce loie f o s).
Proof.
  intros H Hv Hts. unfold lock_keys, lock_keys_full. pose proof (ok_exit_agg ks s H) as H1.
  pose proof (valid_exit_agg ks s) as Hv1. simpl in Hts. set (s1 := exit_agg ks s) in *.
  destruct (negb (pess s1) && match agg s1 with Some _ => true | None => false end); [exact H1|].
  destruct (early_exists _ ks); [exact H1|].
  destruct (filter (need_lock s1) ks) as [|k0 r0] eqn:Ek; [exact H1|]. rewrite <- Ek.
  destruct (loie && negb rv); [exact H1|].
  destruct (loie && (negb (committer s1) || match primary s1 with None => true | Some _ => false end) && many (filter (need_lock s1) ks)); [exact H1|].
  destruct (pess s1 && (0 <? f)) eqn:Eb.
  - apply andb_true_iff in Eb. destruct Eb as [Ep _]. apply ka_ok_lock_pess; auto; try congruence;
      try (apply dedup_sort_nonempty; rewrite Ek; discriminate);
      try (intros a k e' Ha Hf; eapply Hts; eauto).
  - simpl. unfold ka_ok. rewrite kv_finish_lock. exact H1.
Qed.

Lemma kv_run_nth n s : kv (run_nth n s) = kv s.
Proof. unfold run_nth. destruct (nth_error (tasks s) n); reflexivity. Qed.
Lemma kv_run_some n ks s : kv (run_some n ks s) = kv s.
Proof. unfold run_some. destruct (nth_error (tasks s) n); reflexivity. Qed.

Lemma ka_ok_step s e : ka_ok s -> wf_ev s e -> ts_contract s e -> ka_ok (step s e).
Proof.
  intros H Hw Ht. unfold wf_ev in Hw. destruct e; simpl in *.
  - exact H.
  - exact H.
  - exact H.
  - exact H.
  - destruct (findk k (written s)); exact H.
  - destruct Hw. apply ka_ok_lock_keys; auto.
  - unfold ka_ok. rewrite kv_agg_start. apply ok_start. exact H.
  - unfold ka_ok. rewrite kv_agg_retry. apply ok_retry. exact H.
  - unfold ka_ok. rewrite kv_agg_cancel. apply ok_cancel. exact H.
  - unfold ka_ok. rewrite kv_agg_done. apply ok_done. exact H.
  - apply ka_ok_commit; auto.
  - apply ka_ok_rollback; auto.
  - apply ka_ok_rollback_l; auto.
  - unfold ka_ok. rewrite kv_run_nth. exact H.
  - unfold ka_ok. rewrite kv_run_some. exact H.
Qed.

Lemma ka_ok_init p : ka_ok (init p).
Proof. unfold ka_ok, kv, ka_ok_v. simpl. intuition discriminate. Qed.

Lemma ka_ok_run s evs : ka_ok s -> wf_run_ts s evs -> ka_ok (run s evs).
Proof.
  revert s. induction evs as [|e r IH]; simpl; intros s H Hw; auto.
  destruct Hw as [[H1 H2] H3]. apply IH; auto. apply ka_ok_step; auto.
Qed.

Lemma keepalive_inv p evs :
  wf_run_ts (init p) evs ->
  let s := run (init p) evs in
  (forall k, ka s = KRunning k -> primary s = Some k \/ retry_window s) /\
  (valid s = false -> forall k, ka s <> KRunning k).
Proof. intros H. apply ka_ok_meaning. apply ka_ok_run; auto. apply ka_ok_init. Qed.

Lemma wf_run_ts_wf s evs : wf_run_ts s evs -> wf_run s evs.
Proof. revert s. induction evs as [|e r IH]; simpl; intros s H; auto. destruct H as [[H1 _] H2]. split; auto. Qed.
