(* Locks/Props.v — C06: no lock of a finished transaction is left behind on failure-free paths.
   Model: Locks/Model.v (client bookkeeping of one transaction S + the set of locks the store holds
   for S; the store's answers are arbitrary event inputs, sanitised to the store contract inside
   the model; every pending task eventually runs: no loss, no crash).
   [wf_run] = the documented API contract along the run, nothing else:
     - LockKeys only on a valid transaction, for-update ts non-decreasing;
     - Commit / Rollback not while an aggressive-locking attempt still holds current keys.
   The model follows the code after the fixes of F19 / F19b (a re-requested key of the previous
   aggressive-locking attempt stays in lastRetryUnnecessaryLocks until the request put it into
   currentLockedKeys) and F31 (KVFilter); their replays are regression Examples below.
   [C06_contract_satisfiable_everywhere], [C06_can_always_finish], [C06_every_run_can_finish_clean]
   show that the hypotheses never exclude a state or a store answer.
   This file holds statements only (Theorem ... Proof. exact <lemma>. Qed. + Print Assumptions) and Examples; the proof
   scripts are in Locks/Proofs*.v (those of the top-level corollaries and the tactics of the Examples: ProofsTop.v). *)
From Coq Require Import List NArith ZArith Bool Lia.
From Verif Require Import Locks.Model Locks.ProofsBase Locks.ProofsInv Locks.ProofsCommit Locks.ProofsLock
  Locks.ProofsLockAgg Locks.ProofsLockAll Locks.ProofsMain Locks.ProofsKA Locks.ProofsSched Locks.ProofsPrim Locks.ProofsEarly Locks.ProofsHeld Locks.Contract Locks.ProofsHeldLock Locks.ProofsTop.
Import ListNotations.
Open Scope N_scope.



(* The invariant: every lock the store holds for S is still known to the client (flagged key,
   current / previous aggressive-locking key — with a release ts that suffices) or is covered by a
   pending background task that releases it; preserved by every step of every well-formed run. *)
Theorem C06_bookkeeping_inv :
  forall (p : bool) (evs : list ev), wf_run (init p) evs ->
  let s := run (init p) evs in
  (forall l, In l (store s) -> cov_book s l \/ cov_task s l) /\ lwc_ok s /\ cnt_ok s.
Proof. exact C06_bookkeeping_inv_proof. Qed.
Print Assumptions C06_bookkeeping_inv.

Theorem C06_inv_step :
  forall s e, Inv s -> wf_ev s e -> Inv (step s e).
Proof. exact Inv_step. Qed.
Print Assumptions C06_inv_step.

(* Once the transaction is finished (committed, failed definitively, rolled back) and all its
   background tasks have run, the store holds no lock of S. *)
Theorem C06_no_leftover :
  forall (p : bool) (evs : list ev), wf_run (init p) evs ->
  let s := run (init p) evs in
  valid s = false -> tasks s = [] -> store s = [].
Proof. exact C06_no_leftover_proof. Qed.
Print Assumptions C06_no_leftover.

(* A LockKeys call that sent a request and failed: every key the store locked during the call is in
   the key set of an asynchronous pessimistic rollback scheduled by the call, with a for-update ts
   that releases the lock just written; that key set consists of requested keys that were not
   already held (flag / current attempt) or were held from the previous attempt; nothing is flagged.
   (A single-key call failing with write conflict / key exists schedules nothing: the store wrote
   nothing, [eff_locked] = [].) *)
Theorem C06_failed_lockkeys_releases_call :
  forall ks rv ce loie f o s e,
  lo_res o = Some e ->
  let s1 := exit_agg ks s in
  let s' := fst (lock_keys_full ks rv ce loie f o s) in
  let rk := snd (lock_keys_full ks rv ce loie f o s) in
  rk <> [] ->
  forall k, In k (eff_locked rk loie o) ->
  exists ks' t lf, In (TPessRb ks' t) (tasks s') /\ releases (TPessRb ks' t) (k, Pess lf) = true /\ f <= lf /\
                 (forall k', In k' ks' -> In k' ks /\ need_lock s1 k' = true).
Proof. exact failed_lockkeys. Qed.
Print Assumptions C06_failed_lockkeys_releases_call.

(* Retry + re-lock + Done (any well-formed events in between), then the background work drains:
   a key locked in the previous attempt and not re-locked (not flagged at the end) holds no lock. *)
Theorem C06_aggressive_retry_releases_unneeded :
  forall (p : bool) (before mid after : list ev) a,
  let s0 := run (init p) before in
  agg s0 = Some a ->
  let s := run (init p) (before ++ EAggRetry :: mid ++ EAggDone :: after) in
  wf_run (init p) (before ++ EAggRetry :: mid ++ EAggDone :: after) ->
  tasks s = [] -> agg s = None ->
  forall k, In k (keys_of (cur a)) -> ~ In k (flags s) -> ~ In k (keys_of (store s)).
Proof. exact C06_aggressive_retry_releases_unneeded_proof. Qed.
Print Assumptions C06_aggressive_retry_releases_unneeded.

(* the general form of the previous statement *)
Theorem C06_quiescent_store_within_flags :
  forall (p : bool) (evs : list ev), wf_run (init p) evs ->
  let s := run (init p) evs in
  tasks s = [] -> agg s = None -> forall l, In l (store s) -> In (fst l) (flags s) /\ valid s = true.
Proof. exact C06_quiescent_store_within_flags_proof. Qed.
Print Assumptions C06_quiescent_store_within_flags.

(* the same from ANY state that satisfies the invariant (not only the initial one), any events *)
Theorem C06_no_leftover_from_any_state :
  forall s evs, Inv s -> wf_run s evs ->
  valid (run s evs) = false -> tasks (run s evs) = [] -> store (run s evs) = [].
Proof. exact no_leftover_general. Qed.
Print Assumptions C06_no_leftover_from_any_state.

(* scheduler-free form: after a finished well-formed run, draining the pending tasks (at most
   [length tasks] task runs, any fuel beyond that) empties the store's lock set *)
Theorem C06_no_leftover_after_drain :
  forall (p : bool) (evs : list ev) (n : nat), wf_run (init p) evs ->
  let s := run (init p) evs in
  valid s = false -> (length (tasks s) <= n)%nat -> store (drain n s) = [].
Proof. exact C06_no_leftover_after_drain_proof. Qed.
Print Assumptions C06_no_leftover_after_drain.

(* no hidden vacuity: EVERY state (reachable or not) can be extended by well-formed events to a
   finished, drained state — so the premises of C06_no_leftover are reachable from everywhere *)
Theorem C06_can_always_finish :
  forall s, exists evs, wf_run s evs /\ valid (run s evs) = false /\ tasks (run s evs) = [].
Proof. exact C06_can_always_finish_proof. Qed.
Print Assumptions C06_can_always_finish.

Theorem C06_every_run_can_finish_clean :
  forall (p : bool) (evs : list ev), wf_run (init p) evs ->
  exists more, wf_run (init p) (evs ++ more) /\
    let s := run (init p) (evs ++ more) in valid s = false /\ tasks s = [] /\ store s = [].
Proof. exact C06_every_run_can_finish_clean_proof. Qed.
Print Assumptions C06_every_run_can_finish_clean.

(* in every state there are well-formed events of every kind, with ANY answer of the store: writes,
   aggressive-locking calls and task runs always; LockKeys with any options and any outcome whenever
   the transaction is valid and the for-update ts does not go back; Commit (any mode, any filter,
   any prewrite / commit outcome) and Rollback whenever no attempt holds current keys *)
Theorem C06_contract_satisfiable_everywhere :
  forall s,
  (forall k, wf_ev s (ESet k) /\ wf_ev s (EDel k) /\ wf_ev s (EInsert k)) /\
  wf_ev s EAggStart /\ wf_ev s EAggRetry /\ wf_ev s EAggCancel /\ wf_ev s EAggDone /\
  (forall n ks, wf_ev s (ERun n) /\ wf_ev s (ERunSome n ks)) /\
  (valid s = true -> forall ks rv ce loie f o, fu s <= f -> wf_ev s (ELock ks rv ce loie f o)) /\
  (pending s = false -> wf_ev s ERollback /\ forall o, wf_ev s (ECommit o)).
Proof. exact wf_ev_exists. Qed.
Print Assumptions C06_contract_satisfiable_everywhere.

(* re-batching: when the region of a task's batch is split in the request's window the batch is
   re-grouped into sub-batches; processing ALL of them (in any grouping that covers the task's keys)
   releases exactly what the whole task releases — so [ERun] stands for any such re-batched execution *)
Theorem C06_rebatched_task_equals_whole :
  forall t parts s,
  (forall k, In k (task_keys t) -> exists p, In p parts /\ In k p) ->
  run_parts t parts s = run_task t s.
Proof. exact rebatched_task_equals_whole. Qed.
Print Assumptions C06_rebatched_task_equals_whole.

(* ... and what goes wrong when only the first sub-batch of a re-split batch is processed (seeded change
   C06-3: the sequential branch of doActionOnBatches handling batches[0] only): the secondaries of a
   committed transaction keep their prewrite locks *)
Example C06_first_sub_batch_only_leaves_locks :
  let st0 := [(1, Prew); (2, Prew); (3, Prew); (4, Prew)] in
  run_parts (TCommitSec [1; 2; 3; 4]) [[1]; [2]; [3; 4]] st0 = [] /\
  run_parts (TCommitSec [1; 2; 3; 4]) [[1]] st0 = [(2, Prew); (3, Prew); (4, Prew)].
Proof. vm_compute. auto. Qed.

(* schedules: the asynchronous rollback of a failed LockKeys carries the for-update ts of that call (fixed
   when the task is created), so however late it runs it cannot remove a lock that a retried call
   acquired with a newer ts (seeded change C01-5 snapshots the ts when the task RUNS) *)
Theorem C06_late_rollback_spares_newer_locks :
  forall ks f s k f', In (k, Pess f') s -> f < f' -> In (k, Pess f') (run_task (TPessRb ks f) s).
Proof. exact late_rollback_spares_newer. Qed.
Print Assumptions C06_late_rollback_spares_newer_locks.

Definition late_rollback_run : list ev :=
  [ELock [1; 2] false false false 10 (mkLO false [1] [] 0 (Some FNoWait));
   ELock [1; 2] false false false 20 (mkLO false [1; 2] [] 0 None);
   ERun 0].
Example C06_late_rollback_after_retry :
  wf_run (init true) late_rollback_run /\
  tasks (run (init true) (firstn 2 late_rollback_run)) = [TPessRb [1; 2] 10] /\
  let s := run (init true) late_rollback_run in
  store s = [(1, Pess 20); (2, Pess 20)] /\ flags s = [1; 2] /\ tasks s = [].
Proof. split; [wf_solve|]. vm_compute. auto. Qed.

(* keep-alive (ttlManager, state [ka]: uninitialised / running bound to a key / closed): under the API
   contract plus [ts_contract] (no for-update ts below a conflict ts the caller was told — the code's
   "unreachable path" would keep a tentative primary), whenever the keep-alive is running it is bound to
   the current primary, except inside an aggressive-locking retry window (RetryAggressiveLocking gave the
   primary up and deliberately keeps the keep-alive; no primary is set there); and it is not running
   once the transaction has ended *)
Theorem C06_keepalive_bound_to_primary :
  forall (p : bool) (evs : list ev), wf_run_ts (init p) evs ->
  let s := run (init p) evs in
  (forall k, ka s = KRunning k -> primary s = Some k \/ retry_window s) /\
  (valid s = false -> forall k, ka s <> KRunning k).
Proof. exact keepalive_inv. Qed.
Print Assumptions C06_keepalive_bound_to_primary.

(* non-vacuity: a run through a retry window (keep-alive kept on the given-up primary 1, then moved to the
   new primary 2), a lock-only-if-exists miss that drops the tentative primary, and the end of the transaction *)
Definition keepalive_run : list ev :=
  [ELock [7] true false true 5 (mkLO false [] [7] 0 None);
   EAggStart; ELock [1] false false false 10 (mkLO false [1] [] 0 None); EAggRetry;
   ELock [2] false false false 20 (mkLO false [2] [] 0 None); EAggDone; ERun 0; ECommit (mkCO M1PC [] [] [] COk)].
Example C06_keepalive_run :
  wf_run_ts (init true) keepalive_run /\
  ka (run (init true) (firstn 1 keepalive_run)) = KUninit /\
  ka (run (init true) (firstn 3 keepalive_run)) = KRunning 1 /\
  (let s := run (init true) (firstn 4 keepalive_run) in ka s = KRunning 1 /\ primary s = None) /\
  (let s := run (init true) (firstn 5 keepalive_run) in ka s = KRunning 2 /\ primary s = Some 2) /\
  ka (run (init true) keepalive_run) = KClosed.
Proof.
  split; [|vm_compute; auto 10]. unfold keepalive_run. wf_ts_solve.
Qed.

(* the committer's primary is never a "ghost": under the caller contract (incl. [ts_contract]) the primary key is
   always a key the client tracks as locked — flagged, or a current aggressive-locking key of the attempt that
   chose it (oracle P of the check; seeded change C02-6 keeps a never-locked primary after a single-key failure) *)
Theorem C06_primary_is_a_tracked_key :
  forall (p : bool) (evs : list ev), wf_run_ts (init p) evs ->
  let s := run (init p) evs in
  forall k, primary s = Some k ->
    In k (flags s) \/ exists a, agg s = Some a /\ aprim a = true /\ In k (keys_of (cur a)).
Proof. exact primary_is_tracked. Qed.
Print Assumptions C06_primary_is_a_tracked_key.

Example C06_primary_tracked_examples :
  (let s := run (init true) (firstn 3 keepalive_run) in primary s = Some 1 /\ flags s = [] /\ in_cur s 1 = true) /\
  (let s := run (init true) (firstn 6 keepalive_run) in primary s = Some 2 /\ flags s = [2]) /\
  (* a first lock that fails outright leaves no primary *)
  primary (run (init true) [ELock [1] false false false 10 (mkLO false [] [] 0 (Some FConflict))]) = None.
Proof. vm_compute. auto 10. Qed.


(* batches are not regions: the keys of one call may travel in several requests even inside one region (batch
   size limit); the store's answer is any subset of the requested keys locked before the failing batch.  A
   multi-key call failing with write conflict after earlier batches succeeded rolls all its keys back
   (instance of C06_failed_lockkeys_releases_call; seeded change C06-7 skips the rollback when one region
   served all batches) *)
Definition partial_batches_run : list ev :=
  [ELock [1; 2; 3] false false false 10 (mkLO false [1; 2] [] 0 (Some FConflict)); ERollback; ERun 0].
Example C06_partial_batches_in_one_region :
  wf_run (init true) partial_batches_run /\
  (let s := run (init true) (firstn 1 partial_batches_run) in
   map fst (store s) = [1; 2] /\ tasks s = [TPessRb [1; 2; 3] 10] /\ flags s = []) /\
  store (run (init true) partial_batches_run) = [].
Proof. split; [wf_solve|]. vm_compute. auto. Qed.

(* lost release requests.  A release task whose request (or response) is lost is retried by the sender and stays
   pending — partial progress is [ERunSome], completion [ERun]; a task that is lost for good (retry budget
   exhausted) simply never completes.  Without assuming that the tasks drain: once the transaction has ended,
   EVERY remaining lock is one that a release task that has not completed would release — locks remain only under
   release requests that were lost for good (no task left => no lock left: C06_no_leftover) *)
Theorem C06_leftover_only_under_unfinished_release :
  forall (p : bool) (evs : list ev), wf_run (init p) evs ->
  let s := run (init p) evs in
  valid s = false -> forall l, In l (store s) -> exists t, In t (tasks s) /\ releases t l = true.
Proof. exact C06_leftover_only_under_unfinished_release_proof. Qed.
Print Assumptions C06_leftover_only_under_unfinished_release.

(* a rollback lost for good on key 2 (its batch never completes) while the batch of key 1 completes *)
Definition lost_release_run2 : list ev :=
  [ELock [1; 2; 3] false false false 10 (mkLO false [1; 2] [] 0 (Some FNoWait)); ERunSome 0 [1]; ERollback].
Example C06_lost_release :
  wf_run (init true) lost_release_run2 /\
  let s := run (init true) lost_release_run2 in
  valid s = false /\ store s = [(2, Pess 10)] /\ tasks s = [TPessRb [1; 2; 3] 10] /\
  store (run (init true) (lost_release_run2 ++ [ERun 0])) = [].
Proof. split; [wf_solve|]. vm_compute. auto. Qed.

(* Rollback whose own (synchronous) release request for key 2 never completed *)
Example C06_rollback_with_lost_release :
  let evs := [ELock [1; 2] false false false 10 (mkLO false [1; 2] [] 0 None); ERollbackLost [2]] in
  wf_run (init true) evs /\
  let s := run (init true) evs in
  valid s = false /\ store s = [(2, Pess 10)] /\ tasks s = [TPessRb [2] 10] /\ store (run (init true) (evs ++ [ERun 0])) = [].
Proof. split; [wf_solve|]. vm_compute. auto. Qed.

(* request-level schedules of ONE failing LockKeys call (ProofsSched.v): the code schedules the rollback only after
   every lock request of the call was answered; then whatever the order of the lock requests among themselves,
   whatever they locked, and however the rollback is batched, re-batched and ordered, no pessimistic lock of the call
   (for-update ts <= f) remains on a key of the call *)
Theorem C06_call_requests_any_order_rollback_after :
  forall all f locks rbs s k f',
  (forall r, In r rbs -> is_rb f r) ->
  (forall k, In k all -> exists r, In r rbs /\ In k (rb_keys r)) ->
  In (k, Pess f') (exec (locks ++ rbs) s) -> In k all -> f < f'.
Proof. exact rollback_after_all_locks. Qed.
Print Assumptions C06_call_requests_any_order_rollback_after.

(* the one reordering that is not tolerated — and that the unmodified code never produces: a lock request of the call
   served after the rollback leaves a lock nothing tracks (seeded change C06-5 returns from LockKeys early) *)
Theorem C06_lock_served_after_rollback_leaves_lock :
  forall pre k r f s, exists l, In (k, l) (exec (pre ++ [RLock (k :: r) f]) s).
Proof. exact lock_after_rollback_leaves_lock. Qed.
Print Assumptions C06_lock_served_after_rollback_leaves_lock.

Example C06_schedules_of_one_call :
  exec [RLock [2] 10; RLock [] 10; RLock [1] 10; RRb [3; 1] 10; RRb [2] 10] [] = [] /\
  exec [RLock [1] 10; RLock [] 10; RRb [1; 2; 3] 10; RLock [2] 10] [] = [(2, Pess 10)].
Proof. vm_compute. auto. Qed.

(* ---- regression replays of the fixed findings F19 / F19b ---- *)
Definition ok_lock (ks : list key) : lock_out := mkLO false ks [] 0 None.

(* F19: the re-lock of a previous-attempt key fails with key-exists (PresumeKeyNotExists set in between) *)
Definition f19_run : list ev :=
  [EAggStart; ELock [1] false false false 10 (ok_lock [1]); EInsert 1; EAggRetry;
   ELock [1] true false false 20 (mkLO false [] [] 0 (Some FExists)); EAggDone; ERollback; ERun 0].
(* F19b: the re-lock with lock-only-if-exists reports the key absent *)
Definition f19b_run : list ev :=
  [EAggStart; ELock [4] false false false 10 (ok_lock [4]); EAggRetry;
   ELock [4] true false true 20 (mkLO false [] [4] 0 None); EAggDone; ERollback; ERun 0].

Example C06_f19_regression :
  wf_run (init true) f19_run /\
  (* after the failed re-lock the key is still a key of the previous attempt *)
  in_prev (run (init true) (firstn 5 f19_run)) 1 = true /\
  store (run (init true) (firstn 7 f19_run)) = [(1, Pess 10)] /\ store (run (init true) f19_run) = [].
Proof. split; [wf_solve|]. vm_compute. auto. Qed.

Example C06_f19b_regression :
  wf_run (init true) f19b_run /\
  in_prev (run (init true) (firstn 4 f19b_run)) 4 = true /\
  store (run (init true) (firstn 6 f19b_run)) = [(4, Pess 10)] /\ store (run (init true) f19b_run) = [].
Proof. split; [wf_solve|]. vm_compute. auto. Qed.

(* KVFilter (finding "kvfilter_drops_locked_delete", fixed in /repo: the model follows the fixed code):
   whatever the transaction's KVFilter declares unnecessary, every flagged (locked) key stays a
   mutation, so its lock is converted by the prewrite and released by commit / clean-up *)
Theorem C06_kvfilter_keeps_locked_keys :
  forall s unn k, In k (flags s) -> In k (mutations unn s).
Proof. exact flags_in_mutations. Qed.
Print Assumptions C06_kvfilter_keeps_locked_keys.

(* the replay of the finding: a filtered Delete on a locked key, alone and next to another mutation *)
Definition kvfilter_run : list ev :=
  [ELock [1] false false false 10 (ok_lock [1]); EDel 1; ECommit (mkCO M2PC [] [1] [1] COk); ERun 0].
Definition kvfilter_run2 : list ev :=
  [ELock [1] false false false 10 (ok_lock [1]); EDel 1; ESet 2; ECommit (mkCO M2PC [] [1] [1] COk); ERun 0].
Example C06_kvfilter_runs_clean :
  wf_run (init true) kvfilter_run /\ wf_run (init true) kvfilter_run2 /\
  mutations [1] (run (init true) (firstn 2 kvfilter_run)) = [1] /\
  mutations [1] (run (init true) (firstn 3 kvfilter_run2)) = [1; 2] /\
  store (run (init true) kvfilter_run) = [] /\ store (run (init true) kvfilter_run2) = [].
Proof. split; [wf_solve|]. split; [wf_solve|]. vm_compute. auto. Qed.

(* ---- non-vacuity: the hypotheses are satisfiable, and what goes wrong without them ---- *)
(* a partial LockKeys failure, a write conflict, an aggressive retry dropping a lock, a failed commit *)
Definition sample_run : list ev :=
  [ELock [1; 2; 3] false false false 10 (mkLO false [1; 2] [] 0 (Some FNoWait));
   ELock [2] false false false 11 (mkLO false [] [] 0 (Some FConflict));
   EAggStart; ELock [4] false false false 12 (ok_lock [4]); ELock [5] false false false 13 (mkLO false [5] [] 15 None);
   EAggRetry; ELock [4] false false false 16 (ok_lock []); EAggDone;
   ESet 3; ECommit (mkCO M2PC [3] [] [] CPrewriteFail);
   ERun 0; ERun 0; ERun 0].

Example C06_hypotheses_satisfiable :
  wf_run (init true) sample_run /\
  let s := run (init true) sample_run in valid s = false /\ tasks s = [] /\ store s = [].
Proof.
  split.
  - wf_solve.
  - vm_compute. auto.
Qed.

(* the store really held locks on the way (the run is not trivial) *)
Example C06_sample_run_holds_locks :
  map fst (store (run (init true) (firstn 8 sample_run))) = [5; 4; 1; 2].
Proof. vm_compute. reflexivity. Qed.

(* without "no Commit/Rollback while an attempt holds current keys": the code closes the
   transaction with an error and releases nothing *)
Example C06_rollback_while_pending_leaves_lock :
  let evs := [EAggStart; ELock [1] false false false 10 (ok_lock [1]); ERollback] in
  let s := run (init true) evs in
  ~ wf_run (init true) evs /\ valid s = false /\ tasks s = [] /\ map fst (store s) = [1].
Proof.
  split; [|vm_compute; auto]. intros H. vm_compute in H. split_hyps. congruence.
Qed.

(* without "for-update ts non-decreasing": Rollback releases with the last (smaller) ts *)
Example C06_decreasing_for_update_ts_leaves_lock :
  let evs := [ELock [1] false false false 10 (ok_lock [1]); ELock [2] false false false 5 (ok_lock [2]); ERollback] in
  let s := run (init true) evs in
  ~ wf_run (init true) evs /\ valid s = false /\ tasks s = [] /\ store s = [(1, Pess 10)].
Proof.
  split; [|vm_compute; auto]. intros H. vm_compute in H. split_hyps.
  match goal with H : ?x = ?x -> False |- _ => apply H; reflexivity end.
Qed.

(* ---- more non-vacuity: every event kind, every failure kind, every commit mode in well-formed runs
   that really hold locks and end clean ---- *)
Definition fail_lock (ks : list key) (e : fail) : lock_out := mkLO false ks [] 0 (Some e).
(* 1PC success; deadlock / timeout / other failures; a Delete; a partial task run *)
Definition sample_1pc : list ev :=
  [ELock [1; 2] false true false 10 (fail_lock [1] FDeadlock);
   ERunSome 0 [1];
   ELock [3] true false false 11 (fail_lock [] FTimeout);
   ELock [2; 3] true false false 12 (fail_lock [2; 3] FOther);
   ELock [4] false false false 13 (ok_lock [4]); EDel 4; EInsert 5; ELock [5] false false false 14 (ok_lock [5]);
   ECommit (mkCO M1PC [] [] [] COk); ERun 0; ERun 0; ERun 0].
Example C06_sample_1pc :
  wf_run (init true) sample_1pc /\ map fst (store (run (init true) (firstn 8 sample_1pc))) = [5; 4; 2; 3] /\
  let s := run (init true) sample_1pc in valid s = false /\ tasks s = [] /\ store s = [].
Proof. split; [wf_solve|]. vm_compute. auto. Qed.

(* async commit (everything in the background); key exists; lock-only-if-exists on an absent fresh key;
   expiry of a previous-attempt lock forces the re-lock request; cancel *)
Definition sample_async : list ev :=
  [EInsert 1; ELock [1] false false false 10 (fail_lock [] FExists);
   EAggStart; ELock [2] true false true 11 (mkLO false [] [2] 0 None);
   ELock [3] true false false 12 (ok_lock [3]); EAggRetry;
   ELock [3] true false false 13 (mkLO true [3] [] 0 None);
   EAggCancel; ELock [4] false false false 14 (ok_lock [4]); ESet 4;
   ECommit (mkCO MAsync [] [] [] COk); ERun 0; ERunSome 0 [4]; ERun 0].
Example C06_sample_async :
  wf_run (init true) sample_async /\
  snd (lock_keys_full [3] true false false 13 (mkLO true [3] [] 0 None) (run (init true) (firstn 6 sample_async))) = [3] /\
  snd (lock_keys_full [3] true false false 13 (mkLO false [3] [] 0 None) (run (init true) (firstn 6 sample_async))) = [] /\
  let s := run (init true) sample_async in valid s = false /\ tasks s = [] /\ store s = [].
Proof. split; [wf_solve|]. vm_compute. auto. Qed.

(* commit fails definitively after a successful prewrite; a filtered SET on a locked key is kept as a
   lock mutation (the filter is harmless there); optimistic transaction: prewrite conflict *)
Definition sample_cfail : list ev :=
  [ELock [1] false false false 10 (ok_lock [1]); ESet 1; ESet 2;
   ECommit (mkCO M2PC [] [] [1] CCommitFail); ERun 0].
Example C06_sample_commit_fail :
  wf_run (init true) sample_cfail /\ mutations [1] (run (init true) (firstn 3 sample_cfail)) = [1; 2] /\
  let s := run (init true) sample_cfail in valid s = false /\ tasks s = [] /\ store s = [].
Proof. split; [wf_solve|]. vm_compute. auto. Qed.

Definition sample_optimistic : list ev :=
  [ESet 1; EDel 2; ECommit (mkCO M2PC [1] [] [] CPrewriteFail); ERun 0].
Example C06_sample_optimistic :
  wf_run (init false) sample_optimistic /\ map fst (store (run (init false) (firstn 3 sample_optimistic))) = [1] /\
  let s := run (init false) sample_optimistic in valid s = false /\ tasks s = [] /\ store s = [].
Proof. split; [wf_solve|]. vm_compute. auto. Qed.

(* caller-contract observation (not a leftover): after a re-lock of a previous-attempt key failed with
   an error that schedules the rollback, the key is still in the previous-attempt map; a further
   LockKeys on it IN THE SAME attempt may take the skip path, and then the client counts a key as
   locked whose lock the pending rollback releases.  Callers retry or cancel after a failed call. *)
Definition skip_after_failed_relock : list ev :=
  [EAggStart; ELock [1] false false false 10 (ok_lock [1]); EAggRetry;
   ELock [1] true false false 20 (mkLO false [] [] 0 (Some FNoWait));
   ELock [1] false false false 21 (ok_lock []); ERun 0].
Example C06_note_skip_after_failed_relock :
  wf_run (init true) skip_after_failed_relock /\
  let s := run (init true) skip_after_failed_relock in in_cur s 1 = true /\ store s = [] /\ tasks s = [].
Proof. split; [wf_solve|]. vm_compute. auto. Qed.

(* the key-exists error LockKeys returns from its pre-loop, before any request, is COMPUTED by the model
   ([early_exists]: an already-locked key that carries the insert flags and whose recorded existence says "exists";
   compared with the client on every LockKeys call of the check).  Whenever it fires — in any run, whatever the store
   answered before — the call sends nothing and changes nothing (beyond leaving a many-key aggressive attempt), and the
   culprit is a key this transaction inserted and tracks as locked; a call naming no inserted key never fails early. *)
Theorem C06_early_key_exists_meaning :
  forall (p : bool) (evs : list ev) (ks : list key),
  let s := run (init p) evs in
  let s1 := exit_agg ks s in
  early_exists s1 ks = true ->
  (forall rv ce loie f o, lock_keys_full ks rv ce loie f o s = (s1, [])) /\
  exists k, In k ks /\ (In (EInsert k) evs \/ In (EMark k) evs) /\
            (In k (flags s1) \/ in_cur s1 k = true \/ in_prev s1 k = true).
Proof. exact early_key_exists_meaning. Qed.
Print Assumptions C06_early_key_exists_meaning.

Theorem C06_no_early_key_exists_without_insert :
  forall (p : bool) (evs : list ev) (ks : list key),
  (forall k, In k ks -> ~ In (EInsert k) evs /\ ~ In (EMark k) evs) ->
  early_exists (exit_agg ks (run (init p) evs)) ks = false.
Proof. exact no_insert_no_early. Qed.
Print Assumptions C06_no_early_key_exists_without_insert.

(* d90-d95 of the check: plain lock then insert -> early error (the flag reads "exists" by default); existence checked
   and absent -> no error; an aggressive-locking entry without returned values reads "not exists" until Done copies it
   into the flags; a failed staged insert keeps its flags only over an older buffered value *)
Example C06_early_key_exists_examples :
  let E evs ks := early_exists (exit_agg ks (run (init true) evs)) ks in
  E [ELock [1] false false false 10 (ok_lock [1]); EMark 1] [1] = true /\
  E [ELock [1; 4] false true false 10 (mkLO false [1; 4] [4] 0 None); EMark 4; EMark 1] [4] = false /\
  E [ELock [1; 4] false true false 10 (mkLO false [1; 4] [4] 0 None); EMark 4; EMark 1] [1] = true /\
  E [EAggStart; ELock [1] false false false 10 (ok_lock [1]); EMark 1] [1] = false /\
  E [EAggStart; ELock [1] false false false 10 (ok_lock [1]); EInsert 1; EAggDone; EMark 1] [1] = true /\
  E [EAggStart; ELock [1] true false false 10 (ok_lock [1]); EMark 1] [1] = true /\
  E [EMark 1; ELock [1] false false false 10 (fail_lock [] FExists); EUnmark 1; ELock [1] false false false 11 (ok_lock [1])] [1] = false /\
  E [ESet 2; ELock [2] false false false 10 (ok_lock [2]); EMark 2; EUnmark 2] [2] = true /\
  E [ELock [1] false false false 10 (ok_lock [1]); EMark 1; EUnmark 1] [1] = false.
Proof. vm_compute. auto 12. Qed.

(* the converse of the bookkeeping invariant (oracle A of the check as a theorem): while the transaction is open, every
   key the client tracks as locked — flagged, a current aggressive-locking key, a previous-attempt key unless a call of
   this attempt failed — holds a lock in the store that NO pending background release removes, however late it runs.
   On top of [wf_run] this needs ([wf_run_held]): a fresh for-update ts for every LockKeys (greater than every ts used
   so far, hence than the ts of every pending rollback: [fresh_ts]); a store that reports success only if it locked every
   key of the call (or found it absent under lock-only-if-exists: [store_ok]); and, after a LockKeys that failed inside an
   aggressive-locking attempt, Retry / Cancel / Done before the next LockKeys ([next_blocked]; cf.
   C06_note_skip_after_failed_relock).  Seeded change C01-5 (rollback ts taken when the task runs) breaks exactly this. *)
Theorem C06_tracked_keys_hold_locks :
  forall evs : list ev, wf_run_held false (init true) evs ->
  let s := run (init true) evs in
  valid s = true ->
  forall k,
    (In k (flags s) \/ in_cur s k = true \/ (blocked_after false (init true) evs = false /\ in_prev s k = true)) ->
    exists l, In (k, l) (store s) /\ forall t, In t (tasks s) -> releases t (k, l) = false.
Proof. exact tracked_keys_hold_locks. Qed.
Print Assumptions C06_tracked_keys_hold_locks.

(* the form the check uses: the model driver evaluates the executable contract [wf_run_heldb] (Contract.v) along every
   replayed program; where it holds, the lock set of the model at a quiescent point contains every tracked key, and that
   lock set is compared with the store's (audit steps) *)
Theorem C06_tracked_keys_hold_locks_checked :
  forall evs : list ev, wf_run (init true) evs -> wf_run_heldb false (init true) evs = true ->
  let s := run (init true) evs in
  valid s = true ->
  forall k, (In k (flags s) \/ in_cur s k = true) ->
  exists l, In (k, l) (store s) /\ forall t, In t (tasks s) -> releases t (k, l) = false.
Proof. exact C06_tracked_keys_hold_locks_checked_proof. Qed.
Print Assumptions C06_tracked_keys_hold_locks_checked.


(* a run inside the contract: a failed multi-key call, its retry with a fresh ts, an attempt with a failed call followed by
   Retry, a key taken over without a request, Done — pending rollbacks run late *)
Definition held_run : list ev :=
  [ELock [1; 2] false false false 10 (ok_lock [1; 2]);
   ELock [3; 4] false false false 20 (fail_lock [3] FNoWait);
   ELock [3] false false false 30 (ok_lock [3]);
   EAggStart; ELock [5] false false false 40 (ok_lock [5]);
   ELock [6] false false false 50 (fail_lock [] FDeadlock); EAggRetry;
   ELock [5] false false false 60 (ok_lock [5]); ELock [7] false false false 70 (ok_lock [7]); EAggDone;
   ERun 0; ERun 0].
Example C06_tracked_keys_hold_locks_run :
  wf_run_held false (init true) held_run /\
  let s := run (init true) held_run in
  valid s = true /\ flags s = [1; 2; 3; 7; 5] /\ map fst (store s) = [7; 5; 3; 1; 2] /\ tasks s = [].
Proof. split; [held_solve|]. vm_compute. auto. Qed.
Example C06_tracked_keys_contract_checker :
  wf_run_heldb false (init true) held_run = true /\
  wf_run_heldb false (init true) [ELock [1; 2] false false false 10 (fail_lock [1] FNoWait); ELock [1] false false false 10 (ok_lock [1])] = false /\
  wf_run_heldb false (init true) [ELock [1] false false false 10 (ok_lock [])] = false /\
  wf_run_heldb false (init true) skip_after_failed_relock = false.
Proof. vm_compute. auto. Qed.

(* each extra clause matters (all three runs satisfy [wf_run]): a retry with the SAME for-update ts loses its lock to the
   late rollback of the failed call; a store that acknowledges without locking; (the third clause:
   C06_note_skip_after_failed_relock) *)
Example C06_tracked_keys_need_the_contract :
  (let evs := [ELock [1; 2] false false false 10 (fail_lock [1] FNoWait); ELock [1] false false false 10 (ok_lock [1]); ERun 0] in
   wf_run (init true) evs /\ flags (run (init true) evs) = [1] /\ store (run (init true) evs) = []) /\
  (let evs := [ELock [1] false false false 10 (ok_lock [])] in
   wf_run (init true) evs /\ flags (run (init true) evs) = [1] /\ store (run (init true) evs) = []).
Proof. split; (split; [wf_solve|vm_compute; auto]). Qed.
