(* Locks/Props.v — C06: no lock of a finished transaction is left behind on failure-free paths.
   Model: Locks/Model.v (client bookkeeping of one transaction S + the set of locks the store holds
   for S; store outcomes are event inputs; every pending task eventually runs: no loss, no crash).
   [wf_run] = the API contract along the run:
     - LockKeys only on a valid transaction, for-update ts non-decreasing;
     - Commit / Rollback not while an aggressive-locking attempt still holds current keys;
     - [relock_safe]: a re-lock of a key held from the PREVIOUS aggressive-locking attempt neither
       fails with key-exists / write-conflict nor is skipped as absent under lock-only-if-exists.
   The last clause is not part of the documented contract: without it the code loses the lock
   (known findings F19 / F19b, replayed on the real code) — see the [_refuted] theorems. *)
From Coq Require Import List NArith ZArith Bool Lia.
From Verif Require Import Locks.Model Locks.ProofsBase Locks.ProofsInv Locks.ProofsCommit Locks.ProofsLock
  Locks.ProofsLockAgg Locks.ProofsLockAll Locks.ProofsMain.
Import ListNotations.
Open Scope N_scope.

(* The invariant: every lock the store holds for S is still known to the client (flagged key,
   current / previous aggressive-locking key — with a release ts that suffices) or is covered by a
   pending background task that releases it; preserved by every step of every well-formed run. *)
Theorem C06_bookkeeping_inv :
  forall (p : bool) (evs : list ev), wf_run (init p) evs ->
  let s := run (init p) evs in
  (forall l, In l (store s) -> cov_book s l \/ cov_task s l) /\ lwc_ok s /\ cnt_ok s.
Proof. intros p evs H. exact (bookkeeping_inv p evs H). Qed.
Print Assumptions C06_bookkeeping_inv.

Theorem C06_inv_step :
  forall s e, Inv s -> wf_ev s e -> Inv (step s e).
Proof. exact Inv_step. Qed.
Print Assumptions C06_inv_step.

(* Once the transaction is finished (committed, failed definitively, rolled back) and all its
   background tasks have run, the store holds no lock of S. *)
Theorem C06_no_leftover :
  forall (p : bool) (evs : list ev), wf_run (init p) evs ->
  let s := run (init p) evs in
  valid s = false -> tasks s = [] -> store s = [].
Proof. intros p evs H s Hv Ht. apply no_leftover_from; auto. apply bookkeeping_inv; auto. Qed.
Print Assumptions C06_no_leftover.

(* A LockKeys call that sent a request and failed: every key the store locked during the call is in
   the key set of an asynchronous pessimistic rollback scheduled by the call, with a for-update ts
   that releases the lock just written; that key set consists of requested keys that were not
   already held (flag / current attempt) or were held from the previous attempt; nothing is flagged.
   (A single-key call failing with write conflict / key exists schedules nothing: the store wrote
   nothing, [eff_locked] = [].) *)
Theorem C06_failed_lockkeys_releases_call :
  forall ks rv ce loie f o s e,
  lo_res o = Some e ->
  let s1 := exit_agg ks s in
  let s' := fst (lock_keys_full ks rv ce loie f o s) in
  let rk := snd (lock_keys_full ks rv ce loie f o s) in
  rk <> [] ->
  forall k, In k (eff_locked rk loie o) ->
  exists ks' t lf, In (TPessRb ks' t) (tasks s') /\ releases (TPessRb ks' t) (k, Pess lf) = true /\ f <= lf /\
                 (forall k', In k' ks' -> In k' ks /\ need_lock s1 k' = true).
Proof. exact failed_lockkeys. Qed.
Print Assumptions C06_failed_lockkeys_releases_call.

(* Retry + re-lock + Done (any well-formed events in between), then the background work drains:
   a key locked in the previous attempt and not re-locked (not flagged at the end) holds no lock. *)
Theorem C06_aggressive_retry_releases_unneeded :
  forall (p : bool) (before mid after : list ev) a,
  let s0 := run (init p) before in
  agg s0 = Some a ->
  let s := run (init p) (before ++ EAggRetry :: mid ++ EAggDone :: after) in
  wf_run (init p) (before ++ EAggRetry :: mid ++ EAggDone :: after) ->
  tasks s = [] -> agg s = None ->
  forall k, In k (keys_of (cur a)) -> ~ In k (flags s) -> ~ In k (keys_of (store s)).
Proof.
  intros p before mid after a s0 Ha s Hwf Ht Hag k Hk Hnf Hin.
  unfold keys_of in Hin. apply in_map_iff in Hin. destruct Hin as (l & El & Hin).
  destruct (quiescent_store_flags s l (bookkeeping_inv p _ Hwf) Ht Hag Hin) as (_ & Hf & _).
  rewrite El in Hf. auto.
Qed.
Print Assumptions C06_aggressive_retry_releases_unneeded.

(* the general form of the previous statement *)
Theorem C06_quiescent_store_within_flags :
  forall (p : bool) (evs : list ev), wf_run (init p) evs ->
  let s := run (init p) evs in
  tasks s = [] -> agg s = None -> forall l, In l (store s) -> In (fst l) (flags s) /\ valid s = true.
Proof.
  intros p evs H s Ht Ha l Hl.
  destruct (quiescent_store_flags s l (bookkeeping_inv p evs H) Ht Ha Hl) as (A & B & _). auto.
Qed.
Print Assumptions C06_quiescent_store_within_flags.

(* ---- refuted without [relock_safe] (the faithful model loses the lock; replayed on the code) ---- *)
Definition ok_lock (ks : list key) : lock_out := mkLO false false ks [] 0 None.

(* F19: re-lock of a previous-attempt key fails with key-exists (PresumeKeyNotExists set in between) *)
Definition f19_run : list ev :=
  [EAggStart; ELock [1] false false false 10 (ok_lock [1]); EInsert 1; EAggRetry;
   ELock [1] true false false 20 (mkLO false false [] [] 0 (Some FExists)); EAggDone; ERollback].
(* F19b: re-lock with lock-only-if-exists reports the key absent *)
Definition f19b_run : list ev :=
  [EAggStart; ELock [4] false false false 10 (ok_lock [4]); EAggRetry;
   ELock [4] true false true 20 (mkLO false false [] [4] 0 None); EAggDone; ERollback].

Theorem C06_no_leftover_refuted :
  exists evs, wf_run_api (init true) evs /\
    let s := run (init true) evs in valid s = false /\ tasks s = [] /\ store s <> [].
Proof.
  exists f19_run. split.
  - vm_compute. repeat split; try reflexivity; intros; discriminate.
  - vm_compute. repeat split; auto. discriminate.
Qed.
Print Assumptions C06_no_leftover_refuted.

Theorem C06_no_leftover_loie_refuted :
  exists evs, wf_run_api (init true) evs /\
    let s := run (init true) evs in valid s = false /\ tasks s = [] /\ store s <> [].
Proof.
  exists f19b_run. split.
  - vm_compute. repeat split; try reflexivity; intros; discriminate.
  - vm_compute. repeat split; auto. discriminate.
Qed.
Print Assumptions C06_no_leftover_loie_refuted.

(* ---- non-vacuity: the hypotheses are satisfiable, and what goes wrong without them ---- *)
Ltac wf_solve :=
  vm_compute; repeat split; try reflexivity; try (intros; discriminate);
  try (intros; split; [reflexivity | intros; first [discriminate | contradiction]]).
Ltac split_hyps := repeat match goal with H : _ /\ _ |- _ => destruct H end.

(* a partial LockKeys failure, a write conflict, an aggressive retry dropping a lock, a failed commit *)
Definition sample_run : list ev :=
  [ELock [1; 2; 3] false false false 10 (mkLO false false [1; 2] [] 0 (Some FNoWait));
   ELock [2] false false false 11 (mkLO false false [] [] 0 (Some FConflict));
   EAggStart; ELock [4] false false false 12 (ok_lock [4]); ELock [5] false false false 13 (mkLO false false [5] [] 15 None);
   EAggRetry; ELock [4] false false false 16 (ok_lock []); EAggDone;
   ESet 3; ECommit (mkCO M2PC [3] [] CPrewriteFail);
   ERun 0; ERun 0; ERun 0].

Example C06_hypotheses_satisfiable :
  wf_run (init true) sample_run /\
  let s := run (init true) sample_run in valid s = false /\ tasks s = [] /\ store s = [].
Proof.
  split.
  - wf_solve.
  - vm_compute. auto.
Qed.

(* the store really held locks on the way (the run is not trivial) *)
Example C06_sample_run_holds_locks :
  map fst (store (run (init true) (firstn 8 sample_run))) = [5; 4; 1; 2].
Proof. vm_compute. reflexivity. Qed.

(* without "no Commit/Rollback while an attempt holds current keys": the code closes the
   transaction with an error and releases nothing *)
Example C06_rollback_while_pending_leaves_lock :
  let evs := [EAggStart; ELock [1] false false false 10 (ok_lock [1]); ERollback] in
  let s := run (init true) evs in
  ~ wf_run (init true) evs /\ valid s = false /\ tasks s = [] /\ map fst (store s) = [1].
Proof.
  split; [|vm_compute; auto]. intros H. vm_compute in H. split_hyps. congruence.
Qed.

(* without "for-update ts non-decreasing": Rollback releases with the last (smaller) ts *)
Example C06_decreasing_for_update_ts_leaves_lock :
  let evs := [ELock [1] false false false 10 (ok_lock [1]); ELock [2] false false false 5 (ok_lock [2]); ERollback] in
  let s := run (init true) evs in
  ~ wf_run (init true) evs /\ valid s = false /\ tasks s = [] /\ store s = [(1, Pess 10)].
Proof.
  split; [|vm_compute; auto]. intros H. vm_compute in H. split_hyps.
  match goal with H : ?x = ?x -> False |- _ => apply H; reflexivity end.
Qed.

(* the refuted runs violate exactly [relock_safe] *)
Example C06_f19_violates_relock_safe : ~ wf_run (init true) f19_run.
Proof.
  intros H. vm_compute in H. split_hyps.
  match goal with H : forall x : N, _ |- _ => destruct (H 1) as [? ?]; [auto | reflexivity | congruence] end.
Qed.
Example C06_f19b_violates_relock_safe : ~ wf_run (init true) f19b_run.
Proof.
  intros H. vm_compute in H. split_hyps.
  match goal with H : forall x : N, _ |- _ => destruct (H 4) as [? Hx]; [auto | reflexivity | apply Hx; auto] end.
Qed.
