(* Locks/ProofsHeldLock.v — tracked keys hold locks (ProofsHeld.v): LockKeys, steps, runs *)
From Coq Require Import List NArith ZArith Bool Lia.
From Verif Require Import Locks.Model Locks.ProofsBase Locks.ProofsInv Locks.ProofsCommit Locks.ProofsLock Locks.ProofsLockAgg Locks.ProofsLockAll Locks.ProofsHeld Locks.Contract.
Import ListNotations.
Open Scope N_scope.

Arguments N.max : simpl never.
Arguments N.eqb : simpl never.
Arguments N.ltb : simpl never.
Arguments N.leb : simpl never.
Arguments dedup_sort : simpl never.
Arguments len : simpl never.

(* ---- LockKeys ---- *)
Lemma keys_findk {A} k (l : list (key * A)) : In k (keys_of l) -> exists e, findk k l = Some e.
Proof.
  induction l as [|[k' e'] r IH]; simpl; [tauto|]. intros [H|H].
  - subst. rewrite N.eqb_refl. eauto.
  - destruct (N.eqb k k'); eauto.
Qed.

Lemma keys_cur_add E kp c k : In k (keys_of (cur_add E kp c)) -> In k kp \/ In k (keys_of c).
Proof.
  intros H. apply keys_findk in H. destruct H as (e & H). rewrite cur_add_find in H.
  destruct (memk k kp) eqn:Em; [left; apply memk_In; auto|right; eapply findk_keys; eauto].
Qed.

Lemma keys_prev_del kp c k : In k (keys_of (prev_del kp c)) -> In k (keys_of c) /\ ~ In k kp.
Proof.
  intros H. apply keys_findk in H. destruct H as (e & H). rewrite prev_del_find in H.
  destruct (memk k kp) eqn:Em; [discriminate|]. split; [eapply findk_keys; eauto|apply memk_false; auto].
Qed.

Lemma HInv_any b s : HInv false s -> HInv b s.
Proof. destruct b; auto. intros [Hp H]. split; auto. apply HV_weaken; auto. Qed.

Lemma H_finish b rk rv ce loie absent lwc hv s :
  HInv b s ->
  (forall k, In k (kept loie absent rk) -> held s k) ->
  (forall c p, cpv s = Some (c, p) -> forall k, In k (kept loie absent rk) -> ~ In k (flags s)) ->
  HInv b (finish_lock rk rv ce loie absent lwc hv s).
Proof.
  intros [Hp (H1 & H2 & H3)] Hk Hnf. unfold finish_lock. set (kp := kept loie absent rk) in *.
  destruct (agg s) as [a|] eqn:Ea.
  - set (E := fun k => mkE rv ce lwc (ex_of hv rv ce lwc absent k)).
    change (fold_left _ kp (cur a)) with (cur_add E kp (cur a)). fold (prev_del kp (prev a)).
    split; [exact Hp|]. unfold cpv in *. simpl. rewrite Ea in *.
    destruct (H3 _ _ eq_refl) as (A & B & C & D).
    split; auto. split; auto. intros c p Ecp. injection Ecp as E1 E2. subst c p. repeat split.
    + intros k Hin. apply keys_cur_add in Hin. destruct Hin; auto. apply Hk; auto.
    + intros Hb k Hin. apply keys_prev_del in Hin. destruct Hin. auto.
    + intros k Hin. apply in_app_or in Hin. destruct Hin as [Hin|Hin].
      * apply keys_cur_add in Hin. destruct Hin as [Hin|Hin]; [eapply Hnf; eauto|apply C; apply in_or_app; auto].
      * apply keys_prev_del in Hin. destruct Hin. apply C. apply in_or_app; auto.
    + intros k Hin Hin2. apply keys_prev_del in Hin2. destruct Hin2 as [P1 P2].
      apply keys_cur_add in Hin. destruct Hin as [Hin|Hin]; [auto|exact (D k Hin P1)].
  - split; [exact Hp|]. unfold cpv in *. simpl. rewrite Ea in *. split; auto. split; [|intros; discriminate].
    intros k Hin. apply in_app_or in Hin. destruct Hin; auto. apply Hk; auto.
Qed.

Lemma HV_cp_sub stv tk fl c c' p :
  HV true stv tk fl (Some (c, p)) -> (forall k, In k c' -> In k c) -> HV true stv tk fl (Some (c', p)).
Proof.
  intros (H1 & H2 & H3) Hs. destruct (H3 _ _ eq_refl) as (A & B & C & D).
  split; auto. split; auto. intros c0 p0 E. injection E as E1 E2. subst c0 p0. split; [|split; [|split]].
  - intros k Hin. auto.
  - intros; discriminate.
  - intros k Hin. apply C. apply in_app_or in Hin. apply in_or_app. destruct Hin; auto.
  - intros k Hin. auto.
Qed.

Definition fresh_tasks (s : st) (f : ts) : Prop := forall ks' f', In (TPessRb ks' f') (tasks s) -> f' < f.

Lemma core_fail_view all rk assigned rv ce loie f o s e :
  lo_res o = Some e ->
  let s' := lock_rpc_core all rk assigned rv ce loie f o s in
  let lf := N.max f (eff_lwc s rk o) in
  store s' = fold_right (put_pess lf) (store s) (eff_locked rk loie o) /\ flags s' = flags s /\ pess s' = pess s /\
  valid s' = valid s /\
  ((many rk || may_be_locked e) = true ->
     tasks s' = tasks s ++ [TPessRb all lf] /\
     cpv s' = match agg s with
              | Some a => Some (keys_of (filter (fun p => negb (memk (fst p) all)) (cur a)), keys_of (prev a))
              | None => None
              end) /\
  ((many rk || may_be_locked e) = false -> tasks s' = tasks s /\ cpv s' = cpv s).
Proof.
  intros Hr. unfold lock_rpc_core. rewrite Hr. open_state s. unfold cpv. cbn [agg set_store].
  destruct ag as [a|]; destruct assigned; destruct (many rk || may_be_locked e); simpl;
    repeat split; auto; intros; try discriminate; reflexivity.
Qed.

Lemma H_core_fail all rk assigned rv ce loie f o s e b :
  lo_res o = Some e -> HInv b s -> fresh_tasks s f ->
  (forall k, In k all -> ~ In k (flags s)) ->
  HInv true (lock_rpc_core all rk assigned rv ce loie f o s).
Proof.
  intros Hr [Hp H] Hts Hnf.
  pose proof (core_fail_view all rk assigned rv ce loie f o s e Hr) as V. cbv zeta in V.
  destruct V as (V1 & V2 & V3 & V4 & V5 & V6).
  set (lf := N.max f (eff_lwc s rk o)) in *.
  assert (H' : HV true (fold_right (put_pess lf) (store s) (eff_locked rk loie o)) (tasks s) (flags s) (cpv s)).
  { destruct b; [|apply HV_weaken]; apply HV_refresh; auto; intros ks' f' Hin; pose proof (Hts ks' f' Hin); lia. }
  split; [congruence|]. rewrite V1, V2.
  destruct (many rk || may_be_locked e).
  - destruct (V5 eq_refl) as [T1 T2]. rewrite T1, T2. unfold cpv in H'.
    destruct (agg s) as [a|].
    + apply HV_task; auto.
      * eapply HV_cp_sub; [exact H'|]. intros k Hin. unfold keys_of in *. apply in_map_iff in Hin.
        destruct Hin as (x & X1 & X2). apply filter_In in X2. apply in_map_iff. exists x. tauto.
      * intros c p Ecp k Hk. injection Ecp as E1 E2. subst c p. split; [|intros; discriminate].
        intros Hin. unfold keys_of in Hin. apply in_map_iff in Hin. destruct Hin as (x & X1 & X2). apply filter_In in X2.
        destruct X2 as [_ X2]. apply negb_true_iff, memk_false in X2. subst k. auto.
    + apply HV_task; auto. intros; discriminate.
  - destruct (V6 eq_refl) as [T1 T2]. rewrite T1, T2. exact H'.
Qed.

Definition pre_finish (rk : list key) (assigned loie : bool) (f : ts) (o : lock_out) (s : st) : st :=
  let lwc := eff_lwc s rk o in
  let lf := N.max f lwc in
  let s1 := set_store (fold_right (put_pess lf) (store s) (eff_locked rk loie o)) s in
  let s2 := match agg s1 with
            | Some a => set_agg (Some (a_maxc (N.max (amaxc a) lwc) a)) s1
            | None => s1
            end in
  if assigned && loie then
    match primary s2 with
    | Some p => if memk p (lo_absent o) then set_primary None s2 else s2
    | None => s2
    end
  else s2.

Lemma core_ok_eq all rk assigned rv ce loie f o s :
  lo_res o = None ->
  lock_rpc_core all rk assigned rv ce loie f o s =
  finish_lock rk rv ce loie (lo_absent o) (eff_lwc s rk o) true (pre_finish rk assigned loie f o s).
Proof. intros Hr. unfold lock_rpc_core, pre_finish. rewrite Hr. reflexivity. Qed.

Lemma pre_finish_view rk assigned loie f o s :
  let s' := pre_finish rk assigned loie f o s in
  store s' = fold_right (put_pess (N.max f (eff_lwc s rk o))) (store s) (eff_locked rk loie o) /\
  tasks s' = tasks s /\ flags s' = flags s /\ cpv s' = cpv s /\ pess s' = pess s /\ valid s' = valid s.
Proof.
  unfold pre_finish. open_state s. unfold cpv. cbn [agg set_store].
  destruct ag as [a|]; destruct (assigned && loie); try destruct a8 as [q|]; simpl;
    try destruct (memk q (lo_absent o)); simpl; repeat split; reflexivity.
Qed.

Lemma eff_locked_ok rk loie o k :
  lo_res o = None -> In k (kept loie (lo_absent o) rk) ->
  (In k (lo_locked o) \/ (loie = true /\ In k (lo_absent o))) -> In k (eff_locked rk loie o).
Proof.
  intros Hr Hk Hs. unfold eff_locked, hard_single. rewrite Hr, andb_false_r.
  apply kept_In in Hk. destruct Hk as [K1 K2].
  destruct Hs as [Hs|[Hl Ha]]; [|exfalso; exact (K2 Hl Ha)].
  apply filter_In. split; auto. apply andb_true_iff. split; [apply memk_In; auto|].
  apply negb_true_iff. destruct loie; auto. simpl. apply memk_false. auto.
Qed.

Lemma H_core_ok all rk assigned rv ce loie f o s :
  lo_res o = None -> HInv false s -> fresh_tasks s f ->
  (forall k, In k rk -> In k (lo_locked o) \/ (loie = true /\ In k (lo_absent o))) ->
  (forall c p, cpv s = Some (c, p) -> forall k, In k rk -> ~ In k (flags s)) ->
  HInv false (lock_rpc_core all rk assigned rv ce loie f o s).
Proof.
  intros Hr [Hp H] Hts Hst Hnf. rewrite core_ok_eq; auto.
  pose proof (pre_finish_view rk assigned loie f o s) as V. cbv zeta in V. destruct V as (V1 & V2 & V3 & V4 & V5 & V6).
  set (s3 := pre_finish rk assigned loie f o s) in *. set (lf := N.max f (eff_lwc s rk o)) in *.
  assert (Hlf : forall ks' f', In (TPessRb ks' f') (tasks s) -> f' < lf).
  { intros ks' f' Hin. pose proof (Hts ks' f' Hin). lia. }
  apply H_finish.
  - split; [congruence|]. rewrite V1, V2, V3, V4. apply HV_refresh; auto.
  - intros k Hk. unfold held. rewrite V1, V2. destruct H as (H1 & _).
    apply heldv_new; auto. apply eff_locked_ok; auto. apply Hst. apply kept_In in Hk. tauto.
  - intros c p Ecp k Hk. rewrite V3. rewrite V4 in Ecp. eapply Hnf; eauto. apply kept_In in Hk. tauto.
Qed.

Lemma cpv_agg_same s s' : agg_same (agg s) (agg s') -> cpv s' = cpv s.
Proof.
  unfold agg_same, cpv. destruct (agg s) as [a|]; destruct (agg s') as [b|]; try tauto. intros (A1 & A2 & _). rewrite A1, A2. auto.
Qed.

Lemma H_prep b keys f s : HInv b s -> HInv b (prep keys f s).
Proof.
  pose proof (prep_props keys f s) as P. cbv zeta in P.
  destruct P as (P1 & P2 & P3 & P4 & P5 & P6 & P7 & P8 & P9 & P10).
  apply HInv_view; auto. apply cpv_agg_same; auto.
Qed.

(* a key is taken over from the previous attempt without a request *)
Lemma H_skip s a k e e' :
  HInv false s -> agg s = Some a -> findk k (prev a) = Some e ->
  HInv false (set_agg (Some (a_cur ((k, e') :: delk k (cur a)) (a_prev (delk k (prev a)) a))) s).
Proof.
  intros [Hp (H1 & H2 & H3)] Ha Hf. split; [exact Hp|]. unfold cpv in *. simpl. rewrite Ha in H3.
  destruct (H3 _ _ eq_refl) as (A & B & C & D).
  assert (Hkp : In k (keys_of (prev a))) by (eapply findk_keys; eauto).
  assert (Hdel : forall {X} (l : list (key * X)) x, In x (keys_of (delk k l)) -> In x (keys_of l) /\ x <> k).
  { intros X l x Hin. unfold keys_of in *. apply in_map_iff in Hin. destruct Hin as (y & Y1 & Y2). apply In_delk in Y2.
    destruct Y2. subst x. split; auto. apply in_map_iff. exists y; auto. }
  split; auto. split; auto. intros c p Ecp. injection Ecp as E1 E2. subst c p. split; [|split; [|split]].
  - intros x [<-|Hin]; [apply B; auto|]. apply Hdel in Hin. apply A. tauto.
  - intros _ x Hin. apply Hdel in Hin. apply B; tauto.
  - intros x Hin. apply C. apply in_or_app. apply in_app_or in Hin. destruct Hin as [[<-|Hin]|Hin]; auto.
    + apply Hdel in Hin. tauto.
    + apply Hdel in Hin. tauto.
  - intros x Hin Hin2. apply Hdel in Hin2. destruct Hin2 as [P1 P2]. destruct Hin as [<-|Hin]; [congruence|].
    apply Hdel in Hin. destruct Hin. exact (D x H P1).
Qed.

Definition store_ok (ks : list key) (loie : bool) (o : lock_out) : Prop :=
  lo_res o = None -> forall k, In k ks -> In k (lo_locked o) \/ (loie = true /\ In k (lo_absent o)).

Lemma H_lock_rpc b all rk assigned rv ce loie f o s :
  HInv b (lock_rpc_core all rk assigned rv ce loie f o s) -> HInv b (lock_rpc all rk assigned rv ce loie f o s).
Proof. unfold lock_rpc. apply HInv_view; reflexivity. Qed.

Lemma H_rpc all rk assigned rv ce loie f o s :
  HInv false s -> fresh_tasks s f ->
  (forall k, In k all -> ~ In k (flags s)) -> (forall k, In k rk -> In k all) ->
  store_ok rk loie o ->
  HInv (failed o) (lock_rpc all rk assigned rv ce loie f o s).
Proof.
  intros H Hts Hnf Hsub Hst. apply H_lock_rpc. unfold failed, store_ok in *. destruct (lo_res o) as [e|] eqn:Er.
  - eapply H_core_fail; eauto.
  - apply H_core_ok; auto.
Qed.

Lemma H_ka_reset b s : HInv b s -> HInv b (ka_reset s).
Proof.
  destruct (ka_ops_fields s ka_reset) as (K1&K2&K3&K4&_&_&_&_&K9&K10&_); auto.
  apply HInv_view; auto. unfold cpv. rewrite K10. auto.
Qed.

Lemma H_lock_pess keys rv ce loie f o s :
  HInv false s -> fresh_tasks s f ->
  (forall k, In k keys -> ~ In k (flags s)) ->
  (forall a, agg s = Some a -> exists k, keys = [k] /\ findk k (cur a) = None) ->
  store_ok (snd (lock_pess keys rv ce loie f o s)) loie o ->
  HInv (failed o) (fst (lock_pess keys rv ce loie f o s)).
Proof.
  intros HI Hts Hnf Hagg. unfold lock_pess.
  change (set_fu f (if match primary (set_committer true s) with None => true | Some _ => false end
                    then select_primary keys (set_committer true s) else set_committer true s))
    with (prep keys f s).
  pose proof (H_prep false keys f s HI) as HI4.
  pose proof (prep_props keys f s) as P. cbv zeta in P.
  destruct P as (P1 & P2 & P3 & P4 & P5 & P6 & P7 & P8 & P9 & P10).
  set (s4 := prep keys f s) in *.
  set (assigned := match primary (set_committer true s) with None => true | Some _ => false end).
  assert (Hts4 : fresh_tasks s4 f) by (unfold fresh_tasks; rewrite P4; exact Hts).
  assert (Hnf4 : forall k, In k keys -> ~ In k (flags s4)) by (rewrite P2; exact Hnf).
  destruct (agg s4) as [a4|] eqn:E4.
  - unfold agg_same in P10. destruct (agg s) as [a|] eqn:Ea; [|tauto]. destruct P10 as (A1 & A2 & A3).
    destruct (Hagg a eq_refl) as (k & Hk & Hnc). subst keys.
    rewrite filter_agg_single.
    assert (Hrpc : forall c : bool, store_ok [k] loie o ->
                   HInv (failed o) (lock_rpc [k] [k] assigned rv ce loie f o (if c then ka_reset s4 else s4))).
    { intros c Hst. apply H_rpc; auto.
      - destruct c; [apply H_ka_reset|]; auto.
      - destruct c; auto. destruct (ka_ops_fields s4 ka_reset) as (_&_&_&_&_&_&_&_&K9&_); auto.
        unfold fresh_tasks. rewrite K9. auto.
      - destruct c; auto. destruct (ka_ops_fields s4 ka_reset) as (_&K2&_); auto. rewrite K2. auto. }
    destruct (findk k (prev a4)) as [e|] eqn:Ep.
    + destruct (f <? e_lwc e) eqn:El.
      * simpl. intros _. rewrite set_agg_same; auto. apply HInv_any; auto.
      * destruct (if negb (aprim a4) || opt_eqb (alastpk a4) (apk a4) then if lo_expired o then None else try_skip e rv ce else None) as [e'|] eqn:Esk.
        -- simpl. intros _. apply HInv_any. apply H_skip with e; auto.
        -- simpl. rewrite set_agg_same; auto.
    + simpl. rewrite set_agg_same; auto.
  - simpl. intros Hst. apply H_rpc; auto.
Qed.

Lemma need_lock_notflag b s k : HInv b s -> need_lock s k = true -> ~ In k (flags s).
Proof.
  intros [_ (_ & _ & H3)] Hn. unfold need_lock in Hn. apply andb_true_iff in Hn. destruct Hn as [_ Hn].
  apply orb_true_iff in Hn. destruct Hn as [Hn|Hn].
  - unfold in_prev in Hn. unfold cpv in H3. destruct (agg s) as [a|]; [|discriminate].
    destruct (H3 _ _ eq_refl) as (_ & _ & C & _). apply C. apply in_or_app. right. apply memk_In. auto.
  - apply negb_true_iff, memk_false in Hn. auto.
Qed.

Definition fresh_ts (s : st) (f : ts) : Prop :=
  0 < f /\ fresh_tasks s f /\ (forall a, agg s = Some a -> N.max (fu s) (amaxc a) < f).

Lemma H_exit_agg ks s f :
  HInv false s -> fresh_ts s f -> HInv false (exit_agg ks s) /\ fresh_tasks (exit_agg ks s) f.
Proof.
  intros HI (_ & Hts & Ha). unfold exit_agg. destruct (agg s) as [a|] eqn:Ea; [|auto]. destruct (many ks); [|auto].
  split; [apply H_agg_done with false; auto|].
  pose proof (agg_done_view s a Ea) as AV. cbv zeta in AV. destruct AV as (_ & _ & _ & _ & _ & _ & E6).
  unfold fresh_tasks. rewrite E6. unfold with_task. destruct (keys_of (prev a)); auto.
  intros ks' f' Hin. apply in_app_or in Hin. destruct Hin as [Hin|[Hin|[]]]; [eapply Hts; eauto|].
  injection Hin as _ <-. apply Ha; auto.
Qed.

Lemma H_lock_keys ks rv ce loie f o s :
  HInv false s -> fresh_ts s f -> store_ok (snd (lock_keys_full ks rv ce loie f o s)) loie o ->
  HInv (failed o) (lock_keys ks rv ce loie f o s).
Proof.
  intros HI Hf. unfold lock_keys, lock_keys_full.
  destruct (H_exit_agg ks s f HI Hf) as [HI1 Hts1].
  assert (Hm1 : forall a, agg (exit_agg ks s) = Some a -> many ks = false).
  { intros a. unfold exit_agg. destruct (agg s) as [a0|] eqn:Ea; [|intros E; rewrite Ea in E; discriminate]. destruct (many ks); auto.
    pose proof (agg_done_view s a0 Ea) as AV. cbv zeta in AV. destruct AV as (_ & _ & _ & _ & E5 & _).
    unfold cpv in E5. intros E. rewrite E in E5. discriminate. }
  set (s1 := exit_agg ks s) in *.
  destruct (negb (pess s1) && match agg s1 with Some _ => true | None => false end); [intros _; apply HInv_any; exact HI1|].
  destruct (early_exists s1 ks); [intros _; apply HInv_any; exact HI1|].
  destruct (filter (need_lock s1) ks) as [|k0 r0] eqn:Ek; [intros _; apply HInv_any; exact HI1|]. rewrite <- Ek.
  destruct (loie && negb rv); [intros _; apply HInv_any; exact HI1|].
  destruct (loie && (negb (committer s1) || match primary s1 with None => true | Some _ => false end) && many (filter (need_lock s1) ks)); [intros _; apply HInv_any; exact HI1|].
  assert (Hkeys : forall k, In k (dedup_sort (filter (need_lock s1) ks)) -> In k ks /\ need_lock s1 k = true).
  { intros k Hk. apply (proj1 (dedup_sort_In _ _)) in Hk. apply (proj1 (filter_In _ _ _)) in Hk. auto. }
  destruct HI1 as [Hp1 HV1]. destruct Hf as (Hf0 & _). rewrite Hp1. apply N.ltb_lt in Hf0. rewrite Hf0. cbn [andb].
  apply H_lock_pess; auto.
  - split; auto.
  - intros k Hk. apply Hkeys in Hk. eapply need_lock_notflag; [split; eauto|tauto].
  - intros a Ha. pose proof (Hm1 a Ha) as Hm. apply many_false_cases in Hm.
    destruct Hm as [Hm|(k & Hm)]; rewrite Hm in *; [simpl in Ek; discriminate|].
    simpl in Ek. simpl. destruct (need_lock s1 k) eqn:En; [|discriminate].
    exists k. split; [reflexivity|].
    apply in_cur_findk with s1; auto. unfold need_lock in En.
    apply andb_true_iff in En. destruct En as [En _]. apply negb_true_iff in En. auto.
Qed.

(* ---- runs ---- *)
(* what the caller and the store owe on top of [wf_ev]: no LockKeys while blocked; a fresh for-update ts (greater than
   every ts used so far, hence than the ts of every pending rollback); the store reports success only if it locked every
   key it was asked to lock (or found it absent under lock-only-if-exists) *)
Definition held_contract (b : bool) (s : st) (e : ev) : Prop :=
  match e with
  | ELock ks rv ce loie f o => b = false /\ fresh_ts s f /\ store_ok (snd (lock_keys_full ks rv ce loie f o s)) loie o
  | _ => True
  end.
Fixpoint wf_run_held (b : bool) (s : st) (evs : list ev) : Prop :=
  match evs with
  | [] => True
  | e :: r => wf_ev s e /\ held_contract b s e /\ wf_run_held (next_blocked b s e) (step s e) r
  end.
Fixpoint blocked_after (b : bool) (s : st) (evs : list ev) : bool :=
  match evs with [] => b | e :: r => blocked_after (next_blocked b s e) (step s e) r end.

Definition J (b : bool) (s : st) : Prop := valid s = false \/ HInv b s.

Lemma HInv_noagg b b' s : agg s = None -> HInv b s -> HInv b' s.
Proof. intros Ha [Hp H]. split; auto. unfold cpv in *. rewrite Ha in *. eapply HV_nocp; eauto. Qed.

Lemma valid_agg_ops s :
  valid (agg_start s) = valid s /\ valid (agg_retry s) = valid s /\ valid (agg_cancel s) = valid s /\ valid (agg_done s) = valid s.
Proof.
  repeat split.
  - unfold agg_start. destruct (agg s); auto.
  - destruct (agg s) as [a|] eqn:Ea; [|unfold agg_retry; rewrite Ea; auto].
    pose proof (agg_retry_view s a Ea) as V. cbv zeta in V. tauto.
  - destruct (agg s) as [a|] eqn:Ea; [|unfold agg_cancel; rewrite Ea; auto].
    pose proof (agg_cancel_view s a Ea) as V. cbv zeta in V. tauto.
  - destruct (agg s) as [a|] eqn:Ea; [|unfold agg_done; rewrite Ea; auto].
    pose proof (agg_done_view s a Ea) as V. cbv zeta in V. tauto.
Qed.

Lemma valid_finishers s :
  (forall o, valid (commit o s) = false) /\ valid (rollback s) = false /\ (forall l, valid (rollback_l l s) = false).
Proof.
  repeat split; intros; [unfold commit|unfold rollback|unfold rollback_l];
    destruct (valid s) eqn:Ev; cbn [negb]; auto; destruct (pending s); auto.
  apply valid_commit_body.
Qed.

Lemma J_step b s e : J b s -> wf_ev s e -> held_contract b s e -> J (next_blocked b s e) (step s e).
Proof.
  intros HJ Hw Hc. unfold wf_ev in Hw.
  destruct (valid_agg_ops s) as (V1 & V2 & V3 & V4). destruct (valid_finishers s) as (F1 & F2 & F3).
  destruct HJ as [Hv|HI].
  - left. destruct e; simpl in *; auto; try congruence.
    + destruct (findk k (written s)); auto.
    + destruct Hw. congruence.
    + unfold run_nth. destruct (nth_error (tasks s) n); auto.
    + unfold run_some. destruct (nth_error (tasks s) n); auto.
  - destruct e; simpl in *; try (left; auto; fail); right.
    + revert HI. apply HInv_view; reflexivity.
    + revert HI. apply HInv_view; reflexivity.
    + revert HI. apply HInv_view; reflexivity.
    + revert HI. apply HInv_view; reflexivity.
    + destruct (findk k (written s)); auto; revert HI; apply HInv_view; reflexivity.
    + destruct Hc as (-> & Hf & Hst).
      pose proof (H_lock_keys ks rv ce loie f o s HI Hf Hst) as H.
      unfold in_agg. destruct (agg (lock_keys ks rv ce loie f o s)) eqn:Ea.
      * rewrite andb_true_r. exact H.
      * rewrite andb_false_r. eapply HInv_noagg; eauto.
    + apply H_agg_start; auto.
    + eapply H_agg_retry; eauto.
    + eapply H_agg_cancel; eauto.
    + eapply H_agg_done; eauto.
    + apply H_run_nth; auto.
    + apply H_run_some; auto.
Qed.

Lemma J_run b s evs : J b s -> wf_run_held b s evs -> J (blocked_after b s evs) (run s evs).
Proof.
  revert b s. induction evs as [|e r IH]; simpl; intros b s HJ Hw; auto.
  destruct Hw as (H1 & H2 & H3). apply IH; auto. apply J_step; auto.
Qed.

Lemma HInv_init : HInv false (init true).
Proof.
  split; [reflexivity|]. unfold cpv. simpl. split; [intros t []|]. split; [intros k []|]. intros; discriminate.
Qed.

Lemma tracked_keys_hold_locks evs :
  wf_run_held false (init true) evs ->
  let s := run (init true) evs in
  valid s = true ->
  forall k,
    (In k (flags s) \/ in_cur s k = true \/ (blocked_after false (init true) evs = false /\ in_prev s k = true)) ->
    exists l, In (k, l) (store s) /\ forall t, In t (tasks s) -> releases t (k, l) = false.
Proof.
  intros Hw s Hv k Hk.
  destruct (J_run false (init true) evs (or_intror HInv_init) Hw) as [Hf|[_ (H1 & H2 & H3)]]; [fold s in Hf; congruence|].
  fold s in H1, H2, H3. unfold cpv, in_cur, in_prev in *.
  destruct Hk as [Hk|Hk]; [exact (H2 k Hk)|].
  destruct (agg s) as [a|]; [|destruct Hk as [Hk|[_ Hk]]; discriminate].
  destruct (H3 _ _ eq_refl) as (A & B & _).
  destruct Hk as [Hk|[Hb Hk]]; [apply A|apply B; auto]; apply memk_In; auto.
Qed.

(* the executable contract of Contract.v implies the one the theorem assumes *)
Lemma held_contractb_sound b s e : held_contractb b s e = true -> held_contract b s e.
Proof.
  destruct e; simpl; auto. intros H.
  apply andb_true_iff in H. destruct H as [H H3]. apply andb_true_iff in H. destruct H as [H1 H2].
  split; [destruct b; auto; discriminate|]. split.
  - unfold fresh_tsb in H2. apply andb_true_iff in H2. destruct H2 as [H2 Ha]. apply andb_true_iff in H2. destruct H2 as [H0 Ht].
    split; [apply N.ltb_lt; auto|]. split.
    + intros ks' f' Hin. rewrite forallb_forall in Ht. specialize (Ht _ Hin). simpl in Ht. apply N.ltb_lt; auto.
    + intros a Ea. rewrite Ea in Ha. apply N.ltb_lt; auto.
  - unfold store_okb, store_ok in *. intros Hr. rewrite Hr in H3. rewrite forallb_forall in H3.
    intros k Hk. specialize (H3 k Hk). apply orb_true_iff in H3. destruct H3 as [H3|H3].
    + left. apply memk_In; auto.
    + right. apply andb_true_iff in H3. destruct H3. split; auto. apply memk_In; auto.
Qed.

Fixpoint wf_run_heldb (b : bool) (s : st) (evs : list ev) : bool :=
  match evs with
  | [] => true
  | e :: r => held_contractb b s e && wf_run_heldb (next_blocked b s e) (step s e) r
  end.
Lemma wf_run_heldb_sound b s evs : wf_run s evs -> wf_run_heldb b s evs = true -> wf_run_held b s evs.
Proof.
  revert b s. induction evs as [|e r IH]; simpl; intros b s Hw H; auto.
  destruct Hw as [W1 W2]. apply andb_true_iff in H. destruct H as [H1 H2].
  split; auto. split; [apply held_contractb_sound; auto|]. apply IH; auto.
Qed.
