(* Locks/ProofsInv.v — the bookkeeping invariant and its preservation by every step except LockKeys *)
From Coq Require Import List NArith ZArith Bool Lia.
From Verif Require Import Locks.Model Locks.ProofsBase.
Import ListNotations.
Open Scope N_scope.

Arguments N.max : simpl never.
Arguments N.leb : simpl never.
Arguments N.ltb : simpl never.
Arguments N.eqb : simpl never.
Arguments len : simpl never.
Arguments dedup_sort : simpl never.

(* ---- coverage ---- *)
Definition agg_entry (s : st) (k : key) (e : entry) : Prop :=
  exists a, agg s = Some a /\ (findk k (cur a) = Some e \/ findk k (prev a) = Some e).

Definition book_ok (s : st) : Prop := valid s = true /\ pess s = true /\ committer s = true.

(* the client still knows the lock and will release it with a sufficient for-update ts *)
(* key held in the current / previous aggressive-locking attempt; every release of such a key uses
   max(committer.forUpdateTS, maxLockedWithConflictTS) *)
Definition agg_cov (s : st) (k : key) (f' : ts) : Prop :=
  exists a e, agg s = Some a /\ (findk k (cur a) = Some e \/ findk k (prev a) = Some e) /\
              f' <= N.max (fu s) (amaxc a).
Definition cov_book (s : st) (p : slock) : Prop :=
  book_ok s /\
  match snd p with
  | Pess f' => (In (fst p) (flags s) /\ f' <= N.max (fu s) (cmaxc s)) \/ agg_cov s (fst p) f'
  | Prew => False
  end.
(* a pending background task will release it *)
Definition cov_task (s : st) (p : slock) : Prop := exists t, In t (tasks s) /\ releases t p = true.
Definition covered (s : st) (p : slock) : Prop := cov_book s p \/ cov_task s p.

Definition lwc_ok (s : st) : Prop :=
  forall a k e, agg s = Some a -> In (k, e) (cur a ++ prev a) -> e_lwc e <= amaxc a.
Definition agg_len (s : st) : Z :=
  match agg s with Some a => (len (cur a) + len (prev a))%Z | None => 0%Z end.
Definition cnt_ok (s : st) : Prop := (len (flags s) + agg_len s <= cnt s)%Z.

Definition Inv (s : st) : Prop :=
  (forall p, In p (store s) -> covered s p) /\ lwc_ok s /\ cnt_ok s.

(* ---- well-formed events: the API contract ---- *)
Definition hard_fail (o : lock_out) : bool :=
  match lo_res o with Some e => negb (may_be_locked e) | None => false end.

Definition wf_api (s : st) (e : ev) : Prop :=
  match e with
  | ELock ks rv ce loie f o => valid s = true /\ fu s <= f
  | ECommit _ | ERollback | ERollbackLost _ => pending s = false
  | _ => True
  end.
Definition wf_ev (s : st) (e : ev) : Prop := wf_api s e.

Fixpoint wf_run (s : st) (evs : list ev) : Prop :=
  match evs with [] => True | e :: r => wf_ev s e /\ wf_run (step s e) r end.
Fixpoint wf_run_api (s : st) (evs : list ev) : Prop :=
  match evs with [] => True | e :: r => wf_api s e /\ wf_run_api (step s e) r end.

(* ---- basic facts ---- *)
Lemma releases_pessrb k f' ks f : In k ks -> f' <= f -> releases (TPessRb ks f) (k, Pess f') = true.
Proof.
  intros H1 H2. simpl. apply andb_true_iff. split; [apply memk_In; auto | apply N.leb_le; auto].
Qed.

Lemma cov_task_add s t p : cov_task s p -> cov_task (add_task t s) p.
Proof. intros (t0 & H1 & H2). exists t0. split; auto. simpl. apply in_or_app; auto. Qed.

Lemma cov_task_new s t p : releases t p = true -> cov_task (add_task t s) p.
Proof. intros H. exists t. split; auto. simpl. apply in_or_app; right; simpl; auto. Qed.

Lemma cov_task_incl s s' p : (forall t, In t (tasks s) -> In t (tasks s')) -> cov_task s p -> cov_task s' p.
Proof. intros H (t & H1 & H2). exists t; auto. Qed.

Lemma Inv_init p : Inv (init p).
Proof.
  split; [|split].
  - simpl; tauto.
  - intros a k e H; discriminate.
  - unfold cnt_ok, agg_len; simpl. unfold len; simpl; lia.
Qed.

(* generic frame: nothing the coverage depends on shrinks *)
Lemma Inv_frame s s' :
  store s' = store s -> flags s' = flags s -> cnt s' = cnt s ->
  (forall t, In t (tasks s) -> In t (tasks s')) ->
  valid s' = valid s -> pess s' = pess s -> cmaxc s' = cmaxc s ->
  fu s <= fu s' -> (committer s = true -> committer s' = true) ->
  (forall k f', agg_cov s k f' -> agg_cov s' k f') ->
  (lwc_ok s -> lwc_ok s') -> (agg_len s' <= agg_len s)%Z ->
  Inv s -> Inv s'.
Proof.
  intros Hst Hfl Hcnt Htk Hv Hp Hcm Hfu Hco Hent Hlwc Hlen (HI & HL & HC).
  split; [|split]; auto.
  - intros p Hin. rewrite Hst in Hin. destruct (HI p Hin) as [[(B1 & B2 & B3) Hc]|Ht].
    + left. split; [unfold book_ok; rewrite Hv, Hp; auto|].
      destruct (snd p) as [f'|]; auto. destruct Hc as [[H1 H2]|H1].
      * left. rewrite Hfl, Hcm. split; auto. lia.
      * right. auto.
    + right. eapply cov_task_incl; eauto.
  - unfold cnt_ok in *. rewrite Hfl, Hcnt. lia.
Qed.


(* ---- set / insert / aggressive start ---- *)
Lemma Inv_written s x : Inv s -> Inv (set_written x s).
Proof. apply Inv_frame; simpl; auto; try lia; unfold agg_len; simpl; lia. Qed.

Lemma Inv_presume s x : Inv s -> Inv (set_presume x s).
Proof. apply Inv_frame; simpl; auto; try lia; unfold agg_len; simpl; lia. Qed.

Lemma Inv_primary s x : Inv s -> Inv (set_primary x s).
Proof. apply Inv_frame; simpl; auto; try lia; unfold agg_len; simpl; lia. Qed.

Lemma Inv_ka s x : Inv s -> Inv (set_ka x s).
Proof. apply Inv_frame; simpl; auto; try lia; unfold agg_len; simpl; lia. Qed.
Lemma Inv_ka_reset s : Inv s -> Inv (ka_reset s).
Proof. unfold ka_reset. destruct (ka s); auto using Inv_ka. Qed.
Lemma Inv_ka_close s : Inv s -> Inv (ka_close s).
Proof. unfold ka_close. destruct (ka s); auto using Inv_ka. Qed.
Lemma Inv_ka_run s : Inv s -> Inv (ka_run s).
Proof. unfold ka_run. destruct (ka s); auto. destruct (primary s); auto using Inv_ka. Qed.
Lemma Inv_reset_primary b s : Inv s -> Inv (reset_primary b s).
Proof. intros H. unfold reset_primary. destruct b; [apply Inv_primary; auto|apply Inv_ka_reset, Inv_primary; auto]. Qed.

(* field facts of the keep-alive operations *)
Lemma ka_ops_fields s :
  (forall f, f = ka_reset \/ f = ka_close \/ f = ka_run ->
     store (f s) = store s /\ flags (f s) = flags s /\ valid (f s) = valid s /\ pess (f s) = pess s /\
     committer (f s) = committer s /\ fu (f s) = fu s /\ cmaxc (f s) = cmaxc s /\ cnt (f s) = cnt s /\
     tasks (f s) = tasks s /\ agg (f s) = agg s /\ primary (f s) = primary s /\ written (f s) = written s).
Proof.
  intros f [E|[E|E]]; subst f; unfold ka_reset, ka_close, ka_run; destruct (ka s); try destruct (primary s) eqn:?; simpl; repeat split; auto.
Qed.

Lemma Inv_agg_start s : Inv s -> Inv (agg_start s).
Proof.
  unfold agg_start. destruct (agg s) eqn:Ea; auto.
  apply Inv_frame; simpl; auto; try lia.
  - intros k f' (a & e & Ha & _). congruence.
  - intros _ a k e Ha Hin. inversion Ha; subst. simpl in Hin. tauto.
  - unfold agg_len. rewrite Ea. simpl. unfold len; simpl; lia.
Qed.

(* ---- cleanupAggressiveLockingRedundantLocks ---- *)
Lemma cleanup_props a s :
  let s' := cleanup_redundant a s in
  store s' = store s /\ flags s' = flags s /\ agg s' = agg s /\ valid s' = valid s /\ pess s' = pess s /\
  committer s' = committer s /\ fu s' = fu s /\ cmaxc s' = cmaxc s /\
  cnt s' = (cnt s - len (prev a))%Z /\
  (forall t, In t (tasks s) -> In t (tasks s')) /\
  (forall k e f', findk k (prev a) = Some e -> f' <= N.max (fu s) (amaxc a) -> cov_task s' (k, Pess f')).
Proof.
  unfold cleanup_redundant. destruct (prev a) as [|x r] eqn:E; simpl.
  - repeat split; auto. unfold len; simpl; lia. intros; discriminate.
  - repeat split; auto.
    + intros t Ht. apply in_or_app; auto.
    + intros k e f' Hf Hle.
      exists (TPessRb (keys_of (x :: r)) (N.max (fu s) (amaxc a))). split.
      * apply in_or_app; right; simpl; auto.
      * apply releases_pessrb; [|lia]. eapply findk_keys; eauto.
Qed.

Ltac cleanup_facts a s :=
  let H := fresh "CP" in
  pose proof (cleanup_props a s) as H; cbv zeta in H;
  destruct H as (CPst & CPfl & CPag & CPva & CPpe & CPco & CPfu & CPcm & CPcn & CPtk & CPpv).

Lemma len_app {A} (l r : list A) : len (l ++ r) = (len l + len r)%Z.
Proof. unfold len. rewrite app_length. lia. Qed.
Lemma len_keys {A} (l : list (key * A)) : len (keys_of l) = len l.
Proof. unfold len, keys_of. rewrite map_length. auto. Qed.
Lemma len_nonneg {A} (l : list A) : (0 <= len l)%Z.
Proof. unfold len. lia. Qed.

(* ---- RetryAggressiveLocking ---- *)
Lemma Inv_agg_retry s : Inv s -> Inv (agg_retry s).
Proof.
  intros (HI & HL & HC). unfold agg_retry. destruct (agg s) as [a|] eqn:Ea; [|repeat split; auto].
  cleanup_facts a s. set (s1 := cleanup_redundant a s) in *.
  set (s2 := if aprim a then reset_primary true s1 else s1).
  assert (E2 : store s2 = store s1 /\ flags s2 = flags s1 /\ valid s2 = valid s1 /\ pess s2 = pess s1 /\
               committer s2 = committer s1 /\ fu s2 = fu s1 /\ cmaxc s2 = cmaxc s1 /\ cnt s2 = cnt s1 /\ tasks s2 = tasks s1)
    by (unfold s2; destruct (aprim a); simpl; repeat split; auto).
  destruct E2 as (Est & Efl & Eva & Epe & Eco & Efu & Ecm & Ecn & Etk).
  split; [|split].
  - intros p Hin. simpl in Hin. rewrite Est, CPst in Hin.
    destruct (HI p Hin) as [[(B1 & B2 & B3) Hc]|Ht].
    + destruct p as [k [f'|]]; simpl in Hc; [|tauto].
      destruct Hc as [[H1 H2]|(a0 & e & Ha0 & Hf & H2)].
      * left. split; [unfold book_ok; simpl; rewrite Eva, Epe, Eco, CPva, CPpe, CPco; auto|].
        simpl. left. rewrite Efl, CPfl, Efu, CPfu, Ecm, CPcm. auto.
      * rewrite Ea in Ha0. inversion Ha0; subst a0. destruct Hf as [Hf|Hf].
        -- left. split; [unfold book_ok; simpl; rewrite Eva, Epe, Eco, CPva, CPpe, CPco; auto|].
           simpl. right. eexists. exists e. split; [reflexivity|]. simpl. split; auto.
           rewrite Efu, CPfu. auto.
        -- right. assert (Hc : cov_task s1 (k, Pess f')) by (apply (CPpv k e f'); auto).
           eapply cov_task_incl; [|exact Hc]. intros t Ht. simpl. rewrite Etk. auto.
    + right. eapply cov_task_incl; [|exact Ht]. intros t Ht'. simpl. rewrite Etk. auto.
  - intros a' k e Ha' Hin. simpl in Ha'. inversion Ha'; subst a'. simpl in Hin. simpl.
    apply (HL a k e Ea). apply in_or_app; auto.
  - unfold cnt_ok, agg_len in *. simpl. rewrite Efl, Ecn, CPfl, CPcn. rewrite Ea in HC.
    unfold len in *. simpl. lia.
Qed.

(* ---- CancelAggressiveLocking ---- *)
Lemma Inv_agg_cancel s : Inv s -> Inv (agg_cancel s) /\ agg (agg_cancel s) = None /\
                                  valid (agg_cancel s) = valid s.
Proof.
  intros (HI & HL & HC). unfold agg_cancel. destruct (agg s) as [a|] eqn:Ea; [|repeat split; auto].
  cleanup_facts a s. set (s1 := cleanup_redundant a s) in *.
  set (s2 := if aprim a || alastprim a then reset_primary false s1 else s1).
  assert (E2 : store s2 = store s1 /\ flags s2 = flags s1 /\ valid s2 = valid s1 /\ pess s2 = pess s1 /\
               committer s2 = committer s1 /\ fu s2 = fu s1 /\ cmaxc s2 = cmaxc s1 /\ cnt s2 = cnt s1 /\ tasks s2 = tasks s1)
    by (unfold s2, reset_primary, ka_reset; destruct (aprim a || alastprim a); simpl; [destruct (ka s1)|]; simpl; repeat split; auto).
  destruct E2 as (Est & Efl & Eva & Epe & Eco & Efu & Ecm & Ecn & Etk).
  set (s3 := match cur a with
             | [] => s2
             | _ => add_task (TPessRb (keys_of (cur a)) (N.max (fu s2) (amaxc a))) (set_cnt (cnt s2 - len (cur a))%Z s2)
             end).
  assert (E3 : store s3 = store s2 /\ flags s3 = flags s2 /\ valid s3 = valid s2 /\ pess s3 = pess s2 /\
               committer s3 = committer s2 /\ fu s3 = fu s2 /\ cmaxc s3 = cmaxc s2 /\
               cnt s3 = (cnt s2 - len (cur a))%Z /\ (forall t, In t (tasks s2) -> In t (tasks s3)) /\
               (forall k e f', findk k (cur a) = Some e -> f' <= N.max (fu s2) (amaxc a) -> cov_task s3 (k, Pess f'))).
  { unfold s3. destruct (cur a) as [|x r] eqn:Ec.
    - repeat split; auto. unfold len; simpl; lia. intros; discriminate.
    - repeat split; auto.
      + intros t Ht. simpl. apply in_or_app; auto.
      + intros k e f' Hf Hle. exists (TPessRb (keys_of (x :: r)) (N.max (fu s2) (amaxc a))).
        split; [simpl; apply in_or_app; right; simpl; auto|].
        apply releases_pessrb; [|lia]. eapply findk_keys; eauto. }
  destruct E3 as (Fst & Ffl & Fva & Fpe & Fco & Ffu & Fcm & Fcn & Ftk & Fcv).
  split; [|split]; [|reflexivity|simpl; rewrite Fva, Eva, CPva; auto].
  split; [|split].
  - intros p Hin. simpl in Hin. rewrite Fst, Est, CPst in Hin.
    destruct (HI p Hin) as [[(B1 & B2 & B3) Hc]|Ht].
    + destruct p as [k [f'|]]; simpl in Hc; [|tauto].
      destruct Hc as [[H1 H2]|(a0 & e & Ha0 & Hf & H2)].
      * left. split; [unfold book_ok; simpl; rewrite Fva, Fpe, Fco, Eva, Epe, Eco, CPva, CPpe, CPco; auto|].
        simpl. left. rewrite Ffl, Efl, CPfl, Ffu, Efu, CPfu, Fcm, Ecm, CPcm. auto.
      * rewrite Ea in Ha0. inversion Ha0; subst a0. right. destruct Hf as [Hf|Hf].
        -- assert (Hc : cov_task s3 (k, Pess f')).
           { apply (Fcv k e f'); auto. rewrite Efu, CPfu. auto. }
           eapply cov_task_incl; [|exact Hc]. auto.
        -- assert (Hc : cov_task s1 (k, Pess f')) by (apply (CPpv k e f'); auto).
           eapply cov_task_incl; [|exact Hc]. intros t Ht. simpl. apply Ftk. rewrite Etk. auto.
    + right. eapply cov_task_incl; [|exact Ht]. intros t Ht'. simpl. apply Ftk. rewrite Etk. auto.
  - intros a' k e Ha'. simpl in Ha'. discriminate.
  - unfold cnt_ok, agg_len in *. simpl. rewrite Ffl, Fcn, Efl, Ecn, CPfl, CPcn. rewrite Ea in HC. lia.
Qed.

(* ---- DoneAggressiveLocking ---- *)
Lemma Inv_agg_done s : Inv s -> Inv (agg_done s).
Proof.
  intros HI0. unfold agg_done. destruct (agg s) as [a|] eqn:Ea; [|auto].
  assert (HI1 : Inv (if alastprim a && negb (aprim a) then ka_reset s else s)) by (destruct (alastprim a && negb (aprim a)); auto using Inv_ka_reset).
  assert (Ea1 : agg (if alastprim a && negb (aprim a) then ka_reset s else s) = Some a).
  { destruct (alastprim a && negb (aprim a)); auto. destruct (ka_ops_fields s ka_reset) as (_&_&_&_&_&_&_&_&_&E&_); auto. congruence. }
  revert HI1 Ea1. generalize (if alastprim a && negb (aprim a) then ka_reset s else s). clear HI0 Ea s. intros s (HI & HL & HC) Ea.
  cleanup_facts a s. set (s1 := cleanup_redundant a s) in *.
  split; [|split].
  - intros p Hin. simpl in Hin. rewrite CPst in Hin.
    destruct (HI p Hin) as [[(B1 & B2 & B3) Hc]|Ht].
    + destruct p as [k [f'|]]; simpl in Hc; [|tauto].
      destruct Hc as [[H1 H2]|(a0 & e & Ha0 & Hf & H2)].
      * left. split; [unfold book_ok; simpl; rewrite CPva, CPpe, CPco; auto|].
        simpl. left. rewrite CPfl, CPfu, CPcm. split; [apply in_or_app; auto|lia].
      * rewrite Ea in Ha0. inversion Ha0; subst a0. destruct Hf as [Hf|Hf].
        -- left. split; [unfold book_ok; simpl; rewrite CPva, CPpe, CPco; auto|].
           simpl. left. rewrite CPfl, CPfu, CPcm. split.
           ++ apply in_or_app; right. eapply findk_keys; eauto.
           ++ lia.
        -- right. assert (Hc : cov_task s1 (k, Pess f')) by (apply (CPpv k e f'); auto).
           eapply cov_task_incl; [|exact Hc]. auto.
    + right. eapply cov_task_incl; [|exact Ht]. auto.
  - intros a' k e Ha'. simpl in Ha'. discriminate.
  - unfold cnt_ok, agg_len in *. simpl. rewrite CPfl, CPcn. rewrite Ea in HC.
    rewrite len_app, len_keys. lia.
Qed.

(* ---- a background task runs ---- *)
Lemma Inv_run_nth n s : Inv s -> Inv (run_nth n s).
Proof.
  intros (HI & HL & HC). unfold run_nth. destruct (nth_error (tasks s) n) as [t|] eqn:En; [|repeat split; auto].
  split; [|split]; auto.
  intros p Hin. simpl in Hin. apply run_task_In in Hin. destruct Hin as [Hin Hrel].
  destruct (HI p Hin) as [Hb|(t0 & Ht0 & Hr0)].
  - left. destruct Hb as [B Hc]. split; auto.
  - right. destruct (In_remove_nth t0 n (tasks s) Ht0) as [H|H].
    + exists t0. split; auto.
    + rewrite En in H. inversion H; subst. congruence.
Qed.

Lemma releases_restrict ks t p : releases (restrict_task ks t) p = true -> releases t p = true.
Proof.
  destruct t as [l f|l|l]; simpl; destruct (snd p); intros H; auto;
    repeat match goal with
    | H : _ && _ = true |- _ => apply andb_true_iff in H; destruct H
    end;
    try (apply andb_true_iff; split; auto);
    match goal with H : memk _ (filter _ _) = true |- _ => apply memk_In in H; apply filter_In in H; apply memk_In; tauto end.
Qed.

Lemma Inv_run_some n ks s : Inv s -> Inv (run_some n ks s).
Proof.
  intros (HI & HL & HC). unfold run_some. destruct (nth_error (tasks s) n) as [t|] eqn:En; [|repeat split; auto].
  split; [|split]; auto.
  intros p Hin. simpl in Hin. apply run_task_In in Hin. destruct Hin as [Hin _].
  destruct (HI p Hin) as [[B Hc]|(t0 & Ht0 & Hr0)]; [left; split; auto|right; exists t0; auto].
Qed.

(* ---- Rollback ---- *)
Lemma Inv_of_tasks0 s s' :
  agg s' = None -> flags s' = flags s -> cnt s' = cnt s -> agg s = None -> cnt_ok s ->
  (forall p, In p (store s') -> cov_task s' p) -> Inv s'.
Proof.
  intros Ha' Hf Hc Ha HC Hcov. split; [|split].
  - intros p Hp. right. auto.
  - intros a k e H. congruence.
  - unfold cnt_ok, agg_len in *. rewrite Ha', Hf, Hc. rewrite Ha in HC. auto.
Qed.

Lemma Inv_rollback_body s : Inv s -> agg s = None -> Inv (rollback_body s).
Proof.
  intros (HI & HL & HC) Hag. unfold rollback_body.
  set (inner := if (cnt s =? 0)%Z then s else set_store (run_task (TPessRb (flags s) (N.max (fu s) (cmaxc s))) (store s)) s).
  assert (Ein : flags inner = flags s /\ cnt inner = cnt s /\ agg inner = agg s /\ tasks inner = tasks s /\
                forall p, In p (store inner) -> In p (store s) /\ (pess s && committer s = true -> cov_task s p)).
  { unfold inner. destruct (cnt s =? 0)%Z eqn:Ec; simpl; repeat split; auto.
    - intros Hpc. apply andb_true_iff in Hpc. destruct Hpc as [B2 B3].
      destruct (HI p H) as [[(B1 & _) Hc]|Ht]; auto. exfalso.
      destruct p as [k [f'|]]; simpl in Hc; [|tauto].
      destruct Hc as [[H1 H2]|(a0 & e & Ha0 & _ & _)]; [|congruence].
      apply Z.eqb_eq in Ec. unfold cnt_ok, agg_len in HC. rewrite Hag, Ec in HC.
      destruct (flags s); [inversion H1|]. unfold len in HC. simpl in HC. lia.
    - apply run_task_In in H. tauto.
    - intros Hpc. apply andb_true_iff in Hpc. destruct Hpc as [B2 B3]. apply run_task_In in H. destruct H as [Hin Hrel].
      destruct (HI p Hin) as [[(B1 & _) Hc]|Ht]; auto. exfalso.
      destruct p as [k [f'|]]; simpl in Hc; [|tauto].
      destruct Hc as [[H1 H2]|(a0 & e & Ha0 & _ & _)]; [|congruence].
      rewrite releases_pessrb in Hrel; auto. discriminate. }
  destruct Ein as (E1 & E2 & E3 & E4 & E5).
  destruct (pess s && committer s) eqn:Epc.
  - destruct (ka_ops_fields inner ka_close) as (K1&K2&K3&K4&K5&K6&K7&K8&K9&K10&_); auto.
    apply (Inv_of_tasks0 s); simpl; try congruence.
    intros p Hp. simpl in Hp. rewrite K1 in Hp. destruct (E5 p Hp) as [_ Hc]. destruct (Hc eq_refl) as (t & T1 & T2).
    exists t. simpl. rewrite K9, E4. auto.
  - apply (Inv_of_tasks0 s); simpl; auto.
    intros p Hp. simpl in Hp. destruct (HI p Hp) as [[(B1 & B2 & B3) _]|Ht].
    + rewrite B2, B3 in Epc. discriminate.
    + destruct Ht as (t & T1 & T2). exists t; auto.
Qed.

Lemma Inv_rollback s : Inv s -> pending s = false -> Inv (rollback s).
Proof.
  intros HInv Hp. unfold rollback. destruct (valid s) eqn:Ev; simpl; auto. rewrite Hp.
  destruct (Inv_agg_cancel s HInv) as (H1 & H2 & H3). apply Inv_rollback_body; auto.
Qed.

Lemma Inv_rollback_body_l lost s : Inv s -> agg s = None -> Inv (rollback_body_l lost s).
Proof.
  intros (HI & HL & HC) Hag. unfold rollback_body_l.
  set (thr := N.max (fu s) (cmaxc s)).
  set (s' := set_store (run_task (TPessRb (minus (flags s) lost) thr) (store s)) s).
  set (inner := if (cnt s =? 0)%Z then s
                else match filter (fun k => memk k lost) (flags s) with [] => s' | rest => add_task (TPessRb rest thr) s' end).
  assert (Ein : flags inner = flags s /\ cnt inner = cnt s /\ agg inner = agg s /\
                forall p, In p (store inner) -> In p (store s) /\ (pess s && committer s = true -> cov_task inner p)).
  { unfold inner. destruct (cnt s =? 0)%Z eqn:Ec.
    - repeat split; auto. intros Hpc. apply andb_true_iff in Hpc. destruct Hpc as [B2 B3].
      destruct (HI p H) as [[(B1 & _) Hc]|Ht]; auto. exfalso.
      destruct p as [k [f'|]]; simpl in Hc; [|tauto].
      destruct Hc as [[H1 H2]|(a0 & e & Ha0 & _ & _)]; [|congruence].
      apply Z.eqb_eq in Ec. unfold cnt_ok, agg_len in HC. rewrite Hag, Ec in HC.
      destruct (flags s); [inversion H1|]. unfold len in HC. simpl in HC. lia.
    - assert (Hcore : forall p, In p (store s') -> In p (store s) /\
                (pess s && committer s = true -> cov_task s' p \/
                   exists k f', p = (k, Pess f') /\ In k (filter (fun k => memk k lost) (flags s)) /\ f' <= thr)).
      { intros p Hp. simpl in Hp. apply run_task_In in Hp. destruct Hp as [Hin Hrel]. split; auto.
        intros Hpc. destruct (HI p Hin) as [[(B1 & _) Hc]|Ht]; [|left; destruct Ht as (t & T1 & T2); exists t; auto].
        destruct p as [k [f'|]]; simpl in Hc; [|tauto].
        destruct Hc as [[H1 H2]|(a0 & e & Ha0 & _ & _)]; [|congruence].
        right. exists k, f'. split; auto. split; auto. apply filter_In. split; auto.
        destruct (memk k lost) eqn:Em; auto. exfalso.
        rewrite releases_pessrb in Hrel; [discriminate| |exact H2].
        apply minus_In. split; auto. apply memk_false; auto. }
      destruct (filter (fun k => memk k lost) (flags s)) as [|r0 rr] eqn:Er.
      + repeat split; auto; try (apply Hcore; auto).
        intros Hpc. destruct (Hcore p H) as [_ Hc]. destruct (Hc Hpc) as [Hc'|(k & f' & _ & [] & _)]. exact Hc'.
      + repeat split; auto; try (apply (Hcore p); auto).
        intros Hpc. simpl in H. destruct (Hcore p H) as [_ Hc]. destruct (Hc Hpc) as [Hc'|(k & f' & E & Hk & Hle)].
        * apply cov_task_add. exact Hc'.
        * subst p. apply cov_task_new. apply releases_pessrb; auto. }
  destruct Ein as (E1 & E2 & E3 & E5).
  destruct (pess s && committer s) eqn:Epc.
  - destruct (ka_ops_fields inner ka_close) as (K1&K2&K3&K4&K5&K6&K7&K8&K9&K10&_); auto.
    apply (Inv_of_tasks0 s); simpl; try congruence.
    intros p Hp. simpl in Hp. rewrite K1 in Hp. destruct (E5 p Hp) as [_ Hc]. destruct (Hc eq_refl) as (t & T1 & T2).
    exists t. simpl. rewrite K9. auto.
  - apply (Inv_of_tasks0 s); simpl; auto.
    intros p Hp. simpl in Hp. destruct (HI p Hp) as [[(B1 & B2 & B3) _]|Ht].
    + rewrite B2, B3 in Epc. discriminate.
    + destruct Ht as (t & T1 & T2). exists t; auto.
Qed.

Lemma Inv_rollback_l lost s : Inv s -> pending s = false -> Inv (rollback_l lost s).
Proof.
  intros HInv Hp. unfold rollback_l. destruct (valid s) eqn:Ev; simpl; auto. rewrite Hp.
  destruct (Inv_agg_cancel s HInv) as (H1 & H2 & H3). apply Inv_rollback_body_l; auto.
Qed.
