(* Locks/Kill.v — the session's kill flag (kv.Variables.Killed: KILL QUERY, max execution time).
   The sender checks it only for INTERRUPTIBLE requests (tikvrpc.Request.IsInterruptible; the 2PC actions'
   isInterruptible agree): such a request fails without being sent.  The table below says which request types are
   interruptible; release requests are not, so a killed session still releases what it holds. *)
From Coq Require Import List NArith ZArith Bool Lia.
From Verif Require Import Locks.Model Locks.ProofsBase Locks.ProofsInv Locks.ProofsLockAll Locks.ProofsMain.
Import ListNotations.
Open Scope N_scope.

Inductive cmd := CGet | CPessLock | CPrewrite | CHeartBeat | CCheckTxnStatus | CResolveLock
               | CPessRollback | CBatchRollback | CCommit.
(* tikvrpc.Request.IsInterruptible *)
Definition interruptible (c : cmd) : bool :=
  match c with CPessRollback | CBatchRollback | CCommit => false | _ => true end.
Definition task_cmd (t : task) : cmd :=
  match t with TPessRb _ _ => CPessRollback | TCleanup _ => CBatchRollback | TCommitSec _ => CCommit end.

Section Table.
Variable intr : cmd -> bool.      (* the table in force *)
Definition goes_out (killed : bool) (c : cmd) : bool := negb (killed && intr c).

(* an interrupted LockKeys / Commit: nothing was sent, the call fails (the existing failure paths) *)
Definition kill_lock_out (o : lock_out) : lock_out := mkLO (lo_expired o) [] [] 0 (Some FOther).
Definition kill_commit_out (o : commit_out) : commit_out := mkCO (co_mode o) [] [] (co_unnecessary o) CPrewriteFail.

(* one event under the kill flag [killed]; a release request that does not go out is dropped, its error only logged
   (asyncPessimisticRollback, the clean-up goroutine, KVTxn.Rollback) *)
Definition kstep (s : st) (ke : bool * ev) : st :=
  let (killed, e) := ke in
  match e with
  | ELock ks rv ce loie f o =>
    step s (ELock ks rv ce loie f (if goes_out killed CPessLock then o else kill_lock_out o))
  | ECommit o => step s (ECommit (if goes_out killed CPrewrite then o else kill_commit_out o))
  | ERollback => if goes_out killed CPessRollback then step s ERollback else step s (ERollbackLost (flags s))
  | ERun n =>
    match nth_error (tasks s) n with
    | Some t => if goes_out killed (task_cmd t) then step s e else set_tasks (remove_nth n (tasks s)) s
    | None => s
    end
  | ERunSome n ks =>
    match nth_error (tasks s) n with
    | Some t => if goes_out killed (task_cmd t) then step s e else s
    | None => s
    end
  | _ => step s e
  end.
Fixpoint krun (s : st) (kevs : list (bool * ev)) : st :=
  match kevs with [] => s | ke :: r => krun (kstep s ke) r end.
Fixpoint kwf_run (s : st) (kevs : list (bool * ev)) : Prop :=
  match kevs with [] => True | ke :: r => wf_ev s (snd ke) /\ kwf_run (kstep s ke) r end.

(* the event the plain model sees *)
Definition kill_ev (ke : bool * ev) : ev :=
  let (killed, e) := ke in
  match e with
  | ELock ks rv ce loie f o => ELock ks rv ce loie f (if goes_out killed CPessLock then o else kill_lock_out o)
  | ECommit o => ECommit (if goes_out killed CPrewrite then o else kill_commit_out o)
  | _ => e
  end.

Hypothesis releases_not_interruptible :
  intr CPessRollback = false /\ intr CBatchRollback = false /\ intr CCommit = false.

Lemma release_goes_out killed t : goes_out killed (task_cmd t) = true.
Proof.
  destruct releases_not_interruptible as (H1 & H2 & H3).
  unfold goes_out. destruct t; simpl; rewrite ?H1, ?H2, ?H3, andb_false_r; reflexivity.
Qed.

Lemma kstep_step s ke : kstep s ke = step s (kill_ev ke).
Proof.
  destruct ke as [killed e]. destruct e; simpl; auto.
  - destruct releases_not_interruptible as (H1 & _). unfold goes_out. rewrite H1, andb_false_r. reflexivity.
  - unfold run_nth. destruct (nth_error (tasks s) n) as [t|] eqn:En; auto. rewrite release_goes_out. reflexivity.
  - unfold run_some. destruct (nth_error (tasks s) n) as [t|] eqn:En; auto. rewrite release_goes_out. reflexivity.
Qed.

Lemma wf_kill_ev s ke : wf_ev s (snd ke) -> wf_ev s (kill_ev ke).
Proof. destruct ke as [killed e]. destruct e; simpl; auto. Qed.

Lemma krun_run s kevs : krun s kevs = run s (map kill_ev kevs).
Proof. revert s. induction kevs as [|ke r IH]; simpl; intros s; auto. rewrite kstep_step. apply IH. Qed.

Lemma kwf_wf s kevs : kwf_run s kevs -> wf_run s (map kill_ev kevs).
Proof.
  revert s. induction kevs as [|ke r IH]; simpl; intros s H; auto. destruct H as [H1 H2].
  split; [apply wf_kill_ev; auto|]. rewrite <- kstep_step. auto.
Qed.
End Table.

(* the table of the code satisfies the hypothesis *)
Lemma code_table_ok :
  interruptible CPessRollback = false /\ interruptible CBatchRollback = false /\ interruptible CCommit = false.
Proof. auto. Qed.
