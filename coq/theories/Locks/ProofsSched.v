(* Locks/ProofsSched.v — request-level schedules of ONE failing LockKeys call: the lock requests of its
   batches and the pessimistic-rollback requests of its failure path, in the order the store serves them *)
From Coq Require Import List NArith ZArith Bool Lia.
From Verif Require Import Locks.Model Locks.ProofsBase Locks.ProofsInv.
Import ListNotations.
Open Scope N_scope.

Inductive req :=
| RLock (ks : list key) (f : ts)    (* the lock request of one batch, served (keys it locks; [] = it failed) *)
| RRb (ks : list key) (f : ts).     (* one batch of the asynchronous pessimistic rollback, served *)

Definition apply_req (r : req) (s : list slock) : list slock :=
  match r with
  | RLock ks f => fold_right (put_pess f) s ks
  | RRb ks f => run_task (TPessRb ks f) s
  end.
Definition exec (rs : list req) (s : list slock) : list slock := fold_left (fun s r => apply_req r s) rs s.

Definition is_rb (f : ts) (r : req) : Prop := match r with RRb _ f' => f' = f | RLock _ _ => False end.
Definition rb_keys (r : req) : list key := match r with RRb ks _ => ks | RLock _ _ => [] end.

Lemma exec_app a b s : exec (a ++ b) s = exec b (exec a s).
Proof. unfold exec. apply fold_left_app. Qed.

Lemma exec_rbs_In f rbs s l :
  (forall r, In r rbs -> is_rb f r) -> In l (exec rbs s) ->
  In l s /\ forall r, In r rbs -> releases (TPessRb (rb_keys r) f) l = false.
Proof.
  revert s. induction rbs as [|r rs IH]; intros s Hrb Hin.
  - split; auto. intros r [].
  - change (In l (exec rs (apply_req r s))) in Hin.
    apply IH in Hin; [|intros; apply Hrb; right; auto]. destruct Hin as [Hin Hrest].
    pose proof (Hrb r (or_introl eq_refl)) as Hr. destruct r as [ks f'|ks f']; simpl in Hr; [tauto|]. subst f'.
    simpl in Hin. apply run_task_In in Hin. destruct Hin as [Hin Hrel]. split; auto.
    intros r' [E|Hr']; [subst r'; exact Hrel|auto].
Qed.

(* what the code guarantees: LockKeys schedules the rollback only after EVERY lock request of the call was
   answered.  Then, whatever the order of the lock requests among themselves, whatever they locked, and however
   the rollback is batched / re-batched and ordered, no pessimistic lock of the call (for-update ts <= f) remains
   on any key of the call *)
Lemma rollback_after_all_locks all f locks rbs s k f' :
  (forall r, In r rbs -> is_rb f r) ->
  (forall k, In k all -> exists r, In r rbs /\ In k (rb_keys r)) ->
  In (k, Pess f') (exec (locks ++ rbs) s) -> In k all -> f < f'.
Proof.
  intros Hrb Hcov Hin Hk. rewrite exec_app in Hin.
  destruct (exec_rbs_In f rbs _ _ Hrb Hin) as [_ Hrel].
  destruct (Hcov k Hk) as (r & Hr & Hkr). specialize (Hrel r Hr). simpl in Hrel.
  apply memk_In in Hkr. rewrite Hkr in Hrel. simpl in Hrel. apply N.leb_gt in Hrel. exact Hrel.
Qed.

(* the reordering the code cannot tolerate (and never produces unmodified): a lock request of the call served
   after the rollback of its key leaves a lock nothing tracks *)
Lemma put_pess_leaves_lock f k s : exists l, In (k, l) (put_pess f k s).
Proof.
  unfold put_pess. destruct (findk k s) as [[f'|]|] eqn:E.
  - destruct (f' <? f); [eexists; left; reflexivity|]. exists (Pess f'). apply findk_In; auto.
  - exists Prew. apply findk_In; auto.
  - eexists; left; reflexivity.
Qed.

Lemma lock_after_rollback_leaves_lock pre k r f s : exists l, In (k, l) (exec (pre ++ [RLock (k :: r) f]) s).
Proof. rewrite exec_app. simpl. apply put_pess_leaves_lock. Qed.
