(* Locks/ProofsEarly.v — the key-exists error LockKeys returns before any request (pre-loop) is computed by the
   model ([early_exists]); what such an error means: nothing was sent, nothing changed, and the key is one this
   transaction inserted and already tracks as locked *)
From Coq Require Import List NArith ZArith Bool Lia.
From Verif Require Import Locks.Model Locks.ProofsBase Locks.ProofsInv Locks.ProofsCommit Locks.ProofsLock Locks.ProofsKA Locks.ProofsPrim.
Import ListNotations.
Open Scope N_scope.

Arguments N.max : simpl never.
Arguments N.eqb : simpl never.
Arguments N.ltb : simpl never.
Arguments N.leb : simpl never.
Arguments dedup_sort : simpl never.
Arguments len : simpl never.

(* the NeedCheckExists / PresumeKeyNotExists flags never appear by themselves *)
Definition ple (s s' : st) : Prop := forall k, In k (presume s') -> In k (presume s).

Lemma ple_refl s : ple s s.
Proof. intros k H; exact H. Qed.
Lemma ple_trans a b c : ple a b -> ple b c -> ple a c.
Proof. intros H1 H2 k H. apply H1, H2, H. Qed.
Lemma ple_eq s s' : presume s' = presume s -> ple s s'.
Proof. intros E k H. rewrite <- E. exact H. Qed.

Lemma ple_finish_lock rk rv ce loie absent lwc hv s : ple s (finish_lock rk rv ce loie absent lwc hv s).
Proof.
  unfold finish_lock, ple. open_state s. cbn [agg]. destruct ag as [a|]; simpl; auto.
  intros k H. apply minus_In in H. tauto.
Qed.

Lemma ple_lock_rpc_core all rk assigned rv ce loie f o s : ple s (lock_rpc_core all rk assigned rv ce loie f o s).
Proof.
  unfold lock_rpc_core. destruct (lo_res o) as [e|].
  - open_state s. cbn [agg set_store]. destruct ag as [a|]; destruct assigned; destruct (many rk || may_be_locked e); simpl;
      intros k H; simpl in H; apply minus_In in H; tauto.
  - eapply ple_trans; [|apply ple_finish_lock]. apply ple_eq.
    open_state s. cbn [agg set_store]. destruct ag as [a|]; destruct (assigned && loie); try destruct a8 as [q|]; simpl;
      try destruct (memk q (lo_absent o)); reflexivity.
Qed.

Lemma presume_ka_reset s : presume (ka_reset s) = presume s.
Proof. unfold ka_reset. open_state s. simpl. destruct a14; reflexivity. Qed.

Lemma ple_lock_pess keys rv ce loie f o s : ple s (fst (lock_pess keys rv ce loie f o s)).
Proof.
  unfold lock_pess.
  match goal with |- context [set_fu f ?x] => set (s4 := set_fu f x) end.
  assert (E4 : presume s4 = presume s).
  { unfold s4, select_primary. open_state s. cbn [primary set_committer]. destruct a8 as [q|]; [reflexivity|].
    cbn [agg set_committer]. destruct ag as [a|]; reflexivity. }
  destruct (agg s4) as [a|].
  - destruct (filter_agg a rv ce f (lo_expired o) (negb (aprim a) || opt_eqb (alastpk a) (apk a)) keys) as [[a' rk] err].
    destruct err; cbn [fst]; [apply ple_eq; exact E4|].
    match goal with |- context [if ?c then ka_reset ?x else ?x] => set (s6 := if c then ka_reset x else x) end.
    assert (E6 : presume s6 = presume s).
    { unfold s6. match goal with |- context [if ?c then _ else _] => destruct c end; rewrite ?presume_ka_reset; exact E4. }
    destruct rk as [|r0 rr]; cbn [fst]; [apply ple_eq; exact E6|].
    unfold lock_rpc. eapply ple_trans; [apply ple_eq; exact E6|].
    eapply ple_trans; [apply ple_lock_rpc_core|]. apply ple_eq. reflexivity.
  - cbn [fst]. unfold lock_rpc. eapply ple_trans; [apply ple_eq; exact E4|].
    eapply ple_trans; [apply ple_lock_rpc_core|]. apply ple_eq. reflexivity.
Qed.

Lemma ple_agg_done s : ple s (agg_done s).
Proof.
  unfold agg_done. open_state s. cbn [agg]. destruct ag as [a|]; [|apply ple_refl].
  unfold cleanup_redundant, ka_reset.
  destruct (alastprim a && negb (aprim a)); destruct a14; destruct (prev a) as [|pp0 pr0]; simpl;
    intros x H; simpl in H; apply minus_In in H; tauto.
Qed.

Lemma ple_exit_agg ks s : ple s (exit_agg ks s).
Proof. unfold exit_agg. destruct (agg s); [destruct (many ks)|]; try apply ple_refl. apply ple_agg_done. Qed.

Lemma ple_lock_keys ks rv ce loie f o s : ple s (lock_keys ks rv ce loie f o s).
Proof.
  unfold lock_keys, lock_keys_full. pose proof (ple_exit_agg ks s) as H1. set (s1 := exit_agg ks s) in *.
  destruct (negb (pess s1) && match agg s1 with Some _ => true | None => false end); [exact H1|].
  destruct (early_exists s1 ks); [exact H1|].
  destruct (filter (need_lock s1) ks) as [|k0 r0] eqn:Ek; [exact H1|]. rewrite <- Ek.
  destruct (loie && negb rv); [exact H1|].
  destruct (loie && (negb (committer s1) || match primary s1 with None => true | Some _ => false end) && many (filter (need_lock s1) ks)); [exact H1|].
  destruct (pess s1 && (0 <? f)).
  - eapply ple_trans; [exact H1|apply ple_lock_pess].
  - simpl. eapply ple_trans; [exact H1|apply ple_finish_lock].
Qed.

Lemma presume_agg_start s : presume (agg_start s) = presume s.
Proof. unfold agg_start. open_state s. cbn [agg]. destruct ag; reflexivity. Qed.
Lemma presume_agg_retry s : presume (agg_retry s) = presume s.
Proof.
  unfold agg_retry. open_state s. cbn [agg]. destruct ag as [a|]; [|reflexivity].
  unfold cleanup_redundant, reset_primary. destruct (aprim a); destruct (prev a); reflexivity.
Qed.
Lemma presume_agg_cancel s : presume (agg_cancel s) = presume s.
Proof.
  unfold agg_cancel. open_state s. cbn [agg]. destruct ag as [a|]; [|reflexivity].
  unfold cleanup_redundant, reset_primary, ka_reset.
  destruct (aprim a); destruct (alastprim a); destruct (prev a); destruct (cur a); destruct a14; reflexivity.
Qed.
Lemma presume_rollback_body s : presume (rollback_body s) = presume s.
Proof.
  unfold rollback_body, ka_close; open_state s; simpl.
  destruct (a13 && a7); simpl; auto; destruct (a5 =? 0)%Z; simpl; destruct a14; reflexivity.
Qed.
Lemma presume_rollback_body_l lost s : presume (rollback_body_l lost s) = presume s.
Proof.
  unfold rollback_body_l, ka_close; open_state s; simpl.
  destruct (a13 && a7); simpl; auto; destruct (a5 =? 0)%Z; simpl;
    try (destruct a14; reflexivity);
    destruct (filter (fun k => memk k lost) a2); destruct a14; reflexivity.
Qed.
Lemma presume_commit_body o s : presume (commit_body o s) = presume s.
Proof.
  rewrite commit_body_ka.
  assert (H0 : presume (commit_body0 o s) = presume s).
  { unfold commit_body0;
      destruct (mutations (co_unnecessary o) s); try reflexivity;
      destruct (co_mode o); destruct (co_res o); simpl; try reflexivity; try (destruct (pess s); reflexivity);
      try (match goal with |- context [primary_in ?m ?x] => destruct (primary_in m x) end; reflexivity). }
  destruct (ka s); auto.
Qed.

Lemma presume_step s e k :
  In k (presume (step s e)) -> In k (presume s) \/ e = EInsert k \/ e = EMark k.
Proof.
  destruct e; simpl; intros H; auto.
  - destruct H as [H|H]; [subst; auto|auto].
  - destruct H as [H|H]; [subst; auto|auto].
  - destruct (findk k0 (written s)); auto. simpl in H. apply minus_In in H. tauto.
  - left. eapply ple_lock_keys. exact H.
  - rewrite presume_agg_start in H. auto.
  - rewrite presume_agg_retry in H. auto.
  - rewrite presume_agg_cancel in H. auto.
  - left. eapply ple_agg_done. exact H.
  - left. revert H. unfold commit. destruct (valid s); cbn [negb]; auto. destruct (pending s); auto.
    rewrite presume_commit_body, presume_agg_cancel. auto.
  - left. revert H. unfold rollback. destruct (valid s); cbn [negb]; auto. destruct (pending s); auto.
    rewrite presume_rollback_body, presume_agg_cancel. auto.
  - left. revert H. unfold rollback_l. destruct (valid s); cbn [negb]; auto. destruct (pending s); auto.
    rewrite presume_rollback_body_l, presume_agg_cancel. auto.
  - left. revert H. unfold run_nth. destruct (nth_error (tasks s) n); auto.
  - left. revert H. unfold run_some. destruct (nth_error (tasks s) n); auto.
Qed.

Lemma presume_run s evs k :
  In k (presume (run s evs)) -> In k (presume s) \/ In (EInsert k) evs \/ In (EMark k) evs.
Proof.
  revert s. induction evs as [|e r IH]; simpl; intros s H; auto.
  destruct (IH _ H) as [H1|[H1|H1]]; auto.
  destruct (presume_step _ _ _ H1) as [H2|[H2|H2]]; auto.
Qed.

(* ---- what an early key-exists error means ---- *)
Lemma entry_of_tracked s k e : entry_of s k = Some e -> in_cur s k = true \/ in_prev s k = true.
Proof.
  unfold entry_of, in_cur, in_prev. destruct (agg s) as [a|]; [|discriminate].
  destruct (findk k (cur a)) eqn:E1.
  - intros _. left. apply memk_In. eapply findk_keys; eauto.
  - intros E2. right. apply memk_In. eapply findk_keys; eauto.
Qed.

Lemma early_exists_key s ks :
  early_exists s ks = true ->
  pess s = true /\
  exists k, In k ks /\ In k (presume s) /\ (In k (flags s) \/ in_cur s k = true \/ in_prev s k = true).
Proof.
  unfold early_exists. intros H. apply andb_true_iff in H. destruct H as [Hp H]. split; auto.
  apply existsb_exists in H. destruct H as (k & Hk & H). apply andb_true_iff in H. destruct H as [H1 H2].
  exists k. split; auto. split; [apply memk_In; auto|].
  destruct (entry_of s k) as [e|] eqn:Ee.
  - right. eapply entry_of_tracked; eauto.
  - left. apply andb_true_iff in H2. destruct H2 as [H2 _]. apply memk_In. auto.
Qed.

Lemma early_exists_sends_nothing ks rv ce loie f o s :
  early_exists (exit_agg ks s) ks = true ->
  lock_keys_full ks rv ce loie f o s = (exit_agg ks s, []).
Proof.
  intros H. unfold lock_keys_full. rewrite H.
  destruct (early_exists_key _ _ H) as [Hp _]. rewrite Hp. reflexivity.
Qed.

(* a call naming no key that carries the insert flags cannot fail early *)
Lemma early_exists_false_on_fresh s ks :
  (forall k, In k ks -> ~ In k (presume s)) -> early_exists s ks = false.
Proof.
  intros H. unfold early_exists. destruct (pess s); auto. simpl.
  apply not_true_is_false. intros E. apply existsb_exists in E. destruct E as (k & Hk & E).
  apply andb_true_iff in E. destruct E as [E _]. apply memk_In in E. exact (H k Hk E).
Qed.

Lemma early_key_exists_meaning p evs ks :
  let s := run (init p) evs in
  let s1 := exit_agg ks s in
  early_exists s1 ks = true ->
  (forall rv ce loie f o, lock_keys_full ks rv ce loie f o s = (s1, [])) /\
  exists k, In k ks /\ (In (EInsert k) evs \/ In (EMark k) evs) /\
            (In k (flags s1) \/ in_cur s1 k = true \/ in_prev s1 k = true).
Proof.
  intros s s1 H. split; [intros; apply early_exists_sends_nothing; exact H|].
  destruct (early_exists_key _ _ H) as (_ & k & Hk & Hpr & Htr).
  exists k. split; auto. split; auto.
  apply (ple_exit_agg ks s) in Hpr. apply presume_run in Hpr. simpl in Hpr. tauto.
Qed.

Lemma no_insert_no_early p evs ks :
  (forall k, In k ks -> ~ In (EInsert k) evs /\ ~ In (EMark k) evs) ->
  early_exists (exit_agg ks (run (init p) evs)) ks = false.
Proof.
  intros H. apply early_exists_false_on_fresh. intros k Hk Hpr.
  apply (ple_exit_agg ks _) in Hpr. apply presume_run in Hpr. simpl in Hpr.
  destruct (H k Hk). tauto.
Qed.
