(* Base/Lex.v — bytes as N, byte strings as list N, lexicographic order
   (= Go's bytes.Compare; cross-checked by the codec harness). *)
From Coq Require Export List NArith ZArith Lia Bool.
Export ListNotations.
Open Scope N_scope.

Notation byte := N (only parsing).
Notation bytes := (list N) (only parsing).

Definition wf_byte (b : N) : Prop := b < 256.
Definition wf_bytes (l : list N) : Prop := Forall wf_byte l.
Definition wf_byteb (b : N) : bool := b <? 256.
Definition wf_bytesb (l : list N) : bool := forallb wf_byteb l.

Fixpoint lex_cmp (a b : list N) : comparison :=
  match a, b with
  | [], [] => Eq
  | [], _ :: _ => Lt
  | _ :: _, [] => Gt
  | x :: a', y :: b' =>
      match N.compare x y with
      | Eq => lex_cmp a' b'
      | c => c
      end
  end.

Definition lex_lt a b := lex_cmp a b = Lt.
Definition lex_le a b := lex_cmp a b <> Gt.
Definition lex_ltb a b := match lex_cmp a b with Lt => true | _ => false end.
Definition lex_leb a b := match lex_cmp a b with Gt => false | _ => true end.
Definition bytes_eqb a b := match lex_cmp a b with Eq => true | _ => false end.

Lemma wf_bytesb_spec l : wf_bytesb l = true <-> wf_bytes l.
Proof.
  unfold wf_bytesb, wf_bytes. rewrite forallb_forall, Forall_forall.
  unfold wf_byteb, wf_byte. split; intros H x Hx; specialize (H x Hx).
  - apply N.ltb_lt; exact H.
  - apply N.ltb_lt; exact H.
Qed.

Lemma lex_cmp_refl a : lex_cmp a a = Eq.
Proof. induction a as [|x a IH]; cbn [lex_cmp]; [reflexivity|]. rewrite N.compare_refl. exact IH. Qed.

Lemma lex_cmp_eq a b : lex_cmp a b = Eq <-> a = b.
Proof.
  split; [|intros ->; apply lex_cmp_refl].
  revert b; induction a as [|x a IH]; intros [|y b]; cbn [lex_cmp]; try discriminate; [reflexivity|].
  destruct (N.compare x y) eqn:E; try discriminate.
  apply N.compare_eq in E; subst. intros H; f_equal; apply IH; exact H.
Qed.

Lemma lex_cmp_antisym a b : lex_cmp b a = CompOpp (lex_cmp a b).
Proof.
  revert b; induction a as [|x a IH]; intros [|y b]; cbn [lex_cmp]; try reflexivity.
  rewrite (N.compare_antisym x y). destruct (N.compare x y); cbn; [apply IH|reflexivity|reflexivity].
Qed.

Lemma lex_cmp_app_same p a b : lex_cmp (p ++ a) (p ++ b) = lex_cmp a b.
Proof. induction p as [|x p IH]; cbn [app lex_cmp]; [reflexivity|]. rewrite N.compare_refl; exact IH. Qed.

Lemma lex_cmp_lt_trans a b c : lex_cmp a b = Lt -> lex_cmp b c = Lt -> lex_cmp a c = Lt.
Proof.
  revert b c; induction a as [|x a IH]; intros [|y b] [|z c]; cbn [lex_cmp]; try discriminate; try reflexivity.
  destruct (N.compare x y) eqn:E1; destruct (N.compare y z) eqn:E2; try discriminate; intros H1 H2.
  - apply N.compare_eq in E1; apply N.compare_eq in E2; subst. rewrite N.compare_refl. eapply IH; eassumption.
  - apply N.compare_eq in E1; subst. rewrite E2; reflexivity.
  - apply N.compare_eq in E2; subst. rewrite E1; reflexivity.
  - rewrite N.compare_lt_iff in *. replace (N.compare x z) with Lt; [reflexivity|].
    symmetry; apply N.compare_lt_iff; lia.
Qed.

Lemma lex_cmp_nil_l b : lex_cmp [] b <> Gt.
Proof. destruct b; cbn; discriminate. Qed.

(* first difference: equal-length lists compare by their heads first *)
Lemma lex_cmp_app_eqlen a1 a2 b1 b2 :
  length a1 = length b1 ->
  lex_cmp (a1 ++ a2) (b1 ++ b2) =
    match lex_cmp a1 b1 with Eq => lex_cmp a2 b2 | c => c end.
Proof.
  revert b1; induction a1 as [|x a1 IH]; intros [|y b1] Hl; cbn in Hl; try discriminate; cbn [app lex_cmp].
  - reflexivity.
  - destruct (N.compare x y); [apply IH; lia|reflexivity|reflexivity].
Qed.

Lemma lex_ltb_lt a b : lex_ltb a b = true <-> lex_lt a b.
Proof. unfold lex_ltb, lex_lt. destruct (lex_cmp a b); split; congruence. Qed.

Lemma bytes_eqb_eq a b : bytes_eqb a b = true <-> a = b.
Proof. unfold bytes_eqb. rewrite <- lex_cmp_eq. destruct (lex_cmp a b); split; congruence. Qed.
