(* extraction of the Pipelined model — ExtrOcamlBasic only *)
Require Extraction.
Require Import ExtrOcamlBasic.
From Coq Require Import ZArith.
From Verif Require Import Pipelined.Model.
Extraction Language OCaml.
Extraction "pipelined_model.ml"
  init step run_from commit_attempt rstep rrun lookup insert
  resolved_regions resolved_regions_prefix run_on_range locate covers flushed_keys need_resolve
  upd_start upd_end next_key writes_of served_covers resolved_seq crun crash_state BinInt.Z.of_N.
