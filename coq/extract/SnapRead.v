(* extraction of the SnapRead model — ExtrOcamlBasic only; N/positive/nat stay inductive *)
Require Extraction.
Require Import ExtrOcamlBasic.
From Coq Require Import ZArith.
From Verif Require Import SnapRead.Model SnapRead.ModelRead.
Extraction Language OCaml.
Extraction "snapread_model.ml"
  read_at expected rows_of scan_req no_rpc get_data consume scan_loop scan norm_batch init_cursor canon
  locate_key locate_end_key
  classify get batch_get final_truth buffer_batch_get
  c_run c_final maxts Z.of_N.
