(* extraction of the Union model (C07) — ExtrOcamlBasic only *)
Require Extraction.
Require Import ExtrOcamlBasic.
From Coq Require Import ZArith.
From Verif Require Import Union.Model Union.ModelX Union.ModelP.
Extraction Language OCaml.
Extraction "union_model.ml"
  mbuf_empty step op_status staging_handle checkpoint_pos
  m_get m_iter m_iter_rev m_batch_get view buf_map union_iter union_iter_f
  xbuf_empty xstep ybuf_empty ystep x_get_flags x_has_presume_kne x_iter_flags x_snap_get x_snap_iter x_snap_iter_rev x_snap_batch_get revert_legalb
  x_history x_inspect_stage
  pbuf_empty pstep pu_get pu_batch_get
  Z.of_N. (* Z.of_N only pulls in the type z that ocaml/common/common.ml mentions *)
