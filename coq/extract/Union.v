(* extraction of the Union model (C07) — ExtrOcamlBasic only *)
Require Extraction.
Require Import ExtrOcamlBasic.
From Coq Require Import ZArith.
From Verif Require Import Union.Model.
Extraction Language OCaml.
Extraction "union_model.ml"
  mbuf_empty step op_status staging_handle checkpoint_pos
  m_get m_iter m_iter_rev m_batch_get view buf_map
  Z.of_N. (* Z.of_N only pulls in the type z that ocaml/common/common.ml mentions *)
