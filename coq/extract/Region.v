(* extraction of the Region model — ExtrOcamlBasic only; N/positive/nat stay inductive *)
Require Extraction.
Require Import ExtrOcamlBasic.
From Coq Require Import ZArith.
From Verif Require Import Region.Model Region.Converge Region.PdCodec Region.Peers Region.InvCheck Region.ReadCtx Region.GroupFilter Region.StoreResolve.
Extraction Language OCaml.
Extraction "region_model.ml"
  empty_cache contains contains_by_end search insert_region insert_new
  find_region_by_key try_find locate_by_id load_by_id
  batch_load_range batch_load_ranges load_regions_in_range locate_key_range batch_locate
  group_assign groups_of list_region_ids
  invalidate update_leader rpc_ctx on_send_fail re_resolve switch_work set_work invalidate_r store_epoch on_bucket_version_not_match update_buckets locate_bucket_full bk_ver on_epoch_not_match gc
  upd_entry expire_r set_flags get_by_verid entry_at
  merge_all ranges_after_key regions_have_gap new_region r_verid store_reply codec_pd new_region_peers cinv_parts cinvb truth_wfb hist_parts hist_okb rpc_ctx_read group_assign_f eq_start store_check
  Z.of_N (* only so that the type z exists for ocaml/common/common.ml *).
