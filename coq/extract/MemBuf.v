(* extraction of the MemBuf models (C08) — ExtrOcamlBasic only *)
Require Extraction.
Require Import ExtrOcamlBasic.
From Verif Require Import MemBuf.Model MemBuf.Art MemBuf.Batched MemBuf.ProofsBatchedL0 MemBuf.BatchedUse MemBuf.FlagPreds.
Extraction Language OCaml.
Extraction "membuf_model.ml"
  Z.of_N init0 init1 step0 step1 step01 flag_op_of_index reg1 wseq1 sseq1 stages1 log1 lex_cmp is_mutator unlimited insert_root lookup keys_of_tree nchildren kind_of seek_ge keys1 batched snapshot0 bopen1 bnext1 preds_word seek_first range_leaves.
