(* extraction of the RawKV model — ExtrOcamlBasic only; N/positive/nat stay inductive *)
Require Extraction.
Require Import ExtrOcamlBasic.
From Verif Require Import RawKV.Model RawKV.Stream.
Extraction Language OCaml.
Extraction "rawkv_model.ml"
  lex_cmp st_get srv_put srv_get st_del range loc_lo loc_hi loc_end_lo
  scan rscan drange_loop cksum cks_list batch_get batch_put bdel_rounds srv_cas spec_cas
  group_keys sub_batches key_chunks put_chunks all_served drange_run
  srv_batch_put srv_batch_delete append_batches client_scan client_rscan
  batch_put_args_ok scan_reqs rscan_reqs cksum_reqs drange_reqs Z.of_N.
