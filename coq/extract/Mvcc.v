(* extraction of the Mvcc model — ExtrOcamlBasic only; N/positive/nat stay inductive *)
Require Extraction.
Require Import ExtrOcamlBasic.
From Coq Require Import ZArith.
From Verif Require Import Mvcc.Model Mvcc.Spec Mvcc.ProofsLockMono Mvcc.Deadlock Mvcc.Handler.
Extraction Language OCaml.
Extraction "mvcc_model.ml" step get_ks set_ks max_ts oracle_ts spec_get spec_scan spec_rscan exclusive_ok gc_refused
  idem_cmd has_write prewrite_targets is_gc_over lock_of rolled_back committed empty_ks world_of in_range read_at unlocked lock_mono_ok commit_must_be_refused dstep handler_scan_lock
  Z.of_N (* type z is needed by ocaml/common/common.ml *).
