(* extraction of the C01 history checker — ExtrOcamlBasic only; N/positive stay inductive *)
Require Extraction.
Require Import ExtrOcamlBasic.
From Coq Require Import ZArith.
From Verif Require Import SI.Model.
Extraction Language OCaml.
Extraction "si_model.ml" si_ok obs_ok scan_ok hist_read hist_lookup get_txn_status cacheable cs_committed cs_rolledback status_from_lock
  Z.of_N Nat.add (* types z and nat are needed by ocaml/common/common.ml *).
