(* extraction of the Percolator acceptor — ExtrOcamlBasic only *)
Require Extraction.
Require Import ExtrOcamlBasic.
From Coq Require Import ZArith.
From Verif Require Import Percolator.System.
Extraction Language OCaml.
Extraction "percolator_model.ml" init stepr step run kget getc cn c_lm c_all c_pwok fb maxts Z.of_N Nat.add.
