(* extraction of the BatchRPC model — ExtrOcamlBasic only; nat stays inductive *)
Require Extraction.
Require Import ExtrOcamlBasic.
Require Import NArith ZArith.
From Verif Require Import BatchRPC.Model BatchRPC.System BatchRPC.RunLoop BatchRPC.Gate.
Extraction Language OCaml.
Extraction "batchrpc_model.ml"
  init step run lookup obs_identity obs_once obs_ok no_pending_of ids_of
  e_host e_st e_comp e_canceled e_ret next_id tab ent loops epoch closed outdated alloc
  xinit xstep xrun core chq inb pri asy sendloop ready round_ok quota_ok memb
  rl_exec rstep r_done
  gate_priority gate_admits gate_result rc_active icpt_runs
  Pos.succ N.succ Z.succ. (* positive/N/Z: only so that ocaml/common/common.ml type-checks *)
