(* extraction of the Backoff model — ExtrOcamlBasic only; Z/positive/nat stay inductive *)
Require Extraction.
Require Import ExtrOcamlBasic.
From Verif Require Import Backoff.Model Backoff.ProofsFloat.
Extraction Language OCaml.
Extraction "backoff_model.ml" step init_world get_types latest_errs expo killed_sig go_expo.
