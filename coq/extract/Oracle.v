(* extraction of the Oracle models — ExtrOcamlBasic only; Z/positive/nat stay inductive *)
Require Extraction.
Require Import ExtrOcamlBasic.
From Verif Require Import Oracle.Model Oracle.ModelSys Oracle.ModelVal Oracle.ModelInt Oracle.ModelTxn.
Extraction Language OCaml.
Extraction "oracle_model.ml"
  compose_ts extract_physical extract_logical is_expired until_expired
  get_last set_last get_ts validate_seq ts_time_sub commit_wait
  go_time_to_ts local_get_ts local_is_expired local_until_expired
  zle zlt zeq zadd zsub zmul zdiv z_to_n two62 two18 max_uint64
  init_sys step lowres
  init_vsys vstep voutcome_of
  stale_ts next_interval set_interval adjust set_last_arr min_interval mock_get_ts set_external cw_bound commit_txn ts_with_retry lstep init_lstate.
