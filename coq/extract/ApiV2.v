(* extraction of the ApiV2 model — ExtrOcamlBasic only; N/positive/nat stay inductive *)
Require Extraction.
Require Import ExtrOcamlBasic.
From Verif Require Import ApiV2.Model ApiV2.Pool ApiV2.PoolFail.
Extraction Language OCaml.
Extraction "apiv2_model.ml"
  prefix end_key encode_key decode_key encode_range decode_range decode_region_range
  encode_region_key decode_region_key encode_region_range
  decode_bucket_keys parse_keyspace_id decode_scan
  decode_region_error split_v2_key
  sendx send encode attach pool_get real upd wire_spec
  run lrun view proj_res proj_ops
  encode_int (* pulls in the type z that ocaml/common/common.ml refers to *).
