(* extraction of the RangeTask model (C14) — ExtrOcamlBasic only *)
Require Extraction.
Require Import ExtrOcamlBasic.
From Verif Require Import Base.Lex RangeTask.Model RangeTask.ModelView RangeTask.ModelLayout.
Extraction Language OCaml.
Extraction "rangetask_model.ml"
  Z.of_N Lex.lex_cmp run_on_range task_ok batch_end_of locate nth_next
  gc_resolve_range gc_resolve_range_l gc_resolve_range_v typed_view untyped_view gc_step wf_storeb primaries_okb check_all_secondaries check_all_secondaries_f gc_safe_point markers late_prewrite_accepted collect_v committed_at resolve_all read_at batch_resolve scan
  delete_range_task delete_range check_visibility snapshot_read run_read.
