(* extraction of the Locks model (C06) — ExtrOcamlBasic only; N/Z/positive/nat stay inductive *)
Require Extraction.
Require Import ExtrOcamlBasic.
From Verif Require Import Locks.Model Locks.Contract Locks.Kill.
Extraction Language OCaml.
Extraction "locks_model.ml" init step lock_keys_full drain run_nth run_some pending early_exists exit_agg held_contractb next_blocked interruptible.
