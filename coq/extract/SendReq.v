(* extraction of the SendReq model — ExtrOcamlBasic only; N/positive/nat stay inductive *)
Require Extraction.
Require Import ExtrOcamlBasic.
From Coq Require Import ZArith.
From Verif Require Import SendReq.Model SendReq.Cache.
Extraction Language OCaml.
Extraction "sendreq_model.ml" run run_st fresh_rep n_attempts n_rearms
  Z.of_N. (* Z.of_N only so that the shared common.ml (which mentions type z) compiles *)
