(* extraction of the Codec model — ExtrOcamlBasic only; N/Z/positive/nat stay inductive *)
Require Extraction.
Require Import ExtrOcamlBasic.
From Verif Require Import Codec.Model.
Extraction Language OCaml.
Extraction "codec_model.ml"
  encode_bytes decode_bytes lex_cmp
  int_to_cmp cmp_to_int u64_of_int int_of_u64 int_to_cmp_xor cmp_to_int_xor
  encode_uint encode_uint_desc encode_int encode_int_desc
  decode_uint decode_uint_desc decode_int decode_int_desc
  encode_uvarint decode_uvarint encode_varint decode_varint
  encode_cmp_uvarint encode_cmp_varint decode_cmp_uvarint decode_cmp_varint decode_cmp_varint_gen
  mvcc_encode mvcc_decode mem_encode_key mem_decode_key.
