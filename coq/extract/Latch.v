(* extraction of the Latch model — ExtrOcamlBasic only *)
Require Extraction.
Require Import ExtrOcamlBasic.
From Coq Require Import ZArith.
From Verif Require Import Latch.Model Latch.Slot.
Extraction Language OCaml.
Extraction "latch_model.ml"
  init_state exec acquire release acquire_slot release_slot recycle_slot gen_lock key_at complete client_okb slot_id round_pow2
  Z.of_N. (* Z.of_N only so that the shared common.ml (which mentions type z) compiles *)
