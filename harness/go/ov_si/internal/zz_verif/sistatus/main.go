//go:build verif

// Driver `sistatus` (property C01, resolver status cache): LockResolver.getTxnStatus with its memo (saveResolved /
// getResolved, TxnStatus.StatusCacheable) is driven across calls on ONE resolver per sequence. A client wrapper answers
// every CheckTxnStatus request with the scripted (lock_ttl, commit_version, action) and counts the requests.
// stdin:  one sequence per line:  <id> <txn>:<ttl>:<commit>:<action>,...
// stdout: <id> <ttl>.<commit>.<action>.<rpc sent 0/1>.<cacheable 0/1>.<committed 0/1>.<rolledback 0/1>,...
// The extracted Coq model (SI.Model.get_txn_status) must predict every field.
package main

import (
	"bufio"
	"context"
	"fmt"
	"os"
	"strconv"
	"strings"
	"sync/atomic"
	"time"

	"github.com/pingcap/kvproto/pkg/kvrpcpb"
	"github.com/tikv/client-go/v2/testutils"
	"github.com/tikv/client-go/v2/tikv"
	"github.com/tikv/client-go/v2/tikvrpc"
	"github.com/tikv/client-go/v2/txnkv/txnlock"
)

type script struct {
	ttl, commit uint64
	action      int32
}

type gate struct {
	tikv.Client
	cur  atomic.Pointer[script]
	rpcs atomic.Int64
}

func (g *gate) SendRequest(ctx context.Context, addr string, req *tikvrpc.Request, timeout time.Duration) (*tikvrpc.Response, error) {
	if req.Type == tikvrpc.CmdCheckTxnStatus {
		g.rpcs.Add(1)
		s := g.cur.Load()
		return &tikvrpc.Response{Resp: &kvrpcpb.CheckTxnStatusResponse{LockTtl: s.ttl, CommitVersion: s.commit, Action: kvrpcpb.Action(s.action)}}, nil
	}
	return g.Client.SendRequest(ctx, addr, req, timeout)
}

func b(x bool) int {
	if x {
		return 1
	}
	return 0
}

func main() {
	client, cluster, pdClient, err := testutils.NewMockTiKV("", nil)
	if err != nil {
		panic(err)
	}
	testutils.BootstrapWithSingleStore(cluster)
	g := &gate{}
	store, err := tikv.NewTestTiKVStore(client, pdClient, func(c tikv.Client) tikv.Client { g.Client = c; return g }, nil, 0)
	if err != nil {
		panic(err)
	}
	defer store.Close()
	probe := tikv.StoreProbe{KVStore: store}
	in := bufio.NewScanner(os.Stdin)
	in.Buffer(make([]byte, 1<<20), 1<<24)
	out := bufio.NewWriter(os.Stdout)
	defer out.Flush()
	for in.Scan() {
		f := strings.Fields(in.Text())
		if len(f) != 2 {
			continue
		}
		lr := probe.NewLockResolver()
		var res []string
		for _, call := range strings.Split(f[1], ",") {
			p := strings.Split(call, ":")
			txn, _ := strconv.ParseUint(p[0], 10, 64)
			ttl, _ := strconv.ParseUint(p[1], 10, 64)
			commit, _ := strconv.ParseUint(p[2], 10, 64)
			act, _ := strconv.ParseInt(p[3], 10, 32)
			g.cur.Store(&script{ttl: ttl, commit: commit, action: int32(act)})
			before := g.rpcs.Load()
			bo := tikv.NewBackofferWithVars(context.Background(), 1000, nil)
			var st txnlock.TxnStatus
			var err error
			func() {
				defer func() {
					if r := recover(); r != nil {
						err = fmt.Errorf("panic:%v", r)
					}
				}()
				st, err = lr.GetTxnStatus(bo, txn, []byte("k"), 100, 100, true, false, nil)
			}()
			if err != nil {
				res = append(res, "err:"+strings.ReplaceAll(err.Error(), " ", "_"))
				continue
			}
			res = append(res, fmt.Sprintf("%d.%d.%d.%d.%d.%d.%d", st.TTL(), st.CommitTS(), int(st.Action()), g.rpcs.Load()-before,
				b(st.StatusCacheable()), b(st.IsCommitted()), b(st.IsRolledBack())))
		}
		fmt.Fprintf(out, "%s %s\n", f[0], strings.Join(res, ","))
	}
}
