//go:build verif

// Driver `sistatus` (property C01, resolver status cache): LockResolver.getTxnStatus with its memo (saveResolved /
// getResolved, TxnStatus.StatusCacheable) is driven across calls on ONE resolver per sequence. A client wrapper answers
// every CheckTxnStatus request with the scripted (lock_ttl, commit_version, action) and counts the requests.
// stdin:  one sequence per line:  <id> <txn>:<ttl>:<commit>:<action>,...
// stdout: <id> <ttl>.<commit>.<action>.<rpc sent 0/1>.<cacheable 0/1>.<committed 0/1>.<rolledback 0/1>,...
// The extracted Coq model (SI.Model.get_txn_status) must predict every field.
//
// Mode L (getTxnStatusFromLock, the loop around it): a line  L <id> <call>,<call>,...  with
//   call = <txn>;<pess 0/1>;<ttl ms>;<answer>/<answer>/...   answer = <ttl>:<commit>:<action> | nf (TxnNotFound)
// runs the calls on ONE resolver; the lock's start ts is `age` ms (10 s) in the past on the store's oracle. Answer line:
//   L <id> <result>|<request>/<request>...,...   result = <ttl>.<commit>.<action> | err ; request = <rollback_if_not_exist>.<current_ts is max>.<resolving_pessimistic_lock>
// (a call whose script runs out gets an error answer from the wrapper and reports err).
package main

import (
	"bufio"
	"context"
	"fmt"
	"os"
	"strconv"
	"strings"
	"sync/atomic"
	"time"

	"github.com/pingcap/kvproto/pkg/kvrpcpb"
	"github.com/pingcap/log"
	"github.com/tikv/client-go/v2/oracle"
	"github.com/tikv/client-go/v2/testutils"
	"github.com/tikv/client-go/v2/tikv"
	"github.com/tikv/client-go/v2/tikvrpc"
	"github.com/tikv/client-go/v2/txnkv/txnlock"
	"go.uber.org/zap"
	"go.uber.org/zap/zapcore"
)

type script struct {
	ttl, commit uint64
	action      int32
	notFound    bool
}

type gate struct {
	tikv.Client
	cur  atomic.Pointer[script]
	rpcs atomic.Int64
	// mode L
	modeL bool
	queue []script
	reqs  []string
}

func (g *gate) SendRequest(ctx context.Context, addr string, req *tikvrpc.Request, timeout time.Duration) (*tikvrpc.Response, error) {
	if req.Type == tikvrpc.CmdCheckTxnStatus && g.modeL {
		r := req.CheckTxnStatus()
		g.reqs = append(g.reqs, fmt.Sprintf("%d.%d.%d", b(r.RollbackIfNotExist), b(r.CurrentTs == ^uint64(0)), b(r.ResolvingPessimisticLock)))
		if len(g.queue) == 0 {
			return nil, fmt.Errorf("script-end")
		}
		s := g.queue[0]
		g.queue = g.queue[1:]
		if s.notFound {
			return &tikvrpc.Response{Resp: &kvrpcpb.CheckTxnStatusResponse{Error: &kvrpcpb.KeyError{TxnNotFound: &kvrpcpb.TxnNotFound{StartTs: r.LockTs, PrimaryKey: r.PrimaryKey}}}}, nil
		}
		return &tikvrpc.Response{Resp: &kvrpcpb.CheckTxnStatusResponse{LockTtl: s.ttl, CommitVersion: s.commit, Action: kvrpcpb.Action(s.action)}}, nil
	}
	if req.Type == tikvrpc.CmdCheckTxnStatus {
		g.rpcs.Add(1)
		s := g.cur.Load()
		return &tikvrpc.Response{Resp: &kvrpcpb.CheckTxnStatusResponse{LockTtl: s.ttl, CommitVersion: s.commit, Action: kvrpcpb.Action(s.action)}}, nil
	}
	return g.Client.SendRequest(ctx, addr, req, timeout)
}

func b(x bool) int {
	if x {
		return 1
	}
	return 0
}

const ageMs = 10000

func modeL(g *gate, probe tikv.StoreProbe, store *tikv.KVStore, calls string) string {
	g.modeL = true
	defer func() { g.modeL = false }()
	lr := probe.NewLockResolver()
	var res []string
	now, err := store.GetOracle().GetTimestamp(context.Background(), &oracle.Option{TxnScope: oracle.GlobalTxnScope})
	if err != nil {
		panic(err)
	}
	for _, call := range strings.Split(calls, ",") {
		p := strings.Split(call, ";")
		txn, _ := strconv.ParseUint(p[0], 10, 64)
		ttl, _ := strconv.ParseUint(p[2], 10, 64)
		g.queue, g.reqs = nil, nil
		if p[3] != "-" {
			for _, a := range strings.Split(p[3], "/") {
				if a == "nf" {
					g.queue = append(g.queue, script{notFound: true})
					continue
				}
				q := strings.Split(a, ":")
				t, _ := strconv.ParseUint(q[0], 10, 64)
				c, _ := strconv.ParseUint(q[1], 10, 64)
				ac, _ := strconv.ParseInt(q[2], 10, 32)
				g.queue = append(g.queue, script{ttl: t, commit: c, action: int32(ac)})
			}
		}
		// distinct transactions: the id goes into the logical bits of a start ts `ageMs` in the past
		startTS := oracle.ComposeTS(oracle.ExtractPhysical(now)-ageMs, int64(txn))
		lt := kvrpcpb.Op_Put
		if p[1] == "1" {
			lt = kvrpcpb.Op_PessimisticLock
		}
		lock := &txnlock.Lock{Key: []byte("k2"), Primary: []byte("k"), TxnID: startTS, TTL: ttl, LockType: lt}
		bo := tikv.NewBackofferWithVars(context.Background(), 3000, nil)
		var st txnlock.TxnStatus
		done := make(chan struct{})
		go func() {
			defer close(done)
			defer func() {
				if r := recover(); r != nil {
					err = fmt.Errorf("panic:%v", r)
				}
			}()
			st, err = lr.GetTxnStatusFromLock(bo, lock, 100, false)
		}()
		select {
		case <-done:
		case <-time.After(8 * time.Second):
			// the resolver is stuck in this call (or loops): report and give up on the sequence
			return strings.Join(append(res, "hang|"+strings.Join(g.reqs[:min(len(g.reqs), 8)], "/")), ",")
		}
		r := "err"
		if err == nil {
			r = fmt.Sprintf("%d.%d.%d", st.TTL(), st.CommitTS(), int(st.Action()))
		}
		res = append(res, r+"|"+strings.Join(g.reqs, "/"))
	}
	return strings.Join(res, ",")
}

func main() {
	// the client logs to stdout; a log line written between two flushes of `out` would cut one of our lines in two
	log.ReplaceGlobals(zap.NewNop(), &log.ZapProperties{Level: zap.NewAtomicLevelAt(zapcore.FatalLevel)})
	client, cluster, pdClient, err := testutils.NewMockTiKV("", nil)
	if err != nil {
		panic(err)
	}
	testutils.BootstrapWithSingleStore(cluster)
	g := &gate{}
	store, err := tikv.NewTestTiKVStore(client, pdClient, func(c tikv.Client) tikv.Client { g.Client = c; return g }, nil, 0)
	if err != nil {
		panic(err)
	}
	defer store.Close()
	probe := tikv.StoreProbe{KVStore: store}
	in := bufio.NewScanner(os.Stdin)
	in.Buffer(make([]byte, 1<<20), 1<<24)
	out := bufio.NewWriter(os.Stdout)
	defer out.Flush()
	for in.Scan() {
		f := strings.Fields(in.Text())
		if len(f) == 3 && f[0] == "L" {
			fmt.Fprintf(out, "L %s %s\n", f[1], modeL(g, probe, store, f[2]))
			continue
		}
		if len(f) != 2 {
			continue
		}
		lr := probe.NewLockResolver()
		var res []string
		for _, call := range strings.Split(f[1], ",") {
			p := strings.Split(call, ":")
			txn, _ := strconv.ParseUint(p[0], 10, 64)
			ttl, _ := strconv.ParseUint(p[1], 10, 64)
			commit, _ := strconv.ParseUint(p[2], 10, 64)
			act, _ := strconv.ParseInt(p[3], 10, 32)
			g.cur.Store(&script{ttl: ttl, commit: commit, action: int32(act)})
			before := g.rpcs.Load()
			bo := tikv.NewBackofferWithVars(context.Background(), 1000, nil)
			var st txnlock.TxnStatus
			var err error
			func() {
				defer func() {
					if r := recover(); r != nil {
						err = fmt.Errorf("panic:%v", r)
					}
				}()
				st, err = lr.GetTxnStatus(bo, txn, []byte("k"), 100, 100, true, false, nil)
			}()
			if err != nil {
				res = append(res, "err:"+strings.ReplaceAll(err.Error(), " ", "_"))
				continue
			}
			res = append(res, fmt.Sprintf("%d.%d.%d.%d.%d.%d.%d", st.TTL(), st.CommitTS(), int(st.Action()), g.rpcs.Load()-before,
				b(st.StatusCacheable()), b(st.IsCommitted()), b(st.IsRolledBack())))
		}
		fmt.Fprintf(out, "%s %s\n", f[0], strings.Join(res, ","))
	}
}
