//go:build verif

package apicodec

// VerifMemEncodeKey / VerifMemDecodeKey expose memComparableCodec for the C19 driver (add-only).
func VerifMemEncodeKey(key []byte) []byte { return (&memComparableCodec{}).encodeKey(key) }

func VerifMemDecodeKey(b []byte) ([]byte, error) { return (&memComparableCodec{}).decodeKey(b) }
