//go:build verif

package mocktikv

// VerifMvccEncode / VerifMvccDecode expose mvccEncode / mvccDecode for the C19 driver (add-only).
func VerifMvccEncode(key []byte, ver uint64) []byte { return mvccEncode(key, ver) }

func VerifMvccDecode(b []byte) ([]byte, uint64, error) { return mvccDecode(b) }
