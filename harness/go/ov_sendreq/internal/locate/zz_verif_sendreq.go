//go:build verif

// C10 driver (in-package: needs replica selector internals, randIntn, store knobs).
// Runs RegionRequestSender.SendReqCtx on a 3-peer region against a scripted client.Client which
// answers attempt i with script[i] (default: success), records every attempt
// (replica idx, ReplicaRead, StaleRead, IsRetryRequest), every back-off (kind, sleep; sleeping is
// virtualised by the failpoint fastBackoffBySkipSleep), every random tie-break, and the result.
// One tab separated line per run; the property oracles are evaluated here on the implementation.
package locate

import (
	"bufio"
	"context"
	"errors"
	"fmt"
	"hash/fnv"
	"math/rand"
	"os"
	"reflect"
	"strconv"
	"strings"
	"sync/atomic"
	"time"

	"github.com/pingcap/kvproto/pkg/coprocessor"
	"github.com/pingcap/kvproto/pkg/errorpb"
	"github.com/pingcap/kvproto/pkg/kvrpcpb"
	"github.com/pingcap/kvproto/pkg/metapb"
	"github.com/pingcap/failpoint"
	"github.com/pingcap/log"
	"github.com/prometheus/client_golang/prometheus"
	"github.com/tikv/client-go/v2/config/retry"
	"github.com/tikv/client-go/v2/internal/apicodec"
	"github.com/tikv/client-go/v2/internal/client"
	"github.com/tikv/client-go/v2/internal/mockstore/mocktikv"
	"github.com/tikv/client-go/v2/kv"
	"github.com/tikv/client-go/v2/metrics"
	"github.com/tikv/client-go/v2/oracle"
	"github.com/tikv/client-go/v2/tikvrpc"
	"github.com/tikv/client-go/v2/util"
	"github.com/tikv/client-go/v2/util/async"
	"go.uber.org/zap"
	"go.uber.org/zap/zapcore"
)

const vfCap = 300          // hard cap of attempts answered by the script; afterwards: success
const vfMaxAttempt = 10    // maxReplicaAttempt (kept as an independent constant: the oracle must not follow a mutation)
const vfExclLimit = 600000 // isSleepExcluded[tikvServerBusy]

type vfCfg struct {
	rt         byte // L F M N(learner) P
	stale      bool
	read       bool
	label      int // -1 none, else store index that matches
	leaderOnly bool
	live       [3]byte // R U K
	slow       [3]bool
	thr        bool
	shortTO    bool
	ms         int
	val        bool
	learner    bool
	fw         bool
	cmd        int  // 0: CmdGet (read) / CmdPrewrite (write); else the tikvrpc.CmdType to send (read := isReadReq(cmd))
	inv        bool // the cached region is invalidated between locate and send (oracles only)
	tp         byte // req.StoreTp and endpoint type: K TiKV (default), F TiFlash (region with one TiFlash peer), D TiDB
	cx         string // the caller cancels the context: "-" never, "P" before the call, "A<i>" while attempt i is in flight, "B<j>" during the j-th back-off sleep
	kl         string // kv.Variables.Killed is set: same encoding
	async      bool   // go through SendReqAsync (failpoint useSendReqAsync)
	// multi-call sequences: pre = the scripts of the earlier SendReq calls on the same cached region ("/" between calls, "+" between
	// outcomes, "-" = empty script).  The call described by this configuration then starts from the cache state they left behind;
	// that state is OBSERVED before the call and reported: cached leader, memoised proxy, stale store epochs, load estimates
	// (plus lv / sl above).
	pre string
	nx  bool // another call on the same cached region follows (the model's end-of-call cache state is compared with what it finds)
	olv [3]byte // observed liveness / slow marks before this call (lv / sl stay the initial setting of the first call, for replay)
	osl [3]bool
	ld  int
	px  int
	es  [3]bool
	be  [3]bool
}

func vfTrigAt(t string, kind byte, n int) bool {
	if len(t) < 2 || t[0] != kind {
		return false
	}
	v, err := strconv.Atoi(t[1:])
	return err == nil && v == n
}

func vfInterruptible(t tikvrpc.CmdType) bool {
	return t != tikvrpc.CmdPessimisticRollback && t != tikvrpc.CmdBatchRollback && t != tikvrpc.CmdCommit
}

func b01(b bool) string {
	if b {
		return "1"
	}
	return "0"
}

func (c vfCfg) String() string {
	lb := "-"
	if c.label >= 0 {
		lb = strconv.Itoa(c.label)
	}
	return fmt.Sprintf("rt=%c,st=%s,rd=%s,lb=%s,lo=%s,lv=%s,sl=%s%s%s,thr=%s,to=%s,ms=%d,val=%s,lr=%s,fw=%s,cmd=%d,inv=%s,tp=%c,cx=%s,kl=%s,ir=%s,as=%s,ld=%d,px=%d,es=%s%s%s,be=%s%s%s,olv=%s,osl=%s%s%s,nx=%s,pre=%s",
		c.rt, b01(c.stale), b01(c.read), lb, b01(c.leaderOnly), string(c.live[:]), b01(c.slow[0]), b01(c.slow[1]), b01(c.slow[2]),
		b01(c.thr), b01(c.shortTO), c.ms, b01(c.val), b01(c.learner), b01(c.fw), c.cmd, b01(c.inv), c.tp, c.cx, c.kl, b01(c.cmd == 0 || vfInterruptible(tikvrpc.CmdType(c.cmd))), b01(c.async),
		c.ld, c.px, b01(c.es[0]), b01(c.es[1]), b01(c.es[2]), b01(c.be[0]), b01(c.be[1]), b01(c.be[2]), string(c.olv[:]), b01(c.osl[0]), b01(c.osl[1]), b01(c.osl[2]), b01(c.nx), c.pre)
}

func vfParseCfg(s string) vfCfg {
	c := vfDefaultCfg()
	for _, kvs := range strings.Split(s, ",") {
		p := strings.SplitN(kvs, "=", 2)
		if len(p) != 2 {
			continue
		}
		v := p[1]
		switch p[0] {
		case "rt":
			c.rt = v[0]
		case "st":
			c.stale = v == "1"
		case "rd":
			c.read = v == "1"
		case "lb":
			if v == "-" {
				c.label = -1
			} else {
				c.label, _ = strconv.Atoi(v)
			}
		case "lo":
			c.leaderOnly = v == "1"
		case "lv":
			copy(c.live[:], v)
		case "sl":
			for i := 0; i < 3; i++ {
				c.slow[i] = v[i] == '1'
			}
		case "thr":
			c.thr = v == "1"
		case "to":
			c.shortTO = v == "1"
		case "ms":
			c.ms, _ = strconv.Atoi(v)
		case "val":
			c.val = v == "1"
		case "lr":
			c.learner = v == "1"
		case "fw":
			c.fw = v == "1"
		case "cmd":
			c.cmd, _ = strconv.Atoi(v)
		case "inv":
			c.inv = v == "1"
		case "tp":
			c.tp = v[0]
		case "cx":
			c.cx = v
		case "kl":
			c.kl = v
		case "as":
			c.async = v == "1"
		case "pre":
			c.pre = v
		}
	}
	if c.cmd != 0 {
		c.read = isReadReq(tikvrpc.CmdType(c.cmd))
	}
	return c
}

// request bodies / response prototypes of the command types the transactional and raw clients send through SendReq
var vfCmdTable = map[tikvrpc.CmdType][2]interface{}{
	tikvrpc.CmdGet:                       {&kvrpcpb.GetRequest{Key: []byte("key"), Version: 10}, &kvrpcpb.GetResponse{}},
	tikvrpc.CmdScan:                      {&kvrpcpb.ScanRequest{StartKey: []byte("key"), Version: 10}, &kvrpcpb.ScanResponse{}},
	tikvrpc.CmdPrewrite:                  {&kvrpcpb.PrewriteRequest{}, &kvrpcpb.PrewriteResponse{}},
	tikvrpc.CmdCommit:                    {&kvrpcpb.CommitRequest{}, &kvrpcpb.CommitResponse{}},
	tikvrpc.CmdCleanup:                   {&kvrpcpb.CleanupRequest{}, &kvrpcpb.CleanupResponse{}},
	tikvrpc.CmdBatchGet:                  {&kvrpcpb.BatchGetRequest{Version: 10}, &kvrpcpb.BatchGetResponse{}},
	tikvrpc.CmdBatchRollback:             {&kvrpcpb.BatchRollbackRequest{}, &kvrpcpb.BatchRollbackResponse{}},
	tikvrpc.CmdScanLock:                  {&kvrpcpb.ScanLockRequest{MaxVersion: 10}, &kvrpcpb.ScanLockResponse{}},
	tikvrpc.CmdResolveLock:               {&kvrpcpb.ResolveLockRequest{}, &kvrpcpb.ResolveLockResponse{}},
	tikvrpc.CmdGC:                        {&kvrpcpb.GCRequest{}, &kvrpcpb.GCResponse{}},
	tikvrpc.CmdDeleteRange:               {&kvrpcpb.DeleteRangeRequest{}, &kvrpcpb.DeleteRangeResponse{}},
	tikvrpc.CmdPessimisticLock:           {&kvrpcpb.PessimisticLockRequest{}, &kvrpcpb.PessimisticLockResponse{}},
	tikvrpc.CmdPessimisticRollback:       {&kvrpcpb.PessimisticRollbackRequest{}, &kvrpcpb.PessimisticRollbackResponse{}},
	tikvrpc.CmdTxnHeartBeat:              {&kvrpcpb.TxnHeartBeatRequest{}, &kvrpcpb.TxnHeartBeatResponse{}},
	tikvrpc.CmdCheckTxnStatus:            {&kvrpcpb.CheckTxnStatusRequest{}, &kvrpcpb.CheckTxnStatusResponse{}},
	tikvrpc.CmdCheckSecondaryLocks:       {&kvrpcpb.CheckSecondaryLocksRequest{}, &kvrpcpb.CheckSecondaryLocksResponse{}},
	tikvrpc.CmdFlashbackToVersion:        {&kvrpcpb.FlashbackToVersionRequest{}, &kvrpcpb.FlashbackToVersionResponse{}},
	tikvrpc.CmdPrepareFlashbackToVersion: {&kvrpcpb.PrepareFlashbackToVersionRequest{}, &kvrpcpb.PrepareFlashbackToVersionResponse{}},
	tikvrpc.CmdFlush:                     {&kvrpcpb.FlushRequest{}, &kvrpcpb.FlushResponse{}},
	tikvrpc.CmdBufferBatchGet:            {&kvrpcpb.BufferBatchGetRequest{Version: 10}, &kvrpcpb.BufferBatchGetResponse{}},
	tikvrpc.CmdRawGet:                    {&kvrpcpb.RawGetRequest{}, &kvrpcpb.RawGetResponse{}},
	tikvrpc.CmdRawBatchGet:               {&kvrpcpb.RawBatchGetRequest{}, &kvrpcpb.RawBatchGetResponse{}},
	tikvrpc.CmdRawPut:                    {&kvrpcpb.RawPutRequest{}, &kvrpcpb.RawPutResponse{}},
	tikvrpc.CmdRawBatchPut:               {&kvrpcpb.RawBatchPutRequest{}, &kvrpcpb.RawBatchPutResponse{}},
	tikvrpc.CmdRawDelete:                 {&kvrpcpb.RawDeleteRequest{}, &kvrpcpb.RawDeleteResponse{}},
	tikvrpc.CmdRawBatchDelete:            {&kvrpcpb.RawBatchDeleteRequest{}, &kvrpcpb.RawBatchDeleteResponse{}},
	tikvrpc.CmdRawDeleteRange:            {&kvrpcpb.RawDeleteRangeRequest{}, &kvrpcpb.RawDeleteRangeResponse{}},
	tikvrpc.CmdRawScan:                   {&kvrpcpb.RawScanRequest{}, &kvrpcpb.RawScanResponse{}},
	tikvrpc.CmdRawGetKeyTTL:              {&kvrpcpb.RawGetKeyTTLRequest{}, &kvrpcpb.RawGetKeyTTLResponse{}},
	tikvrpc.CmdRawCompareAndSwap:         {&kvrpcpb.RawCASRequest{}, &kvrpcpb.RawCASResponse{}},
	tikvrpc.CmdRawChecksum:               {&kvrpcpb.RawChecksumRequest{}, &kvrpcpb.RawChecksumResponse{}},
	tikvrpc.CmdUnsafeDestroyRange:        {&kvrpcpb.UnsafeDestroyRangeRequest{}, &kvrpcpb.UnsafeDestroyRangeResponse{}},
	tikvrpc.CmdCop:                       {&coprocessor.Request{StartTs: 10}, &coprocessor.Response{}},
	tikvrpc.CmdMvccGetByKey:              {&kvrpcpb.MvccGetByKeyRequest{}, &kvrpcpb.MvccGetByKeyResponse{}},
	tikvrpc.CmdMvccGetByStartTs:          {&kvrpcpb.MvccGetByStartTsRequest{}, &kvrpcpb.MvccGetByStartTsResponse{}},
	tikvrpc.CmdSplitRegion:               {&kvrpcpb.SplitRegionRequest{}, &kvrpcpb.SplitRegionResponse{}},
}

// vfCmdTypes: the table above plus every other tikvrpc.CmdType value for which a region-error response with a
// settable RegionError field exists (found generically; only the TYPE of that response is taken from the code).
func vfCmdTypes() []tikvrpc.CmdType {
	var out []tikvrpc.CmdType
	for v := 1; v < 4096; v++ {
		t := tikvrpc.CmdType(v)
		if _, ok := vfCmdTable[t]; ok {
			out = append(out, t)
			continue
		}
		if strings.HasPrefix(t.String(), "Unknown") || t == tikvrpc.CmdCopStream || t == tikvrpc.CmdBatchCop || t == tikvrpc.CmdEmpty {
			continue
		}
		resp, err := tikvrpc.GenRegionErrorResp(&tikvrpc.Request{Type: t}, &errorpb.Error{})
		if err != nil || resp == nil || resp.Resp == nil {
			continue
		}
		rv := reflect.ValueOf(resp.Resp)
		if rv.Kind() != reflect.Ptr || rv.Elem().Kind() != reflect.Struct || !rv.Elem().FieldByName("RegionError").IsValid() {
			continue
		}
		if tikvrpc.SetContextNoAttach(&tikvrpc.Request{Type: t}, nil, nil) != nil {
			continue
		}
		vfCmdTable[t] = [2]interface{}{nil, reflect.New(rv.Elem().Type()).Interface()}
		out = append(out, t)
	}
	return out
}

// vfMkResp builds the store's answer for the request's command type by reflection (independent of GenRegionErrorResp)
func vfMkResp(req *tikvrpc.Request, re *errorpb.Error) *tikvrpc.Response {
	ent, ok := vfCmdTable[req.Type]
	if !ok {
		panic("verif: no response prototype for " + req.Type.String())
	}
	v := reflect.New(reflect.TypeOf(ent[1]).Elem())
	if re != nil {
		v.Elem().FieldByName("RegionError").Set(reflect.ValueOf(re))
	}
	return &tikvrpc.Response{Resp: v.Interface()}
}

func vfDefaultCfg() vfCfg {
	return vfCfg{rt: 'L', read: true, label: -1, live: [3]byte{'R', 'R', 'R'}, ms: 100000, val: true, tp: 'K', cx: "-", kl: "-", px: -1, pre: "-", olv: [3]byte{'-', '-', '-'}}
}

type vfRecorder struct{ run **vfRun }

func (r vfRecorder) Observe(v float64) {
	if *r.run != nil {
		rr := *r.run
		rr.sleeps = append(rr.sleeps, int(v*1000+0.5))
		rr.events = append(rr.events, "B")
		// the flags may be raised during this (virtual) sleep: Observe runs after the sleep, before CheckKilled
		j := len(rr.sleeps) - 1
		if vfTrigAt(rr.cfg.cx, 'B', j) && rr.cancel != nil {
			rr.cancel()
		}
		if vfTrigAt(rr.cfg.kl, 'B', j) {
			atomic.StoreUint32(&rr.killed, 1)
		}
	}
}

var _ prometheus.Observer = vfRecorder{}

type vfRun struct {
	f        *vfFix
	cfg      vfCfg
	script   []string
	events   []string // "A<idx>:<rr><sr><rt>" or "B" (kind and sleep filled in afterwards)
	sleeps   []int
	rands    []string
	attempts int
	capped   bool
	bad      []string // harness-level inconsistencies
	storeIdx map[string]int
	peerIDs  []uint64
	meta     *metapb.Region
	lastAns  string
	resps    []*tikvrpc.Response // what the scripted stores returned, per attempt (nil: RPC error)
	ctx      context.Context
	cancel   context.CancelFunc
	killed   uint32
}

type vfFix struct {
	cluster  *mocktikv.Cluster
	cache    *RegionCache
	storeIDs []uint64
	peerIDs  []uint64
	regionID uint64
	cur      *vfRun
	liveAns  map[uint64]livenessState
	dirty    bool // the cache holds a newer region version than PD (after an EpochNotMatch with newer regions): rebuild
}

type vfFailValidator struct{ calls *int }

func (v vfFailValidator) ValidateReadTS(ctx context.Context, readTS uint64, isStaleRead bool, opt *oracle.Option) error {
	if v.calls != nil {
		*v.calls++
	}
	return errors.New("verif: read ts validation failed")
}

// vfRunTp: the request dimension StoreTp x endpoint type for a coprocessor read.  F: a region with one TiKV and one TiFlash
// peer, StoreTp = TiFlash, et = TiFlash; D: StoreTp = TiDB, et = TiDB (sent to the sender's store address).  Only the
// validation gate is modelled for these; oracle: a read whose timestamp failed validation is never sent unless StoreTp == TiDB.
func vfRunTp(c vfCfg, script []string) vfRes {
	mvcc := mocktikv.MustNewMVCCStore()
	defer mvcc.Close()
	cluster := mocktikv.NewCluster(mvcc)
	_, _, regionID := mocktikv.BootstrapWithSingleStore(cluster)
	fs, fp := cluster.AllocID(), cluster.AllocID()
	cluster.AddStore(fs, "tiflash0", &metapb.StoreLabel{Key: "engine", Value: "tiflash"})
	cluster.AddPeer(regionID, fs, fp)
	pdCli := &CodecPDClient{mocktikv.NewPDClient(cluster), apicodec.NewCodecV1(apicodec.ModeTxn)}
	cache := NewRegionCache(pdCli, RegionCacheNoHealthTick)
	defer cache.Close()
	bo := retry.NewBackoffer(context.Background(), c.ms)
	loc, err := cache.LocateRegionByID(retry.NewNoopBackoff(context.Background()), regionID)
	if err != nil {
		panic(err)
	}
	et, stp := tikvrpc.TiFlash, tikvrpc.TiFlash
	if c.tp == 'D' {
		et, stp = tikvrpc.TiDB, tikvrpc.TiDB
	}
	req := tikvrpc.NewRequest(tikvrpc.CmdCop, &coprocessor.Request{Tp: 103, StartTs: 10})
	req.StoreTp = stp
	if c.stale {
		req.StaleRead = true
	}
	calls := 0
	var validator oracle.ReadTSValidator = oracle.NoopReadTSValidator{}
	if !c.val {
		validator = vfFailValidator{calls: &calls}
	}
	var sent []string
	cli := &vfFnClient{fn: func(addr string, rq *tikvrpc.Request) (*tikvrpc.Response, error) {
		sent = append(sent, fmt.Sprintf("A0:%s%s%s", b01(rq.ReplicaRead), b01(rq.StaleRead), b01(rq.IsRetryRequest)))
		return &tikvrpc.Response{Resp: &coprocessor.Response{}}, nil
	}}
	sender := NewRegionRequestSender(cache, cli, validator)
	sender.SetStoreAddr("tidb0")
	resp, _, _, err := sender.SendReqCtx(bo, req, loc.Region, time.Second, et)
	result := "X"
	switch {
	case err != nil && resp == nil:
		result = "E"
	case err == nil && resp != nil:
		if re, _ := resp.GetRegionError(); re != nil {
			result = "P"
		} else {
			result = "S" + strconv.Itoa(len(sent)-1)
		}
	}
	var fails []string
	if !c.val && c.tp != 'D' && (len(sent) != 0 || result != "E") {
		fails = append(fails, fmt.Sprintf("sent-after-failed-validation:StoreTp=%c,validator-calls=%d", c.tp, calls))
	}
	if result == "X" {
		fails = append(fails, "result-shape")
	}
	orc := "pass"
	if len(fails) > 0 {
		orc = "fail:" + strings.Join(fails, ";")
	}
	ev := strings.Join(sent, ";")
	if ev == "" {
		ev = "-"
	}
	line := fmt.Sprintf("C\t%s\t-\t-\t%s\t%s\t%d\t0\t%d\t%s", c.String(), ev, result, bo.GetTotalSleep(), bo.ErrorsNum(), orc)
	return vfRes{line: line, oracle: orc, nAtt: len(sent), result: result}
}

type vfFnClient struct {
	fn func(addr string, req *tikvrpc.Request) (*tikvrpc.Response, error)
}

func (c *vfFnClient) Close() error                                  { return nil }
func (c *vfFnClient) CloseAddr(addr string) error                   { return nil }
func (c *vfFnClient) SetEventListener(l client.ClientEventListener) {}
func (c *vfFnClient) SendRequestAsync(ctx context.Context, addr string, req *tikvrpc.Request, cb async.Callback[*tikvrpc.Response]) {
	panic("verif: async path not used")
}
func (c *vfFnClient) SendRequest(ctx context.Context, addr string, req *tikvrpc.Request, timeout time.Duration) (*tikvrpc.Response, error) {
	return c.fn(addr, req)
}

type vfClient struct{ r *vfRun }

func (c *vfClient) Close() error                                       { return nil }
func (c *vfClient) CloseAddr(addr string) error                        { return nil }
func (c *vfClient) SetEventListener(l client.ClientEventListener)      {}
func (c *vfClient) SendRequestAsync(ctx context.Context, addr string, req *tikvrpc.Request, cb async.Callback[*tikvrpc.Response]) {
	resp, err := c.SendRequest(ctx, addr, req, 0)
	cb.Invoke(resp, err)
}

func vfLive(b byte) livenessState {
	switch b {
	case 'U', 'u':
		return unreachable
	case 'K', 'k':
		return unknown
	}
	return reachable
}

func (c *vfClient) SendRequest(ctx context.Context, addr string, req *tikvrpc.Request, timeout time.Duration) (*tikvrpc.Response, error) {
	resp, err := c.answer(ctx, addr, req, timeout)
	c.r.resps = append(c.r.resps, resp)
	return resp, err
}

func (c *vfClient) answer(ctx context.Context, addr string, req *tikvrpc.Request, timeout time.Duration) (*tikvrpc.Response, error) {
	r := c.r
	i := r.attempts
	r.attempts++
	target := addr
	via := ""
	if req.ForwardedHost != "" {
		target = req.ForwardedHost
		via = "@" + strconv.Itoa(r.storeIdx[addr])
	}
	idx, ok := r.storeIdx[target]
	if !ok {
		r.bad = append(r.bad, "unknown-addr:"+target)
	}
	if req.Context.Peer == nil || req.Context.Peer.Id != r.peerIDs[idx] {
		r.bad = append(r.bad, fmt.Sprintf("peer-mismatch@%d", i))
	}
	r.events = append(r.events, fmt.Sprintf("A%d:%s%s%s%s", idx, b01(req.ReplicaRead), b01(req.StaleRead), b01(req.IsRetryRequest), via))
	if ctx.Err() != nil {
		// like a real client: a cancelled context is answered with the context error, whatever the store would say
		r.lastAns = "CX"
		return nil, ctx.Err()
	}
	if vfTrigAt(r.cfg.cx, 'A', i) {
		r.cancel()
	}
	if vfTrigAt(r.cfg.kl, 'A', i) {
		atomic.StoreUint32(&r.killed, 1)
	}
	sym := "OK"
	if i < len(r.script) && i < vfCap {
		sym = r.script[i]
	} else if i >= vfCap {
		r.capped = true
	}
	r.lastAns = sym
	if sym == "EW" {
		r.f.dirty = true
	}
	tag := fmt.Sprintf("a%d", i)
	storeID := r.f.storeIDs[idx]
	if via != "" {
		storeID = r.f.storeIDs[r.storeIdx[addr]] // the liveness probe goes to the proxy
	}
	var re *errorpb.Error
	switch sym {
	case "OK":
		return vfMkResp(req, nil), nil
	case "Er", "Eu", "Ek":
		r.f.liveAns[storeID] = vfLive(sym[1])
		return nil, errors.New("verif: mock rpc error " + tag)
	case "Dr", "Du":
		r.f.liveAns[storeID] = vfLive(sym[1])
		return nil, context.DeadlineExceeded
	case "NL":
		re = &errorpb.Error{NotLeader: &errorpb.NotLeader{RegionId: req.RegionId}}
	case "N0", "N1", "N2":
		k := int(sym[1] - '0')
		re = &errorpb.Error{NotLeader: &errorpb.NotLeader{RegionId: req.RegionId, Leader: &metapb.Peer{Id: r.peerIDs[k], StoreId: r.f.storeIDs[k]}}}
	case "N3":
		re = &errorpb.Error{NotLeader: &errorpb.NotLeader{RegionId: req.RegionId, Leader: &metapb.Peer{Id: 9999, StoreId: 9998}}}
	case "EN":
		re = &errorpb.Error{EpochNotMatch: &errorpb.EpochNotMatch{}}
	case "EB":
		e := req.Context.RegionEpoch
		re = &errorpb.Error{EpochNotMatch: &errorpb.EpochNotMatch{CurrentRegions: []*metapb.Region{{Id: req.RegionId,
			RegionEpoch: &metapb.RegionEpoch{ConfVer: e.ConfVer, Version: e.Version - 1}, Peers: r.meta.Peers}}}}
	case "EW":
		e := req.Context.RegionEpoch
		re = &errorpb.Error{EpochNotMatch: &errorpb.EpochNotMatch{CurrentRegions: []*metapb.Region{{Id: req.RegionId,
			StartKey: r.meta.StartKey, EndKey: r.meta.EndKey,
			RegionEpoch: &metapb.RegionEpoch{ConfVer: e.ConfVer, Version: e.Version + 1}, Peers: r.meta.Peers}}}}
	case "RF":
		re = &errorpb.Error{RegionNotFound: &errorpb.RegionNotFound{RegionId: req.RegionId}}
	case "B0":
		re = &errorpb.Error{ServerIsBusy: &errorpb.ServerIsBusy{Reason: "busy"}}
	case "B1":
		re = &errorpb.Error{ServerIsBusy: &errorpb.ServerIsBusy{Reason: "busy", EstimatedWaitMs: 3600000}}
	case "BD":
		re = &errorpb.Error{ServerIsBusy: &errorpb.ServerIsBusy{Reason: "deadline is exceeded"}}
	case "SC":
		re = &errorpb.Error{StaleCommand: &errorpb.StaleCommand{}}
	case "SM":
		re = &errorpb.Error{StoreNotMatch: &errorpb.StoreNotMatch{}}
	case "DN":
		re = &errorpb.Error{DataIsNotReady: &errorpb.DataIsNotReady{}}
	case "MT":
		re = &errorpb.Error{MaxTimestampNotSynced: &errorpb.MaxTimestampNotSynced{}}
	case "DF":
		re = &errorpb.Error{DiskFull: &errorpb.DiskFull{}}
	case "UK":
		re = &errorpb.Error{}
	// rarely produced answers
	case "UR":
		re = &errorpb.Error{UndeterminedResult: &errorpb.UndeterminedResult{}}
	case "RP":
		re = &errorpb.Error{RecoveryInProgress: &errorpb.RecoveryInProgress{RegionId: req.RegionId}}
	case "IW":
		re = &errorpb.Error{IsWitness: &errorpb.IsWitness{RegionId: req.RegionId}}
	case "FP":
		re = &errorpb.Error{FlashbackInProgress: &errorpb.FlashbackInProgress{RegionId: req.RegionId}}
	case "FN":
		re = &errorpb.Error{FlashbackNotPrepared: &errorpb.FlashbackNotPrepared{RegionId: req.RegionId}}
	case "KN":
		re = &errorpb.Error{KeyNotInRegion: &errorpb.KeyNotInRegion{RegionId: req.RegionId}}
	case "BV":
		re = &errorpb.Error{BucketVersionNotMatch: &errorpb.BucketVersionNotMatch{Version: 7}}
	case "MP":
		re = &errorpb.Error{MismatchPeerId: &errorpb.MismatchPeerId{RequestPeerId: 1, StorePeerId: 2}}
	case "RL":
		re = &errorpb.Error{RaftEntryTooLarge: &errorpb.RaftEntryTooLarge{RegionId: req.RegionId}}
	case "NI":
		re = &errorpb.Error{RegionNotInitialized: &errorpb.RegionNotInitialized{RegionId: req.RegionId}}
	case "RN":
		re = &errorpb.Error{ReadIndexNotReady: &errorpb.ReadIndexNotReady{RegionId: req.RegionId}}
	case "PM":
		re = &errorpb.Error{ProposalInMergingMode: &errorpb.ProposalInMergingMode{RegionId: req.RegionId}}
	case "IM":
		re = &errorpb.Error{Message: "invalid max_ts update: 5"}
	case "DM":
		re = &errorpb.Error{Message: "Deadline is exceeded"}
	default:
		panic("verif: unknown script symbol " + sym)
	}
	if re.Message == "" {
		re.Message = "unknown-kind " + tag
	}
	return vfMkResp(req, re), nil
}

func vfNewFix() *vfFix {
	f := &vfFix{liveAns: map[uint64]livenessState{}}
	mvcc := mocktikv.MustNewMVCCStore()
	f.cluster = mocktikv.NewCluster(mvcc)
	var leader uint64
	f.storeIDs, f.peerIDs, f.regionID, leader = mocktikv.BootstrapWithMultiStores(f.cluster, 3)
	_ = leader
	// bump the region version so that an "epoch behind" answer can be built
	newPeers := f.cluster.AllocIDs(3)
	f.cluster.Split(f.regionID, f.cluster.AllocID(), []byte("zzzz"), newPeers, newPeers[0])
	pdCli := &CodecPDClient{mocktikv.NewPDClient(f.cluster), apicodec.NewCodecV1(apicodec.ModeTxn)}
	f.cache = NewRegionCache(pdCli, RegionCacheNoHealthTick)
	// The background tasks (cache GC, store re-resolve, health ticks) are environment, not part of the send loop; the
	// cache GC can drop a freshly re-loaded region that has the same version id as an expired one it collected a moment
	// earlier, which would make runs irreproducible: stop them.
	f.cache.bg.shutdown(true)
	f.cache.stores.setMockRequestLiveness(func(ctx context.Context, s *Store) livenessState {
		if l, ok := f.liveAns[s.storeID]; ok {
			return l
		}
		return reachable
	})
	rec := vfRecorder{run: &f.cur}
	metrics.BackoffHistogramRPC = rec
	metrics.BackoffHistogramRegionMiss = rec
	metrics.BackoffHistogramRegionScheduling = rec
	metrics.BackoffHistogramServerBusy = rec
	metrics.BackoffHistogramTiKVDiskFull = rec
	metrics.BackoffHistogramEmpty = rec
	metrics.BackoffHistogramStaleCmd = rec
	metrics.BackoffHistogramPD = rec
	metrics.BackoffHistogramRegionRecoveryInProgress = rec
	metrics.BackoffHistogramIsWitness = rec
	metrics.BackoffHistogramDataNotReady = rec
	return f
}

func (f *vfFix) region() *Region {
	bo := retry.NewNoopBackoff(context.Background())
	for i := 0; i < 100; i++ {
		loc, err := f.cache.LocateKey(bo, []byte("key"))
		if err != nil {
			panic(err)
		}
		if rc := f.cache.GetCachedRegionWithRLock(loc.Region); rc != nil {
			return rc
		}
		time.Sleep(time.Millisecond)
	}
	panic("verif: no region")
}

var vfKindName = map[string]string{"tikvRPC": "rpc", "regionMiss": "miss", "regionScheduling": "sched", "tikvServerBusy": "busy",
	"tikvDiskFull": "disk", "maxTsNotSynced": "maxts", "regionRecoveryInProgress": "recov", "isWitness": "witness", "regionNotInitialized": "notinit"}

var vfFatal = map[string]bool{"FP": true, "FN": true, "RL": true, "IM": true}
var vfRare = []string{"UR", "RP", "IW", "FP", "FN", "KN", "BV", "MP", "RL", "NI", "RN", "PM", "IM", "DM"}

type vfRes struct {
	preLines []string
	result string
	line   string
	oracle string
	nAtt   int
}

func (f *vfFix) run(c vfCfg, script []string) vfRes {
	if c.tp == 'F' || c.tp == 'D' {
		return vfRunTp(c, script)
	}
	if c.pre != "-" && c.pre != "" {
		// a sequence of calls on the same cached region: the earlier ones first, without resetting in between
		p := c
		p.pre = "-"
		p.nx = true
		var preLines []string
		for k, ps := range strings.Split(c.pre, "/") {
			var sc []string
			if ps != "-" && ps != "" {
				sc = strings.Split(ps, "+")
			}
			// the earlier calls are reported too (each is a replayable case of its own): the model predicts the cache
			// state each of them leaves, which is compared with the state observed before the next call
			pr := f.run1(p, sc, k == 0, true)
			preLines = append(preLines, pr.line)
			if k == 0 {
				p.pre = ps
			} else {
				p.pre = p.pre + "/" + ps
			}
		}
		res := f.run1(c, script, false, false)
		res.preLines = preLines
		return res
	}
	return f.run1(c, script, true, false)
}

// run1: one SendReqCtx call.  reset: start from a freshly loaded region and clean stores (else: from whatever the cache holds,
// which is observed and written into the reported configuration); keepAfter: leave the cache as the call left it.
func (f *vfFix) run1(c vfCfg, script []string, reset bool, keepAfter bool) vfRes {
	r := &vfRun{f: f, cfg: c, script: script, storeIdx: map[string]int{}, peerIDs: f.peerIDs}
	if !reset {
		rc := f.region()
		rs := rc.getStore()
		if len(rs.stores) != 3 {
			panic("verif: fixture assumption broken (stores)")
		}
		c.ld, c.px = int(rs.workTiKVIdx), int(rs.proxyTiKVIdx)
		for i, st := range rs.stores {
			switch st.getLivenessState() {
			case reachable:
				c.olv[i] = 'R'
			case unreachable:
				c.olv[i] = 'U'
			default:
				c.olv[i] = 'K'
			}
			c.osl[i] = st.healthStatus.IsSlow()
			c.es[i] = rs.storeEpochs[i] != atomic.LoadUint32(&st.epoch)
			c.be[i] = st.loadStats.Load() != nil
		}
		r.cfg = c
	}
	// ---- reset the shared fixture
	if reset {
		for k := range f.liveAns {
			delete(f.liveAns, k)
		}
		f.cache.mu.Lock()
		for _, old := range f.cache.mu.regions {
			old.invalidate(Other, true)
		}
		f.cache.mu.Unlock()
	}
	rc := f.region()
	rs := rc.getStore()
	if len(rs.stores) != 3 || (reset && rs.workTiKVIdx != 0) {
		panic(fmt.Sprintf("verif: fixture assumption broken: stores=%d leader=%d", len(rs.stores), rs.workTiKVIdx))
	}
	stale := false
	for i, st := range rs.stores {
		r.storeIdx[st.GetAddr()] = i
		if st.storeID != f.storeIDs[i] || rc.meta.Peers[i].Id != f.peerIDs[i] {
			panic("verif: store order")
		}
		if !reset {
			continue
		}
		st.loadStats.Store(nil)
		st.healthStatus.clientSideSlowScore.resetSlowScore()
		st.healthStatus.ResetTiKVServerSideSlowScoreForTest(1)
		if c.slow[i] {
			st.healthStatus.clientSideSlowScore.markAlreadySlow()
		}
		st.healthStatus.updateSlowFlag()
		atomic.StoreUint32(&st.livenessState, uint32(vfLive(c.live[i])))
		st.setResolveState(resolved)
		if rs.storeEpochs[i] != atomic.LoadUint32(&st.epoch) {
			stale = true
		}
		rc.meta.Peers[i].Role = metapb.PeerRole_Voter
	}
	if stale {
		panic("verif: freshly loaded region has a stale store epoch")
	}
	if c.learner {
		rc.meta.Peers[2].Role = metapb.PeerRole_Learner
	}
	r.meta = rc.meta
	f.cache.enableForwarding = c.fw
	if !rc.isValid() || f.cache.GetCachedRegionWithRLock(rc.VerID()) != rc {
		panic("verif: fixture region not valid at start")
	}

	// ---- request
	var req *tikvrpc.Request
	cmdType := tikvrpc.CmdPrewrite
	if c.read {
		cmdType = tikvrpc.CmdGet
	}
	if c.cmd != 0 {
		cmdType = tikvrpc.CmdType(c.cmd)
	}
	if ent, ok := vfCmdTable[cmdType]; ok && ent[0] != nil {
		req = tikvrpc.NewRequest(cmdType, reflect.New(reflect.TypeOf(ent[0]).Elem()).Interface())
		reflect.ValueOf(req.Req).Elem().Set(reflect.ValueOf(ent[0]).Elem())
	} else {
		req = tikvrpc.NewRequest(cmdType, nil)
	}
	var rt kv.ReplicaReadType
	switch c.rt {
	case 'L':
		rt = kv.ReplicaReadLeader
	case 'F':
		rt = kv.ReplicaReadFollower
	case 'M':
		rt = kv.ReplicaReadMixed
	case 'N':
		rt = kv.ReplicaReadLearner
	case 'P':
		rt = kv.ReplicaReadPreferLeader
	}
	req.ReplicaReadType = rt
	if c.read {
		if c.stale && rt == kv.ReplicaReadLeader {
			// exactly what KVSnapshot.get does for a staleness snapshot whose ReplicaReadAdjuster answers "leader"
			// (SetIsStalenessReadOnly + SetReplicaReadAdjuster): stale flag kept, type switched to leader
			req.EnableStaleWithMixedReplicaRead()
			req.SetReplicaReadType(kv.ReplicaReadLeader)
		} else if c.stale {
			req.StaleRead = true
			req.ReplicaRead = false
		} else {
			req.ReplicaRead = rt.IsFollowerRead()
		}
	}
	if c.thr {
		req.BusyThresholdMs = 50
	}
	var opts []StoreSelectorOption
	if c.label >= 0 {
		opts = append(opts, WithMatchLabels([]*metapb.StoreLabel{{Key: "id", Value: fmt.Sprintf("%v", f.storeIDs[c.label])}}))
	}
	if c.leaderOnly {
		opts = append(opts, WithLeaderOnly())
	}
	timeout := client.ReadTimeoutShort
	if c.shortTO {
		timeout = time.Second
	}
	var validator oracle.ReadTSValidator = oracle.NoopReadTSValidator{}
	if !c.val {
		validator = vfFailValidator{}
	}
	h := fnv.New64a()
	h.Write([]byte(c.String() + "|" + strings.Join(script, ",")))
	rng := rand.New(rand.NewSource(int64(h.Sum64() >> 1)))
	randIntn = func(n int) int {
		v := rng.Intn(n)
		r.rands = append(r.rands, fmt.Sprintf("%d:%d", n, v))
		return v
	}
	r.ctx, r.cancel = context.WithCancel(context.Background())
	defer r.cancel()
	vars := kv.NewVariables(&r.killed)
	vars.BackOffWeight = 1
	bo := retry.NewBackofferWithVars(r.ctx, c.ms, vars)
	if c.cx == "P" {
		r.cancel()
	}
	if c.kl == "P" {
		atomic.StoreUint32(&r.killed, 1)
	}
	if c.async {
		if err := failpoint.Enable("tikvclient/useSendReqAsync", "return(true)"); err != nil {
			panic(err)
		}
		defer failpoint.Disable("tikvclient/useSendReqAsync")
	}
	sender := NewRegionRequestSender(f.cache, &vfClient{r: r}, validator)
	if c.inv {
		rc.invalidate(Other, true)
	}
	f.cur = r
	resp, _, retryTimes, err := sender.SendReqCtx(bo, req, rc.VerID(), timeout, tikvrpc.TiKV, opts...)
	f.cur = nil
	randIntn = rand.Intn

	// ---- result
	result := ""
	switch {
	case err != nil && resp != nil:
		result = "X" // both: never allowed
	case err != nil:
		result = "E"
	case resp == nil:
		result = "X"
	default:
		// provenance by identity: which scripted store answer (if any) is this response object?
		from := -1
		for j, sr := range r.resps {
			if sr != nil && (sr == resp || (sr.Resp != nil && sr.Resp == resp.Resp)) {
				from = j
			}
		}
		re, e2 := resp.GetRegionError()
		switch {
		case e2 != nil:
			result = "X"
		case re != nil && from >= 0:
			result = "R" + strconv.Itoa(from)
		case re != nil && re.GetEpochNotMatch() != nil && len(re.GetEpochNotMatch().CurrentRegions) == 0 && re.Message == "":
			result = "P"
		case re != nil:
			result = "X"
		case from >= 0:
			result = "S" + strconv.Itoa(from)
		default:
			// success-shaped (no error, no region error) but no store produced it
			result = "F"
		}
	}
	// fill the back-off kinds in
	types := bo.GetTypes()
	nb := 0
	for i, e := range r.events {
		if e == "B" {
			k := "?"
			if nb < len(types) {
				if n, ok := vfKindName[types[nb]]; ok {
					k = n
				} else {
					k = types[nb]
				}
			}
			r.events[i] = fmt.Sprintf("B%s:%d", k, r.sleeps[nb])
			nb++
		}
	}
	if nb != len(types) {
		r.bad = append(r.bad, "backoff-count")
	}
	total := bo.GetTotalSleep()
	excl := bo.GetBackoffSleepMS()["tikvServerBusy"]

	// ---- property oracles on the implementation (independent of the model)
	var fails []string
	// (1) bound: every attempt consumes one of maxReplicaAttempt units of some replica
	cnt := [3]int{}
	rearmed := [3]int{}
	rearm := 0
	ai := 0
	for _, e := range r.events {
		if e[0] != 'A' {
			continue
		}
		idx := int(e[1] - '0')
		cnt[idx]++
		if ai < len(script) && len(script[ai]) == 2 && script[ai][0] == 'N' && script[ai][1] >= '0' && script[ai][1] <= '2' {
			k := int(script[ai][1] - '0')
			// onUpdateLeader(maxRearm = replicas-1): an exhausted replica gets one more chance at most replicas-1 times
			if cnt[k] >= vfMaxAttempt && rearmed[k] < 2 {
				cnt[k] = vfMaxAttempt - 1
				rearmed[k]++
				rearm++
			}
		}
		ai++
	}
	// C10_bounded: attempts <= 10*replicas + re-arms, re-arms <= replicas*(replicas-1)
	if r.attempts > vfMaxAttempt*3+rearm {
		fails = append(fails, fmt.Sprintf("bound:attempts=%d>%d+%d,sleep=%d", r.attempts, vfMaxAttempt*3, rearm, total))
	}
	if r.capped {
		fails = append(fails, "cap")
	}
	// (2) flags
	ai = 0
	for _, e := range r.events {
		if e[0] != 'A' {
			continue
		}
		fl := e[strings.Index(e, ":")+1:]
		if !c.read && (fl[0] == '1' || fl[1] == '1') {
			fails = append(fails, fmt.Sprintf("write-flag@%d", ai))
		}
		if os.Getenv("VERIF_C10_BOTHFLAGS") == "1" && fl[0] == '1' && fl[1] == '1' {
			fails = append(fails, fmt.Sprintf("both-read-flags@%d", ai)) // opt-in: finding candidate, see docs/C10.md
		}
		if (ai > 0) != (fl[2] == '1') {
			fails = append(fails, fmt.Sprintf("retry-flag@%d", ai))
		}
		ai++
	}
	// (3) validation
	if c.read && !c.val && (r.attempts != 0 || result != "E") {
		fails = append(fails, "sent-after-failed-validation")
	}
	// (4) no fabrication / result shape
	switch result[0] {
	case 'S':
		i, _ := strconv.Atoi(result[1:])
		if i != r.attempts-1 || r.lastAns != "OK" {
			fails = append(fails, "fabricated-success")
		}
	case 'R':
		i, _ := strconv.Atoi(result[1:])
		if i != r.attempts-1 || r.lastAns == "OK" {
			fails = append(fails, "fabricated-region-error")
		}
	case 'P':
	case 'E':
		// an error is only allowed once the back-off budget is spent (or validation failed)
		spent := total-excl >= c.ms || (excl >= vfExclLimit && excl >= c.ms)
		if !(c.read && !c.val) && !spent && c.cx == "-" && c.kl == "-" && !vfFatal[r.lastAns] {
			fails = append(fails, "error-before-budget-spent")
		}
	case 'F':
		fails = append(fails, "fabricated-response:cmd="+cmdType.String())
	default:
		fails = append(fails, "result-shape")
	}
	// caller cancellation / kill: the call ends at once — at most one more attempt reaches a client after the context
	// was cancelled (it is answered with the context error), none after the kill flag was seen by an interruptible request
	trigAtt := func(t string) int {
		if t == "P" {
			return -1
		}
		if len(t) >= 2 && t[0] == 'A' {
			v, _ := strconv.Atoi(t[1:])
			return v
		}
		return -2
	}
	if i := trigAtt(c.cx); i >= -1 && r.attempts > i+2 {
		fails = append(fails, fmt.Sprintf("retried-after-cancel:attempts=%d,cancel-at=%d", r.attempts, i))
	}
	if i := trigAtt(c.kl); i >= -1 && (c.cmd == 0 || vfInterruptible(cmdType)) && !c.async && r.attempts > i+1 {
		fails = append(fails, fmt.Sprintf("retried-after-kill:attempts=%d,kill-at=%d", r.attempts, i))
	}
	if r.attempts > 0 && retryTimes != r.attempts-1 && !c.async {
		fails = append(fails, "retry-times")
	}
	if len(r.bad) > 0 {
		fails = append(fails, "harness:"+strings.Join(r.bad, "+"))
	}
	orc := "pass"
	if len(fails) > 0 {
		orc = "fail:" + strings.Join(fails, ";")
	}
	if sender.replicaSelector != nil && !keepAfter {
		sender.replicaSelector.region.invalidate(Other, true)
	}
	sc := strings.Join(script, ",")
	if sc == "" {
		sc = "-"
	}
	ev := strings.Join(r.events, ";")
	if ev == "" {
		ev = "-"
	}
	rd := strings.Join(r.rands, ",")
	if rd == "" {
		rd = "-"
	}
	line := fmt.Sprintf("C\t%s\t%s\t%s\t%s\t%s\t%d\t%d\t%d\t%s", c.String(), sc, rd, ev, result, total, excl, bo.ErrorsNum(), orc)
	return vfRes{line: line, oracle: orc, nAtt: r.attempts, result: result}
}

var vfAlphaQuick = []string{"Er", "Eu", "Dr", "NL", "N0", "N1", "N2", "EN", "EB", "RF", "B0", "B1", "SC", "SM", "DN", "MT", "DF", "UK"}
var vfAlphaAll = []string{"Er", "Eu", "Ek", "Dr", "Du", "NL", "N0", "N1", "N2", "N3", "EN", "EB", "EW", "RF", "B0", "B1", "BD", "SC", "SM", "DN", "MT", "DF", "UK"}

// symbols after which (for every configuration) the call returns: extending is pointless but harmless (pruned dynamically)

type vfGen struct {
	f        *vfFix
	out      *bufio.Writer
	n        int
	nfail    int
	asyncMax int // scripts up to this length are also run through SendReqAsync (-1: none)
	noPre    bool // batch / replay modes: one output line per requested case (the earlier calls of a sequence are not reported)
}

func (g *vfGen) emit(c vfCfg, script []string) vfRes {
	if g.f.dirty {
		g.f = vfNewFix()
	}
	res := g.f.run(c, script)
	if res.nAtt == 0 && res.result == "P" {
		// "no replica available" before any attempt is legitimate (e.g. all stores unreachable) but could also be a
		// fixture hiccup (region not valid when the call started): run again and keep the repeated observation.
		res = g.f.run(c, script)
	}
	for _, pl := range res.preLines {
		if g.noPre {
			break
		}
		g.out.WriteString(pl)
		g.out.WriteByte('\n')
	}
	g.out.WriteString(res.line)
	g.out.WriteByte('\n')
	g.n++
	if res.oracle != "pass" {
		g.nfail++
	}
	// (not together with a cancelled context: SendReqCtx's run loop then returns at once while the retry goroutine is still
	// running, so what was attempted "by the time the call returned" is a race)
	if !c.async && c.tp == 'K' && c.cx == "-" && (c.pre == "-" || c.pre == "") && len(script) <= g.asyncMax {
		// the same case through SendReqAsync (first attempt by initForAsyncRequest/handleAsyncResponse, then next())
		a := c
		a.async = true
		if g.f.dirty {
			g.f = vfNewFix()
		}
		ar := g.f.run(a, script)
		if ar.nAtt == 0 && ar.result == "P" {
			ar = g.f.run(a, script)
		}
		g.out.WriteString(ar.line)
		g.out.WriteByte('\n')
		g.n++
		if ar.oracle != "pass" {
			g.nfail++
		}
	}
	return res
}

// all scripts up to length L whose last symbol is consumed (DFS, extension only if the run asked for more)
func (g *vfGen) enum(c vfCfg, alpha []string, prefix []string, L int) {
	res := g.emit(c, prefix)
	if len(prefix) >= L || res.nAtt <= len(prefix) {
		return
	}
	for _, x := range alpha {
		g.enum(c, alpha, append(append([]string{}, prefix...), x), L)
	}
}

// minimise shrinks the script (chunk removal, then single symbols) while the attempt-bound oracle still fails.
func (g *vfGen) minimise(c vfCfg, script []string) []string {
	failing := func(s []string) bool {
		if g.f.dirty {
			g.f = vfNewFix()
		}
		return strings.Contains(g.f.run(c, s).oracle, "bound:")
	}
	if !failing(script) {
		return script
	}
	cur := append([]string{}, script...)
	for chunk := len(cur) / 2; chunk >= 1; {
		removed := false
		for i := 0; i+chunk <= len(cur); {
			cand := append(append([]string{}, cur[:i]...), cur[i+chunk:]...)
			if failing(cand) {
				cur = cand
				removed = true
			} else {
				i += chunk
			}
		}
		if !removed || chunk > 1 {
			if chunk == 1 && !removed {
				break
			}
			if chunk > 1 {
				chunk /= 2
			}
		}
	}
	return cur
}

func vfBaseCfgs() []vfCfg {
	var cs []vfCfg
	for _, rt := range []byte("LFMNP") {
		for _, mode := range []int{0, 1, 2} { // read, stale read (always with the mixed type, as EnableStaleWithMixedReplicaRead builds it), write
			if mode == 1 && rt != 'M' {
				continue
			}
			c := vfDefaultCfg()
			c.rt = rt
			c.read = mode != 2
			c.stale = mode == 1
			cs = append(cs, c)
		}
	}
	return cs
}

func vfVariants(c vfCfg) []vfCfg {
	var vs []vfCfg
	add := func(f func(*vfCfg)) { d := c; f(&d); vs = append(vs, d) }
	add(func(d *vfCfg) { d.label = 0 })
	add(func(d *vfCfg) { d.label = 1 })
	add(func(d *vfCfg) { d.live = [3]byte{'U', 'R', 'R'} })
	add(func(d *vfCfg) { d.live = [3]byte{'R', 'U', 'R'} })
	add(func(d *vfCfg) { d.live = [3]byte{'K', 'R', 'U'} })
	add(func(d *vfCfg) { d.slow = [3]bool{true, false, false} })
	add(func(d *vfCfg) { d.slow = [3]bool{false, true, false} })
	add(func(d *vfCfg) { d.thr = true })
	add(func(d *vfCfg) { d.shortTO = true })
	add(func(d *vfCfg) { d.ms = 1 })
	add(func(d *vfCfg) { d.ms = 120 })
	add(func(d *vfCfg) { d.leaderOnly = true })
	add(func(d *vfCfg) { d.learner = true })
	add(func(d *vfCfg) { d.val = false })
	add(func(d *vfCfg) { d.thr = true; d.shortTO = true; d.label = 2 })
	return vs
}

func vfRandCfg(rng *rand.Rand, fw bool) vfCfg {
	c := vfDefaultCfg()
	c.rt = "LFMNP"[rng.Intn(5)]
	mode := rng.Intn(3)
	if mode == 1 {
		c.rt = 'M'
	}
	c.read = mode != 2
	c.stale = mode == 1
	c.label = rng.Intn(4) - 1
	c.leaderOnly = rng.Intn(8) == 0
	for i := 0; i < 3; i++ {
		c.live[i] = "RRRRRUK"[rng.Intn(7)]
		c.slow[i] = rng.Intn(4) == 0
	}
	c.thr = rng.Intn(3) == 0
	c.shortTO = rng.Intn(3) == 0
	c.ms = []int{1, 3, 60, 120, 1500, 5000, 100000}[rng.Intn(7)]
	c.val = rng.Intn(20) != 0
	c.learner = rng.Intn(4) == 0
	c.fw = fw
	if rng.Intn(5) == 0 {
		t := []string{"P", "A0", "A1", "A2", "A3", "A5", "B0", "B1", "B2"}[rng.Intn(9)]
		if rng.Intn(2) == 0 {
			c.cx = t
		} else {
			c.kl = t
		}
	}
	return c
}

func vfDirected() [][]string {
	rep := func(pat []string, n int) []string {
		var s []string
		for i := 0; i < n; i++ {
			s = append(s, pat...)
		}
		return s
	}
	return [][]string{
		rep([]string{"N1", "N0"}, 30), // regression for F10 (fixed by cb7d671): hint ping-pong must end with the pseudo region error
		rep([]string{"N1", "N2", "N0"}, 20),
		rep([]string{"Er"}, 40), rep([]string{"Eu"}, 40), rep([]string{"B0"}, 40), rep([]string{"B1"}, 40),
		rep([]string{"NL"}, 40), rep([]string{"MT"}, 40), rep([]string{"DF"}, 40), rep([]string{"SC"}, 40),
		rep([]string{"UK"}, 40), rep([]string{"DN"}, 40), rep([]string{"EB"}, 40), rep([]string{"Dr"}, 40),
		rep([]string{"B0", "N0"}, 20), rep([]string{"B0", "B0", "N0"}, 15), rep([]string{"RF", "N1", "N0"}, 15),
		rep([]string{"SC", "N1", "SC", "N0"}, 12), rep([]string{"Er", "N1", "N0"}, 15), rep([]string{"DN", "N1", "N2"}, 15),
	}
}

// VerifSendReqMain is the entry point used by internal/zz_verif/sendreq.
func VerifSendReqMain(args []string) int {
	log.SetLevel(zapcore.FatalLevel)
	log.ReplaceGlobals(zap.NewNop(), &log.ZapProperties{Level: zap.NewAtomicLevelAt(zapcore.FatalLevel)})
	util.EnableFailpoints()
	for _, fp := range []string{"tikvclient/fastBackoffBySkipSleep", "tikvclient/skipStoreCheckUntilHealth", "tikvclient/doNotRecoverStoreHealthCheckPanic"} {
		if err := failpoint.Enable(fp, "return"); err != nil {
			fmt.Fprintln(os.Stderr, "failpoint:", err)
			return 2
		}
	}
	f := vfNewFix()
	out := bufio.NewWriterSize(os.Stdout, 1<<20)
	defer out.Flush()
	g := &vfGen{f: f, out: out, asyncMax: -1}
	if len(args) >= 3 && args[0] == "replay" {
		c := vfParseCfg(args[1])
		var script []string
		if args[2] != "-" && args[2] != "" {
			script = strings.Split(args[2], ",")
		}
		g.emit(c, script)
		return 0
	}
	if len(args) >= 1 && (args[0] == "batch" || args[0] == "minbatch") {
		g.noPre = true
		// stdin: cfg <TAB> script per line; batch: run each; minbatch: greedily shrink the script while the
		// attempt-bound oracle keeps failing, then print the run of the shrunk script
		sc := bufio.NewScanner(os.Stdin)
		sc.Buffer(make([]byte, 1<<20), 1<<24)
		for sc.Scan() {
			p := strings.Split(sc.Text(), "\t")
			if len(p) < 2 {
				continue
			}
			c := vfParseCfg(p[0])
			var script []string
			if p[1] != "-" && p[1] != "" {
				script = strings.Split(p[1], ",")
			}
			if args[0] == "minbatch" {
				script = g.minimise(c, script)
			}
			g.emit(c, script)
		}
		return 0
	}
	seed, _ := strconv.Atoi(os.Getenv("VERIF_SEED"))
	if seed == 0 {
		seed = 1
	}
	tier := os.Getenv("VERIF_TIER")
	thorough := tier == "thorough"
	rng := rand.New(rand.NewSource(int64(seed)*7919 + 17))
	base := vfBaseCfgs()
	// class A: every base configuration x all scripts up to L
	LA, LB, nRand, nRandFw := 4, 2, 20000, 3000
	alphaA := vfAlphaQuick
	if thorough {
		LA, LB, nRand, nRandFw = 5, 3, 400000, 60000
	}
	if v := os.Getenv("VERIF_C10_LA"); v != "" {
		LA, _ = strconv.Atoi(v)
	}
	g.asyncMax = 2
	if thorough {
		g.asyncMax = 4
	}
	for _, c := range base {
		g.enum(c, alphaA, nil, LA)
	}
	// class B: single-option deviations x all scripts (full alphabet) up to LB
	for _, c := range base {
		for _, v := range vfVariants(c) {
			g.enum(v, vfAlphaAll, nil, LB)
		}
	}
	// class D: directed long scripts on every base configuration and some budgets
	for _, c := range base {
		for _, ms := range []int{1, 120, 100000} {
			for _, thr := range []bool{false, true} {
				d := c
				d.ms = ms
				d.thr = thr
				for _, s := range vfDirected() {
					g.emit(d, s)
				}
			}
		}
	}
	// class F: forwarding on (leader read type; proxy strategy when the leader's store is not reachable)
	LF := 3
	if thorough {
		LF = 4
	}
	for _, rd := range []bool{true, false} {
		for _, lv := range []string{"RRR", "URR", "UUR", "URU", "KRR", "UUU"} {
			c := vfDefaultCfg()
			c.read = rd
			c.fw = true
			copy(c.live[:], lv)
			L := LF
			if lv != "RRR" && lv != "URR" {
				L = LF - 1
			}
			g.enum(c, alphaA, nil, L)
		}
	}
	// class R: rarely produced answers (UndeterminedResult, RecoveryInProgress, IsWitness, Flashback*, KeyNotInRegion,
	// BucketVersionNotMatch, MismatchPeerId, RaftEntryTooLarge, RegionNotInitialized, ReadIndexNotReady, ProposalInMergingMode,
	// "invalid max_ts update", "Deadline is exceeded" message) mixed with common ones: all scripts up to length 2 (3)
	{
		alphaR := append(append([]string{}, vfRare...), "Er", "N1", "SC", "B0", "B1", "DN")
		LR := 2
		if thorough {
			LR = 3
		}
		for _, c := range base {
			g.enum(c, alphaR, nil, LR)
			for _, f := range []func(*vfCfg){func(d *vfCfg) { d.thr = true; d.shortTO = true }, func(d *vfCfg) { d.ms = 1 }, func(d *vfCfg) { d.ms = 120 }, func(d *vfCfg) { d.fw = true; d.live = [3]byte{'U', 'R', 'R'} }} {
				d := c
				f(&d)
				g.enum(d, alphaR, nil, LR)
			}
		}
	}
	// class S: sequences of calls on the SAME cached region with forwarding on: what call 1 (and 2) leave in the cache —
	// memoised proxy, store liveness / epochs / slow marks, leader switches — is the initial state of the next call
	{
		rp := func(x []string, n int) []string {
			var o []string
			for i := 0; i < n; i++ {
				o = append(o, x...)
			}
			return o
		}
		s1 := []string{"Eu", "Er", "Ek", "N1", "N2", "SC", "UK", "B0", "B1", "DN", "NL"}
		var firsts []string
		firsts = append(firsts, "-")
		for _, a := range s1 {
			firsts = append(firsts, a)
			for _, b := range s1 {
				firsts = append(firsts, a+"+"+b)
			}
		}
		// a rarely produced answer after a leader switch: whether the handler invalidated the cached region shows in the
		// next call (reloaded from PD: leader 0 again) — compared with the model's predicted cache state
		for _, x := range vfRare {
			firsts = append(firsts, "N1+"+x)
		}
		var lasts [][]string
		lasts = append(lasts, nil)
		for _, a := range alphaA {
			lasts = append(lasts, []string{a})
		}
		lasts = append(lasts, rp([]string{"SC"}, 40), rp([]string{"UK"}, 40), rp([]string{"DN"}, 40), []string{"Eu", "Eu", "Eu"},
			rp([]string{"N1", "N0"}, 20), rp([]string{"SC", "Eu"}, 10), rp([]string{"Er"}, 12), rp([]string{"B0"}, 12))
		type sv struct {
			fw  bool
			rt  byte
			rd  bool
			thr bool
		}
		for _, v := range []sv{{true, 'L', true, false}, {true, 'L', false, false}, {false, 'L', true, true}, {false, 'L', false, false}, {false, 'M', true, false}} {
			c := vfDefaultCfg()
			c.fw = v.fw
			c.rt = v.rt
			c.read = v.rd
			c.thr = v.thr
			for _, p1 := range firsts {
				for _, l := range lasts {
					d := c
					d.pre = p1
					g.emit(d, l)
				}
			}
			if thorough {
				for _, a := range s1 {
					for _, b := range s1 {
						for _, l := range lasts {
							d := c
							d.pre = a + "/" + b
							g.emit(d, l)
						}
					}
				}
			}
		}
	}
	// class H: the caller cancels the context / the kill flag is set: before the call, while attempt i is in flight,
	// during the j-th back-off sleep; interruptible and non-interruptible (Commit) requests
	LH := 2
	if thorough {
		LH = 3
	}
	trigs := []string{"P", "A0", "A1", "B0"}
	if thorough {
		trigs = []string{"P", "A0", "A1", "A2", "B0", "B1"}
	}
	for _, c := range base {
		for _, t := range trigs {
			d := c
			d.cx = t
			g.enum(d, alphaA, nil, LH)
			d = c
			d.kl = t
			g.enum(d, alphaA, nil, LH)
		}
		d := c
		d.cx, d.kl = "A1", "B0"
		g.enum(d, alphaA, nil, LH)
	}
	for _, t := range trigs {
		d := vfDefaultCfg()
		d.cmd = int(tikvrpc.CmdCommit)
		d.read = false
		d.kl = t
		g.enum(d, alphaA, nil, LH)
		d.kl, d.cx = "-", t
		g.enum(d, alphaA, nil, LH)
	}
	// class G: request dimension StoreTp x endpoint type (validation gate): TiFlash- and TiDB-served coprocessor reads,
	// validation passing / failing, plain and stale
	for _, tp := range []byte("FD") {
		for _, val := range []bool{true, false} {
			for _, st := range []bool{false, true} {
				c := vfDefaultCfg()
				c.tp = tp
				c.val = val
				c.stale = st
				c.cmd = int(tikvrpc.CmdCop)
				if st {
					c.rt = 'M'
				}
				g.emit(c, nil)
			}
		}
	}
	// class E: every command type x short scripts: each single outcome, replica exhaustion (pseudo region error made by
	// tikvrpc.GenRegionErrorResp), unreachable stores, spent budget, region invalidated between locate and send
	rep := func(x string, n int) []string {
		s := make([]string, n)
		for i := range s {
			s[i] = x
		}
		return s
	}
	for _, t := range vfCmdTypes() {
		rts := "LF"
		if isReadReq(t) {
			rts = "LMF"
		}
		for _, rt := range []byte(rts) {
			c := vfDefaultCfg()
			c.rt = rt
			c.cmd = int(t)
			c.read = isReadReq(t)
			g.enum(c, vfAlphaAll, nil, 1)
			for _, sc := range [][]string{rep("SC", 40), rep("UK", 40), rep("DN", 40), {"Eu", "Eu", "Eu"}, {"RF", "RF"}, {"N3"}, {"B0", "B0", "B0", "B0"}, {"Dr", "EN"}, {"NL", "SM"}} {
				g.emit(c, sc)
			}
			d := c
			d.ms = 1
			g.emit(d, rep("Er", 4))
			g.emit(d, rep("MT", 4))
			d = c
			d.inv = true
			g.emit(d, nil)
			g.emit(d, []string{"Er"})
			d = c
			d.live = [3]byte{'U', 'U', 'U'}
			g.emit(d, nil)
		}
	}
	// class C: random configurations x random scripts (weighted towards retryable outcomes)
	weighted := append(append([]string{}, vfAlphaAll...), "N0", "N1", "N2", "N0", "N1", "N2", "B0", "B0", "B1", "Er", "Er", "Eu", "DN", "SC", "UK", "NL", "Dr", "MT", "EB")
	weighted = append(weighted, vfRare...)
	for i := 0; i < nRand+nRandFw; i++ {
		c := vfRandCfg(rng, i >= nRand)
		n := 4 + rng.Intn(12)
		if rng.Intn(10) == 0 {
			n = 20 + rng.Intn(40)
		}
		s := make([]string, n)
		for j := range s {
			s[j] = weighted[rng.Intn(len(weighted))]
		}
		g.emit(c, s)
	}
	fmt.Fprintf(out, "T\truns=%d\toraclefails=%d\n", g.n, g.nfail)
	return 0
}
