//go:build verif

// Driver for property C10 (request send bounded, read-mode flags). The logic lives inside package
// internal/locate (zz_verif_sendreq.go, same overlay root) because it needs unexported identifiers.
package main

import (
	"os"

	"github.com/tikv/client-go/v2/internal/locate"
)

func main() {
	os.Exit(locate.VerifSendReqMain(os.Args[1:]))
}
