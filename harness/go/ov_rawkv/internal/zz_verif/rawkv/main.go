//go:build verif

// Driver for property C11: runs random raw-KV operation sequences through the public rawkv.Client
// on mocktikv, with topology changes (split / merge / leader transfer) applied between calls and,
// by a gate wrapped around the RPC client, immediately before the i-th RPC of a call (i.e. between
// the client's region lookup and the request, and between the partial requests of one call).
//
// Output (tab separated):
//
//	SEQ  <id> <json spec of the sequence>                 (replayable: `rawkv replay <file with specs>`)
//	OP   <id> <idx> <name> <args...> L=<layouts> B=<batches> N=<rpcs>,<regionErrs> => <result>
//
// L = layout (sorted split keys) seen by every *served* RPC of the call, in serve order, `;` separated.
// B = key lists of every served batch RPC (batch ops), `;` separated.
package main

import (
	"bufio"
	"bytes"
	"context"
	"encoding/hex"
	"encoding/json"
	"fmt"
	"math/rand"
	"os"
	"sort"
	"strconv"
	"strings"
	"sync"
	"time"

	"github.com/pingcap/failpoint"
	"github.com/pingcap/kvproto/pkg/metapb"
	"github.com/pingcap/log"
	"github.com/tikv/client-go/v2/internal/client"
	"github.com/tikv/client-go/v2/internal/mockstore/mocktikv"
	"github.com/tikv/client-go/v2/rawkv"
	"github.com/tikv/client-go/v2/tikvrpc"
	"github.com/tikv/client-go/v2/util"
	"github.com/tikv/client-go/v2/util/async"
	"go.uber.org/zap"
	"go.uber.org/zap/zapcore"
)

// ---------------------------------------------------------------- spec

type Topo struct {
	Kind string `json:"k"`   // split | merge | leader
	Key  string `json:"key"` // hex ("-" = empty): the region containing this key is the target
}
type Inject struct {
	At  int  `json:"at"` // 1-based index of the raw RPC of this call before which Act is applied
	Act Topo `json:"act"`
}
type Op struct {
	Name    string   `json:"op"`
	Keys    []string `json:"keys,omitempty"`
	Vals    []string `json:"vals,omitempty"`
	TTLs    []uint64 `json:"ttls,omitempty"`
	S       string   `json:"s,omitempty"`
	E       string   `json:"e,omitempty"`
	Limit   int      `json:"limit,omitempty"`
	KeyOnly bool     `json:"keyonly,omitempty"`
	Prev    *string  `json:"prev,omitempty"` // cas: nil = expect not-exist
	Pre     []Topo   `json:"pre,omitempty"`
	Inj     []Inject `json:"inj,omitempty"`
}
type Seq struct {
	ID     int      `json:"id"`
	Stores int      `json:"stores"`
	Splits []string `json:"splits"`
	CF     string   `json:"cf,omitempty"`    // column family of the client (default CF_DEFAULT)
	Fresh  bool     `json:"fresh,omitempty"` // do not create the column family before the first op
	Ops    []Op     `json:"ops"`
}

func hx(b []byte) string {
	if len(b) == 0 {
		return "-"
	}
	return hex.EncodeToString(b)
}

// empty byte strings are passed as nil, as over gRPC (and as rawkv_test.go does): mocktikv's
// doRawDeleteRange treats a non-nil empty Limit as the bound "" (nothing deleted), see docs/C11.md
func unhx(s string) []byte {
	if s == "-" || s == "" {
		return nil
	}
	b, err := hex.DecodeString(s)
	if err != nil {
		panic(err)
	}
	return b
}
func hxs(l [][]byte) string {
	if len(l) == 0 {
		return "."
	}
	p := make([]string, len(l))
	for i, b := range l {
		p[i] = hx(b)
	}
	return strings.Join(p, ",")
}
func unhxs(l []string) [][]byte {
	r := make([][]byte, len(l))
	for i, s := range l {
		r[i] = unhx(s)
	}
	return r
}

// optional value: N = nil (absent), V<hex> = present (V alone = present and empty)
func optv(b []byte) string {
	if b == nil {
		return "N"
	}
	return "V" + hex.EncodeToString(b)
}

// ---------------------------------------------------------------- cluster + gate

type world struct {
	cluster *mocktikv.Cluster
	stores  []uint64
}

func (w *world) regionsSorted() []*metapb.Region {
	rs := w.cluster.GetAllRegions()
	ms := make([]*metapb.Region, 0, len(rs))
	for _, r := range rs {
		ms = append(ms, r.Meta)
	}
	sort.Slice(ms, func(i, j int) bool { return bytes.Compare(ms[i].StartKey, ms[j].StartKey) < 0 })
	return ms
}

// layout = start keys of all regions but the first; also checks that regions tile the key space
func (w *world) layout() string {
	ms := w.regionsSorted()
	var ks [][]byte
	for i, m := range ms {
		if i == 0 {
			if len(m.StartKey) != 0 {
				return "BROKEN-first-start"
			}
			continue
		}
		if !bytes.Equal(ms[i-1].EndKey, m.StartKey) {
			return "BROKEN-gap"
		}
		ks = append(ks, m.StartKey)
	}
	if len(ms[len(ms)-1].EndKey) != 0 {
		return "BROKEN-last-end"
	}
	return hxs(ks)
}

func (w *world) regionOf(key []byte) *metapb.Region {
	r, _, _, _ := w.cluster.GetRegionByKey(key)
	return r
}

func (w *world) apply(t Topo) {
	key := unhx(t.Key)
	r := w.regionOf(key)
	if r == nil {
		return
	}
	switch t.Kind {
	case "split":
		if len(key) == 0 || bytes.Equal(r.StartKey, key) {
			return
		}
		newID := w.cluster.AllocID()
		peers := w.cluster.AllocIDs(len(r.Peers))
		w.cluster.SplitRaw(r.Id, newID, key, peers, peers[0])
	case "merge":
		if len(r.EndKey) == 0 {
			return
		}
		nx := w.regionOf(r.EndKey)
		if nx == nil || nx.Id == r.Id {
			return
		}
		w.cluster.Merge(r.Id, nx.Id)
	case "leader":
		_, leader := w.cluster.GetRegion(r.Id)
		for i, p := range r.Peers {
			if p.Id == leader {
				w.cluster.ChangeLeader(r.Id, r.Peers[(i+1)%len(r.Peers)].Id)
				return
			}
		}
	}
}

type gate struct {
	inner *mocktikv.RPCClient
	w     *world
	mu    sync.Mutex
	n     int
	inj   map[int]Topo
	lays  []string // layout at every served raw RPC
	bats  []string // keys of every served batch RPC
	rerrs int
	other int

	cancel   context.CancelFunc
	exceeded bool
}

func (g *gate) reset(inj []Inject) {
	g.mu.Lock()
	defer g.mu.Unlock()
	g.n, g.rerrs, g.other = 0, 0, 0
	g.exceeded = false
	g.lays, g.bats = nil, nil
	g.inj = map[int]Topo{}
	for _, i := range inj {
		g.inj[i.At] = i.Act
	}
}

func isRaw(t tikvrpc.CmdType) bool {
	switch t {
	case tikvrpc.CmdRawGet, tikvrpc.CmdRawBatchGet, tikvrpc.CmdRawPut, tikvrpc.CmdRawBatchPut, tikvrpc.CmdRawDelete,
		tikvrpc.CmdRawBatchDelete, tikvrpc.CmdRawDeleteRange, tikvrpc.CmdRawScan, tikvrpc.CmdGetKeyTTL,
		tikvrpc.CmdRawCompareAndSwap, tikvrpc.CmdRawChecksum:
		return true
	}
	return false
}

func (g *gate) SendRequest(ctx context.Context, addr string, req *tikvrpc.Request, timeout time.Duration) (*tikvrpc.Response, error) {
	g.mu.Lock()
	defer g.mu.Unlock()
	if !isRaw(req.Type) {
		g.other++
		return g.inner.SendRequest(ctx, addr, req, timeout)
	}
	g.n++
	if g.n > rpcBudget {
		// a call that keeps sending requests never finishes on its own: cancel it (no wall clock
		// involved; a cancelled context does not make the client mark stores or regions as failed)
		g.exceeded = true
		if g.cancel != nil {
			g.cancel()
		}
		return nil, context.Canceled
	}
	if act, ok := g.inj[g.n]; ok {
		g.w.apply(act)
	}
	resp, err := g.inner.SendRequest(ctx, addr, req, timeout)
	if err != nil || resp == nil {
		return resp, err
	}
	re, e2 := resp.GetRegionError()
	if e2 == nil && re != nil {
		g.rerrs++
		if debug {
			fmt.Fprintf(os.Stderr, "rpc %d %s region=%d ver=%d -> %s\n", g.n, req.Type, req.Context.RegionId, req.Context.RegionEpoch.GetVersion(), re.String())
		}
		return resp, err
	}
	g.lays = append(g.lays, g.w.layout())
	switch req.Type {
	case tikvrpc.CmdRawBatchGet:
		g.bats = append(g.bats, hxs(req.RawBatchGet().Keys))
	case tikvrpc.CmdRawBatchDelete:
		g.bats = append(g.bats, hxs(req.RawBatchDelete().Keys))
	case tikvrpc.CmdRawBatchPut:
		r := req.RawBatchPut()
		var ks []string
		for i, p := range r.Pairs {
			t := uint64(0)
			if i < len(r.Ttls) {
				t = r.Ttls[i]
			}
			ks = append(ks, hx(p.Key)+":"+hx(p.Value)+":"+strconv.FormatUint(t, 10))
		}
		g.bats = append(g.bats, strings.Join(ks, ","))
	}
	return resp, err
}
func (g *gate) SendRequestAsync(ctx context.Context, addr string, req *tikvrpc.Request, cb async.Callback[*tikvrpc.Response]) {
	go func() { cb.Schedule(g.SendRequest(ctx, addr, req, 0)) }()
}
func (g *gate) Close() error                                  { return nil }
func (g *gate) CloseAddr(addr string) error                   { return nil }
func (g *gate) SetEventListener(l client.ClientEventListener) {}

var _ client.Client = (*gate)(nil)

// ---------------------------------------------------------------- execution

func errKind(err error) string {
	m := err.Error()
	switch {
	case strings.Contains(m, "not found"):
		return "err notfound"
	case strings.Contains(m, "MaxRawKVScanLimit"):
		return "err limit"
	case strings.Contains(m, "atomic"):
		return "err atomic"
	}
	return "err other:" + strings.ReplaceAll(strings.ReplaceAll(m, "\t", " "), "\n", " ")
}

func runSeq(sq Seq, out *bytes.Buffer) {
	js, _ := json.Marshal(sq)
	fmt.Fprintf(out, "SEQ\t%d\t%s\n", sq.ID, js)
	mvcc := mocktikv.MustNewMVCCStore()
	cluster := mocktikv.NewCluster(mvcc)
	n := sq.Stores
	if n < 1 {
		n = 1
	}
	stores, _, _, _ := mocktikv.BootstrapWithMultiStores(cluster, n)
	w := &world{cluster: cluster, stores: stores}
	for _, s := range sq.Splits {
		w.apply(Topo{Kind: "split", Key: s})
	}
	g := &gate{inner: mocktikv.NewRPCClient(cluster, mvcc, nil), w: w}
	cli := rawkv.NewClientForVerif(mocktikv.NewPDClient(cluster), g)
	cli.SetAtomicForCAS(true)
	// handleKvRawChecksum reads column family "CF_DEFAULT" whatever the request says; column
	// families are outside C11, so everything runs in that one family unless the spec names another
	cf := sq.CF
	if cf == "" {
		cf = "CF_DEFAULT"
	}
	cli.SetColumnFamily(cf)
	defer func() {
		cli.Close()
		mvcc.Close()
	}()
	ctx := context.Background()
	if !sq.Fresh {
		// create the column family first
		_ = cli.Put(ctx, []byte("zz"), []byte("x"))
		_ = cli.Delete(ctx, []byte("zz"))
	}
	for idx, op := range sq.Ops {
		for _, t := range op.Pre {
			w.apply(t)
		}
		g.reset(op.Inj)
		opCtx, cancel := context.WithCancel(ctx)
		g.mu.Lock()
		g.cancel = cancel
		g.mu.Unlock()
		var args, res string
		func() {
			defer func() {
				if r := recover(); r != nil {
					res = "panic:" + strings.ReplaceAll(fmt.Sprint(r), "\t", " ")
				}
			}()
			args = argsOf(op)
			_, res = execOp(opCtx, cli, op)
		}()
		cancel()
		g.mu.Lock()
		lays := strings.Join(g.lays, ";")
		if len(g.lays) == 0 {
			lays = "none"
		}
		bats := strings.Join(g.bats, ";")
		if len(g.bats) == 0 {
			bats = "none"
		}
		if g.exceeded {
			res = "err does-not-terminate"
		}
		fmt.Fprintf(out, "OP\t%d\t%d\t%s\t%s\tL=%s\tB=%s\tN=%d,%d\t=>\t%s\n", sq.ID, idx, op.Name, args, lays, bats, g.n, g.rerrs, res)
		stop := g.exceeded
		g.mu.Unlock()
		if stop || strings.HasPrefix(res, "err") || strings.HasPrefix(res, "panic") {
			// no call of these sequences may fail: the oracle has failed on this call, and the
			// client's state afterwards (stores marked unreachable, ...) is of no further interest
			break
		}
	}
}

func kvres(keys, vals [][]byte, err error) string {
	if err != nil {
		return errKind(err)
	}
	vs := make([]string, len(vals))
	for i, v := range vals {
		vs[i] = optv(v)
	}
	v := strings.Join(vs, ",")
	if len(vs) == 0 {
		v = "."
	}
	return "ok " + hxs(keys) + " " + v
}

// argsOf formats the arguments of a call exactly as execOp does (kept separate so that the OP line is
// complete even when the call panics)
func argsOf(op Op) string {
	switch op.Name {
	case "put":
		ttl := uint64(0)
		if len(op.TTLs) > 0 {
			ttl = op.TTLs[0]
		}
		return fmt.Sprintf("%s\t%s\t%d", hx(unhx(op.Keys[0])), hx(unhx(op.Vals[0])), ttl)
	case "get", "del":
		return hx(unhx(op.Keys[0]))
	case "bput":
		ts := "."
		if len(op.TTLs) > 0 {
			p := make([]string, len(op.TTLs))
			for i, t := range op.TTLs {
				p[i] = strconv.FormatUint(t, 10)
			}
			ts = strings.Join(p, ",")
		}
		return hxs(unhxs(op.Keys)) + "\t" + hxs(unhxs(op.Vals)) + "\t" + ts
	case "bget", "bdel":
		return hxs(unhxs(op.Keys))
	case "drange", "cksum":
		return hx(unhx(op.S)) + "\t" + hx(unhx(op.E))
	case "scan", "rscan":
		ko := 0
		if op.KeyOnly {
			ko = 1
		}
		return fmt.Sprintf("%s\t%s\t%d\t%d", hx(unhx(op.S)), hx(unhx(op.E)), op.Limit, ko)
	case "cas":
		ps := "N"
		if op.Prev != nil {
			ps = "V" + hex.EncodeToString(unhx(*op.Prev))
		}
		return hx(unhx(op.Keys[0])) + "\t" + ps + "\t" + hx(unhx(op.Vals[0]))
	}
	return ""
}

func execOp(ctx context.Context, cli *rawkv.Client, op Op) (string, string) {
	okerr := func(err error) string {
		if err != nil {
			return errKind(err)
		}
		return "ok"
	}
	switch op.Name {
	case "put":
		k, v := unhx(op.Keys[0]), unhx(op.Vals[0])
		ttl := uint64(0)
		if len(op.TTLs) > 0 {
			ttl = op.TTLs[0]
		}
		return fmt.Sprintf("%s\t%s\t%d", hx(k), hx(v), ttl), okerr(cli.PutWithTTL(ctx, k, v, ttl))
	case "get":
		k := unhx(op.Keys[0])
		v, err := cli.Get(ctx, k)
		if err != nil {
			return hx(k), errKind(err)
		}
		return hx(k), "ok " + optv(v)
	case "del":
		k := unhx(op.Keys[0])
		return hx(k), okerr(cli.Delete(ctx, k))
	case "bput":
		ks, vs := unhxs(op.Keys), unhxs(op.Vals)
		ts := "."
		if len(op.TTLs) > 0 {
			p := make([]string, len(op.TTLs))
			for i, t := range op.TTLs {
				p[i] = strconv.FormatUint(t, 10)
			}
			ts = strings.Join(p, ",")
		}
		return hxs(ks) + "\t" + hxs(vs) + "\t" + ts, okerr(cli.BatchPutWithTTL(ctx, ks, vs, op.TTLs))
	case "bget":
		ks := unhxs(op.Keys)
		vals, err := cli.BatchGet(ctx, ks)
		if err != nil {
			return hxs(ks), errKind(err)
		}
		vs := make([]string, len(vals))
		for i, v := range vals {
			vs[i] = optv(v)
		}
		r := strings.Join(vs, ",")
		if len(vs) == 0 {
			r = "."
		}
		return hxs(ks), "ok " + r
	case "bdel":
		ks := unhxs(op.Keys)
		return hxs(ks), okerr(cli.BatchDelete(ctx, ks))
	case "drange":
		s, e := unhx(op.S), unhx(op.E)
		return hx(s) + "\t" + hx(e), okerr(cli.DeleteRange(ctx, s, e))
	case "scan", "rscan":
		s, e := unhx(op.S), unhx(op.E)
		var opts []rawkv.RawOption
		ko := 0
		if op.KeyOnly {
			opts = append(opts, rawkv.ScanKeyOnly())
			ko = 1
		}
		a := fmt.Sprintf("%s\t%s\t%d\t%d", hx(s), hx(e), op.Limit, ko)
		if op.Name == "scan" {
			k, v, err := cli.Scan(ctx, s, e, op.Limit, opts...)
			return a, kvres(k, v, err)
		}
		k, v, err := cli.ReverseScan(ctx, s, e, op.Limit, opts...)
		return a, kvres(k, v, err)
	case "cksum":
		s, e := unhx(op.S), unhx(op.E)
		c, err := cli.Checksum(ctx, s, e)
		if err != nil {
			return hx(s) + "\t" + hx(e), errKind(err)
		}
		return hx(s) + "\t" + hx(e), fmt.Sprintf("ok %x %d %d", c.Crc64Xor, c.TotalKvs, c.TotalBytes)
	case "cas":
		k, nv := unhx(op.Keys[0]), unhx(op.Vals[0])
		var prev []byte
		ps := "N"
		if op.Prev != nil {
			prev = append([]byte{}, unhx(*op.Prev)...) // non-nil: nil means "expect absent"
			ps = "V" + hex.EncodeToString(prev)
		}
		old, swapped, err := cli.CompareAndSwap(ctx, k, prev, nv)
		a := hx(k) + "\t" + ps + "\t" + hx(nv)
		if err != nil {
			return a, errKind(err)
		}
		sw := 0
		if swapped {
			sw = 1
		}
		return a, fmt.Sprintf("ok %s %d", optv(old), sw)
	}
	return "", "err unknown-op"
}

// ---------------------------------------------------------------- generation

var debug = os.Getenv("VERIF_DEBUG") != ""

const rpcBudget = 3000

var alphabet = []byte{0x61, 0x62, 0x63, 0x64}

func genKey(r *rand.Rand) []byte {
	n := 1 + r.Intn(3)
	if r.Intn(4) == 0 {
		n = 1
	}
	k := make([]byte, n)
	for i := range k {
		k[i] = alphabet[r.Intn(len(alphabet))]
	}
	switch r.Intn(12) {
	case 0:
		k = append(k, 0x00)
	case 1:
		k = append(k, 0xff)
	}
	return k
}

type genState struct {
	r    *rand.Rand
	pool [][]byte
}

func (g *genState) key() []byte {
	if g.r.Intn(8) == 0 {
		return genKey(g.r)
	}
	return g.pool[g.r.Intn(len(g.pool))]
}

// a range bound: a pool key, a pool key + 0x00, a fresh key, or empty
func (g *genState) bound(emptyOdds int) []byte {
	switch {
	case g.r.Intn(emptyOdds) == 0:
		return []byte{}
	case g.r.Intn(6) == 0:
		return append(append([]byte{}, g.key()...), 0x00)
	}
	return g.key()
}
func (g *genState) val() []byte {
	n := g.r.Intn(4)
	v := make([]byte, n)
	for i := range v {
		v[i] = byte(0x30 + g.r.Intn(4))
	}
	return v
}
func (g *genState) topo() Topo {
	kinds := []string{"split", "split", "merge", "leader"}
	return Topo{Kind: kinds[g.r.Intn(len(kinds))], Key: hx(g.key())}
}
func (g *genState) keys(max int) []string {
	n := g.r.Intn(max + 1)
	ks := make([]string, n)
	for i := range ks {
		if i > 0 && g.r.Intn(4) == 0 {
			ks[i] = ks[g.r.Intn(i)] // duplicate
		} else {
			ks[i] = hx(g.key())
		}
	}
	return ks
}

func genSeq(id int, r *rand.Rand, nops int) Seq {
	g := &genState{r: r}
	np := 4 + r.Intn(8)
	for i := 0; i < np; i++ {
		g.pool = append(g.pool, genKey(r))
	}
	sq := Seq{ID: id, Stores: 1 + r.Intn(3)}
	ns := r.Intn(5)
	for i := 0; i < ns; i++ {
		sq.Splits = append(sq.Splits, hx(g.key()))
	}
	// prefill so that scans see data early
	pre := Op{Name: "bput"}
	for i := 0; i < np; i++ {
		if r.Intn(3) > 0 {
			pre.Keys = append(pre.Keys, hx(g.pool[i]))
			pre.Vals = append(pre.Vals, hx(g.val()))
		}
	}
	sq.Ops = append(sq.Ops, pre)
	names := []string{"put", "get", "del", "bput", "bget", "bdel", "drange", "scan", "scan", "rscan", "rscan", "cksum", "cas", "scan", "bget"}
	for i := 0; i < nops; i++ {
		op := Op{Name: names[r.Intn(len(names))]}
		switch op.Name {
		case "put":
			op.Keys, op.Vals = []string{hx(g.key())}, []string{hx(g.val())}
			if r.Intn(3) == 0 {
				op.TTLs = []uint64{uint64(r.Intn(100))}
			}
		case "get", "del":
			op.Keys = []string{hx(g.key())}
		case "bput":
			op.Keys = g.keys(8)
			for range op.Keys {
				op.Vals = append(op.Vals, hx(g.val()))
			}
			if r.Intn(3) == 0 {
				for range op.Keys {
					op.TTLs = append(op.TTLs, uint64(r.Intn(100)))
				}
			}
		case "bget", "bdel":
			op.Keys = g.keys(8)
		case "drange", "cksum":
			op.S, op.E = hx(g.bound(5)), hx(g.bound(4))
		case "scan":
			op.S, op.E = hx(g.bound(5)), hx(g.bound(3))
			op.Limit = r.Intn(np + 2)
			op.KeyOnly = r.Intn(4) == 0
		case "rscan":
			op.S, op.E = hx(g.bound(12)), hx(g.bound(3))
			op.Limit = r.Intn(np + 2)
			op.KeyOnly = r.Intn(4) == 0
		case "cas":
			op.Keys, op.Vals = []string{hx(g.key())}, []string{hx(g.val())}
			if r.Intn(3) > 0 {
				p := hx(g.val())
				op.Prev = &p
			}
		}
		if r.Intn(3) == 0 {
			for j := r.Intn(3); j >= 0; j-- {
				op.Pre = append(op.Pre, g.topo())
			}
		}
		if r.Intn(2) == 0 {
			for j := r.Intn(3); j >= 0; j-- {
				t := g.topo()
				// aim the change at the range/keys of the call
				if r.Intn(2) == 0 {
					switch {
					case len(op.Keys) > 0:
						t.Key = op.Keys[r.Intn(len(op.Keys))]
					case op.S != "" && op.S != "-":
						t.Key = op.S
					}
				}
				op.Inj = append(op.Inj, Inject{At: 1 + r.Intn(4), Act: t})
			}
		}
		sq.Ops = append(sq.Ops, op)
	}
	sq.Ops = append(sq.Ops, Op{Name: "scan", S: "-", E: "-", Limit: 1000}) // final state
	return sq
}

// directed sequences: the input classes behind the defects found while this check was built
// (CAS on an absent key / expect-absent vs empty value, BatchGet of absent keys, repeated
// split+merge epochs) and the border cases named by the property.
func sp(s string) *string { return &s }
func directedSeqs(base int) []Seq {
	a, b, b0, c, d, e := "61", "62", "6200", "63", "64", "65"
	seqs := []Seq{
		{Stores: 1, Splits: []string{b, c}, Ops: []Op{
			{Name: "cas", Keys: []string{a}, Vals: []string{"31"}},                 // absent, expect absent -> swapped
			{Name: "cas", Keys: []string{a}, Vals: []string{"32"}},                 // present, expect absent -> not swapped
			{Name: "cas", Keys: []string{b}, Vals: []string{"33"}, Prev: sp("31")}, // absent, expect value -> not swapped, no error
			{Name: "put", Keys: []string{c}, Vals: []string{"-"}},
			{Name: "cas", Keys: []string{c}, Vals: []string{"34"}},                // present-empty, expect absent -> not swapped
			{Name: "cas", Keys: []string{c}, Vals: []string{"35"}, Prev: sp("-")}, // present-empty, expect empty -> swapped
			{Name: "cas", Keys: []string{c}, Vals: []string{"-"}, Prev: sp("35"), Inj: []Inject{{At: 1, Act: Topo{"split", b0}}}},
			{Name: "get", Keys: []string{c}}, {Name: "get", Keys: []string{b}},
		}},
		{Stores: 2, Splits: []string{b, d}, Ops: []Op{
			{Name: "bput", Keys: []string{a, c, c, d}, Vals: []string{"31", "32", "-", "34"}},
			{Name: "bget", Keys: []string{e, a, b, c, c, d, b0, e}},
			{Name: "bget", Keys: []string{b, a, d, e}, Inj: []Inject{{At: 1, Act: Topo{"split", c}}, {At: 2, Act: Topo{"merge", a}}}},
			{Name: "bdel", Keys: []string{a, e, a}, Inj: []Inject{{At: 1, Act: Topo{"split", "6100"}}}},
			{Name: "bget", Keys: []string{a, c, d}},
		}},
		{Stores: 1, Ops: []Op{ // epochs: split the same region repeatedly, merge, touch every range
			{Name: "bput", Keys: []string{a, b, c, d, e}, Vals: []string{"31", "32", "33", "34", "35"}},
			{Name: "get", Keys: []string{e}, Pre: []Topo{{"split", b}, {"split", c}, {"split", d}}},
			{Name: "get", Keys: []string{d}}, {Name: "get", Keys: []string{c}}, {Name: "get", Keys: []string{b}},
			{Name: "get", Keys: []string{d}, Pre: []Topo{{"merge", b}, {"merge", a}}},
			{Name: "get", Keys: []string{b}}, {Name: "get", Keys: []string{e}},
			{Name: "scan", S: "-", E: "-", Limit: 10, Pre: []Topo{{"split", b0}, {"merge", c}, {"split", e}, {"merge", a}}},
			{Name: "rscan", S: "66", E: "-", Limit: 10, Pre: []Topo{{"split", c}, {"split", b}}},
		}},
		{Stores: 3, Splits: []string{b, c, d}, Ops: []Op{ // limits hitting borders, re-split mid-call
			{Name: "bput", Keys: []string{a, b, b0, c, d, e}, Vals: []string{"31", "32", "-", "33", "34", "35"}},
			{Name: "scan", S: a, E: e, Limit: 1}, {Name: "scan", S: a, E: e, Limit: 3}, {Name: "scan", S: a, E: d, Limit: 4},
			{Name: "scan", S: "-", E: "-", Limit: 3, Inj: []Inject{{At: 2, Act: Topo{"split", b0}}}},
			{Name: "scan", S: a, E: "-", Limit: 6, KeyOnly: true, Inj: []Inject{{At: 1, Act: Topo{"merge", a}}, {At: 2, Act: Topo{"leader", d}}}},
			{Name: "rscan", S: e, E: a, Limit: 3}, {Name: "rscan", S: d, E: "-", Limit: 4, Inj: []Inject{{At: 2, Act: Topo{"split", "6201"}}}},
			{Name: "rscan", S: "6400", E: b, Limit: 9, Inj: []Inject{{At: 1, Act: Topo{"merge", b}}}},
			{Name: "cksum", S: "-", E: "-", Inj: []Inject{{At: 2, Act: Topo{"split", "6101"}}}},
			{Name: "cksum", S: b, E: d}, {Name: "cksum", S: b0, E: "6400"},
			{Name: "drange", S: b, E: d, Inj: []Inject{{At: 2, Act: Topo{"split", "6300"}}}},
			{Name: "drange", S: "6401", E: "-", Inj: []Inject{{At: 1, Act: Topo{"split", e}}}},
			{Name: "drange", S: "-", E: a},
			{Name: "drange", S: "-", E: "-", Pre: []Topo{{"split", "6000"}}},
		}},
	}
	// a column family nobody wrote to yet: every read sees an empty map (BatchGet used to panic)
	seqs = append(seqs, Seq{Stores: 1, Splits: []string{b}, CF: "cf_never_written", Fresh: true, Ops: []Op{
		{Name: "bget", Keys: []string{a, c, a}}, {Name: "get", Keys: []string{a}}, {Name: "scan", S: "-", E: "-", Limit: 5},
		{Name: "rscan", S: e, E: "-", Limit: 5}, {Name: "bdel", Keys: []string{a}}, {Name: "bget", Keys: []string{a}},
		{Name: "put", Keys: []string{c}, Vals: []string{"31"}}, {Name: "del", Keys: []string{c}},
		{Name: "bget", Keys: []string{c, a}}, // deleted key: tombstone in the store
		{Name: "bput", Keys: []string{a, c}, Vals: []string{"-", "32"}}, {Name: "bget", Keys: []string{c, d, a}},
	}})
	for i := range seqs {
		seqs[i].ID = base + i
		seqs[i].Ops = append(seqs[i].Ops, Op{Name: "scan", S: "-", E: "-", Limit: 1000})
	}
	return seqs
}

// ---------------------------------------------------------------- main

func runAll(seqs []Seq) {
	w := bufio.NewWriterSize(os.Stdout, 1<<20)
	defer w.Flush()
	outs := make([]bytes.Buffer, len(seqs))
	var wg sync.WaitGroup
	sem := make(chan struct{}, 8)
	for i := range seqs {
		wg.Add(1)
		sem <- struct{}{}
		go func(i int) {
			defer wg.Done()
			defer func() { <-sem }()
			runSeq(seqs[i], &outs[i])
		}(i)
	}
	wg.Wait()
	for i := range outs {
		w.Write(outs[i].Bytes())
	}
}

func main() {
	if !debug {
		log.SetLevel(zapcore.FatalLevel)
		log.ReplaceGlobals(zap.NewNop(), &log.ZapProperties{Level: zap.NewAtomicLevelAt(zapcore.FatalLevel)})
	}
	// back-off sleeps are virtualised (the budget accounting is unchanged): no wall-clock dependence
	util.EnableFailpoints()
	if err := failpoint.Enable("tikvclient/fastBackoffBySkipSleep", "return"); err != nil {
		fmt.Fprintln(os.Stderr, "failpoint:", err)
		os.Exit(2)
	}
	if len(os.Args) >= 2 && os.Args[1] == "directed" {
		// print the directed sequences (the check replays them one by one to attribute a process crash)
		for _, sq := range directedSeqs(0) {
			js, _ := json.Marshal(sq)
			fmt.Println(string(js))
		}
		return
	}
	if len(os.Args) >= 3 && os.Args[1] == "replay" {
		// file with one JSON sequence spec per line
		f, err := os.Open(os.Args[2])
		if err != nil {
			panic(err)
		}
		var seqs []Seq
		sc := bufio.NewScanner(f)
		sc.Buffer(make([]byte, 1<<20), 1<<26)
		for sc.Scan() {
			l := strings.TrimSpace(sc.Text())
			if l == "" {
				continue
			}
			var s Seq
			if err := json.Unmarshal([]byte(l), &s); err != nil {
				panic(err)
			}
			seqs = append(seqs, s)
		}
		runAll(seqs)
		return
	}
	seed, _ := strconv.ParseInt(os.Getenv("VERIF_SEED"), 10, 64)
	if seed == 0 {
		seed = 1
	}
	nseq, nops := 1500, 14
	if os.Getenv("VERIF_TIER") == "thorough" {
		nseq, nops = 6000, 24 // per chunk; the check runs several chunks (VERIF_CHUNK)
	}
	if v := os.Getenv("VERIF_NSEQ"); v != "" {
		nseq, _ = strconv.Atoi(v)
	}
	chunk, _ := strconv.ParseInt(os.Getenv("VERIF_CHUNK"), 10, 64)
	r := rand.New(rand.NewSource(seed*7919 + 11 + chunk*104729))
	seqs := make([]Seq, nseq)
	for i := range seqs {
		seqs[i] = genSeq(i, r, nops/2+r.Intn(nops))
	}
	seqs = append(seqs, directedSeqs(nseq)...)
	runAll(seqs)
}
