//go:build verif

// Driver for property C11: runs random raw-KV operation sequences through the public rawkv.Client
// on mocktikv, with topology changes (split / merge / leader transfer) applied between calls and,
// by a gate wrapped around the RPC client, immediately before the i-th RPC of a call (i.e. between
// the client's region lookup and the request, and between the partial requests of one call).
//
// Output (tab separated):
//
//	SEQ  <id> <json spec of the sequence>                 (replayable: `rawkv replay <file with specs>`)
//	OP   <id> <idx> <name> <args...> L=<layouts> B=<batches> N=<rpcs>,<regionErrs> => <result>
//
// L = layout (sorted split keys) seen by every *served* RPC of the call, in serve order, `;` separated.
// B = key lists of every served batch RPC (batch ops), `;` separated.
package main

import (
	"bufio"
	"bytes"
	"context"
	"encoding/hex"
	"encoding/json"
	"fmt"
	"math/rand"
	"os"
	"runtime"
	"sort"
	"strconv"
	"strings"
	"sync"
	"sync/atomic"
	"time"

	"github.com/pingcap/failpoint"
	"github.com/pingcap/kvproto/pkg/keyspacepb"
	"github.com/pingcap/kvproto/pkg/kvrpcpb"
	"github.com/pingcap/kvproto/pkg/metapb"
	"github.com/pingcap/log"
	"github.com/tikv/client-go/v2/internal/apicodec"
	"github.com/tikv/client-go/v2/internal/client"
	"github.com/tikv/client-go/v2/internal/locate"
	"github.com/tikv/client-go/v2/internal/mockstore/mocktikv"
	"github.com/tikv/client-go/v2/rawkv"
	"github.com/tikv/client-go/v2/tikvrpc"
	"github.com/tikv/client-go/v2/util"
	"github.com/tikv/client-go/v2/util/async"
	"github.com/tikv/client-go/v2/util/codec"
	pd "github.com/tikv/pd/client"
	pdgc "github.com/tikv/pd/client/clients/gc"
	"github.com/tikv/pd/client/constants"
	"github.com/tikv/pd/client/pkg/caller"
	"go.uber.org/zap"
	"go.uber.org/zap/zapcore"
)

// ---------------------------------------------------------------- spec

type Topo struct {
	Kind string `json:"k"`   // split | merge | leader | fail (inject only: the RPC is answered with an error, not executed)
	Key  string `json:"key"` // hex ("-" = empty): the region containing this key is the target
}
type Inject struct {
	At  int  `json:"at"` // 1-based index of the raw RPC of this call before which Act is applied
	Act Topo `json:"act"`
}
type Op struct {
	Name    string   `json:"op"`
	Keys    []string `json:"keys,omitempty"`
	Vals    []string `json:"vals,omitempty"`
	TTLs    []uint64 `json:"ttls,omitempty"`
	S       string   `json:"s,omitempty"`
	E       string   `json:"e,omitempty"`
	Limit   int      `json:"limit,omitempty"`
	KeyOnly bool     `json:"keyonly,omitempty"`
	Prev    *string  `json:"prev,omitempty"`  // cas: nil = expect not-exist
	CF      string   `json:"cf,omitempty"`    // per-call SetColumnFamily option
	Exact   bool     `json:"exact,omitempty"` // warm the region cache first: the batches sent must then be exactly the model's
	Pre     []Topo   `json:"pre,omitempty"`
	Inj     []Inject `json:"inj,omitempty"`
}
type Seq struct {
	ID     int      `json:"id"`
	Stores int      `json:"stores"`
	Splits []string `json:"splits"`
	CF     string   `json:"cf,omitempty"`    // column family of the client (default CF_DEFAULT)
	Fresh  bool     `json:"fresh,omitempty"` // do not create the column family before the first op
	API    string   `json:"api,omitempty"`   // "" = API v1 (raw region keys), "v2" = keyspace codec
	KsID   uint32   `json:"ksid,omitempty"`
	NonAt  bool     `json:"nonatomic,omitempty"` // SetAtomicForCAS(false)
	Ops    []Op     `json:"ops"`
}

func hx(b []byte) string {
	if len(b) == 0 {
		return "-"
	}
	if r := rle(b); r != "" {
		return r
	}
	return hex.EncodeToString(b)
}

// long runs of one byte (the big values of the sub-batching class) are written *<n>x<hex byte>
func rle(b []byte) string {
	if len(b) < 32 {
		return ""
	}
	for _, c := range b {
		if c != b[0] {
			return ""
		}
	}
	return fmt.Sprintf("*%dx%02x", len(b), b[0])
}

// empty byte strings are passed as nil, as over gRPC (and as rawkv_test.go does): mocktikv's
// doRawDeleteRange treats a non-nil empty Limit as the bound "" (nothing deleted), see docs/C11.md
func unhx(s string) []byte {
	if s == "-" || s == "" {
		return nil
	}
	if s[0] == '*' {
		var n int
		var c byte
		if _, err := fmt.Sscanf(s, "*%dx%02x", &n, &c); err != nil {
			panic(err)
		}
		return bytes.Repeat([]byte{c}, n)
	}
	b, err := hex.DecodeString(s)
	if err != nil {
		panic(err)
	}
	return b
}
func hxs(l [][]byte) string {
	if len(l) == 0 {
		return "."
	}
	p := make([]string, len(l))
	for i, b := range l {
		p[i] = hx(b)
	}
	return strings.Join(p, ",")
}
func unhxs(l []string) [][]byte {
	r := make([][]byte, len(l))
	for i, s := range l {
		r[i] = unhx(s)
	}
	return r
}

// optional value: N = nil (absent), V<hex> = present (V alone = present and empty)
func optv(b []byte) string {
	if b == nil {
		return "N"
	}
	if r := rle(b); r != "" {
		return "V" + r
	}
	return "V" + hex.EncodeToString(b)
}

// ---------------------------------------------------------------- cluster + gate

type world struct {
	cluster *mocktikv.Cluster
	stores  []uint64
	pfx     []byte // API v2: keyspace prefix; region bounds are memcomparable(prefix + key)
}

// enc maps a user key to the form region bounds have in the cluster
func (w *world) enc(k []byte) []byte {
	if w.pfx == nil {
		return k
	}
	return codec.EncodeBytes(nil, append(append([]byte{}, w.pfx...), k...))
}

// dec maps a region bound back to a user key ("" for the unbounded ends)
func (w *world) dec(b []byte) []byte {
	if w.pfx == nil || len(b) == 0 {
		return b
	}
	_, d, err := codec.DecodeBytes(b, nil)
	if err != nil || !bytes.HasPrefix(d, w.pfx) {
		return []byte("BROKEN-bound")
	}
	return d[len(w.pfx):]
}

func (w *world) regionsSorted() []*metapb.Region {
	rs := w.cluster.GetAllRegions()
	ms := make([]*metapb.Region, 0, len(rs))
	for _, r := range rs {
		ms = append(ms, r.Meta)
	}
	sort.Slice(ms, func(i, j int) bool { return bytes.Compare(ms[i].StartKey, ms[j].StartKey) < 0 })
	return ms
}

// layout = start keys of all regions but the first; also checks that regions tile the key space
func (w *world) layout() string {
	ms := w.regionsSorted()
	var ks [][]byte
	for i, m := range ms {
		if i == 0 {
			if len(m.StartKey) != 0 {
				return "BROKEN-first-start"
			}
			continue
		}
		if !bytes.Equal(ms[i-1].EndKey, m.StartKey) {
			return "BROKEN-gap"
		}
		ks = append(ks, w.dec(m.StartKey))
	}
	if len(ms[len(ms)-1].EndKey) != 0 {
		return "BROKEN-last-end"
	}
	return hxs(ks)
}

func (w *world) regionOf(key []byte) *metapb.Region {
	r, _, _, _ := w.cluster.GetRegionByKey(w.enc(key))
	return r
}

func (w *world) apply(t Topo) {
	key := unhx(t.Key)
	r := w.regionOf(key)
	if r == nil {
		return
	}
	switch t.Kind {
	case "split":
		if len(key) == 0 || bytes.Equal(r.StartKey, w.enc(key)) {
			return
		}
		newID := w.cluster.AllocID()
		peers := w.cluster.AllocIDs(len(r.Peers))
		w.cluster.SplitRaw(r.Id, newID, w.enc(key), peers, peers[0])
	case "merge":
		if len(r.EndKey) == 0 {
			return
		}
		nx, _, _, _ := w.cluster.GetRegionByKey(r.EndKey)
		if nx == nil || nx.Id == r.Id {
			return
		}
		w.cluster.Merge(r.Id, nx.Id)
	case "leader":
		_, leader := w.cluster.GetRegion(r.Id)
		for i, p := range r.Peers {
			if p.Id == leader {
				w.cluster.ChangeLeader(r.Id, r.Peers[(i+1)%len(r.Peers)].Id)
				return
			}
		}
	}
}

type gate struct {
	inner *mocktikv.RPCClient
	w     *world
	mu    sync.Mutex
	n     int
	inj   map[int]Topo
	wire  []string // request fields of every served raw RPC that the store-side result cannot show (ttl, for_cas, key_only, ...)
	lays  []string // layout at every served raw RPC
	bats  []string // keys of every served batch RPC
	rerrs int
	other int

	cancel   context.CancelFunc
	exceeded bool

	inflight int32           // requests inside the gate right now
	epoch    int             // call counter (a held request that wakes up in a later epoch is late)
	held     []chan struct{} // requests held at the gate
	lateWG   sync.WaitGroup
	late     int // requests that reached the store after their call had returned
}

const holdGrace = 150 * time.Millisecond

// releaseHeld lets every held request through and waits until they are done
func (g *gate) releaseHeld() {
	g.mu.Lock()
	for _, c := range g.held {
		close(c)
	}
	g.mu.Unlock()
	g.lateWG.Wait()
}
func (g *gate) heldNow() int {
	g.mu.Lock()
	defer g.mu.Unlock()
	return len(g.held)
}

func (g *gate) reset(inj []Inject) {
	g.mu.Lock()
	defer g.mu.Unlock()
	g.n, g.rerrs, g.other = 0, 0, 0
	g.epoch++
	g.exceeded = false
	g.lays, g.bats, g.wire = nil, nil, nil
	g.inj = map[int]Topo{}
	for _, i := range inj {
		g.inj[i.At] = i.Act
	}
}

func isRaw(t tikvrpc.CmdType) bool {
	switch t {
	case tikvrpc.CmdRawGet, tikvrpc.CmdRawBatchGet, tikvrpc.CmdRawPut, tikvrpc.CmdRawBatchPut, tikvrpc.CmdRawDelete,
		tikvrpc.CmdRawBatchDelete, tikvrpc.CmdRawDeleteRange, tikvrpc.CmdRawScan, tikvrpc.CmdGetKeyTTL,
		tikvrpc.CmdRawCompareAndSwap, tikvrpc.CmdRawChecksum:
		return true
	}
	return false
}

func (g *gate) SendRequest(ctx context.Context, addr string, req *tikvrpc.Request, timeout time.Duration) (*tikvrpc.Response, error) {
	atomic.AddInt32(&g.inflight, 1)
	defer atomic.AddInt32(&g.inflight, -1)
	g.mu.Lock()
	if act, ok := g.inj[g.n+1]; ok && act.Kind == "hold" && isRaw(req.Type) {
		// HOLD: the request waits at the gate (the gate itself stays open) until the call cancels it, the driver
		// releases it, or a short grace period ends (calls with a single request would otherwise wait for ever).
		// A correct call cancels or awaits its requests before it returns, so none is still held at return.
		g.n++
		epoch := g.epoch
		ch := make(chan struct{})
		g.held = append(g.held, ch)
		g.lateWG.Add(1)
		defer g.lateWG.Done()
		g.mu.Unlock()
		select {
		case <-ctx.Done():
		case <-ch:
		case <-time.After(holdGrace):
		}
		g.mu.Lock()
		defer g.mu.Unlock()
		for i, c := range g.held {
			if c == ch {
				g.held = append(g.held[:i], g.held[i+1:]...)
				break
			}
		}
		if ctx.Err() != nil {
			return nil, ctx.Err() // cancelled by its call: never executed
		}
		if g.epoch != epoch {
			// its call has already returned: the request reaches the store AFTER the return
			g.late++
			return g.inner.SendRequest(ctx, addr, req, timeout)
		}
		return g.forwardAndLog(ctx, addr, req, timeout)
	}
	defer g.mu.Unlock()
	if !isRaw(req.Type) {
		g.other++
		return g.inner.SendRequest(ctx, addr, req, timeout)
	}
	g.n++
	if g.n > rpcBudget {
		// a call that keeps sending requests never finishes on its own: cancel it (no wall clock
		// involved; a cancelled context does not make the client mark stores or regions as failed)
		g.exceeded = true
		if g.cancel != nil {
			g.cancel()
		}
		return nil, context.Canceled
	}
	if act, ok := g.inj[g.n]; ok {
		if act.Kind == "nobody" {
			// a response without a body (never executed): every call must turn it into ErrBodyMissing
			g.lays = append(g.lays, "FAIL")
			return &tikvrpc.Response{}, nil
		}
		if act.Kind == "fail" {
			// the store answers with an application error: the request is NOT executed
			var r interface{}
			switch req.Type {
			case tikvrpc.CmdRawBatchPut:
				r = &kvrpcpb.RawBatchPutResponse{Error: "verif: injected failure"}
			case tikvrpc.CmdRawBatchDelete:
				r = &kvrpcpb.RawBatchDeleteResponse{Error: "verif: injected failure"}
			case tikvrpc.CmdRawDeleteRange:
				r = &kvrpcpb.RawDeleteRangeResponse{Error: "verif: injected failure"}
			case tikvrpc.CmdRawGet:
				r = &kvrpcpb.RawGetResponse{Error: "verif: injected failure"}
			case tikvrpc.CmdRawPut:
				r = &kvrpcpb.RawPutResponse{Error: "verif: injected failure"}
			case tikvrpc.CmdRawDelete:
				r = &kvrpcpb.RawDeleteResponse{Error: "verif: injected failure"}
			case tikvrpc.CmdRawCompareAndSwap:
				r = &kvrpcpb.RawCASResponse{Error: "verif: injected failure"}
			}
			if r != nil {
				g.lays = append(g.lays, "FAIL")
				return &tikvrpc.Response{Resp: r}, nil
			}
		} else {
			g.w.apply(act)
		}
	}
	return g.forwardAndLog(ctx, addr, req, timeout)
}

// forwardAndLog (gate locked): the request goes to the store; what a served request looked like is recorded
func (g *gate) forwardAndLog(ctx context.Context, addr string, req *tikvrpc.Request, timeout time.Duration) (*tikvrpc.Response, error) {
	resp, err := g.inner.SendRequest(ctx, addr, req, timeout)
	if err != nil || resp == nil {
		return resp, err
	}
	re, e2 := resp.GetRegionError()
	if e2 == nil && re != nil {
		g.rerrs++
		if debug {
			fmt.Fprintf(os.Stderr, "rpc %d %s region=%d ver=%d -> %s\n", g.n, req.Type, req.Context.RegionId, req.Context.RegionEpoch.GetVersion(), re.String())
		}
		return resp, err
	}
	g.lays = append(g.lays, g.w.layout())
	if debug {
		rg, _ := g.w.cluster.GetRegion(req.Context.RegionId)
		fmt.Fprintf(os.Stderr, "rpc %d %s served region=%d ver=%d bounds=[%s,%s) layout=%s\n", g.n, req.Type, req.Context.RegionId,
			req.Context.RegionEpoch.GetVersion(), hx(rg.GetStartKey()), hx(rg.GetEndKey()), g.w.layout())
	}
	b01 := func(b bool) int {
		if b {
			return 1
		}
		return 0
	}
	switch req.Type {
	case tikvrpc.CmdRawPut:
		r := req.RawPut()
		g.wire = append(g.wire, fmt.Sprintf("put:%d:%d", b01(r.ForCas), r.Ttl))
	case tikvrpc.CmdRawDelete:
		g.wire = append(g.wire, fmt.Sprintf("del:%d", b01(req.RawDelete().ForCas)))
	case tikvrpc.CmdRawScan:
		r := req.RawScan()
		lo, hi := g.strip(r.StartKey), g.stripEnd(r.EndKey)
		if r.Reverse { // reverse: StartKey is the upper bound (never empty), EndKey the lower one
			lo, hi = g.strip(r.EndKey), g.strip(r.StartKey)
		}
		g.wire = append(g.wire, fmt.Sprintf("scan:%d:%d:%d:%s:%s", b01(r.KeyOnly), b01(r.Reverse), r.Limit, hx(lo), hx(hi)))
	case tikvrpc.CmdRawChecksum:
		for _, kr := range req.RawChecksum().Ranges {
			g.wire = append(g.wire, fmt.Sprintf("cksum:%s:%s", hx(g.strip(kr.StartKey)), hx(g.stripEnd(kr.EndKey))))
		}
	case tikvrpc.CmdRawCompareAndSwap:
		r := req.RawCompareAndSwap()
		g.wire = append(g.wire, fmt.Sprintf("cas:%d:%d", b01(r.PreviousNotExist), r.Ttl))
	}
	switch req.Type {
	case tikvrpc.CmdRawBatchGet:
		g.bats = append(g.bats, hxs(g.strips(req.RawBatchGet().Keys)))
	case tikvrpc.CmdRawBatchDelete:
		g.bats = append(g.bats, hxs(g.strips(req.RawBatchDelete().Keys)))
		g.wire = append(g.wire, fmt.Sprintf("bdel:%d", b01(req.RawBatchDelete().ForCas)))
	case tikvrpc.CmdRawDeleteRange:
		r := req.RawDeleteRange()
		g.bats = append(g.bats, hx(g.strip(r.StartKey))+":"+hx(g.stripEnd(r.EndKey)))
	case tikvrpc.CmdRawBatchPut:
		r := req.RawBatchPut()
		var ks []string
		for i, p := range r.Pairs {
			t := uint64(0)
			if i < len(r.Ttls) {
				t = r.Ttls[i]
			}
			ks = append(ks, hx(g.strip(p.Key))+":"+hx(p.Value)+":"+strconv.FormatUint(t, 10))
		}
		g.bats = append(g.bats, strings.Join(ks, ","))
		g.wire = append(g.wire, fmt.Sprintf("bput:%d:%d:%d:%d", b01(r.ForCas), r.Ttl, len(r.Ttls), len(r.Pairs)))
	}
	return resp, err
}

// the gate sits below the codec: in API v2 mode request keys carry the keyspace prefix
func (g *gate) strip(k []byte) []byte {
	if g.w.pfx == nil {
		return k
	}
	if !bytes.HasPrefix(k, g.w.pfx) {
		return append([]byte("BROKEN-unprefixed-"), k...)
	}
	return k[len(g.w.pfx):]
}
func (g *gate) strips(ks [][]byte) [][]byte {
	r := make([][]byte, len(ks))
	for i, k := range ks {
		r[i] = g.strip(k)
	}
	return r
}

// an unbounded end is sent as the end of the keyspace (prefix + 1)
func (g *gate) stripEnd(k []byte) []byte {
	if g.w.pfx != nil && !bytes.HasPrefix(k, g.w.pfx) {
		return nil
	}
	return g.strip(k)
}

func (g *gate) SendRequestAsync(ctx context.Context, addr string, req *tikvrpc.Request, cb async.Callback[*tikvrpc.Response]) {
	go func() { cb.Schedule(g.SendRequest(ctx, addr, req, 0)) }()
}
func (g *gate) Close() error                                  { return nil }
func (g *gate) CloseAddr(addr string) error                   { return nil }
func (g *gate) SetEventListener(l client.ClientEventListener) {}

var _ client.Client = (*gate)(nil)

// PD wrapper answering LoadKeyspace (the mock PD has no keyspaces), and what RPCClient.SendRequest
// does around the wire when a codec is configured (both as in the C15 end-to-end driver)
type ksPD struct {
	pd.Client
	meta *keyspacepb.KeyspaceMeta
}

func (p ksPD) GetGCStatesClient(keyspaceID uint32) pdgc.GCStatesClient {
	return p.Client.GetGCStatesClient(constants.NullKeyspaceID)
}
func (p ksPD) GetGCInternalController(keyspaceID uint32) pdgc.InternalController {
	return p.Client.GetGCInternalController(constants.NullKeyspaceID)
}
func (p ksPD) WithCallerComponent(c caller.Component) pd.Client {
	return ksPD{p.Client.WithCallerComponent(c), p.meta}
}
func (p ksPD) LoadKeyspace(ctx context.Context, name string) (*keyspacepb.KeyspaceMeta, error) {
	return p.meta, nil
}

type codecRPC struct {
	client.Client
	codec apicodec.Codec
}

func (c *codecRPC) SendRequest(ctx context.Context, addr string, req *tikvrpc.Request, timeout time.Duration) (*tikvrpc.Response, error) {
	req, err := c.codec.EncodeRequest(req)
	if err != nil {
		return nil, err
	}
	resp, err := c.Client.SendRequest(ctx, addr, req, timeout)
	if err != nil {
		return nil, err
	}
	return c.codec.DecodeResponse(req, resp)
}
func (c *codecRPC) SendRequestAsync(ctx context.Context, addr string, req *tikvrpc.Request, cb async.Callback[*tikvrpc.Response]) {
	go func() { cb.Schedule(c.SendRequest(ctx, addr, req, 0)) }()
}

// ---------------------------------------------------------------- execution

func errKind(err error) string {
	m := err.Error()
	switch {
	case strings.Contains(m, "not found"):
		return "err notfound"
	case strings.Contains(m, "MaxRawKVScanLimit"):
		return "err limit"
	case strings.Contains(m, "atomic"):
		return "err atomic"
	case strings.Contains(m, "injected failure"), strings.Contains(m, "body is missing"):
		return "err injected"
	case strings.Contains(m, "is not equal to the len of values"):
		return "err args"
	case strings.Contains(m, "unsupported this request type"):
		return "err unsupported"
	}
	return "err other:" + strings.ReplaceAll(strings.ReplaceAll(m, "\t", " "), "\n", " ")
}

func runSeq(sq Seq, out *bytes.Buffer) {
	js, _ := json.Marshal(sq)
	fmt.Fprintf(out, "SEQ\t%d\t%s\n", sq.ID, js)
	mvcc := mocktikv.MustNewMVCCStore()
	cluster := mocktikv.NewCluster(mvcc)
	n := sq.Stores
	if n < 1 {
		n = 1
	}
	stores, _, _, _ := mocktikv.BootstrapWithMultiStores(cluster, n)
	w := &world{cluster: cluster, stores: stores}
	g := &gate{inner: mocktikv.NewRPCClient(cluster, mvcc, nil), w: w}
	var cli *rawkv.Client
	if sq.API == "v2" {
		meta := &keyspacepb.KeyspaceMeta{Keyspace: &keyspacepb.KeyspaceMeta_Id{Id: sq.KsID}, Name: "ks", State: keyspacepb.KeyspaceState_ENABLED}
		pdc, err := locate.NewCodecPDClientWithKeyspace(apicodec.ModeRaw, ksPD{mocktikv.NewPDClient(cluster), meta}, "ks")
		if err != nil {
			panic(err)
		}
		w.pfx = append([]byte{}, pdc.GetCodec().GetKeyspace()...)
		cli = rawkv.NewClientForVerifAPI(kvrpcpb.APIVersion_V2, pdc, &codecRPC{g, pdc.GetCodec()})
	} else {
		cli = rawkv.NewClientForVerif(mocktikv.NewPDClient(cluster), g)
	}
	for _, s := range sq.Splits {
		w.apply(Topo{Kind: "split", Key: s})
	}
	atomicNow := !sq.NonAt
	cli.SetAtomicForCAS(atomicNow)
	// handleKvRawChecksum reads column family "CF_DEFAULT" whatever the request says; column
	// families are outside C11, so everything runs in that one family unless the spec names another
	cf := sq.CF
	if cf == "" {
		cf = "CF_DEFAULT"
	}
	cli.SetColumnFamily(cf)
	defer func() {
		cli.Close()
		mvcc.Close()
	}()
	ctx := context.Background()
	if !sq.Fresh {
		// create the column family first
		_ = cli.Put(ctx, []byte("zz"), []byte("x"))
		_ = cli.Delete(ctx, []byte("zz"))
	}
	releaseAfterThis := false
	defer g.releaseHeld()
	for idx, op := range sq.Ops {
		if op.Name == "setatomic" {
			// the client's atomic-mode field: for_cas of every later write, and whether CAS is allowed
			atomicNow = op.KeyOnly
			cli.SetAtomicForCAS(atomicNow)
			continue
		}
		if op.Name == "setcf" {
			// the client's own family field: read by every later call that has no per-call option
			cf = op.CF
			cli.SetColumnFamily(cf)
			continue
		}
		for _, t := range op.Pre {
			w.apply(t)
		}
		if op.Exact {
			// a full key-only scan leaves the region cache with exactly the current regions, so the
			// grouping of the next call is the grouping under the current layout
			g.reset(nil)
			_, _, _ = cli.Scan(ctx, nil, nil, 10000, rawkv.ScanKeyOnly())
		}
		g.reset(op.Inj)
		opCtx, cancel := context.WithCancel(ctx)
		g.mu.Lock()
		g.cancel = cancel
		g.mu.Unlock()
		var args, res string
		func() {
			defer func() {
				if r := recover(); r != nil {
					res = "panic:" + strings.ReplaceAll(fmt.Sprint(r), "\t", " ")
				}
			}()
			args = argsOf(op)
			_, res = execOp(opCtx, cli, op)
		}()
		g.mu.Lock()
		g.epoch++ // the call has returned: whatever reaches the store from now on is late
		g.mu.Unlock()
		if atomic.LoadInt32(&g.inflight) == 0 {
			cancel()
		} else {
			// requests of the call are still in flight: the caller's context stays alive (as a long-lived
			// application context would), so that they can be seen reaching the store after the return
			defer cancel()
		}
		g.mu.Lock()
		lays := strings.Join(g.lays, ";")
		if len(g.lays) == 0 {
			lays = "none"
		}
		bats := strings.Join(g.bats, ";")
		if len(g.bats) == 0 {
			bats = "none"
		}
		wire := strings.Join(g.wire, ";")
		if len(g.wire) == 0 {
			wire = "none"
		}
		// requests of this call that are still inside the gate now that the call has returned (must be 0:
		// a call cancels or awaits every request it started)
		outlive := int(atomic.LoadInt32(&g.inflight))
		if g.exceeded {
			res = "err does-not-terminate"
		}
		exact := 0
		if op.Exact && len(op.Inj) == 0 {
			exact = 1
		}
		atomicFlag := 0
		if atomicNow {
			atomicFlag = 1
		}
		opcf := op.CF
		if opcf == "" {
			opcf = cf
		}
		fmt.Fprintf(out, "OP\t%d\t%d\t%s\t%s\tC=%s\tA=%d\tL=%s\tB=%s\tN=%d,%d,%d,%d\tW=%s\t=>\t%s\n", sq.ID, idx, op.Name, args, opcf, atomicFlag, lays, bats, g.n, g.rerrs, exact, outlive, wire, res)
		stop := g.exceeded
		g.mu.Unlock()
		if releaseAfterThis {
			// the requests a previous call left behind reach the store now, after a later call was acknowledged
			g.releaseHeld()
			releaseAfterThis = false
		}
		if outlive > 0 {
			releaseAfterThis = true
		}
		tolerated := res == "err injected" || res == "err atomic" || res == "err limit" || res == "err args"
		// ("err unsupported" ends the sequence: the unanswerable GetKeyTTL leaves the store marked unreachable)
		if stop || (strings.HasPrefix(res, "err") && !tolerated) || strings.HasPrefix(res, "panic") {
			// no call of these sequences may fail: the oracle has failed on this call, and the
			// client's state afterwards (stores marked unreachable, ...) is of no further interest
			break
		}
	}
}

func kvres(keys, vals [][]byte, err error) string {
	if err != nil {
		return errKind(err)
	}
	vs := make([]string, len(vals))
	for i, v := range vals {
		vs[i] = optv(v)
	}
	v := strings.Join(vs, ",")
	if len(vs) == 0 {
		v = "."
	}
	return "ok " + hxs(keys) + " " + v
}

// argsOf formats the arguments of a call exactly as execOp does (kept separate so that the OP line is
// complete even when the call panics)
func argsOf(op Op) string {
	switch op.Name {
	case "put":
		ttl := uint64(0)
		if len(op.TTLs) > 0 {
			ttl = op.TTLs[0]
		}
		return fmt.Sprintf("%s\t%s\t%d", hx(unhx(op.Keys[0])), hx(unhx(op.Vals[0])), ttl)
	case "get", "del", "ttl":
		return hx(unhx(op.Keys[0]))
	case "bput":
		ts := "."
		if len(op.TTLs) > 0 {
			p := make([]string, len(op.TTLs))
			for i, t := range op.TTLs {
				p[i] = strconv.FormatUint(t, 10)
			}
			ts = strings.Join(p, ",")
		}
		return hxs(unhxs(op.Keys)) + "\t" + hxs(unhxs(op.Vals)) + "\t" + ts
	case "bget", "bdel":
		return hxs(unhxs(op.Keys))
	case "drange", "cksum":
		return hx(unhx(op.S)) + "\t" + hx(unhx(op.E))
	case "scan", "rscan":
		ko := 0
		if op.KeyOnly {
			ko = 1
		}
		return fmt.Sprintf("%s\t%s\t%d\t%d", hx(unhx(op.S)), hx(unhx(op.E)), op.Limit, ko)
	case "cas":
		ps := "N"
		if op.Prev != nil {
			ps = "V" + hex.EncodeToString(unhx(*op.Prev))
		}
		return hx(unhx(op.Keys[0])) + "\t" + ps + "\t" + hx(unhx(op.Vals[0]))
	}
	return ""
}

func execOp(ctx context.Context, cli *rawkv.Client, op Op) (string, string) {
	okerr := func(err error) string {
		if err != nil {
			return errKind(err)
		}
		return "ok"
	}
	var o []rawkv.RawOption
	if op.CF != "" {
		o = append(o, rawkv.SetColumnFamily(op.CF))
	}
	switch op.Name {
	case "put":
		ttl := uint64(0)
		if len(op.TTLs) > 0 {
			ttl = op.TTLs[0]
		}
		if len(op.TTLs) == 0 {
			return "", okerr(cli.Put(ctx, unhx(op.Keys[0]), unhx(op.Vals[0]), o...))
		}
		return "", okerr(cli.PutWithTTL(ctx, unhx(op.Keys[0]), unhx(op.Vals[0]), ttl, o...))
	case "get":
		v, err := cli.Get(ctx, unhx(op.Keys[0]), o...)
		if err != nil {
			return "", errKind(err)
		}
		return "", "ok " + optv(v)
	case "ttl":
		t, err := cli.GetKeyTTL(ctx, unhx(op.Keys[0]), o...)
		if err != nil {
			// mocktikv has no CmdGetKeyTTL: its "unsupported this request type" is a send error, which
			// the client retries until the back-off budget is spent ("region unavailable")
			return "", "err unsupported"
		}
		if t == nil {
			return "", "ok N"
		}
		return "", fmt.Sprintf("ok %d", *t)
	case "del":
		return "", okerr(cli.Delete(ctx, unhx(op.Keys[0]), o...))
	case "bput":
		if len(op.TTLs) == 0 {
			return "", okerr(cli.BatchPut(ctx, unhxs(op.Keys), unhxs(op.Vals), o...))
		}
		return "", okerr(cli.BatchPutWithTTL(ctx, unhxs(op.Keys), unhxs(op.Vals), op.TTLs, o...))
	case "bget":
		vals, err := cli.BatchGet(ctx, unhxs(op.Keys), o...)
		if err != nil {
			return "", errKind(err)
		}
		vs := make([]string, len(vals))
		for i, v := range vals {
			vs[i] = optv(v)
		}
		r := strings.Join(vs, ",")
		if len(vs) == 0 {
			r = "."
		}
		return "", "ok " + r
	case "bdel":
		return "", okerr(cli.BatchDelete(ctx, unhxs(op.Keys), o...))
	case "drange":
		return "", okerr(cli.DeleteRange(ctx, unhx(op.S), unhx(op.E), o...))
	case "scan", "rscan":
		s, e := unhx(op.S), unhx(op.E)
		if op.KeyOnly {
			o = append(o, rawkv.ScanKeyOnly())
		}
		if op.Name == "scan" {
			k, v, err := cli.Scan(ctx, s, e, op.Limit, o...)
			return "", kvres(k, v, err)
		}
		k, v, err := cli.ReverseScan(ctx, s, e, op.Limit, o...)
		return "", kvres(k, v, err)
	case "cksum":
		c, err := cli.Checksum(ctx, unhx(op.S), unhx(op.E), o...)
		if err != nil {
			return "", errKind(err)
		}
		return "", fmt.Sprintf("ok %x %d %d", c.Crc64Xor, c.TotalKvs, c.TotalBytes)
	case "cas":
		var prev []byte
		if op.Prev != nil {
			prev = append([]byte{}, unhx(*op.Prev)...) // non-nil: nil means "expect absent"
		}
		old, swapped, err := cli.CompareAndSwap(ctx, unhx(op.Keys[0]), prev, unhx(op.Vals[0]), o...)
		if err != nil {
			return "", errKind(err)
		}
		sw := 0
		if swapped {
			sw = 1
		}
		return "", fmt.Sprintf("ok %s %d", optv(old), sw)
	}
	return "", "err unknown-op"
}

var debug = os.Getenv("VERIF_DEBUG") != ""

const rpcBudget = 3000

var alphabet = []byte{0x61, 0x62, 0x63, 0x64}

func genKey(r *rand.Rand) []byte {
	n := 1 + r.Intn(3)
	if r.Intn(4) == 0 {
		n = 1
	}
	k := make([]byte, n)
	for i := range k {
		k[i] = alphabet[r.Intn(len(alphabet))]
	}
	switch r.Intn(12) {
	case 0:
		k = append(k, 0x00)
	case 1:
		k = append(k, 0xff)
	}
	return k
}

type genState struct {
	r       *rand.Rand
	pool    [][]byte
	noSplit bool // only leader transfers (API v2 class: mocktikv's raw handlers assume API v1 region bounds)
}

func (g *genState) key() []byte {
	if g.r.Intn(8) == 0 {
		return genKey(g.r)
	}
	return g.pool[g.r.Intn(len(g.pool))]
}

// a range bound: a pool key, a pool key + 0x00, a fresh key, or empty
func (g *genState) bound(emptyOdds int) []byte {
	switch {
	case g.r.Intn(emptyOdds) == 0:
		return []byte{}
	case g.r.Intn(6) == 0:
		return append(append([]byte{}, g.key()...), 0x00)
	}
	return g.key()
}

// limits: mostly small (0 included), sometimes exactly MaxRawKVScanLimit (allowed) or beyond it (error before any request)
func (g *genState) limit(np int) int {
	switch g.r.Intn(40) {
	case 0:
		return 10240
	case 1:
		return 10241 + g.r.Intn(3)*5000
	}
	return g.r.Intn(np + 2)
}

func (g *genState) val() []byte {
	n := g.r.Intn(4)
	v := make([]byte, n)
	for i := range v {
		v[i] = byte(0x30 + g.r.Intn(4))
	}
	return v
}
func (g *genState) topo() Topo {
	kinds := []string{"split", "split", "merge", "leader"}
	if g.noSplit && os.Getenv("VERIF_V2_MULTI") == "" {
		return Topo{Kind: "leader", Key: hx(g.key())}
	}
	return Topo{Kind: kinds[g.r.Intn(len(kinds))], Key: hx(g.key())}
}
func (g *genState) keys(max int) []string {
	n := g.r.Intn(max + 1)
	ks := make([]string, n)
	for i := range ks {
		if i > 0 && g.r.Intn(4) == 0 {
			ks[i] = ks[g.r.Intn(i)] // duplicate
		} else {
			ks[i] = hx(g.key())
		}
	}
	return ks
}

// makeBig turns a batch call into one that crosses the sub-batch limits: > 512 keys in one region
// (batch get / delete) or > 16 KB of pairs in one region (batch put)
func (g *genState) makeBig(op *Op) {
	r := g.r
	wide := func() string { // 4 x 256 distinct keys, most of them under one first letter
		first := alphabet[0]
		if r.Intn(5) == 0 {
			first = alphabet[r.Intn(len(alphabet))]
		}
		return hx([]byte{first, byte(0x61 + r.Intn(16)), byte(0x61 + r.Intn(16))})
	}
	switch op.Name {
	case "bget", "bdel":
		n := 600 + r.Intn(900)
		op.Keys = make([]string, n)
		for i := range op.Keys {
			op.Keys[i] = wide()
		}
	case "bput":
		n := 6 + r.Intn(10)
		op.Keys, op.Vals, op.TTLs = make([]string, n), make([]string, n), nil
		for i := range op.Keys {
			if i > 0 && r.Intn(5) == 0 {
				op.Keys[i] = op.Keys[r.Intn(i)]
			} else if r.Intn(2) == 0 {
				op.Keys[i] = wide()
			} else {
				op.Keys[i] = hx(g.key())
			}
			op.Vals[i] = fmt.Sprintf("*%dx%02x", 1500+r.Intn(7000), 0x30+r.Intn(10))
		}
	}
}

func genSeq(id int, r *rand.Rand, nops int) Seq {
	g := &genState{r: r}
	np := 4 + r.Intn(8)
	for i := 0; i < np; i++ {
		g.pool = append(g.pool, genKey(r))
	}
	sq := Seq{ID: id, Stores: 1 + r.Intn(3)}
	// sequence classes: plain | column families | sub-batching | failing requests | API v2 | non-atomic
	class := "plain"
	switch c := r.Intn(100); {
	case c < 8:
		class = "cf"
	case c < 14:
		class = "big"
	case c < 26:
		class = "fail"
	case c < 34:
		class = "v2"
		sq.API, sq.KsID = "v2", uint32(1+r.Intn(3))*0x0100ff
		g.noSplit = true
	case c < 38:
		class = "nonatomic"
		sq.NonAt = true
	}
	ns := r.Intn(5)
	if g.noSplit && os.Getenv("VERIF_V2_MULTI") == "" {
		ns = 0
	}
	for i := 0; i < ns; i++ {
		sq.Splits = append(sq.Splits, hx(g.key()))
	}
	// prefill so that scans see data early
	pre := Op{Name: "bput"}
	for i := 0; i < np; i++ {
		if r.Intn(3) > 0 {
			pre.Keys = append(pre.Keys, hx(g.pool[i]))
			pre.Vals = append(pre.Vals, hx(g.val()))
		}
	}
	sq.Ops = append(sq.Ops, pre)
	names := []string{"put", "get", "del", "bput", "bget", "bdel", "drange", "scan", "scan", "rscan", "rscan", "cksum", "cas", "scan", "bget"}
	for i := 0; i < nops; i++ {
		op := Op{Name: names[r.Intn(len(names))]}
		switch op.Name {
		case "put":
			op.Keys, op.Vals = []string{hx(g.key())}, []string{hx(g.val())}
			if r.Intn(3) == 0 {
				op.TTLs = []uint64{uint64(r.Intn(100))}
			}
		case "get", "del":
			op.Keys = []string{hx(g.key())}
		case "bput":
			op.Keys = g.keys(8)
			for range op.Keys {
				op.Vals = append(op.Vals, hx(g.val()))
			}
			if r.Intn(3) == 0 {
				for range op.Keys {
					op.TTLs = append(op.TTLs, uint64(r.Intn(100)))
				}
			}
		case "bget", "bdel":
			op.Keys = g.keys(8)
		case "drange", "cksum":
			op.S, op.E = hx(g.bound(5)), hx(g.bound(4))
		case "scan":
			op.S, op.E = hx(g.bound(5)), hx(g.bound(3))
			op.Limit = g.limit(np)
			op.KeyOnly = r.Intn(4) == 0
		case "rscan":
			op.S, op.E = hx(g.bound(12)), hx(g.bound(3))
			op.Limit = g.limit(np)
			op.KeyOnly = r.Intn(4) == 0
		case "cas":
			op.Keys, op.Vals = []string{hx(g.key())}, []string{hx(g.val())}
			if r.Intn(3) > 0 {
				p := hx(g.val())
				op.Prev = &p
			}
		}
		if class == "cf" && r.Intn(3) == 0 {
			op.CF = "cf2"
		}
		if class == "cf" && r.Intn(6) == 0 {
			// calls with a per-call option must not notice; calls without one follow the field
			sq.Ops = append(sq.Ops, Op{Name: "setcf", CF: []string{"CF_DEFAULT", "cf2", "cf3"}[r.Intn(3)]})
		}
		if class == "big" && r.Intn(4) == 0 {
			g.makeBig(&op)
			op.Exact = r.Intn(3) > 0
		}
		quiet := op.Exact
		if !quiet && r.Intn(3) == 0 {
			for j := r.Intn(3); j >= 0; j-- {
				op.Pre = append(op.Pre, g.topo())
			}
		}
		if !quiet && r.Intn(2) == 0 {
			for j := r.Intn(3); j >= 0; j-- {
				t := g.topo()
				// aim the change at the range/keys of the call
				if r.Intn(2) == 0 {
					switch {
					case len(op.Keys) > 0:
						t.Key = op.Keys[r.Intn(len(op.Keys))]
					case op.S != "" && op.S != "-":
						t.Key = op.S
					}
				}
				op.Inj = append(op.Inj, Inject{At: 1 + r.Intn(4), Act: t})
			}
		}
		failing := false
		if class == "fail" && (op.Name == "bput" || op.Name == "bdel" || op.Name == "drange") && r.Intn(2) == 0 {
			// the i-th request of this call fails for good; a full scan right after shows what was done
			kind := "fail"
			if r.Intn(4) == 0 {
				kind = "nobody"
			}
			op.Inj = append(op.Inj, Inject{At: 1 + r.Intn(3), Act: Topo{Kind: kind}})
			failing = true
		}
		if class == "fail" && (op.Name == "get" || op.Name == "put" || op.Name == "del" || op.Name == "cas" || op.Name == "scan" || op.Name == "rscan" || op.Name == "cksum") && r.Intn(3) == 0 {
			// single-request calls and range reads: an application error / a body-less response must surface as the call's error
			kind := "fail"
			if r.Intn(2) == 0 || op.Name == "scan" || op.Name == "rscan" || op.Name == "cksum" {
				kind = "nobody"
			}
			op.Inj = append(op.Inj, Inject{At: 1 + r.Intn(2), Act: Topo{Kind: kind}})
			failing = true
		}
		if class == "fail" && (op.Name == "bput" || op.Name == "bdel") && !failing && len(op.Keys) >= 2 && r.Intn(2) == 0 {
			// one request of the call is held at the gate while a sibling fails: the call must cancel (or await) the
			// held one before it returns; the next call writes the same keys, then everything is read back
			op.Inj = []Inject{{At: 1, Act: Topo{Kind: "hold"}}, {At: 2, Act: Topo{Kind: "fail"}}}
			failing = true
			sq.Ops = append(sq.Ops, op)
			again := Op{Name: "bput", Keys: op.Keys}
			for range op.Keys {
				again.Vals = append(again.Vals, hx(g.val()))
			}
			sq.Ops = append(sq.Ops, again, Op{Name: "scan", S: "-", E: "-", Limit: 5000})
			continue
		}
		if class == "fail" && op.Name == "bput" && !failing && r.Intn(6) == 0 && len(op.Keys) > 0 {
			// argument errors: refused before any request
			if r.Intn(2) == 0 {
				op.Vals = op.Vals[:len(op.Vals)-1]
			} else {
				op.TTLs = make([]uint64, len(op.Keys)+1)
			}
		}
		if class == "nonatomic" && r.Intn(5) == 0 {
			// atomic mode is a client field: it may change between calls
			sq.Ops = append(sq.Ops, Op{Name: "setatomic", KeyOnly: r.Intn(2) == 0})
		}
		sq.Ops = append(sq.Ops, op)
		if failing || op.CF != "" && r.Intn(2) == 0 {
			sq.Ops = append(sq.Ops, Op{Name: "scan", S: "-", E: "-", Limit: 5000, CF: op.CF})
		}
	}
	sq.Ops = append(sq.Ops, Op{Name: "scan", S: "-", E: "-", Limit: 5000}) // final state
	return sq
}

// directed sequences: the input classes behind the defects found while this check was built
// (CAS on an absent key / expect-absent vs empty value, BatchGet of absent keys, repeated
// split+merge epochs) and the border cases named by the property.
func sp(s string) *string { return &s }
func directedSeqs(base int) []Seq {
	a, b, b0, c, d, e := "61", "62", "6200", "63", "64", "65"
	seqs := []Seq{
		{Stores: 1, Splits: []string{b, c}, Ops: []Op{
			{Name: "cas", Keys: []string{a}, Vals: []string{"31"}},                 // absent, expect absent -> swapped
			{Name: "cas", Keys: []string{a}, Vals: []string{"32"}},                 // present, expect absent -> not swapped
			{Name: "cas", Keys: []string{b}, Vals: []string{"33"}, Prev: sp("31")}, // absent, expect value -> not swapped, no error
			{Name: "put", Keys: []string{c}, Vals: []string{"-"}},
			{Name: "cas", Keys: []string{c}, Vals: []string{"34"}},                // present-empty, expect absent -> not swapped
			{Name: "cas", Keys: []string{c}, Vals: []string{"35"}, Prev: sp("-")}, // present-empty, expect empty -> swapped
			{Name: "cas", Keys: []string{c}, Vals: []string{"-"}, Prev: sp("35"), Inj: []Inject{{At: 1, Act: Topo{"split", b0}}}},
			{Name: "get", Keys: []string{c}}, {Name: "get", Keys: []string{b}},
		}},
		{Stores: 2, Splits: []string{b, d}, Ops: []Op{
			{Name: "bput", Keys: []string{a, c, c, d}, Vals: []string{"31", "32", "-", "34"}},
			{Name: "bget", Keys: []string{e, a, b, c, c, d, b0, e}},
			{Name: "bget", Keys: []string{b, a, d, e}, Inj: []Inject{{At: 1, Act: Topo{"split", c}}, {At: 2, Act: Topo{"merge", a}}}},
			{Name: "bdel", Keys: []string{a, e, a}, Inj: []Inject{{At: 1, Act: Topo{"split", "6100"}}}},
			{Name: "bget", Keys: []string{a, c, d}},
		}},
		{Stores: 1, Ops: []Op{ // epochs: split the same region repeatedly, merge, touch every range
			{Name: "bput", Keys: []string{a, b, c, d, e}, Vals: []string{"31", "32", "33", "34", "35"}},
			{Name: "get", Keys: []string{e}, Pre: []Topo{{"split", b}, {"split", c}, {"split", d}}},
			{Name: "get", Keys: []string{d}}, {Name: "get", Keys: []string{c}}, {Name: "get", Keys: []string{b}},
			{Name: "get", Keys: []string{d}, Pre: []Topo{{"merge", b}, {"merge", a}}},
			{Name: "get", Keys: []string{b}}, {Name: "get", Keys: []string{e}},
			{Name: "scan", S: "-", E: "-", Limit: 10, Pre: []Topo{{"split", b0}, {"merge", c}, {"split", e}, {"merge", a}}},
			{Name: "rscan", S: "66", E: "-", Limit: 10, Pre: []Topo{{"split", c}, {"split", b}}},
		}},
		{Stores: 3, Splits: []string{b, c, d}, Ops: []Op{ // limits hitting borders, re-split mid-call
			{Name: "bput", Keys: []string{a, b, b0, c, d, e}, Vals: []string{"31", "32", "-", "33", "34", "35"}},
			{Name: "scan", S: a, E: e, Limit: 1}, {Name: "scan", S: a, E: e, Limit: 3}, {Name: "scan", S: a, E: d, Limit: 4},
			{Name: "scan", S: "-", E: "-", Limit: 3, Inj: []Inject{{At: 2, Act: Topo{"split", b0}}}},
			{Name: "scan", S: a, E: "-", Limit: 6, KeyOnly: true, Inj: []Inject{{At: 1, Act: Topo{"merge", a}}, {At: 2, Act: Topo{"leader", d}}}},
			{Name: "rscan", S: e, E: a, Limit: 3}, {Name: "rscan", S: d, E: "-", Limit: 4, Inj: []Inject{{At: 2, Act: Topo{"split", "6201"}}}},
			{Name: "rscan", S: "6400", E: b, Limit: 9, Inj: []Inject{{At: 1, Act: Topo{"merge", b}}}},
			{Name: "cksum", S: "-", E: "-", Inj: []Inject{{At: 2, Act: Topo{"split", "6101"}}}},
			{Name: "cksum", S: b, E: d}, {Name: "cksum", S: b0, E: "6400"},
			{Name: "drange", S: b, E: d, Inj: []Inject{{At: 2, Act: Topo{"split", "6300"}}}},
			{Name: "drange", S: "6401", E: "-", Inj: []Inject{{At: 1, Act: Topo{"split", e}}}},
			{Name: "drange", S: "-", E: a},
			{Name: "drange", S: "-", E: "-", Pre: []Topo{{"split", "6000"}}},
		}},
	}
	// a column family nobody wrote to yet: every read sees an empty map (BatchGet used to panic)
	seqs = append(seqs, Seq{Stores: 1, Splits: []string{b}, CF: "cf_never_written", Fresh: true, Ops: []Op{
		{Name: "bget", Keys: []string{a, c, a}}, {Name: "get", Keys: []string{a}}, {Name: "scan", S: "-", E: "-", Limit: 5},
		{Name: "rscan", S: e, E: "-", Limit: 5}, {Name: "bdel", Keys: []string{a}}, {Name: "bget", Keys: []string{a}},
		{Name: "put", Keys: []string{c}, Vals: []string{"31"}}, {Name: "del", Keys: []string{c}},
		{Name: "bget", Keys: []string{c, a}}, // deleted key: tombstone in the store
		{Name: "bput", Keys: []string{a, c}, Vals: []string{"-", "32"}}, {Name: "bget", Keys: []string{c, d, a}},
	}})
	// sub-batch borders: 513 keys fit one batch (the test is count > 512 before adding), 514 need two;
	// two pairs of 8192 bytes fill a put batch exactly (size >= 16384 flushes before the third)
	many := func(n int) []string {
		ks := make([]string, n)
		for i := range ks {
			ks[i] = hx([]byte{0x62, byte(0x41 + i/64%32), byte(0x41 + i%64)})
		}
		return ks
	}
	big := func(n int) string { return fmt.Sprintf("*%dx37", n) }
	seqs = append(seqs, Seq{Stores: 1, Splits: []string{a}, Ops: []Op{
		{Name: "bput", Keys: many(700)[:40], Vals: many(700)[:40]},
		{Name: "bget", Keys: many(513), Exact: true}, {Name: "bget", Keys: many(514), Exact: true},
		{Name: "bget", Keys: append(many(1027), "62", "61", "6241", "6241"), Exact: true},
		{Name: "bdel", Keys: many(514)[10:], Exact: true},
		{Name: "bput", Keys: []string{"6201", "6202", "6203", "6201"}, Vals: []string{big(8190), big(8190), big(5), big(8190)}, Exact: true},
		{Name: "bput", Keys: []string{"6201", "6202", "6203"}, Vals: []string{big(8189), big(8190), big(5)}, Exact: true},
		{Name: "bput", Keys: []string{"6204", "6205", "6206", "6207", "61"}, Vals: []string{big(20000), big(1), big(16379), big(2), big(9)}, Exact: true,
			TTLs: []uint64{1, 2, 3, 4, 5}},
		{Name: "bget", Keys: []string{"6201", "6203", "6207"}},
		{Name: "bput", Keys: []string{"6201", "6202", "6203", "61"}, Vals: []string{big(9000), big(9000), big(9000), "31"},
			Inj: []Inject{{At: 2, Act: Topo{"split", "6202"}}}},
	}})
	// requests failing for good in the middle of a multi-region call
	seqs = append(seqs, Seq{Stores: 2, Splits: []string{b, c, d}, Ops: []Op{
		{Name: "bput", Keys: []string{a, b, c, d, e}, Vals: []string{"31", "32", "33", "34", "35"}},
		{Name: "bput", Keys: []string{a, b, c, d, a}, Vals: []string{"41", "42", "43", "44", "45"}, Inj: []Inject{{At: 2, Act: Topo{Kind: "fail"}}}},
		{Name: "scan", S: "-", E: "-", Limit: 100},
		{Name: "bdel", Keys: []string{a, c, e}, Inj: []Inject{{At: 1, Act: Topo{Kind: "fail"}}}},
		{Name: "scan", S: "-", E: "-", Limit: 100},
		{Name: "drange", S: "6100", E: "6401", Inj: []Inject{{At: 2, Act: Topo{Kind: "fail"}}}},
		{Name: "scan", S: "-", E: "-", Limit: 100},
		{Name: "drange", S: "-", E: "-", Inj: []Inject{{At: 1, Act: Topo{Kind: "fail"}}}},
		{Name: "scan", S: "-", E: "-", Limit: 100},
		{Name: "drange", S: "-", E: "-", Inj: []Inject{{At: 1, Act: Topo{"split", "6300"}}, {At: 3, Act: Topo{Kind: "fail"}}}},
		{Name: "scan", S: "-", E: "-", Limit: 100},
		{Name: "bput", Keys: []string{a, b, c}, Vals: []string{"51", "52", "53"}, Inj: []Inject{{At: 1, Act: Topo{"merge", b}}, {At: 3, Act: Topo{Kind: "fail"}}}},
		{Name: "scan", S: "-", E: "-", Limit: 100},
	}})
	// a request held at the gate while a sibling batch fails: cancelled or awaited, never left behind
	seqs = append(seqs, Seq{Stores: 1, Splits: []string{b, c}, Ops: []Op{
		{Name: "bput", Keys: []string{a, b, c}, Vals: []string{"31", "32", "33"}},
		{Name: "bput", Keys: []string{a, b, c}, Vals: []string{"41", "42", "43"}, Inj: []Inject{{At: 1, Act: Topo{Kind: "hold"}}, {At: 2, Act: Topo{Kind: "fail"}}}},
		{Name: "bput", Keys: []string{a, b, c}, Vals: []string{"51", "52", "53"}},
		{Name: "scan", S: "-", E: "-", Limit: 100},
		{Name: "bdel", Keys: []string{a, b, c}, Inj: []Inject{{At: 1, Act: Topo{Kind: "hold"}}, {At: 2, Act: Topo{Kind: "fail"}}}},
		{Name: "bput", Keys: []string{a, b, c}, Vals: []string{"61", "62", "63"}},
		{Name: "scan", S: "-", E: "-", Limit: 100},
		{Name: "bget", Keys: []string{a, b, c}, Inj: []Inject{{At: 1, Act: Topo{Kind: "hold"}}}},
		{Name: "scan", S: "-", E: "-", Limit: 2, Inj: []Inject{{At: 2, Act: Topo{Kind: "hold"}}}},
		{Name: "drange", S: a, E: "6300", Inj: []Inject{{At: 1, Act: Topo{Kind: "hold"}}, {At: 2, Act: Topo{Kind: "fail"}}}},
		{Name: "scan", S: "-", E: "-", Limit: 100},
	}})
	// column families are separate maps; Checksum has no family (the mock reads CF_DEFAULT);
	// the mock has no GetKeyTTL and keeps no ttl
	seqs = append(seqs, Seq{Stores: 1, Splits: []string{b}, Ops: []Op{
		{Name: "put", Keys: []string{a}, Vals: []string{"31"}, TTLs: []uint64{7}}, {Name: "put", Keys: []string{a}, Vals: []string{"32"}, CF: "cf2"},
		{Name: "bput", Keys: []string{b, c}, Vals: []string{"33", "34"}, CF: "cf2"},
		{Name: "get", Keys: []string{a}}, {Name: "get", Keys: []string{a}, CF: "cf2"}, {Name: "get", Keys: []string{b}},
		{Name: "scan", S: "-", E: "-", Limit: 9, CF: "cf2"}, {Name: "scan", S: "-", E: "-", Limit: 9},
		{Name: "cksum", S: "-", E: "-"}, {Name: "cksum", S: "-", E: "-", CF: "cf2"},
		{Name: "drange", S: "-", E: "-", CF: "cf2"}, {Name: "scan", S: "-", E: "-", Limit: 9, CF: "cf2"}, {Name: "scan", S: "-", E: "-", Limit: 9},
		{Name: "cas", Keys: []string{a}, Vals: []string{"35"}, Prev: sp("31"), CF: "cf3"}, {Name: "cas", Keys: []string{a}, Vals: []string{"35"}, CF: "cf3"},
		{Name: "ttl", Keys: []string{a}},
	}})
	// without SetAtomicForCAS(true) CompareAndSwap fails; everything else is unchanged
	seqs = append(seqs, Seq{Stores: 1, Splits: []string{b}, NonAt: true, Ops: []Op{
		{Name: "put", Keys: []string{a}, Vals: []string{"31"}}, {Name: "cas", Keys: []string{a}, Vals: []string{"32"}, Prev: sp("31")},
		{Name: "get", Keys: []string{a}}, {Name: "bput", Keys: []string{b, c}, Vals: []string{"33", "34"}}, {Name: "del", Keys: []string{b}},
		{Name: "bdel", Keys: []string{c}}, {Name: "cas", Keys: []string{c}, Vals: []string{"32"}},
	}})
	// API v2 (keyspace codec) on one region: fully transparent, checksum counts the prefix
	seqs = append(seqs, Seq{Stores: 3, API: "v2", KsID: 0x0001ff, Ops: []Op{
		{Name: "bput", Keys: []string{a, b, b0, c}, Vals: []string{"31", "32", "-", "33"}},
		{Name: "scan", S: "-", E: "-", Limit: 3}, {Name: "rscan", S: d, E: "-", Limit: 9}, {Name: "rscan", S: "-", E: "-", Limit: 9},
		{Name: "cksum", S: "-", E: "-", Pre: []Topo{{"leader", a}}}, {Name: "cksum", S: b, E: c},
		{Name: "drange", S: b0, E: "-", Inj: []Inject{{At: 1, Act: Topo{"leader", a}}}},
		{Name: "cas", Keys: []string{a}, Vals: []string{"35"}, Prev: sp("31")}, {Name: "bget", Keys: []string{c, a, e}},
		{Name: "drange", S: "-", E: "-"},
	}})
	// ttl on the wire: per-pair ttls (duplicates: the last one wins) stay aligned with the pairs in every
	// sub-batch of a 40 KB BatchPutWithTTL; error path and degenerate ranges
	tk, tv, tt := make([]string, 44), make([]string, 44), make([]uint64, 44)
	for i := range tk {
		tk[i], tv[i], tt[i] = hx([]byte{0x62, byte(0x41 + i%40)}), fmt.Sprintf("*%dx%02x", 900+i, 0x30+i%10), uint64(100+i)
	}
	seqs = append(seqs, Seq{Stores: 1, Splits: []string{a, c}, Ops: []Op{
		{Name: "bput", Keys: tk, Vals: tv, TTLs: tt, Exact: true},
		{Name: "bput", Keys: tk[:30], Vals: tv[10:40], TTLs: tt[5:35], Inj: []Inject{{At: 2, Act: Topo{"split", "6250"}}}},
		{Name: "put", Keys: []string{a}, Vals: []string{"31"}, TTLs: []uint64{77}},
		{Name: "bget", Keys: tk[38:]},
		{Name: "scan", S: "-", E: "-", Limit: 0}, {Name: "scan", S: "-", E: "-", Limit: 10240}, {Name: "scan", S: "-", E: "-", Limit: 10241},
		{Name: "rscan", S: c, E: "-", Limit: 10241, KeyOnly: true}, {Name: "rscan", S: c, E: "-", Limit: 3, KeyOnly: true},
		{Name: "scan", S: b, E: b, Limit: 5}, {Name: "scan", S: c, E: b, Limit: 5}, {Name: "rscan", S: b, E: c, Limit: 5}, {Name: "rscan", S: b, E: b, Limit: 5},
		{Name: "scan", S: "6241", E: "6244", Limit: 2, KeyOnly: true},
		{Name: "drange", S: c, E: b}, {Name: "drange", S: b, E: b}, {Name: "cksum", S: c, E: b},
		{Name: "drange", S: "6260", E: "-"}, {Name: "drange", S: "-", E: "6242"}, {Name: "drange", S: "-", E: "-"},
	}})
	for i := range seqs {
		seqs[i].ID = base + i
		seqs[i].Ops = append(seqs[i].Ops, Op{Name: "scan", S: "-", E: "-", Limit: 5000})
	}
	return seqs
}

// ---------------------------------------------------------------- concurrent callers
// Supporting test for C11_cas_interleaving: several goroutines share ONE client and issue
// CAS / get / put / delete on one or two keys while another goroutine splits, merges and moves
// leaders. Every call is logged with logical invoke / return stamps (H lines); the check searches a
// linearization (some interleaving of atomic steps that respects the real-time order).
func runConc(id int, r *rand.Rand, out *bytes.Buffer) {
	mvcc := mocktikv.MustNewMVCCStore()
	cluster := mocktikv.NewCluster(mvcc)
	stores, _, _, _ := mocktikv.BootstrapWithMultiStores(cluster, 1+r.Intn(3))
	w := &world{cluster: cluster, stores: stores}
	// no gate here: the gate's mutex would serialise the RPCs and hide races inside the store
	cli := rawkv.NewClientForVerif(mocktikv.NewPDClient(cluster), mocktikv.NewRPCClient(cluster, mvcc, nil))
	cli.SetAtomicForCAS(true)
	defer func() {
		cli.Close()
		mvcc.Close()
	}()
	ctx := context.Background()
	keys := [][]byte{[]byte("b"), []byte("bb")}
	for _, s := range []string{"61", "6261", "63"}[:r.Intn(4)] {
		w.apply(Topo{Kind: "split", Key: s})
	}
	var clock int64
	var mu sync.Mutex
	tick := func() int64 { mu.Lock(); defer mu.Unlock(); clock++; return clock }
	nw := 2 + r.Intn(3)
	type plan struct {
		kind       string
		k, prev, v []byte
		absent     bool
	}
	plans := make([][]plan, nw)
	vals := [][]byte{[]byte("i")}
	for wi := range plans {
		for j := 0; j < 2+r.Intn(3); j++ {
			nv := []byte(fmt.Sprintf("w%d%d", wi, j))
			p := plan{k: keys[r.Intn(len(keys))], v: nv}
			switch r.Intn(8) {
			case 0:
				p.kind = "get"
			case 1:
				p.kind = "put"
				vals = append(vals, nv)
			case 2:
				p.kind = "del"
			default:
				p.kind = "cas"
				if r.Intn(3) == 0 {
					p.absent = true
				} else {
					p.prev = vals[r.Intn(len(vals))]
				}
				vals = append(vals, nv)
			}
			plans[wi] = append(plans[wi], p)
		}
	}
	// every call carries its family as a per-call option while another goroutine keeps changing the client's
	// own family field: the option wins, so the calls must not notice (calls WITHOUT an option read the field
	// unsynchronised, once per request, and promise nothing under a concurrent SetColumnFamily)
	wcf := rawkv.SetColumnFamily("CF_DEFAULT")
	_ = cli.Put(ctx, []byte("zz"), []byte("x"), wcf)
	_ = cli.Delete(ctx, []byte("zz"), wcf)
	if r.Intn(2) == 0 {
		_ = cli.Put(ctx, keys[0], []byte("i"), wcf)
	}
	for _, k := range keys {
		v, _ := cli.Get(ctx, k, wcf)
		fmt.Fprintf(out, "H\t%d\tinit\t%s\t%s\n", id, hx(k), optv(v))
	}
	var wg sync.WaitGroup
	lines := make([][]string, nw)
	done := make(chan struct{})
	go func() {
		for i := 0; ; i++ {
			select {
			case <-done:
				return
			default:
			}
			cli.SetColumnFamily([]string{"cfx", "cfy"}[i%2])
			runtime.Gosched()
		}
	}()
	topos := make([]Topo, 6)
	for i := range topos {
		kinds := []string{"split", "merge", "leader"}
		ks := []string{"62", "6262", "6261", "63", "61"}
		topos[i] = Topo{Kind: kinds[r.Intn(3)], Key: ks[r.Intn(len(ks))]}
	}
	go func() {
		for _, t := range topos {
			select {
			case <-done:
				return
			default:
			}
			w.apply(t)
			runtime.Gosched()
		}
	}()
	for wi := range plans {
		wg.Add(1)
		go func(wi int) {
			defer wg.Done()
			for _, p := range plans[wi] {
				inv := tick()
				var res string
				switch p.kind {
				case "get":
					v, err := cli.Get(ctx, p.k, wcf)
					if err != nil {
						res = errKind(err)
					} else {
						res = "ok " + optv(v)
					}
				case "put":
					if err := cli.Put(ctx, p.k, p.v, wcf); err != nil {
						res = errKind(err)
					} else {
						res = "ok"
					}
				case "del":
					if err := cli.Delete(ctx, p.k, wcf); err != nil {
						res = errKind(err)
					} else {
						res = "ok"
					}
				case "cas":
					var prev []byte
					if !p.absent {
						prev = p.prev
					}
					old, sw, err := cli.CompareAndSwap(ctx, p.k, prev, p.v, wcf)
					if err != nil {
						res = errKind(err)
					} else {
						res = fmt.Sprintf("ok %s %v", optv(old), sw)
					}
				}
				ret := tick()
				pv := "N"
				if !p.absent && p.kind == "cas" {
					pv = "V" + hex.EncodeToString(p.prev)
				}
				lines[wi] = append(lines[wi], fmt.Sprintf("H\t%d\top\t%d\t%d\t%d\t%s\t%s\t%s\t%s\t=>\t%s\n", id, wi, inv, ret, p.kind, hx(p.k), pv, hx(p.v), res))
				runtime.Gosched()
			}
		}(wi)
	}
	wg.Wait()
	close(done)
	for _, l := range lines {
		for _, x := range l {
			out.WriteString(x)
		}
	}
	fmt.Fprintf(out, "H\t%d\tend\n", id)
}

// ---------------------------------------------------------------- main

func runAll(seqs []Seq) {
	w := bufio.NewWriterSize(os.Stdout, 1<<20)
	defer w.Flush()
	outs := make([]bytes.Buffer, len(seqs))
	var wg sync.WaitGroup
	sem := make(chan struct{}, 8)
	for i := range seqs {
		wg.Add(1)
		sem <- struct{}{}
		go func(i int) {
			defer wg.Done()
			defer func() { <-sem }()
			runSeq(seqs[i], &outs[i])
		}(i)
	}
	wg.Wait()
	for i := range outs {
		w.Write(outs[i].Bytes())
	}
}

func main() {
	if !debug {
		log.SetLevel(zapcore.FatalLevel)
		log.ReplaceGlobals(zap.NewNop(), &log.ZapProperties{Level: zap.NewAtomicLevelAt(zapcore.FatalLevel)})
	}
	// back-off sleeps are virtualised (the budget accounting is unchanged): no wall-clock dependence
	util.EnableFailpoints()
	if err := failpoint.Enable("tikvclient/fastBackoffBySkipSleep", "return"); err != nil {
		fmt.Fprintln(os.Stderr, "failpoint:", err)
		os.Exit(2)
	}
	if len(os.Args) >= 2 && os.Args[1] == "directed" {
		// print the directed sequences (the check replays them one by one to attribute a process crash)
		for _, sq := range directedSeqs(0) {
			js, _ := json.Marshal(sq)
			fmt.Println(string(js))
		}
		return
	}
	if len(os.Args) >= 3 && os.Args[1] == "replay" {
		// file with one JSON sequence spec per line
		f, err := os.Open(os.Args[2])
		if err != nil {
			panic(err)
		}
		var seqs []Seq
		sc := bufio.NewScanner(f)
		sc.Buffer(make([]byte, 1<<20), 1<<26)
		for sc.Scan() {
			l := strings.TrimSpace(sc.Text())
			if l == "" {
				continue
			}
			var s Seq
			if err := json.Unmarshal([]byte(l), &s); err != nil {
				panic(err)
			}
			seqs = append(seqs, s)
		}
		runAll(seqs)
		return
	}
	seed, _ := strconv.ParseInt(os.Getenv("VERIF_SEED"), 10, 64)
	if seed == 0 {
		seed = 1
	}
	nseq, nops := 1500, 14
	if os.Getenv("VERIF_TIER") == "thorough" {
		nseq, nops = 6000, 24 // per chunk; the check runs several chunks (VERIF_CHUNK)
	}
	if v := os.Getenv("VERIF_NSEQ"); v != "" {
		nseq, _ = strconv.Atoi(v)
	}
	chunk, _ := strconv.ParseInt(os.Getenv("VERIF_CHUNK"), 10, 64)
	r := rand.New(rand.NewSource(seed*7919 + 11 + chunk*104729))
	seqs := make([]Seq, nseq)
	for i := range seqs {
		seqs[i] = genSeq(i, r, nops/2+r.Intn(nops))
	}
	seqs = append(seqs, directedSeqs(nseq)...)
	runAll(seqs)
	// concurrent CAS callers (supporting test; not replayable: the schedule is the Go scheduler's)
	nconc := 150
	if os.Getenv("VERIF_TIER") == "thorough" {
		nconc = 600
	}
	var cb bytes.Buffer
	for i := 0; i < nconc; i++ {
		runConc(i, r, &cb)
	}
	os.Stdout.Write(cb.Bytes())
}
