//go:build verif

package rawkv

import (
	"github.com/tikv/client-go/v2/internal/client"
	"github.com/tikv/client-go/v2/internal/locate"
	pd "github.com/tikv/pd/client"
)

// NewClientForVerif builds a raw client the way rawkv_test.go does (fields set directly):
// a region cache over the given PD client and an arbitrary RPC client (the harness' gate).
func NewClientForVerif(pdCli pd.Client, rpc client.Client) *Client {
	return &Client{
		clusterID:   0,
		regionCache: locate.NewRegionCache(pdCli),
		rpcClient:   rpc,
	}
}
