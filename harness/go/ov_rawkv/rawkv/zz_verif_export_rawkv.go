//go:build verif

package rawkv

import (
	"github.com/pingcap/kvproto/pkg/kvrpcpb"
	"github.com/tikv/client-go/v2/internal/client"
	"github.com/tikv/client-go/v2/internal/locate"
	pd "github.com/tikv/pd/client"
)

// NewClientForVerif builds a raw client the way rawkv_test.go does (fields set directly):
// a region cache over the given PD client and an arbitrary RPC client (the harness' gate).
func NewClientForVerif(pdCli pd.Client, rpc client.Client) *Client {
	return NewClientForVerifAPI(kvrpcpb.APIVersion_V1, pdCli, rpc)
}

// NewClientForVerifAPI: the same for a given API version; for API v2 pdCli is the codec PD client
// and rpc applies the codec around the wire, as NewClientWithOpts arranges it.
func NewClientForVerifAPI(api kvrpcpb.APIVersion, pdCli pd.Client, rpc client.Client) *Client {
	return &Client{
		apiVersion:  api,
		clusterID:   0,
		regionCache: locate.NewRegionCache(pdCli),
		rpcClient:   rpc,
	}
}
