//go:build verif

package rawkv

import (
	"github.com/pingcap/kvproto/pkg/kvrpcpb"
	"github.com/tikv/client-go/v2/internal/client"
	"github.com/tikv/client-go/v2/internal/locate"
	pd "github.com/tikv/pd/client"
)

// VerifNewClient builds a raw client over the given (codec-wrapping) PD and RPC clients, the way
// NewClientWithOpts does after it has connected (add-only, C15 end-to-end driver).
func VerifNewClient(apiVersion kvrpcpb.APIVersion, pdCli pd.Client, rpc client.Client) *Client {
	return &Client{apiVersion: apiVersion, regionCache: locate.NewRegionCache(pdCli), pdClient: pdCli, rpcClient: rpc}
}
