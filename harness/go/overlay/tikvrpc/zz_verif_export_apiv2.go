//go:build verif

package tikvrpc

// VerifIsValidReqType exposes the generated isValidReqType for the C15 catalogue driver (add-only).
func VerifIsValidReqType(cmd CmdType) bool { return isValidReqType(cmd) }
