//go:build verif

// Add-only export shim for the C17 driver (mapped into internal/latch by -overlay; nothing here
// changes behaviour: every function calls the unexported original or reads a field).
package latch

// VLatches wraps Latches for the driver.
func VNewLatches(size uint) *Latches { return NewLatches(size) }

func (latches *Latches) VNumSlots() int         { return len(latches.slots) }
func (latches *Latches) VSlotID(key []byte) int { return latches.slotID(key) }
func (latches *Latches) VGenLock(startTS uint64, keys [][]byte) *Lock {
	return latches.genLock(startTS, keys)
}
func (latches *Latches) VAcquire(lock *Lock) int     { return int(latches.acquire(lock)) }
func (latches *Latches) VAcquireSlot(lock *Lock) int { return int(latches.acquireSlot(lock)) }
func (latches *Latches) VRelease(lock *Lock, wl []*Lock) []*Lock {
	return latches.release(lock, wl)
}
func (latches *Latches) VReleaseSlot(lock *Lock) *Lock { return latches.releaseSlot(lock) }
func (latches *Latches) VRecycleSlot(slot int, ts uint64) int {
	l := &latches.slots[slot]
	l.Lock()
	defer l.Unlock()
	return l.recycle(ts)
}
func (latches *Latches) VRecycleAll(ts uint64) { latches.recycle(ts) }

// VWakeup runs the scheduler's wakeup() on a scheduler value without the run() goroutine.
func (latches *Latches) VWakeup(wl []*Lock) {
	s := &LatchesScheduler{latches: latches}
	s.wakeup(wl)
}

func (l *Lock) VKeys() [][]byte   { return l.keys }
func (l *Lock) VSlots() []int     { return l.requiredSlots }
func (l *Lock) VAcquired() int    { return l.acquiredCount }
func (l *Lock) VStartTS() uint64  { return l.startTS }
func (l *Lock) VCommitTS() uint64 { return l.commitTS }
func (l *Lock) VIsLocked() bool   { return l.isLocked() }
func (l *Lock) VWgAdd()           { l.wg.Add(1) }
func (l *Lock) VWgWait()          { l.wg.Wait() }

// VNode / VSlot: structured snapshot of every slot (queue head first, waiting in order).
type VNode struct {
	Key    []byte
	Max    uint64
	Holder *Lock
	SlotID int
}
type VSlot struct {
	Count   int
	Nodes   []VNode
	Waiting []*Lock
}

func (latches *Latches) VSnapshot() []VSlot {
	res := make([]VSlot, len(latches.slots))
	for i := range latches.slots {
		l := &latches.slots[i]
		l.Lock()
		res[i].Count = l.count
		for n := l.queue; n != nil; n = n.next {
			res[i].Nodes = append(res[i].Nodes, VNode{Key: n.key, Max: n.maxCommitTS, Holder: n.value, SlotID: n.slotID})
		}
		res[i].Waiting = append([]*Lock(nil), l.waiting...)
		l.Unlock()
	}
	return res
}

// scheduler glue observers / helpers for the script mode of the driver
func (scheduler *LatchesScheduler) VLatches() *Latches       { return scheduler.latches }
func (scheduler *LatchesScheduler) VLastRecycleTime() uint64 { return scheduler.lastRecycleTime }
func (scheduler *LatchesScheduler) VPending() int            { return len(scheduler.unlockCh) }
func (scheduler *LatchesScheduler) VClosed() bool {
	scheduler.RLock()
	defer scheduler.RUnlock()
	return scheduler.closed
}

// VHoldSlots locks every slot mutex (run() then blocks in its first releaseSlot); the returned func unlocks them.
func (latches *Latches) VHoldSlots() func() {
	for i := range latches.slots {
		latches.slots[i].Lock()
	}
	return func() {
		for i := range latches.slots {
			latches.slots[i].Unlock()
		}
	}
}

// VSnapshotHeld is VSnapshot for a caller that already holds every slot mutex.
func (latches *Latches) VSnapshotHeld() []VSlot {
	res := make([]VSlot, len(latches.slots))
	for i := range latches.slots {
		l := &latches.slots[i]
		res[i].Count = l.count
		for n := l.queue; n != nil; n = n.next {
			res[i].Nodes = append(res[i].Nodes, VNode{Key: n.key, Max: n.maxCommitTS, Holder: n.value, SlotID: n.slotID})
		}
		res[i].Waiting = append([]*Lock(nil), l.waiting...)
	}
	return res
}
