//go:build verif

package apicodec

// VerifEncodeRangeReverse exposes codecV2.encodeRange(start, end, reverse=true) for the C15 driver (add-only).
func VerifEncodeRangeReverse(c Codec, start, end []byte) ([]byte, []byte, bool) {
	v2, ok := c.(*codecV2)
	if !ok {
		return nil, nil, false
	}
	s, e := v2.encodeRange(start, end, true)
	return s, e, true
}
