//go:build verif

package unionstore

// Add-only exports for the C07 driver (area Union). Nothing here changes behaviour.

// VerifUnionNewRBT returns the red-black-tree backed MemBuffer (unexported constructor).
func VerifUnionNewRBT() MemBuffer { return newRbtDBWithContext() }

// VerifUnionNewART returns the ART backed MemBuffer.
func VerifUnionNewART() MemBuffer { return newArtDBWithContext() }

// VerifUnionFlagged is one entry of IterWithFlags / IterReverseWithFlags.
type VerifUnionFlagged struct {
	K    []byte
	F    uint16
	V    []byte
	HasV bool
}

type verifUnionFlagIter interface {
	Valid() bool
	Key() []byte
	Value() []byte
	Next() error
	Close()
	HasValue() bool
}

func verifUnionDrainFlags(it verifUnionFlagIter, flags func() uint16) []VerifUnionFlagged {
	var l []VerifUnionFlagged
	for n := 0; it.Valid() && n < 1000000; n++ {
		e := VerifUnionFlagged{K: append([]byte{}, it.Key()...), F: flags(), HasV: it.HasValue()}
		if e.HasV {
			e.V = append([]byte{}, it.Value()...)
		}
		l = append(l, e)
		if it.Next() != nil {
			break
		}
	}
	it.Close()
	return l
}

// VerifUnionIterWithFlags drains IterWithFlags(lo, hi) (rev: IterReverseWithFlags(hi)) of an ART or RBT buffer.
func VerifUnionIterWithFlags(b MemBuffer, lo, hi []byte, rev bool) ([]VerifUnionFlagged, bool) {
	switch db := b.(type) {
	case *artDBWithContext:
		if rev {
			it := db.ART.IterReverseWithFlags(hi)
			return verifUnionDrainFlags(it, func() uint16 { return uint16(it.Flags()) }), true
		}
		it := db.ART.IterWithFlags(lo, hi)
		return verifUnionDrainFlags(it, func() uint16 { return uint16(it.Flags()) }), true
	case *rbtDBWithContext:
		if rev {
			it := db.RBT.IterReverseWithFlags(hi)
			return verifUnionDrainFlags(it, func() uint16 { return uint16(it.Flags()) }), true
		}
		it := db.RBT.IterWithFlags(lo, hi)
		return verifUnionDrainFlags(it, func() uint16 { return uint16(it.Flags()) }), true
	}
	return nil, false
}

// VerifUnionWriteSeq returns ART.WriteSeqNo (false for buffers without one).
func VerifUnionWriteSeq(b MemBuffer) (int, bool) {
	if db, ok := b.(*artDBWithContext); ok {
		return db.ART.WriteSeqNo, true
	}
	return 0, false
}

// VerifUnionHistory collects the versions SelectValueHistory walks through (newest first).
func VerifUnionHistory(b MemBuffer, k []byte) ([][]byte, error) {
	var l [][]byte
	pred := func(v []byte) bool { l = append(l, append([]byte{}, v...)); return false }
	var err error
	switch db := b.(type) {
	case *artDBWithContext:
		_, err = db.ART.SelectValueHistory(k, pred)
	case *rbtDBWithContext:
		_, err = db.RBT.SelectValueHistory(k, pred)
	}
	return l, err
}

// VerifUnionSnapshotSeq returns ART.SnapshotSeqNo (false for buffers without one).
func VerifUnionSnapshotSeq(b MemBuffer) (int, bool) {
	if db, ok := b.(*artDBWithContext); ok {
		return db.ART.SnapshotSeqNo, true
	}
	return 0, false
}
