//go:build verif

package unionstore

// Add-only exports for the C07 driver (area Union). Nothing here changes behaviour.

// VerifUnionNewRBT returns the red-black-tree backed MemBuffer (unexported constructor).
func VerifUnionNewRBT() MemBuffer { return newRbtDBWithContext() }

// VerifUnionNewART returns the ART backed MemBuffer.
func VerifUnionNewART() MemBuffer { return newArtDBWithContext() }
