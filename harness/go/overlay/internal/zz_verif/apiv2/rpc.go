//go:build verif

package main

import (
	"bytes"
	"context"
	"fmt"
	"reflect"
	"strings"
	"sync"
	"sync/atomic"
	"time"

	"github.com/gogo/protobuf/proto"
	"github.com/pingcap/kvproto/pkg/kvrpcpb"
	"github.com/pingcap/kvproto/pkg/metapb"
	"github.com/pingcap/kvproto/pkg/tikvpb"
	"github.com/tikv/client-go/v2/internal/apicodec"
	"github.com/tikv/client-go/v2/internal/client"
	"github.com/tikv/client-go/v2/internal/client/mockserver"
	"github.com/tikv/client-go/v2/tikvrpc"
	"github.com/tikv/client-go/v2/util/async"
)

// The REAL internal/client.RPCClient (its encode / attach-context / decode step) against a gRPC mock store that
// records what arrives. For every command type that goes through the batch stream: the same *tikvrpc.Request
// object is transmitted three times synchronously and three times asynchronously (what the region request sender
// does on retryable region errors) while other goroutines send traffic through the same client. Oracles:
//   rpc_wire_once        every transmission carries each key-bearing field prefixed exactly once, values untouched,
//                        Context.api_version = V2, keyspace id and name, the routing fields of the request
//   rpc_retransmit_equal the n-th transmission is byte-identical to the first
//   rpc_caller_unchanged after every call the caller's request still holds the logical keys (and the same message)
//   rpc_sync_async_equal the asynchronous wire form is byte-identical to the synchronous one

type wireRec struct {
	path string
	cmd  string
	raw  []byte
	msg  proto.Message
}

type recStore struct {
	mu   sync.Mutex
	seen []wireRec
	resp map[string]reflect.Type // request wrapper suffix -> response wrapper type
}

func newRecStore() *recStore {
	s := &recStore{resp: map[string]reflect.Type{}}
	for _, w := range (*tikvpb.BatchCommandsResponse_Response)(nil).XXX_OneofWrappers() {
		t := reflect.TypeOf(w).Elem()
		s.resp[strings.TrimPrefix(t.Name(), "BatchCommandsResponse_Response_")] = t
	}
	return s
}

func (s *recStore) handle(req *tikvpb.BatchCommandsRequest) (*tikvpb.BatchCommandsResponse, error) {
	s.mu.Lock()
	defer s.mu.Unlock()
	out := &tikvpb.BatchCommandsResponse{RequestIds: req.RequestIds}
	for _, r := range req.Requests {
		wt := reflect.TypeOf(r.Cmd).Elem()
		name := strings.TrimPrefix(wt.Name(), "BatchCommandsRequest_Request_")
		inner := reflect.ValueOf(r.Cmd).Elem().Field(0).Interface().(proto.Message)
		raw, _ := proto.Marshal(inner)
		if name != "Empty" {
			s.seen = append(s.seen, wireRec{cmd: name, raw: raw, msg: proto.Clone(inner)})
		}
		resp := &tikvpb.BatchCommandsResponse_Response{}
		if rt, ok := s.resp[name]; ok {
			w := reflect.New(rt)
			w.Elem().Field(0).Set(reflect.New(rt.Field(0).Type.Elem()))
			reflect.ValueOf(resp).Elem().FieldByName("Cmd").Set(w)
		} else {
			resp.Cmd = &tikvpb.BatchCommandsResponse_Response_Empty{Empty: &tikvpb.BatchCommandsEmptyResponse{}}
		}
		out.Responses = append(out.Responses, resp)
	}
	return out, nil
}

func (s *recStore) take(cmd string) []wireRec {
	s.mu.Lock()
	defer s.mu.Unlock()
	var mine, rest []wireRec
	for _, w := range s.seen {
		if w.cmd == cmd {
			mine = append(mine, w)
		} else {
			rest = append(rest, w)
		}
	}
	s.seen = rest
	return mine
}

const rpcRegionID = 7

func rpcRoute(req *tikvrpc.Request) {
	r, p := &metapb.Region{Id: rpcRegionID, RegionEpoch: &metapb.RegionEpoch{ConfVer: 1, Version: 3}}, &metapb.Peer{Id: 8, StoreId: 1}
	// what SetContextNoAttach does, also for the store-level commands it refuses
	req.RegionId, req.RegionEpoch, req.Peer = r.Id, r.RegionEpoch, p
}

// a transmission through the real client; a panic inside it (e.g. a codec handed a request of another command)
// becomes an error of this transmission instead of ending the driver
func safeSend(rpc *client.RPCClient, addr string, req *tikvrpc.Request) (resp *tikvrpc.Response, err error) {
	defer func() {
		if r := recover(); r != nil {
			resp, err = nil, fmt.Errorf("panic in SendRequest: %v", r)
		}
	}()
	return rpc.SendRequest(context.Background(), addr, req, 5*time.Second)
}

func rpcSendAsync(rpc *client.RPCClient, addr string, req *tikvrpc.Request) (rerr error) {
	defer func() {
		if r := recover(); r != nil {
			rerr = fmt.Errorf("panic in SendRequestAsync: %v", r)
		}
	}()
	ctx, cancel := context.WithTimeout(context.Background(), 10*time.Second)
	defer cancel()
	rl := async.NewRunLoop()
	var gotErr error
	called := false
	rpc.SendRequestAsync(ctx, addr, req, async.NewCallback(rl, func(resp *tikvrpc.Response, err error) {
		gotErr, called = err, true
	}))
	for !called {
		if _, err := rl.Exec(ctx); err != nil {
			return err
		}
	}
	return gotErr
}

// one wire message against what the codec has to produce for the filled logical message
func wireProblems(k *kcodec, fl *filled, w wireRec) []string {
	var bad []string
	got := snapshot(w.msg)
	for _, l := range fl.leaves {
		o := fl.orig[l.Path]
		want := o
		if fl.class[l.Path] != "value" {
			want = append(cp(k.pfx), o...)
		}
		if !bytes.Equal(got[l.Path], want) {
			bad = append(bad, fmt.Sprintf("%s=%s (want %s)", l.Path, hx(got[l.Path]), hx(want)))
		}
	}
	if f := reflect.ValueOf(w.msg).Elem().FieldByName("Context"); f.IsValid() && f.Type() == tCtx {
		c, _ := f.Interface().(*kvrpcpb.Context)
		switch {
		case c == nil:
			bad = append(bad, "Context=nil")
		case c.ApiVersion != kvrpcpb.APIVersion_V2 || c.GetKeyspaceId() != k.id || (c.KeyspaceName != "ks" && c.KeyspaceName != ksMeta(k.id).Name):
			bad = append(bad, fmt.Sprintf("Context{api_version:%v keyspace_id:%d keyspace_name:%q} (want V2 %d \"ks\")", c.ApiVersion, c.GetKeyspaceId(), c.KeyspaceName, k.id))
		case c.RegionId != rpcRegionID || c.GetPeer().GetStoreId() != 1 || c.GetRegionEpoch().GetVersion() != 3:
			bad = append(bad, "Context routing fields lost")
		}
	}
	return bad
}

func runRPC(seed int64, tier string) {
	store := newRecStore()
	server, port := mockserver.StartMockTikvService()
	if port <= 0 {
		panic("cannot start the mock tikv service")
	}
	defer server.Stop()
	h := store.handle
	server.OnBatchCommandsRequest.Store(&h)
	addr := server.Addr()
	for _, ks := range []struct {
		mode string
		id   uint32
	}{{"x", 0x0102FF}, {"r", 0xFFFFFF}} {
		k := getCodec(ks.mode, ks.id)
		rpc := client.NewRPCClient(client.WithCodec(k.c))
		// background traffic through the same client (fresh request objects): shuffles the codec's request pool
		var stop atomic.Bool
		var wg sync.WaitGroup
		var bgSent atomic.Int64
		for g := 0; g < 3; g++ {
			wg.Add(1)
			go func(g int) {
				defer wg.Done()
				for i := 0; !stop.Load(); i++ {
					req := tikvrpc.NewRequest(tikvrpc.CmdRawGet, &kvrpcpb.RawGetRequest{Key: []byte(fmt.Sprintf("bg-%d-%d", g, i))})
					rpcRoute(req)
					if i%2 == 0 {
						safeSend(rpc, addr, req)
					} else {
						rpcSendAsync(rpc, addr, req)
					}
					bgSent.Add(1)
				}
			}(g)
		}
		tag := []string{k.mode, fmt.Sprintf("%x", k.id)}
		for _, ci := range discover() {
			if ci.ReqType == nil || ci.Name == "Unknown" {
				continue
			}
			probeReq := tikvrpc.NewRequest(ci.T, reflect.New(ci.ReqType.Elem()).Interface())
			b := probeReq.ToBatchCommandsRequest()
			if b == nil {
				continue
			}
			wname := strings.TrimPrefix(reflect.TypeOf(b.Cmd).Elem().Name(), "BatchCommandsRequest_Request_")
			if wname == "RawGet" {
				continue // used by the background traffic
			}
			fl := fill("req", ci.ReqType, reqSentinel("0"))
			pristine := snapshot(fl.msg)
			runs := map[string][]wireRec{}
			callerBad := ""
			for _, path := range []string{"sync", "async"} {
				// a fresh caller object per path, transmitted three times (the retry loop re-sends the same object)
				f := fill("req", ci.ReqType, reqSentinel("0"))
				req := tikvrpc.NewRequest(ci.T, f.msg)
				rpcRoute(req)
				msg0 := req.Req
				for n := 0; n < 3; n++ {
					var err error
					if path == "sync" {
						_, err = safeSend(rpc, addr, req)
					} else {
						err = rpcSendAsync(rpc, addr, req)
					}
					if err != nil {
						callerBad += fmt.Sprintf(" %s#%d error %v;", path, n+1, err)
					}
					after := snapshot(req.Req)
					for p, o := range pristine {
						if !bytes.Equal(after[p], o) && callerBad == "" {
							callerBad = fmt.Sprintf("%s after transmission %d: caller's %s = %s (was %s)", path, n+1, p, hx(after[p]), hx(o))
						}
					}
					if req.Req != msg0 && callerBad == "" {
						callerBad = fmt.Sprintf("%s after transmission %d: the caller's request holds another message", path, n+1)
					}
				}
				// the batch stream is asynchronous on the store side: wait for the three records
				for i := 0; i < 200 && len(runs[path]) < 3; i++ {
					runs[path] = append(runs[path], store.take(wname)...)
					if len(runs[path]) < 3 {
						time.Sleep(5 * time.Millisecond)
					}
				}
			}
			prop("rpc_caller_unchanged", callerBad == "", "-", append(tag, ci.Name, callerBad)...)
			for _, path := range []string{"sync", "async"} {
				ws := runs[path]
				if len(ws) != 3 {
					prop("rpc_wire_once", false, "-", append(tag, ci.Name, path, fmt.Sprintf("%d transmissions arrived, 3 sent", len(ws)))...)
					continue
				}
				for n, w := range ws {
					bad := wireProblems(k, fl, w)
					prop("rpc_wire_once", len(bad) == 0, "-", append(tag, ci.Name, fmt.Sprintf("%s#%d", path, n+1), strings.Join(bad, "; "))...)
					prop("rpc_retransmit_equal", bytes.Equal(w.raw, ws[0].raw), "-", append(tag, ci.Name, fmt.Sprintf("%s#%d", path, n+1), "first="+proto.CompactTextString(ws[0].msg), "this="+proto.CompactTextString(w.msg))...)
				}
			}
			if len(runs["sync"]) == 3 && len(runs["async"]) == 3 {
				s, a := runs["sync"][0], runs["async"][0]
				prop("rpc_sync_async_equal", bytes.Equal(s.raw, a.raw), "-", append(tag, ci.Name, "sync="+proto.CompactTextString(s.msg), "async="+proto.CompactTextString(a.msg))...)
			}
		}
		stop.Store(true)
		wg.Wait()
		// the background requests: each arrived with its key prefixed exactly once and the api context
		bgBad := 0
		first := ""
		for _, w := range store.take("RawGet") {
			g := w.msg.(*kvrpcpb.RawGetRequest)
			ok := bytes.HasPrefix(g.Key, append(cp(k.pfx), "bg-"...)) && g.Context != nil && g.Context.ApiVersion == kvrpcpb.APIVersion_V2 && g.Context.GetKeyspaceId() == k.id
			if !ok {
				bgBad++
				if first == "" {
					first = proto.CompactTextString(g)
				}
			}
		}
		prop("rpc_background_traffic", bgBad == 0 && bgSent.Load() > 0, "-", append(tag, fmt.Sprintf("sent=%d bad=%d", bgSent.Load(), bgBad), first)...)
		rpc.Close()
	}
}

var _ = apicodec.ModeTxn
