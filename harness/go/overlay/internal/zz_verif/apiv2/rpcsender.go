//go:build verif

package main

import (
	"bytes"
	"context"
	"fmt"
	"net"
	"reflect"
	"strings"
	"sync"
	"time"

	"github.com/gogo/protobuf/proto"
	"github.com/pingcap/kvproto/pkg/errorpb"
	"github.com/pingcap/kvproto/pkg/kvrpcpb"
	"github.com/pingcap/kvproto/pkg/metapb"
	"github.com/pingcap/kvproto/pkg/tikvpb"
	"github.com/tikv/client-go/v2/config"
	"github.com/tikv/client-go/v2/config/retry"
	"github.com/tikv/client-go/v2/internal/apicodec"
	"github.com/tikv/client-go/v2/internal/client"
	"github.com/tikv/client-go/v2/internal/locate"
	"github.com/tikv/client-go/v2/internal/mockstore/mocktikv"
	"github.com/tikv/client-go/v2/oracle"
	"github.com/tikv/client-go/v2/tikvrpc"
	"github.com/tikv/client-go/v2/util/async"
	"google.golang.org/grpc"
	"google.golang.org/grpc/codes"
	"google.golang.org/grpc/status"
)

// The real RegionRequestSender (SendReqCtx / SendReqAsync) in front of the real RPCClient against a recording gRPC
// store that answers the first transmissions of a request with scripted retryable region errors, so that the
// retransmissions come from the sender's own retry loop; in batch-stream mode and in unary mode (MaxBatchSize = 0).

// A gRPC server without registered services: every method of tikvpb.Tikv (unary ones and the BatchCommands stream)
// lands in one handler that decodes the request by the method's Go signature, records it and answers with an empty
// response of the method's response type (+ the scripted region error).
type genStore struct {
	mu      sync.Mutex
	seen    []wireRec
	count   map[string]int
	script  func(cmd string, n int) *errorpb.Error
	methods map[string][2]reflect.Type // gRPC method name -> request, response message type
	respBy  map[string]reflect.Type    // batch wrapper suffix -> response wrapper type
	srv     *grpc.Server
	addr    string
	// unary methods only: the next request of this message type is recorded and then fails with a gRPC status
	// (what a connection error / timeout below the codec looks like to RPCClient)
	failNext map[string]bool
}

func newGenStore() *genStore {
	s := &genStore{count: map[string]int{}, methods: map[string][2]reflect.Type{}, respBy: map[string]reflect.Type{}, failNext: map[string]bool{}}
	it := reflect.TypeOf((*tikvpb.TikvServer)(nil)).Elem()
	for i := 0; i < it.NumMethod(); i++ {
		m := it.Method(i)
		if m.Type.NumIn() == 2 && m.Type.NumOut() == 2 && m.Type.In(1).Kind() == reflect.Ptr {
			s.methods[m.Name] = [2]reflect.Type{m.Type.In(1), m.Type.Out(0)}
		}
	}
	for _, w := range (*tikvpb.BatchCommandsResponse_Response)(nil).XXX_OneofWrappers() {
		t := reflect.TypeOf(w).Elem()
		s.respBy[strings.TrimPrefix(t.Name(), "BatchCommandsResponse_Response_")] = t
	}
	lis, err := net.Listen("tcp", "127.0.0.1:0")
	if err != nil {
		panic(err)
	}
	s.srv = grpc.NewServer(grpc.UnknownServiceHandler(s.handle))
	go s.srv.Serve(lis)
	s.addr = lis.Addr().String()
	return s
}

// record one request message and build the answer of type rt
func (s *genStore) answer(path string, in proto.Message, rt reflect.Type) proto.Message {
	s.mu.Lock()
	defer s.mu.Unlock()
	name := reflect.TypeOf(in).Elem().Name()
	raw, _ := proto.Marshal(in)
	s.seen = append(s.seen, wireRec{cmd: name, raw: raw, msg: proto.Clone(in), path: path})
	out := reflect.New(rt.Elem())
	n := s.count[name]
	s.count[name] = n + 1
	if f := out.Elem().FieldByName("RegionError"); f.IsValid() && s.script != nil {
		if e := s.script(name, n); e != nil {
			f.Set(reflect.ValueOf(e))
		}
	}
	return out.Interface().(proto.Message)
}

func (s *genStore) handle(srv interface{}, stream grpc.ServerStream) error {
	full, _ := grpc.MethodFromServerStream(stream)
	name := full[strings.LastIndex(full, "/")+1:]
	if name == "BatchCommands" {
		for {
			req := &tikvpb.BatchCommandsRequest{}
			if err := stream.RecvMsg(req); err != nil {
				return nil
			}
			resp := &tikvpb.BatchCommandsResponse{RequestIds: req.RequestIds}
			for _, r := range req.Requests {
				wn := strings.TrimPrefix(reflect.TypeOf(r.Cmd).Elem().Name(), "BatchCommandsRequest_Request_")
				inner := reflect.ValueOf(r.Cmd).Elem().Field(0).Interface().(proto.Message)
				one := &tikvpb.BatchCommandsResponse_Response{}
				if rt, ok := s.respBy[wn]; ok && wn != "Empty" {
					w := reflect.New(rt)
					w.Elem().Field(0).Set(reflect.ValueOf(s.answer("batch", inner, rt.Field(0).Type)))
					reflect.ValueOf(one).Elem().FieldByName("Cmd").Set(w)
				} else {
					one.Cmd = &tikvpb.BatchCommandsResponse_Response_Empty{Empty: &tikvpb.BatchCommandsEmptyResponse{}}
				}
				resp.Responses = append(resp.Responses, one)
			}
			if err := stream.SendMsg(resp); err != nil {
				return nil
			}
		}
	}
	m, ok := s.methods[name]
	if !ok {
		return fmt.Errorf("verif store: no unary method %s", name)
	}
	in := reflect.New(m[0].Elem()).Interface().(proto.Message)
	if err := stream.RecvMsg(in); err != nil {
		return err
	}
	out := s.answer("unary", in, m[1])
	s.mu.Lock()
	tn := reflect.TypeOf(in).Elem().Name()
	fail := s.failNext[tn]
	delete(s.failNext, tn)
	s.mu.Unlock()
	if fail {
		return status.Error(codes.Unavailable, "verif: scripted failure below the codec")
	}
	return stream.SendMsg(out)
}

func (s *genStore) takeAll(cmd string) []wireRec {
	s.mu.Lock()
	defer s.mu.Unlock()
	var mine, rest []wireRec
	for _, w := range s.seen {
		if w.cmd == cmd {
			mine = append(mine, w)
		} else {
			rest = append(rest, w)
		}
	}
	s.seen = rest
	delete(s.count, cmd)
	return mine
}

func stripCtx(m proto.Message) []byte {
	c := proto.Clone(m)
	if f := reflect.ValueOf(c).Elem().FieldByName("Context"); f.IsValid() && f.Type() == tCtx {
		f.Set(reflect.Zero(tCtx))
	}
	b, _ := proto.Marshal(c)
	return b
}

// the retryable region errors the store answers the first transmissions with
func retryScript(tier string) []*errorpb.Error {
	s := []*errorpb.Error{
		{Message: "max ts", MaxTimestampNotSynced: &errorpb.MaxTimestampNotSynced{}},
		{Message: "stale", StaleCommand: &errorpb.StaleCommand{}},
		{Message: "max ts", MaxTimestampNotSynced: &errorpb.MaxTimestampNotSynced{}},
	}
	if tier == "thorough" {
		s = append(s, &errorpb.Error{Message: "busy", ServerIsBusy: &errorpb.ServerIsBusy{Reason: "verif"}})
	}
	return s
}

func runRPCSender(seed int64, tier string) {
	for _, unary := range []bool{false, true} {
		func() {
			if unary {
				defer config.UpdateGlobal(func(conf *config.Config) { conf.TiKVClient.MaxBatchSize = 0 })()
			}
			pathName := map[bool]string{false: "batch", true: "unary"}[unary]
			store := newGenStore()
			defer store.srv.Stop()
			k := getCodec("x", 0x0102FF)
			// one region with three peers, every store reachable at the recording store's address
			mvcc := mocktikv.MustNewMVCCStore()
			cluster := mocktikv.NewCluster(mvcc)
			storeIDs, peerIDs, regionID, _ := mocktikv.BootstrapWithMultiStores(cluster, 3)
			for _, id := range storeIDs {
				cluster.UpdateStoreAddr(id, store.addr)
			}
			pdc, err := locate.NewCodecPDClientWithKeyspace(apicodec.ModeTxn, ksPD{mocktikv.NewPDClient(cluster), ksMeta(k.id)}, "ks")
			if err != nil {
				panic(err)
			}
			cache := locate.NewRegionCache(pdc)
			defer cache.Close()
			rpc := client.NewRPCClient(client.WithCodec(pdc.GetCodec()))
			defer rpc.Close()
			sender := locate.NewRegionRequestSender(cache, rpc, oracle.NoopReadTSValidator{})
			script := retryScript(tier)
			notLeader := &errorpb.Error{Message: "not leader", NotLeader: &errorpb.NotLeader{RegionId: regionID, Leader: &metapb.Peer{Id: peerIDs[1], StoreId: storeIDs[1]}}}
			store.script = func(cmd string, n int) *errorpb.Error {
				if n == 0 {
					return proto.Clone(notLeader).(*errorpb.Error) // the first answer: not leader, with a hint
				}
				if n-1 < len(script) {
					return proto.Clone(script[n-1]).(*errorpb.Error)
				}
				return nil
			}
			wantN := len(script) + 2
			tag := []string{k.mode, fmt.Sprintf("%x", k.id), pathName}
			for _, ci := range discover() {
				if ci.ReqType == nil || ci.RespType == nil || ci.Name == "Unknown" || !regionErrField(ci.RespType) {
					continue
				}
				if _, hasCtx := ci.ReqType.Elem().FieldByName("Context"); !hasCtx {
					continue
				}
				batchable := tikvrpc.NewRequest(ci.T, reflect.New(ci.ReqType.Elem()).Interface()).ToBatchCommandsRequest() != nil
				if !unary && !batchable {
					continue // travels on the unary path in any case: covered by the unary pass
				}
				if ci.T == tikvrpc.CmdCop || ci.T == tikvrpc.CmdGetHealthFeedback {
					continue // coprocessor requests are sent by the caller's own task loop; health feedback is store-level
				}
				tname := ci.ReqType.Elem().Name()
				fl := fill("req", ci.ReqType, reqSentinel("0"))
				pristine := snapshot(fl.msg)
				runs := map[string][]wireRec{}
				callerBad := ""
				modes := []string{"sync"}
				if !unary && batchable {
					modes = append(modes, "async")
				}
				for _, mode := range modes {
					f := fill("req", ci.ReqType, reqSentinel("0"))
					req := tikvrpc.NewRequest(ci.T, f.msg)
					msg0 := req.Req
					bo := retry.NewBackofferWithVars(context.Background(), 20000, nil)
					loc, err := cache.LocateKey(bo, []byte("K|"))
					if err != nil {
						panic(err)
					}
					store.takeAll(tname)
					var sendErr error
					var resp *tikvrpc.Response
					if mode == "sync" {
						func() {
							defer func() {
								if r := recover(); r != nil {
									sendErr = fmt.Errorf("panic in SendReqCtx: %v", r)
								}
							}()
							resp, _, _, sendErr = sender.SendReqCtx(bo, req, loc.Region, 5*time.Second, tikvrpc.TiKV)
						}()
					} else {
						func() {
							defer func() {
								if r := recover(); r != nil {
									sendErr = fmt.Errorf("panic in SendReqAsync: %v", r)
								}
							}()
							rl := async.NewRunLoop()
							called := false
							sender.SendReqAsync(bo, req, loc.Region, 5*time.Second, async.NewCallback(rl, func(r *tikvrpc.ResponseExt, err error) {
								if r != nil {
									resp = &r.Response
								}
								sendErr, called = err, true
							}))
							ctx, cancel := context.WithTimeout(context.Background(), 20*time.Second)
							for !called {
								if _, err := rl.Exec(ctx); err != nil {
									sendErr = err
									break
								}
							}
							cancel()
						}()
					}
					if sendErr != nil {
						callerBad += fmt.Sprintf(" %s: error %v;", mode, sendErr)
					} else if resp != nil {
						if re, _ := resp.GetRegionError(); re != nil {
							callerBad += fmt.Sprintf(" %s: the sender gave up with region error %s;", mode, re.Message)
						}
					}
					after := snapshot(req.Req)
					for p, o := range pristine {
						if !bytes.Equal(after[p], o) && callerBad == "" {
							callerBad = fmt.Sprintf("%s after the call: caller's %s = %s (was %s)", mode, p, hx(after[p]), hx(o))
						}
					}
					_ = msg0
					runs[mode] = store.takeAll(tname)
				}
				prop("rpcs_caller_unchanged", callerBad == "", "-", append(tag, ci.Name, callerBad)...)
				for _, mode := range modes {
					ws := runs[mode]
					okN := len(ws) == wantN
					for _, w := range ws {
						okN = okN && w.path == pathName
					}
					prop("rpcs_transmissions", okN, "-", append(tag, ci.Name, mode, fmt.Sprintf("%d transmissions on the %s path, %d expected (1 + %d scripted region errors)", len(ws), pathName, wantN, wantN-1))...)
					for n, w := range ws {
						bad := wireProblemsRegion(k, fl, w, regionID)
						prop("rpcs_wire_once", len(bad) == 0, "-", append(tag, ci.Name, fmt.Sprintf("%s#%d", mode, n+1), strings.Join(bad, "; "))...)
						prop("rpcs_retransmit_equal", bytes.Equal(stripCtx(w.msg), stripCtx(ws[0].msg)), "-", append(tag, ci.Name, fmt.Sprintf("%s#%d", mode, n+1), "first="+proto.CompactTextString(ws[0].msg), "this="+proto.CompactTextString(w.msg))...)
					}
				}
				if len(runs["sync"]) > 0 && len(runs["async"]) > 0 {
					s, a := runs["sync"][0], runs["async"][0]
					prop("rpcs_sync_async_equal", bytes.Equal(stripCtx(s.msg), stripCtx(a.msg)), "-", append(tag, ci.Name, "sync="+proto.CompactTextString(s.msg), "async="+proto.CompactTextString(a.msg))...)
				}
			}
		}()
	}
}

func wireProblemsRegion(k *kcodec, fl *filled, w wireRec, regionID uint64) []string {
	var bad []string
	got := snapshot(w.msg)
	for _, l := range fl.leaves {
		o := fl.orig[l.Path]
		want := o
		if fl.class[l.Path] != "value" {
			want = append(cp(k.pfx), o...)
		}
		if !bytes.Equal(got[l.Path], want) {
			bad = append(bad, fmt.Sprintf("%s=%s (want %s)", l.Path, hx(got[l.Path]), hx(want)))
		}
	}
	if f := reflect.ValueOf(w.msg).Elem().FieldByName("Context"); f.IsValid() && f.Type() == tCtx {
		c, _ := f.Interface().(*kvrpcpb.Context)
		switch {
		case c == nil:
			bad = append(bad, "Context=nil")
		case c.ApiVersion != kvrpcpb.APIVersion_V2 || c.GetKeyspaceId() != k.id || c.KeyspaceName != ksMeta(k.id).Name:
			bad = append(bad, fmt.Sprintf("Context{api_version:%v keyspace_id:%d keyspace_name:%q} (want V2 %d %q)", c.ApiVersion, c.GetKeyspaceId(), c.KeyspaceName, k.id, ksMeta(k.id).Name))
		case c.RegionId != regionID || c.GetPeer() == nil || c.GetRegionEpoch() == nil:
			bad = append(bad, "Context routing fields lost")
		}
	}
	return bad
}

// Every command type on the path that carries it when it is not (or cannot be) on the batch stream: the unary gRPC
// method CallRPC selects (MaxBatchSize = 0), sent directly through the real RPCClient three times with the same
// request object. Also prints, per command, which path carries it and whether a wire-level run covers it (W lines).
func runRPCUnaryDirect(seed int64) {
	defer config.UpdateGlobal(func(conf *config.Config) { conf.TiKVClient.MaxBatchSize = 0 })()
	store := newGenStore()
	defer store.srv.Stop()
	k := getCodec("x", 0x0102FF)
	rpc := client.NewRPCClient(client.WithCodec(k.c))
	defer rpc.Close()
	tag := []string{k.mode, fmt.Sprintf("%x", k.id), "unary-direct"}
	for _, ci := range discover() {
		name := cmdLabel(ci)
		if ci.ReqType == nil {
			fmt.Fprintf(out, "W\t%s\tunresolved\tno\n", name)
			continue
		}
		batchable := tikvrpc.NewRequest(ci.T, reflect.New(ci.ReqType.Elem()).Interface()).ToBatchCommandsRequest() != nil
		method := ""
		for mn, io := range store.methods {
			if io[0] == ci.ReqType && (ci.RespType == nil || io[1] == ci.RespType) {
				method = mn
			}
		}
		switch {
		case ci.T == tikvrpc.CmdEmpty:
			fmt.Fprintf(out, "W\t%s\tbatch stream only (keep-alive, no keys)\tn/a\n", name)
			continue
		case ci.Stream:
			fmt.Fprintf(out, "W\t%s\tserver-streaming gRPC method; request encoded by the same EncodeRequest (catalogue), response stream not decoded by the codec\tcatalogue only\n", name)
			continue
		case method == "":
			fmt.Fprintf(out, "W\t%s\tdebugpb.Debug client (CallDebugRPC); no key-bearing field\tcatalogue only\n", name)
			continue
		}
		fl := fill("req", ci.ReqType, reqSentinel("0"))
		pristine := snapshot(fl.msg)
		f := fill("req", ci.ReqType, reqSentinel("0"))
		req := tikvrpc.NewRequest(ci.T, f.msg)
		rpcRoute(req)
		tname := ci.ReqType.Elem().Name()
		store.takeAll(tname)
		callerBad := ""
		for n := 0; n < 3; n++ {
			if _, err := safeSend(rpc, store.addr, req); err != nil {
				callerBad += fmt.Sprintf(" #%d error %v;", n+1, err)
			}
			after := snapshot(req.Req)
			for p, o := range pristine {
				if !bytes.Equal(after[p], o) && callerBad == "" {
					callerBad = fmt.Sprintf("after transmission %d: caller's %s = %s (was %s)", n+1, p, hx(after[p]), hx(o))
				}
			}
		}
		ws := store.takeAll(tname)
		prop("rpcu_caller_unchanged", callerBad == "", "-", append(tag, ci.Name, callerBad)...)
		okN := len(ws) == 3
		for _, w := range ws {
			okN = okN && w.path == "unary"
		}
		prop("rpcu_transmissions", okN, "-", append(tag, ci.Name, fmt.Sprintf("%d transmissions on the unary path, 3 sent", len(ws)))...)
		for n, w := range ws {
			bad := wireProblems(k, fl, w)
			prop("rpcu_wire_once", len(bad) == 0, "-", append(tag, ci.Name, fmt.Sprintf("unary#%d", n+1), strings.Join(bad, "; "))...)
			prop("rpcu_retransmit_equal", bytes.Equal(w.raw, ws[0].raw), "-", append(tag, ci.Name, fmt.Sprintf("unary#%d", n+1), "first="+proto.CompactTextString(ws[0].msg), "this="+proto.CompactTextString(w.msg))...)
		}
		path := "unary gRPC method " + method
		if batchable {
			path = "batch stream (sync + async); " + path + " when batching is off"
		}
		fmt.Fprintf(out, "W\t%s\t%s\tyes\n", name, path)
	}
}

func cmdLabel(ci *cmdInfo) string {
	if ci.Name == "Unknown" {
		return fmt.Sprintf("Cmd%d", ci.T)
	}
	return ci.Name
}
