//go:build verif

package main

import (
	"bytes"
	"context"
	"fmt"
	"math/rand"
	"sort"
	"strings"
	"time"

	"github.com/pingcap/kvproto/pkg/metapb"
	"github.com/tikv/client-go/v2/internal/apicodec"
	"github.com/tikv/client-go/v2/internal/locate"
	"github.com/tikv/client-go/v2/util/codec"
	pd "github.com/tikv/pd/client"
	"github.com/tikv/pd/client/clients/router"
	"github.com/tikv/pd/client/opt"
	"github.com/tikv/pd/client/pkg/caller"
	"github.com/tikv/pd/client/pkg/circuitbreaker"
)

// PD wrapper attaching bucket keys (memcomparable, as PD reports them) to GetRegion answers
type bucketPD struct {
	ksPD
	buckets map[uint64][][]byte
}

func (p bucketPD) GetRegion(ctx context.Context, key []byte, opts ...opt.GetRegionOption) (*router.Region, error) {
	r, err := p.Client.GetRegion(ctx, key, opts...)
	if r != nil && r.Meta != nil {
		if b, ok := p.buckets[r.Meta.Id]; ok {
			r.Buckets = &metapb.Buckets{RegionId: r.Meta.Id, Version: 7, Keys: b}
		}
	}
	return r, err
}
func (p bucketPD) WithCallerComponent(c caller.Component) pd.Client {
	return bucketPD{ksPD{p.Client.WithCallerComponent(c), p.meta}, p.buckets}
}

type physRegion struct {
	id   uint64
	s, e []byte // raw (memcomparable-decoded) bounds, empty = unbounded
}

func rawBound(b []byte) []byte {
	if len(b) == 0 {
		return nil
	}
	_, k, err := codec.DecodeBytes(b, nil)
	if err != nil {
		panic(err)
	}
	return k
}

// PD-side paths of CodecPDClient under API v2 against a mock cluster split at the given physical keys.
// Every decoded region is also emitted as a "drr" line so that the extracted model recomputes it.
func runPD(seed int64, tier string) {
	rng := rand.New(rand.NewSource(seed))
	// the mock PD insists on a circuit breaker in the context, as the region cache provides
	ctx := circuitbreaker.WithCircuitBreaker(context.Background(), circuitbreaker.NewCircuitBreaker("verif",
		circuitbreaker.Settings{ErrorRateWindow: 30 * time.Second, MinQPSForOpen: 1 << 30, CoolDownInterval: time.Second, HalfOpenSuccessCount: 1}))
	ids := []uint32{1, 0xFF, 0x1FFFF, 0xFFFFFE, 0xFFFFFF}
	for i := 0; i < 2; i++ {
		ids = append(ids, uint32(rng.Intn(1<<24)))
	}
	lk := logicalKeys(rng, 2, 12)
	for _, mode := range []string{"r", "x"} {
		for _, id := range ids {
			for _, shortSplit := range []bool{false, true} {
				k := getCodec(mode, id)
				v := be32p(k.pfx, 0)
				_ = v
				splits := [][]byte{cat(be32p(k.pfx, -1), "q"), cp(k.pfx), cat(k.pfx, "\x01"), cat(k.pfx, "c"), cat(k.pfx, "m\x00"), cp(k.end), cat(k.end, "b")}
				if shortSplit {
					// a region boundary that is a proper prefix of endKey (exists as a distinct string when the id ends in FF)
					splits = append(splits, cp(k.end[:3]))
				}
				for i := 0; i < 3; i++ {
					splits = append(splits, cat(k.pfx, string(lk[rng.Intn(len(lk))])+"s"))
				}
				sort.Slice(splits, func(i, j int) bool { return bytes.Compare(splits[i], splits[j]) < 0 })
				var uniq [][]byte
				for _, s := range splits {
					if len(s) > 0 && (len(uniq) == 0 || !bytes.Equal(uniq[len(uniq)-1], s)) {
						uniq = append(uniq, s)
					}
				}
				m := newMock(uniq...)
				// the physical layout as the unwrapped PD reports it
				rs, err := m.pd.ScanRegions(ctx, nil, nil, 0)
				if err != nil {
					panic(err)
				}
				var phys []physRegion
				buckets := map[uint64][][]byte{}
				for _, r := range rs {
					pr := physRegion{r.Meta.Id, rawBound(r.Meta.StartKey), rawBound(r.Meta.EndKey)}
					phys = append(phys, pr)
					// buckets: region start, two cuts inside (when they fit), region end
					bk := [][]byte{memEnc(pr.s)}
					for _, c := range []string{"\x00", "zz"} {
						cut := append(cp(pr.s), c...)
						if len(pr.s) > 0 && (len(pr.e) == 0 || bytes.Compare(cut, pr.e) < 0) {
							bk = append(bk, memEnc(cut))
						}
					}
					bk = append(bk, memEnc(pr.e))
					buckets[pr.id] = bk
				}
				meta := ksMeta(id)
				md := apicodec.Mode(apicodec.ModeRaw)
				if mode == "x" {
					md = apicodec.ModeTxn
				}
				cpd, err := locate.NewCodecPDClientWithKeyspace(md, bucketPD{ksPD{m.pd, meta}, buckets}, "ks")
				if err != nil {
					panic(err)
				}
				tag := []string{k.mode, fmt.Sprintf("%x", k.id)}
				containing := func(p []byte) *physRegion {
					for i := range phys {
						if inRange(phys[i].s, phys[i].e, p) {
							return &phys[i]
						}
					}
					return nil
				}
				res := func(r *router.Region, err error) string {
					if err != nil {
						if isOOB(err) {
							return "oob"
						}
						return "err"
					}
					if r == nil || r.Meta == nil {
						return "nil"
					}
					return "ok " + hx(r.Meta.StartKey) + " " + hx(r.Meta.EndKey)
				}
				drr := func(pr *physRegion, got string) {
					fmt.Fprintf(out, "drr\t%s\t%x\t%s\t%s\t=>\t%s\n", k.mode, k.id, hx(memEnc(pr.s)), hx(memEnc(pr.e)), got)
				}
				// GetRegion / GetPrevRegion for logical keys
				for _, key := range lk {
					pr := containing(k.c.EncodeKey(key))
					r, err := cpd.GetRegion(ctx, key, opt.WithBuckets())
					got := res(r, err)
					drr(pr, got)
					want := clipSpec(k, pr.s, pr.e)
					okc := got == want && err == nil && inRange(r.Meta.StartKey, r.Meta.EndKey, key)
					prop("pd_get_region", okc, "-", append(tag, hx(key), "got="+got, "want="+want)...)
					if err == nil && r.Buckets != nil {
						bk := r.Buckets.Keys
						fmt.Fprintf(out, "dbk\t%s\t%x\t%s\t=>\tok %s\n", k.mode, k.id, hxList(buckets[pr.id]), hxList(bk))
						{
							okb := len(bk) >= 2 && bytes.Equal(bk[0], r.Meta.StartKey) && bytes.Equal(bk[len(bk)-1], r.Meta.EndKey)
							for i := 1; okb && i < len(bk)-1; i++ {
								okb = bytes.Compare(bk[i-1], bk[i]) < 0 && (len(r.Meta.EndKey) == 0 || bytes.Compare(bk[i], r.Meta.EndKey) < 0)
							}
							prop("pd_buckets", okb, "-", append(tag, hx(key), hxList(buckets[pr.id]), "got="+hxList(bk), "region="+got)...)
						}
					}
					if len(key) > 0 {
						// GetPrevRegion(key): the region before the one containing key
						pp, perr := cpd.GetPrevRegion(ctx, key)
						gotp := res(pp, perr)
						var prev *physRegion
						for i := range phys {
							if len(phys[i].e) > 0 && bytes.Equal(phys[i].e, pr.s) {
								prev = &phys[i]
							}
						}
						if prev != nil {
							drr(prev, gotp)
							prop("pd_prev_region", gotp == clipSpec(k, prev.s, prev.e), "-", append(tag, hx(key), "got="+gotp)...)
						}
					}
				}
				// GetRegionByID: a region without any key of the keyspace is an error, never a region
				for i := range phys {
					r, err := cpd.GetRegionByID(ctx, phys[i].id)
					got := res(r, err)
					drr(&phys[i], got)
					prop("pd_region_by_id", got == clipSpec(k, phys[i].s, phys[i].e), "-", append(tag, hx(phys[i].s), hx(phys[i].e), "got="+got)...)
				}
				// ScanRegions / BatchScanRegions over logical ranges
				// the answer a scan must give: the clipped form of the regions PD lists (those touching the encoded range),
				// without the ones that hold no key of the keyspace (skipped since 163e34b). Also the model's input.
				scanWant := func(a, b []byte) (string, string) {
					ps, pe := k.c.EncodeRange(a, b)
					var parts, listed []string
					for i := range phys {
						overl := (len(phys[i].e) == 0 || bytes.Compare(phys[i].e, ps) > 0) && bytes.Compare(phys[i].s, pe) < 0
						if !overl {
							continue
						}
						listed = append(listed, hx(memEnc(phys[i].s))+":"+hx(memEnc(phys[i].e)))
						if w := clipSpec(k, phys[i].s, phys[i].e); w != "oob" {
							parts = append(parts, w)
						}
					}
					return strings.Join(parts, ";"), strings.Join(listed, ",")
				}
				scanGot := func(rs []*router.Region, err error) string {
					if err != nil {
						if isOOB(err) {
							return "oob"
						}
						return "err " + err.Error()
					}
					var parts []string
					for _, r := range rs {
						parts = append(parts, "ok "+hx(r.Meta.StartKey)+" "+hx(r.Meta.EndKey))
					}
					return strings.Join(parts, ";")
				}
				nscan := 12
				if tier == "thorough" {
					nscan = 60
				}
				for i := 0; i < nscan; i++ {
					a, b := lk[rng.Intn(len(lk))], lk[rng.Intn(len(lk))]
					if i%3 == 0 {
						b = nil
					}
					if i%5 == 0 {
						a = nil
					}
					if i == 1 {
						// directed regression (F35): scan to the unbounded end; with a short split key PD lists a region
						// that touches the range only in that key
						a, b = []byte("a"), nil
					}
					if len(b) > 0 && bytes.Compare(a, b) >= 0 {
						continue
					}
					rs, err := cpd.ScanRegions(ctx, a, b, 0)
					got := scanGot(rs, err)
					want, listed := scanWant(a, b)
					fmt.Fprintf(out, "dsc\t%s\t%x\t%s\t=>\t%s\n", k.mode, k.id, listed, got)
					okc := got == want
					if okc && len(rs) > 0 {
						// covers [a, b) without holes
						okc = bytes.Compare(rs[0].Meta.StartKey, a) <= 0
						for j := 1; okc && j < len(rs); j++ {
							okc = bytes.Equal(rs[j-1].Meta.EndKey, rs[j].Meta.StartKey)
						}
						last := rs[len(rs)-1].Meta.EndKey
						okc = okc && (len(last) == 0 || (len(b) > 0 && bytes.Compare(last, b) >= 0))
					}
					prop("pd_scan_regions", okc, "-", append(tag, hx(a), hx(b), "got="+got, "want="+want)...)
					// BatchScanRegions wants sorted, non-overlapping ranges: [a, b) and [b', +inf) with b' >= b
					if len(b) == 0 {
						continue
					}
					a2, b2 := cp(b), []byte(nil)
					if i%2 == 0 {
						a2 = append(a2, 0x7f)
					}
					rs2, err2 := cpd.BatchScanRegions(ctx, []router.KeyRange{{StartKey: a, EndKey: b}, {StartKey: a2, EndKey: b2}}, 1000)
					got2 := scanGot(rs2, err2)
					w2, _ := scanWant(a2, b2)
					// every region of either range occurs once, in order; every region returned is a clipped physical region
					okb := true
					{
						var exp []string
						for _, part := range append(strings.Split(want, ";"), strings.Split(w2, ";")...) {
							if part != "" && (len(exp) == 0 || exp[len(exp)-1] != part) {
								exp = append(exp, part)
							}
						}
						okb = got2 == strings.Join(exp, ";")
					}
					prop("pd_batch_scan", okb, "-", append(tag, hx(a), hx(b), hx(a2), "got="+got2, "want="+want+" | "+w2)...)
				}
			}
		}
	}
}

// replay for the observation "a scan answer holding a region that touches the range only in a short boundary key":
// keyspace 255 raw, regions ... [72 00 00 FF 6D, 72 00 01) [72 00 01, 72 00 01 00) [72 00 01 00, ...)
func demoScanShort() {
	ctx := circuitbreaker.WithCircuitBreaker(context.Background(), circuitbreaker.NewCircuitBreaker("verif-demo",
		circuitbreaker.Settings{ErrorRateWindow: 30 * time.Second, MinQPSForOpen: 1 << 30, CoolDownInterval: time.Second, HalfOpenSuccessCount: 1}))
	k := getCodec("r", 255)
	m := newMock(cat(k.pfx, "m"), cp(k.end[:3]), cp(k.end))
	cpd, err := locate.NewCodecPDClientWithKeyspace(apicodec.ModeRaw, ksPD{m.pd, ksMeta(255)}, "ks")
	if err != nil {
		panic(err)
	}
	rs, _ := m.pd.ScanRegions(ctx, nil, nil, 0)
	for _, r := range rs {
		fmt.Fprintf(out, "physical region %d [%s, %s)\n", r.Meta.Id, hx(rawBound(r.Meta.StartKey)), hx(rawBound(r.Meta.EndKey)))
	}
	for _, key := range [][]byte{[]byte("a"), []byte("z")} {
		r, err := cpd.GetRegion(ctx, key)
		if err != nil {
			fmt.Fprintf(out, "GetRegion(%q) error %v\n", key, err)
			continue
		}
		fmt.Fprintf(out, "GetRegion(%q) = region %d [%q, %q)\n", key, r.Meta.Id, r.Meta.StartKey, r.Meta.EndKey)
	}
	got, err := cpd.ScanRegions(ctx, []byte("a"), nil, 0)
	fmt.Fprintf(out, "ScanRegions(\"a\", \"\") = %d regions, error %v\n", len(got), err)
	got, err = cpd.ScanRegions(ctx, []byte("a"), []byte("z"), 0)
	fmt.Fprintf(out, "ScanRegions(\"a\", \"z\") = %d regions, error %v\n", len(got), err)
	got, err = cpd.BatchScanRegions(ctx, []router.KeyRange{{StartKey: []byte("a")}}, 100)
	fmt.Fprintf(out, "BatchScanRegions([\"a\", \"\")) = %d regions, error %v\n", len(got), err)
}
