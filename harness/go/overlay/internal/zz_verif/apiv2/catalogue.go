//go:build verif

package main

import (
	"bytes"
	"encoding/binary"
	"fmt"
	"reflect"
	"regexp"
	"sort"
	"strings"

	"github.com/gogo/protobuf/protoc-gen-gogo/descriptor"
	"github.com/pingcap/kvproto/pkg/errorpb"
	"github.com/pingcap/kvproto/pkg/kvrpcpb"
	"github.com/pingcap/kvproto/pkg/metapb"
	"github.com/pingcap/kvproto/pkg/tikvpb"
	"github.com/tikv/client-go/v2/internal/apicodec"
	"github.com/tikv/client-go/v2/tikvrpc"
)

// ---- classification rule (documented in docs/C15.md) ----
// A location of (named) type []byte / element of [][]byte is
//
//	region  : StartKey/EndKey of metapb.Region or errorpb.KeyNotInRegion (memcomparable region bounds)
//	bucket  : errorpb.BucketVersionNotMatch.Keys (memcomparable bucket bounds)
//	rstart / rend : Start/End of coprocessor.KeyRange; any field named StartKey / EndKey
//	key     : field name contains "Key", or is PrimaryLock, Primary, Secondaries
//	value   : everything else (Value, Values, ShortValue, PreviousValue, Data, EncodedPlan, Iv, ...)
//
// Not walked at all (documented exclusions):
//
//	R1 fields of type *kvrpcpb.Context (context-bearing),
//	R2 fields marked [deprecated = true] in the protobuf descriptor (the client never populates them),
//	R3 on the request side, sub-messages of type kvrpcpb.KeyError (error reports produced by the server;
//	   they only occur inside request messages because KvPair is shared between requests and responses).
func classify(l *leaf) string {
	o, f := l.Owner, l.Field
	switch {
	case o == "kvrpcpb.CompactRequest" || o == "kvrpcpb.CompactResponse":
		// TiFlash compaction cursors (RowKeyValue of a physical table), not storage keys; the keyspace
		// travels in CompactRequest.keyspace_id / api_version, which the driver checks (enc_ok)
		return "value"
	case (o == "metapb.Region" || o == "errorpb.KeyNotInRegion") && (f == "StartKey" || f == "EndKey"):
		return "region"
	case o == "errorpb.BucketVersionNotMatch" && f == "Keys":
		return "bucket"
	case o == "coprocessor.KeyRange" && f == "Start", f == "StartKey":
		return "rstart"
	case o == "coprocessor.KeyRange" && f == "End", f == "EndKey":
		return "rend"
	case strings.Contains(f, "Key"), f == "PrimaryLock", f == "Primary", f == "Secondaries":
		return "key"
	}
	return "value"
}

var tCtx = reflect.TypeOf(&kvrpcpb.Context{})
var tKeyErr = reflect.TypeOf(&kvrpcpb.KeyError{})

var deprecatedCache = map[reflect.Type]map[string]bool{}

// Go field names of t whose protobuf field carries [deprecated = true]
func deprecatedFields(t reflect.Type) map[string]bool {
	if m, ok := deprecatedCache[t]; ok {
		return m
	}
	m := map[string]bool{}
	deprecatedCache[t] = m
	msg, ok := reflect.New(t).Interface().(descriptor.Message)
	if !ok {
		return m
	}
	var md *descriptor.DescriptorProto
	func() {
		defer func() { recover() }()
		_, md = descriptor.ForMessage(msg)
	}()
	if md == nil {
		return m
	}
	dep := map[string]bool{}
	for _, f := range md.GetField() {
		if f.GetOptions().GetDeprecated() {
			dep[f.GetName()] = true
		}
	}
	for i := 0; i < t.NumField(); i++ {
		tag := t.Field(i).Tag.Get("protobuf")
		for _, part := range strings.Split(tag, ",") {
			if strings.HasPrefix(part, "name=") && dep[strings.TrimPrefix(part, "name=")] {
				m[t.Field(i).Name] = true
			}
		}
	}
	return m
}

func skipRule(side string) func(t reflect.Type, f reflect.StructField) bool {
	return func(t reflect.Type, f reflect.StructField) bool {
		if f.Type == tCtx || deprecatedFields(t)[f.Name] {
			return true
		}
		return side == "req" && f.Type == tKeyErr
	}
}

var idxRe = regexp.MustCompile(`\[\d+\]`)

func normPath(p string) string { return idxRe.ReplaceAllString(p, "[]") }

func isBytesLike(t reflect.Type) bool {
	return t.Kind() == reflect.Slice && t.Elem().Kind() == reflect.Uint8
}

func setBytes(v reflect.Value, b []byte) {
	if b == nil {
		v.Set(reflect.Zero(v.Type()))
		return
	}
	v.Set(reflect.ValueOf(cp(b)).Convert(v.Type()))
}
func getBytes(v reflect.Value) []byte { return v.Convert(tBytes).Interface().([]byte) }

// collect the current contents of every []byte location (no allocation of absent sub-messages)
func snapshot(msg interface{}) map[string][]byte {
	res := map[string][]byte{}
	walkExisting(reflect.ValueOf(msg).Elem(), "", func(path string, v reflect.Value) { res[path] = cp(getBytes(v)) })
	return res
}

func walkExisting(v reflect.Value, path string, visit func(path string, v reflect.Value)) {
	t := v.Type()
	for i := 0; i < t.NumField(); i++ {
		f := t.Field(i)
		if strings.HasPrefix(f.Name, "XXX_") || f.PkgPath != "" || f.Type == tCtx || deprecatedFields(t)[f.Name] {
			continue
		}
		fv := v.Field(i)
		p := f.Name
		if path != "" {
			p = path + "." + f.Name
		}
		switch {
		case isBytesLike(f.Type):
			visit(p, fv)
		case f.Type.Kind() == reflect.Slice && isBytesLike(f.Type.Elem()):
			for j := 0; j < fv.Len(); j++ {
				visit(fmt.Sprintf("%s[%d]", p, j), fv.Index(j))
			}
		case f.Type.Kind() == reflect.Ptr && f.Type.Elem().Kind() == reflect.Struct:
			if !fv.IsNil() {
				walkExisting(fv.Elem(), p, visit)
			}
		case f.Type.Kind() == reflect.Slice && f.Type.Elem().Kind() == reflect.Ptr && f.Type.Elem().Elem().Kind() == reflect.Struct:
			for j := 0; j < fv.Len(); j++ {
				if !fv.Index(j).IsNil() {
					walkExisting(fv.Index(j).Elem(), fmt.Sprintf("%s[%d]", p, j), visit)
				}
			}
		case f.Type.Kind() == reflect.Struct:
			walkExisting(fv, p, visit)
		}
	}
}

type filled struct {
	msg    interface{}
	leaves []*leaf
	class  map[string]string // path -> class
	orig   map[string][]byte // path -> what was put there
	raw    map[string][]byte // path -> logical sentinel (without prefix / memcomparable wrapping)
}

// build a message of type rt with every location filled. sentinel(l, class) returns (wire bytes, logical bytes)
func fill(side string, rt reflect.Type, sentinel func(l *leaf, class string) ([]byte, []byte)) *filled {
	m := reflect.New(rt.Elem())
	fl := &filled{msg: m.Interface(), class: map[string]string{}, orig: map[string][]byte{}, raw: map[string][]byte{}}
	walkFill(m.Elem(), "", rt.Elem().String(), map[reflect.Type]int{}, func(l *leaf) {
		c := classify(l)
		w, r := sentinel(l, c)
		setBytes(l.V, w)
		fl.leaves = append(fl.leaves, l)
		fl.class[l.Path] = c
		fl.orig[l.Path] = w
		fl.raw[l.Path] = r
	}, skipRule(side))
	return fl
}

type fkey struct{ side, path, variant string }
type fagg struct {
	owner, class string
	obs          map[string]int
	foreign      string // yes | no | na
	sample       string
}

type catRow struct {
	ci     *cmdInfo
	fields map[fkey]*fagg
	x      map[string]string
	notes  []string
}

func (r *catRow) addField(side, path, variant, owner, class, obs, sample string) *fagg {
	k := fkey{side, normPath(path), variant}
	a := r.fields[k]
	if a == nil {
		a = &fagg{owner: owner, class: class, obs: map[string]int{}, foreign: "na"}
		r.fields[k] = a
	}
	a.obs[obs]++
	if a.sample == "" {
		a.sample = sample
	}
	return a
}

const catKeyspace = 0x0102FF // ends in FF: endKey has a carry
const catForeign = 0x010300

func hasBoolField(rt reflect.Type, name string) bool {
	f, ok := rt.Elem().FieldByName(name)
	return ok && f.Type.Kind() == reflect.Bool
}

func reqSentinel(variant string) func(l *leaf, class string) ([]byte, []byte) {
	return func(l *leaf, class string) ([]byte, []byte) {
		b := []byte("K|" + l.Path)
		switch class {
		case "value":
			b = []byte("V|" + l.Path)
		case "rend":
			b = []byte("Z|" + l.Path)
			if variant == "1" {
				b = nil
			}
		case "rstart":
			if variant == "2" {
				b = nil
			}
		}
		return b, b
	}
}

func observeReq(row *catRow, ci *cmdInfo, c *kcodec, variant string) {
	fl := fill("req", ci.ReqType, reqSentinel(variant))
	if variant == "2" {
		reflect.ValueOf(fl.msg).Elem().FieldByName("Reverse").SetBool(true)
	}
	req := tikvrpc.NewRequest(ci.T, fl.msg)
	var enc *tikvrpc.Request
	var err error
	res := safe(func() string { enc, err = c.c.EncodeRequest(req); return "ok" })
	encOK := res == "ok" && err == nil && enc != nil
	if !encOK {
		row.notes = append(row.notes, fmt.Sprintf("EncodeRequest variant %s: %s %v", variant, res, err))
		row.x["enc_ok"] = "no"
		for _, l := range fl.leaves {
			row.addField("req", l.Path, variant, l.Owner+"."+l.Field, fl.class[l.Path], "other", "encode failed")
		}
		return
	}
	// the caller's message must be untouched (requests are reused on retry), api context must be set
	after := snapshot(fl.msg)
	for p, o := range fl.orig {
		if !bytes.Equal(after[p], o) {
			row.x["enc_ok"] = "no"
			row.notes = append(row.notes, "EncodeRequest modified the caller's message at "+p)
		}
	}
	if !msgAPICtxOK(enc.Req, c.id) {
		row.x["enc_ok"] = "no"
		row.notes = append(row.notes, "the encoded message's own api_version / keyspace_id fields are not set")
	}
	if enc == req || enc.ApiVersion != kvrpcpb.APIVersion_V2 || enc.GetKeyspaceId() != c.id {
		row.x["enc_ok"] = "no"
		row.notes = append(row.notes, "EncodeRequest did not return a copy carrying api version / keyspace id")
	}
	got := snapshot(enc.Req)
	for _, l := range fl.leaves {
		o := fl.orig[l.Path]
		g, present := got[l.Path]
		obs := "other"
		switch {
		case !present:
		case len(o) == 0 && bytes.Equal(g, c.end):
			obs = "endkey"
		case bytes.Equal(g, append(cp(c.pfx), o...)):
			obs = "prefixed"
		case bytes.Equal(g, o):
			obs = "unchanged"
		}
		row.addField("req", l.Path, variant, l.Owner+"."+l.Field, fl.class[l.Path], obs, hx(g))
	}
}

// a message that carries its own api_version / keyspace_id at top level (CompactRequest) must have them set
func msgAPICtxOK(msg interface{}, id uint32) bool {
	check := func(v reflect.Value) bool {
		if !v.IsValid() || (v.Kind() == reflect.Ptr && v.IsNil()) {
			return true
		}
		if _, has := v.Elem().Type().FieldByName("ApiVersion"); !has {
			return true
		}
		if v.Elem().FieldByName("ApiVersion").Int() != int64(kvrpcpb.APIVersion_V2) {
			return false
		}
		m := v.MethodByName("GetKeyspaceId")
		return !m.IsValid() || uint32(m.Call(nil)[0].Uint()) == id
	}
	return check(reflect.ValueOf(msg))
}

// variant "1": every key / range-start location holds exactly the keyspace prefix (the logical empty key,
// the lowest key of the keyspace)
func respSentinel(c *kcodec, foreignPath string, foreignPfx []byte, variant string) func(l *leaf, class string) ([]byte, []byte) {
	return func(l *leaf, class string) ([]byte, []byte) {
		pfx := c.pfx
		if l.Path == foreignPath {
			pfx = foreignPfx
		}
		raw := []byte("K|" + l.Path)
		if variant == "1" && (class == "key" || class == "rstart") {
			return cp(pfx), nil
		}
		if l.Field == "EndKey" || l.Field == "End" {
			raw = []byte("Z|" + l.Path)
		}
		switch class {
		case "value":
			raw = []byte("V|" + l.Path)
			return raw, raw
		case "region", "bucket":
			return memEnc(append(cp(pfx), raw...)), raw
		}
		return append(cp(pfx), raw...), raw
	}
}

func decodeFilled(ci *cmdInfo, c *kcodec, fl *filled) (map[string][]byte, error, string) {
	// DecodeResponse puts the request back into the codec's pool: hand it an encoded request as the client does
	reqMsg := reflect.New(ci.ReqType.Elem()).Interface()
	if ci.T == tikvrpc.CmdMPPTask {
		fill("req", ci.ReqType, reqSentinel("0")) // shape only
	}
	var enc *tikvrpc.Request
	var err error
	var resp *tikvrpc.Response
	res := safe(func() string {
		r := tikvrpc.NewRequest(ci.T, reqMsg)
		if ci.T == tikvrpc.CmdMPPTask || ci.T == tikvrpc.CmdStoreSafeTS {
			// these dereference sub-messages unconditionally when encoding: use a filled request
			r = tikvrpc.NewRequest(ci.T, fill("req", ci.ReqType, reqSentinel("0")).msg)
		}
		enc, err = c.c.EncodeRequest(r)
		if err != nil {
			return "encode-error"
		}
		resp, err = c.c.DecodeResponse(enc, &tikvrpc.Response{Resp: fl.msg})
		return "ok"
	})
	if res != "ok" {
		return nil, err, res
	}
	if err != nil {
		return nil, err, "ok"
	}
	return snapshot(resp.Resp), nil, "ok"
}

func observeResp(row *catRow, ci *cmdInfo, c *kcodec, fc *kcodec, variant string) {
	fl := fill("resp", ci.RespType, respSentinel(c, "", nil, variant))
	got, err, res := decodeFilled(ci, c, fl)
	if res != "ok" || err != nil {
		row.notes = append(row.notes, fmt.Sprintf("DecodeResponse on an in-keyspace response: %s %v", res, err))
		row.x["dec_ok"] = "no"
		for _, l := range fl.leaves {
			row.addField("resp", l.Path, variant, l.Owner+"."+l.Field, fl.class[l.Path], "other", "decode failed")
		}
		return
	}
	var keyLeaves []*leaf
	for _, l := range fl.leaves {
		o, raw := fl.orig[l.Path], fl.raw[l.Path]
		g, present := got[l.Path]
		cls := fl.class[l.Path]
		obs := "other"
		switch {
		case !present:
		case cls != "value" && bytes.Equal(g, raw):
			obs = "stripped"
		case bytes.Equal(g, o):
			obs = "unchanged"
		}
		a := row.addField("resp", l.Path, variant, l.Owner+"."+l.Field, cls, obs, hx(g))
		if variant == "0" && cls == "key" && obs == "stripped" {
			keyLeaves = append(keyLeaves, l)
			if a.foreign == "na" {
				a.foreign = "yes"
			}
		}
	}
	// isolation: a key of another keyspace in a handled key location must make DecodeResponse fail
	for _, l := range keyLeaves {
		ffl := fill("resp", ci.RespType, respSentinel(c, l.Path, fc.pfx, "0"))
		g2, err2, res2 := decodeFilled(ci, c, ffl)
		rejected := res2 == "ok" && err2 != nil
		if !rejected {
			a := row.fields[fkey{"resp", normPath(l.Path), "0"}]
			a.foreign = "no"
			if a.sample == "" {
				a.sample = "foreign key visible: " + hx(g2[l.Path])
			}
		}
	}
}

func regionErrField(rt reflect.Type) bool {
	f, ok := rt.Elem().FieldByName("RegionError")
	return ok && f.Type == reflect.TypeOf(&errorpb.Error{})
}

func be32p(b []byte, d int) []byte {
	v := binary.BigEndian.Uint32(b)
	return be32(uint32(int64(v) + int64(d)))
}

// region error handling of DecodeResponse: regions inside / foreign / spanning / half-open
func observeClip(row *catRow, ci *cmdInfo, c *kcodec, fc *kcodec) string {
	p := c.pfx
	mk := func(s, e []byte) *metapb.Region { return &metapb.Region{Id: 9, StartKey: memEnc(s), EndKey: memEnc(e)} }
	cat := func(a []byte, s string) []byte { return append(cp(a), s...) }
	regs := []*metapb.Region{
		mk(cat(p, "a"), cat(p, "m")),
		mk(cat(fc.pfx, "a"), cat(fc.pfx, "m")),
		mk(cat(be32p(p, -1), "zz"), cat(c.end, "b")),
		mk(nil, cat(p, "c")),
		mk(cat(p, "x"), nil),
		mk(cat(be32p(p, -3), "q"), c.pfx), // ends exactly at the prefix: outside
		mk(c.end, cat(c.end, "zz")),       // starts exactly at the end key: outside
	}
	want := [][2]string{{"a", "m"}, {"", ""}, {"", "c"}, {"x", ""}}
	m := reflect.New(ci.RespType.Elem())
	re := &errorpb.Error{
		Message:        "verif",
		EpochNotMatch:  &errorpb.EpochNotMatch{CurrentRegions: regs},
		KeyNotInRegion: &errorpb.KeyNotInRegion{Key: cat(p, "k"), RegionId: 9, StartKey: memEnc(cat(p, "a")), EndKey: memEnc(cat(p, "m"))},
	}
	m.Elem().FieldByName("RegionError").Set(reflect.ValueOf(re))
	fl := &filled{msg: m.Interface()}
	_, err, res := decodeFilled(ci, c, fl)
	if res != "ok" || err != nil {
		row.notes = append(row.notes, fmt.Sprintf("clip: DecodeResponse %s %v", res, err))
		return "no"
	}
	out := m.Elem().FieldByName("RegionError").Interface().(*errorpb.Error)
	if out == nil || out.EpochNotMatch == nil || out.KeyNotInRegion == nil {
		return "no"
	}
	got := out.EpochNotMatch.CurrentRegions
	ok := len(got) == len(want)
	for i := 0; ok && i < len(want); i++ {
		ok = string(got[i].StartKey) == want[i][0] && string(got[i].EndKey) == want[i][1]
	}
	k := out.KeyNotInRegion
	ok = ok && string(k.Key) == "k" && string(k.StartKey) == "a" && string(k.EndKey) == "m"
	if !ok {
		var desc []string
		for _, r := range got {
			desc = append(desc, fmt.Sprintf("[%q,%q)", r.StartKey, r.EndKey))
		}
		row.notes = append(row.notes, "clip: regions after decode "+strings.Join(desc, " ")+fmt.Sprintf(" keyNotInRegion %q [%q,%q)", k.Key, k.StartKey, k.EndKey))
		return "no"
	}
	return "yes"
}

func observeTikvrpc(row *catRow, ci *cmdInfo) {
	x := row.x
	newReq := func() *tikvrpc.Request { return tikvrpc.NewRequest(ci.T, reflect.New(ci.ReqType.Elem()).Interface()) }
	// --- AttachContext
	ctxField, hasCtx := ci.ReqType.Elem().FieldByName("Context")
	hasCtx = hasCtx && ctxField.Type == tCtx
	x["has_ctx"] = yn(hasCtx)
	req := newReq()
	m1 := req.Req
	var att bool
	r := safe(func() string { att = tikvrpc.AttachContext(req, kvrpcpb.Context{RegionId: 4242}); return "ok" })
	x["attach"] = yn(r == "ok" && att)
	x["ctx_set"] = "na"
	if hasCtx {
		get := func(m interface{}) *kvrpcpb.Context {
			return reflect.ValueOf(m).Elem().FieldByName("Context").Interface().(*kvrpcpb.Context)
		}
		ok := att && get(m1) != nil && get(m1).RegionId == 4242 && req.RegionId == 4242
		if ok {
			// a second attach (retry) must not write into the message a batch sender may still be reading
			att2 := tikvrpc.AttachContext(req, kvrpcpb.Context{RegionId: 4343})
			ok = att2 && get(m1).RegionId == 4242 && get(req.Req) != nil && get(req.Req).RegionId == 4343 && req.Req != m1
		}
		x["ctx_set"] = yn(ok)
	}
	// --- GenRegionErrorResp / GetRegionError
	x["resp_rerr"] = yn(ci.RespType != nil && regionErrField(ci.RespType))
	e := &errorpb.Error{Message: "verif", NotLeader: &errorpb.NotLeader{RegionId: 77}}
	var resp *tikvrpc.Response
	var err error
	r = safe(func() string { resp, err = tikvrpc.GenRegionErrorResp(newReq(), e); return "ok" })
	x["genre"], x["readback"] = "no", "no"
	if r == "ok" && err == nil && resp != nil {
		typeOK := ci.RespType == nil || (resp.Resp != nil && reflect.TypeOf(resp.Resp) == ci.RespType)
		if ci.RespType == nil && resp.Resp == nil {
			typeOK = false
		}
		x["genre"] = yn(typeOK)
		if !typeOK {
			row.notes = append(row.notes, fmt.Sprintf("GenRegionErrorResp returned %T for response type %v", resp.Resp, ci.RespType))
		}
		var back *errorpb.Error
		var err2 error
		r2 := safe(func() string { back, err2 = resp.GetRegionError(); return "ok" })
		x["readback"] = yn(r2 == "ok" && err2 == nil && back == e)
	}
	// --- batch conversion
	breq := newReq()
	var b *tikvpb.BatchCommandsRequest_Request
	r = safe(func() string { b = breq.ToBatchCommandsRequest(); return "ok" })
	x["batch"] = yn(r == "ok" && b != nil)
	x["batch_rt"] = "na"
	if b != nil {
		ok := false
		if b.Cmd != nil {
			inner := reflect.ValueOf(b.Cmd).Elem().Field(0)
			ok = inner.Kind() == reflect.Ptr && inner.Interface() == breq.Req
		}
		// response direction: the oneof wrapper of BatchCommandsResponse_Response carrying the response type
		rok := false
		if ci.RespType != nil {
			for _, w := range (*tikvpb.BatchCommandsResponse_Response)(nil).XXX_OneofWrappers() {
				wt := reflect.TypeOf(w).Elem()
				if wt.NumField() == 1 && wt.Field(0).Type == ci.RespType {
					wv := reflect.New(wt)
					rm := reflect.New(ci.RespType.Elem())
					wv.Elem().Field(0).Set(rm)
					br := &tikvpb.BatchCommandsResponse_Response{}
					reflect.ValueOf(br).Elem().FieldByName("Cmd").Set(wv)
					var back *tikvrpc.Response
					var berr error
					r3 := safe(func() string { back, berr = tikvrpc.FromBatchCommandsResponse(br); return "ok" })
					rok = r3 == "ok" && berr == nil && back != nil && back.Resp == rm.Interface()
				}
			}
		}
		if !ok {
			row.notes = append(row.notes, "batch entry does not hold the request message")
		}
		if !rok {
			row.notes = append(row.notes, "FromBatchCommandsResponse does not return the response message")
		}
		x["batch_rt"] = yn(ok && rok)
	}
}

func yn(b bool) string {
	if b {
		return "yes"
	}
	return "no"
}

func (a *fagg) obsString() string {
	if len(a.obs) == 1 {
		for k := range a.obs {
			return k
		}
	}
	return "other"
}

func runCatalogue() {
	c := getCodec("x", catKeyspace)
	fc := getCodec("x", catForeign)
	for _, ci := range discover() {
		row := &catRow{ci: ci, fields: map[fkey]*fagg{}, x: map[string]string{"enc_ok": "yes", "dec_ok": "yes", "clip": "na"}}
		rq, rs := "-", "-"
		if ci.ReqType != nil {
			rq = ci.ReqType.String()
		}
		if ci.RespType != nil {
			rs = ci.RespType.String()
		}
		fmt.Fprintf(out, "CMD\t%d\t%s\t%s\t%s\t%s\n", ci.T, ci.Name, rq, rs, yn(ci.Stream))
		if ci.ReqType == nil {
			fmt.Fprintf(out, "X\t%d\tunresolved-request-type\t%s\n", ci.T, strings.Join(ci.Notes, "; "))
			continue
		}
		observeReq(row, ci, c, "0")
		observeReq(row, ci, c, "1")
		if hasBoolField(ci.ReqType, "Reverse") {
			observeReq(row, ci, c, "2")
		}
		if ci.RespType != nil {
			observeResp(row, ci, c, fc, "0")
			observeResp(row, ci, c, fc, "1")
			if regionErrField(ci.RespType) {
				row.x["clip"] = observeClip(row, ci, c, fc)
			}
		} else {
			// streaming responses: DecodeResponse must at least not corrupt / must refuse explicitly
			var err error
			res := safe(func() string {
				enc, e1 := c.c.EncodeRequest(tikvrpc.NewRequest(ci.T, fill("req", ci.ReqType, reqSentinel("0")).msg))
				if e1 != nil {
					return "encode-error"
				}
				_, err = c.c.DecodeResponse(enc, &tikvrpc.Response{})
				return "ok"
			})
			row.x["stream_decode"] = res
			if err != nil {
				row.x["stream_decode"] = "rejected"
			}
		}
		observeTikvrpc(row, ci)
		var keys []fkey
		for k := range row.fields {
			keys = append(keys, k)
		}
		sort.Slice(keys, func(i, j int) bool {
			if keys[i].side != keys[j].side {
				return keys[i].side < keys[j].side
			}
			if keys[i].path != keys[j].path {
				return keys[i].path < keys[j].path
			}
			return keys[i].variant < keys[j].variant
		})
		for _, k := range keys {
			a := row.fields[k]
			fmt.Fprintf(out, "F\t%d\t%s\t%s\t%s\t%s\t%s\t%s\t%s\t%s\n", ci.T, k.side, k.path, a.owner, a.class, k.variant, a.obsString(), a.foreign, a.sample)
		}
		var xs []string
		for _, k := range []string{"enc_ok", "dec_ok", "has_ctx", "attach", "ctx_set", "resp_rerr", "genre", "readback", "clip", "batch", "batch_rt", "stream_decode"} {
			if v, ok := row.x[k]; ok {
				xs = append(xs, k+"="+v)
			}
		}
		fmt.Fprintf(out, "X\t%d\t%s\t%s\n", ci.T, strings.Join(xs, "\t"), strings.Join(row.notes, "; "))
	}
}

var _ = apicodec.ModeTxn
