//go:build verif

package main

import (
	"context"
	"fmt"
	"reflect"
	"runtime"
	"sort"
	"strings"

	"github.com/gogo/protobuf/proto"
	"github.com/pingcap/kvproto/pkg/debugpb"
	"github.com/pingcap/kvproto/pkg/keyspacepb"
	"github.com/pingcap/kvproto/pkg/kvrpcpb"
	"github.com/pingcap/kvproto/pkg/tikvpb"
	"github.com/tikv/client-go/v2/internal/apicodec"
	"github.com/tikv/client-go/v2/tikvrpc"
)

type nilTikv struct{ tikvpb.TikvClient }
type nilDebug struct{ debugpb.DebugClient }

type probeRes int

const (
	prOK       probeRes = iota // ran without a type-assertion failure
	prBadType                  // *runtime.TypeAssertionError: wrong message type for this command
	prRejected                 // function reports the command type as invalid / unsupported
)

func probe(f func() bool) (res probeRes) {
	defer func() {
		if r := recover(); r != nil {
			if _, ok := r.(*runtime.TypeAssertionError); ok {
				res = prBadType
				return
			}
			res = prOK // nil client dereference etc: the type assertion succeeded
		}
	}()
	if f() {
		return prOK
	}
	return prRejected
}

func mustCodec(mode apicodec.Mode, id uint32) apicodec.Codec {
	c, err := apicodec.NewCodecV2(mode, &keyspacepb.KeyspaceMeta{Keyspace: &keyspacepb.KeyspaceMeta_Id{Id: id}, Name: "ks"})
	if err != nil {
		panic(err)
	}
	return c
}

// candidate request message types: result types of the niladic accessor methods of *tikvrpc.Request
// that are pointers to protobuf message structs (Get(), Scan(), ..., Empty()).
func candidateReqTypes() []reflect.Type {
	rt := reflect.TypeOf(&tikvrpc.Request{})
	pm := reflect.TypeOf((*proto.Message)(nil)).Elem()
	seen := map[reflect.Type]bool{}
	var out []reflect.Type
	for i := 0; i < rt.NumMethod(); i++ {
		m := rt.Method(i)
		if m.Type.NumIn() != 1 || m.Type.NumOut() != 1 {
			continue
		}
		o := m.Type.Out(0)
		if o.Kind() != reflect.Ptr || o.Elem().Kind() != reflect.Struct || !o.Implements(pm) {
			continue
		}
		if !(strings.HasSuffix(o.Elem().Name(), "Request") || strings.HasSuffix(o.Elem().Name(), "Req")) {
			continue
		}
		if !seen[o] {
			seen[o] = true
			out = append(out, o)
		}
	}
	sort.Slice(out, func(i, j int) bool { return out[i].String() < out[j].String() })
	return out
}

type cmdInfo struct {
	T        tikvrpc.CmdType
	Name     string
	ReqType  reflect.Type
	RespType reflect.Type // nil when streaming / unknown
	Stream   bool
	Notes    []string
}

func isKnownCmd(t tikvrpc.CmdType) bool {
	if t.String() != "Unknown" || tikvrpc.VerifIsValidReqType(t) {
		return true
	}
	r := &tikvrpc.Request{Type: t}
	known := false
	func() {
		defer func() {
			if recover() != nil {
				known = true
			}
		}()
		resp, err := tikvrpc.CallRPC(context.Background(), nilTikv{}, r)
		if err == nil && resp != nil {
			known = true
		}
	}()
	return known
}

func discover() []*cmdInfo {
	cands := candidateReqTypes()
	codec := mustCodec(apicodec.ModeTxn, 7)
	var out []*cmdInfo
	for ti := 0; ti <= 0xFFFF; ti++ {
		t := tikvrpc.CmdType(ti)
		if !isKnownCmd(t) {
			continue
		}
		ci := &cmdInfo{T: t, Name: t.String()}
		var acc []reflect.Type
		for _, c := range cands {
			mk := func() *tikvrpc.Request { return &tikvrpc.Request{Type: t, Req: reflect.New(c.Elem()).Interface()} }
			bad := false
			positive := false
			probes := []func() bool{
				func() bool { _, err := tikvrpc.CallRPC(context.Background(), nilTikv{}, mk()); return err == nil },
				func() bool { _, err := tikvrpc.CallDebugRPC(context.Background(), nilDebug{}, mk()); return err == nil },
				func() bool { return mk().ToBatchCommandsRequest() != nil },
				func() bool { mk().GetSize(); return false },
				func() bool { return tikvrpc.AttachContext(mk(), kvrpcpb.Context{}) },
				func() bool { _, err := codec.EncodeRequest(mk()); return err != nil },
			}
			for pi, p := range probes {
				switch probe(p) {
				case prBadType:
					bad = true
				case prOK:
					if pi <= 2 || pi == 4 {
						positive = true
					}
				}
			}
			if !bad && positive {
				acc = append(acc, c)
			}
		}
		if len(acc) == 1 {
			ci.ReqType = acc[0]
		} else {
			// CmdEmpty-like: CallRPC succeeds for any type; disambiguate by ToBatchCommandsRequest
			var acc2 []reflect.Type
			for _, c := range acc {
				r := &tikvrpc.Request{Type: t, Req: reflect.New(c.Elem()).Interface()}
				if probe(func() bool { return r.ToBatchCommandsRequest() != nil }) == prOK {
					acc2 = append(acc2, c)
				}
			}
			if len(acc2) == 1 {
				ci.ReqType = acc2[0]
			} else {
				ci.Notes = append(ci.Notes, fmt.Sprintf("ambiguous-request-type:%d/%d", len(acc), len(acc2)))
			}
		}
		if ci.ReqType != nil {
			ci.RespType, ci.Stream = respTypeFor(ci.ReqType, t)
		}
		out = append(out, ci)
	}
	return out
}

// response message type: result of the TikvClient/DebugClient method taking the request type.
func respTypeFor(req reflect.Type, t tikvrpc.CmdType) (reflect.Type, bool) {
	pm := reflect.TypeOf((*proto.Message)(nil)).Elem()
	var unary, stream []reflect.Type
	for _, it := range []reflect.Type{reflect.TypeOf((*tikvpb.TikvClient)(nil)).Elem(), reflect.TypeOf((*debugpb.DebugClient)(nil)).Elem()} {
		for i := 0; i < it.NumMethod(); i++ {
			m := it.Method(i)
			if m.Type.NumIn() < 2 || m.Type.In(1) != req || m.Type.NumOut() != 2 {
				continue
			}
			o := m.Type.Out(0)
			if o.Kind() == reflect.Ptr && o.Implements(pm) {
				unary = append(unary, o)
			} else {
				stream = append(stream, o)
			}
		}
	}
	if req == reflect.TypeOf(&tikvpb.BatchCommandsEmptyRequest{}) {
		return reflect.TypeOf(&tikvpb.BatchCommandsEmptyResponse{}), false
	}
	// a request type served by both a unary and a streaming method (coprocessor.Request): the command
	// whose name says Stream uses the streaming one.
	if len(unary) == 1 && (len(stream) == 0 || !strings.Contains(t.String(), "Stream")) {
		return unary[0], false
	}
	if len(stream) >= 1 {
		return nil, true
	}
	return nil, false
}

func dumpTypes() {
	for _, ci := range discover() {
		rq, rs := "?", "?"
		if ci.ReqType != nil {
			rq = ci.ReqType.String()
		}
		if ci.RespType != nil {
			rs = ci.RespType.String()
		}
		fmt.Printf("CMD\t%d\t%s\t%s\t%s\tstream=%v\t%v\n", ci.T, ci.Name, rq, rs, ci.Stream, ci.Notes)
	}
}
