//go:build verif

package main

import (
	"context"
	"fmt"
	"math/rand"
	"sort"
	"strings"
	"sync"
	"time"

	"github.com/pingcap/kvproto/pkg/errorpb"
	"github.com/pingcap/kvproto/pkg/kvrpcpb"
	"github.com/tikv/client-go/v2/config/retry"
	"github.com/tikv/client-go/v2/internal/apicodec"
	"github.com/tikv/client-go/v2/internal/client"
	"github.com/tikv/client-go/v2/internal/locate"
	"github.com/tikv/client-go/v2/internal/mockstore/mocktikv"
	"github.com/tikv/client-go/v2/internal/zz_verif/ksclient"
	"github.com/tikv/client-go/v2/oracle"
	"github.com/tikv/client-go/v2/rawkv"
	"github.com/tikv/client-go/v2/tikvrpc"
)

// Workloads of other properties re-run under a keyspace through package ksclient, with the END-TO-END effect as
// the oracle (what a v1 client on the same logical keys reads back):
//   raw_leader_move   a slice of C11's raw sequences with the region leader moving between operations, so that the
//                     region request sender itself re-sends a request (NotLeader) — seed C11-5: lost batch put
//   flush_retry       a pipelined-DML flush whose first transmission meets a retryable region error, then read back
//                     through BufferBatchGet — seed C16-5: flushed write lost

type twoStoreMock struct {
	mockCluster
	regionID uint64
	peers    []uint64
	leader   int
}

func newTwoStoreMock() *twoStoreMock {
	st := mocktikv.MustNewMVCCStore()
	cl := mocktikv.NewCluster(st)
	_, peers, region, _ := mocktikv.BootstrapWithMultiStores(cl, 2)
	return &twoStoreMock{mockCluster{store: st, cluster: cl, rpc: mocktikv.NewRPCClient(cl, st, nil), pd: mocktikv.NewPDClient(cl)}, region, peers, 0}
}
func (m *twoStoreMock) moveLeader() {
	m.leader = 1 - m.leader
	m.cluster.ChangeLeader(m.regionID, m.peers[m.leader])
}

func runLeaderMove(seed int64, tier string) {
	rng := rand.New(rand.NewSource(seed + 77))
	n := 60
	if tier == "thorough" {
		n = 400
	}
	ref, shared := newTwoStoreMock(), newTwoStoreMock()
	pdc := locate.NewCodecPDClient(apicodec.ModeRaw, ref.pd)
	v1 := rawkv.VerifNewClient(kvrpcpb.APIVersion_V1, pdc, ksclient.WrapRPC(ref.rpc, pdc.GetCodec()))
	v2, err := ksclient.NewRawClient(shared.rpc, shared.pd, 0x0001FF)
	if err != nil {
		panic(err)
	}
	ops := genRawOps(rng, n)
	for i, o := range ops {
		if i%3 == 1 {
			// the cached leader is stale for the next request: its first transmission is answered NotLeader
			ref.moveLeader()
			shared.moveLeader()
		}
		g, w := runRaw(v2, o), runRaw(v1, o)
		eline("raw_leader_move", g == w, fmt.Sprint(i), o.String(), "v2="+g, "v1="+w)
	}
	k := getCodec("r", 0x0001FF)
	var got, want []string
	foreign := 0
	for _, p := range shared.store.(*mocktikv.MVCCLevelDB).RawScan("", nil, nil, 100000) {
		if strings.HasPrefix(string(p.Key), string(k.pfx)) {
			got = append(got, hx(p.Key[4:])+"="+hx(p.Value))
		} else {
			foreign++
		}
	}
	for _, p := range ref.store.(*mocktikv.MVCCLevelDB).RawScan("", nil, nil, 100000) {
		want = append(want, hx(p.Key)+"="+hx(p.Value))
	}
	eline("raw_leader_move_content", foreign == 0 && strings.Join(got, ",") == strings.Join(want, ","), fmt.Sprintf("unprefixed=%d", foreign), strings.Join(got, ","), strings.Join(want, ","))
}

// a store below the codec that keeps flushed mutations by their wire key and answers the first transmission of
// every flush with a retryable region error
type flushFake struct {
	client.Client
	mu    sync.Mutex
	data  map[string][]byte
	seen  map[*tikvrpc.Request]bool
	first map[uint64]bool // generation -> already refused once
}

func (f *flushFake) SendRequest(ctx context.Context, addr string, req *tikvrpc.Request, timeout time.Duration) (*tikvrpc.Response, error) {
	f.mu.Lock()
	defer f.mu.Unlock()
	switch req.Type {
	case tikvrpc.CmdFlush:
		r := req.Flush()
		if !f.first[r.Generation] {
			f.first[r.Generation] = true
			return &tikvrpc.Response{Resp: &kvrpcpb.FlushResponse{RegionError: &errorpb.Error{Message: "stale", StaleCommand: &errorpb.StaleCommand{}}}}, nil
		}
		for _, m := range r.Mutations {
			if m.Op == kvrpcpb.Op_Del {
				delete(f.data, string(m.Key))
			} else {
				f.data[string(m.Key)] = append([]byte{}, m.Value...)
			}
		}
		return &tikvrpc.Response{Resp: &kvrpcpb.FlushResponse{}}, nil
	case tikvrpc.CmdBufferBatchGet:
		out := &kvrpcpb.BufferBatchGetResponse{}
		for _, k := range req.BufferBatchGet().Keys {
			if v, ok := f.data[string(k)]; ok {
				out.Pairs = append(out.Pairs, &kvrpcpb.KvPair{Key: k, Value: v})
			}
		}
		return &tikvrpc.Response{Resp: out}, nil
	}
	return nil, fmt.Errorf("flush fake: unsupported %v", req.Type)
}
func (f *flushFake) Close() error { return nil }

func runFlushRetry(seed int64) {
	run := func(v2 bool) (string, *flushFake) {
		m := newMock()
		fake := &flushFake{data: map[string][]byte{}, first: map[uint64]bool{}}
		var pdc *locate.CodecPDClient
		if v2 {
			var err error
			pdc, err = ksclient.CodecPD(apicodec.ModeTxn, m.pd, 0x0001FF)
			if err != nil {
				panic(err)
			}
		} else {
			pdc = locate.NewCodecPDClient(apicodec.ModeTxn, m.pd)
		}
		cache := locate.NewRegionCache(pdc)
		defer cache.Close()
		sender := locate.NewRegionRequestSender(cache, ksclient.WrapRPC(fake, pdc.GetCodec()), oracle.NoopReadTSValidator{})
		var sb strings.Builder
		send := func(t tikvrpc.CmdType, msg interface{}) *tikvrpc.Response {
			bo := retry.NewBackofferWithVars(context.Background(), 20000, nil)
			loc, err := cache.LocateKey(bo, []byte("k1"))
			if err != nil {
				panic(err)
			}
			resp, _, _, err := sender.SendReqCtx(bo, tikvrpc.NewRequest(t, msg), loc.Region, 5*time.Second, tikvrpc.TiKV)
			if err != nil {
				sb.WriteString("error " + errClass(err) + ";")
				return nil
			}
			return resp
		}
		for gen := uint64(1); gen <= 2; gen++ {
			var muts []*kvrpcpb.Mutation
			for i := 1; i <= 3; i++ {
				muts = append(muts, &kvrpcpb.Mutation{Op: kvrpcpb.Op_Put, Key: []byte(fmt.Sprintf("k%d", i)), Value: []byte(fmt.Sprintf("v%d.%d", gen, i))})
			}
			send(tikvrpc.CmdFlush, &kvrpcpb.FlushRequest{Mutations: muts, PrimaryKey: []byte("k1"), StartTs: 10, Generation: gen, LockTtl: 3000})
			if r := send(tikvrpc.CmdBufferBatchGet, &kvrpcpb.BufferBatchGetRequest{Keys: [][]byte{[]byte("k1"), []byte("k2"), []byte("k3"), []byte("k9")}, Version: 10}); r != nil {
				var ps []string
				for _, p := range r.Resp.(*kvrpcpb.BufferBatchGetResponse).Pairs {
					ps = append(ps, string(p.Key)+"="+string(p.Value))
				}
				sort.Strings(ps)
				sb.WriteString(fmt.Sprintf("after generation %d: %s;", gen, strings.Join(ps, ",")))
			}
		}
		return sb.String(), fake
	}
	w, _ := run(false)
	g, fake := run(true)
	eline("flush_retry", g == w, "flush x2 (first transmission of each answered StaleCommand), BufferBatchGet k1 k2 k3 k9", "v2="+g, "v1="+w)
	k := getCodec("x", 0x0001FF)
	var odd []string
	for key := range fake.data {
		if !(len(key) == 6 && strings.HasPrefix(key, string(k.pfx))) {
			odd = append(odd, hx([]byte(key)))
		}
	}
	sort.Strings(odd)
	eline("flush_retry_wire", len(odd) == 0 && len(fake.data) == 3, fmt.Sprintf("stored=%d", len(fake.data)), "keys not prefix+k<i>: "+strings.Join(odd, ","))
}
