//go:build verif

package main

import (
	"fmt"
	"os"
)

func main() {
	mode := "keys"
	if len(os.Args) > 1 {
		mode = os.Args[1]
	}
	switch mode {
	case "dump":
		dumpTypes()
	case "leaves":
		dumpLeaves()
	default:
		fmt.Println("unknown mode")
		os.Exit(2)
	}
}
