//go:build verif

// Driver for property C15 (API v2 codec). Modes:
//
//	keys                 pure key/range functions on generated inputs + property oracles (P lines)
//	replay op m id a...  one pure-function case
//	catalogue            reflection catalogue of all command types (rows for Gen_Catalogue.v)
//	dump | leaves        exploration helpers
//	e2e                  raw/txn workloads under codec v1 / v2 keyspace A / keyspace B on one mock store
package main

import (
	"fmt"
	"os"
	"strconv"

	"github.com/pingcap/log"
	"github.com/tikv/client-go/v2/internal/apicodec"
	"go.uber.org/zap/zapcore"
)

func verifEncodeRangeRev(c apicodec.Codec, s, e []byte) ([]byte, []byte) {
	a, b, ok := apicodec.VerifEncodeRangeReverse(c, s, e)
	if !ok {
		panic("not a v2 codec")
	}
	return a, b
}

func main() {
	mode := "keys"
	if len(os.Args) > 1 {
		mode = os.Args[1]
	}
	seed, _ := strconv.ParseInt(os.Getenv("VERIF_SEED"), 10, 64)
	if seed == 0 {
		seed = 1
	}
	tier := os.Getenv("VERIF_TIER")
	log.SetLevel(zapcore.FatalLevel) // DecodeKey logs a stack trace for every rejected key
	initOut()
	defer out.Flush()
	switch mode {
	case "keys":
		genKeys(seed, tier)
	case "replay":
		replayKeys(os.Args[2:])
	case "catalogue":
		runCatalogue()
	case "demo-scan-short":
		demoScanShort()
	case "pool":
		runPool(seed)
	case "rpc":
		runRPC(seed, tier)
		runRPCSender(seed, tier)
		runRPCUnaryDirect(seed)
	case "pd":
		runPD(seed, tier)
	case "e2e":
		runE2E(seed, tier)
	case "dump":
		dumpTypes()
	case "leaves":
		dumpLeaves()
	default:
		fmt.Fprintln(os.Stderr, "unknown mode")
		out.Flush()
		os.Exit(2)
	}
}
