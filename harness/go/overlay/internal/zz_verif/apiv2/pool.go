//go:build verif

package main

import (
	"fmt"
	"reflect"
	"strings"
	"sync"

	"github.com/pingcap/kvproto/pkg/kvrpcpb"
	"github.com/tikv/client-go/v2/config"
	"github.com/tikv/client-go/v2/internal/apicodec"
	"github.com/tikv/client-go/v2/internal/client"
	"github.com/tikv/client-go/v2/tikvrpc"
)

// Object-level observation of the codec plumbing for the heap model (coq/theories/ApiV2/Pool.v): a spy codec around the
// real codec v2 is given to the real RPCClient and records, per transmission, which request object EncodeRequest got
// and returned (fresh / pooled / the caller's), whether the returned request shares the caller's message, whether a
// context was already attached to the message when it was encoded, and which object DecodeResponse was handed. The
// recording store supplies the wire form. The extracted model replays every transmission with the observed pool
// choice and PREDICTS the rest (returned object, sharing, decoded object, wire keys and context, caller's state).
type spyCodec struct {
	apicodec.Codec
	mu  sync.Mutex
	ids map[*tikvrpc.Request]int
	nxt int
	enc []spyEnc
	dec []int
}
type spyEnc struct {
	caller, ret    int
	shared, hadCtx bool
}

func (s *spyCodec) id(r *tikvrpc.Request) int {
	if v, ok := s.ids[r]; ok {
		return v
	}
	s.ids[r] = s.nxt
	s.nxt++
	return s.nxt - 1
}

func msgHasCtx(m interface{}) bool {
	f := reflect.ValueOf(m).Elem().FieldByName("Context")
	return f.IsValid() && f.Type() == tCtx && !f.IsNil()
}

func (s *spyCodec) EncodeRequest(req *tikvrpc.Request) (*tikvrpc.Request, error) {
	had := msgHasCtx(req.Req)
	inner := req.Req
	out, err := s.Codec.EncodeRequest(req)
	s.mu.Lock()
	defer s.mu.Unlock()
	if err == nil {
		s.enc = append(s.enc, spyEnc{caller: s.id(req), ret: s.id(out), shared: out.Req == inner, hadCtx: had})
	}
	return out, err
}

func (s *spyCodec) DecodeResponse(req *tikvrpc.Request, resp *tikvrpc.Response) (*tikvrpc.Response, error) {
	s.mu.Lock()
	s.dec = append(s.dec, s.id(req))
	s.mu.Unlock()
	return s.Codec.DecodeResponse(req, resp)
}

func ctxFlag(m interface{}) string {
	f := reflect.ValueOf(m).Elem().FieldByName("Context")
	if !f.IsValid() || f.Type() != tCtx {
		return "noctx" // the message type has no context field
	}
	c, _ := f.Interface().(*kvrpcpb.Context)
	switch {
	case c == nil:
		return "none"
	case c.ApiVersion == kvrpcpb.APIVersion_V2 && c.GetKeyspaceId() != 0:
		return "v2"
	}
	return "v1"
}

// the key-bearing leaves of a message in walk order (the model's m_keys)
func keyList(side string, m interface{}) string {
	var ks []string
	keyLeaves(side, m, func(path, class string, b []byte) {
		if class != "value" {
			ks = append(ks, hx(b))
		}
	})
	if len(ks) == 0 {
		return "-"
	}
	return strings.Join(ks, ",")
}

func runPool(seed int64) {
	k := getCodec("x", 0x0102FF)
	for _, mode := range []string{"batch-sync", "batch-async", "unary-sync", "batch-sync-v1", "unary-sync-v1"} {
		func() {
			v1 := strings.HasSuffix(mode, "-v1")
			unaryMode := strings.HasPrefix(mode, "unary")
			if unaryMode {
				defer config.UpdateGlobal(func(conf *config.Config) { conf.TiKVClient.MaxBatchSize = 0 })()
			}
			store := newGenStore()
			defer store.srv.Stop()
			spy := &spyCodec{Codec: mustCodec(apicodec.ModeTxn, k.id), ids: map[*tikvrpc.Request]int{}}
			if v1 {
				// the codec v1 plumbing has the same request pool; it never writes into a message except for the two
				// commands whose message carries its own api fields (setAPICtx)
				spy.Codec = apicodec.NewCodecV1(apicodec.ModeTxn)
			}
			rpc := client.NewRPCClient(client.WithCodec(spy))
			defer rpc.Close()
			type caller struct {
				ci    *cmdInfo
				req   *tikvrpc.Request
				msg0  interface{}
				keyed bool
				tname string
			}
			var callers []*caller
			for _, ci := range discover() {
				if ci.ReqType == nil || ci.Stream || ci.T == tikvrpc.CmdEmpty {
					continue
				}
				batchable := tikvrpc.NewRequest(ci.T, reflect.New(ci.ReqType.Elem()).Interface()).ToBatchCommandsRequest() != nil
				unary := false
				for _, io := range store.methods {
					if io[0] == ci.ReqType {
						unary = true
					}
				}
				if (!unaryMode && !batchable) || (unaryMode && !unary) {
					continue
				}
				f := fill("req", ci.ReqType, reqSentinel("0"))
				req := tikvrpc.NewRequest(ci.T, f.msg)
				rpcRoute(req)
				nkeys := 0
				for _, l := range f.leaves {
					if f.class[l.Path] != "value" {
						nkeys++
					}
				}
				// the codec writes into the message: key-bearing fields (v2), or the message's own api_version / keyspace
				// fields (CompactRequest; the task meta of DispatchMPPTask) - both codecs
				_, ownAPI := ci.ReqType.Elem().FieldByName("ApiVersion")
				ownAPI = ownAPI || ci.T == tikvrpc.CmdMPPTask
				c := &caller{ci: ci, req: req, msg0: req.Req, keyed: (nkeys > 0 && !v1) || ownAPI, tname: ci.ReqType.Elem().Name()}
				callers = append(callers, c)
				spy.id(req) // callers own the first ids
			}
			ver := "v2"
			if v1 {
				ver = "v1"
			}
			fmt.Fprintf(out, "pool\tbegin\t%s\t%d\t%s\n", mode, len(callers), ver)
			for i, c := range callers {
				fmt.Fprintf(out, "pool\tcaller\t%d\t%s\t%d\t%s\n", i, c.ci.Name, b2i(c.keyed), keyList("req", c.req.Req))
			}
			// every caller's request object is transmitted three times, the callers taking turns
			for round := 0; round < 3; round++ {
				for i, c := range callers {
					store.takeAll(c.tname)
					spy.mu.Lock()
					spy.enc, spy.dec = nil, nil
					spy.mu.Unlock()
					// error path (unary modes, second round, every other caller): the store fails the call after seeing it, so
					// SendRequest returns before DecodeResponse and the encoded request is not recycled; the third round re-sends
					failing := unaryMode && round == 1 && i%2 == 0
					if failing {
						store.mu.Lock()
						store.failNext[c.tname] = true
						store.mu.Unlock()
					}
					var err error
					if mode == "batch-async" {
						err = rpcSendAsync(rpc, store.addr, c.req)
					} else {
						_, err = safeSend(rpc, store.addr, c.req)
					}
					ws := store.takeAll(c.tname)
					spy.mu.Lock()
					encs, decs := spy.enc, spy.dec
					spy.mu.Unlock()
					if failing && err != nil && len(ws) == 1 && len(encs) == 1 && len(decs) == 0 {
						decs = []int{-1}
						err = nil
					} else if failing {
						fmt.Fprintf(out, "pool\tsend\t%d\t%s\terror\tscripted failure: err=%v wires=%d encodes=%d decodes=%d\n", i, c.ci.Name, err, len(ws), len(encs), len(decs))
						continue
					}
					if err != nil || len(ws) != 1 || len(encs) != 1 || len(decs) != 1 {
						fmt.Fprintf(out, "pool\tsend\t%d\t%s\terror\t%v wires=%d encodes=%d decodes=%d\n", i, c.ci.Name, err, len(ws), len(encs), len(decs))
						continue
					}
					e := encs[0]
					fmt.Fprintf(out, "pool\tsend\t%d\t%s\tret=%d\tshared=%d\tdec=%d\thadctx=%d\twire=%s\tctx=%s\tcallerkeys=%s\tcallersame=%d\tcallerapi=%d\n",
						e.caller, c.ci.Name, e.ret, b2i(e.shared), decs[0], b2i(e.hadCtx), keyList("req", ws[0].msg), ctxFlag(ws[0].msg),
						keyList("req", c.req.Req), b2i(c.req.Req == c.msg0), b2i(c.req.ApiVersion == kvrpcpb.APIVersion_V2))
				}
			}
			fmt.Fprintf(out, "pool\tend\t%s\n", mode)
		}()
	}
}

func b2i(b bool) int {
	if b {
		return 1
	}
	return 0
}
