//go:build verif

package main

import (
	"bytes"
	"context"
	"fmt"
	"math"
	"math/rand"
	"strings"
	"time"

	"github.com/pingcap/kvproto/pkg/keyspacepb"
	"github.com/pingcap/kvproto/pkg/kvrpcpb"
	"github.com/tikv/client-go/v2/internal/apicodec"
	"github.com/tikv/client-go/v2/internal/client"
	"github.com/tikv/client-go/v2/internal/locate"
	"github.com/tikv/client-go/v2/internal/mockstore/mocktikv"
	"github.com/tikv/client-go/v2/internal/zz_verif/ksclient"
	"github.com/tikv/client-go/v2/rawkv"
	"github.com/tikv/client-go/v2/tikv"
	"github.com/tikv/client-go/v2/tikvrpc"
	"github.com/tikv/client-go/v2/util/async"
	pd "github.com/tikv/pd/client"
	pdgc "github.com/tikv/pd/client/clients/gc"
	"github.com/tikv/pd/client/constants"
	"github.com/tikv/pd/client/pkg/caller"
)

// PD wrapper answering LoadKeyspace (the mock PD returns nil)
type ksPD struct {
	pd.Client
	meta *keyspacepb.KeyspaceMeta
}

// the mock PD implements the GC state API for the null keyspace only
func (p ksPD) GetGCStatesClient(keyspaceID uint32) pdgc.GCStatesClient {
	return p.Client.GetGCStatesClient(constants.NullKeyspaceID)
}
func (p ksPD) GetGCInternalController(keyspaceID uint32) pdgc.InternalController {
	return p.Client.GetGCInternalController(constants.NullKeyspaceID)
}

func (p ksPD) WithCallerComponent(c caller.Component) pd.Client {
	return ksPD{p.Client.WithCallerComponent(c), p.meta}
}

func (p ksPD) LoadKeyspace(ctx context.Context, name string) (*keyspacepb.KeyspaceMeta, error) {
	return p.meta, nil
}

// what RPCClient.SendRequest does around the wire when a codec is configured
type codecRPC struct {
	client.Client
	codec apicodec.Codec
}

func (c *codecRPC) SendRequest(ctx context.Context, addr string, req *tikvrpc.Request, timeout time.Duration) (*tikvrpc.Response, error) {
	req, err := c.codec.EncodeRequest(req)
	if err != nil {
		return nil, err
	}
	resp, err := c.Client.SendRequest(ctx, addr, req, timeout)
	if err != nil {
		return nil, err
	}
	return c.codec.DecodeResponse(req, resp)
}

func (c *codecRPC) SendRequestAsync(ctx context.Context, addr string, req *tikvrpc.Request, cb async.Callback[*tikvrpc.Response]) {
	req, err := c.codec.EncodeRequest(req)
	if err != nil {
		cb.Invoke(nil, err)
		return
	}
	cb.Inject(func(resp *tikvrpc.Response, err error) (*tikvrpc.Response, error) {
		if err != nil {
			return nil, err
		}
		return c.codec.DecodeResponse(req, resp)
	})
	c.Client.SendRequestAsync(ctx, addr, req, cb)
}
func (c *codecRPC) Close() error { return nil } // the mock RPC client is shared

type mockCluster struct {
	store   mocktikv.MVCCStore
	cluster *mocktikv.Cluster
	rpc     *mocktikv.RPCClient
	pd      pd.Client
}

func newMock(splitKeys ...[]byte) *mockCluster {
	st := mocktikv.MustNewMVCCStore()
	cl := mocktikv.NewCluster(st)
	if len(splitKeys) == 0 {
		mocktikv.BootstrapWithSingleStore(cl)
	} else {
		mocktikv.BootstrapWithMultiRegions(cl, splitKeys...)
	}
	return &mockCluster{store: st, cluster: cl, rpc: mocktikv.NewRPCClient(cl, st, nil), pd: mocktikv.NewPDClient(cl)}
}

func ksMeta(id uint32) *keyspacepb.KeyspaceMeta {
	return &keyspacepb.KeyspaceMeta{Keyspace: &keyspacepb.KeyspaceMeta_Id{Id: id}, Name: fmt.Sprintf("ks%d", id), State: keyspacepb.KeyspaceState_ENABLED}
}

func errClass(err error) string {
	if err == nil {
		return "ok"
	}
	m := err.Error()
	for _, k := range []string{"write conflict", "empty", "not exist", "already exist", "invalid", "limit", "out of bound", "does not belong"} {
		if strings.Contains(strings.ToLower(m), k) {
			return "err:" + k
		}
	}
	if len(m) > 40 {
		m = m[:40]
	}
	return "err:" + m
}

func pairsStr(ks, vs [][]byte) string {
	var sb strings.Builder
	for i := range ks {
		sb.WriteString(hx(ks[i]))
		sb.WriteString("=")
		if i < len(vs) {
			sb.WriteString(hx(vs[i]))
		}
		sb.WriteString(",")
	}
	return sb.String()
}

// ---- raw workload ----
type rawOp struct {
	kind  string
	k, k2 []byte
	v     []byte
	ks    [][]byte
	vs    [][]byte
	n     int
}

func e2eKeys() [][]byte {
	return [][]byte{[]byte("a"), []byte("a\x00"), []byte("b"), []byte("c"), []byte("c\xff"), []byte("d"), []byte("k"), []byte("m"), []byte("z"), {0x00}, {0xff}, {0xff, 0xff}, []byte("r\x00\x00\x01a"), []byte("x\x00\x00\x02")}
}

func genRawOps(rng *rand.Rand, n int) []rawOp {
	keys := e2eKeys()
	pick := func() []byte { return keys[rng.Intn(len(keys))] }
	bound := func() []byte {
		if rng.Intn(4) == 0 {
			return nil
		}
		return pick()
	}
	var ops []rawOp
	for i := 0; i < n; i++ {
		val := []byte(fmt.Sprintf("v%d", i))
		switch r := rng.Intn(20); {
		case r < 6:
			ops = append(ops, rawOp{kind: "put", k: pick(), v: val})
		case r < 9:
			ops = append(ops, rawOp{kind: "get", k: pick()})
		case r < 10:
			ops = append(ops, rawOp{kind: "del", k: pick()})
		case r < 12:
			ks := [][]byte{pick(), pick(), pick()}
			ops = append(ops, rawOp{kind: "bput", ks: ks, vs: [][]byte{val, append(cp(val), 'x'), append(cp(val), 'y')}})
		case r < 13:
			ops = append(ops, rawOp{kind: "bget", ks: [][]byte{pick(), pick(), pick()}})
		case r < 14:
			ops = append(ops, rawOp{kind: "bdel", ks: [][]byte{pick(), pick()}})
		case r < 17:
			ops = append(ops, rawOp{kind: "scan", k: bound(), k2: bound(), n: 1 + rng.Intn(6)})
		case r < 19:
			// reverse: the request's start key is the upper bound; empty = from the end of the keyspace (seed C05-5)
			ops = append(ops, rawOp{kind: "rscan", k: bound(), k2: bound(), n: 1 + rng.Intn(6)})
		default:
			ops = append(ops, rawOp{kind: "delrange", k: bound(), k2: bound()})
		}
	}
	ops = append(ops, rawOp{kind: "scan", n: 100}, rawOp{kind: "rscan", n: 100}, rawOp{kind: "rscan", k2: []byte("b"), n: 3})
	return ops
}

func (o rawOp) String() string {
	return fmt.Sprintf("%s %s %s %s %s n=%d", o.kind, hx(o.k), hx(o.k2), hx(o.v), pairsStr(o.ks, o.vs), o.n)
}

func runRaw(c *rawkv.Client, o rawOp) string {
	ctx := context.Background()
	return safe(func() string {
		switch o.kind {
		case "put":
			return errClass(c.Put(ctx, o.k, o.v))
		case "get":
			v, err := c.Get(ctx, o.k)
			return errClass(err) + " " + hx(v)
		case "del":
			return errClass(c.Delete(ctx, o.k))
		case "bput":
			return errClass(c.BatchPut(ctx, o.ks, o.vs))
		case "bget":
			vs, err := c.BatchGet(ctx, o.ks)
			return errClass(err) + " " + pairsStr(o.ks, vs)
		case "bdel":
			return errClass(c.BatchDelete(ctx, o.ks))
		case "scan":
			ks, vs, err := c.Scan(ctx, o.k, o.k2, o.n)
			return errClass(err) + " " + pairsStr(ks, vs)
		case "rscan":
			ks, vs, err := c.ReverseScan(ctx, o.k, o.k2, o.n)
			return errClass(err) + " " + pairsStr(ks, vs)
		case "delrange":
			return errClass(c.DeleteRange(ctx, o.k, o.k2))
		}
		return "?"
	})
}

// ---- txn workload ----
type txnStep struct {
	kind  string // set del get iter riter
	k, k2 []byte
	v     []byte
}
type txnCase struct{ steps []txnStep }

func genTxns(rng *rand.Rand, n int) []txnCase {
	keys := e2eKeys()
	pick := func() []byte { return keys[rng.Intn(len(keys))] }
	var res []txnCase
	for i := 0; i < n; i++ {
		var tc txnCase
		for j := 0; j < 2+rng.Intn(5); j++ {
			val := []byte(fmt.Sprintf("t%d_%d", i, j))
			switch r := rng.Intn(10); {
			case r < 4:
				tc.steps = append(tc.steps, txnStep{kind: "set", k: pick(), v: val})
			case r < 5:
				tc.steps = append(tc.steps, txnStep{kind: "del", k: pick()})
			case r < 7:
				tc.steps = append(tc.steps, txnStep{kind: "get", k: pick()})
			case r < 9:
				var up []byte
				if rng.Intn(3) > 0 {
					up = pick()
				}
				tc.steps = append(tc.steps, txnStep{kind: "iter", k: pick(), k2: up})
			default:
				// reverse snapshot scan; upper and lower bound each open one time in three (seed C05-5)
				var up, lo []byte
				if rng.Intn(3) > 0 {
					up = pick()
				}
				if rng.Intn(3) == 0 {
					lo = pick()
				}
				tc.steps = append(tc.steps, txnStep{kind: "riter", k: up, k2: lo})
			}
		}
		res = append(res, tc)
	}
	res = append(res, txnCase{steps: []txnStep{{kind: "iter", k: []byte{0}}, {kind: "riter"}, {kind: "riter", k2: []byte("b")}}})
	return res
}

func runTxn(s *tikv.KVStore, tc txnCase) string {
	return safe(func() string {
		ctx := context.Background()
		txn, err := s.Begin()
		if err != nil {
			return "begin " + errClass(err)
		}
		var sb strings.Builder
		for _, st := range tc.steps {
			switch st.kind {
			case "set":
				sb.WriteString("set:" + errClass(txn.Set(st.k, st.v)) + ";")
			case "del":
				sb.WriteString("del:" + errClass(txn.Delete(st.k)) + ";")
			case "get":
				v, err := txn.Get(ctx, st.k)
				sb.WriteString("get:" + errClass(err) + ":" + hx(v.Value) + ";")
			case "iter", "riter":
				var ks, vs [][]byte
				var ierr error
				if st.kind == "iter" {
					it, err := txn.Iter(st.k, st.k2)
					ierr = err
					for err == nil && it.Valid() && len(ks) < 50 {
						ks, vs = append(ks, cp(it.Key())), append(vs, cp(it.Value()))
						if ierr = it.Next(); ierr != nil {
							break
						}
					}
				} else {
					it, err := txn.IterReverse(st.k, st.k2)
					ierr = err
					for err == nil && it.Valid() && len(ks) < 50 {
						ks, vs = append(ks, cp(it.Key())), append(vs, cp(it.Value()))
						if ierr = it.Next(); ierr != nil {
							break
						}
					}
				}
				sb.WriteString(st.kind + ":" + errClass(ierr) + ":" + pairsStr(ks, vs) + ";")
			}
		}
		sb.WriteString("commit:" + errClass(txn.Commit(ctx)))
		return sb.String()
	})
}

func (tc txnCase) String() string {
	var sb strings.Builder
	for _, s := range tc.steps {
		sb.WriteString(fmt.Sprintf("%s(%s,%s,%s) ", s.kind, hx(s.k), hx(s.k2), hx(s.v)))
	}
	return sb.String()
}

func eline(name string, pass bool, a ...string) {
	v := "pass"
	if !pass {
		v = "fail"
	}
	fmt.Fprintf(out, "E\t%s\t%s\t%s\n", name, strings.Join(a, "\t"), v)
}

func cat(a []byte, s string) []byte { return append(cp(a), s...) }

func runE2E(seed int64, tier string) {
	rng := rand.New(rand.NewSource(seed))
	nops := 150
	if tier == "thorough" {
		nops = 1500
	}
	idA, idB := uint32(0x0001FF), uint32(0x000200) // adjacent keyspaces, A's end key has a carry
	rawA, rawB := getCodec("r", idA), getCodec("r", idB)
	txnA, txnB := getCodec("x", idA), getCodec("x", idB)
	// the shared cluster: regions cut inside A, across the A/B border (at a short key), inside B.
	// Only in the txn key range: mocktikv's raw handlers compare raw keys with the memcomparable region
	// bounds (they assume API v1 raw regions), so raw keys all live in the first region here.
	shared := newMock(cat(txnA.pfx, "c"), txnA.end[:3], cat(txnB.pfx, "b"), txnB.end)
	refRawA, refRawB := newMock(), newMock()
	refTxnA, refTxnB := newMock([]byte("c"), []byte("k")), newMock([]byte("b"))

	// the one-line opt-in other checks' drivers use (package ksclient)
	mkRaw := func(m *mockCluster, id uint32) *rawkv.Client {
		c, err := ksclient.NewRawClient(m.rpc, m.pd, id)
		if err != nil {
			panic(err)
		}
		return c
	}
	mkRawV1 := func(m *mockCluster) *rawkv.Client {
		pdc := locate.NewCodecPDClient(apicodec.ModeRaw, m.pd)
		return rawkv.VerifNewClient(kvrpcpb.APIVersion_V1, pdc, &codecRPC{m.rpc, pdc.GetCodec()})
	}
	cA, cB, rA, rB := mkRaw(shared, idA), mkRaw(shared, idB), mkRawV1(refRawA), mkRawV1(refRawB)
	opsA, opsB := genRawOps(rng, nops), genRawOps(rng, nops)
	for i := range opsA {
		ga, wa := runRaw(cA, opsA[i]), runRaw(rA, opsA[i])
		eline("raw_transparent_A", ga == wa, fmt.Sprint(i), opsA[i].String(), "v2="+ga, "v1="+wa)
		gb, wb := runRaw(cB, opsB[i]), runRaw(rB, opsB[i])
		eline("raw_transparent_B", gb == wb, fmt.Sprint(i), opsB[i].String(), "v2="+gb, "v1="+wb)
	}
	// physical audit: everything the two raw clients wrote carries their prefixes; per keyspace the
	// stripped content equals the reference store's content
	audit := func(name string, phys []mocktikv.Pair, a, b *kcodec, refA, refB []mocktikv.Pair) {
		var gotA, gotB []string
		foreign := 0
		for _, p := range phys {
			switch {
			case bytes.HasPrefix(p.Key, a.pfx):
				gotA = append(gotA, hx(p.Key[4:])+"="+hx(p.Value))
			case bytes.HasPrefix(p.Key, b.pfx):
				gotB = append(gotB, hx(p.Key[4:])+"="+hx(p.Value))
			default:
				foreign++
			}
		}
		flat := func(ps []mocktikv.Pair) []string {
			var r []string
			for _, p := range ps {
				r = append(r, hx(p.Key)+"="+hx(p.Value))
			}
			return r
		}
		eline(name+"_wire_prefix", foreign == 0, fmt.Sprintf("unprefixed=%d total=%d", foreign, len(phys)))
		eline(name+"_content_A", strings.Join(gotA, ",") == strings.Join(flat(refA), ","), strings.Join(gotA, ","), strings.Join(flat(refA), ","))
		eline(name+"_content_B", strings.Join(gotB, ",") == strings.Join(flat(refB), ","), strings.Join(gotB, ","), strings.Join(flat(refB), ","))
	}
	rawAll := func(m *mockCluster) []mocktikv.Pair {
		return m.store.(*mocktikv.MVCCLevelDB).RawScan("", nil, nil, 100000)
	}
	audit("raw", rawAll(shared), rawA, rawB, rawAll(refRawA), rawAll(refRawB))

	// ---- txn
	mkTxn := func(m *mockCluster, id uint32) *tikv.KVStore {
		s, err := ksclient.NewTxnStore(m.rpc, m.pd, id)
		if err != nil {
			panic(err)
		}
		return s
	}
	mkTxnV1 := func(m *mockCluster) *tikv.KVStore {
		s, err := tikv.NewTestTiKVStore(m.rpc, m.pd, nil, nil, 0)
		if err != nil {
			panic(err)
		}
		return s
	}
	sA, sB, tA, tB := mkTxn(shared, idA), mkTxn(shared, idB), mkTxnV1(refTxnA), mkTxnV1(refTxnB)
	ntx := nops / 4
	txA, txB := genTxns(rng, ntx), genTxns(rng, ntx)
	for i := range txA {
		ga, wa := runTxn(sA, txA[i]), runTxn(tA, txA[i])
		eline("txn_transparent_A", ga == wa, fmt.Sprint(i), txA[i].String(), "v2="+ga, "v1="+wa)
		gb, wb := runTxn(sB, txB[i]), runTxn(tB, txB[i])
		eline("txn_transparent_B", gb == wb, fmt.Sprint(i), txB[i].String(), "v2="+gb, "v1="+wb)
	}
	txnAll := func(m *mockCluster, from, to []byte) []mocktikv.Pair {
		return m.store.(*mocktikv.MVCCLevelDB).Scan(from, to, 100000, math.MaxUint64, kvrpcpb.IsolationLevel_SI, nil)
	}
	// the mock keeps raw and txn data in one leveldb: audit the txn mode's byte range only
	audit("txn", txnAll(shared, []byte{'x'}, []byte{'y'}), txnA, txnB, txnAll(refTxnA, nil, nil), txnAll(refTxnB, nil, nil))
	_ = cB
	runRespE2E(seed)
	runLeaderMove(seed, tier)
	runFlushRetry(seed)
}
