//go:build verif

package main

import (
	"context"
	"fmt"
	"reflect"
	"sort"
	"strings"
	"time"

	"github.com/gogo/protobuf/proto"
	"github.com/pingcap/kvproto/pkg/coprocessor"
	"github.com/pingcap/kvproto/pkg/deadlock"
	"github.com/pingcap/kvproto/pkg/errorpb"
	"github.com/pingcap/kvproto/pkg/kvrpcpb"
	"github.com/pingcap/kvproto/pkg/metapb"
	"github.com/pingcap/kvproto/pkg/mpp"
	"github.com/tikv/client-go/v2/internal/apicodec"
	"github.com/tikv/client-go/v2/internal/client"
	"github.com/tikv/client-go/v2/internal/locate"
	"github.com/tikv/client-go/v2/tikvrpc"
	"github.com/tikv/pd/client/clients/router"
	"github.com/tikv/pd/client/pkg/circuitbreaker"
)

// Scripted request/response scenarios sent as raw tikvrpc requests (explicit timestamps) through the codec to
// mocktikv: once with codec v1 on a reference cluster split at logical keys, once with codec v2 (keyspace A)
// on the shared cluster split at the corresponding physical keys, a client of keyspace B being busy on the same
// store. Every decoded response must be identical; on the wire every key-bearing location of the v2 run carries
// A's prefix. The key-bearing locations that actually held a key are reported (R lines) for catalogue coverage.

// wire tap between codec and store
type tapRPC struct {
	client.Client
	onWire func(req *tikvrpc.Request, resp *tikvrpc.Response)
	// when set, the next request is answered with this wire response instead of being handed to the mock store
	// (for commands / fields mocktikv cannot produce); the request context is attached as RPCClient does
	inject interface{}
	ctxBad []string
}

func (t *tapRPC) SendRequest(ctx context.Context, addr string, req *tikvrpc.Request, timeout time.Duration) (*tikvrpc.Response, error) {
	if t.inject != nil {
		resp := &tikvrpc.Response{Resp: t.inject}
		t.inject = nil
		tikvrpc.AttachContext(req, req.Context)
		if f := reflect.ValueOf(req.Req).Elem().FieldByName("Context"); f.IsValid() && f.Type() == tCtx {
			c, _ := f.Interface().(*kvrpcpb.Context)
			if c == nil || c.ApiVersion != req.ApiVersion || c.GetKeyspaceId() != req.GetKeyspaceId() || c.RegionId != req.RegionId {
				t.ctxBad = append(t.ctxBad, req.Type.String())
			}
		}
		if t.onWire != nil {
			t.onWire(req, resp)
		}
		return resp, nil
	}
	resp, err := t.Client.SendRequest(ctx, addr, req, timeout)
	if err == nil && t.onWire != nil {
		t.onWire(req, resp)
	}
	return resp, err
}
func (t *tapRPC) Close() error { return nil }

type respEnv struct {
	name    string
	pdc     *locate.CodecPDClient
	rpc     client.Client
	ctx     context.Context
	codec   *kcodec // nil for v1
	seen    map[string]bool
	wireBad []string
	saved   *router.Region // a region looked up before a split, to provoke EpochNotMatch afterwards
	tap     *tapRPC
}

func newRespEnv(name string, m *mockCluster, mode apicodec.Mode, k *kcodec) *respEnv {
	e := &respEnv{name: name, codec: k, seen: map[string]bool{}}
	e.ctx = circuitbreaker.WithCircuitBreaker(context.Background(), circuitbreaker.NewCircuitBreaker("verif-"+name,
		circuitbreaker.Settings{ErrorRateWindow: 30 * time.Second, MinQPSForOpen: 1 << 30, CoolDownInterval: time.Second, HalfOpenSuccessCount: 1}))
	if k == nil {
		e.pdc = locate.NewCodecPDClient(mode, m.pd)
	} else {
		var err error
		e.pdc, err = locate.NewCodecPDClientWithKeyspace(mode, ksPD{m.pd, ksMeta(k.id)}, "ks")
		if err != nil {
			panic(err)
		}
	}
	tap := &tapRPC{Client: m.rpc}
	if k != nil {
		tap.onWire = func(req *tikvrpc.Request, resp *tikvrpc.Response) { e.checkWire(req, resp) }
	}
	e.rpc = &codecRPC{tap, e.pdc.GetCodec()}
	e.tap = tap
	return e
}

func cmdName(t tikvrpc.CmdType) string { return t.String() }

// every non-empty key-bearing location of msg, by the catalogue's classification rule
func keyLeaves(side string, msg interface{}, visit func(path, class string, b []byte)) {
	v := reflect.ValueOf(msg)
	if !v.IsValid() || v.Kind() != reflect.Ptr || v.IsNil() || v.Elem().Kind() != reflect.Struct {
		return
	}
	var walk func(v reflect.Value, path string)
	walk = func(v reflect.Value, path string) {
		t := v.Type()
		skip := skipRule(side)
		for i := 0; i < t.NumField(); i++ {
			f := t.Field(i)
			if strings.HasPrefix(f.Name, "XXX_") || f.PkgPath != "" || skip(t, f) {
				continue
			}
			fv := v.Field(i)
			p := f.Name
			if path != "" {
				p = path + "." + f.Name
			}
			switch {
			case isBytesLike(f.Type):
				if fv.Len() > 0 {
					visit(p, classify(&leaf{Path: p, Field: f.Name, Owner: t.String()}), getBytes(fv))
				}
			case f.Type.Kind() == reflect.Slice && isBytesLike(f.Type.Elem()):
				for j := 0; j < fv.Len(); j++ {
					if fv.Index(j).Len() > 0 {
						visit(p+"[]", classify(&leaf{Path: p, Field: f.Name, Owner: t.String()}), getBytes(fv.Index(j)))
					}
				}
			case f.Type.Kind() == reflect.Ptr && f.Type.Elem().Kind() == reflect.Struct:
				if !fv.IsNil() {
					walk(fv.Elem(), p)
				}
			case f.Type.Kind() == reflect.Slice && f.Type.Elem().Kind() == reflect.Ptr && f.Type.Elem().Elem().Kind() == reflect.Struct:
				for j := 0; j < fv.Len(); j++ {
					if !fv.Index(j).IsNil() {
						walk(fv.Index(j).Elem(), p+"[]")
					}
				}
			}
		}
	}
	walk(v.Elem(), "")
}

// on the wire (v2): request keys carry the prefix; response keys, as the store echoes them, carry it too
func (e *respEnv) checkWire(req *tikvrpc.Request, resp *tikvrpc.Response) {
	k := e.codec
	check := func(side string, msg interface{}) {
		keyLeaves(side, msg, func(path, class string, b []byte) {
			switch class {
			case "key", "rstart", "rend":
				ok := len(b) >= 4 && string(b[:4]) == string(k.pfx)
				if class == "rend" && string(b) == string(k.end) {
					ok = true
				}
				if !ok {
					e.wireBad = append(e.wireBad, fmt.Sprintf("%s %s %s=%s", cmdName(req.Type), side, path, hx(b)))
				}
			}
		})
	}
	check("req", req.Req)
	if resp != nil {
		check("resp", resp.Resp)
	}
}

func (e *respEnv) send(t tikvrpc.CmdType, msg interface{}, routeKey []byte, stale ...string) string {
	return safe(func() string {
		r, err := e.pdc.GetRegion(e.ctx, routeKey)
		if err != nil || r == nil {
			return fmt.Sprintf("locate error %v", err)
		}
		if len(stale) > 0 && stale[0] == "save" {
			e.saved = r
		}
		if len(stale) > 0 && stale[0] == "use" && e.saved != nil {
			r = e.saved
		}
		st, err := e.pdc.GetStore(e.ctx, r.Leader.StoreId)
		if err != nil {
			return "store error"
		}
		req := tikvrpc.NewRequest(t, msg, kvrpcpb.Context{RegionId: r.Meta.Id, RegionEpoch: r.Meta.RegionEpoch, Peer: r.Leader})
		resp, err := e.rpc.SendRequest(e.ctx, st.Address, req, 3*time.Second)
		if err != nil {
			return "rpc error: " + errClass(err)
		}
		keyLeaves("resp", resp.Resp, func(path, class string, b []byte) {
			if class != "value" {
				e.seen[cmdName(t)+"\tresp\t"+path] = true
			}
		})
		keyLeaves("req", msg, func(path, class string, b []byte) {
			if class != "value" {
				e.seen[cmdName(t)+"\treq\t"+path] = true
			}
		})
		if sr, ok := resp.Resp.(*kvrpcpb.SplitRegionResponse); ok && e.codec == nil {
			// codec v1 has no case for SplitRegion and leaves the memcomparable region keys in place (the client only
			// reads the ids): decode them here so that the comparison is on logical keys
			for _, r := range sr.Regions {
				r.StartKey, r.EndKey = rawBound(r.StartKey), rawBound(r.EndKey)
			}
		}
		if pm, ok := resp.Resp.(proto.Message); ok {
			return proto.CompactTextString(pm)
		}
		return fmt.Sprintf("%T", resp.Resp)
	})
}

type respStep struct {
	t     tikvrpc.CmdType
	msg   func() interface{}
	route []byte
	note  string
	stale string
}

func b(s string) []byte { return []byte(s) }

func respScenario() []respStep {
	mut := func(op kvrpcpb.Op, k, v string) *kvrpcpb.Mutation {
		return &kvrpcpb.Mutation{Op: op, Key: b(k), Value: b(v)}
	}
	S := func(t tikvrpc.CmdType, route string, note string, f func() interface{}) respStep {
		return respStep{t, f, b(route), note, ""}
	}
	return []respStep{
		// txn 10 prewrites a (primary), b, b2 in region 1 and d in region 2
		S(tikvrpc.CmdPrewrite, "a", "prewrite T10", func() interface{} {
			return &kvrpcpb.PrewriteRequest{Mutations: []*kvrpcpb.Mutation{mut(kvrpcpb.Op_Put, "a", "va"), mut(kvrpcpb.Op_Put, "b", "vb"), mut(kvrpcpb.Op_Put, "b2", "vb2")}, PrimaryLock: b("a"), StartVersion: 10, LockTtl: 3000, Secondaries: [][]byte{b("b"), b("b2")}}
		}),
		S(tikvrpc.CmdPrewrite, "d", "prewrite T10 region 2", func() interface{} {
			return &kvrpcpb.PrewriteRequest{Mutations: []*kvrpcpb.Mutation{mut(kvrpcpb.Op_Put, "d", "vd")}, PrimaryLock: b("a"), StartVersion: 10, LockTtl: 3000}
		}),
		S(tikvrpc.CmdGet, "b", "get meets lock", func() interface{} { return &kvrpcpb.GetRequest{Key: b("b"), Version: 20} }),
		S(tikvrpc.CmdBatchGet, "a", "batch get meets locks", func() interface{} {
			return &kvrpcpb.BatchGetRequest{Keys: [][]byte{b("a"), b("b"), b("aa")}, Version: 20}
		}),
		S(tikvrpc.CmdScan, "a", "scan meets locks", func() interface{} {
			return &kvrpcpb.ScanRequest{StartKey: b("a"), EndKey: b("bz"), Limit: 10, Version: 20}
		}),
		S(tikvrpc.CmdScan, "a", "scan to the region end", func() interface{} {
			return &kvrpcpb.ScanRequest{StartKey: b("a"), Limit: 10, Version: 20}
		}),
		S(tikvrpc.CmdPrewrite, "b", "prewrite T30 meets lock", func() interface{} {
			return &kvrpcpb.PrewriteRequest{Mutations: []*kvrpcpb.Mutation{mut(kvrpcpb.Op_Put, "b", "x")}, PrimaryLock: b("b"), StartVersion: 30, LockTtl: 3000}
		}),
		S(tikvrpc.CmdPessimisticLock, "b2", "pessimistic lock meets lock", func() interface{} {
			return &kvrpcpb.PessimisticLockRequest{Mutations: []*kvrpcpb.Mutation{mut(kvrpcpb.Op_PessimisticLock, "b2", "")}, PrimaryLock: b("b2"), StartVersion: 31, ForUpdateTs: 31, LockTtl: 3000}
		}),
		S(tikvrpc.CmdScanLock, "a", "scan lock", func() interface{} {
			return &kvrpcpb.ScanLockRequest{MaxVersion: 100, StartKey: b("a"), EndKey: b("bz")}
		}),
		S(tikvrpc.CmdScanLock, "a", "scan lock unbounded", func() interface{} { return &kvrpcpb.ScanLockRequest{MaxVersion: 100} }),
		S(tikvrpc.CmdCheckTxnStatus, "a", "check txn status of the primary", func() interface{} {
			return &kvrpcpb.CheckTxnStatusRequest{PrimaryKey: b("a"), LockTs: 10, CallerStartTs: 50, CurrentTs: 50}
		}),
		S(tikvrpc.CmdCheckTxnStatus, "aa", "check txn status: no such txn", func() interface{} {
			return &kvrpcpb.CheckTxnStatusRequest{PrimaryKey: b("aa"), LockTs: 11, CallerStartTs: 50, CurrentTs: 50}
		}),
		S(tikvrpc.CmdTxnHeartBeat, "a", "heart beat", func() interface{} {
			return &kvrpcpb.TxnHeartBeatRequest{PrimaryLock: b("a"), StartVersion: 10, AdviseLockTtl: 4000}
		}),
		S(tikvrpc.CmdTxnHeartBeat, "aa", "heart beat: no lock", func() interface{} {
			return &kvrpcpb.TxnHeartBeatRequest{PrimaryLock: b("aa"), StartVersion: 10, AdviseLockTtl: 4000}
		}),
		S(tikvrpc.CmdCheckSecondaryLocks, "b", "check secondary locks", func() interface{} {
			return &kvrpcpb.CheckSecondaryLocksRequest{Keys: [][]byte{b("b"), b("b2")}, StartVersion: 10}
		}),
		S(tikvrpc.CmdMvccGetByKey, "a", "mvcc by key (lock)", func() interface{} { return &kvrpcpb.MvccGetByKeyRequest{Key: b("a")} }),
		S(tikvrpc.CmdMvccGetByStartTs, "a", "mvcc by start ts", func() interface{} { return &kvrpcpb.MvccGetByStartTsRequest{StartTs: 10} }),
		S(tikvrpc.CmdPhysicalScanLock, "a", "physical scan lock", func() interface{} { return &kvrpcpb.PhysicalScanLockRequest{MaxTs: 100, StartKey: b("a"), Limit: 10} }),
		S(tikvrpc.CmdCommit, "a", "commit T10 region 1", func() interface{} {
			return &kvrpcpb.CommitRequest{Keys: [][]byte{b("a"), b("b"), b("b2")}, StartVersion: 10, CommitVersion: 40}
		}),
		S(tikvrpc.CmdCommit, "d", "commit T10 region 2", func() interface{} {
			return &kvrpcpb.CommitRequest{Keys: [][]byte{b("d")}, StartVersion: 10, CommitVersion: 40, PrimaryKey: b("a")}
		}),
		S(tikvrpc.CmdPrewrite, "a", "prewrite T5: write conflict", func() interface{} {
			return &kvrpcpb.PrewriteRequest{Mutations: []*kvrpcpb.Mutation{mut(kvrpcpb.Op_Put, "a", "old")}, PrimaryLock: b("a"), StartVersion: 5, LockTtl: 3000}
		}),
		S(tikvrpc.CmdPrewrite, "a", "prewrite T60 insert: already exists", func() interface{} {
			return &kvrpcpb.PrewriteRequest{Mutations: []*kvrpcpb.Mutation{mut(kvrpcpb.Op_Insert, "a", "new")}, PrimaryLock: b("a"), StartVersion: 60, LockTtl: 3000}
		}),
		S(tikvrpc.CmdPessimisticLock, "a", "pessimistic lock T45 < commit: conflict", func() interface{} {
			return &kvrpcpb.PessimisticLockRequest{Mutations: []*kvrpcpb.Mutation{mut(kvrpcpb.Op_PessimisticLock, "a", "")}, PrimaryLock: b("a"), StartVersion: 35, ForUpdateTs: 35, LockTtl: 3000}
		}),
		S(tikvrpc.CmdPessimisticLock, "a", "pessimistic lock T70 return values", func() interface{} {
			return &kvrpcpb.PessimisticLockRequest{Mutations: []*kvrpcpb.Mutation{mut(kvrpcpb.Op_PessimisticLock, "a", ""), mut(kvrpcpb.Op_PessimisticLock, "aa", "")}, PrimaryLock: b("a"), StartVersion: 70, ForUpdateTs: 70, LockTtl: 3000, ReturnValues: true}
		}),
		S(tikvrpc.CmdGet, "a", "get meets pessimistic lock (ignored)", func() interface{} { return &kvrpcpb.GetRequest{Key: b("a"), Version: 80} }),
		S(tikvrpc.CmdPessimisticRollback, "a", "pessimistic rollback", func() interface{} {
			return &kvrpcpb.PessimisticRollbackRequest{Keys: [][]byte{b("a"), b("aa")}, StartVersion: 70, ForUpdateTs: 70}
		}),
		S(tikvrpc.CmdBatchGet, "a", "batch get values", func() interface{} {
			return &kvrpcpb.BatchGetRequest{Keys: [][]byte{b("a"), b("b"), b("aa")}, Version: 80}
		}),
		S(tikvrpc.CmdScan, "a", "reverse scan", func() interface{} {
			return &kvrpcpb.ScanRequest{StartKey: b("bz"), EndKey: b("a"), Limit: 10, Version: 80, Reverse: true}
		}),
		S(tikvrpc.CmdMvccGetByKey, "a", "mvcc by key (writes)", func() interface{} { return &kvrpcpb.MvccGetByKeyRequest{Key: b("a")} }),
		S(tikvrpc.CmdPrewrite, "e", "prewrite T90 for rollback / resolve", func() interface{} {
			return &kvrpcpb.PrewriteRequest{Mutations: []*kvrpcpb.Mutation{mut(kvrpcpb.Op_Put, "e", "ve"), mut(kvrpcpb.Op_Put, "f", "vf"), mut(kvrpcpb.Op_Del, "g", "")}, PrimaryLock: b("e"), StartVersion: 90, LockTtl: 3000}
		}),
		S(tikvrpc.CmdBatchRollback, "e", "batch rollback f", func() interface{} { return &kvrpcpb.BatchRollbackRequest{Keys: [][]byte{b("f")}, StartVersion: 90} }),
		S(tikvrpc.CmdCleanup, "g", "cleanup g", func() interface{} { return &kvrpcpb.CleanupRequest{Key: b("g"), StartVersion: 90, CurrentTs: 95} }),
		S(tikvrpc.CmdResolveLock, "e", "resolve lock e (commit 99)", func() interface{} {
			return &kvrpcpb.ResolveLockRequest{StartVersion: 90, CommitVersion: 99, Keys: [][]byte{b("e")}}
		}),
		S(tikvrpc.CmdCommit, "f", "commit a rolled back key", func() interface{} {
			return &kvrpcpb.CommitRequest{Keys: [][]byte{b("f")}, StartVersion: 90, CommitVersion: 99}
		}),
		S(tikvrpc.CmdGet, "c", "key not in region", func() interface{} { return &kvrpcpb.GetRequest{Key: b("zz"), Version: 200} }),
		S(tikvrpc.CmdDeleteRange, "d", "delete range", func() interface{} { return &kvrpcpb.DeleteRangeRequest{StartKey: b("d"), EndKey: b("dz")} }),
		S(tikvrpc.CmdScan, "c", "scan after delete range", func() interface{} { return &kvrpcpb.ScanRequest{StartKey: b("c"), Limit: 10, Version: 200} }),
		{tikvrpc.CmdGet, func() interface{} { return &kvrpcpb.GetRequest{Key: b("e"), Version: 200} }, b("e"), "get e (remember the region)", "save"},
		S(tikvrpc.CmdSplitRegion, "e", "split region", func() interface{} { return &kvrpcpb.SplitRegionRequest{SplitKeys: [][]byte{b("ee"), b("h")}} }),
		{tikvrpc.CmdGet, func() interface{} { return &kvrpcpb.GetRequest{Key: b("e"), Version: 200} }, b("e"), "get e with the epoch from before the split", "use"},
		{tikvrpc.CmdScan, func() interface{} { return &kvrpcpb.ScanRequest{StartKey: b("e"), Limit: 5, Version: 200} }, b("e"), "scan with the stale epoch", "use"},
		S(tikvrpc.CmdGC, "a", "gc", func() interface{} { return &kvrpcpb.GCRequest{SafePoint: 1} }),
		S(tikvrpc.CmdUnsafeDestroyRange, "a", "unsafe destroy range", func() interface{} { return &kvrpcpb.UnsafeDestroyRangeRequest{StartKey: b("y"), EndKey: b("yz")} }),
	}
}

func rawRespScenario() []respStep {
	S := func(t tikvrpc.CmdType, route string, note string, f func() interface{}) respStep {
		return respStep{t, f, b(route), note, ""}
	}
	return []respStep{
		S(tikvrpc.CmdRawPut, "a", "raw put", func() interface{} { return &kvrpcpb.RawPutRequest{Key: b("a"), Value: b("1")} }),
		S(tikvrpc.CmdRawBatchPut, "a", "raw batch put", func() interface{} {
			return &kvrpcpb.RawBatchPutRequest{Pairs: []*kvrpcpb.KvPair{{Key: b("b"), Value: b("2")}, {Key: b("c"), Value: b("3")}}}
		}),
		S(tikvrpc.CmdRawGet, "a", "raw get", func() interface{} { return &kvrpcpb.RawGetRequest{Key: b("a")} }),
		S(tikvrpc.CmdRawBatchGet, "a", "raw batch get", func() interface{} { return &kvrpcpb.RawBatchGetRequest{Keys: [][]byte{b("a"), b("c"), b("zz")}} }),
		S(tikvrpc.CmdRawScan, "a", "raw scan", func() interface{} { return &kvrpcpb.RawScanRequest{StartKey: b("a"), EndKey: b("z"), Limit: 10} }),
		S(tikvrpc.CmdRawScan, "a", "raw scan unbounded", func() interface{} { return &kvrpcpb.RawScanRequest{StartKey: b("b"), Limit: 10} }),
		S(tikvrpc.CmdRawScan, "a", "raw reverse scan", func() interface{} {
			return &kvrpcpb.RawScanRequest{StartKey: b("z"), EndKey: b("a"), Limit: 10, Reverse: true}
		}),
		S(tikvrpc.CmdRawCompareAndSwap, "a", "raw cas", func() interface{} { return &kvrpcpb.RawCASRequest{Key: b("a"), Value: b("9"), PreviousValue: b("1")} }),
		S(tikvrpc.CmdRawChecksum, "a", "raw checksum", func() interface{} {
			return &kvrpcpb.RawChecksumRequest{Ranges: []*kvrpcpb.KeyRange{{StartKey: b("a"), EndKey: b("z")}}}
		}),
		S(tikvrpc.CmdRawDelete, "a", "raw delete", func() interface{} { return &kvrpcpb.RawDeleteRequest{Key: b("b")} }),
		S(tikvrpc.CmdRawBatchDelete, "a", "raw batch delete", func() interface{} { return &kvrpcpb.RawBatchDeleteRequest{Keys: [][]byte{b("c")}} }),
		S(tikvrpc.CmdRawDeleteRange, "a", "raw delete range", func() interface{} { return &kvrpcpb.RawDeleteRangeRequest{StartKey: b("a"), EndKey: b("aa")} }),
		S(tikvrpc.CmdRawScan, "a", "raw scan after deletes", func() interface{} { return &kvrpcpb.RawScanRequest{Limit: 10} }),
	}
}

// ---- answers mocktikv cannot produce: a synthesized store answer in wire form goes through the real codec and must
// come out as the same answer built from logical keys ----
type synthStep struct {
	t    tikvrpc.CmdType
	note string
	req  func() interface{}
	resp func(key, rkey func(string) []byte) interface{}
}

func synthScenario() []synthStep {
	lock := func(key func(string) []byte, k, p string) *kvrpcpb.LockInfo {
		return &kvrpcpb.LockInfo{Key: key(k), PrimaryLock: key(p), LockVersion: 7, Secondaries: [][]byte{key(k + "2")}}
	}
	rerr := func(key, rkey func(string) []byte) *errorpb.Error {
		return &errorpb.Error{Message: "synth",
			KeyNotInRegion:        &errorpb.KeyNotInRegion{Key: key("q"), RegionId: 4, StartKey: rkey("c"), EndKey: rkey("k")},
			EpochNotMatch:         &errorpb.EpochNotMatch{CurrentRegions: []*metapb.Region{{Id: 4, StartKey: rkey("c"), EndKey: rkey("e")}, {Id: 5, StartKey: rkey("e"), EndKey: rkey("k")}}},
			BucketVersionNotMatch: &errorpb.BucketVersionNotMatch{Version: 9, Keys: [][]byte{rkey("c"), rkey("d"), rkey("f"), rkey("k")}}}
	}
	kr := func(a, z string) *coprocessor.KeyRange { return &coprocessor.KeyRange{Start: b(a), End: b(z)} }
	return []synthStep{
		{tikvrpc.CmdGet, "region error with bucket keys (F17.6)", func() interface{} { return &kvrpcpb.GetRequest{Key: b("d"), Version: 300} },
			func(key, rkey func(string) []byte) interface{} {
				return &kvrpcpb.GetResponse{RegionError: rerr(key, rkey)}
			}},
		{tikvrpc.CmdSplitRegion, "split region key errors (F17.9)", func() interface{} { return &kvrpcpb.SplitRegionRequest{SplitKeys: [][]byte{b("dd")}} },
			func(key, rkey func(string) []byte) interface{} {
				return &kvrpcpb.SplitRegionResponse{Errors: []*kvrpcpb.KeyError{{Locked: lock(key, "dd", "d")}, {Conflict: &kvrpcpb.WriteConflict{Key: key("dd"), Primary: key("d"), StartTs: 1, ConflictTs: 2}}}}
			}},
		{tikvrpc.CmdGetHealthFeedback, "health feedback region error (F17.7) + context (F17.10)", func() interface{} { return &kvrpcpb.GetHealthFeedbackRequest{} },
			func(key, rkey func(string) []byte) interface{} {
				return &kvrpcpb.GetHealthFeedbackResponse{RegionError: rerr(key, rkey)}
			}},
		{tikvrpc.CmdBroadcastTxnStatus, "broadcast txn status context (F17.11)", func() interface{} {
			return &kvrpcpb.BroadcastTxnStatusRequest{TxnStatus: []*kvrpcpb.TxnStatus{{StartTs: 10, CommitTs: 40}}}
		}, func(key, rkey func(string) []byte) interface{} { return &kvrpcpb.BroadcastTxnStatusResponse{} }},
		{tikvrpc.CmdCop, "coprocessor shard / versioned ranges (F17.1-3) and store-batch answers (F17.4)", func() interface{} {
			return &coprocessor.Request{Ranges: []*coprocessor.KeyRange{kr("d", "e")},
				TableShardInfos: []*coprocessor.TableShardInfos{{ExecutorId: "x", ShardInfos: []*coprocessor.ShardInfo{{ShardId: 1, Ranges: []*coprocessor.KeyRange{kr("d", "dz"), kr("e", "")}}}}},
				VersionedRanges: []*coprocessor.VersionedKeyRange{{Range: kr("d1", "d2"), ReadTs: 5}},
				Tasks:           []*coprocessor.StoreBatchTask{{RegionId: 4, Ranges: []*coprocessor.KeyRange{kr("f", "g")}, VersionedRanges: []*coprocessor.VersionedKeyRange{{Range: kr("f1", "f2"), ReadTs: 5}}}}}
		}, func(key, rkey func(string) []byte) interface{} {
			return &coprocessor.Response{Range: &coprocessor.KeyRange{Start: key("d"), End: key("e")}, Locked: lock(key, "d", "d0"),
				BatchResponses: []*coprocessor.StoreBatchTaskResponse{{TaskId: 1, Locked: lock(key, "f", "f0")}, {TaskId: 2, RegionError: rerr(key, rkey)}}}
		}},
		{tikvrpc.CmdMPPTask, "mpp shard ranges (F17.1) and retry regions (F17.8)", func() interface{} {
			return &mpp.DispatchTaskRequest{Meta: &mpp.TaskMeta{TaskId: 1}, Regions: []*coprocessor.RegionInfo{{RegionId: 4, Ranges: []*coprocessor.KeyRange{kr("d", "e")}}},
				TableShardInfos: []*coprocessor.TableShardInfos{{ShardInfos: []*coprocessor.ShardInfo{{Ranges: []*coprocessor.KeyRange{kr("d", "e")}}}}}}
		}, func(key, rkey func(string) []byte) interface{} {
			return &mpp.DispatchTaskResponse{RetryRegions: []*metapb.Region{{Id: 4, StartKey: rkey("c"), EndKey: rkey("k")}, {Id: 6}}}
		}},
		{tikvrpc.CmdLockWaitInfo, "lock wait entries", func() interface{} { return &kvrpcpb.GetLockWaitInfoRequest{} },
			func(key, rkey func(string) []byte) interface{} {
				return &kvrpcpb.GetLockWaitInfoResponse{Entries: []*deadlock.WaitForEntry{{Txn: 1, WaitForTxn: 2, Key: key("d")}}}
			}},
		{tikvrpc.CmdCheckSecondaryLocks, "check secondary locks", func() interface{} {
			return &kvrpcpb.CheckSecondaryLocksRequest{Keys: [][]byte{b("d"), b("dd")}, StartVersion: 10}
		},
			func(key, rkey func(string) []byte) interface{} {
				return &kvrpcpb.CheckSecondaryLocksResponse{Locks: []*kvrpcpb.LockInfo{lock(key, "d", "d0")}}
			}},
		{tikvrpc.CmdPessimisticLock, "deadlock report", func() interface{} {
			return &kvrpcpb.PessimisticLockRequest{Mutations: []*kvrpcpb.Mutation{{Op: kvrpcpb.Op_PessimisticLock, Key: b("d")}}, PrimaryLock: b("d"), StartVersion: 400, ForUpdateTs: 400}
		}, func(key, rkey func(string) []byte) interface{} {
			return &kvrpcpb.PessimisticLockResponse{Errors: []*kvrpcpb.KeyError{{Deadlock: &kvrpcpb.Deadlock{LockTs: 1, LockKey: key("d"), DeadlockKey: key("dd"), WaitChain: []*deadlock.WaitForEntry{{Txn: 1, Key: key("d")}}}}}}
		}},
	}
}

func runSynth(v2 *respEnv) {
	k := v2.codec
	wireKey := func(s string) []byte { return cat(k.pfx, s) }
	wireRKey := func(s string) []byte { return memEnc(cat(k.pfx, s)) }
	ident := func(s string) []byte { return []byte(s) }
	for i, st := range synthScenario() {
		v2.tap.inject = st.resp(wireKey, wireRKey)
		got := v2.send(st.t, st.req(), b("d"))
		want := proto.CompactTextString(st.resp(ident, ident).(proto.Message))
		eline("resp_synth", got == want, fmt.Sprint(i), cmdName(st.t), st.note, "decoded="+got, "logical="+want)
	}
	eline("resp_synth_context", len(v2.tap.ctxBad) == 0, strings.Join(v2.tap.ctxBad, ","))
}

func runRespE2E(seed int64) {
	idA, idB := uint32(0x0001FF), uint32(0x000200)
	txnA, txnB := getCodec("x", idA), getCodec("x", idB)
	rawA, rawB := getCodec("r", idA), getCodec("r", idB)
	// same number of regions on both clusters, so region ids / epochs agree
	ref := newMock(b("c"), b("k"))
	shared := newMock(cat(txnA.pfx, "c"), cat(txnA.pfx, "k"))
	v1 := newRespEnv("v1", ref, apicodec.ModeTxn, nil)
	v2 := newRespEnv("v2A", shared, apicodec.ModeTxn, txnA)
	other := newRespEnv("v2B", shared, apicodec.ModeTxn, txnB)
	steps := respScenario()
	for i, st := range steps {
		// keyspace B is busy on the same store with the same logical keys at neighbouring timestamps
		if i%3 == 0 {
			other.send(tikvrpc.CmdPrewrite, &kvrpcpb.PrewriteRequest{Mutations: []*kvrpcpb.Mutation{{Op: kvrpcpb.Op_Put, Key: b("a"), Value: b("B")}, {Op: kvrpcpb.Op_Put, Key: b("b"), Value: b("B")}}, PrimaryLock: b("a"), StartVersion: uint64(1000 + i), LockTtl: 3000}, b("a"))
		}
		w, g := v1.send(st.t, st.msg(), st.route, st.stale), v2.send(st.t, st.msg(), st.route, st.stale)
		eline("resp_transparent", w == g, fmt.Sprint(i), cmdName(st.t), st.note, "v2="+g, "v1="+w)
	}
	// raw mode: reference and shared single-region (see e2e.go on the mock's raw handlers)
	refR, sharedR := newMock(), shared
	r1 := newRespEnv("rawv1", refR, apicodec.ModeRaw, nil)
	r2 := newRespEnv("rawv2A", sharedR, apicodec.ModeRaw, rawA)
	rB := newRespEnv("rawv2B", sharedR, apicodec.ModeRaw, rawB)
	for i, st := range rawRespScenario() {
		if i%2 == 0 {
			rB.send(tikvrpc.CmdRawPut, &kvrpcpb.RawPutRequest{Key: b("a"), Value: b("B")}, b("a"))
		}
		w, g := r1.send(st.t, st.msg(), st.route), r2.send(st.t, st.msg(), st.route)
		eline("resp_transparent_raw", w == g, fmt.Sprint(i), cmdName(st.t), st.note, "v2="+g, "v1="+w)
	}
	runSynth(v2)
	bad := append(append([]string{}, v2.wireBad...), r2.wireBad...)
	eline("resp_wire_prefix", len(bad) == 0, strings.Join(bad, "; "))
	var seen []string
	for _, e := range []*respEnv{v2, r2} {
		for k := range e.seen {
			seen = append(seen, k)
		}
	}
	sort.Strings(seen)
	for _, s := range seen {
		fmt.Fprintf(out, "R\t%s\n", s)
	}
}
