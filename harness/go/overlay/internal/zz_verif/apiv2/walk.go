//go:build verif

package main

import (
	"fmt"
	"reflect"
	"strings"
)

var (
	tBytes  = reflect.TypeOf([]byte(nil))
	tBytes2 = reflect.TypeOf([][]byte(nil))
)

// leaf = one []byte-typed location inside a message
type leaf struct {
	Path   string // e.g. Mutations[0].Key
	Field  string // last field name
	Owner  string // owning struct type, e.g. kvrpcpb.Mutation
	Chain  string // '/'-joined type chain from the root message
	V      reflect.Value
	IsElem bool
}

const maxDepth = 7

// walkFill allocates every pointer / slice-of-message field (one element per repeated message field,
// two elements per [][]byte) and calls visit on every []byte location (it may Set it).
// Recursive message types (LockInfo.SharedLockInfos) are unfolded `recLimit` times.
func walkFill(v reflect.Value, path, chain string, seen map[reflect.Type]int, visit func(l *leaf), skip func(t reflect.Type, field reflect.StructField) bool) {
	t := v.Type()
	if seen[t] >= 2 || strings.Count(chain, "/") > maxDepth {
		return
	}
	seen[t]++
	defer func() { seen[t]-- }()
	for i := 0; i < t.NumField(); i++ {
		f := t.Field(i)
		if strings.HasPrefix(f.Name, "XXX_") || f.PkgPath != "" {
			continue
		}
		if skip != nil && skip(t, f) {
			continue
		}
		fv := v.Field(i)
		p := f.Name
		if path != "" {
			p = path + "." + f.Name
		}
		own := t.String()
		switch {
		case f.Type.Kind() == reflect.Slice && f.Type.Elem().Kind() == reflect.Uint8:
			visit(&leaf{Path: p, Field: f.Name, Owner: own, Chain: chain, V: fv})
		case f.Type == tBytes2:
			if fv.Len() == 0 {
				fv.Set(reflect.MakeSlice(tBytes2, 2, 2))
			}
			for j := 0; j < fv.Len(); j++ {
				visit(&leaf{Path: fmt.Sprintf("%s[%d]", p, j), Field: f.Name, Owner: own, Chain: chain, V: fv.Index(j), IsElem: true})
			}
		case f.Type.Kind() == reflect.Ptr && f.Type.Elem().Kind() == reflect.Struct:
			if fv.IsNil() {
				if seen[f.Type.Elem()] >= 2 {
					continue
				}
				fv.Set(reflect.New(f.Type.Elem()))
			}
			walkFill(fv.Elem(), p, chain+"/"+f.Type.Elem().String(), seen, visit, skip)
		case f.Type.Kind() == reflect.Slice && f.Type.Elem().Kind() == reflect.Ptr && f.Type.Elem().Elem().Kind() == reflect.Struct:
			et := f.Type.Elem().Elem()
			if fv.Len() == 0 {
				if seen[et] >= 2 {
					continue
				}
				s := reflect.MakeSlice(f.Type, 1, 1)
				s.Index(0).Set(reflect.New(et))
				fv.Set(s)
			}
			for j := 0; j < fv.Len(); j++ {
				if fv.Index(j).IsNil() {
					continue
				}
				walkFill(fv.Index(j).Elem(), fmt.Sprintf("%s[%d]", p, j), chain+"/"+et.String(), seen, visit, skip)
			}
		case f.Type.Kind() == reflect.Struct:
			walkFill(fv, p, chain+"/"+f.Type.String(), seen, visit, skip)
		}
	}
}

func dumpLeaves() {
	for _, ci := range discover() {
		for side, rt := range []reflect.Type{ci.ReqType, ci.RespType} {
			if rt == nil {
				continue
			}
			m := reflect.New(rt.Elem())
			walkFill(m.Elem(), "", rt.Elem().String(), map[reflect.Type]int{}, func(l *leaf) {
				fmt.Printf("LEAF\t%s\t%s\t%s\t%s\t%s\n", ci.Name, []string{"req", "resp"}[side], l.Path, l.Owner, l.Chain)
			}, nil)
		}
	}
}
