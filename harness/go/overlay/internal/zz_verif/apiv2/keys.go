//go:build verif

package main

import (
	"bufio"
	"bytes"
	"encoding/binary"
	"encoding/hex"
	"fmt"
	"math/rand"
	"os"
	"runtime/debug"
	"sort"
	"strconv"
	"strings"

	"github.com/pingcap/kvproto/pkg/errorpb"
	"github.com/pingcap/kvproto/pkg/kvrpcpb"
	"github.com/pingcap/kvproto/pkg/metapb"
	"github.com/tikv/client-go/v2/internal/apicodec"
	"github.com/tikv/client-go/v2/tikvrpc"
	"github.com/tikv/client-go/v2/util/codec"
)

var out *bufio.Writer

func hx(b []byte) string {
	if len(b) == 0 {
		return "-"
	}
	return hex.EncodeToString(b)
}
func unhx(s string) []byte {
	if s == "-" {
		return nil
	}
	b, err := hex.DecodeString(s)
	if err != nil {
		panic(err)
	}
	return b
}

type kcodec struct {
	mode string // "r" | "x"
	id   uint32
	c    apicodec.Codec
	pfx  []byte
	end  []byte
}

var codecCache = map[string]*kcodec{}

func getCodec(mode string, id uint32) *kcodec {
	key := fmt.Sprintf("%s%d", mode, id)
	if c, ok := codecCache[key]; ok {
		return c
	}
	m := apicodec.Mode(apicodec.ModeRaw)
	if mode == "x" {
		m = apicodec.ModeTxn
	}
	c := mustCodec(m, id)
	k := &kcodec{mode: mode, id: id, c: c, pfx: append([]byte{}, c.GetKeyspace()...)}
	// the end key as the code computed it: observable through EncodeRange(_, "")
	_, e := c.EncodeRange(nil, nil)
	k.end = append([]byte{}, e...)
	codecCache[key] = k
	return k
}

func isOOB(err error) bool {
	return err != nil && strings.Contains(err.Error(), "does not belong to the keyspace")
}

var lastPanic string

func safe(f func() string) (res string) {
	defer func() {
		if r := recover(); r != nil {
			res = "panic"
			lastPanic = fmt.Sprint(r)
			if os.Getenv("VERIF_DEBUG") != "" {
				fmt.Fprintf(os.Stderr, "PANIC %v\n%s\n", r, debug.Stack())
			}
		}
	}()
	return f()
}

func cp(b []byte) []byte { return append([]byte{}, b...) }

// run one pure-function case on the implementation; canonical result string
func runKeyOp(op string, k *kcodec, a []string) string {
	return safe(func() string {
		switch op {
		case "pfx":
			return hx(k.pfx) + " " + hx(k.end)
		case "ek":
			return hx(k.c.EncodeKey(unhx(a[0])))
		case "dk":
			r, err := k.c.DecodeKey(cp(unhx(a[0])))
			if err != nil {
				if isOOB(err) {
					return "oob"
				}
				return "err"
			}
			return "ok " + hx(r)
		case "er":
			var s, e []byte
			if a[0] == "1" {
				s, e = verifEncodeRangeRev(k.c, unhx(a[1]), unhx(a[2]))
			} else {
				s, e = k.c.EncodeRange(unhx(a[1]), unhx(a[2]))
			}
			return hx(s) + " " + hx(e)
		case "dr", "drr":
			var s, e []byte
			var err error
			if op == "dr" {
				s, e, err = k.c.DecodeRange(cp(unhx(a[0])), cp(unhx(a[1])))
			} else {
				s, e, err = k.c.DecodeRegionRange(cp(unhx(a[0])), cp(unhx(a[1])))
			}
			if err != nil {
				if isOOB(err) {
					return "oob"
				}
				if apicodec.IsDecodeError(err) {
					return "decerr"
				}
				return "err"
			}
			return "ok " + hx(s) + " " + hx(e)
		case "erk":
			return hx(k.c.EncodeRegionKey(unhx(a[0])))
		case "drk":
			r, err := k.c.DecodeRegionKey(cp(unhx(a[0])))
			if err != nil {
				if isOOB(err) {
					return "oob"
				}
				if apicodec.IsDecodeError(err) {
					return "decerr"
				}
				return "err"
			}
			return "ok " + hx(r)
		case "err":
			s, e := k.c.EncodeRegionRange(unhx(a[0]), unhx(a[1]))
			return hx(s) + " " + hx(e)
		case "dbk":
			var in [][]byte
			if a[0] != "" {
				for _, h := range strings.Split(a[0], ",") {
					in = append(in, cp(unhx(h)))
				}
			}
			r, err := k.c.DecodeBucketKeys(in)
			if err != nil {
				if apicodec.IsDecodeError(err) {
					return "decerr"
				}
				return "err"
			}
			return "ok " + hxList(r)
		case "fdk":
			pfx, rest, err := apicodec.DecodeKey(cp(unhx(a[0])), kvrpcpb.APIVersion_V2)
			if err != nil {
				return "err"
			}
			return "ok " + hx(pfx) + " " + hx(rest)
		case "dre":
			re := &errorpb.Error{Message: "verif"}
			if a[0] != "~" {
				p := strings.Split(a[0], ":")
				re.KeyNotInRegion = &errorpb.KeyNotInRegion{Key: cp(unhx(p[0])), StartKey: cp(unhx(p[1])), EndKey: cp(unhx(p[2]))}
			}
			if a[1] != "~" {
				re.EpochNotMatch = &errorpb.EpochNotMatch{}
				if a[1] != "()" {
					for _, r := range strings.Split(a[1], ",") {
						p := strings.Split(r, ":")
						re.EpochNotMatch.CurrentRegions = append(re.EpochNotMatch.CurrentRegions, &metapb.Region{StartKey: cp(unhx(p[0])), EndKey: cp(unhx(p[1]))})
					}
				}
			}
			if a[2] != "~" {
				re.BucketVersionNotMatch = &errorpb.BucketVersionNotMatch{}
				if a[2] != "()" {
					for _, b := range strings.Split(a[2], ",") {
						re.BucketVersionNotMatch.Keys = append(re.BucketVersionNotMatch.Keys, cp(unhx(b)))
					}
				}
			}
			enc, err := k.c.EncodeRequest(tikvrpc.NewRequest(tikvrpc.CmdGet, &kvrpcpb.GetRequest{Key: []byte("k")}))
			if err != nil {
				return "encode-error"
			}
			resp, err := k.c.DecodeResponse(enc, &tikvrpc.Response{Resp: &kvrpcpb.GetResponse{RegionError: re}})
			if err != nil {
				return "err"
			}
			out := resp.Resp.(*kvrpcpb.GetResponse).RegionError
			kn, ep, bv := "~", "~", "~"
			if x := out.KeyNotInRegion; x != nil {
				kn = hx(x.Key) + ":" + hx(x.StartKey) + ":" + hx(x.EndKey)
			}
			if x := out.EpochNotMatch; x != nil {
				var ps []string
				for _, r := range x.CurrentRegions {
					ps = append(ps, hx(r.StartKey)+":"+hx(r.EndKey))
				}
				ep = "()"
				if len(ps) > 0 {
					ep = strings.Join(ps, ",")
				}
			}
			if x := out.BucketVersionNotMatch; x != nil {
				bv = "()"
				if len(x.Keys) > 0 {
					bv = hxList(x.Keys)
				}
			}
			return "ok " + kn + " " + ep + " " + bv
		case "pki":
			id, err := apicodec.ParseKeyspaceID(cp(unhx(a[0])))
			if err != nil {
				return "err"
			}
			return fmt.Sprintf("ok %x", uint32(id))
		}
		return "unknown-op"
	})
}

func hxList(l [][]byte) string {
	var p []string
	for _, b := range l {
		p = append(p, hx(b))
	}
	return strings.Join(p, ",")
}

func emit(op string, k *kcodec, a ...string) string {
	res := runKeyOp(op, k, a)
	fmt.Fprintf(out, "%s\t%s\t%x\t%s\t=>\t%s\n", op, k.mode, k.id, strings.Join(a, "\t"), res)
	return res
}

func prop(name string, pass bool, class string, a ...string) {
	v := "pass"
	if !pass {
		v = "fail"
	}
	fmt.Fprintf(out, "P\t%s\t%s\t%s\t%s\n", name, strings.Join(a, "\t"), class, v)
}

func inRange(s, e, k []byte) bool {
	return bytes.Compare(s, k) <= 0 && (len(e) == 0 || bytes.Compare(k, e) < 0)
}
func sign(x int) int {
	if x < 0 {
		return -1
	}
	if x > 0 {
		return 1
	}
	return 0
}

func be32(v uint32) []byte { b := make([]byte, 4); binary.BigEndian.PutUint32(b, v); return b }

// logical keys: exhaustive strings over a boundary alphabet + random
func logicalKeys(rng *rand.Rand, maxLen, nrand int) [][]byte {
	alpha := []byte{0x00, 0x01, 0x7f, 0xff}
	var res [][]byte
	var gen func(cur []byte, n int)
	gen = func(cur []byte, n int) {
		res = append(res, cp(cur))
		if n == 0 {
			return
		}
		for _, a := range alpha {
			gen(append(cur, a), n-1)
		}
	}
	gen(nil, maxLen)
	for i := 0; i < nrand; i++ {
		l := rng.Intn(12)
		b := make([]byte, l)
		rng.Read(b)
		res = append(res, b)
	}
	return res
}

// physical strings around the keyspace bounds: prefixes of prefix/endKey (the short ones matter when the
// id ends in FF), neighbours +-1 as 32-bit numbers, other mode, extensions
func physicalKeys(k *kcodec, rng *rand.Rand, lk [][]byte) [][]byte {
	var res [][]byte
	seen := map[string]bool{}
	add := func(b []byte) {
		if !seen[string(b)] {
			seen[string(b)] = true
			res = append(res, cp(b))
		}
	}
	add(nil)
	v := binary.BigEndian.Uint32(k.pfx)
	bases := [][]byte{k.pfx, k.end, be32(v - 1), be32(v + 2), be32(v - 256), be32(v + 256)}
	other := cp(k.pfx)
	if other[0] == 'r' {
		other[0] = 'x'
	} else {
		other[0] = 'r'
	}
	bases = append(bases, other, []byte{'q', 0xff, 0xff, 0xff}, []byte{'y', 0, 0, 0}, []byte{'s', 0, 0, 0})
	for _, b := range bases {
		for n := 0; n <= len(b); n++ {
			add(b[:n])
		}
		for _, ext := range [][]byte{{0}, {0xff}, {0, 5}, {1}, {0x7f, 0x7f}} {
			add(append(cp(b), ext...))
		}
		for i := 0; i < 3; i++ {
			add(append(cp(b), lk[rng.Intn(len(lk))]...))
		}
	}
	for i := 0; i < 6; i++ {
		l := rng.Intn(7)
		b := make([]byte, l)
		rng.Read(b)
		add(b)
	}
	return res
}

func memEnc(b []byte) []byte {
	if len(b) == 0 {
		return nil
	}
	return codec.EncodeBytes(nil, b)
}

// the specification of region clipping, written independently of DecodeRange:
// the region [s, e) (e empty = unbounded) meets the keyspace iff not (e != "" && e <= prefix) and
// not (s above every key of the keyspace, i.e. s lacks the prefix and s > prefix)
func clipSpec(k *kcodec, s, e []byte) string {
	hasS, hasE := bytes.HasPrefix(s, k.pfx), bytes.HasPrefix(e, k.pfx)
	if (len(e) > 0 && bytes.Compare(e, k.pfx) <= 0) || (!hasS && bytes.Compare(s, k.pfx) > 0) {
		return "oob"
	}
	var ls, le []byte
	if hasS {
		ls = s[4:]
	}
	if hasE {
		le = e[4:]
	}
	return "ok " + hx(ls) + " " + hx(le)
}
func clipClass(k *kcodec, s []byte) string {
	if !bytes.HasPrefix(s, k.pfx) && bytes.Compare(s, k.pfx) > 0 && bytes.Compare(s, k.end) < 0 {
		return "short_start" // input class repaired by f1823af; kept as a directed generator class
	}
	return "-"
}

func genKeys(seed int64, tier string) {
	rng := rand.New(rand.NewSource(seed))
	ids := []uint32{0, 1, 2, 255, 256, 0xFFFF, 0x10000, 0x1FFFF, 0xFFFFFE, 0xFFFFFF}
	nrandIDs, maxLen, nrand := 3, 2, 20
	if tier == "thorough" {
		nrandIDs, maxLen, nrand = 24, 3, 120
	}
	for i := 0; i < nrandIDs; i++ {
		id := uint32(rng.Intn(1 << 24))
		if i%2 == 0 {
			id |= 0xFF // carry classes
		}
		if i%4 == 0 {
			id |= 0xFFFF
		}
		ids = append(ids, id)
	}
	lk := logicalKeys(rng, maxLen, nrand)
	var all []*kcodec
	for _, m := range []string{"r", "x"} {
		for _, id := range ids {
			all = append(all, getCodec(m, id))
		}
	}
	for ci, k := range all {
		emit("pfx", k)
		// keys
		for _, key := range lk {
			enc := emit("ek", k, hx(key))
			emit("dk", k, enc)
			emit("erk", k, hx(key))
			emit("drk", k, hx(k.c.EncodeRegionKey(key)))
			d, err := k.c.DecodeKey(k.c.EncodeKey(key))
			prop("roundtrip", err == nil && bytes.Equal(d, key), "-", k.mode, fmt.Sprintf("%x", k.id), hx(key))
		}
		phys := physicalKeys(k, rng, lk)
		for _, p := range phys {
			emit("dk", k, hx(p))
			emit("drk", k, hx(memEnc(p)))
			// isolation oracle: DecodeKey accepts exactly the strings carrying the prefix (and the empty key)
			_, err := k.c.DecodeKey(cp(p))
			want := len(p) == 0 || bytes.HasPrefix(p, k.pfx)
			prop("decode_exact", (err == nil) == want, "-", k.mode, fmt.Sprintf("%x", k.id), hx(p))
		}
		// malformed memcomparable region keys
		for i := 0; i < 12; i++ {
			good := memEnc(append(cp(k.pfx), lk[rng.Intn(len(lk))]...))
			bad := cp(good)
			switch i % 4 {
			case 0:
				bad = bad[:len(bad)-1-rng.Intn(3)]
			case 1:
				bad[len(bad)-1] = byte(rng.Intn(0xf7))
			case 2:
				bad[rng.Intn(len(bad))] ^= byte(1 + rng.Intn(255))
			case 3:
				bad = append(bad, byte(rng.Intn(256)))
			}
			emit("drk", k, hx(bad))
			emit("drr", k, hx(bad), hx(good))
			emit("drr", k, hx(good), hx(bad))
		}
		// ranges: order oracle on the implementation
		nr := 60
		if tier == "thorough" {
			nr = 400
		}
		for i := 0; i < nr; i++ {
			s, e, key := lk[rng.Intn(len(lk))], lk[rng.Intn(len(lk))], lk[rng.Intn(len(lk))]
			if i%5 == 0 {
				e = nil
			}
			if i%7 == 0 {
				s = nil
			}
			for _, rev := range []string{"0", "1"} {
				emit("er", k, rev, hx(s), hx(e))
				var ps, pe []byte
				var holds bool
				if rev == "1" {
					ps, pe = verifEncodeRangeRev(k.c, s, e)
					// reverse: request start = exclusive upper bound, request end = lower bound
					holds = inRange(e, s, key) == inRange(pe, ps, k.c.EncodeKey(key)) && len(ps) > 0
				} else {
					ps, pe = k.c.EncodeRange(s, e)
					holds = inRange(s, e, key) == inRange(ps, pe, k.c.EncodeKey(key)) && len(pe) > 0
				}
				prop("order_range", holds, "-", k.mode, fmt.Sprintf("%x", k.id), rev, hx(s), hx(e), hx(key))
			}
			a, b := lk[rng.Intn(len(lk))], lk[rng.Intn(len(lk))]
			prop("order_cmp", sign(bytes.Compare(k.c.EncodeKey(a), k.c.EncodeKey(b))) == sign(bytes.Compare(a, b)) &&
				sign(bytes.Compare(k.c.EncodeRegionKey(a), k.c.EncodeRegionKey(b))) == sign(bytes.Compare(a, b)),
				"-", k.mode, fmt.Sprintf("%x", k.id), hx(a), hx(b))
			emit("err", k, hx(s), hx(e))
			es, ee := k.c.EncodeRegionRange(s, e)
			emit("drr", k, hx(es), hx(ee))
			ds, de, err := k.c.DecodeRegionRange(es, ee)
			prop("region_roundtrip", err == nil && bytes.Equal(ds, s) && bytes.Equal(de, e), "-", k.mode, fmt.Sprintf("%x", k.id), hx(s), hx(e))
		}
		// region clipping: all pairs of boundary strings (s < e or e empty)
		for _, s := range phys {
			for _, e := range phys {
				if len(e) > 0 && bytes.Compare(s, e) >= 0 {
					continue
				}
				if len(phys) > 60 && rng.Intn(4) != 0 && len(e) > 0 {
					continue
				}
				got := emit("dr", k, hx(s), hx(e))
				got2 := emit("drr", k, hx(memEnc(s)), hx(memEnc(e)))
				want := clipSpec(k, s, e)
				prop("region_clip", got == want && got2 == want, clipClass(k, s), k.mode, fmt.Sprintf("%x", k.id), hx(s), hx(e), "got="+got, "want="+want)
			}
		}
		// region errors through DecodeResponse: KeyNotInRegion / EpochNotMatch / BucketVersionNotMatch built from the
		// boundary strings (sorted chains; foreign, short and malformed bounds included); and the free DecodeKey
		nre := 40
		if tier == "thorough" {
			nre = 300
		}
		srt := append([][]byte{}, phys...)
		sort.Slice(srt, func(i, j int) bool { return bytes.Compare(srt[i], srt[j]) < 0 })
		chain := func(n int) [][]byte {
			var c [][]byte
			for j := rng.Intn(len(srt)); j < len(srt) && len(c) < n; j += 1 + rng.Intn(5) {
				c = append(c, srt[j])
			}
			return c
		}
		mal := func(b []byte) []byte {
			e := memEnc(b)
			if len(e) > 0 && rng.Intn(12) == 0 {
				e = e[:len(e)-1]
			}
			return e
		}
		for i := 0; i < nre; i++ {
			kn, ep, bv := "~", "~", "~"
			if rng.Intn(3) > 0 {
				c := chain(2)
				if rng.Intn(2) == 0 {
					// a region overlapping the keyspace with the key inside
					c = [][]byte{cat(k.pfx, string(lk[rng.Intn(len(lk))])), cp(k.end)}
					if rng.Intn(2) == 0 {
						c[1] = nil
					}
				}
				if len(c) == 2 {
					key := append(cp(c[0]), byte(rng.Intn(3)))
					if rng.Intn(4) == 0 {
						key = phys[rng.Intn(len(phys))]
					}
					kn = hx(key) + ":" + hx(mal(c[0])) + ":" + hx(mal(c[1]))
				}
			}
			if rng.Intn(3) > 0 {
				c := chain(2 + rng.Intn(5))
				var ps []string
				for j := 0; j+1 < len(c); j++ {
					ps = append(ps, hx(mal(c[j]))+":"+hx(mal(c[j+1])))
				}
				if rng.Intn(3) == 0 && len(c) > 0 {
					ps = append(ps, hx(mal(c[len(c)-1]))+":-")
				}
				ep = "()"
				if len(ps) > 0 {
					ep = strings.Join(ps, ",")
				}
			}
			if rng.Intn(3) == 0 {
				c := chain(2 + rng.Intn(4))
				var ps []string
				for _, b := range c {
					ps = append(ps, hx(mal(b)))
				}
				if len(ps) > 0 {
					bv = strings.Join(ps, ",")
				}
			}
			emit("dre", k, kn, ep, bv)
		}
		for _, p := range phys {
			emit("fdk", k, hx(p))
		}
		// ParseKeyspaceID: every image parses to the id; arbitrary strings parse iff >= 4 bytes starting with r / x
		for i := 0; i < 8; i++ {
			key := lk[rng.Intn(len(lk))]
			emit("pki", k, hx(k.c.EncodeKey(key)))
			id, err := apicodec.ParseKeyspaceID(k.c.EncodeKey(key))
			prop("parse_id", err == nil && uint32(id) == k.id, "-", k.mode, fmt.Sprintf("%x", k.id), hx(key))
		}
		for _, p := range phys {
			emit("pki", k, hx(p))
			_, err := apicodec.ParseKeyspaceID(cp(p))
			prop("parse_exact", (err == nil) == (len(p) >= 4 && (p[0] == 'r' || p[0] == 'x')), "-", k.mode, fmt.Sprintf("%x", k.id), hx(p))
		}
		// bucket keys: sorted sub-lists of the boundary strings, as memcomparable keys (first / last may be empty)
		nb := 40
		if tier == "thorough" {
			nb = 300
		}
		sorted := append([][]byte{}, phys...)
		sort.Slice(sorted, func(i, j int) bool { return bytes.Compare(sorted[i], sorted[j]) < 0 })
		for i := 0; i < nb; i++ {
			var bl [][]byte
			n := 2 + rng.Intn(6)
			start := rng.Intn(len(sorted))
			for j := start; j < len(sorted) && len(bl) < n; j += 1 + rng.Intn(4) {
				if len(sorted[j]) == 0 && len(bl) > 0 {
					continue
				}
				bl = append(bl, sorted[j])
			}
			if len(bl) < 2 {
				continue
			}
			if rng.Intn(4) == 0 {
				bl[len(bl)-1] = nil // unbounded region end
			}
			var enc []string
			var encb [][]byte
			for _, b := range bl {
				enc = append(enc, hx(memEnc(b)))
				encb = append(encb, memEnc(b))
			}
			emit("dbk", k, strings.Join(enc, ","))
			out, err := k.c.DecodeBucketKeys(encb)
			k0, kn := bl[0], bl[len(bl)-1]
			want := clipSpec(k, k0, kn)
			if err != nil || want == "oob" {
				continue // the region itself is refused by DecodeRegionRange before buckets are looked at
			}
			// members: the non-empty results are exactly the stripped boundaries carrying the prefix
			var wantMid []string
			for _, b := range bl {
				if bytes.HasPrefix(b, k.pfx) && len(b) > 4 {
					wantMid = append(wantMid, hx(b[4:]))
				}
			}
			var gotMid []string
			for _, o := range out {
				if len(o) > 0 {
					gotMid = append(gotMid, hx(o))
				}
			}
			prop("bucket_members", strings.Join(gotMid, ",") == strings.Join(wantMid, ","), "-", k.mode, fmt.Sprintf("%x", k.id), strings.Join(enc, ","))
			// ends: first = decoded region start, last = decoded region end (incl. a short region end above the
			// keyspace and below endKey: the unbounded end since bbcfa45)
			if len(out) > 0 {
				ends := "ok " + hx(out[0]) + " " + hx(out[len(out)-1])
				prop("bucket_ends", ends == want, "-", k.mode, fmt.Sprintf("%x", k.id), strings.Join(enc, ","), "got="+ends, "want="+want)
			}
		}
		// directed regression (F34): buckets [..a, ..m, <every proper prefix of endKey above the prefix>]
		for n := 1; n < 4; n++ {
			kn := k.end[:n]
			if bytes.Compare(kn, k.pfx) <= 0 {
				continue
			}
			bl := [][]byte{cat(k.pfx, "a"), cat(k.pfx, "m"), kn}
			var enc []string
			var encb [][]byte
			for _, bb := range bl {
				enc = append(enc, hx(memEnc(bb)))
				encb = append(encb, memEnc(bb))
			}
			emit("dbk", k, strings.Join(enc, ","))
			o, err := k.c.DecodeBucketKeys(encb)
			prop("bucket_short_end", err == nil && hxList(o) == "61,6d,-", "short_region_end", k.mode, fmt.Sprintf("%x", k.id), strings.Join(enc, ","), "got="+hxList(o), "want=61,6d,-")
		}
		// isolation against the other codecs: foreign keys are rejected and lie in no range of k
		for j := 0; j < 6; j++ {
			o := all[(ci+1+rng.Intn(len(all)-1))%len(all)]
			if o == k {
				continue
			}
			key := lk[rng.Intn(len(lk))]
			fk := o.c.EncodeKey(key)
			_, err := k.c.DecodeKey(cp(fk))
			s, e := lk[rng.Intn(len(lk))], lk[rng.Intn(len(lk))]
			if j%2 == 0 {
				e = nil
			}
			ps, pe := k.c.EncodeRange(s, e)
			rs, re := verifEncodeRangeRev(k.c, e, s)
			prop("isolation", isOOB(err) && !inRange(ps, pe, fk) && !inRange(re, rs, fk) && !bytes.Equal(fk, k.c.EncodeKey(key)),
				"-", k.mode, fmt.Sprintf("%x", k.id), o.mode, fmt.Sprintf("%x", o.id), hx(key), hx(s), hx(e))
		}
	}
}

func replayKeys(args []string) {
	// args: op mode idhex a...
	id, err := strconv.ParseUint(args[2], 16, 32)
	if err != nil {
		panic(err)
	}
	k := getCodec(args[1], uint32(id))
	emit(args[0], k, args[3:]...)
	if args[0] == "dbk" {
		replayBuckets(k, args[3])
	}
	if args[0] == "dr" {
		s, e := unhx(args[3]), unhx(args[4])
		got := runKeyOp("dr", k, args[3:])
		want := clipSpec(k, s, e)
		prop("region_clip", got == want, clipClass(k, s), k.mode, fmt.Sprintf("%x", k.id), hx(s), hx(e), "got="+got, "want="+want)
	}
}

// bucket list replay: the ends of the decoded list against the region-clipping specification
func replayBuckets(k *kcodec, list string) {
	var encb, raw [][]byte
	for _, h := range strings.Split(list, ",") {
		e := unhx(h)
		encb = append(encb, e)
		var r []byte
		if len(e) > 0 {
			_, d, err := codec.DecodeBytes(cp(e), nil)
			if err != nil {
				return
			}
			r = d
		}
		raw = append(raw, r)
	}
	o, err := k.c.DecodeBucketKeys(encb)
	want := clipSpec(k, raw[0], raw[len(raw)-1])
	if err != nil || want == "oob" || len(o) == 0 {
		return
	}
	ends := "ok " + hx(o[0]) + " " + hx(o[len(o)-1])
	prop("bucket_ends", ends == want, "-", k.mode, fmt.Sprintf("%x", k.id), list, "got="+ends, "want="+want)
}

func initOut() { out = bufio.NewWriterSize(os.Stdout, 1<<20) }
