//go:build verif

// Consumer tier of property C17: the caller contract that the C17 theorems ASSUME ("every Lock that returned is
// followed by exactly one UnLock, with SetCommitTS only after a successful commit") is checked on the real
// consumer, KVTxn.Commit, over mocktikv with store-local latches enabled (few slots, so that keys collide).
// Programs: 3-4 optimistic transactions with overlapping key sets, begin / commit orders producing stale verdicts
// at the first key, at a later key (the request already owns latches) and on wake-up (a commit blocked behind a
// latch held directly by the driver, released with a newer commit ts).
// After every action the process is brought to exact quiescence (runtime.Stack: run() parked in its receive,
// Commit callers parked in WaitGroup.Wait or finished, no recycle goroutine) and every slot is dumped through the
// add-only export of internal/latch. Two judgements:
//   - oracle caller_contract (on the implementation alone): every Commit returns (ok / write conflict in latch /
//     other error) unless a latch it needs is legitimately held by an in-flight holder, and when no transaction is
//     in flight NO latch has a holder and no waiting list is non-empty;
//   - tie to the model: the same lines as the script mode of the `latch` driver (CASE/NS/SF/TS/AUTO/G); modelrun
//     plays a contract-following client (Lock; UnLock as soon as Lock returned, commit ts only on success) and must
//     reproduce every dump.
package main

import (
	"bufio"
	"context"
	"errors"
	"fmt"
	"math/rand"
	"os"
	"runtime"
	"strconv"
	"strings"
	"sync/atomic"
	"time"

	tikverr "github.com/tikv/client-go/v2/error"
	"github.com/tikv/client-go/v2/internal/latch"
	"github.com/tikv/client-go/v2/testutils"
	"github.com/tikv/client-go/v2/tikv"
)

var out *bufio.Writer
var stackBuf = make([]byte, 16<<20)

// createdBy returns the "created by ..." line of a goroutine's stack
func createdBy(body string) string {
	i := strings.LastIndex(body, "created by ")
	if i < 0 {
		return ""
	}
	j := strings.IndexByte(body[i:], '\n')
	if j < 0 {
		return body[i:]
	}
	return body[i : i+j]
}

type gstate struct {
	runParked, runAlive     bool
	parked, busy, recyclers int
}

func goroutines() gstate {
	n := runtime.Stack(stackBuf, true)
	var g gstate
	for _, blk := range strings.Split(string(stackBuf[:n]), "\n\n") {
		nl := strings.IndexByte(blk, '\n')
		if nl < 0 {
			continue
		}
		head, body := blk[:nl], blk[nl:]
		switch {
		case strings.Contains(createdBy(body), "LatchesScheduler).run"):
			// spawned by run(): `go latches.recycle(ts)`, possibly not started yet (only the gowrap frame is visible)
			g.recyclers++
		case strings.Contains(createdBy(body), "latch.NewScheduler"):
			g.runAlive = true
			if strings.Contains(head, "[chan receive") {
				g.runParked = true
			}
		case strings.Contains(body, "created by main.(*prog)"):
			if strings.Contains(body, "WaitGroup).Wait") && strings.Contains(body, "LatchesScheduler).Lock") &&
				(strings.Contains(head, "[semacquire") || strings.Contains(head, "[sync.WaitGroup.Wait")) {
				g.parked++
			} else {
				g.busy++
			}
		}
	}
	return g
}

type ptxn struct {
	keys             []int
	txn              *tikv.KVTxn
	held             *latch.Lock // driver-held lock (direct client of the scheduler) instead of a KVTxn
	direct           bool
	pess             bool // pessimistic transaction: KVTxn.Commit must bypass the latches completely
	failed           bool // Commit returned an error other than the latch conflict
	warm             bool // the driver's warm-up transaction (not part of the program text)
	start            uint64
	status           byte // N, B (Commit / Lock in flight), K/S (direct lock returned), U
	done             atomic.Bool
	res              string
	retSeen, unlSeen bool // client actions already reported (CA lines)
	commit           uint64
}

type prog struct {
	id    string
	size  int
	store *tikv.KVStore
	sched *latch.LatchesScheduler
	lat   *latch.Latches
	txns  []*ptxn
	acts  []string
	nfail int
}

func kb(id int) []byte { return []byte{byte('a' + id)} }

func (p *prog) quiesce() string {
	deadline := time.Now().Add(60 * time.Second)
	for {
		g := goroutines()
		if g.runParked && g.busy == 0 && g.recyclers == 0 && p.sched.VPending() == 0 {
			g2 := goroutines()
			if g2 == g && p.sched.VPending() == 0 {
				return ""
			}
		}
		if time.Now().After(deadline) {
			return fmt.Sprintf("not quiescent after 60 s: %+v pending=%d", g, p.sched.VPending())
		}
		runtime.Gosched()
		time.Sleep(100 * time.Microsecond)
	}
}

func (p *prog) idOf(l *latch.Lock) string {
	if l == nil {
		return "nil"
	}
	for i, t := range p.txns {
		if t.start == l.VStartTS() && t.status != 'N' {
			return strconv.Itoa(i)
		}
	}
	return "?"
}

func (p *prog) dump() (string, int, int) {
	var sb strings.Builder
	holders, waiters := 0, 0
	for i, sl := range p.lat.VSnapshot() {
		fmt.Fprintf(&sb, "s%d#%d[", i, sl.Count)
		for j, n := range sl.Nodes {
			if j > 0 {
				sb.WriteByte(' ')
			}
			h := "-"
			if n.Holder != nil {
				h = p.idOf(n.Holder)
				holders++
			}
			fmt.Fprintf(&sb, "%d:%d:%s", int(n.Key[0]-'a'), n.Max, h)
		}
		sb.WriteString("]w[")
		for j, w := range sl.Waiting {
			if j > 0 {
				sb.WriteByte(' ')
			}
			waiters++
			if w == nil {
				sb.WriteString("nil")
			} else {
				fmt.Fprintf(&sb, "%s@%d", p.idOf(w), w.VAcquired())
			}
		}
		sb.WriteString("] ")
	}
	sb.WriteString("T ")
	for _, t := range p.txns {
		sb.WriteByte(t.status)
	}
	fmt.Fprintf(&sb, " R %d", p.sched.VLastRecycleTime())
	return sb.String(), holders, waiters
}

func ints(a []int) string {
	if len(a) == 0 {
		return "-"
	}
	var r []string
	for _, v := range a {
		r = append(r, strconv.Itoa(v))
	}
	return strings.Join(r, ",")
}

func (p *prog) commitWorker(t *ptxn) {
	err := t.txn.Commit(context.Background())
	var wc *tikverr.ErrWriteConflictInLatch
	switch {
	case err == nil:
		t.res = "ok"
		t.commit = t.txn.CommitTS()
	case errors.As(err, &wc):
		t.res = "stale"
	default:
		// Commit failed after a non-stale Lock (e.g. write conflict found by TiKV, invisible to the latches): the latch
		// verdict was "not stale"; no commit ts may be published, the lock must be handed back all the same
		t.res = "ok"
		t.failed = true
	}
	t.done.Store(true)
}

func (p *prog) lockWorker(t *ptxn) {
	var ks [][]byte
	for _, k := range t.keys {
		ks = append(ks, kb(k))
	}
	t.held = p.sched.Lock(t.start, ks)
	t.done.Store(true)
}

func (p *prog) fail(detail string) {
	if p.nfail < 3 {
		fmt.Fprintf(out, "P\tcaller_contract\t%s\t%s\t%s\t%s\n", p.id, p.spec(), strings.Join(p.acts, " "), detail)
	}
	p.nfail++
}

// program text: size=<n>;txns=<keys>[!] / ...   ('!' = lock held directly by the driver); actions: b<i> begin,
// c<i> Commit (or direct Lock), u<i> direct UnLock with a fresh commit ts, z<i> direct UnLock without commit ts
func (p *prog) spec() string {
	var ts []string
	for _, t := range p.txns {
		if t.warm {
			continue
		}
		var ks []string
		for _, k := range t.keys {
			ks = append(ks, strconv.Itoa(k))
		}
		s := strings.Join(ks, ".")
		if t.direct {
			s += "!"
		}
		if t.pess {
			s += "~"
		}
		ts = append(ts, s)
	}
	return fmt.Sprintf("size=%d;txns=%s", p.size, strings.Join(ts, "/"))
}

func parseProg(id, spec string) *prog {
	p := &prog{id: id}
	for _, f := range strings.Split(spec, ";") {
		kv := strings.SplitN(f, "=", 2)
		if len(kv) != 2 {
			continue
		}
		switch kv[0] {
		case "size":
			p.size, _ = strconv.Atoi(kv[1])
		case "txns":
			for _, t := range strings.Split(kv[1], "/") {
				x := &ptxn{status: 'N'}
				if strings.HasSuffix(t, "!") {
					x.direct = true
					t = t[:len(t)-1]
				}
				if strings.HasSuffix(t, "~") {
					x.pess = true
					t = t[:len(t)-1]
				}
				for _, k := range strings.Split(t, ".") {
					if k != "" {
						v, _ := strconv.Atoi(k)
						x.keys = append(x.keys, v)
					}
				}
				p.txns = append(p.txns, x)
			}
		}
	}
	return p
}

func (p *prog) freshTS() uint64 {
	ts, err := p.store.CurrentTimestamp("global")
	if err != nil {
		panic(err)
	}
	return ts
}

func (p *prog) emit(a, res string) {
	d, _, _ := p.dump()
	fmt.Fprintf(out, "G\t%s\t=>\t%s\t|\t%s\n", a, res, d)
}

// settle: quiescence, then book-keeping of the Commits / Locks that returned meanwhile
func (p *prog) settle() bool {
	if q := p.quiesce(); q != "" {
		p.fail("real scheduler / consumer: " + q)
		return false
	}
	for _, t := range p.txns {
		if t.status == 'B' && t.done.Load() {
			if t.direct {
				if t.held.IsStale() {
					t.status = 'S'
				} else {
					t.status = 'K'
				}
			} else {
				t.status = 'U' // Commit returned: by contract it has called UnLock
			}
		}
	}
	return true
}

// client actions of the consumer, for the extracted client_okb. The return of Lock() inside Commit is seen as the
// return of Commit with its verdict; UnLock is INFERRED: Commit has returned and at quiescence no node names the lock
// as holder (for a lock that owned nothing — stale at its first key — this is vacuous: such an UnLock cannot be observed).
func (p *prog) clientActions() {
	held := map[uint64]bool{}
	for _, sl := range p.lat.VSnapshot() {
		for _, n := range sl.Nodes {
			if n.Holder != nil {
				held[n.Holder.VStartTS()] = true
			}
		}
	}
	for i, t := range p.txns {
		if t.status == 'N' || !t.done.Load() {
			continue
		}
		if !t.retSeen {
			t.retSeen = true
			st := 0
			if (t.direct && t.held.IsStale()) || (!t.direct && t.res == "stale") {
				st = 1
			}
			fmt.Fprintf(out, "CA\tret\t%d\t%d\n", i, st)
		}
		if !t.direct && !t.unlSeen && !held[t.start] {
			t.unlSeen = true
			fmt.Fprintf(out, "CA\tunlock\t%d\t%d\n", i, t.commit)
		}
	}
}

func (p *prog) tsLine(i int) {
	t := p.txns[i]
	fmt.Fprintf(out, "TS\t%d\t%d\t%d\t%s\n", i, t.start, t.commit, ints(t.keys))
}

func (p *prog) run(actions []string) {
	client, cluster, pdClient, err := testutils.NewMockTiKV("", nil)
	if err != nil {
		panic(err)
	}
	testutils.BootstrapWithSingleStore(cluster)
	store, err := tikv.NewTestTiKVStore(client, pdClient, nil, nil, uint(p.size))
	if err != nil {
		panic(err)
	}
	defer store.Close()
	p.store = store
	p.sched = store.TxnLatches()
	p.lat = p.sched.VLatches()
	fmt.Fprintf(out, "CASE\t%s\t%s\n", p.id, p.spec())
	fmt.Fprintf(out, "NS\t%d\n", p.lat.VNumSlots())
	for k := 0; k < 26; k++ {
		fmt.Fprintf(out, "SF\t%d\t%d\t%x\n", k, p.lat.VSlotID(kb(k)), kb(k))
	}
	// warm-up: the first successful commit makes run() spawn its first recycle (lastRecycleTime = 0); do it alone,
	// on a key of its own, so that no later recycle goroutine races with the releases of the program proper
	wi := len(p.txns)
	p.txns = append(p.txns, &ptxn{keys: []int{25}, status: 'N', warm: true})
	actions = append([]string{"b" + strconv.Itoa(wi), "c" + strconv.Itoa(wi)}, actions...)
	for i := range p.txns {
		if !p.txns[i].direct && !p.txns[i].pess {
			fmt.Fprintf(out, "AUTO\t%d\n", i)
		}
	}
	for _, a := range actions {
		i, _ := strconv.Atoi(a[1:])
		if i >= len(p.txns) {
			continue
		}
		t := p.txns[i]
		if !t.warm {
			p.acts = append(p.acts, a)
		}
		switch a[0] {
		case 'b':
			if t.direct {
				t.start = p.freshTS()
				continue
			}
			txn, err := store.Begin()
			if err != nil {
				panic(err)
			}
			for _, k := range t.keys {
				if err := txn.Set(kb(k), []byte(p.id)); err != nil {
					panic(err)
				}
			}
			if t.pess {
				txn.SetPessimistic(true)
			}
			t.txn, t.start = txn, txn.StartTS()
		case 'c':
			if t.status != 'N' || t.start == 0 {
				continue
			}
			if t.pess {
				// bypass: the latches must not see this commit at all (model action N = nothing happens)
				_ = t.txn.Commit(context.Background())
				t.start = 0
				if !p.settle() {
					return
				}
				p.emit("N"+strconv.Itoa(i), "-")
				continue
			}
			t.status = 'B'
			fmt.Fprintf(out, "CA\tlock\t%d\t%d\n", i, t.start)
			if t.direct {
				go p.lockWorker(t)
			} else {
				go p.commitWorker(t)
			}
			if !p.settle() {
				return
			}
			res := "blk"
			if t.done.Load() {
				if t.direct {
					res = "ret"
				} else {
					res = t.res
				}
			}
			// the transactions whose Commit returned during this action are known now (commit ts included)
			for j := range p.txns {
				p.tsLine(j)
			}
			p.clientActions()
			p.emit("L"+strconv.Itoa(i), res)
		case 'u', 'z':
			if !t.direct || (t.status != 'K' && t.status != 'S') {
				continue
			}
			if a[0] == 'u' && !t.held.IsStale() {
				t.commit = p.freshTS()
			}
			t.held.SetCommitTS(t.commit)
			t.status = 'U'
			fmt.Fprintf(out, "CA\tunlock\t%d\t%d\n", i, t.commit)
			p.sched.UnLock(t.held)
			if !p.settle() {
				return
			}
			for j := range p.txns {
				p.tsLine(j)
			}
			p.clientActions()
			p.emit("U"+strconv.Itoa(i), "-")
		}
		// oracle on the implementation: with nobody in flight no latch may be held, nobody may wait
		inflight := 0
		for _, x := range p.txns {
			if x.status == 'K' || x.status == 'S' {
				inflight++
			}
		}
		_, holders, waiters := p.dump()
		if inflight == 0 && (holders > 0 || waiters > 0) {
			d, _, _ := p.dump()
			blocked := ""
			for j, x := range p.txns {
				if x.status == 'B' {
					blocked += " " + strconv.Itoa(j)
				}
			}
			p.fail(fmt.Sprintf("no transaction is in flight (every Commit that could return has returned) but %d latch(es) still have a holder and %d request(s) wait (Commit blocked for ever:%s): a Lock was not handed back with UnLock | %s", holders, waiters, blocked, d))
			return
		}
		totals.oracle++
	}
	totals.acts += len(p.acts)
}

var totals struct{ progs, acts, oracle, nfail, failed int }

func runProg(id, spec string, actions []string) {
	p := parseProg(id, spec)
	func() {
		defer func() {
			if r := recover(); r != nil {
				p.fail(fmt.Sprintf("driver / consumer panicked: %v", r))
			}
		}()
		p.run(actions)
	}()
	for _, t := range p.txns {
		if t.failed {
			totals.failed++
		}
	}
	fmt.Fprintf(out, "ACTS\t%s\n", strings.Join(p.acts, " "))
	fmt.Fprintf(out, "END\t%s\tprog=%d\n", id, len(p.acts))
	totals.progs++
	totals.nfail += p.nfail
	out.Flush()
}

func keysStr(ks []int) string {
	var r []string
	for _, k := range ks {
		r = append(r, strconv.Itoa(k))
	}
	return strings.Join(r, ".")
}

func main() {
	out = bufio.NewWriterSize(os.Stdout, 1<<20)
	defer out.Flush()
	if len(os.Args) >= 4 && os.Args[1] == "replay" {
		runProg("replay", os.Args[2], strings.Fields(os.Args[3]))
		fmt.Fprintf(out, "TOTAL\tprogs=%d\tacts=%d\toraclefails=%d\n", totals.progs, totals.acts, totals.nfail)
		return
	}
	seed, _ := strconv.ParseInt(os.Getenv("VERIF_SEED"), 10, 64)
	thorough := os.Getenv("VERIF_TIER") == "thorough"
	rng := rand.New(rand.NewSource(seed*15485863 + 11))
	n := 0
	// canonical scenarios (keys a=0 b=1 c=2 d=3), for 1, 2 and 8 slots
	for _, size := range []int{1, 2, 8} {
		// stale at the FIRST key: nothing owned
		runProg(fmt.Sprintf("t-first-%d", size), fmt.Sprintf("size=%d;txns=0.2/0/0.1", size), strings.Fields("b0 b1 c1 c0 b2 c2"))
		// stale at a LATER key: old {a,c}, newer commits c first, a third writes a
		runProg(fmt.Sprintf("t-later-%d", size), fmt.Sprintf("size=%d;txns=0.2/2/0", size), strings.Fields("b0 b1 c1 c0 b2 c2"))
		runProg(fmt.Sprintf("t-later3-%d", size), fmt.Sprintf("size=%d;txns=0.1.3/3/1.0/0.3", size), strings.Fields("b0 b1 c1 c0 b2 c2 b3 c3"))
		// stale on WAKE-UP: commit of {a,c} blocked behind a directly held latch on c released with a newer commit ts
		runProg(fmt.Sprintf("t-wake-%d", size), fmt.Sprintf("size=%d;txns=0.2/2!/0/2", size), strings.Fields("b0 b1 c1 c0 u1 b2 c2 b3 c3"))
		// a pessimistic transaction in between: bypasses the latches (keys e,f of its own: its commit ts is invisible to them)
		runProg(fmt.Sprintf("t-pess-%d", size), fmt.Sprintf("size=%d;txns=0.2/4.5~/2/0", size), strings.Fields("b0 b1 b2 c2 c1 c0 b3 c3"))
		// Commit FAILS after a non-stale Lock: the pessimistic txn (bypassing the latches) commits c; the older optimistic
		// {a,c} is not stale for the latches, TiKV answers write conflict; its latches must be released, max stays 0
		runProg(fmt.Sprintf("t-fail-%d", size), fmt.Sprintf("size=%d;txns=0.2/2~/0.2", size), strings.Fields("b0 b1 c1 c0 b2 c2"))
		// blocked, then woken NOT stale (holder gives up without commit ts)
		runProg(fmt.Sprintf("t-wake-ok-%d", size), fmt.Sprintf("size=%d;txns=0.2/2!/0.2", size), strings.Fields("b0 b1 c1 c0 z1 b2 c2"))
	}
	nprog := 40
	if thorough {
		nprog = 600
	}
	for j := 0; j < nprog; j++ {
		nt := 3 + rng.Intn(2)
		size := []int{1, 2, 2, 4, 8}[rng.Intn(5)]
		var ts []string
		direct := -1
		if rng.Intn(2) == 0 {
			direct = rng.Intn(nt)
		}
		for t := 0; t < nt; t++ {
			nk := 1 + rng.Intn(3)
			ks := rng.Perm(4)[:nk]
			s := keysStr(ks)
			if t == direct {
				s += "!"
			}
			ts = append(ts, s)
		}
		// random legal order: begin before commit, direct unlock after its lock
		state := make([]int, nt) // 0 none, 1 begun, 2 committing/locked, 3 done
		var acts []string
		for len(acts) < 3*nt+2 {
			var cand []string
			for t := 0; t < nt; t++ {
				switch state[t] {
				case 0:
					cand = append(cand, "b"+strconv.Itoa(t))
				case 1:
					cand = append(cand, "c"+strconv.Itoa(t))
				case 2:
					if t == direct {
						cand = append(cand, []string{"u", "u", "z"}[rng.Intn(3)]+strconv.Itoa(t))
					}
				}
			}
			if len(cand) == 0 {
				break
			}
			a := cand[rng.Intn(len(cand))]
			t, _ := strconv.Atoi(a[1:])
			switch a[0] {
			case 'b':
				state[t] = 1
			case 'c':
				state[t] = 2
			default:
				state[t] = 3
			}
			acts = append(acts, a)
		}
		if direct >= 0 && state[direct] == 2 {
			acts = append(acts, "u"+strconv.Itoa(direct)) // never leave the driver's own latch held
		}
		runProg(fmt.Sprintf("t-%d", n), fmt.Sprintf("size=%d;txns=%s", size, strings.Join(ts, "/")), acts)
		n++
	}
	fmt.Fprintf(out, "PS\tcaller_contract\t%d\n", totals.oracle)
	fmt.Fprintf(out, "PS\tcommit_failed_after_lock_paths\t%d\n", totals.failed)
	fmt.Fprintf(out, "TOTAL\tprogs=%d\tacts=%d\toraclefails=%d\n", totals.progs, totals.acts, totals.nfail)
}
