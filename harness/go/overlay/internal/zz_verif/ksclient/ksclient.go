//go:build verif

// Package ksclient puts the REAL API v2 codec (keyspace) around any inner client — what internal/client.RPCClient
// does around the wire — so that a check's driver can re-run its workload under a keyspace with one line:
//
//	store, err := ksclient.NewTxnStore(mockRPC, mockPD, 0x1FF)        // instead of tikv.NewTestTiKVStore(...)
//	raw, err := ksclient.NewRawClient(mockRPC, mockPD, 0x1FF)         // instead of a codec v1 rawkv client
//	rpc := ksclient.WrapRPC(inner, codec)                             // any client.Client
//
// Split keys of a mock cluster have to be given in physical form: ksclient.PhysicalKey(mode, id, logicalKey).
// Owned by C15 (docs/C15.md); add-only, build tag verif.
package ksclient

import (
	"context"
	"fmt"
	"time"

	"github.com/pingcap/kvproto/pkg/keyspacepb"
	"github.com/pingcap/kvproto/pkg/kvrpcpb"
	"github.com/tikv/client-go/v2/internal/apicodec"
	"github.com/tikv/client-go/v2/internal/client"
	"github.com/tikv/client-go/v2/internal/locate"
	"github.com/tikv/client-go/v2/rawkv"
	"github.com/tikv/client-go/v2/tikv"
	"github.com/tikv/client-go/v2/tikvrpc"
	"github.com/tikv/client-go/v2/util/async"
	pd "github.com/tikv/pd/client"
	pdgc "github.com/tikv/pd/client/clients/gc"
	"github.com/tikv/pd/client/constants"
	"github.com/tikv/pd/client/pkg/caller"
)

// Meta is the keyspace meta of keyspace id (enabled, name "ks<id>").
func Meta(id uint32) *keyspacepb.KeyspaceMeta {
	return &keyspacepb.KeyspaceMeta{Keyspace: &keyspacepb.KeyspaceMeta_Id{Id: id}, Name: fmt.Sprintf("ks%d", id), State: keyspacepb.KeyspaceState_ENABLED}
}

// PD answers LoadKeyspace with the given meta and serves the GC state API of the null keyspace (the mock PD
// implements neither for a keyspace).
type PD struct {
	pd.Client
	KeyspaceMeta *keyspacepb.KeyspaceMeta
}

func (p PD) LoadKeyspace(ctx context.Context, name string) (*keyspacepb.KeyspaceMeta, error) {
	return p.KeyspaceMeta, nil
}
func (p PD) GetGCStatesClient(keyspaceID uint32) pdgc.GCStatesClient {
	return p.Client.GetGCStatesClient(constants.NullKeyspaceID)
}
func (p PD) GetGCInternalController(keyspaceID uint32) pdgc.InternalController {
	return p.Client.GetGCInternalController(constants.NullKeyspaceID)
}
func (p PD) WithCallerComponent(c caller.Component) pd.Client {
	return PD{p.Client.WithCallerComponent(c), p.KeyspaceMeta}
}

// RPC encodes every request with the codec before handing it to the inner client and decodes the answer, per
// transmission, exactly as internal/client.RPCClient.SendRequest / SendRequestAsync do.
type RPC struct {
	client.Client
	Codec apicodec.Codec
}

func (c *RPC) SendRequest(ctx context.Context, addr string, req *tikvrpc.Request, timeout time.Duration) (*tikvrpc.Response, error) {
	req, err := c.Codec.EncodeRequest(req)
	if err != nil {
		return nil, err
	}
	resp, err := c.Client.SendRequest(ctx, addr, req, timeout)
	if err != nil {
		return nil, err
	}
	return c.Codec.DecodeResponse(req, resp)
}

func (c *RPC) SendRequestAsync(ctx context.Context, addr string, req *tikvrpc.Request, cb async.Callback[*tikvrpc.Response]) {
	req, err := c.Codec.EncodeRequest(req)
	if err != nil {
		cb.Invoke(nil, err)
		return
	}
	cb.Inject(func(resp *tikvrpc.Response, err error) (*tikvrpc.Response, error) {
		if err != nil {
			return nil, err
		}
		return c.Codec.DecodeResponse(req, resp)
	})
	c.Client.SendRequestAsync(ctx, addr, req, cb)
}

// Close leaves the (usually shared) inner client open.
func (c *RPC) Close() error { return nil }

// WrapRPC puts codec around inner.
func WrapRPC(inner client.Client, codec apicodec.Codec) client.Client { return &RPC{inner, codec} }

// CodecPD is the PD client of a keyspace-bound store / raw client over pdCli.
func CodecPD(mode apicodec.Mode, pdCli pd.Client, id uint32) (*locate.CodecPDClient, error) {
	return locate.NewCodecPDClientWithKeyspace(mode, PD{pdCli, Meta(id)}, "ks")
}

// NewTxnStore is tikv.NewTestKeyspaceTiKVStore over a mock RPC client and mock PD for keyspace id.
func NewTxnStore(inner tikv.Client, pdCli pd.Client, id uint32, opt ...tikv.Option) (*tikv.KVStore, error) {
	meta := Meta(id)
	return tikv.NewTestKeyspaceTiKVStore(inner, PD{pdCli, meta}, nil, nil, 0, *meta, opt...)
}

// NewRawClient is an API v2 raw client of keyspace id over a mock RPC client and mock PD.
func NewRawClient(inner client.Client, pdCli pd.Client, id uint32) (*rawkv.Client, error) {
	pdc, err := CodecPD(apicodec.ModeRaw, pdCli, id)
	if err != nil {
		return nil, err
	}
	return rawkv.VerifNewClient(kvrpcpb.APIVersion_V2, pdc, WrapRPC(inner, pdc.GetCodec())), nil
}

// PhysicalKey is the wire form of a logical key of keyspace id (for mock cluster split keys).
func PhysicalKey(mode apicodec.Mode, id uint32, logical []byte) []byte {
	c, err := apicodec.NewCodecV2(mode, Meta(id))
	if err != nil {
		panic(err)
	}
	return c.EncodeKey(logical)
}
