//go:build verif

// Driver for property C07 (area Union): random programs of set/delete/get/batch-get/iter/iter-reverse/
// staging/release/cleanup/checkpoint/revert on
//   art, rbt : unionstore.KVUnionStore over a scripted in-memory snapshot (+ transaction.BufferBatchGetter)
//   txn      : a real KVTxn over the mock store with committed base data
// Output (tab separated), consumed by ocaml/union/driver.ml and checks/C07.py:
//   PROG <id> <target> <snapshot k:v,...>
//   O <id> <idx> <kind> <args...> => <result>
//   FAIL <oracle> <idx> <program json> <minimised json> <minimised transcript> <f03fired> <detail> <id>
//   PSTAT <oracle> <evaluations> <fails>
//   GSTAT <name> <count>
package main

import (
	"bufio"
	"bytes"
	"context"
	"encoding/hex"
	"encoding/json"
	"fmt"
	"math/rand"
	"os"
	"sort"
	"strconv"
	"strings"
	"sync"

	"github.com/pingcap/log"
	tikverr "github.com/tikv/client-go/v2/error"
	"github.com/tikv/client-go/v2/internal/mockstore/mocktikv"
	"github.com/tikv/client-go/v2/internal/unionstore"
	"github.com/tikv/client-go/v2/kv"
	"github.com/tikv/client-go/v2/testutils"
	"github.com/tikv/client-go/v2/tikv"
	"github.com/tikv/client-go/v2/txnkv/transaction"
	"go.uber.org/zap/zapcore"
)

// ---------------------------------------------------------------- programs
type Op struct {
	Op   string   `json:"op"`
	K    string   `json:"k,omitempty"`
	V    string   `json:"v,omitempty"`
	Keys []string `json:"keys,omitempty"`
	Lo   string   `json:"lo,omitempty"`
	Hi   string   `json:"hi,omitempty"`
	F    []int    `json:"f,omitempty"`  // flag ops (index of the FlagsOp constant) of set/del/uflags
	E    uint64   `json:"e,omitempty"`  // limits: entry size limit (0 = unlimited)
	B    uint64   `json:"b,omitempty"`  // limits: buffer size limit (0 = unlimited)
	Unmark bool   `json:"unmark,omitempty"` // uflags: through KVUnionStore.UnmarkPresumeKeyNotExists
	Stale bool    `json:"stale,omitempty"` // set/del: open a buffer iterator before the write and probe it afterwards
	H    int      `json:"h,omitempty"`  // release/cleanup/inspect: -1 = the live top handle, else literal handle
	ID   int      `json:"id,omitempty"` // cp / revert: checkpoint label
}
type Program struct {
	Target string      `json:"target"`
	NoF03  bool        `json:"nof03,omitempty"`
	Snap   [][2]string `json:"snap"`
	Ops    []Op        `json:"ops"`
}

func hx(b []byte) string { return hex.EncodeToString(b) }
func unhx(s string) []byte {
	b, err := hex.DecodeString(s)
	if err != nil {
		panic(err)
	}
	if len(b) == 0 {
		return nil
	}
	return b
}
func hd(s string) string { // display form: "-" for empty
	if s == "" {
		return "-"
	}
	return s
}

type KV struct{ K, V []byte }

func kvsString(l []KV) string {
	if len(l) == 0 {
		return "-"
	}
	var sb strings.Builder
	for i, e := range l {
		if i > 0 {
			sb.WriteByte(',')
		}
		sb.WriteString(hd(hx(e.K)))
		sb.WriteByte(':')
		sb.WriteString(hd(hx(e.V)))
	}
	return sb.String()
}

// ---------------------------------------------------------------- scripted snapshot
type memSnap struct {
	data   []KV // ascending
	handed [][]byte
	gets   [][]byte
}
type sliceIter struct {
	l []KV
	i int
}

func (it *sliceIter) Valid() bool   { return it.i < len(it.l) }
func (it *sliceIter) Key() []byte   { return it.l[it.i].K }
func (it *sliceIter) Value() []byte { return it.l[it.i].V }
func (it *sliceIter) Next() error   { it.i++; return nil }
func (it *sliceIter) Close()        {}

func (s *memSnap) Get(_ context.Context, k []byte, _ ...kv.GetOption) (kv.ValueEntry, error) {
	s.gets = append(s.gets, k)
	for _, e := range s.data {
		if bytes.Equal(e.K, k) {
			return kv.NewValueEntry(e.V, 0), nil
		}
	}
	return kv.ValueEntry{}, tikverr.ErrNotExist
}
func (s *memSnap) Iter(k, upper []byte) (unionstore.Iterator, error) {
	var l []KV
	for _, e := range s.data {
		if bytes.Compare(e.K, k) >= 0 && (len(upper) == 0 || bytes.Compare(e.K, upper) < 0) {
			l = append(l, e)
		}
	}
	return &sliceIter{l: l}, nil
}
func (s *memSnap) IterReverse(k, lower []byte) (unionstore.Iterator, error) {
	var l []KV
	for i := len(s.data) - 1; i >= 0; i-- {
		e := s.data[i]
		if (len(k) == 0 || bytes.Compare(e.K, k) < 0) && bytes.Compare(e.K, lower) >= 0 {
			l = append(l, e)
		}
	}
	return &sliceIter{l: l}, nil
}
func (s *memSnap) BatchGet(_ context.Context, keys [][]byte, _ ...kv.BatchGetOption) (map[string]kv.ValueEntry, error) {
	s.handed = append([][]byte{}, keys...)
	m := map[string]kv.ValueEntry{}
	for _, k := range keys {
		for _, e := range s.data {
			if bytes.Equal(e.K, k) {
				m[string(k)] = kv.NewValueEntry(e.V, 0)
			}
		}
	}
	return m, nil
}

// ---------------------------------------------------------------- targets
type target interface {
	Buf() unionstore.MemBuffer
	Get(k []byte) ([]byte, bool, error)
	BatchGet(keys [][]byte) (handed [][]byte, haveHanded bool, res map[string][]byte, err error)
	Iter(lo, hi []byte) (unionstore.Iterator, error)
	IterReverse(hi, lo []byte) (unionstore.Iterator, error)
	Close()
}

type usTarget struct {
	buf  unionstore.MemBuffer
	snap *memSnap
	us   *unionstore.KVUnionStore
}

func newUS(kind string, snap []KV) *usTarget {
	var b unionstore.MemBuffer
	if kind == "rbt" {
		b = unionstore.VerifUnionNewRBT()
	} else {
		b = unionstore.VerifUnionNewART()
	}
	s := &memSnap{data: snap}
	return &usTarget{buf: b, snap: s, us: unionstore.NewUnionStore(b, s)}
}
func (t *usTarget) Buf() unionstore.MemBuffer { return t.buf }
func (t *usTarget) Get(k []byte) ([]byte, bool, error) {
	v, err := t.us.Get(context.Background(), k)
	if tikverr.IsErrNotFound(err) {
		return nil, false, nil
	}
	if err != nil {
		return nil, false, err
	}
	return v.Value, true, nil
}
func (t *usTarget) BatchGet(keys [][]byte) ([][]byte, bool, map[string][]byte, error) {
	t.snap.handed = nil
	m, err := transaction.NewBufferBatchGetter(t.buf, t.snap).BatchGet(context.Background(), keys)
	if err != nil {
		return nil, true, nil, err
	}
	r := map[string][]byte{}
	for k, v := range m {
		r[k] = v.Value
	}
	return t.snap.handed, true, r, nil
}
func (t *usTarget) Iter(lo, hi []byte) (unionstore.Iterator, error)        { return t.us.Iter(lo, hi) }
func (t *usTarget) IterReverse(hi, lo []byte) (unionstore.Iterator, error) { return t.us.IterReverse(hi, lo) }
func (t *usTarget) Close()                                                 {}

// snapBuf adapts the staging-blind view of a MemBuffer (SnapshotGetter) to transaction.BatchSnapshotBufferGetter
type snapBuf struct{ g kv.Getter }

func (b snapBuf) Get(ctx context.Context, k []byte, o ...kv.GetOption) (kv.ValueEntry, error) {
	return b.g.Get(ctx, k, o...)
}
func (b snapBuf) BatchGet(ctx context.Context, keys [][]byte, _ ...kv.BatchGetOption) (map[string]kv.ValueEntry, error) {
	m := map[string]kv.ValueEntry{}
	for _, k := range keys {
		v, err := b.g.Get(ctx, k)
		if err == nil {
			m[string(k)] = v
		} else if !tikverr.IsErrNotFound(err) {
			return nil, err
		}
	}
	return m, nil
}

// ---------------------------------------------------------------- pipelined buffer over a scripted flush function
// The flush function of PipelinedMemDB is scripted: it waits until the program lets it complete, then copies the
// flushed buffer (tombstones included) into `remote`, which is also what the buffer's batch getter answers from.
type pipeTarget struct {
	buf     *unionstore.PipelinedMemDB
	snap    *memSnap
	us      *unionstore.KVUnionStore
	mu      sync.Mutex
	remote  map[string][]byte
	release chan struct{}
	done    chan struct{}
	pending bool
	keys    [][]byte // every key the program mentions: the observation set
}

func newPipe(snap []KV, keys [][]byte) *pipeTarget {
	t := &pipeTarget{snap: &memSnap{data: snap}, remote: map[string][]byte{}, release: make(chan struct{}, 4), done: make(chan struct{}, 4), keys: keys}
	t.buf = unionstore.NewPipelinedMemDB(func(_ context.Context, ks [][]byte) (map[string]kv.ValueEntry, error) {
		t.mu.Lock()
		defer t.mu.Unlock()
		m := make(map[string]kv.ValueEntry, len(ks))
		for _, k := range ks {
			if v, ok := t.remote[string(k)]; ok {
				m[string(k)] = kv.NewValueEntry(v, 0)
			}
		}
		return m, nil
	}, func(_ uint64, db *unionstore.MemDB) error {
		<-t.release
		t.mu.Lock()
		it, err := db.Iter(nil, nil)
		if err == nil {
			for ; it.Valid(); _ = it.Next() {
				t.remote[string(it.Key())] = append([]byte{}, it.Value()...)
			}
		}
		t.mu.Unlock()
		t.done <- struct{}{}
		return err
	})
	t.us = unionstore.NewUnionStore(t.buf, t.snap)
	return t
}
func (t *pipeTarget) complete() {
	if t.pending {
		t.release <- struct{}{}
		<-t.done
		t.pending = false
	}
}
func (t *pipeTarget) Buf() unionstore.MemBuffer { return t.buf }
func (t *pipeTarget) Get(k []byte) ([]byte, bool, error) {
	v, err := t.us.Get(context.Background(), k)
	if tikverr.IsErrNotFound(err) {
		return nil, false, nil
	}
	if err != nil {
		return nil, false, err
	}
	return v.Value, true, nil
}
func (t *pipeTarget) BatchGet(keys [][]byte) ([][]byte, bool, map[string][]byte, error) {
	t.snap.handed = nil
	m, err := transaction.NewBufferBatchGetter(t.buf, t.snap).BatchGet(context.Background(), keys)
	if err != nil {
		return nil, true, nil, err
	}
	r := map[string][]byte{}
	for k, v := range m {
		r[k] = v.Value
	}
	return t.snap.handed, true, r, nil
}
func (t *pipeTarget) Iter(lo, hi []byte) (unionstore.Iterator, error)        { return t.us.Iter(lo, hi) }
func (t *pipeTarget) IterReverse(hi, lo []byte) (unionstore.Iterator, error) { return t.us.IterReverse(hi, lo) }
func (t *pipeTarget) Close() {
	t.complete()
	_ = t.buf.FlushWait()
}

// real transaction over the mock store
var theStore *tikv.KVStore
var prevBase [][]byte

var storeUses int
var theCluster *testutils.MockCluster
var storeMultiRegion, storeSingle bool
var storeRand = rand.New(rand.NewSource(4242))

func getStore() *tikv.KVStore {
	// a fresh mock store every 60 transactions: the MVCC history of one store makes later scans slower
	storeUses++
	if theStore != nil && storeUses%60 != 0 {
		return theStore
	}
	if theStore != nil {
		_ = theStore.Close()
		prevBase = nil
	}
	client, cluster, pdClient, err := testutils.NewMockTiKV("", nil)
	must(err)
	// several regions; split points are themselves adversarial keys (prefixes of pool keys, 00/ff runs)
	cands := [][]byte{{0, 0}, {1}, {'a'}, {'a', 0}, {'a', 0, 0}, {'a', 'a', 'a', 'a', 'a', 'a', 'a', 'a', 'a', 'a', 'a', 'a', 'a', 'a', 'a', 'a', 'a', 'a', 'a', 'a', 'a', 'a', 'b'},
		{'a', 'b'}, {'a', 0xff}, {'b'}, {0xfe}, {0xff}, {0xff, 0}, {0xff, 0xff}}
	var splits [][]byte
	storeSingle = gstats["txn-stores"]%4 == 3 // every 4th store keeps one region: open-ended reverse scans run as they are
	for _, c := range cands {
		if !storeSingle && storeRand.Intn(3) == 0 {
			splits = append(splits, c)
		}
	}
	if v := os.Getenv("VERIF_C07_SPLITS"); v != "" { // debugging aid: fixed split keys (comma separated hex)
		splits = nil
		for _, h := range strings.Split(v, ",") {
			splits = append(splits, unhx(h))
		}
	}
	testutils.BootstrapWithMultiRegions(cluster, splits...)
	gstats["txn-stores"]++
	gstats["txn-store-regions"] += len(splits) + 1
	theCluster = cluster
	storeMultiRegion = len(splits) > 0
	st, err := tikv.NewTestTiKVStore(client, pdClient, nil, nil, 0)
	must(err)
	theStore = st
	return st
}
func must(err error) {
	if err != nil {
		panic(err)
	}
}

type txnTarget struct{ txn *transaction.KVTxn }

func newTxn(snap []KV) *txnTarget {
	st := getStore()
	ctx := context.Background()
	t0, err := st.Begin()
	must(err)
	for _, k := range prevBase {
		must(t0.Delete(k))
	}
	prevBase = nil
	for _, e := range snap {
		must(t0.Set(e.K, e.V))
		prevBase = append(prevBase, e.K)
	}
	if t0.Len() > 0 {
		must(t0.Commit(ctx))
	} else {
		_ = t0.Rollback()
	}
	t1, err := st.Begin()
	must(err)
	return &txnTarget{txn: t1}
}
func (t *txnTarget) Buf() unionstore.MemBuffer { return t.txn.GetMemBuffer() }
func (t *txnTarget) Get(k []byte) ([]byte, bool, error) {
	v, err := t.txn.Get(context.Background(), k)
	if tikverr.IsErrNotFound(err) {
		return nil, false, nil
	}
	if err != nil {
		return nil, false, err
	}
	return v.Value, true, nil
}
func (t *txnTarget) BatchGet(keys [][]byte) ([][]byte, bool, map[string][]byte, error) {
	m, err := t.txn.BatchGet(context.Background(), keys)
	if err != nil {
		return nil, false, nil, err
	}
	r := map[string][]byte{}
	for k, v := range m {
		r[k] = v.Value
	}
	return nil, false, r, nil
}
func (t *txnTarget) Iter(lo, hi []byte) (unionstore.Iterator, error)        { return t.txn.Iter(lo, hi) }
func (t *txnTarget) IterReverse(hi, lo []byte) (unionstore.Iterator, error) {
	// Reverse scans whose upper end is the end of the key space run as they are, also over several regions
	// (F08b does not reproduce through KVTxn on the current tree). VERIF_C07_CLOSED_END=1 replaces the open end
	// by an explicit bound above every generated key (debugging aid).
	if len(hi) == 0 && storeMultiRegion && os.Getenv("VERIF_C07_CLOSED_END") != "" {
		hi = bytes.Repeat([]byte{0xff}, 40)
	} else if len(hi) == 0 && storeMultiRegion && countStats {
		gstats["txn-riter-open-end-over-several-regions"]++
	}
	return t.txn.IterReverse(hi, lo)
}
func (t *txnTarget) Close()                                                 { _ = t.txn.Rollback() }

// ---------------------------------------------------------------- discipline tracker (value-log positions)
// Decides which checkpoints may still be reverted to (a checkpoint is a position of the value log and
// dies when the log is truncated below it; reverting below the top staging position is API misuse) and
// predicts which writes overwrite in place (entry above the top staging position and above lastCheckpoint).
type shEntry struct {
	k string
	v []byte
}
type cpInfo struct {
	pos int
}
type tracker struct {
	log      []shEntry
	stagePos []int
	cps      map[int]*cpInfo
	lastCp   int // latest position handed out by Checkpoint / reverted to (lowered by a cleanup below it)
}

func newTracker() *tracker { return &tracker{cps: map[int]*cpInfo{}} }
func (t *tracker) head(k string) int {
	for i := len(t.log) - 1; i >= 0; i-- {
		if t.log[i].k == k {
			return i
		}
	}
	return -1
}
func (t *tracker) inplaceIdx(k string, v []byte) int {
	i := t.head(k)
	if i < 0 || len(v) == 0 || len(t.log[i].v) != len(v) {
		return -1
	}
	if len(t.stagePos) > 0 && i < t.stagePos[len(t.stagePos)-1] {
		return -1
	}
	if i < t.lastCp {
		return -1
	}
	return i
}
func (t *tracker) write(k string, v []byte) {
	if i := t.inplaceIdx(k, v); i >= 0 {
		t.log[i].v = append([]byte{}, v...)
		return
	}
	t.log = append(t.log, shEntry{k, append([]byte{}, v...)})
}
func (t *tracker) truncate(p int) {
	if p < len(t.log) {
		t.log = t.log[:p]
	}
	for id, c := range t.cps {
		if c.pos > p {
			delete(t.cps, id)
		}
	}
}
func (t *tracker) staging()   { t.stagePos = append(t.stagePos, len(t.log)) }
func (t *tracker) depth() int { return len(t.stagePos) }
func (t *tracker) release()   { t.stagePos = t.stagePos[:len(t.stagePos)-1] }
func (t *tracker) cleanup() {
	p := t.stagePos[len(t.stagePos)-1]
	t.truncate(p)
	if p < t.lastCp {
		t.lastCp = p
	}
	t.release()
}
func (t *tracker) checkpoint(id int) { t.cps[id] = &cpInfo{pos: len(t.log)}; t.lastCp = len(t.log) }
func (t *tracker) canRevert(id int) bool {
	c, ok := t.cps[id]
	if !ok || c.pos > len(t.log) {
		return false
	}
	if len(t.stagePos) > 0 && c.pos < t.stagePos[len(t.stagePos)-1] {
		return false
	}
	return true
}
func (t *tracker) revert(id int) {
	c := t.cps[id]
	t.truncate(c.pos)
	t.lastCp = c.pos
}

// ---------------------------------------------------------------- reference (specification) view
// snapshot map overlaid with the buffered writes in program order; savepoints keep previous versions
type refState struct {
	flags  map[string]kv.KeyFlags // every existing key (has a value or has flags), program order fold of the flag ops
	elim   uint64
	blim   uint64
	snap   map[string][]byte
	buf    map[string][]byte // present key -> value; empty value = tombstone
	stack  []map[string][]byte
	cps    map[int]map[string][]byte
}

func copyMap(m map[string][]byte) map[string][]byte {
	r := make(map[string][]byte, len(m))
	for k, v := range m {
		r[k] = v
	}
	return r
}
func fopsOf(f []int) []kv.FlagsOp {
	var l []kv.FlagsOp
	for _, i := range f {
		l = append(l, kv.FlagsOp(1)<<uint(i))
	}
	return l
}
func fopsString(f []int) string {
	if len(f) == 0 {
		return "-"
	}
	var l []string
	for _, i := range f {
		l = append(l, strconv.Itoa(i))
	}
	return strings.Join(l, ",")
}

const persistentFlags = kv.KeyFlags(2 | 8 | 2048 | 8192)

// refApply: the specification of the flag operations (by index of the FlagsOp constant), written out
// independently of kv.ApplyFlagsOps
func refApply(f kv.KeyFlags, ops []int) kv.KeyFlags {
	const (
		presumeKNE = 1 << iota
		keyLocked
		needLocked
		keyLockedValExist
		needCheckExists
		prewriteOnly
		ignoredIn2PC
		readable
		newlyInserted
		assertExist
		assertNotExist
		needConstraintCheck
		previousPresumeKNE
		keyLockedInShareMode
	)
	for _, op := range ops {
		switch op {
		case 0:
			f |= presumeKNE | needCheckExists
		case 1:
			f &^= presumeKNE | needCheckExists
		case 2:
			f |= keyLocked
		case 3:
			f &^= keyLocked
		case 4:
			f |= needLocked
		case 5:
			f &^= needLocked
		case 6:
			f = (f | keyLockedValExist) &^ needConstraintCheck
		case 7:
			f &^= keyLockedValExist | needConstraintCheck
		case 8:
			f &^= needCheckExists
		case 9:
			f |= prewriteOnly
		case 10:
			f |= ignoredIn2PC
		case 11:
			f |= readable
		case 12:
			f |= newlyInserted
		case 13:
			f = (f &^ assertNotExist) | assertExist
		case 14:
			f = (f &^ assertExist) | assertNotExist
		case 15:
			f |= assertExist | assertNotExist
		case 16:
			f &^= assertExist | assertNotExist
		case 17:
			f |= needConstraintCheck
		case 18:
			f &^= needConstraintCheck
		case 19:
			f |= previousPresumeKNE
		case 20:
			f |= keyLockedInShareMode
		case 21:
			f &^= keyLockedInShareMode
		}
	}
	return f
}

// undo: keys that lose their first value keep only the persistent flags (and vanish without any)
func (r *refState) undoTo(restored map[string][]byte) {
	for k := range r.buf {
		if _, ok := restored[k]; !ok {
			if f := r.flags[k] & persistentFlags; f != 0 {
				r.flags[k] = f
			} else {
				delete(r.flags, k)
			}
		}
	}
	r.buf = restored
}
func (r *refState) size() int {
	n := 0
	for k := range r.flags {
		n += len(k) + len(r.buf[k])
	}
	return n
}
func (r *refState) get(k string) ([]byte, bool) {
	if v, ok := r.buf[k]; ok {
		if len(v) == 0 {
			return nil, false
		}
		return v, true
	}
	v, ok := r.snap[k]
	return v, ok
}
func inBounds(k, lo, hi []byte) bool {
	return bytes.Compare(k, lo) >= 0 && (len(hi) == 0 || bytes.Compare(k, hi) < 0)
}
func (r *refState) list(lo, hi []byte, rev bool) []KV {
	keys := map[string]bool{}
	for k := range r.snap {
		keys[k] = true
	}
	for k := range r.buf {
		keys[k] = true
	}
	var l []KV
	for k := range keys {
		if v, ok := r.get(k); ok && inBounds([]byte(k), lo, hi) {
			l = append(l, KV{[]byte(k), v})
		}
	}
	sort.Slice(l, func(i, j int) bool {
		c := bytes.Compare(l[i].K, l[j].K)
		if rev {
			return c > 0
		}
		return c < 0
	})
	return l
}

// ---------------------------------------------------------------- executor
type oracleStat struct{ n, fails int }

var ostats = map[string]*oracleStat{}
var countStats = true

func oracle(name string, ok bool) bool {
	if countStats {
		s := ostats[name]
		if s == nil {
			s = &oracleStat{}
			ostats[name] = s
		}
		s.n++
		if !ok {
			s.fails++
		}
	}
	return ok
}

type failure struct {
	oracle string
	idx    int
	detail string
}

const maxIter = 100000

func drain(it unionstore.Iterator, err error) ([]KV, string) {
	if err != nil {
		return nil, "err:" + errClass(err)
	}
	defer it.Close()
	var l []KV
	for n := 0; it.Valid(); n++ {
		if n > maxIter {
			return l, "overrun"
		}
		l = append(l, KV{append([]byte{}, it.Key()...), append([]byte{}, it.Value()...)})
		if e := it.Next(); e != nil {
			return l, "err:" + errClass(e)
		}
	}
	return l, ""
}
func errClass(err error) string {
	m := err.Error()
	if len(m) > 40 {
		m = m[:40]
	}
	return strings.ReplaceAll(strings.ReplaceAll(m, "\t", " "), "\n", " ")
}

func protect(f func()) (pan string) {
	defer func() {
		if r := recover(); r != nil {
			pan = fmt.Sprint(r)
			if len(pan) > 60 {
				pan = pan[:60]
			}
		}
	}()
	f()
	return ""
}

func fullObs(t target) string {
	if pt, ok := t.(*pipeTarget); ok {
		var sb strings.Builder
		for _, k := range pt.keys {
			var v []byte
			var found bool
			var err error
			if p := protect(func() { v, found, err = pt.Get(k) }); p != "" || err != nil {
				sb.WriteString("!")
			}
			fmt.Fprintf(&sb, "%x=%v:%x,", k, found, v)
		}
		return sb.String()
	}
	var a, b []KV
	var ea, eb string
	if p := protect(func() { a, ea = drain(t.Iter(nil, nil)) }); p != "" {
		ea = "panic"
	}
	if p := protect(func() { b, eb = drain(t.IterReverse(nil, nil)) }); p != "" {
		eb = "panic"
	}
	return kvsString(a) + ea + "|" + kvsString(b) + eb
}

// execProgram runs p on a fresh target. emit (may be nil) receives the transcript lines.
// Returns the first oracle failure (nil if none); the second result is unused (kept for the FAIL line format).
func execProgram(id int, p *Program, emit func(string)) (*failure, bool) {
	var snap []KV
	for _, e := range p.Snap {
		snap = append(snap, KV{unhx(e[0]), unhx(e[1])})
	}
	sort.Slice(snap, func(i, j int) bool { return bytes.Compare(snap[i].K, snap[j].K) < 0 })
	var t target
	switch p.Target {
	case "txn":
		t = newTxn(snap)
	case "pipe":
		seen := map[string]bool{}
		var keys [][]byte
		add := func(h string) {
			if !seen[h] {
				seen[h] = true
				keys = append(keys, unhx(h))
			}
		}
		for _, e := range p.Snap {
			add(e[0])
		}
		for _, o := range p.Ops {
			if o.Op == "set" || o.Op == "del" || o.Op == "get" {
				add(o.K)
			}
			for _, k := range o.Keys {
				add(k)
			}
		}
		t = newPipe(snap, keys)
	default:
		t = newUS(p.Target, snap)
	}
	defer t.Close()
	if emit != nil {
		emit(fmt.Sprintf("PROG\t%d\t%s\t%s", id, p.Target, kvsString(snap)))
	}
	ref := &refState{snap: map[string][]byte{}, buf: map[string][]byte{}, cps: map[int]map[string][]byte{}, flags: map[string]kv.KeyFlags{},
		elim: ^uint64(0), blim: ^uint64(0)}
	for _, e := range snap {
		ref.snap[string(e.K)] = e.V
	}
	tr := newTracker()
	realCps := map[int]*unionstore.MemDBCheckpoint{}
	var stageObs []string
	wasDirty := false
	var snapObj unionstore.MemBufferSnapshot
	var snapBase map[string][]byte
	cpObs := map[int]string{}
	var fail *failure
	setFail := func(name string, idx int, detail string) {
		if fail == nil {
			fail = &failure{name, idx, detail}
		}
	}
	line := func(idx int, kind string, args []string, res string) {
		if emit != nil {
			emit(fmt.Sprintf("O\t%d\t%d\t%s\t%s\t=>\t%s", id, idx, kind, strings.Join(args, "\t"), res))
		}
	}
	buf := t.Buf()
	for idx, o := range p.Ops {
		if fail != nil {
			break
		}
		switch o.Op {
		case "set", "del":
			k := unhx(o.K)
			v := unhx(o.V)
			var err error
			fops := fopsOf(o.F)
			var itStale unionstore.Iterator
			if o.Stale {
				itStale, _ = buf.Iter(nil, nil)
			}
			pan := protect(func() {
				switch {
				case o.Op == "set" && len(fops) == 0:
					err = buf.Set(k, v)
				case o.Op == "set":
					err = buf.SetWithFlags(k, v, fops...)
				case len(fops) == 0:
					err = buf.Delete(k)
				default:
					err = buf.DeleteWithFlags(k, fops...)
				}
			})
			res := "ok"
			if pan != "" {
				res = "panic"
			} else if err != nil {
				res = "err"
				if _, ok := err.(*tikverr.ErrKeyTooLarge); ok {
					res = "keytoolarge"
				} else if _, ok := err.(*tikverr.ErrEntryTooLarge); ok {
					res = "entrytoolarge"
				} else if _, ok := err.(*tikverr.ErrTxnTooLarge); ok {
					res = "txntoolarge"
				}
			}
			if o.Op == "del" {
				v = nil
			}
			want := "ok"
			applied := true
			if o.Op == "set" && len(v) == 0 {
				want, applied = "err", false
			} else if len(k) > 65535 {
				want, applied = "keytoolarge", false
			} else if uint64(len(k)+len(v)) > ref.elim {
				want, applied = "entrytoolarge", false
			}
			if applied {
				ref.buf[string(k)] = v
				ref.flags[string(k)] = refApply(ref.flags[string(k)], append([]int{18}, o.F...))
				tr.write(string(k), v)
				if uint64(ref.size()) > ref.blim {
					want = "txntoolarge"
				}
			}
			if !oracle("write-status(limits)", res == want) {
				setFail("write-status(limits)", idx, res+" want "+want)
			}
			if o.Op == "set" {
				line(idx, "set", []string{hd(o.K), hd(o.V), fopsString(o.F)}, res)
			} else {
				line(idx, "del", []string{hd(o.K), fopsString(o.F)}, res)
			}
			if itStale != nil {
				// an iterator of the buffer that is used after a write must fail loudly (ART: sequence number)
				if _, hasSeq := unionstore.VerifUnionWriteSeq(buf); hasSeq {
					p2 := protect(func() { itStale.Valid() })
					r2 := "ok"
					if p2 != "" {
						r2 = "panic"
					}
					line(idx, "stale", nil, r2)
					if !oracle("stale-iterator-fails-loudly", (r2 == "panic") == applied) {
						setFail("stale-iterator-fails-loudly", idx, r2)
					}
				}
			}
			// latest write wins, read back through the union store
			var gv []byte
			var found bool
			var gerr error
			pan = protect(func() { gv, found, gerr = t.Get(k) })
			wv, wfound := ref.get(string(k))
			ok := pan == "" && gerr == nil && found == wfound && bytes.Equal(gv, wv)
			if !oracle("latest-write-wins", ok) {
				setFail("latest-write-wins", idx, fmt.Sprintf("read back %s found=%v want %s found=%v %s", hx(gv), found, hx(wv), wfound, pan))
			}
		case "get":
			k := unhx(o.K)
			var gv []byte
			var found bool
			var gerr error
			pan := protect(func() { gv, found, gerr = t.Get(k) })
			res := "nf"
			if pan != "" {
				res = "panic"
			} else if gerr != nil {
				res = "err"
			} else if found {
				res = "v " + hd(hx(gv))
			}
			line(idx, "get", []string{hd(o.K)}, res)
			wv, wfound := ref.get(string(k))
			ok := pan == "" && gerr == nil && found == wfound && bytes.Equal(gv, wv)
			if !oracle("get=overlay", ok) {
				setFail("get=overlay", idx, fmt.Sprintf("got %s want %s found=%v", res, hx(wv), wfound))
			}
		case "bget":
			var keys [][]byte
			var args []string
			for _, s := range o.Keys {
				keys = append(keys, unhx(s))
				args = append(args, hd(s))
			}
			var handed [][]byte
			var have bool
			var m map[string][]byte
			var berr error
			pan := protect(func() { handed, have, m, berr = t.BatchGet(keys) })
			res := ""
			if pan != "" {
				res = "panic"
			} else if berr != nil {
				res = "err"
			} else {
				var l []KV
				for k, v := range m {
					l = append(l, KV{[]byte(k), v})
				}
				sort.Slice(l, func(i, j int) bool { return bytes.Compare(l[i].K, l[j].K) < 0 })
				hs := "?"
				if have {
					var hl []string
					for _, h := range handed {
						hl = append(hl, hd(hx(h)))
					}
					hs = strings.Join(hl, ",")
					if hs == "" {
						hs = "none"
					}
				}
				res = "handed=" + hs + "|res=" + kvsString(l)
			}
			line(idx, "bget", []string{strings.Join(args, ",")}, res)
			ok := pan == "" && berr == nil
			if ok {
				want := map[string][]byte{}
				for _, k := range keys {
					if v, f := ref.get(string(k)); f {
						want[string(k)] = v
					}
				}
				ok = len(want) == len(m)
				for k, v := range want {
					if g, f := m[k]; !f || !bytes.Equal(g, v) {
						ok = false
					}
				}
			}
			if !oracle("batchget=overlay", ok) {
				setFail("batchget=overlay", idx, res)
			}
			if have && pan == "" && berr == nil {
				ok2 := true
				hm := map[string]bool{}
				for _, h := range handed {
					hm[string(h)] = true
					if _, buffered := ref.buf[string(h)]; buffered {
						ok2 = false // a buffered key was read from the snapshot again
					}
				}
				for _, k := range keys {
					if _, buffered := ref.buf[string(k)]; !buffered && !hm[string(k)] {
						ok2 = false // an unbuffered key was not handed to the snapshot
					}
				}
				if !oracle("batchget-shrinks-keys", ok2) {
					setFail("batchget-shrinks-keys", idx, res)
				}
			}
		case "iter", "riter":
			lo, hi := unhx(o.Lo), unhx(o.Hi)
			rev := o.Op == "riter"
			var l []KV
			var e string
			pan := protect(func() {
				if rev {
					l, e = drain(t.IterReverse(hi, lo))
				} else {
					l, e = drain(t.Iter(lo, hi))
				}
			})
			res := kvsString(l) + e
			if pan != "" {
				res = "panic"
			}
			line(idx, o.Op, []string{hd(o.Lo), hd(o.Hi)}, res)
			good := pan == "" && e == ""
			mono, inb, nonEmpty := true, true, true
			for i, x := range l {
				if i > 0 {
					c := bytes.Compare(l[i-1].K, x.K)
					if (!rev && c >= 0) || (rev && c <= 0) {
						mono = false
					}
				}
				if !inBounds(x.K, lo, hi) {
					inb = false
				}
				if len(x.V) == 0 {
					nonEmpty = false
				}
			}
			if !oracle("iter-strictly-monotone", good && mono) {
				setFail("iter-strictly-monotone", idx, res)
			}
			if !oracle("iter-within-bounds", good && inb) {
				setFail("iter-within-bounds", idx, res)
			}
			if !oracle("iter-no-tombstone", good && nonEmpty) {
				setFail("iter-no-tombstone", idx, res)
			}
			want := ref.list(lo, hi, rev)
			if !oracle("iter=overlay", good && kvsString(want) == kvsString(l)) {
				setFail("iter=overlay", idx, "got "+res+" want "+kvsString(want))
			}
		case "flush", "fdone", "fwait":
			pt, isPipe := t.(*pipeTarget)
			if !isPipe {
				continue
			}
			res := "ok"
			var pan string
			switch o.Op {
			case "flush":
				if tr.depth() == 0 {
					pt.complete() // Flush waits for the previous flush function
				}
				var ferr error
				var flushed bool
				pan = protect(func() { flushed, ferr = pt.buf.Flush(true) })
				if ferr != nil || !flushed {
					res = "err"
				} else {
					pt.pending = true
					tr.log, tr.lastCp = nil, 0 // a fresh mutable buffer
				}
				if !oracle("flush-accepted-iff-no-staging-level", pan == "" && (res == "ok") == (tr.depth() == 0)) {
					setFail("flush-accepted-iff-no-staging-level", idx, res+pan)
				}
			case "fdone":
				pt.complete()
			case "fwait":
				pt.complete()
				var ferr error
				pan = protect(func() { ferr = pt.buf.FlushWait() })
				if ferr != nil {
					res = "err"
				}
			}
			if pan != "" {
				res = "panic"
			}
			line(idx, o.Op, nil, res)
			// flushing never changes what the transaction reads
			if want := ref.list(nil, nil, false); true {
				okV := true
				wm := map[string][]byte{}
				for _, e := range want {
					wm[string(e.K)] = e.V
				}
				for _, k := range pt.keys {
					v, found, err := pt.Get(k)
					wv, wfound := wm[string(k)]
					if err != nil || found != wfound || !bytes.Equal(v, wv) {
						okV = false
					}
				}
				if !oracle("flush-invisible-to-reads", okV) {
					setFail("flush-invisible-to-reads", idx, fullObs(t))
				}
			}
		case "split":
			// a region split under the running transaction (real KVTxn tier only); not an operation of the model
			if o.H == 1 {
				storeSingle = false // directed programs split whatever the store's layout
			}
			if _, isTxn := t.(*txnTarget); isTxn && theCluster != nil && !storeSingle {
				k := unhx(o.K)
				mk := mocktikv.NewMvccKey(k) // the mock cluster is keyed by encoded keys
				if r, _, _, _ := theCluster.GetRegionByKey(mk); r != nil && !bytes.Equal(r.StartKey, mk) && len(k) > 0 {
					storeMultiRegion = true
					ids := theCluster.AllocIDs(2)
					theCluster.Split(r.Id, ids[0], k, []uint64{ids[1]}, ids[1])
					if countStats {
						gstats["txn-mid-program-splits"]++
					}
				}
			}
		case "uflags":
			k := unhx(o.K)
			fops := fopsOf(o.F)
			ff := o.F
			pan := protect(func() {
				if us, isUS := t.(*usTarget); isUS && o.Unmark {
					us.us.UnmarkPresumeKeyNotExists(k) // = UpdateFlags(k, DelPresumeKeyNotExists)
				} else if o.Unmark {
					buf.UpdateFlags(k, kv.DelPresumeKeyNotExists)
				} else {
					buf.UpdateFlags(k, fops...)
				}
			})
			if o.Unmark {
				ff = []int{1}
			}
			res := "ok"
			if pan != "" {
				res = "panic"
			}
			if len(k) <= 65535 { // a longer key is silently ignored
				ref.flags[string(k)] = refApply(ref.flags[string(k)], ff)
			}
			line(idx, "uflags", []string{hd(o.K), fopsString(ff)}, res)
			if !oracle("flags-update-accepted", pan == "") {
				setFail("flags-update-accepted", idx, pan)
			}
		case "limits":
			e, b := o.E, o.B
			if e == 0 {
				e = ^uint64(0)
			}
			if b == 0 {
				b = ^uint64(0)
			}
			buf.SetEntrySizeLimit(e, b)
			ref.elim, ref.blim = e, b
			line(idx, "limits", []string{strconv.FormatUint(e, 16), strconv.FormatUint(b, 16)}, "ok")
		case "gflags":
			k := unhx(o.K)
			var f kv.KeyFlags
			var ferr error
			pan := protect(func() { f, ferr = buf.GetFlags(k) })
			res := "nf"
			if pan != "" {
				res = "panic"
			} else if ferr == nil {
				res = "f " + strconv.Itoa(int(f))
			}
			line(idx, "gflags", []string{hd(o.K)}, res)
			wf, ok := ref.flags[string(k)]
			want := "nf"
			if ok {
				want = "f " + strconv.Itoa(int(wf))
			}
			if !oracle("flags=fold-of-flag-ops", res == want) {
				setFail("flags=fold-of-flag-ops", idx, res+" want "+want)
			}
			if us, isUS := t.(*usTarget); isUS {
				has := us.us.HasPresumeKeyNotExists(k)
				if !oracle("has-presume-kne", has == (ok && wf&(1|4096) != 0)) {
					setFail("has-presume-kne", idx, fmt.Sprint(has))
				}
			}
		case "dirty":
			var d bool
			pan := protect(func() { d = buf.Dirty() })
			res := strconv.FormatBool(d)
			if pan != "" {
				res = "panic"
			}
			line(idx, "dirty", nil, res)
			// a buffer that holds a value or a flag written outside every staging level is dirty; never clean again
			if !oracle("dirty-is-monotone", pan == "" && (d || !wasDirty)) {
				setFail("dirty-is-monotone", idx, res)
			}
			wasDirty = wasDirty || d
		case "sseq":
			if n, ok := unionstore.VerifUnionSnapshotSeq(buf); ok {
				line(idx, "sseq", nil, strconv.Itoa(n))
			}
		case "len":
			var n, sz int
			pan := protect(func() { n, sz = buf.Len(), buf.Size() })
			res := fmt.Sprintf("len %d size %d", n, sz)
			if pan != "" {
				res = "panic"
			}
			line(idx, "len", nil, res)
			if !oracle("len=existing-keys,size=keys+values", pan == "" && n == len(ref.flags) && sz == ref.size()) {
				setFail("len=existing-keys,size=keys+values", idx, fmt.Sprintf("%s want len %d size %d", res, len(ref.flags), ref.size()))
			}
		case "iterf", "riterf":
			lo, hi := unhx(o.Lo), unhx(o.Hi)
			rev := o.Op == "riterf"
			if rev {
				lo = nil
			}
			var l []unionstore.VerifUnionFlagged
			var okT bool
			pan := protect(func() { l, okT = unionstore.VerifUnionIterWithFlags(buf, lo, hi, rev) })
			if pan == "" && !okT {
				continue
			}
			var parts []string
			for _, e := range l {
				v := "nil"
				if e.HasV {
					v = hd(hx(e.V))
				}
				parts = append(parts, hd(hx(e.K))+":"+strconv.Itoa(int(e.F))+":"+v)
			}
			res := strings.Join(parts, ",")
			if res == "" {
				res = "-"
			}
			if pan != "" {
				res = "panic"
			}
			line(idx, o.Op, []string{hd(hx(lo)), hd(o.Hi)}, res)
			// every existing key in bounds, in order, with the folded flags and the current value
			var keys []string
			for k := range ref.flags {
				if inBounds([]byte(k), lo, hi) {
					keys = append(keys, k)
				}
			}
			sort.Strings(keys)
			if rev {
				for i, j := 0, len(keys)-1; i < j; i, j = i+1, j-1 {
					keys[i], keys[j] = keys[j], keys[i]
				}
			}
			var wparts []string
			for _, k := range keys {
				v := "nil"
				if bv, has := ref.buf[k]; has {
					v = hd(hx(bv))
				}
				wparts = append(wparts, hd(hx([]byte(k)))+":"+strconv.Itoa(int(ref.flags[k]))+":"+v)
			}
			want := strings.Join(wparts, ",")
			if want == "" {
				want = "-"
			}
			if !oracle("iter-with-flags=existing-keys", res == want) {
				setFail("iter-with-flags=existing-keys", idx, res+" want "+want)
			}
		case "sget":
			k := unhx(o.K)
			var ve kv.ValueEntry
			var gerr error
			pan := protect(func() { ve, gerr = buf.SnapshotGetter().Get(context.Background(), k) })
			res := "nf"
			if pan != "" {
				res = "panic"
			} else if gerr == nil {
				res = "v " + hd(hx(ve.Value))
			} else if !tikverr.IsErrNotFound(gerr) {
				res = "err"
			}
			line(idx, "sget", []string{hd(o.K)}, res)
			base := ref.buf
			if len(ref.stack) > 0 {
				base = ref.stack[0]
			}
			want := "nf"
			if bv, has := base[string(k)]; has {
				want = "v " + hd(hx(bv))
			}
			if !oracle("snapshot-read-ignores-staging", res == want) {
				setFail("snapshot-read-ignores-staging", idx, res+" want "+want)
			}
		case "sbget":
			// BufferSnapshotBatchGetter: the second copy of the batch-get merge loop, over the staging-blind view
			if _, isPipe := t.(*pipeTarget); isPipe {
				continue
			}
			var keys [][]byte
			var args []string
			for _, h := range o.Keys {
				keys = append(keys, unhx(h))
				args = append(args, hd(h))
			}
			var m map[string]kv.ValueEntry
			var berr error
			var handed [][]byte
			have := false
			pan := protect(func() {
				switch tt := t.(type) {
				case *usTarget:
					tt.snap.handed = nil
					m, berr = transaction.NewBufferSnapshotBatchGetter(snapBuf{buf.SnapshotGetter()}, tt.snap).BatchGet(context.Background(), keys)
					handed, have = tt.snap.handed, true
				case *txnTarget:
					m, berr = transaction.NewBufferSnapshotBatchGetter(snapBuf{buf.SnapshotGetter()}, tt.txn.GetSnapshot()).BatchGet(context.Background(), keys)
				}
			})
			res := ""
			if pan != "" {
				res = "panic"
			} else if berr != nil {
				res = "err"
			} else {
				var l []KV
				for k, v := range m {
					l = append(l, KV{[]byte(k), v.Value})
				}
				sort.Slice(l, func(i, j int) bool { return bytes.Compare(l[i].K, l[j].K) < 0 })
				hs := "?"
				if have {
					var hl []string
					for _, h := range handed {
						hl = append(hl, hd(hx(h)))
					}
					hs = strings.Join(hl, ",")
					if hs == "" {
						hs = "none"
					}
				}
				res = "handed=" + hs + "|res=" + kvsString(l)
			}
			line(idx, "sbget", []string{strings.Join(args, ",")}, res)
			base := ref.buf
			if len(ref.stack) > 0 {
				base = ref.stack[0]
			}
			okS := pan == "" && berr == nil
			if okS {
				want := map[string][]byte{}
				for _, k := range keys {
					if bv, has := base[string(k)]; has {
						if len(bv) > 0 {
							want[string(k)] = bv
						}
					} else if sv, has := ref.snap[string(k)]; has {
						want[string(k)] = sv
					}
				}
				okS = len(want) == len(m)
				for k, v := range want {
					if g, f := m[k]; !f || !bytes.Equal(g.Value, v) {
						okS = false
					}
				}
				if have {
					hm := map[string]bool{}
					for _, h := range handed {
						hm[string(h)] = true
						if _, b := base[string(h)]; b {
							okS = false
						}
					}
					for _, k := range keys {
						if _, b := base[string(k)]; !b && !hm[string(k)] {
							okS = false
						}
					}
				}
			}
			if !oracle("snapshot-batchget=base-overlay", okS) {
				setFail("snapshot-batchget=base-overlay", idx, res)
			}
		case "snapnew", "snapget", "snapscan":
			// a MemBufferSnapshot object (GetSnapshot) kept across operations: it answers with the staging-blind view
			// of its creation as long as SnapshotSeqNo has not moved, and refuses ("invalid iter") afterwards
			if _, hasSeq := unionstore.VerifUnionSnapshotSeq(buf); !hasSeq {
				continue // RBT keeps no sequence number: its snapshot objects never refuse (code behaviour, not compared)
			}
			if o.Op == "snapnew" {
				pan := protect(func() { snapObj = buf.GetSnapshot() })
				snapBase = copyMap(ref.buf)
				if len(ref.stack) > 0 {
					snapBase = copyMap(ref.stack[0])
				}
				res := "ok"
				if pan != "" {
					res = "panic"
				}
				line(idx, "snapnew", nil, res)
				continue
			}
			if snapObj == nil {
				continue
			}
			res, okO := "", true
			if o.Op == "snapget" {
				k := unhx(o.K)
				var ve kv.ValueEntry
				var gerr error
				pan := protect(func() { ve, gerr = snapObj.Get(context.Background(), k) })
				switch {
				case pan != "":
					res = "panic"
				case gerr == nil:
					res = "v " + hd(hx(ve.Value))
				case tikverr.IsErrNotFound(gerr):
					res = "nf"
				case strings.Contains(gerr.Error(), "invalid iter"):
					res = "invalid"
				default:
					res = "err"
				}
				line(idx, "snapget", []string{hd(o.K)}, res)
				if res != "invalid" {
					want := "nf"
					if bv, has := snapBase[string(k)]; has {
						want = "v " + hd(hx(bv))
					}
					okO = res == want
				}
			} else {
				lo, hi := unhx(o.Lo), unhx(o.Hi)
				rev := o.H == 1
				var l []KV
				invalid := false
				pan := protect(func() {
					it := snapObj.BatchedSnapshotIter(lo, hi, rev)
					for n := 0; it.Valid() && n < maxIter; n++ {
						l = append(l, KV{append([]byte{}, it.Key()...), append([]byte{}, it.Value()...)})
						if e := it.Next(); e != nil {
							invalid = true
							break
						}
					}
					if e := it.Next(); e != nil && strings.Contains(e.Error(), "invalid iter") {
						invalid = true
					}
					it.Close()
				})
				res = kvsString(l)
				if invalid {
					res = "invalid"
				}
				if pan != "" {
					res = "panic"
				}
				dir := "fwd"
				if rev {
					dir = "rev"
				}
				line(idx, "snapscan", []string{hd(o.Lo), hd(o.Hi), dir}, res)
				if res != "invalid" {
					var wl []KV
					for k, v := range snapBase {
						if inBounds([]byte(k), lo, hi) {
							wl = append(wl, KV{[]byte(k), v})
						}
					}
					sort.Slice(wl, func(i, j int) bool {
						c := bytes.Compare(wl[i].K, wl[j].K)
						if rev {
							return c > 0
						}
						return c < 0
					})
					okO = kvsString(wl) == res
				}
			}
			if !oracle("snapshot-object=view-at-creation-or-invalid", okO) {
				setFail("snapshot-object=view-at-creation-or-invalid", idx, res)
			}
		case "siter", "sriter":
			lo, hi := unhx(o.Lo), unhx(o.Hi)
			rev := o.Op == "sriter"
			var l []KV
			var e string
			pan := protect(func() {
				if rev {
					l, e = drain(buf.SnapshotIterReverse(hi, lo), nil)
				} else {
					l, e = drain(buf.SnapshotIter(lo, hi), nil)
				}
			})
			res := kvsString(l) + e
			if pan != "" {
				res = "panic"
			}
			line(idx, o.Op, []string{hd(o.Lo), hd(o.Hi)}, res)
			base := ref.buf
			if len(ref.stack) > 0 {
				base = ref.stack[0]
			}
			var wl []KV
			for k, v := range base {
				if inBounds([]byte(k), lo, hi) {
					wl = append(wl, KV{[]byte(k), v})
				}
			}
			sort.Slice(wl, func(i, j int) bool {
				c := bytes.Compare(wl[i].K, wl[j].K)
				if rev {
					return c > 0
				}
				return c < 0
			})
			if !oracle("snapshot-iter-ignores-staging", pan == "" && e == "" && kvsString(wl) == kvsString(l)) {
				setFail("snapshot-iter-ignores-staging", idx, res+" want "+kvsString(wl))
			}
		case "hist":
			k := unhx(o.K)
			var hl [][]byte
			var herr error
			pan := protect(func() { hl, herr = unionstore.VerifUnionHistory(buf, k) })
			res := "nf"
			if pan != "" {
				res = "panic"
			} else if herr == nil {
				var parts []string
				for _, v := range hl {
					parts = append(parts, hd(hx(v)))
				}
				res = "h " + strings.Join(parts, ",")
			}
			line(idx, "hist", []string{hd(o.K)}, res)
			// the newest version is the buffered value; a key without value has no history
			bv, has := ref.buf[string(k)]
			ok := pan == "" && (has == (herr == nil)) && (!has || (len(hl) > 0 && bytes.Equal(hl[0], bv)))
			if !oracle("history-head=buffered-value", ok) {
				setFail("history-head=buffered-value", idx, res)
			}
		case "inspect":
			h := o.H
			if h < 0 {
				h = tr.depth()
			}
			if h < 1 || h > tr.depth() {
				continue
			}
			var parts []string
			seen := map[string]bool{}
			dup := false
			pan := protect(func() {
				buf.InspectStage(h, func(k []byte, f kv.KeyFlags, v []byte) {
					if seen[string(k)] {
						dup = true
					}
					seen[string(k)] = true
					parts = append(parts, hd(hx(k))+":"+strconv.Itoa(int(f))+":"+hd(hx(v)))
				})
			})
			res := strings.Join(parts, ",")
			if res == "" {
				res = "-"
			}
			if pan != "" {
				res = "panic"
			}
			line(idx, "inspect", []string{strconv.Itoa(h)}, res)
			// exactly the keys whose buffered value differs from (or is newer than) the one at Staging h: at
			// least every key whose value changed since, each once, with its current value
			okI := pan == "" && !dup
			before := ref.stack[h-1]
			for k, v := range ref.buf {
				if bv, had := before[k]; !had || !bytes.Equal(bv, v) {
					if !seen[k] {
						okI = false
					}
				}
			}
			if !oracle("inspect-stage-covers-changes", okI) {
				setFail("inspect-stage-covers-changes", idx, res)
			}
		case "staging":
			obs := fullObs(t)
			var h int
			pan := protect(func() { h = buf.Staging() })
			res := "h " + strconv.Itoa(h)
			if pan != "" {
				res = "panic"
			}
			tr.staging()
			ref.stack = append(ref.stack, copyMap(ref.buf))
			stageObs = append(stageObs, obs)
			line(idx, "staging", nil, res)
			if !oracle("staging-handle", pan == "" && h == tr.depth()) {
				setFail("staging-handle", idx, res)
			}
		case "release", "cleanup":
			h := o.H
			if h < 0 {
				h = tr.depth()
			}
			live := h == tr.depth() && h > 0
			before := ""
			if !live || o.Op == "release" {
				before = fullObs(t)
			}
			pan := protect(func() {
				if o.Op == "release" {
					buf.Release(h)
				} else {
					buf.Cleanup(h)
				}
			})
			res := "ok"
			if pan != "" {
				res = "panic"
			}
			line(idx, o.Op, []string{strconv.Itoa(h)}, res)
			expectPanic := (o.Op == "release" && h != 0 && h != tr.depth()) || (o.Op == "cleanup" && h > 0 && h < tr.depth())
			if !oracle("savepoint-misuse-rejected", (pan != "") == expectPanic) {
				setFail("savepoint-misuse-rejected", idx, res+" "+pan)
			}
			if live {
				n := len(stageObs) - 1
				if o.Op == "release" {
					tr.release()
					if !oracle("release-keeps", fullObs(t) == before) {
						setFail("release-keeps", idx, "view changed by release")
					}
				} else {
					tr.cleanup()
					ref.undoTo(ref.stack[n])
					for id := range ref.cps {
						if _, ok := tr.cps[id]; !ok {
							delete(ref.cps, id)
						}
					}
					after := fullObs(t)
					if !oracle("cleanup-restores", after == stageObs[n]) {
						setFail("cleanup-restores", idx, "before-staging "+stageObs[n]+" after-cleanup "+after)
					}
				}
				ref.stack = ref.stack[:n]
				stageObs = stageObs[:n]
			} else if pan == "" {
				// no-op calls must not change the view
				if !oracle("noop-savepoint-call", fullObs(t) == before) {
					setFail("noop-savepoint-call", idx, "view changed")
				}
			}
		case "cp":
			var c *unionstore.MemDBCheckpoint
			pan := protect(func() { c = buf.Checkpoint() })
			if pan != "" {
				setFail("checkpoint", idx, pan)
				break
			}
			realCps[o.ID] = c
			tr.checkpoint(o.ID)
			ref.cps[o.ID] = copyMap(ref.buf)
			cpObs[o.ID] = fullObs(t)
			line(idx, "cp", []string{strconv.Itoa(o.ID)}, "ok")
		case "revert":
			if !tr.canRevert(o.ID) {
				continue // dead checkpoint or below the top staging level: not a legal call, skipped
			}
			pan := protect(func() { buf.RevertToCheckpoint(realCps[o.ID]) })
			res := "ok"
			if pan != "" {
				res = "panic"
			}
			tr.revert(o.ID)
			ref.undoTo(copyMap(ref.cps[o.ID]))
			for id := range ref.cps {
				if _, ok := tr.cps[id]; !ok {
					delete(ref.cps, id)
				}
			}
			line(idx, "revert", []string{strconv.Itoa(o.ID)}, res)
			after := fullObs(t)
			if !oracle("revert-restores", pan == "" && after == cpObs[o.ID]) {
				setFail("revert-restores", idx, "at-checkpoint "+cpObs[o.ID]+" after-revert "+after+" "+pan)
			}
		}
	}
	if emit != nil {
		emit(fmt.Sprintf("END\t%d", id))
	}
	return fail, false
}

// ---------------------------------------------------------------- minimiser (in process)
func fails(p *Program, wantFired *bool) (*failure, bool) {
	save := countStats
	countStats = false
	defer func() { countStats = save }()
	f, fired := execProgram(0, p, nil)
	if f == nil {
		return nil, fired
	}
	if wantFired != nil && fired != *wantFired {
		return nil, fired
	}
	return f, fired
}
func cloneProg(p *Program) *Program {
	q := *p
	q.Snap = append([][2]string{}, p.Snap...)
	q.Ops = append([]Op{}, p.Ops...)
	return &q
}

// minimise: 1-minimal w.r.t. removing an op, a snapshot entry, a batch key; under the constraint that the
// predicted F03 status equals wantFired (nil = unconstrained)
func minimise(p *Program, wantFired *bool) *Program {
	cur := cloneProg(p)
	f, _ := fails(cur, wantFired)
	if f == nil {
		return nil
	}
	if f.idx+1 < len(cur.Ops) {
		cur.Ops = cur.Ops[:f.idx+1]
	}
	for changed := true; changed; {
		changed = false
		for i := len(cur.Ops) - 1; i >= 0; i-- {
			c := cloneProg(cur)
			c.Ops = append(c.Ops[:i:i], cur.Ops[i+1:]...)
			if f, _ := fails(c, wantFired); f != nil {
				cur = c
				changed = true
			}
		}
		for i := len(cur.Snap) - 1; i >= 0; i-- {
			c := cloneProg(cur)
			c.Snap = append(c.Snap[:i:i], cur.Snap[i+1:]...)
			if f, _ := fails(c, wantFired); f != nil {
				cur = c
				changed = true
			}
		}
		for i := range cur.Ops {
			for j := len(cur.Ops[i].Keys) - 1; j >= 0 && len(cur.Ops[i].Keys) > 1; j-- {
				c := cloneProg(cur)
				ks := append([]string{}, cur.Ops[i].Keys[:j]...)
				ks = append(ks, cur.Ops[i].Keys[j+1:]...)
				c.Ops[i].Keys = ks
				if f, _ := fails(c, wantFired); f != nil {
					cur = c
					changed = true
				}
			}
			if len(cur.Ops[i].F) > 0 || cur.Ops[i].Stale {
				c := cloneProg(cur)
				c.Ops[i].F, c.Ops[i].Stale = nil, false
				if f, _ := fails(c, wantFired); f != nil {
					cur = c
					changed = true
				}
			}
			if cur.Ops[i].Lo != "" || cur.Ops[i].Hi != "" {
				c := cloneProg(cur)
				c.Ops[i].Lo, c.Ops[i].Hi = "", ""
				if f, _ := fails(c, wantFired); f != nil {
					cur = c
					changed = true
				}
			}
		}
	}
	return cur
}

// ---------------------------------------------------------------- generator
var gstats = map[string]int{}

func keyPool(r *rand.Rand, txn bool) [][]byte {
	base := [][]byte{{}, {0}, {0, 0}, {0xff}, {0xff, 0xff}, {0xff, 0}, {'a'}, {'a', 0}, {'a', 0, 0}, {'a', 0xff}, {'a', 0xff, 0xff},
		{'a', 'b'}, {'a', 'b', 0}, {'a', 1}, {'b'}, {'b', 0xff}, {0, 0xff}, {0xfe}, {1}, {'a', 'a', 'a', 'a', 'a', 'a', 'a', 'a', 'a', 'a', 'a', 'a', 'a', 'a', 'a', 'a', 'a', 'a', 'a', 'a', 'a', 'a', 'b'},
		{'a', 'a', 'a', 'a', 'a', 'a', 'a', 'a', 'a', 'a', 'a', 'a', 'a', 'a', 'a', 'a', 'a', 'a', 'a', 'a', 'a', 'a', 'c'}}
	alpha := []byte{0, 1, 'a', 'b', 0xfe, 0xff}
	n := 3 + r.Intn(9)
	seen := map[string]bool{}
	var pool [][]byte
	for len(pool) < n {
		var k []byte
		switch r.Intn(4) {
		case 0, 1:
			k = base[r.Intn(len(base))]
		case 2:
			l := 1 + r.Intn(3)
			for i := 0; i < l; i++ {
				k = append(k, alpha[r.Intn(len(alpha))])
			}
		default: // extend an existing pool key: prefix relation
			if len(pool) > 0 {
				k = append(append([]byte{}, pool[r.Intn(len(pool))]...), alpha[r.Intn(len(alpha))])
			} else {
				k = []byte{'a'}
			}
		}
		if txn && len(k) == 0 {
			continue
		}
		if !seen[string(k)] {
			seen[string(k)] = true
			pool = append(pool, k)
		}
	}
	return pool
}
func genValue(r *rand.Rand, big bool) []byte {
	alpha := []byte{'x', 'y', 0, 0xff}
	l := 1 + r.Intn(3)
	if big && r.Intn(12) == 0 {
		l = 1200 + r.Intn(3000)
	}
	v := make([]byte, l)
	for i := range v {
		v[i] = alpha[r.Intn(len(alpha))]
	}
	return v
}
func genBound(r *rand.Rand, pool [][]byte) []byte {
	switch r.Intn(6) {
	case 0, 1:
		return nil
	case 2:
		return append(append([]byte{}, pool[r.Intn(len(pool))]...), 0)
	case 3:
		k := pool[r.Intn(len(pool))]
		if len(k) > 0 {
			return k[:len(k)-1]
		}
		return k
	default:
		return pool[r.Intn(len(pool))]
	}
}

func genProgram(r *rand.Rand, targetKind string, nops int, big bool) *Program {
	p := &Program{Target: targetKind}
	txn := targetKind == "txn"
	pool := keyPool(r, txn)
	for _, k := range pool {
		if r.Intn(2) == 0 {
			p.Snap = append(p.Snap, [2]string{hx(k), hx(genValue(r, false))})
		}
	}
	tr := newTracker()
	nextCp := 1
	var lastBget []string
	limited := r.Intn(8) == 0 // programs that play with the entry / buffer size limits
	pick := func() []byte { return pool[r.Intn(len(pool))] }
	for len(p.Ops) < nops {
		x := r.Intn(127)
		if txn && r.Intn(40) == 0 {
			p.Ops = append(p.Ops, Op{Op: "split", K: hx(genBound(r, pool))})
			continue
		}
		genFops := func() []int {
			if r.Intn(4) != 0 {
				return nil
			}
			n := 1 + r.Intn(2)
			var f []int
			for i := 0; i < n; i++ {
				switch r.Intn(6) {
				case 0:
					f = append(f, 0) // SetPresumeKeyNotExists
				case 1:
					f = append(f, 19) // SetPreviousPresumeKNE
				default:
					f = append(f, r.Intn(22))
				}
			}
			return f
		}
		switch {
		case x >= 100 && x < 106:
			f := genFops()
			if f == nil {
				f = []int{r.Intn(22)}
			}
			if r.Intn(5) == 0 {
				p.Ops = append(p.Ops, Op{Op: "uflags", K: hx(pick()), Unmark: true})
			} else {
				p.Ops = append(p.Ops, Op{Op: "uflags", K: hx(pick()), F: f})
			}
		case x >= 106 && x < 110:
			p.Ops = append(p.Ops, Op{Op: "gflags", K: hx(pick())})
		case x >= 110 && x < 113:
			switch r.Intn(3) {
			case 0:
				p.Ops = append(p.Ops, Op{Op: "dirty"})
			case 1:
				p.Ops = append(p.Ops, Op{Op: "sseq"})
			default:
				p.Ops = append(p.Ops, Op{Op: "len"})
			}
		case x >= 113 && x < 116:
			if r.Intn(3) == 0 {
				p.Ops = append(p.Ops, Op{Op: "riterf", Hi: hx(genBound(r, pool))})
			} else {
				p.Ops = append(p.Ops, Op{Op: "iterf", Lo: hx(genBound(r, pool)), Hi: hx(genBound(r, pool))})
			}
		case x >= 116 && x < 118:
			if r.Intn(2) == 0 {
				n := 1 + r.Intn(4)
				var ks []string
				for i := 0; i < n; i++ {
					ks = append(ks, hx(pick()))
				}
				if r.Intn(2) == 0 {
					ks = append(ks, ks[r.Intn(len(ks))])
				}
				p.Ops = append(p.Ops, Op{Op: "sbget", Keys: ks})
			} else if r.Intn(2) == 0 {
				p.Ops = append(p.Ops, Op{Op: "sget", K: hx(pick())})
			} else if r.Intn(3) == 0 {
				p.Ops = append(p.Ops, Op{Op: "snapnew"})
			} else {
				p.Ops = append(p.Ops, Op{Op: "snapget", K: hx(pick())})
			}
		case x >= 118 && x < 121:
			kind := "siter"
			if r.Intn(2) == 0 {
				kind = "sriter"
			}
			p.Ops = append(p.Ops, Op{Op: kind, Lo: hx(genBound(r, pool)), Hi: hx(genBound(r, pool))})
		case x >= 121 && x < 123:
			switch r.Intn(5) {
			case 0:
				p.Ops = append(p.Ops, Op{Op: "snapnew"})
			case 1, 2:
				p.Ops = append(p.Ops, Op{Op: "snapget", K: hx(pick())})
			case 3:
				p.Ops = append(p.Ops, Op{Op: "snapscan", Lo: hx(genBound(r, pool)), Hi: hx(genBound(r, pool)), H: r.Intn(2)})
			default:
				p.Ops = append(p.Ops, Op{Op: "hist", K: hx(pick())})
			}
		case x >= 123 && x < 125:
			if tr.depth() > 0 {
				p.Ops = append(p.Ops, Op{Op: "inspect", H: 1 + r.Intn(tr.depth())})
			}
		case x >= 125:
			if limited && r.Intn(3) != 0 {
				p.Ops = append(p.Ops, Op{Op: "limits"}) // back to unlimited
			} else if limited {
				p.Ops = append(p.Ops, Op{Op: "limits", E: uint64(3 + r.Intn(6)), B: uint64(8 + r.Intn(40))})
			}
		case x < 28:
			k := pick()
			v := genValue(r, big)
			if r.Intn(40) == 0 {
				v = nil
			}
			if len(v) > 0 && tr.inplaceIdx(string(k), v) < 0 && tr.head(string(k)) >= 0 && len(tr.log[tr.head(string(k))].v) == len(v) {
				gstats["same-length-overwrite-not-in-place(protected)"]++
			}
			if len(v) > 0 {
				if tr.inplaceIdx(string(k), v) >= 0 {
					gstats["inplace-overwrite"]++
				}
				tr.write(string(k), v)
			}
			p.Ops = append(p.Ops, Op{Op: "set", K: hx(k), V: hx(v), F: genFops(), Stale: r.Intn(15) == 0})
		case x < 40:
			k := pick()
			tr.write(string(k), nil)
			p.Ops = append(p.Ops, Op{Op: "del", K: hx(k), F: genFops(), Stale: r.Intn(20) == 0})
		case x < 50:
			p.Ops = append(p.Ops, Op{Op: "get", K: hx(pick())})
		case x < 58:
			n := 1 + r.Intn(5)
			var ks []string
			for i := 0; i < n; i++ {
				ks = append(ks, hx(pick()))
			}
			// directed class: a key listed twice, preferably one whose buffered value is a tombstone
			if r.Intn(3) == 0 {
				var tombs []string
				for _, k := range pool {
					if i := tr.head(string(k)); i >= 0 && len(tr.log[i].v) == 0 {
						tombs = append(tombs, hx(k))
					}
				}
				if len(tombs) > 0 {
					k := tombs[r.Intn(len(tombs))]
					pos := r.Intn(len(ks) + 1)
					ks = append(ks[:pos:pos], append([]string{k}, ks[pos:]...)...)
					ks = append(ks, k)
					gstats["bget-duplicated-tombstone-key"]++
				} else {
					ks = append(ks, ks[r.Intn(len(ks))])
					gstats["bget-duplicated-key"]++
				}
			}
			if txn && lastBget != nil && r.Intn(3) == 0 {
				ks = lastBget // same keys again: the snapshot's value cache is warm
				gstats["txn-bget-repeated-keys"]++
			}
			lastBget = ks
			p.Ops = append(p.Ops, Op{Op: "bget", Keys: ks})
		case x < 68:
			p.Ops = append(p.Ops, Op{Op: "iter", Lo: hx(genBound(r, pool)), Hi: hx(genBound(r, pool))})
		case x < 78:
			p.Ops = append(p.Ops, Op{Op: "riter", Lo: hx(genBound(r, pool)), Hi: hx(genBound(r, pool))})
		case x < 84:
			if tr.depth() < 4 {
				tr.staging()
				p.Ops = append(p.Ops, Op{Op: "staging"})
			}
		case x < 88:
			if r.Intn(25) == 0 && !txn {
				p.Ops = append(p.Ops, Op{Op: "release", H: r.Intn(5)}) // possibly a wrong handle
				if h := p.Ops[len(p.Ops)-1].H; h == tr.depth() && h > 0 {
					tr.release()
				}
			} else if tr.depth() > 0 {
				tr.release()
				p.Ops = append(p.Ops, Op{Op: "release", H: -1})
			}
		case x < 92:
			if r.Intn(25) == 0 && !txn {
				p.Ops = append(p.Ops, Op{Op: "cleanup", H: r.Intn(5)})
				if h := p.Ops[len(p.Ops)-1].H; h == tr.depth() && h > 0 {
					tr.cleanup()
				}
			} else if tr.depth() > 0 {
				tr.cleanup()
				p.Ops = append(p.Ops, Op{Op: "cleanup", H: -1})
			}
		case x < 96:
			tr.checkpoint(nextCp)
			p.Ops = append(p.Ops, Op{Op: "cp", ID: nextCp})
			nextCp++
		default:
			var ok []int
			for id := range tr.cps {
				if tr.canRevert(id) {
					ok = append(ok, id)
				}
			}
			if len(ok) > 0 {
				sort.Ints(ok)
				id := ok[r.Intn(len(ok))]
				tr.revert(id)
				p.Ops = append(p.Ops, Op{Op: "revert", ID: id})
			}
		}
	}
	return p
}

// programs for the pipelined buffer: writes, point / batch reads, staging levels and a scripted flush schedule
func genPipeProgram(r *rand.Rand, nops int) *Program {
	p := &Program{Target: "pipe"}
	pool := keyPool(r, false)
	for _, k := range pool {
		if r.Intn(2) == 0 {
			p.Snap = append(p.Snap, [2]string{hx(k), hx(genValue(r, false))})
		}
	}
	pick := func() []byte { return pool[r.Intn(len(pool))] }
	depth := 0
	for len(p.Ops) < nops {
		x := r.Intn(100)
		switch {
		case x < 20:
			v := genValue(r, false)
			if r.Intn(40) == 0 {
				v = nil
			}
			p.Ops = append(p.Ops, Op{Op: "set", K: hx(pick()), V: hx(v)})
		case x < 34:
			p.Ops = append(p.Ops, Op{Op: "del", K: hx(pick())})
		case x < 52:
			p.Ops = append(p.Ops, Op{Op: "get", K: hx(pick())})
		case x < 66:
			n := 1 + r.Intn(4)
			var ks []string
			for i := 0; i < n; i++ {
				ks = append(ks, hx(pick()))
			}
			if r.Intn(3) == 0 {
				ks = append(ks, ks[r.Intn(len(ks))])
			}
			p.Ops = append(p.Ops, Op{Op: "bget", Keys: ks})
		case x < 72:
			if depth < 3 {
				depth++
				p.Ops = append(p.Ops, Op{Op: "staging"})
			}
		case x < 77:
			if depth > 0 {
				depth--
				p.Ops = append(p.Ops, Op{Op: "release", H: -1})
			}
		case x < 82:
			if depth > 0 {
				depth--
				p.Ops = append(p.Ops, Op{Op: "cleanup", H: -1})
			}
		case x < 90:
			if depth == 0 || r.Intn(6) == 0 {
				p.Ops = append(p.Ops, Op{Op: "flush"})
			}
		case x < 95:
			p.Ops = append(p.Ops, Op{Op: "fdone"})
		default:
			p.Ops = append(p.Ops, Op{Op: "fwait"})
		}
	}
	return p
}

// ---------------------------------------------------------------- main
func transcript(p *Program) string {
	var sb strings.Builder
	save := countStats
	countStats = false
	execProgram(0, p, func(s string) { sb.WriteString(strings.ReplaceAll(s, "\t", " ")); sb.WriteString(" ;; ") })
	countStats = save
	return sb.String()
}

func report(out *bufio.Writer, id int, p *Program, f *failure, fired bool) {
	min := minimise(p, nil)
	minFired := false
	if min == nil {
		min = p
	}
	mf, _ := fails(min, nil)
	oname := f.oracle
	if mf != nil {
		oname = mf.oracle
	}
	pj, _ := json.Marshal(p)
	mj, _ := json.Marshal(min)
	detail := "original: " + f.detail
	if mf != nil {
		detail = mf.detail + " || " + detail
	}
	fmt.Fprintf(out, "FAIL\t%s\t%d\t%s\t%s\t%s\t%v\t%s\t%d\n", oname, f.idx, pj, mj, transcript(min), minFired, strings.ReplaceAll(detail, "\t", " "), id)
}

func main() {
	// the library logs to stdout ("delete a record not exists?" on every leading tombstone): keep the
	// transcript apart (VERIF_OUT) and the log quiet
	if os.Getenv("VERIF_C07_LOG") != "" {
		log.SetLevel(zapcore.DebugLevel)
	} else {
		log.SetLevel(zapcore.FatalLevel)
	}
	// Panic-level records (stale iterator probes) would print a stack each
	dst := os.Stdout
	if f := os.Getenv("VERIF_OUT"); f != "" {
		fh, err := os.Create(f)
		must(err)
		defer fh.Close()
		dst = fh
	}
	out := bufio.NewWriterSize(dst, 1<<20)
	defer out.Flush()
	flushEach := os.Getenv("VERIF_C07_FLUSH") != ""
	emit := func(s string) {
		out.WriteString(s)
		out.WriteByte('\n')
		if flushEach {
			out.Flush()
		}
	}
	if len(os.Args) > 2 && os.Args[1] == "replay" {
		data, err := os.ReadFile(os.Args[2])
		must(err)
		var progs []*Program
		must(json.Unmarshal(data, &progs))
		for i, p := range progs {
			f, fired := execProgram(i+1, p, emit)
			if f != nil {
				report(out, i+1, p, f, fired)
			}
		}
		finish(out)
		return
	}
	seed, _ := strconv.ParseInt(os.Getenv("VERIF_SEED"), 10, 64)
	if seed == 0 {
		seed = 1
	}
	thorough := os.Getenv("VERIF_TIER") == "thorough"
	nUS, nTxn, nops := 5000, 600, 40
	if thorough {
		nUS, nTxn, nops = 150000, 12000, 60
	}
	if v := os.Getenv("VERIF_C07_PROGRAMS"); v != "" {
		n, _ := strconv.Atoi(v)
		nUS, nTxn = n, n/8
	}
	if v := os.Getenv("VERIF_C07_TXN"); v != "" {
		nTxn, _ = strconv.Atoi(v)
	}
	r := rand.New(rand.NewSource(seed*7919 + 13))
	id := 0
	nfail := 0
	runOne := func(p *Program) {
		id++
		f, fired := execProgram(id, p, emit)
		gstats["programs-"+p.Target]++
		_ = fired
		if f != nil {
			nfail++
			if nfail <= 40 {
				report(out, id, p, f, false)
			}
		}
	}
	// directed regression for F03 (fixed by 6b4091a): a same-length overwrite after a checkpoint must be undone
	// by RevertToCheckpoint — plain, inside a staging level, after a release, with a second checkpoint
	for _, kind := range []string{"art", "rbt", "txn"} {
		for _, ops := range [][]Op{
			{{Op: "set", K: "78", V: "6161"}, {Op: "cp", ID: 1}, {Op: "set", K: "78", V: "6262"}, {Op: "revert", ID: 1}, {Op: "get", K: "78"}},
			{{Op: "staging"}, {Op: "set", K: "78", V: "6161"}, {Op: "cp", ID: 1}, {Op: "set", K: "78", V: "6262"}, {Op: "hist", K: "78"}, {Op: "revert", ID: 1}, {Op: "get", K: "78"}, {Op: "cleanup", H: -1}, {Op: "get", K: "78"}},
			{{Op: "set", K: "78", V: "6161"}, {Op: "cp", ID: 1}, {Op: "staging"}, {Op: "set", K: "78", V: "6262"}, {Op: "release", H: -1}, {Op: "set", K: "78", V: "6363"}, {Op: "cp", ID: 2}, {Op: "set", K: "78", V: "6464"}, {Op: "revert", ID: 2}, {Op: "get", K: "78"}, {Op: "revert", ID: 1}, {Op: "get", K: "78"}, {Op: "iter"}},
			{{Op: "set", K: "78", V: "6161"}, {Op: "cp", ID: 1}, {Op: "set", K: "78", V: "6262"}, {Op: "set", K: "78", V: "6363"}, {Op: "hist", K: "78"}, {Op: "revert", ID: 1}, {Op: "set", K: "78", V: "6464"}, {Op: "hist", K: "78"}, {Op: "revert", ID: 1}, {Op: "bget", Keys: []string{"78"}}},
		} {
			runOne(&Program{Target: kind, Snap: [][2]string{{"78", "7a"}}, Ops: ops})
			gstats["directed-f03-regression"]++
		}
	}
	for i := 0; i < nUS; i++ {
		kind := "art"
		if i%3 == 2 {
			kind = "rbt"
		}
		n := nops
		if i%10 == 0 {
			n = nops * 3
		}
		runOne(genProgram(r, kind, n, i%6 == 1))
	}
	for i := 0; i < nTxn; i++ {
		runOne(genProgram(r, "txn", nops*3/4, i%5 == 0))
	}
	// directed: txn.BatchGet with keys partly buffered (value / tombstone), partly in the snapshot cache, partly cold,
	// over 3+ regions, with a region split between two calls
	{
		snapD := [][2]string{{"6161", "01"}, {"6162", "02"}, {"6261", "03"}, {"6d61", "04"}, {"6d62", "05"}, {"7a61", "06"}, {"7a62", "07"}}
		all := []string{"6161", "6162", "6261", "6262", "6d61", "6d62", "6e", "7a61", "7a62", "7a63"}
		runOne(&Program{Target: "txn", Snap: snapD, Ops: []Op{
			{Op: "split", K: "62", H: 1}, {Op: "split", K: "6d", H: 1}, {Op: "split", K: "7a", H: 1},
			{Op: "get", K: "6161"}, {Op: "get", K: "6262"}, {Op: "bget", Keys: []string{"6d61", "7a63"}},
			{Op: "set", K: "6d62", V: "aa"}, {Op: "del", K: "7a61"}, {Op: "set", K: "6262", V: "bb"}, {Op: "del", K: "6e"},
			{Op: "bget", Keys: all},
			{Op: "split", K: "6d62", H: 1}, {Op: "split", K: "6162", H: 1},
			{Op: "bget", Keys: all}, {Op: "bget", Keys: append(append([]string{}, all...), "7a61", "6161", "6e")},
			{Op: "staging"}, {Op: "del", K: "6161"}, {Op: "set", K: "7a61", V: "cc"}, {Op: "bget", Keys: all}, {Op: "cleanup", H: -1},
			{Op: "split", K: "7a62", H: 1}, {Op: "bget", Keys: all}, {Op: "iter"}, {Op: "riter"}}})
		gstats["directed-txn-batchget-mixed-regions"]++
	}
	// directed: key length limit (65535 accepted, 65536 rejected; UpdateFlags ignores the long key silently)
	for _, kind := range []string{"art", "rbt"} {
		k1 := hx(bytes.Repeat([]byte{'k'}, 65535))
		k2 := hx(bytes.Repeat([]byte{'k'}, 65536))
		runOne(&Program{Target: kind, Ops: []Op{{Op: "set", K: k2, V: "01"}, {Op: "del", K: k2}, {Op: "uflags", K: k2, F: []int{2}}, {Op: "len"}, {Op: "dirty"},
			{Op: "gflags", K: k2}, {Op: "set", K: k1, V: "01", F: []int{2}}, {Op: "get", K: k1}, {Op: "len"}, {Op: "dirty"}, {Op: "sseq"}, {Op: "iterf"},
			{Op: "staging"}, {Op: "set", K: k2, V: "02"}, {Op: "del", K: k1}, {Op: "cleanup", H: -1}, {Op: "get", K: k1}, {Op: "len"}, {Op: "sseq"}}})
		gstats["directed-key-length-limit"]++
	}
	nPipe := nTxn * 2
	for i := 0; i < nPipe; i++ {
		runOne(genPipeProgram(r, nops))
	}
	// directed: a flushed deletion must stay hidden after a batch get has cached it
	runOne(&Program{Target: "pipe", Snap: [][2]string{{"61", "78"}, {"62", "79"}}, Ops: []Op{
		{Op: "del", K: "61"}, {Op: "set", K: "62", V: "7a"}, {Op: "flush"}, {Op: "get", K: "61"}, {Op: "fdone"}, {Op: "set", K: "63", V: "7a"},
		{Op: "flush"}, {Op: "fdone"}, {Op: "fwait"}, {Op: "get", K: "61"}, {Op: "bget", Keys: []string{"61", "62", "64"}}, {Op: "get", K: "61"},
		{Op: "get", K: "62"}, {Op: "get", K: "64"}, {Op: "bget", Keys: []string{"61", "61"}}}})
	gstats["failing-programs"] = nfail
	finish(out)
}

func finish(out *bufio.Writer) {
	var names []string
	for k := range ostats {
		names = append(names, k)
	}
	sort.Strings(names)
	for _, k := range names {
		fmt.Fprintf(out, "PSTAT\t%s\t%d\t%d\n", k, ostats[k].n, ostats[k].fails)
	}
	names = names[:0]
	for k := range gstats {
		names = append(names, k)
	}
	sort.Strings(names)
	for _, k := range names {
		fmt.Fprintf(out, "GSTAT\t%s\t%d\n", k, gstats[k])
	}
}
