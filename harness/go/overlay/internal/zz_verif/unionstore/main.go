//go:build verif

// Driver for property C07 (area Union): random programs of set/delete/get/batch-get/iter/iter-reverse/
// staging/release/cleanup/checkpoint/revert on
//
//	art, rbt : unionstore.KVUnionStore over a scripted in-memory snapshot (+ transaction.BufferBatchGetter)
//	txn      : a real KVTxn over the mock store with committed base data
//
// Output (tab separated), consumed by ocaml/union/driver.ml and checks/C07.py:
//
//	PROG <id> <target> <snapshot k:v,...>
//	O <id> <idx> <kind> <args...> => <result>
//	FAIL <oracle> <idx> <program json> <minimised json> <minimised transcript> <f03fired> <detail> <id>
//	PSTAT <oracle> <evaluations> <fails>
//	GSTAT <name> <count>
package main

import (
	"bufio"
	"bytes"
	"encoding/json"
	"fmt"
	"math/rand"
	"os"
	"sort"
	"strconv"
	"strings"

	"github.com/pingcap/log"
	"go.uber.org/zap/zapcore"
)

// ---------------------------------------------------------------- main
func transcript(p *Program) string {
	var sb strings.Builder
	save := countStats
	countStats = false
	execProgram(0, p, func(s string) { sb.WriteString(strings.ReplaceAll(s, "\t", " ")); sb.WriteString(" ;; ") })
	countStats = save
	return sb.String()
}

func report(out *bufio.Writer, id int, p *Program, f *failure, fired bool) {
	min := minimise(p, nil)
	minFired := false
	if min == nil {
		min = p
	}
	mf, _ := fails(min, nil)
	oname := f.oracle
	if mf != nil {
		oname = mf.oracle
	}
	pj, _ := json.Marshal(p)
	mj, _ := json.Marshal(min)
	detail := "original: " + f.detail
	if mf != nil {
		detail = mf.detail + " || " + detail
	}
	fmt.Fprintf(out, "FAIL\t%s\t%d\t%s\t%s\t%s\t%v\t%s\t%d\n", oname, f.idx, pj, mj, transcript(min), minFired, strings.ReplaceAll(detail, "\t", " "), id)
}

func main() {
	// the library logs to stdout ("delete a record not exists?" on every leading tombstone): keep the
	// transcript apart (VERIF_OUT) and the log quiet
	if os.Getenv("VERIF_C07_LOG") != "" {
		log.SetLevel(zapcore.DebugLevel)
	} else {
		log.SetLevel(zapcore.FatalLevel)
	}
	// Panic-level records (stale iterator probes) would print a stack each
	dst := os.Stdout
	if f := os.Getenv("VERIF_OUT"); f != "" {
		fh, err := os.Create(f)
		must(err)
		defer fh.Close()
		dst = fh
	}
	out := bufio.NewWriterSize(dst, 1<<20)
	defer out.Flush()
	flushEach := os.Getenv("VERIF_C07_FLUSH") != ""
	emit := func(s string) {
		out.WriteString(s)
		out.WriteByte('\n')
		if flushEach {
			out.Flush()
		}
	}
	if len(os.Args) > 2 && os.Args[1] == "replay" {
		data, err := os.ReadFile(os.Args[2])
		must(err)
		var progs []*Program
		must(json.Unmarshal(data, &progs))
		for i, p := range progs {
			f, fired := execProgram(i+1, p, emit)
			if f != nil {
				report(out, i+1, p, f, fired)
			}
		}
		finish(out)
		return
	}
	seed, _ := strconv.ParseInt(os.Getenv("VERIF_SEED"), 10, 64)
	if seed == 0 {
		seed = 1
	}
	thorough := os.Getenv("VERIF_TIER") == "thorough"
	nUS, nTxn, nops := 5000, 600, 40
	if thorough {
		nUS, nTxn, nops = 150000, 12000, 60
	}
	if v := os.Getenv("VERIF_C07_PROGRAMS"); v != "" {
		n, _ := strconv.Atoi(v)
		nUS, nTxn = n, n/8
	}
	if v := os.Getenv("VERIF_C07_TXN"); v != "" {
		nTxn, _ = strconv.Atoi(v)
	}
	r := rand.New(rand.NewSource(seed*7919 + 13))
	id := 0
	nfail := 0
	runOne := func(p *Program) {
		id++
		f, fired := execProgram(id, p, emit)
		gstats["programs-"+p.Target]++
		_ = fired
		if f != nil {
			nfail++
			if nfail <= 40 {
				report(out, id, p, f, false)
			}
		}
	}
	// directed regression for F03 (fixed by 6b4091a): a same-length overwrite after a checkpoint must be undone
	// by RevertToCheckpoint — plain, inside a staging level, after a release, with a second checkpoint
	for _, kind := range []string{"art", "rbt", "txn"} {
		for _, ops := range [][]Op{
			{{Op: "set", K: "78", V: "6161"}, {Op: "cp", ID: 1}, {Op: "set", K: "78", V: "6262"}, {Op: "revert", ID: 1}, {Op: "get", K: "78"}},
			{{Op: "staging"}, {Op: "set", K: "78", V: "6161"}, {Op: "cp", ID: 1}, {Op: "set", K: "78", V: "6262"}, {Op: "hist", K: "78"}, {Op: "revert", ID: 1}, {Op: "get", K: "78"}, {Op: "cleanup", H: -1}, {Op: "get", K: "78"}},
			{{Op: "set", K: "78", V: "6161"}, {Op: "cp", ID: 1}, {Op: "staging"}, {Op: "set", K: "78", V: "6262"}, {Op: "release", H: -1}, {Op: "set", K: "78", V: "6363"}, {Op: "cp", ID: 2}, {Op: "set", K: "78", V: "6464"}, {Op: "revert", ID: 2}, {Op: "get", K: "78"}, {Op: "revert", ID: 1}, {Op: "get", K: "78"}, {Op: "iter"}},
			{{Op: "set", K: "78", V: "6161"}, {Op: "cp", ID: 1}, {Op: "set", K: "78", V: "6262"}, {Op: "set", K: "78", V: "6363"}, {Op: "hist", K: "78"}, {Op: "revert", ID: 1}, {Op: "set", K: "78", V: "6464"}, {Op: "hist", K: "78"}, {Op: "revert", ID: 1}, {Op: "bget", Keys: []string{"78"}}},
		} {
			runOne(&Program{Target: kind, Snap: [][2]string{{"78", "7a"}}, Ops: ops})
			gstats["directed-f03-regression"]++
		}
	}
	for i := 0; i < nUS; i++ {
		kind := "art"
		if i%3 == 2 {
			kind = "rbt"
		}
		n := nops
		if i%10 == 0 {
			n = nops * 3
		}
		runOne(genProgram(r, kind, n, i%6 == 1))
	}
	for i := 0; i < nTxn; i++ {
		runOne(genProgram(r, "txn", nops*3/4, i%5 == 0))
	}
	// directed: txn.BatchGet with keys partly buffered (value / tombstone), partly in the snapshot cache, partly cold,
	// over 3+ regions, with a region split between two calls
	{
		snapD := [][2]string{{"6161", "01"}, {"6162", "02"}, {"6261", "03"}, {"6d61", "04"}, {"6d62", "05"}, {"7a61", "06"}, {"7a62", "07"}}
		all := []string{"6161", "6162", "6261", "6262", "6d61", "6d62", "6e", "7a61", "7a62", "7a63"}
		runOne(&Program{Target: "txn", Snap: snapD, Ops: []Op{
			{Op: "split", K: "62", H: 1}, {Op: "split", K: "6d", H: 1}, {Op: "split", K: "7a", H: 1},
			{Op: "get", K: "6161"}, {Op: "get", K: "6262"}, {Op: "bget", Keys: []string{"6d61", "7a63"}},
			{Op: "set", K: "6d62", V: "aa"}, {Op: "del", K: "7a61"}, {Op: "set", K: "6262", V: "bb"}, {Op: "del", K: "6e"},
			{Op: "bget", Keys: all},
			{Op: "split", K: "6d62", H: 1}, {Op: "split", K: "6162", H: 1},
			{Op: "bget", Keys: all}, {Op: "bget", Keys: append(append([]string{}, all...), "7a61", "6161", "6e")},
			{Op: "staging"}, {Op: "del", K: "6161"}, {Op: "set", K: "7a61", V: "cc"}, {Op: "bget", Keys: all}, {Op: "cleanup", H: -1},
			{Op: "split", K: "7a62", H: 1}, {Op: "bget", Keys: all}, {Op: "iter"}, {Op: "riter"}}})
		gstats["directed-txn-batchget-mixed-regions"]++
	}
	// directed: key length limit (65535 accepted, 65536 rejected; UpdateFlags ignores the long key silently)
	for _, kind := range []string{"art", "rbt"} {
		k1 := hx(bytes.Repeat([]byte{'k'}, 65535))
		k2 := hx(bytes.Repeat([]byte{'k'}, 65536))
		runOne(&Program{Target: kind, Ops: []Op{{Op: "set", K: k2, V: "01"}, {Op: "del", K: k2}, {Op: "uflags", K: k2, F: []int{2}}, {Op: "len"}, {Op: "dirty"},
			{Op: "gflags", K: k2}, {Op: "set", K: k1, V: "01", F: []int{2}}, {Op: "get", K: k1}, {Op: "len"}, {Op: "dirty"}, {Op: "sseq"}, {Op: "iterf"},
			{Op: "staging"}, {Op: "set", K: k2, V: "02"}, {Op: "del", K: k1}, {Op: "cleanup", H: -1}, {Op: "get", K: k1}, {Op: "len"}, {Op: "sseq"}}})
		gstats["directed-key-length-limit"]++
	}
	for i := 0; i < nUS/2; i++ {
		runOne(genMerge(r))
	}
	for i := 0; i < nUS/5; i++ {
		kind := "art"
		if i%3 == 2 {
			kind = "rbt"
		} else if i%10 == 9 {
			kind = "txn"
		}
		runOne(genScanWhileWriting(r, kind))
		gstats["scan-while-writing-programs"]++
	}
	nPipe := nTxn * 2
	for i := 0; i < nPipe; i++ {
		runOne(genPipeProgram(r, nops))
	}
	// directed: a flushed deletion must stay hidden after a batch get has cached it
	runOne(&Program{Target: "pipe", Snap: [][2]string{{"61", "78"}, {"62", "79"}}, Ops: []Op{
		{Op: "del", K: "61"}, {Op: "set", K: "62", V: "7a"}, {Op: "flush"}, {Op: "get", K: "61"}, {Op: "fdone"}, {Op: "set", K: "63", V: "7a"},
		{Op: "flush"}, {Op: "fdone"}, {Op: "fwait"}, {Op: "get", K: "61"}, {Op: "bget", Keys: []string{"61", "62", "64"}}, {Op: "get", K: "61"},
		{Op: "get", K: "62"}, {Op: "get", K: "64"}, {Op: "bget", Keys: []string{"61", "61"}}}})
	gstats["failing-programs"] = nfail
	finish(out)
}

func finish(out *bufio.Writer) {
	var names []string
	for k := range ostats {
		names = append(names, k)
	}
	sort.Strings(names)
	for _, k := range names {
		fmt.Fprintf(out, "PSTAT\t%s\t%d\t%d\n", k, ostats[k].n, ostats[k].fails)
	}
	names = names[:0]
	for k := range gstats {
		names = append(names, k)
	}
	sort.Strings(names)
	for _, k := range names {
		fmt.Fprintf(out, "GSTAT\t%s\t%d\n", k, gstats[k])
	}
}
