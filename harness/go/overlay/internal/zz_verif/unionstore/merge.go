//go:build verif

package main

import (
	"bytes"
	"errors"
	"fmt"
	"math/rand"
	"sort"

	"github.com/tikv/client-go/v2/internal/unionstore"
)

// target "merge": unionstore.NewUnionIter over two scripted iterators — inputs the union store itself never
// produces (snapshot entries with empty values, keys outside any bounds, inputs that break the sortedness
// contract, an inner iterator whose Next fails).
//   M <id> <fwd|rev> <dirty list> <snapshot list> <faild> <fails> => <yielded list>[|err]
type failIter struct {
	l     []KV
	i     int
	fail  int
	fired bool
}

func (it *failIter) Valid() bool   { return it.i < len(it.l) }
func (it *failIter) Key() []byte   { return it.l[it.i].K }
func (it *failIter) Value() []byte { return it.l[it.i].V }
func (it *failIter) Close()        {}
func (it *failIter) Next() error {
	it.i++
	if it.fail > 0 && it.i == it.fail {
		it.fired = true
		return errors.New("scripted iterator failure")
	}
	return nil
}

func kvList(l [][2]string) []KV {
	var r []KV
	for _, e := range l {
		r = append(r, KV{unhx(e[0]), unhx(e[1])})
	}
	return r
}

func strictlySorted(l []KV, rev bool) bool {
	for i := 1; i < len(l); i++ {
		c := bytes.Compare(l[i-1].K, l[i].K)
		if (!rev && c >= 0) || (rev && c <= 0) {
			return false
		}
	}
	return true
}

func execMerge(id int, p *Program, emit func(string)) *failure {
	d, s := kvList(p.D), kvList(p.S)
	var out []KV
	errored := false
	dIt, sIt := &failIter{l: d, fail: p.FailD}, &failIter{l: s, fail: p.FailS}
	pan := protect(func() {
		it, err := unionstore.NewUnionIter(dIt, sIt, p.Rev)
		if err != nil {
			errored = true
			return
		}
		for n := 0; it.Valid() && n < maxIter; n++ {
			out = append(out, KV{append([]byte{}, it.Key()...), append([]byte{}, it.Value()...)})
			if e := it.Next(); e != nil {
				errored = true
				break
			}
		}
		it.Close()
		it.Close() // closing twice is harmless
	})
	res := kvsString(out)
	if errored {
		res += "|err"
	}
	if pan != "" {
		res = "panic"
	}
	dir := "fwd"
	if p.Rev {
		dir = "rev"
	}
	if emit != nil {
		emit(fmt.Sprintf("M\t%d\t%s\t%s\t%s\t%d\t%d\t=>\t%s", id, dir, kvsString(d), kvsString(s), p.FailD, p.FailS, res))
	}
	// oracle (inputs that keep the iterator contract): strictly sorted output = buffer entries win, buffered
	// tombstones hide; with a failing inner iterator: a prefix of that, then the error
	if strictlySorted(d, p.Rev) && strictlySorted(s, p.Rev) {
		m := map[string][]byte{}
		for _, e := range s {
			m[string(e.K)] = e.V
		}
		del := map[string]bool{}
		for _, e := range d {
			if len(e.V) == 0 {
				del[string(e.K)] = true
			} else {
				m[string(e.K)] = e.V
			}
		}
		var want []KV
		for k, v := range m {
			if !del[k] {
				want = append(want, KV{[]byte(k), v})
			}
		}
		sort.Slice(want, func(i, j int) bool {
			c := bytes.Compare(want[i].K, want[j].K)
			if p.Rev {
				return c > 0
			}
			return c < 0
		})
		ok := pan == ""
		if p.FailD == 0 && p.FailS == 0 {
			ok = ok && !errored && kvsString(want) == kvsString(out)
		} else {
			ok = ok && len(out) <= len(want) && (len(out) == 0 || kvsString(want[:len(out)]) == kvsString(out)) &&
				(errored || kvsString(want) == kvsString(out)) &&
				errored == (dIt.fired || sIt.fired) // an inner error is reported, and only then
		}
		if !oracle("union-iter=overlay-merge", ok) {
			return &failure{"union-iter=overlay-merge", 0, res + " want " + kvsString(want)}
		}
	}
	return nil
}

func genMerge(r *rand.Rand) *Program {
	p := &Program{Target: "merge", Rev: r.Intn(2) == 0}
	pool := keyPool(r, false)
	sort.Slice(pool, func(i, j int) bool {
		c := bytes.Compare(pool[i], pool[j])
		if p.Rev {
			return c > 0
		}
		return c < 0
	})
	for _, k := range pool {
		if r.Intn(2) == 0 {
			v := genValue(r, false)
			if r.Intn(3) == 0 {
				v = nil // tombstone
			}
			p.D = append(p.D, [2]string{hx(k), hx(v)})
		}
		if r.Intn(2) == 0 {
			v := genValue(r, false)
			if r.Intn(10) == 0 {
				v = nil // a snapshot entry with an empty value: passed through as it is
			}
			p.S = append(p.S, [2]string{hx(k), hx(v)})
		}
	}
	switch r.Intn(10) {
	case 0: // contract broken: an entry out of place or repeated (the model mirrors the code there too)
		if len(p.D) > 1 {
			i := r.Intn(len(p.D))
			p.D = append(p.D, p.D[i])
		} else if len(p.S) > 1 {
			p.S[0], p.S[len(p.S)-1] = p.S[len(p.S)-1], p.S[0]
		}
		gstats["merge-contract-broken"]++
	case 1:
		if len(p.D) > 0 {
			p.FailD = 1 + r.Intn(len(p.D))
		}
		gstats["merge-inner-iterator-fails"]++
	case 2:
		if len(p.S) > 0 {
			p.FailS = 1 + r.Intn(len(p.S))
		}
		gstats["merge-inner-iterator-fails"]++
	}
	return p
}

// programs built around a snapshot iterator that stays open while the level keeps writing: many keys under one
// prefix (node4 -> node16 -> node48 -> node256 growth and prefix splits happen WHILE the iterator walks the tree),
// overwrites, deletes, nested levels that are cleaned up
func genScanWhileWriting(r *rand.Rand, kind string) *Program {
	p := &Program{Target: kind}
	var prefix []byte
	for i := r.Intn(4); i > 0; i-- {
		prefix = append(prefix, []byte{0, 'a', 'b', 0xff}[r.Intn(4)])
	}
	if kind == "txn" && len(prefix) == 0 {
		prefix = []byte{'a'}
	}
	fan := 4 + r.Intn(60)
	if r.Intn(4) == 0 {
		fan = 70 + r.Intn(120) // more than one batch of the batched snapshot iterator (32, then 64, ...)
	}
	seen := map[string]bool{}
	var pool [][]byte
	for len(pool) < fan {
		k := append(append([]byte{}, prefix...), byte(r.Intn(256)))
		if r.Intn(4) == 0 {
			k = append(k, []byte{0, 'x', 0xff}[r.Intn(3)])
		}
		if r.Intn(9) == 0 {
			k = append(k, bytes.Repeat([]byte{'p'}, 21+r.Intn(8))...) // longer than the in-node prefix
		}
		if !seen[string(k)] {
			seen[string(k)] = true
			pool = append(pool, k)
		}
	}
	pick := func() []byte { return pool[r.Intn(len(pool))] }
	for i := 0; i < fan/2; i++ {
		p.Ops = append(p.Ops, Op{Op: "set", K: hx(pick()), V: hx(genValue(r, false))})
	}
	if r.Intn(2) == 0 {
		p.Ops = append(p.Ops, Op{Op: "del", K: hx(pick())})
	}
	p.Ops = append(p.Ops, Op{Op: "staging"})
	depth := 1
	lo, hi := []byte(nil), []byte(nil)
	if r.Intn(3) == 0 {
		lo = pick()
	}
	if r.Intn(3) == 0 {
		hi = pick()
	}
	p.Ops = append(p.Ops, Op{Op: "sitnew", Lo: hx(lo), Hi: hx(hi), H: r.Intn(2)})
	for i := 0; i < 30+fan; i++ {
		switch x := r.Intn(20); {
		case x < 7:
			p.Ops = append(p.Ops, Op{Op: "sitnext", ID: 1 + r.Intn(3)})
		case x < 13:
			p.Ops = append(p.Ops, Op{Op: "set", K: hx(pick()), V: hx(genValue(r, false))})
		case x < 15:
			p.Ops = append(p.Ops, Op{Op: "del", K: hx(pick())})
		case x < 16:
			if depth < 3 {
				depth++
				p.Ops = append(p.Ops, Op{Op: "staging"})
			}
		case x < 17:
			if depth > 1 {
				depth--
				if r.Intn(2) == 0 {
					p.Ops = append(p.Ops, Op{Op: "cleanup", H: -1})
				} else {
					p.Ops = append(p.Ops, Op{Op: "release", H: -1})
				}
			}
		case x < 18:
			p.Ops = append(p.Ops, Op{Op: "get", K: hx(pick())})
		case x < 19:
			p.Ops = append(p.Ops, Op{Op: "uflags", K: hx(pick()), F: []int{r.Intn(22)}})
		default:
			p.Ops = append(p.Ops, Op{Op: "siter"})
		}
	}
	p.Ops = append(p.Ops, Op{Op: "sitnext", ID: 1000}, Op{Op: "iter"}, Op{Op: "cleanup", H: -1}, Op{Op: "iter"})
	return p
}
