//go:build verif

package main

import (
	"bytes"
	"fmt"
	"sort"
	"strconv"
	"strings"

	"github.com/tikv/client-go/v2/internal/unionstore"
	"github.com/tikv/client-go/v2/kv"
)

// stepExt: one group of operations of the executor (see exec_core.go)
func (x *ex) stepExt(idx int, o Op) {
	t, buf, ref, tr, realCps, cpObs := x.t, x.buf, x.ref, x.tr, x.realCps, x.cpObs
	line, setFail := x.line, x.setFail
	_, _, _, _, _, _, _, _ = t, buf, ref, tr, realCps, cpObs, line, setFail
	switch o.Op {
	case "gflags":
		k := unhx(o.K)
		var f kv.KeyFlags
		var ferr error
		pan := protect(func() { f, ferr = buf.GetFlags(k) })
		res := "nf"
		if pan != "" {
			res = "panic"
		} else if ferr == nil {
			res = "f " + strconv.Itoa(int(f))
		}
		line(idx, "gflags", []string{hd(o.K)}, res)
		wf, ok := ref.flags[string(k)]
		want := "nf"
		if ok {
			want = "f " + strconv.Itoa(int(wf))
		}
		if !oracle("flags=fold-of-flag-ops", res == want) {
			setFail("flags=fold-of-flag-ops", idx, res+" want "+want)
		}
		var usx *unionstore.KVUnionStore
		if us, isUS := t.(*usTarget); isUS {
			usx = us.us
		} else if tt, isTxn := t.(*txnTarget); isTxn {
			usx = tt.txn.GetUnionStore()
		}
		if usx != nil {
			has := usx.HasPresumeKeyNotExists(k)
			if !oracle("has-presume-kne", has == (ok && wf&(1|4096) != 0)) {
				setFail("has-presume-kne", idx, fmt.Sprint(has))
			}
		}
	case "dirty":
		var d bool
		pan := protect(func() { d = buf.Dirty() })
		res := strconv.FormatBool(d)
		if pan != "" {
			res = "panic"
		}
		line(idx, "dirty", nil, res)
		// a buffer that holds a value or a flag written outside every staging level is dirty; never clean again
		if !oracle("dirty-is-monotone", pan == "" && (d || !x.wasDirty)) {
			setFail("dirty-is-monotone", idx, res)
		}
		x.wasDirty = x.wasDirty || d
	case "sseq":
		if n, ok := unionstore.VerifUnionSnapshotSeq(buf); ok {
			line(idx, "sseq", nil, strconv.Itoa(n))
		}
	case "len":
		var n, sz int
		pan := protect(func() {
			if tt, isTxn := t.(*txnTarget); isTxn {
				n, sz = tt.txn.Len(), tt.txn.Size() // the transaction's own accessors
			} else {
				n, sz = buf.Len(), buf.Size()
			}
		})
		res := fmt.Sprintf("len %d size %d", n, sz)
		if pan != "" {
			res = "panic"
		}
		line(idx, "len", nil, res)
		if !oracle("len=existing-keys,size=keys+values", pan == "" && n == len(ref.flags) && sz == ref.size()) {
			setFail("len=existing-keys,size=keys+values", idx, fmt.Sprintf("%s want len %d size %d", res, len(ref.flags), ref.size()))
		}
	case "iterf", "riterf":
		lo, hi := unhx(o.Lo), unhx(o.Hi)
		rev := o.Op == "riterf"
		if rev {
			lo = nil
		}
		var l []unionstore.VerifUnionFlagged
		var okT bool
		pan := protect(func() { l, okT = unionstore.VerifUnionIterWithFlags(buf, lo, hi, rev) })
		if pan == "" && !okT {
			return
		}
		var parts []string
		for _, e := range l {
			v := "nil"
			if e.HasV {
				v = hd(hx(e.V))
			}
			parts = append(parts, hd(hx(e.K))+":"+strconv.Itoa(int(e.F))+":"+v)
		}
		res := strings.Join(parts, ",")
		if res == "" {
			res = "-"
		}
		if pan != "" {
			res = "panic"
		}
		line(idx, o.Op, []string{hd(hx(lo)), hd(o.Hi)}, res)
		// every existing key in bounds, in order, with the folded flags and the current value
		var keys []string
		for k := range ref.flags {
			if inBounds([]byte(k), lo, hi) {
				keys = append(keys, k)
			}
		}
		sort.Strings(keys)
		if rev {
			for i, j := 0, len(keys)-1; i < j; i, j = i+1, j-1 {
				keys[i], keys[j] = keys[j], keys[i]
			}
		}
		var wparts []string
		for _, k := range keys {
			v := "nil"
			if bv, has := ref.buf[k]; has {
				v = hd(hx(bv))
			}
			wparts = append(wparts, hd(hx([]byte(k)))+":"+strconv.Itoa(int(ref.flags[k]))+":"+v)
		}
		want := strings.Join(wparts, ",")
		if want == "" {
			want = "-"
		}
		if !oracle("iter-with-flags=existing-keys", res == want) {
			setFail("iter-with-flags=existing-keys", idx, res+" want "+want)
		}
	case "hist":
		k := unhx(o.K)
		var hl [][]byte
		var herr error
		pan := protect(func() { hl, herr = unionstore.VerifUnionHistory(buf, k) })
		res := "nf"
		if pan != "" {
			res = "panic"
		} else if herr == nil {
			var parts []string
			for _, v := range hl {
				parts = append(parts, hd(hx(v)))
			}
			res = "h " + strings.Join(parts, ",")
		}
		line(idx, "hist", []string{hd(o.K)}, res)
		// the newest version is the buffered value; a key without value has no history
		bv, has := ref.buf[string(k)]
		ok := pan == "" && (has == (herr == nil)) && (!has || (len(hl) > 0 && bytes.Equal(hl[0], bv)))
		if !oracle("history-head=buffered-value", ok) {
			setFail("history-head=buffered-value", idx, res)
		}
	case "inspect":
		h := o.H
		if h < 0 {
			h = tr.depth()
		}
		if h < 1 || h > tr.depth() {
			return
		}
		var parts []string
		seen := map[string]bool{}
		dup := false
		pan := protect(func() {
			buf.InspectStage(h, func(k []byte, f kv.KeyFlags, v []byte) {
				if seen[string(k)] {
					dup = true
				}
				seen[string(k)] = true
				parts = append(parts, hd(hx(k))+":"+strconv.Itoa(int(f))+":"+hd(hx(v)))
			})
		})
		res := strings.Join(parts, ",")
		if res == "" {
			res = "-"
		}
		if pan != "" {
			res = "panic"
		}
		line(idx, "inspect", []string{strconv.Itoa(h)}, res)
		// exactly the keys whose buffered value differs from (or is newer than) the one at Staging h: at
		// least every key whose value changed since, each once, with its current value
		okI := pan == "" && !dup
		before := ref.stack[h-1]
		for k, v := range ref.buf {
			if bv, had := before[k]; !had || !bytes.Equal(bv, v) {
				if !seen[k] {
					okI = false
				}
			}
		}
		if !oracle("inspect-stage-covers-changes", okI) {
			setFail("inspect-stage-covers-changes", idx, res)
		}
	}
}
