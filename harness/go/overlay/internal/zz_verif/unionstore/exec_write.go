//go:build verif

package main

import (
	"bytes"
	"fmt"
	"strconv"

	tikverr "github.com/tikv/client-go/v2/error"
	"github.com/tikv/client-go/v2/internal/mockstore/mocktikv"
	"github.com/tikv/client-go/v2/internal/unionstore"
	"github.com/tikv/client-go/v2/kv"
)

// stepWrite: one group of operations of the executor (see exec_core.go)
func (x *ex) stepWrite(idx int, o Op) {
	t, buf, ref, tr, realCps, cpObs := x.t, x.buf, x.ref, x.tr, x.realCps, x.cpObs
	line, setFail := x.line, x.setFail
	_, _, _, _, _, _, _, _ = t, buf, ref, tr, realCps, cpObs, line, setFail
	switch o.Op {
	case "set", "del":
		k := unhx(o.K)
		v := unhx(o.V)
		var err error
		fops := fopsOf(o.F)
		var itStale unionstore.Iterator
		if o.Stale {
			itStale, _ = buf.Iter(nil, nil)
		}
		pan := protect(func() {
			switch {
			case o.Op == "set" && len(fops) == 0:
				err = buf.Set(k, v)
			case o.Op == "set":
				err = buf.SetWithFlags(k, v, fops...)
			case len(fops) == 0:
				err = buf.Delete(k)
			default:
				err = buf.DeleteWithFlags(k, fops...)
			}
		})
		res := "ok"
		if pan != "" {
			res = "panic"
		} else if err != nil {
			res = "err"
			if _, ok := err.(*tikverr.ErrKeyTooLarge); ok {
				res = "keytoolarge"
			} else if _, ok := err.(*tikverr.ErrEntryTooLarge); ok {
				res = "entrytoolarge"
			} else if _, ok := err.(*tikverr.ErrTxnTooLarge); ok {
				res = "txntoolarge"
			}
		}
		if o.Op == "del" {
			v = nil
		}
		want := "ok"
		applied := true
		if o.Op == "set" && len(v) == 0 {
			want, applied = "err", false
		} else if len(k) > 65535 {
			want, applied = "keytoolarge", false
		} else if uint64(len(k)+len(v)) > ref.elim {
			want, applied = "entrytoolarge", false
		}
		if applied {
			ref.buf[string(k)] = v
			ref.flags[string(k)] = refApply(ref.flags[string(k)], append([]int{18}, o.F...))
			tr.write(string(k), v)
			if uint64(ref.size()) > ref.blim {
				want = "txntoolarge"
			}
		}
		if !oracle("write-status(limits)", res == want) {
			setFail("write-status(limits)", idx, res+" want "+want)
		}
		if o.Op == "set" {
			line(idx, "set", []string{hd(o.K), hd(o.V), fopsString(o.F)}, res)
		} else {
			line(idx, "del", []string{hd(o.K), fopsString(o.F)}, res)
		}
		if itStale != nil {
			// an iterator of the buffer that is used after a write must fail loudly (ART: sequence number)
			if _, hasSeq := unionstore.VerifUnionWriteSeq(buf); hasSeq {
				p2 := protect(func() { itStale.Valid() })
				r2 := "ok"
				if p2 != "" {
					r2 = "panic"
				}
				line(idx, "stale", nil, r2)
				if !oracle("stale-iterator-fails-loudly", (r2 == "panic") == applied) {
					setFail("stale-iterator-fails-loudly", idx, r2)
				}
			}
		}
		// latest write wins, read back through the union store
		var gv []byte
		var found bool
		var gerr error
		pan = protect(func() { gv, found, gerr = t.Get(k) })
		wv, wfound := ref.get(string(k))
		ok := pan == "" && gerr == nil && found == wfound && bytes.Equal(gv, wv)
		if !oracle("latest-write-wins", ok) {
			setFail("latest-write-wins", idx, fmt.Sprintf("read back %s found=%v want %s found=%v %s", hx(gv), found, hx(wv), wfound, pan))
		}
	case "uflags":
		k := unhx(o.K)
		fops := fopsOf(o.F)
		ff := o.F
		pan := protect(func() {
			if us, isUS := t.(*usTarget); isUS && o.Unmark {
				us.us.UnmarkPresumeKeyNotExists(k) // = UpdateFlags(k, DelPresumeKeyNotExists)
			} else if o.Unmark {
				buf.UpdateFlags(k, kv.DelPresumeKeyNotExists)
			} else {
				buf.UpdateFlags(k, fops...)
			}
		})
		if o.Unmark {
			ff = []int{1}
		}
		res := "ok"
		if pan != "" {
			res = "panic"
		}
		if len(k) <= 65535 { // a longer key is silently ignored
			ref.flags[string(k)] = refApply(ref.flags[string(k)], ff)
		}
		line(idx, "uflags", []string{hd(o.K), fopsString(ff)}, res)
		if !oracle("flags-update-accepted", pan == "") {
			setFail("flags-update-accepted", idx, pan)
		}
	case "limits":
		e, b := o.E, o.B
		if e == 0 {
			e = ^uint64(0)
		}
		if b == 0 {
			b = ^uint64(0)
		}
		if us, isUS := t.(*usTarget); isUS {
			us.us.SetEntrySizeLimit(e, b) // through the union store
		} else {
			buf.SetEntrySizeLimit(e, b)
		}
		ref.elim, ref.blim = e, b
		line(idx, "limits", []string{strconv.FormatUint(e, 16), strconv.FormatUint(b, 16)}, "ok")
	case "flush", "fdone", "fwait":
		pt, isPipe := t.(*pipeTarget)
		if !isPipe {
			return
		}
		res := "ok"
		var pan string
		switch o.Op {
		case "flush":
			if tr.depth() == 0 {
				pt.complete() // Flush waits for the previous flush function
			}
			var ferr error
			var flushed bool
			pan = protect(func() { flushed, ferr = pt.buf.Flush(true) })
			if ferr != nil || !flushed {
				res = "err"
			} else {
				pt.pending = true
				tr.log, tr.lastCp = nil, 0 // a fresh mutable buffer
			}
			if !oracle("flush-accepted-iff-no-staging-level", pan == "" && (res == "ok") == (tr.depth() == 0)) {
				setFail("flush-accepted-iff-no-staging-level", idx, res+pan)
			}
		case "fdone":
			pt.complete()
		case "fwait":
			pt.complete()
			var ferr error
			pan = protect(func() { ferr = pt.buf.FlushWait() })
			if ferr != nil {
				res = "err"
			}
		}
		if pan != "" {
			res = "panic"
		}
		line(idx, o.Op, nil, res)
		// flushing never changes what the transaction reads
		if want := ref.list(nil, nil, false); true {
			okV := true
			wm := map[string][]byte{}
			for _, e := range want {
				wm[string(e.K)] = e.V
			}
			for _, k := range pt.keys {
				v, found, err := pt.Get(k)
				wv, wfound := wm[string(k)]
				if err != nil || found != wfound || !bytes.Equal(v, wv) {
					okV = false
				}
			}
			if !oracle("flush-invisible-to-reads", okV) {
				setFail("flush-invisible-to-reads", idx, fullObs(t))
			}
		}
	case "split":
		// a region split under the running transaction (real KVTxn tier only); not an operation of the model
		if o.H == 1 {
			storeSingle = false // directed programs split whatever the store's layout
		}
		if _, isTxn := t.(*txnTarget); isTxn && theCluster != nil && !storeSingle {
			k := unhx(o.K)
			mk := mocktikv.NewMvccKey(k) // the mock cluster is keyed by encoded keys
			if r, _, _, _ := theCluster.GetRegionByKey(mk); r != nil && !bytes.Equal(r.StartKey, mk) && len(k) > 0 {
				storeMultiRegion = true
				ids := theCluster.AllocIDs(2)
				theCluster.Split(r.Id, ids[0], k, []uint64{ids[1]}, ids[1])
				if countStats {
					gstats["txn-mid-program-splits"]++
				}
			}
		}
	}
}
