//go:build verif

package main

import (
	"bytes"
	"fmt"
	"sort"
	"strings"

	"github.com/tikv/client-go/v2/internal/unionstore"
	"github.com/tikv/client-go/v2/kv"
)

// ---------------------------------------------------------------- executor
type oracleStat struct{ n, fails int }

var ostats = map[string]*oracleStat{}
var countStats = true

func oracle(name string, ok bool) bool {
	if countStats {
		s := ostats[name]
		if s == nil {
			s = &oracleStat{}
			ostats[name] = s
		}
		s.n++
		if !ok {
			s.fails++
		}
	}
	return ok
}

type failure struct {
	oracle string
	idx    int
	detail string
}

const maxIter = 100000

func drain(it unionstore.Iterator, err error) ([]KV, string) {
	if err != nil {
		return nil, "err:" + errClass(err)
	}
	defer it.Close()
	var l []KV
	for n := 0; it.Valid(); n++ {
		if n > maxIter {
			return l, "overrun"
		}
		l = append(l, KV{append([]byte{}, it.Key()...), append([]byte{}, it.Value()...)})
		if e := it.Next(); e != nil {
			return l, "err:" + errClass(e)
		}
	}
	return l, ""
}
func errClass(err error) string {
	m := err.Error()
	if len(m) > 40 {
		m = m[:40]
	}
	return strings.ReplaceAll(strings.ReplaceAll(m, "\t", " "), "\n", " ")
}

func protect(f func()) (pan string) {
	defer func() {
		if r := recover(); r != nil {
			pan = fmt.Sprint(r)
			if len(pan) > 60 {
				pan = pan[:60]
			}
		}
	}()
	f()
	return ""
}

func fullObs(t target) string {
	if pt, ok := t.(*pipeTarget); ok {
		var sb strings.Builder
		for _, k := range pt.keys {
			var v []byte
			var found bool
			var err error
			if p := protect(func() { v, found, err = pt.Get(k) }); p != "" || err != nil {
				sb.WriteString("!")
			}
			fmt.Fprintf(&sb, "%x=%v:%x,", k, found, v)
		}
		return sb.String()
	}
	var a, b []KV
	var ea, eb string
	if p := protect(func() { a, ea = drain(t.Iter(nil, nil)) }); p != "" {
		ea = "panic"
	}
	if p := protect(func() { b, eb = drain(t.IterReverse(nil, nil)) }); p != "" {
		eb = "panic"
	}
	return kvsString(a) + ea + "|" + kvsString(b) + eb
}

// execProgram runs p on a fresh target. emit (may be nil) receives the transcript lines.
// Returns the first oracle failure (nil if none); the second result is unused (kept for the FAIL line format).
// ex is the state of one program execution: the target, the specification view, the discipline tracker and what
// the restore oracles remember
type ex struct {
	id       int
	emit     func(string)
	t        target
	buf      unionstore.MemBuffer
	ref      *refState
	tr       *tracker
	realCps  map[int]*unionstore.MemDBCheckpoint
	cpObs    map[int]string
	stageObs []string
	wasDirty bool
	snapObj  unionstore.MemBufferSnapshot
	snapBase map[string][]byte
	sit      unionstore.Iterator // a SnapshotIter / SnapshotIterReverse kept open across writes of the staging levels
	sitWant  []KV                // what it must yield: the staging-blind view at its creation
	sitPos   int
	fail     *failure
}

func (x *ex) closeSit() {
	if x.sit != nil {
		it := x.sit
		x.sit = nil
		protect(func() { it.Close() })
	}
}
func (x *ex) setFail(name string, idx int, detail string) {
	if x.fail == nil {
		x.fail = &failure{name, idx, detail}
	}
}
func (x *ex) line(idx int, kind string, args []string, res string) {
	if x.emit != nil {
		x.emit(fmt.Sprintf("O\t%d\t%d\t%s\t%s\t=>\t%s", x.id, idx, kind, strings.Join(args, "\t"), res))
	}
}

func execProgram(id int, p *Program, emit func(string)) (*failure, bool) {
	if p.Target == "merge" {
		return execMerge(id, p, emit), false
	}
	var snap []KV
	for _, e := range p.Snap {
		snap = append(snap, KV{unhx(e[0]), unhx(e[1])})
	}
	sort.Slice(snap, func(i, j int) bool { return bytes.Compare(snap[i].K, snap[j].K) < 0 })
	var t target
	switch p.Target {
	case "txn":
		t = newTxn(snap)
	case "pipe":
		seen := map[string]bool{}
		var keys [][]byte
		add := func(h string) {
			if !seen[h] {
				seen[h] = true
				keys = append(keys, unhx(h))
			}
		}
		for _, e := range p.Snap {
			add(e[0])
		}
		for _, o := range p.Ops {
			if o.Op == "set" || o.Op == "del" || o.Op == "get" {
				add(o.K)
			}
			for _, k := range o.Keys {
				add(k)
			}
		}
		t = newPipe(snap, keys)
	default:
		t = newUS(p.Target, snap)
	}
	defer t.Close()
	if emit != nil {
		emit(fmt.Sprintf("PROG\t%d\t%s\t%s", id, p.Target, kvsString(snap)))
	}
	ref := &refState{snap: map[string][]byte{}, buf: map[string][]byte{}, cps: map[int]map[string][]byte{}, flags: map[string]kv.KeyFlags{},
		elim: ^uint64(0), blim: ^uint64(0)}
	for _, e := range snap {
		ref.snap[string(e.K)] = e.V
	}
	x := &ex{id: id, emit: emit, t: t, buf: t.Buf(), ref: ref, tr: newTracker(),
		realCps: map[int]*unionstore.MemDBCheckpoint{}, cpObs: map[int]string{}}
	for idx, o := range p.Ops {
		if x.fail != nil {
			break
		}
		switch o.Op {
		case "set", "del", "uflags", "limits", "flush", "fdone", "fwait", "split":
			x.stepWrite(idx, o)
		case "get", "bget", "iter", "riter":
			x.stepRead(idx, o)
		case "gflags", "dirty", "sseq", "len", "iterf", "riterf", "hist", "inspect":
			x.stepExt(idx, o)
		case "sget", "sbget", "snapnew", "snapget", "snapscan", "siter", "sriter", "sitnew", "sitnext", "sitclose":
			x.stepSnap(idx, o)
		case "staging", "release", "cleanup", "cp", "revert":
			x.stepSave(idx, o)
		}
	}
	x.closeSit()
	if emit != nil {
		emit(fmt.Sprintf("END\t%d", id))
	}
	return x.fail, false
}
