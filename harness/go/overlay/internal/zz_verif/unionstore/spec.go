//go:build verif

package main

import (
	"bytes"
	"sort"
	"strconv"
	"strings"

	"github.com/tikv/client-go/v2/kv"
)

// ---------------------------------------------------------------- discipline tracker (value-log positions)
// Decides which checkpoints may still be reverted to (a checkpoint is a position of the value log and
// dies when the log is truncated below it; reverting below the top staging position is API misuse) and
// predicts which writes overwrite in place (entry above the top staging position and above lastCheckpoint).
type shEntry struct {
	k string
	v []byte
}
type cpInfo struct {
	pos int
}
type tracker struct {
	log      []shEntry
	stagePos []int
	cps      map[int]*cpInfo
	lastCp   int // latest position handed out by Checkpoint / reverted to (lowered by a cleanup below it)
}

func newTracker() *tracker { return &tracker{cps: map[int]*cpInfo{}} }
func (t *tracker) head(k string) int {
	for i := len(t.log) - 1; i >= 0; i-- {
		if t.log[i].k == k {
			return i
		}
	}
	return -1
}
func (t *tracker) inplaceIdx(k string, v []byte) int {
	i := t.head(k)
	if i < 0 || len(v) == 0 || len(t.log[i].v) != len(v) {
		return -1
	}
	if len(t.stagePos) > 0 && i < t.stagePos[len(t.stagePos)-1] {
		return -1
	}
	if i < t.lastCp {
		return -1
	}
	return i
}
func (t *tracker) write(k string, v []byte) {
	if i := t.inplaceIdx(k, v); i >= 0 {
		t.log[i].v = append([]byte{}, v...)
		return
	}
	t.log = append(t.log, shEntry{k, append([]byte{}, v...)})
}
func (t *tracker) truncate(p int) {
	if p < len(t.log) {
		t.log = t.log[:p]
	}
	for id, c := range t.cps {
		if c.pos > p {
			delete(t.cps, id)
		}
	}
}
func (t *tracker) staging()   { t.stagePos = append(t.stagePos, len(t.log)) }
func (t *tracker) depth() int { return len(t.stagePos) }
func (t *tracker) release()   { t.stagePos = t.stagePos[:len(t.stagePos)-1] }
func (t *tracker) cleanup() {
	p := t.stagePos[len(t.stagePos)-1]
	t.truncate(p)
	if p < t.lastCp {
		t.lastCp = p
	}
	t.release()
}
func (t *tracker) checkpoint(id int) { t.cps[id] = &cpInfo{pos: len(t.log)}; t.lastCp = len(t.log) }
func (t *tracker) canRevert(id int) bool {
	c, ok := t.cps[id]
	if !ok || c.pos > len(t.log) {
		return false
	}
	if len(t.stagePos) > 0 && c.pos < t.stagePos[len(t.stagePos)-1] {
		return false
	}
	return true
}
func (t *tracker) revert(id int) {
	c := t.cps[id]
	t.truncate(c.pos)
	t.lastCp = c.pos
}

// ---------------------------------------------------------------- reference (specification) view
// snapshot map overlaid with the buffered writes in program order; savepoints keep previous versions
type refState struct {
	flags map[string]kv.KeyFlags // every existing key (has a value or has flags), program order fold of the flag ops
	elim  uint64
	blim  uint64
	snap  map[string][]byte
	buf   map[string][]byte // present key -> value; empty value = tombstone
	stack []map[string][]byte
	cps   map[int]map[string][]byte
}

func copyMap(m map[string][]byte) map[string][]byte {
	r := make(map[string][]byte, len(m))
	for k, v := range m {
		r[k] = v
	}
	return r
}
func fopsOf(f []int) []kv.FlagsOp {
	var l []kv.FlagsOp
	for _, i := range f {
		l = append(l, kv.FlagsOp(1)<<uint(i))
	}
	return l
}
func fopsString(f []int) string {
	if len(f) == 0 {
		return "-"
	}
	var l []string
	for _, i := range f {
		l = append(l, strconv.Itoa(i))
	}
	return strings.Join(l, ",")
}

const persistentFlags = kv.KeyFlags(2 | 8 | 2048 | 8192)

// refApply: the specification of the flag operations (by index of the FlagsOp constant), written out
// independently of kv.ApplyFlagsOps
func refApply(f kv.KeyFlags, ops []int) kv.KeyFlags {
	const (
		presumeKNE = 1 << iota
		keyLocked
		needLocked
		keyLockedValExist
		needCheckExists
		prewriteOnly
		ignoredIn2PC
		readable
		newlyInserted
		assertExist
		assertNotExist
		needConstraintCheck
		previousPresumeKNE
		keyLockedInShareMode
	)
	for _, op := range ops {
		switch op {
		case 0:
			f |= presumeKNE | needCheckExists
		case 1:
			f &^= presumeKNE | needCheckExists
		case 2:
			f |= keyLocked
		case 3:
			f &^= keyLocked
		case 4:
			f |= needLocked
		case 5:
			f &^= needLocked
		case 6:
			f = (f | keyLockedValExist) &^ needConstraintCheck
		case 7:
			f &^= keyLockedValExist | needConstraintCheck
		case 8:
			f &^= needCheckExists
		case 9:
			f |= prewriteOnly
		case 10:
			f |= ignoredIn2PC
		case 11:
			f |= readable
		case 12:
			f |= newlyInserted
		case 13:
			f = (f &^ assertNotExist) | assertExist
		case 14:
			f = (f &^ assertExist) | assertNotExist
		case 15:
			f |= assertExist | assertNotExist
		case 16:
			f &^= assertExist | assertNotExist
		case 17:
			f |= needConstraintCheck
		case 18:
			f &^= needConstraintCheck
		case 19:
			f |= previousPresumeKNE
		case 20:
			f |= keyLockedInShareMode
		case 21:
			f &^= keyLockedInShareMode
		}
	}
	return f
}

// undo: keys that lose their first value keep only the persistent flags (and vanish without any)
func (r *refState) undoTo(restored map[string][]byte) {
	for k := range r.buf {
		if _, ok := restored[k]; !ok {
			if f := r.flags[k] & persistentFlags; f != 0 {
				r.flags[k] = f
			} else {
				delete(r.flags, k)
			}
		}
	}
	r.buf = restored
}
func (r *refState) size() int {
	n := 0
	for k := range r.flags {
		n += len(k) + len(r.buf[k])
	}
	return n
}
func (r *refState) get(k string) ([]byte, bool) {
	if v, ok := r.buf[k]; ok {
		if len(v) == 0 {
			return nil, false
		}
		return v, true
	}
	v, ok := r.snap[k]
	return v, ok
}
func inBounds(k, lo, hi []byte) bool {
	return bytes.Compare(k, lo) >= 0 && (len(hi) == 0 || bytes.Compare(k, hi) < 0)
}
func (r *refState) list(lo, hi []byte, rev bool) []KV {
	keys := map[string]bool{}
	for k := range r.snap {
		keys[k] = true
	}
	for k := range r.buf {
		keys[k] = true
	}
	var l []KV
	for k := range keys {
		if v, ok := r.get(k); ok && inBounds([]byte(k), lo, hi) {
			l = append(l, KV{[]byte(k), v})
		}
	}
	sort.Slice(l, func(i, j int) bool {
		c := bytes.Compare(l[i].K, l[j].K)
		if rev {
			return c > 0
		}
		return c < 0
	})
	return l
}
