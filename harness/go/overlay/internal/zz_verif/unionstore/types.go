//go:build verif

package main

import (
	"bytes"
	"context"
	"encoding/hex"
	"math/rand"
	"os"
	"strings"
	"sync"

	tikverr "github.com/tikv/client-go/v2/error"
	"github.com/tikv/client-go/v2/internal/unionstore"
	"github.com/tikv/client-go/v2/kv"
	"github.com/tikv/client-go/v2/testutils"
	"github.com/tikv/client-go/v2/tikv"
	"github.com/tikv/client-go/v2/txnkv/transaction"
)

// ---------------------------------------------------------------- programs
type Op struct {
	Op     string   `json:"op"`
	K      string   `json:"k,omitempty"`
	V      string   `json:"v,omitempty"`
	Keys   []string `json:"keys,omitempty"`
	Lo     string   `json:"lo,omitempty"`
	Hi     string   `json:"hi,omitempty"`
	F      []int    `json:"f,omitempty"`      // flag ops (index of the FlagsOp constant) of set/del/uflags
	E      uint64   `json:"e,omitempty"`      // limits: entry size limit (0 = unlimited)
	B      uint64   `json:"b,omitempty"`      // limits: buffer size limit (0 = unlimited)
	Unmark bool     `json:"unmark,omitempty"` // uflags: through KVUnionStore.UnmarkPresumeKeyNotExists
	Stale  bool     `json:"stale,omitempty"`  // set/del: open a buffer iterator before the write and probe it afterwards
	H      int      `json:"h,omitempty"`      // release/cleanup/inspect: -1 = the live top handle, else literal handle
	ID     int      `json:"id,omitempty"`     // cp / revert: checkpoint label
}
type Program struct {
	Target string      `json:"target"`
	NoF03  bool        `json:"nof03,omitempty"`
	Snap   [][2]string `json:"snap"`
	Ops    []Op        `json:"ops"`
	// target "merge": UnionIter driven directly with two scripted iterators
	D     [][2]string `json:"d,omitempty"`
	S     [][2]string `json:"s,omitempty"`
	Rev   bool        `json:"rev,omitempty"`
	FailD int         `json:"faild,omitempty"` // the dirty iterator's Next fails when leaving entry FailD-1 (0 = never)
	FailS int         `json:"fails,omitempty"`
}

func hx(b []byte) string { return hex.EncodeToString(b) }
func unhx(s string) []byte {
	b, err := hex.DecodeString(s)
	if err != nil {
		panic(err)
	}
	if len(b) == 0 {
		return nil
	}
	return b
}
func hd(s string) string { // display form: "-" for empty
	if s == "" {
		return "-"
	}
	return s
}

type KV struct{ K, V []byte }

func kvsString(l []KV) string {
	if len(l) == 0 {
		return "-"
	}
	var sb strings.Builder
	for i, e := range l {
		if i > 0 {
			sb.WriteByte(',')
		}
		sb.WriteString(hd(hx(e.K)))
		sb.WriteByte(':')
		sb.WriteString(hd(hx(e.V)))
	}
	return sb.String()
}

// ---------------------------------------------------------------- scripted snapshot
type memSnap struct {
	data   []KV // ascending
	handed [][]byte
	gets   [][]byte
}
type sliceIter struct {
	l []KV
	i int
}

func (it *sliceIter) Valid() bool   { return it.i < len(it.l) }
func (it *sliceIter) Key() []byte   { return it.l[it.i].K }
func (it *sliceIter) Value() []byte { return it.l[it.i].V }
func (it *sliceIter) Next() error   { it.i++; return nil }
func (it *sliceIter) Close()        {}

func (s *memSnap) Get(_ context.Context, k []byte, _ ...kv.GetOption) (kv.ValueEntry, error) {
	s.gets = append(s.gets, k)
	for _, e := range s.data {
		if bytes.Equal(e.K, k) {
			return kv.NewValueEntry(e.V, 0), nil
		}
	}
	return kv.ValueEntry{}, tikverr.ErrNotExist
}
func (s *memSnap) Iter(k, upper []byte) (unionstore.Iterator, error) {
	var l []KV
	for _, e := range s.data {
		if bytes.Compare(e.K, k) >= 0 && (len(upper) == 0 || bytes.Compare(e.K, upper) < 0) {
			l = append(l, e)
		}
	}
	return &sliceIter{l: l}, nil
}
func (s *memSnap) IterReverse(k, lower []byte) (unionstore.Iterator, error) {
	var l []KV
	for i := len(s.data) - 1; i >= 0; i-- {
		e := s.data[i]
		if (len(k) == 0 || bytes.Compare(e.K, k) < 0) && bytes.Compare(e.K, lower) >= 0 {
			l = append(l, e)
		}
	}
	return &sliceIter{l: l}, nil
}
func (s *memSnap) BatchGet(_ context.Context, keys [][]byte, _ ...kv.BatchGetOption) (map[string]kv.ValueEntry, error) {
	s.handed = append([][]byte{}, keys...)
	m := map[string]kv.ValueEntry{}
	for _, k := range keys {
		for _, e := range s.data {
			if bytes.Equal(e.K, k) {
				m[string(k)] = kv.NewValueEntry(e.V, 0)
			}
		}
	}
	return m, nil
}

// ---------------------------------------------------------------- targets
type target interface {
	Buf() unionstore.MemBuffer
	Get(k []byte) ([]byte, bool, error)
	BatchGet(keys [][]byte) (handed [][]byte, haveHanded bool, res map[string][]byte, err error)
	Iter(lo, hi []byte) (unionstore.Iterator, error)
	IterReverse(hi, lo []byte) (unionstore.Iterator, error)
	Close()
}

type usTarget struct {
	buf  unionstore.MemBuffer
	snap *memSnap
	us   *unionstore.KVUnionStore
}

func newUS(kind string, snap []KV) *usTarget {
	var b unionstore.MemBuffer
	if kind == "rbt" {
		b = unionstore.VerifUnionNewRBT()
	} else {
		b = unionstore.VerifUnionNewART()
	}
	s := &memSnap{data: snap}
	return &usTarget{buf: b, snap: s, us: unionstore.NewUnionStore(b, s)}
}
func (t *usTarget) Buf() unionstore.MemBuffer { return t.buf }
func (t *usTarget) Get(k []byte) ([]byte, bool, error) {
	v, err := t.us.Get(context.Background(), k)
	if tikverr.IsErrNotFound(err) {
		return nil, false, nil
	}
	if err != nil {
		return nil, false, err
	}
	return v.Value, true, nil
}
func (t *usTarget) BatchGet(keys [][]byte) ([][]byte, bool, map[string][]byte, error) {
	t.snap.handed = nil
	m, err := transaction.NewBufferBatchGetter(t.buf, t.snap).BatchGet(context.Background(), keys)
	if err != nil {
		return nil, true, nil, err
	}
	r := map[string][]byte{}
	for k, v := range m {
		r[k] = v.Value
	}
	return t.snap.handed, true, r, nil
}
func (t *usTarget) Iter(lo, hi []byte) (unionstore.Iterator, error) { return t.us.Iter(lo, hi) }
func (t *usTarget) IterReverse(hi, lo []byte) (unionstore.Iterator, error) {
	return t.us.IterReverse(hi, lo)
}
func (t *usTarget) Close() {}

// snapBuf adapts the staging-blind view of a MemBuffer (SnapshotGetter) to transaction.BatchSnapshotBufferGetter
type snapBuf struct{ g kv.Getter }

func (b snapBuf) Get(ctx context.Context, k []byte, o ...kv.GetOption) (kv.ValueEntry, error) {
	return b.g.Get(ctx, k, o...)
}
func (b snapBuf) BatchGet(ctx context.Context, keys [][]byte, _ ...kv.BatchGetOption) (map[string]kv.ValueEntry, error) {
	m := map[string]kv.ValueEntry{}
	for _, k := range keys {
		v, err := b.g.Get(ctx, k)
		if err == nil {
			m[string(k)] = v
		} else if !tikverr.IsErrNotFound(err) {
			return nil, err
		}
	}
	return m, nil
}

// ---------------------------------------------------------------- pipelined buffer over a scripted flush function
// The flush function of PipelinedMemDB is scripted: it waits until the program lets it complete, then copies the
// flushed buffer (tombstones included) into `remote`, which is also what the buffer's batch getter answers from.
type pipeTarget struct {
	buf     *unionstore.PipelinedMemDB
	snap    *memSnap
	us      *unionstore.KVUnionStore
	mu      sync.Mutex
	remote  map[string][]byte
	release chan struct{}
	done    chan struct{}
	pending bool
	keys    [][]byte // every key the program mentions: the observation set
}

func newPipe(snap []KV, keys [][]byte) *pipeTarget {
	t := &pipeTarget{snap: &memSnap{data: snap}, remote: map[string][]byte{}, release: make(chan struct{}, 4), done: make(chan struct{}, 4), keys: keys}
	t.buf = unionstore.NewPipelinedMemDB(func(_ context.Context, ks [][]byte) (map[string]kv.ValueEntry, error) {
		t.mu.Lock()
		defer t.mu.Unlock()
		m := make(map[string]kv.ValueEntry, len(ks))
		for _, k := range ks {
			if v, ok := t.remote[string(k)]; ok {
				m[string(k)] = kv.NewValueEntry(v, 0)
			}
		}
		return m, nil
	}, func(_ uint64, db *unionstore.MemDB) error {
		<-t.release
		t.mu.Lock()
		it, err := db.Iter(nil, nil)
		if err == nil {
			for ; it.Valid(); _ = it.Next() {
				t.remote[string(it.Key())] = append([]byte{}, it.Value()...)
			}
		}
		t.mu.Unlock()
		t.done <- struct{}{}
		return err
	})
	t.us = unionstore.NewUnionStore(t.buf, t.snap)
	return t
}
func (t *pipeTarget) complete() {
	if t.pending {
		t.release <- struct{}{}
		<-t.done
		t.pending = false
	}
}
func (t *pipeTarget) Buf() unionstore.MemBuffer { return t.buf }
func (t *pipeTarget) Get(k []byte) ([]byte, bool, error) {
	v, err := t.us.Get(context.Background(), k)
	if tikverr.IsErrNotFound(err) {
		return nil, false, nil
	}
	if err != nil {
		return nil, false, err
	}
	return v.Value, true, nil
}
func (t *pipeTarget) BatchGet(keys [][]byte) ([][]byte, bool, map[string][]byte, error) {
	t.snap.handed = nil
	m, err := transaction.NewBufferBatchGetter(t.buf, t.snap).BatchGet(context.Background(), keys)
	if err != nil {
		return nil, true, nil, err
	}
	r := map[string][]byte{}
	for k, v := range m {
		r[k] = v.Value
	}
	return t.snap.handed, true, r, nil
}
func (t *pipeTarget) Iter(lo, hi []byte) (unionstore.Iterator, error) { return t.us.Iter(lo, hi) }
func (t *pipeTarget) IterReverse(hi, lo []byte) (unionstore.Iterator, error) {
	return t.us.IterReverse(hi, lo)
}
func (t *pipeTarget) Close() {
	t.complete()
	_ = t.buf.FlushWait()
}

// real transaction over the mock store
var theStore *tikv.KVStore
var prevBase [][]byte

var storeUses int
var theCluster *testutils.MockCluster
var storeMultiRegion, storeSingle bool
var storeRand = rand.New(rand.NewSource(4242))

func getStore() *tikv.KVStore {
	// a fresh mock store every 60 transactions: the MVCC history of one store makes later scans slower
	storeUses++
	if theStore != nil && storeUses%60 != 0 {
		return theStore
	}
	if theStore != nil {
		_ = theStore.Close()
		prevBase = nil
	}
	client, cluster, pdClient, err := testutils.NewMockTiKV("", nil)
	must(err)
	// several regions; split points are themselves adversarial keys (prefixes of pool keys, 00/ff runs)
	cands := [][]byte{{0, 0}, {1}, {'a'}, {'a', 0}, {'a', 0, 0}, {'a', 'a', 'a', 'a', 'a', 'a', 'a', 'a', 'a', 'a', 'a', 'a', 'a', 'a', 'a', 'a', 'a', 'a', 'a', 'a', 'a', 'a', 'b'},
		{'a', 'b'}, {'a', 0xff}, {'b'}, {0xfe}, {0xff}, {0xff, 0}, {0xff, 0xff}}
	var splits [][]byte
	storeSingle = gstats["txn-stores"]%4 == 3 // every 4th store keeps one region: open-ended reverse scans run as they are
	for _, c := range cands {
		if !storeSingle && storeRand.Intn(3) == 0 {
			splits = append(splits, c)
		}
	}
	if v := os.Getenv("VERIF_C07_SPLITS"); v != "" { // debugging aid: fixed split keys (comma separated hex)
		splits = nil
		for _, h := range strings.Split(v, ",") {
			splits = append(splits, unhx(h))
		}
	}
	testutils.BootstrapWithMultiRegions(cluster, splits...)
	gstats["txn-stores"]++
	gstats["txn-store-regions"] += len(splits) + 1
	theCluster = cluster
	storeMultiRegion = len(splits) > 0
	st, err := tikv.NewTestTiKVStore(client, pdClient, nil, nil, 0)
	must(err)
	theStore = st
	return st
}
func must(err error) {
	if err != nil {
		panic(err)
	}
}

type txnTarget struct{ txn *transaction.KVTxn }

func newTxn(snap []KV) *txnTarget {
	st := getStore()
	ctx := context.Background()
	t0, err := st.Begin()
	must(err)
	for _, k := range prevBase {
		must(t0.Delete(k))
	}
	prevBase = nil
	for _, e := range snap {
		must(t0.Set(e.K, e.V))
		prevBase = append(prevBase, e.K)
	}
	if t0.Len() > 0 {
		must(t0.Commit(ctx))
	} else {
		_ = t0.Rollback()
	}
	t1, err := st.Begin()
	must(err)
	return &txnTarget{txn: t1}
}
func (t *txnTarget) Buf() unionstore.MemBuffer { return t.txn.GetMemBuffer() }
func (t *txnTarget) Get(k []byte) ([]byte, bool, error) {
	v, err := t.txn.Get(context.Background(), k)
	if tikverr.IsErrNotFound(err) {
		return nil, false, nil
	}
	if err != nil {
		return nil, false, err
	}
	return v.Value, true, nil
}
func (t *txnTarget) BatchGet(keys [][]byte) ([][]byte, bool, map[string][]byte, error) {
	m, err := t.txn.BatchGet(context.Background(), keys)
	if err != nil {
		return nil, false, nil, err
	}
	r := map[string][]byte{}
	for k, v := range m {
		r[k] = v.Value
	}
	return nil, false, r, nil
}
func (t *txnTarget) Iter(lo, hi []byte) (unionstore.Iterator, error) { return t.txn.Iter(lo, hi) }
func (t *txnTarget) IterReverse(hi, lo []byte) (unionstore.Iterator, error) {
	// Reverse scans whose upper end is the end of the key space run as they are, also over several regions
	// (F08b does not reproduce through KVTxn on the current tree). VERIF_C07_CLOSED_END=1 replaces the open end
	// by an explicit bound above every generated key (debugging aid).
	if len(hi) == 0 && storeMultiRegion && os.Getenv("VERIF_C07_CLOSED_END") != "" {
		hi = bytes.Repeat([]byte{0xff}, 40)
	} else if len(hi) == 0 && storeMultiRegion && countStats {
		gstats["txn-riter-open-end-over-several-regions"]++
	}
	return t.txn.IterReverse(hi, lo)
}
func (t *txnTarget) Close() { _ = t.txn.Rollback() }
