//go:build verif

package main

import (
	"strconv"

	"github.com/tikv/client-go/v2/internal/unionstore"
)

// stepSave: one group of operations of the executor (see exec_core.go)
func (x *ex) stepSave(idx int, o Op) {
	t, buf, ref, tr, realCps, cpObs := x.t, x.buf, x.ref, x.tr, x.realCps, x.cpObs
	line, setFail := x.line, x.setFail
	_, _, _, _, _, _, _, _ = t, buf, ref, tr, realCps, cpObs, line, setFail
	switch o.Op {
	case "staging":
		obs := fullObs(t)
		var h int
		pan := protect(func() { h = buf.Staging() })
		res := "h " + strconv.Itoa(h)
		if pan != "" {
			res = "panic"
		}
		tr.staging()
		ref.stack = append(ref.stack, copyMap(ref.buf))
		x.stageObs = append(x.stageObs, obs)
		line(idx, "staging", nil, res)
		if !oracle("staging-handle", pan == "" && h == tr.depth()) {
			setFail("staging-handle", idx, res)
		}
	case "release", "cleanup":
		h := o.H
		if h < 0 {
			h = tr.depth()
		}
		live := h == tr.depth() && h > 0
		if live && h == 1 {
			x.closeSit() // the outermost level ends: open snapshot iterators are closed by their owner first
		}
		before := ""
		if !live || o.Op == "release" {
			before = fullObs(t)
		}
		pan := protect(func() {
			if o.Op == "release" {
				buf.Release(h)
			} else {
				buf.Cleanup(h)
			}
		})
		res := "ok"
		if pan != "" {
			res = "panic"
		}
		line(idx, o.Op, []string{strconv.Itoa(h)}, res)
		expectPanic := (o.Op == "release" && h != 0 && h != tr.depth()) || (o.Op == "cleanup" && h > 0 && h < tr.depth())
		if !oracle("savepoint-misuse-rejected", (pan != "") == expectPanic) {
			setFail("savepoint-misuse-rejected", idx, res+" "+pan)
		}
		if live {
			n := len(x.stageObs) - 1
			if o.Op == "release" {
				tr.release()
				if !oracle("release-keeps", fullObs(t) == before) {
					setFail("release-keeps", idx, "view changed by release")
				}
			} else {
				tr.cleanup()
				ref.undoTo(ref.stack[n])
				for id := range ref.cps {
					if _, ok := tr.cps[id]; !ok {
						delete(ref.cps, id)
					}
				}
				after := fullObs(t)
				if !oracle("cleanup-restores", after == x.stageObs[n]) {
					setFail("cleanup-restores", idx, "before-staging "+x.stageObs[n]+" after-cleanup "+after)
				}
			}
			ref.stack = ref.stack[:n]
			x.stageObs = x.stageObs[:n]
		} else if pan == "" {
			// no-op calls must not change the view
			if !oracle("noop-savepoint-call", fullObs(t) == before) {
				setFail("noop-savepoint-call", idx, "view changed")
			}
		}
	case "cp":
		var c *unionstore.MemDBCheckpoint
		pan := protect(func() { c = buf.Checkpoint() })
		if pan != "" {
			setFail("checkpoint", idx, pan)
			return
		}
		realCps[o.ID] = c
		tr.checkpoint(o.ID)
		ref.cps[o.ID] = copyMap(ref.buf)
		cpObs[o.ID] = fullObs(t)
		line(idx, "cp", []string{strconv.Itoa(o.ID)}, "ok")
	case "revert":
		if !tr.canRevert(o.ID) {
			return // dead checkpoint or below the top staging level: not a legal call, skipped
		}
		pan := protect(func() { buf.RevertToCheckpoint(realCps[o.ID]) })
		res := "ok"
		if pan != "" {
			res = "panic"
		}
		tr.revert(o.ID)
		ref.undoTo(copyMap(ref.cps[o.ID]))
		for id := range ref.cps {
			if _, ok := tr.cps[id]; !ok {
				delete(ref.cps, id)
			}
		}
		line(idx, "revert", []string{strconv.Itoa(o.ID)}, res)
		after := fullObs(t)
		if !oracle("revert-restores", pan == "" && after == cpObs[o.ID]) {
			setFail("revert-restores", idx, "at-checkpoint "+cpObs[o.ID]+" after-revert "+after+" "+pan)
		}
	}
}
