//go:build verif

package main

import (
	"bytes"
	"fmt"
	"sort"
	"strings"

	"github.com/tikv/client-go/v2/internal/unionstore"
)

// stepRead: one group of operations of the executor (see exec_core.go)
func (x *ex) stepRead(idx int, o Op) {
	t, buf, ref, tr, realCps, cpObs := x.t, x.buf, x.ref, x.tr, x.realCps, x.cpObs
	line, setFail := x.line, x.setFail
	_, _, _, _, _, _, _, _ = t, buf, ref, tr, realCps, cpObs, line, setFail
	switch o.Op {
	case "get":
		k := unhx(o.K)
		var gv []byte
		var found bool
		var gerr error
		pan := protect(func() { gv, found, gerr = t.Get(k) })
		res := "nf"
		if pan != "" {
			res = "panic"
		} else if gerr != nil {
			res = "err"
		} else if found {
			res = "v " + hd(hx(gv))
		}
		line(idx, "get", []string{hd(o.K)}, res)
		wv, wfound := ref.get(string(k))
		ok := pan == "" && gerr == nil && found == wfound && bytes.Equal(gv, wv)
		if !oracle("get=overlay", ok) {
			setFail("get=overlay", idx, fmt.Sprintf("got %s want %s found=%v", res, hx(wv), wfound))
		}
	case "bget":
		var keys [][]byte
		var args []string
		for _, s := range o.Keys {
			keys = append(keys, unhx(s))
			args = append(args, hd(s))
		}
		var handed [][]byte
		var have bool
		var m map[string][]byte
		var berr error
		pan := protect(func() { handed, have, m, berr = t.BatchGet(keys) })
		res := ""
		if pan != "" {
			res = "panic"
		} else if berr != nil {
			res = "err"
		} else {
			var l []KV
			for k, v := range m {
				l = append(l, KV{[]byte(k), v})
			}
			sort.Slice(l, func(i, j int) bool { return bytes.Compare(l[i].K, l[j].K) < 0 })
			hs := "?"
			if have {
				var hl []string
				for _, h := range handed {
					hl = append(hl, hd(hx(h)))
				}
				hs = strings.Join(hl, ",")
				if hs == "" {
					hs = "none"
				}
			}
			res = "handed=" + hs + "|res=" + kvsString(l)
		}
		line(idx, "bget", []string{strings.Join(args, ",")}, res)
		ok := pan == "" && berr == nil
		if ok {
			want := map[string][]byte{}
			for _, k := range keys {
				if v, f := ref.get(string(k)); f {
					want[string(k)] = v
				}
			}
			ok = len(want) == len(m)
			for k, v := range want {
				if g, f := m[k]; !f || !bytes.Equal(g, v) {
					ok = false
				}
			}
		}
		if !oracle("batchget=overlay", ok) {
			setFail("batchget=overlay", idx, res)
		}
		if have && pan == "" && berr == nil {
			ok2 := true
			hm := map[string]bool{}
			for _, h := range handed {
				hm[string(h)] = true
				if _, buffered := ref.buf[string(h)]; buffered {
					ok2 = false // a buffered key was read from the snapshot again
				}
			}
			for _, k := range keys {
				if _, buffered := ref.buf[string(k)]; !buffered && !hm[string(k)] {
					ok2 = false // an unbuffered key was not handed to the snapshot
				}
			}
			if !oracle("batchget-shrinks-keys", ok2) {
				setFail("batchget-shrinks-keys", idx, res)
			}
		}
	case "iter", "riter":
		lo, hi := unhx(o.Lo), unhx(o.Hi)
		rev := o.Op == "riter"
		if _, isPipe := t.(*pipeTarget); isPipe {
			// error path: PipelinedMemDB.Iter is unsupported, KVUnionStore.Iter must hand the error on (no iterator)
			var it unionstore.Iterator
			var ierr error
			pan := protect(func() { it, ierr = t.Iter(lo, hi) })
			res := "err"
			if pan != "" {
				res = "panic"
			} else if ierr == nil || it != nil {
				res = "no-error"
			}
			line(idx, "iter", []string{hd(o.Lo), hd(o.Hi)}, res)
			if !oracle("pipelined-iter-unsupported", res == "err") {
				setFail("pipelined-iter-unsupported", idx, res)
			}
			return
		}
		var l []KV
		var e string
		pan := protect(func() {
			if rev {
				l, e = drain(t.IterReverse(hi, lo))
			} else {
				l, e = drain(t.Iter(lo, hi))
			}
		})
		res := kvsString(l) + e
		if pan != "" {
			res = "panic"
		}
		line(idx, o.Op, []string{hd(o.Lo), hd(o.Hi)}, res)
		good := pan == "" && e == ""
		mono, inb, nonEmpty := true, true, true
		for i, x := range l {
			if i > 0 {
				c := bytes.Compare(l[i-1].K, x.K)
				if (!rev && c >= 0) || (rev && c <= 0) {
					mono = false
				}
			}
			if !inBounds(x.K, lo, hi) {
				inb = false
			}
			if len(x.V) == 0 {
				nonEmpty = false
			}
		}
		if !oracle("iter-strictly-monotone", good && mono) {
			setFail("iter-strictly-monotone", idx, res)
		}
		if !oracle("iter-within-bounds", good && inb) {
			setFail("iter-within-bounds", idx, res)
		}
		if !oracle("iter-no-tombstone", good && nonEmpty) {
			setFail("iter-no-tombstone", idx, res)
		}
		want := ref.list(lo, hi, rev)
		if !oracle("iter=overlay", good && kvsString(want) == kvsString(l)) {
			setFail("iter=overlay", idx, "got "+res+" want "+kvsString(want))
		}
	}
}
