//go:build verif

package main

import (
	"math/rand"
	"sort"
)

// ---------------------------------------------------------------- minimiser (in process)
func fails(p *Program, wantFired *bool) (*failure, bool) {
	save := countStats
	countStats = false
	defer func() { countStats = save }()
	f, fired := execProgram(0, p, nil)
	if f == nil {
		return nil, fired
	}
	if wantFired != nil && fired != *wantFired {
		return nil, fired
	}
	return f, fired
}
func cloneProg(p *Program) *Program {
	q := *p
	q.Snap = append([][2]string{}, p.Snap...)
	q.Ops = append([]Op{}, p.Ops...)
	q.D = append([][2]string{}, p.D...)
	q.S = append([][2]string{}, p.S...)
	return &q
}

// minimise: 1-minimal w.r.t. removing an op, a snapshot entry, a batch key; under the constraint that the
// predicted F03 status equals wantFired (nil = unconstrained)
func minimise(p *Program, wantFired *bool) *Program {
	cur := cloneProg(p)
	f, _ := fails(cur, wantFired)
	if f == nil {
		return nil
	}
	if f.idx+1 < len(cur.Ops) {
		cur.Ops = cur.Ops[:f.idx+1]
	}
	for changed := true; changed; {
		changed = false
		for i := len(cur.Ops) - 1; i >= 0; i-- {
			c := cloneProg(cur)
			c.Ops = append(c.Ops[:i:i], cur.Ops[i+1:]...)
			if f, _ := fails(c, wantFired); f != nil {
				cur = c
				changed = true
			}
		}
		for i := len(cur.D) - 1; i >= 0; i-- {
			c := cloneProg(cur)
			c.D = append(c.D[:i:i], cur.D[i+1:]...)
			if c.FailD > len(c.D) {
				c.FailD = len(c.D)
			}
			if f, _ := fails(c, wantFired); f != nil {
				cur = c
				changed = true
			}
		}
		for i := len(cur.S) - 1; i >= 0; i-- {
			c := cloneProg(cur)
			c.S = append(c.S[:i:i], cur.S[i+1:]...)
			if c.FailS > len(c.S) {
				c.FailS = len(c.S)
			}
			if f, _ := fails(c, wantFired); f != nil {
				cur = c
				changed = true
			}
		}
		for i := len(cur.Snap) - 1; i >= 0; i-- {
			c := cloneProg(cur)
			c.Snap = append(c.Snap[:i:i], cur.Snap[i+1:]...)
			if f, _ := fails(c, wantFired); f != nil {
				cur = c
				changed = true
			}
		}
		for i := range cur.Ops {
			for j := len(cur.Ops[i].Keys) - 1; j >= 0 && len(cur.Ops[i].Keys) > 1; j-- {
				c := cloneProg(cur)
				ks := append([]string{}, cur.Ops[i].Keys[:j]...)
				ks = append(ks, cur.Ops[i].Keys[j+1:]...)
				c.Ops[i].Keys = ks
				if f, _ := fails(c, wantFired); f != nil {
					cur = c
					changed = true
				}
			}
			if len(cur.Ops[i].F) > 0 || cur.Ops[i].Stale {
				c := cloneProg(cur)
				c.Ops[i].F, c.Ops[i].Stale = nil, false
				if f, _ := fails(c, wantFired); f != nil {
					cur = c
					changed = true
				}
			}
			if cur.Ops[i].Lo != "" || cur.Ops[i].Hi != "" {
				c := cloneProg(cur)
				c.Ops[i].Lo, c.Ops[i].Hi = "", ""
				if f, _ := fails(c, wantFired); f != nil {
					cur = c
					changed = true
				}
			}
		}
	}
	return cur
}

// ---------------------------------------------------------------- generator
var gstats = map[string]int{}

func keyPool(r *rand.Rand, txn bool) [][]byte {
	base := [][]byte{{}, {0}, {0, 0}, {0xff}, {0xff, 0xff}, {0xff, 0}, {'a'}, {'a', 0}, {'a', 0, 0}, {'a', 0xff}, {'a', 0xff, 0xff},
		{'a', 'b'}, {'a', 'b', 0}, {'a', 1}, {'b'}, {'b', 0xff}, {0, 0xff}, {0xfe}, {1}, {'a', 'a', 'a', 'a', 'a', 'a', 'a', 'a', 'a', 'a', 'a', 'a', 'a', 'a', 'a', 'a', 'a', 'a', 'a', 'a', 'a', 'a', 'b'},
		{'a', 'a', 'a', 'a', 'a', 'a', 'a', 'a', 'a', 'a', 'a', 'a', 'a', 'a', 'a', 'a', 'a', 'a', 'a', 'a', 'a', 'a', 'c'}}
	alpha := []byte{0, 1, 'a', 'b', 0xfe, 0xff}
	n := 3 + r.Intn(9)
	seen := map[string]bool{}
	var pool [][]byte
	for len(pool) < n {
		var k []byte
		switch r.Intn(4) {
		case 0, 1:
			k = base[r.Intn(len(base))]
		case 2:
			l := 1 + r.Intn(3)
			for i := 0; i < l; i++ {
				k = append(k, alpha[r.Intn(len(alpha))])
			}
		default: // extend an existing pool key: prefix relation
			if len(pool) > 0 {
				k = append(append([]byte{}, pool[r.Intn(len(pool))]...), alpha[r.Intn(len(alpha))])
			} else {
				k = []byte{'a'}
			}
		}
		if txn && len(k) == 0 {
			continue
		}
		if !seen[string(k)] {
			seen[string(k)] = true
			pool = append(pool, k)
		}
	}
	return pool
}
func genValue(r *rand.Rand, big bool) []byte {
	alpha := []byte{'x', 'y', 0, 0xff}
	l := 1 + r.Intn(3)
	if big && r.Intn(12) == 0 {
		l = 1200 + r.Intn(3000)
	}
	v := make([]byte, l)
	for i := range v {
		v[i] = alpha[r.Intn(len(alpha))]
	}
	return v
}
func genBound(r *rand.Rand, pool [][]byte) []byte {
	switch r.Intn(6) {
	case 0, 1:
		return nil
	case 2:
		return append(append([]byte{}, pool[r.Intn(len(pool))]...), 0)
	case 3:
		k := pool[r.Intn(len(pool))]
		if len(k) > 0 {
			return k[:len(k)-1]
		}
		return k
	default:
		return pool[r.Intn(len(pool))]
	}
}

func genProgram(r *rand.Rand, targetKind string, nops int, big bool) *Program {
	p := &Program{Target: targetKind}
	txn := targetKind == "txn"
	pool := keyPool(r, txn)
	for _, k := range pool {
		if r.Intn(2) == 0 {
			p.Snap = append(p.Snap, [2]string{hx(k), hx(genValue(r, false))})
		}
	}
	tr := newTracker()
	nextCp := 1
	var lastBget []string
	sitOpen := false
	limited := r.Intn(8) == 0 // programs that play with the entry / buffer size limits
	pick := func() []byte { return pool[r.Intn(len(pool))] }
	for len(p.Ops) < nops {
		x := r.Intn(127)
		if sitOpen && tr.depth() > 0 && r.Intn(5) == 0 {
			p.Ops = append(p.Ops, Op{Op: "sitnext", ID: 1 + r.Intn(3)})
			continue
		}
		if txn && r.Intn(40) == 0 {
			p.Ops = append(p.Ops, Op{Op: "split", K: hx(genBound(r, pool))})
			continue
		}
		genFops := func() []int {
			if r.Intn(4) != 0 {
				return nil
			}
			n := 1 + r.Intn(2)
			var f []int
			for i := 0; i < n; i++ {
				switch r.Intn(6) {
				case 0:
					f = append(f, 0) // SetPresumeKeyNotExists
				case 1:
					f = append(f, 19) // SetPreviousPresumeKNE
				default:
					f = append(f, r.Intn(22))
				}
			}
			return f
		}
		switch {
		case x >= 100 && x < 106:
			f := genFops()
			if f == nil {
				f = []int{r.Intn(22)}
			}
			if r.Intn(5) == 0 {
				p.Ops = append(p.Ops, Op{Op: "uflags", K: hx(pick()), Unmark: true})
			} else {
				p.Ops = append(p.Ops, Op{Op: "uflags", K: hx(pick()), F: f})
			}
		case x >= 106 && x < 110:
			p.Ops = append(p.Ops, Op{Op: "gflags", K: hx(pick())})
		case x >= 110 && x < 113:
			switch r.Intn(3) {
			case 0:
				p.Ops = append(p.Ops, Op{Op: "dirty"})
			case 1:
				p.Ops = append(p.Ops, Op{Op: "sseq"})
			default:
				p.Ops = append(p.Ops, Op{Op: "len"})
			}
		case x >= 113 && x < 116:
			if r.Intn(3) == 0 {
				p.Ops = append(p.Ops, Op{Op: "riterf", Hi: hx(genBound(r, pool))})
			} else {
				p.Ops = append(p.Ops, Op{Op: "iterf", Lo: hx(genBound(r, pool)), Hi: hx(genBound(r, pool))})
			}
		case x >= 116 && x < 118:
			if r.Intn(2) == 0 {
				n := 1 + r.Intn(4)
				var ks []string
				for i := 0; i < n; i++ {
					ks = append(ks, hx(pick()))
				}
				if r.Intn(2) == 0 {
					ks = append(ks, ks[r.Intn(len(ks))])
				}
				p.Ops = append(p.Ops, Op{Op: "sbget", Keys: ks})
			} else if r.Intn(2) == 0 {
				p.Ops = append(p.Ops, Op{Op: "sget", K: hx(pick())})
			} else if r.Intn(3) == 0 && tr.depth() > 0 {
				p.Ops = append(p.Ops, Op{Op: "sitnew", Lo: hx(genBound(r, pool)), Hi: hx(genBound(r, pool)), H: r.Intn(2)})
				sitOpen = true
			} else if sitOpen && r.Intn(2) == 0 {
				p.Ops = append(p.Ops, Op{Op: "sitnext", ID: 1 + r.Intn(3)})
			} else if r.Intn(3) == 0 {
				p.Ops = append(p.Ops, Op{Op: "snapnew"})
			} else {
				p.Ops = append(p.Ops, Op{Op: "snapget", K: hx(pick())})
			}
		case x >= 118 && x < 121:
			kind := "siter"
			if r.Intn(2) == 0 {
				kind = "sriter"
			}
			p.Ops = append(p.Ops, Op{Op: kind, Lo: hx(genBound(r, pool)), Hi: hx(genBound(r, pool))})
		case x >= 121 && x < 123:
			switch r.Intn(5) {
			case 0:
				p.Ops = append(p.Ops, Op{Op: "snapnew"})
			case 1, 2:
				p.Ops = append(p.Ops, Op{Op: "snapget", K: hx(pick())})
			case 3:
				p.Ops = append(p.Ops, Op{Op: "snapscan", Lo: hx(genBound(r, pool)), Hi: hx(genBound(r, pool)), H: r.Intn(2)})
			default:
				p.Ops = append(p.Ops, Op{Op: "hist", K: hx(pick())})
			}
		case x >= 123 && x < 125:
			if tr.depth() > 0 {
				p.Ops = append(p.Ops, Op{Op: "inspect", H: 1 + r.Intn(tr.depth())})
			}
		case x >= 125:
			if limited && r.Intn(3) != 0 {
				p.Ops = append(p.Ops, Op{Op: "limits"}) // back to unlimited
			} else if limited {
				p.Ops = append(p.Ops, Op{Op: "limits", E: uint64(3 + r.Intn(6)), B: uint64(8 + r.Intn(40))})
			}
		case x < 28:
			k := pick()
			v := genValue(r, big)
			if r.Intn(40) == 0 {
				v = nil
			}
			if len(v) > 0 && tr.inplaceIdx(string(k), v) < 0 && tr.head(string(k)) >= 0 && len(tr.log[tr.head(string(k))].v) == len(v) {
				gstats["same-length-overwrite-not-in-place(protected)"]++
			}
			if len(v) > 0 {
				if tr.inplaceIdx(string(k), v) >= 0 {
					gstats["inplace-overwrite"]++
				}
				tr.write(string(k), v)
			}
			p.Ops = append(p.Ops, Op{Op: "set", K: hx(k), V: hx(v), F: genFops(), Stale: r.Intn(15) == 0})
		case x < 40:
			k := pick()
			tr.write(string(k), nil)
			p.Ops = append(p.Ops, Op{Op: "del", K: hx(k), F: genFops(), Stale: r.Intn(20) == 0})
		case x < 50:
			p.Ops = append(p.Ops, Op{Op: "get", K: hx(pick())})
		case x < 58:
			n := 1 + r.Intn(5)
			var ks []string
			for i := 0; i < n; i++ {
				ks = append(ks, hx(pick()))
			}
			// directed class: a key listed twice, preferably one whose buffered value is a tombstone
			if r.Intn(3) == 0 {
				var tombs []string
				for _, k := range pool {
					if i := tr.head(string(k)); i >= 0 && len(tr.log[i].v) == 0 {
						tombs = append(tombs, hx(k))
					}
				}
				if len(tombs) > 0 {
					k := tombs[r.Intn(len(tombs))]
					pos := r.Intn(len(ks) + 1)
					ks = append(ks[:pos:pos], append([]string{k}, ks[pos:]...)...)
					ks = append(ks, k)
					gstats["bget-duplicated-tombstone-key"]++
				} else {
					ks = append(ks, ks[r.Intn(len(ks))])
					gstats["bget-duplicated-key"]++
				}
			}
			if txn && lastBget != nil && r.Intn(3) == 0 {
				ks = lastBget // same keys again: the snapshot's value cache is warm
				gstats["txn-bget-repeated-keys"]++
			}
			lastBget = ks
			p.Ops = append(p.Ops, Op{Op: "bget", Keys: ks})
		case x < 68:
			p.Ops = append(p.Ops, Op{Op: "iter", Lo: hx(genBound(r, pool)), Hi: hx(genBound(r, pool))})
		case x < 78:
			p.Ops = append(p.Ops, Op{Op: "riter", Lo: hx(genBound(r, pool)), Hi: hx(genBound(r, pool))})
		case x < 84:
			if tr.depth() < 4 {
				tr.staging()
				p.Ops = append(p.Ops, Op{Op: "staging"})
			}
		case x < 88:
			if r.Intn(25) == 0 && !txn {
				p.Ops = append(p.Ops, Op{Op: "release", H: r.Intn(5)}) // possibly a wrong handle
				if h := p.Ops[len(p.Ops)-1].H; h == tr.depth() && h > 0 {
					tr.release()
				}
			} else if tr.depth() > 0 {
				tr.release()
				p.Ops = append(p.Ops, Op{Op: "release", H: -1})
			}
		case x < 92:
			if r.Intn(25) == 0 && !txn {
				p.Ops = append(p.Ops, Op{Op: "cleanup", H: r.Intn(5)})
				if h := p.Ops[len(p.Ops)-1].H; h == tr.depth() && h > 0 {
					tr.cleanup()
				}
			} else if tr.depth() > 0 {
				tr.cleanup()
				p.Ops = append(p.Ops, Op{Op: "cleanup", H: -1})
			}
		case x < 96:
			tr.checkpoint(nextCp)
			p.Ops = append(p.Ops, Op{Op: "cp", ID: nextCp})
			nextCp++
		default:
			var ok []int
			for id := range tr.cps {
				if tr.canRevert(id) {
					ok = append(ok, id)
				}
			}
			if len(ok) > 0 {
				sort.Ints(ok)
				id := ok[r.Intn(len(ok))]
				tr.revert(id)
				p.Ops = append(p.Ops, Op{Op: "revert", ID: id})
			}
		}
	}
	return p
}

// programs for the pipelined buffer: writes, point / batch reads, staging levels and a scripted flush schedule
func genPipeProgram(r *rand.Rand, nops int) *Program {
	p := &Program{Target: "pipe"}
	pool := keyPool(r, false)
	for _, k := range pool {
		if r.Intn(2) == 0 {
			p.Snap = append(p.Snap, [2]string{hx(k), hx(genValue(r, false))})
		}
	}
	pick := func() []byte { return pool[r.Intn(len(pool))] }
	depth := 0
	for len(p.Ops) < nops {
		x := r.Intn(100)
		switch {
		case x < 20:
			v := genValue(r, false)
			if r.Intn(40) == 0 {
				v = nil
			}
			p.Ops = append(p.Ops, Op{Op: "set", K: hx(pick()), V: hx(v)})
		case x < 34:
			p.Ops = append(p.Ops, Op{Op: "del", K: hx(pick())})
		case x < 52:
			p.Ops = append(p.Ops, Op{Op: "get", K: hx(pick())})
		case x < 66:
			n := 1 + r.Intn(4)
			var ks []string
			for i := 0; i < n; i++ {
				ks = append(ks, hx(pick()))
			}
			if r.Intn(3) == 0 {
				ks = append(ks, ks[r.Intn(len(ks))])
			}
			p.Ops = append(p.Ops, Op{Op: "bget", Keys: ks})
		case x < 72:
			if depth < 3 {
				depth++
				p.Ops = append(p.Ops, Op{Op: "staging"})
			}
		case x < 77:
			if depth > 0 {
				depth--
				p.Ops = append(p.Ops, Op{Op: "release", H: -1})
			}
		case x < 82:
			if depth > 0 {
				depth--
				p.Ops = append(p.Ops, Op{Op: "cleanup", H: -1})
			}
		case x < 89:
			if depth == 0 || r.Intn(6) == 0 {
				p.Ops = append(p.Ops, Op{Op: "flush"})
			}
		case x < 90:
			// iteration is not supported by the pipelined buffer: the union store must report the error
			p.Ops = append(p.Ops, Op{Op: "iter"})
		case x < 95:
			p.Ops = append(p.Ops, Op{Op: "fdone"})
		default:
			p.Ops = append(p.Ops, Op{Op: "fwait"})
		}
	}
	return p
}
