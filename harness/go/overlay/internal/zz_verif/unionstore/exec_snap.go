//go:build verif

package main

import (
	"bytes"
	"context"
	"os"
	"sort"
	"strconv"
	"strings"

	tikverr "github.com/tikv/client-go/v2/error"
	"github.com/tikv/client-go/v2/internal/unionstore"
	"github.com/tikv/client-go/v2/kv"
	"github.com/tikv/client-go/v2/txnkv/transaction"
)

// stepSnap: one group of operations of the executor (see exec_core.go)
func (x *ex) stepSnap(idx int, o Op) {
	t, buf, ref, tr, realCps, cpObs := x.t, x.buf, x.ref, x.tr, x.realCps, x.cpObs
	line, setFail := x.line, x.setFail
	_, _, _, _, _, _, _, _ = t, buf, ref, tr, realCps, cpObs, line, setFail
	switch o.Op {
	case "sget":
		k := unhx(o.K)
		var ve kv.ValueEntry
		var gerr error
		pan := protect(func() { ve, gerr = buf.SnapshotGetter().Get(context.Background(), k) })
		res := "nf"
		if pan != "" {
			res = "panic"
		} else if gerr == nil {
			res = "v " + hd(hx(ve.Value))
		} else if !tikverr.IsErrNotFound(gerr) {
			res = "err"
		}
		line(idx, "sget", []string{hd(o.K)}, res)
		base := ref.buf
		if len(ref.stack) > 0 {
			base = ref.stack[0]
		}
		want := "nf"
		if bv, has := base[string(k)]; has {
			want = "v " + hd(hx(bv))
		}
		if !oracle("snapshot-read-ignores-staging", res == want) {
			setFail("snapshot-read-ignores-staging", idx, res+" want "+want)
		}
	case "sbget":
		// BufferSnapshotBatchGetter: the second copy of the batch-get merge loop, over the staging-blind view
		if _, isPipe := t.(*pipeTarget); isPipe {
			return
		}
		var keys [][]byte
		var args []string
		for _, h := range o.Keys {
			keys = append(keys, unhx(h))
			args = append(args, hd(h))
		}
		var m map[string]kv.ValueEntry
		var berr error
		var handed [][]byte
		have := false
		pan := protect(func() {
			switch tt := t.(type) {
			case *usTarget:
				tt.snap.handed = nil
				m, berr = transaction.NewBufferSnapshotBatchGetter(snapBuf{buf.SnapshotGetter()}, tt.snap).BatchGet(context.Background(), keys)
				handed, have = tt.snap.handed, true
			case *txnTarget:
				m, berr = transaction.NewBufferSnapshotBatchGetter(snapBuf{buf.SnapshotGetter()}, tt.txn.GetSnapshot()).BatchGet(context.Background(), keys)
			}
		})
		res := ""
		if pan != "" {
			res = "panic"
		} else if berr != nil {
			res = "err"
		} else {
			var l []KV
			for k, v := range m {
				l = append(l, KV{[]byte(k), v.Value})
			}
			sort.Slice(l, func(i, j int) bool { return bytes.Compare(l[i].K, l[j].K) < 0 })
			hs := "?"
			if have {
				var hl []string
				for _, h := range handed {
					hl = append(hl, hd(hx(h)))
				}
				hs = strings.Join(hl, ",")
				if hs == "" {
					hs = "none"
				}
			}
			res = "handed=" + hs + "|res=" + kvsString(l)
		}
		line(idx, "sbget", []string{strings.Join(args, ",")}, res)
		base := ref.buf
		if len(ref.stack) > 0 {
			base = ref.stack[0]
		}
		okS := pan == "" && berr == nil
		if okS {
			want := map[string][]byte{}
			for _, k := range keys {
				if bv, has := base[string(k)]; has {
					if len(bv) > 0 {
						want[string(k)] = bv
					}
				} else if sv, has := ref.snap[string(k)]; has {
					want[string(k)] = sv
				}
			}
			okS = len(want) == len(m)
			for k, v := range want {
				if g, f := m[k]; !f || !bytes.Equal(g.Value, v) {
					okS = false
				}
			}
			if have {
				hm := map[string]bool{}
				for _, h := range handed {
					hm[string(h)] = true
					if _, b := base[string(h)]; b {
						okS = false
					}
				}
				for _, k := range keys {
					if _, b := base[string(k)]; !b && !hm[string(k)] {
						okS = false
					}
				}
			}
		}
		if !oracle("snapshot-batchget=base-overlay", okS) {
			setFail("snapshot-batchget=base-overlay", idx, res)
		}
	case "snapnew", "snapget", "snapscan":
		// a MemBufferSnapshot object (GetSnapshot) kept across operations: it answers with the staging-blind view
		// of its creation as long as SnapshotSeqNo has not moved, and refuses ("invalid iter") afterwards
		if _, hasSeq := unionstore.VerifUnionSnapshotSeq(buf); !hasSeq {
			return // RBT keeps no sequence number: its snapshot objects never refuse (code behaviour, not compared)
		}
		if o.Op == "snapnew" {
			pan := protect(func() { x.snapObj = buf.GetSnapshot() })
			x.snapBase = copyMap(ref.buf)
			if len(ref.stack) > 0 {
				x.snapBase = copyMap(ref.stack[0])
			}
			res := "ok"
			if pan != "" {
				res = "panic"
			}
			line(idx, "snapnew", nil, res)
			return
		}
		if x.snapObj == nil {
			return
		}
		res, okO := "", true
		if o.Op == "snapget" {
			k := unhx(o.K)
			var ve kv.ValueEntry
			var gerr error
			pan := protect(func() { ve, gerr = x.snapObj.Get(context.Background(), k) })
			switch {
			case pan != "":
				res = "panic"
			case gerr == nil:
				res = "v " + hd(hx(ve.Value))
			case tikverr.IsErrNotFound(gerr):
				res = "nf"
			case strings.Contains(gerr.Error(), "invalid iter"):
				res = "invalid"
			default:
				res = "err"
			}
			line(idx, "snapget", []string{hd(o.K)}, res)
			if res != "invalid" {
				want := "nf"
				if bv, has := x.snapBase[string(k)]; has {
					want = "v " + hd(hx(bv))
				}
				okO = res == want
			}
		} else {
			lo, hi := unhx(o.Lo), unhx(o.Hi)
			rev := o.H == 1
			var l []KV
			invalid := false
			pan := protect(func() {
				it := x.snapObj.BatchedSnapshotIter(lo, hi, rev)
				for n := 0; it.Valid() && n < maxIter; n++ {
					l = append(l, KV{append([]byte{}, it.Key()...), append([]byte{}, it.Value()...)})
					if e := it.Next(); e != nil {
						invalid = true
						break
					}
				}
				if e := it.Next(); e != nil && strings.Contains(e.Error(), "invalid iter") {
					invalid = true
				}
				it.Close()
			})
			res = kvsString(l)
			if invalid {
				res = "invalid"
			}
			if pan != "" {
				res = "panic"
			}
			dir := "fwd"
			if rev {
				dir = "rev"
			}
			line(idx, "snapscan", []string{hd(o.Lo), hd(o.Hi), dir}, res)
			if res != "invalid" {
				var wl []KV
				for k, v := range x.snapBase {
					if inBounds([]byte(k), lo, hi) {
						wl = append(wl, KV{[]byte(k), v})
					}
				}
				sort.Slice(wl, func(i, j int) bool {
					c := bytes.Compare(wl[i].K, wl[j].K)
					if rev {
						return c > 0
					}
					return c < 0
				})
				okO = kvsString(wl) == res
			}
		}
		if !oracle("snapshot-object=view-at-creation-or-invalid", okO) {
			setFail("snapshot-object=view-at-creation-or-invalid", idx, res)
		}
	case "sitnew", "sitnext", "sitclose":
		// a snapshot iterator of the buffer that stays open while the transaction keeps writing into its staging
		// levels (how a statement scans its own earlier writes): it must keep yielding the staging-blind view of its
		// creation — ART blocks the reuse of freed nodes for that, RBT nodes never move
		if _, isPipe := t.(*pipeTarget); isPipe {
			return
		}
		switch o.Op {
		case "sitclose":
			if x.sit != nil {
				x.closeSit()
				line(idx, "sitclose", nil, "ok")
			}
		case "sitnew":
			if tr.depth() == 0 {
				return // only meaningful (and only used) while a staging level is open
			}
			x.closeSit()
			lo, hi := unhx(o.Lo), unhx(o.Hi)
			rev := o.H == 1
			pan := protect(func() {
				if _, hasSeq := unionstore.VerifUnionSnapshotSeq(buf); hasSeq && os.Getenv("VERIF_C07_RAW_SIT") == "" {
					// ART: the raw SnapshotIter does not survive tree growth (a repeated or skipped key; see docs/C07.md);
					// the iterator that tolerates interleaved writes is GetSnapshot().BatchedSnapshotIter
					x.sit = buf.GetSnapshot().BatchedSnapshotIter(lo, hi, rev)
				} else if rev {
					x.sit = buf.SnapshotIterReverse(hi, lo) // RBT: nodes never move, the raw iterator is stable
				} else {
					x.sit = buf.SnapshotIter(lo, hi)
				}
			})
			x.sitWant, x.sitPos = nil, 0
			for k, v := range ref.stack[0] {
				if inBounds([]byte(k), lo, hi) {
					x.sitWant = append(x.sitWant, KV{[]byte(k), v})
				}
			}
			sort.Slice(x.sitWant, func(i, j int) bool {
				c := bytes.Compare(x.sitWant[i].K, x.sitWant[j].K)
				if rev {
					return c > 0
				}
				return c < 0
			})
			dir := "fwd"
			if rev {
				dir = "rev"
			}
			res := "ok"
			if pan != "" {
				res = "panic"
				x.sit = nil
			}
			line(idx, "sitnew", []string{hd(o.Lo), hd(o.Hi), dir}, res)
		case "sitnext":
			if x.sit == nil {
				return
			}
			var out []KV
			ended, invalid := false, false
			pan := protect(func() {
				for i := 0; i < o.ID && x.sit.Valid(); i++ {
					out = append(out, KV{append([]byte{}, x.sit.Key()...), append([]byte{}, x.sit.Value()...)})
					if e := x.sit.Next(); e != nil {
						panic(e)
					}
				}
				ended = !x.sit.Valid()
				if _, hasSeq := unionstore.VerifUnionSnapshotSeq(buf); hasSeq && ended {
					// the batched iterator refuses once SnapshotSeqNo has moved (e.g. a revert above stages[0])
					if e := x.sit.Next(); e != nil && strings.Contains(e.Error(), "invalid iter") {
						invalid = true
					}
				}
			})
			res := kvsString(out)
			if invalid {
				res += "|invalid"
			} else if ended {
				res += "|end"
			}
			if pan != "" {
				res = "panic"
			}
			line(idx, "sitnext", []string{strconv.Itoa(o.ID)}, res)
			okI := pan == "" && x.sitPos+len(out) <= len(x.sitWant) &&
				kvsString(out) == kvsString(x.sitWant[x.sitPos:x.sitPos+len(out)]) &&
				(invalid || ended == (x.sitPos+len(out) >= len(x.sitWant))) // a refusal is never a wrong answer
			x.sitPos += len(out)
			if !oracle("open-snapshot-iterator-keeps-its-view", okI) {
				setFail("open-snapshot-iterator-keeps-its-view", idx, res+" want from "+strconv.Itoa(x.sitPos-len(out))+" of "+kvsString(x.sitWant))
			}
			if pan != "" || ended {
				x.closeSit()
			}
		}
	case "siter", "sriter":
		lo, hi := unhx(o.Lo), unhx(o.Hi)
		rev := o.Op == "sriter"
		var l []KV
		var e string
		pan := protect(func() {
			if rev {
				l, e = drain(buf.SnapshotIterReverse(hi, lo), nil)
			} else {
				l, e = drain(buf.SnapshotIter(lo, hi), nil)
			}
		})
		res := kvsString(l) + e
		if pan != "" {
			res = "panic"
		}
		line(idx, o.Op, []string{hd(o.Lo), hd(o.Hi)}, res)
		base := ref.buf
		if len(ref.stack) > 0 {
			base = ref.stack[0]
		}
		var wl []KV
		for k, v := range base {
			if inBounds([]byte(k), lo, hi) {
				wl = append(wl, KV{[]byte(k), v})
			}
		}
		sort.Slice(wl, func(i, j int) bool {
			c := bytes.Compare(wl[i].K, wl[j].K)
			if rev {
				return c > 0
			}
			return c < 0
		})
		if !oracle("snapshot-iter-ignores-staging", pan == "" && e == "" && kvsString(wl) == kvsString(l)) {
			setFail("snapshot-iter-ignores-staging", idx, res+" want "+kvsString(wl))
		}
	}
}
