//go:build verif

// Driver for property C19: runs util/codec on generated inputs and prints one line per case.
// Line formats (tab separated):  op \t args... \t => \t result
// Property-oracle lines:         P \t name \t args... \t pass|fail
package main

import (
	"bufio"
	"bytes"
	"encoding/hex"
	"fmt"
	"math/rand"
	"os"
	"strconv"
	"strings"

	"github.com/tikv/client-go/v2/internal/apicodec"
	"github.com/tikv/client-go/v2/internal/mockstore/mocktikv"
	"github.com/tikv/client-go/v2/util/codec"
)

var out *bufio.Writer

func hx(b []byte) string {
	if len(b) == 0 {
		return "-"
	}
	return hex.EncodeToString(b)
}
func unhx(s string) []byte {
	if s == "-" {
		return nil
	}
	b, err := hex.DecodeString(s)
	if err != nil {
		panic(err)
	}
	return b
}
func u64s(v uint64) string { return strconv.FormatUint(v, 16) }
func i64s(v int64) string {
	if v < 0 {
		return "-" + strconv.FormatUint(uint64(-v), 16) // -(-2^63) wraps to 2^63 as uint64: correct magnitude
	}
	return strconv.FormatUint(uint64(v), 16)
}
func parseU(s string) uint64 { v, err := strconv.ParseUint(s, 16, 64); must(err); return v }
func parseI(s string) int64 {
	if strings.HasPrefix(s, "-") {
		m := parseU(s[1:])
		return int64(-m)
	}
	return int64(parseU(s))
}
func must(err error) {
	if err != nil {
		panic(err)
	}
}

func errKind(err error) string {
	m := err.Error()
	switch {
	case strings.Contains(m, "insufficient"):
		return "err insuf"
	case strings.Contains(m, "larger than 64"):
		return "err overflow"
	case strings.Contains(m, "invalid"):
		return "err invalid"
	}
	return "err other"
}

func safe(f func() string) (res string) {
	defer func() {
		if r := recover(); r != nil {
			res = "panic"
		}
	}()
	return f()
}

// run one op; returns canonical result
func run(op string, args []string) string {
	return safe(func() string {
		switch op {
		case "eb":
			return hx(codec.EncodeBytes(nil, unhx(args[0])))
		case "db":
			in := unhx(args[0])
			rest, v, err := codec.DecodeBytes(append([]byte{}, in...), nil)
			if err != nil {
				return errKind(err)
			}
			return "ok " + hx(rest) + " " + hx(v)
		case "dbb":
			// DecodeBytes(in, buf) with a dirty scratch buffer of the given length and capacity: buf is scratch only
			in := unhx(args[0])
			bl, _ := strconv.Atoi(args[1])
			bc, _ := strconv.Atoi(args[2])
			buf := make([]byte, bl, bc)
			for i := range buf {
				buf[i] = 0xA5
			}
			rest, v, err := codec.DecodeBytes(append([]byte{}, in...), buf)
			if err != nil {
				return errKind(err)
			}
			return "ok " + hx(rest) + " " + hx(v)
		case "ebp":
			// EncodeBytes(prefix-with-spare-capacity, data) must append: prefix kept, encoding after it
			// the destination is a REUSED buffer: its spare capacity holds stale non-zero bytes, and comes in three sizes
			// (ample, too small for the encoding, none), all of which must give the same answer
			pre := unhx(args[0])
			var first []byte
			for i, spare := range []int{64, 5, 0} {
				b := dirtyDst(pre, spare)
				got := codec.EncodeBytes(b, unhx(args[1]))
				if i == 0 {
					first = got
				} else if !bytes.Equal(first, got) {
					return "spare-capacity-dependent " + hx(first) + " vs " + hx(got)
				}
			}
			return hx(first)
		case "u64":
			return u64s(uint64(parseI(args[0])))
		case "i64":
			return i64s(int64(parseU(args[0])))
		case "icx":
			return u64s(codec.EncodeIntToCmpUint(parseI(args[0])))
		case "cux":
			return i64s(codec.DecodeCmpUintToInt(parseU(args[0])))
		case "icu":
			return u64s(codec.EncodeIntToCmpUint(parseI(args[0])))
		case "cui":
			return i64s(codec.DecodeCmpUintToInt(parseU(args[0])))
		case "eu":
			return hx(codec.EncodeUint(nil, parseU(args[0])))
		case "eud":
			return hx(codec.EncodeUintDesc(nil, parseU(args[0])))
		case "ei":
			return hx(codec.EncodeInt(nil, parseI(args[0])))
		case "eid":
			return hx(codec.EncodeIntDesc(nil, parseI(args[0])))
		case "euv":
			return hx(codec.EncodeUvarint(nil, parseU(args[0])))
		case "ev":
			return hx(codec.EncodeVarint(nil, parseI(args[0])))
		case "ecu":
			return hx(codec.EncodeComparableUvarint(nil, parseU(args[0])))
		case "ecv":
			return hx(codec.EncodeComparableVarint(nil, parseI(args[0])))
		case "du", "dud", "duv", "dcu":
			in := unhx(args[0])
			var rest []byte
			var v uint64
			var err error
			switch op {
			case "du":
				rest, v, err = codec.DecodeUint(in)
			case "dud":
				rest, v, err = codec.DecodeUintDesc(in)
			case "duv":
				rest, v, err = codec.DecodeUvarint(in)
			case "dcu":
				rest, v, err = codec.DecodeComparableUvarint(in)
			}
			if err != nil {
				return errKind(err)
			}
			return "ok " + hx(rest) + " " + u64s(v)
		case "di", "did", "dv", "dcv":
			in := unhx(args[0])
			var rest []byte
			var v int64
			var err error
			switch op {
			case "di":
				rest, v, err = codec.DecodeInt(in)
			case "did":
				rest, v, err = codec.DecodeIntDesc(in)
			case "dv":
				rest, v, err = codec.DecodeVarint(in)
			case "dcv":
				rest, v, err = codec.DecodeComparableVarint(in)
			}
			if err != nil {
				return errKind(err)
			}
			return "ok " + hx(rest) + " " + i64s(v)
		case "me":
			return hx(mocktikv.VerifMvccEncode(unhx(args[0]), parseU(args[1])))
		case "md":
			k, v, err := mocktikv.VerifMvccDecode(append([]byte{}, unhx(args[0])...))
			if err != nil {
				return "err"
			}
			return "ok " + hx(k) + " " + u64s(v)
		case "mke":
			return hx(apicodec.VerifMemEncodeKey(unhx(args[0])))
		case "mkd":
			k, err := apicodec.VerifMemDecodeKey(append([]byte{}, unhx(args[0])...))
			if err != nil {
				return "err"
			}
			return "ok " + hx(k)
		case "cmp":
			c := bytes.Compare(unhx(args[0]), unhx(args[1]))
			return []string{"lt", "eq", "gt"}[c+1]
		}
		return "unknown-op"
	})
}

func emit(op string, args ...string) {
	fmt.Fprintf(out, "%s\t%s\t=>\t%s\n", op, strings.Join(args, "\t"), run(op, args))
}

func prop(name string, ok bool, args ...string) {
	r := "pass"
	if !ok {
		r = "fail"
	}
	fmt.Fprintf(out, "P\t%s\t%s\t%s\n", name, strings.Join(args, "\t"), r)
}

func sign(c int) int {
	if c < 0 {
		return -1
	} else if c > 0 {
		return 1
	}
	return 0
}

// property oracles evaluated directly on the implementation
func propsBytes(a, b, rest []byte) {
	func() {
		defer func() {
			if r := recover(); r != nil {
				prop("bytes_nopanic", false, hx(a), hx(b), hx(rest))
			}
		}()
		ea := codec.EncodeBytes(nil, a)
		eb := codec.EncodeBytes(nil, b)
		in := append(append([]byte{}, ea...), rest...)
		r, v, err := codec.DecodeBytes(in, nil)
		prop("bytes_roundtrip", err == nil && bytes.Equal(r, rest) && bytes.Equal(v, a), hx(a), hx(rest))
		// the second argument of DecodeBytes is scratch space only: a dirty buffer of any length / capacity changes nothing
		for _, bl := range []int{1, len(a), len(a) + 7} {
			buf := bytes.Repeat([]byte{0x5A}, bl+len(in)+9)[:bl]
			r2, v2, err2 := codec.DecodeBytes(append([]byte{}, in...), buf)
			prop("bytes_scratch_buffer", err2 == nil && bytes.Equal(r2, rest) && bytes.Equal(v2, a), hx(a), hx(rest), strconv.Itoa(bl))
		}
		// EncodeBytes appends to its first argument, whatever that buffer's spare capacity holds (a reused buffer holds
		// stale non-zero bytes there): prefix kept, then exactly the encoding of a fresh call, which decodes back to a
		for _, spare := range []int{len(ea) + 16, 5, 0} {
			pre := []byte{0xDE, 0xAD}
			got := codec.EncodeBytes(dirtyDst(pre, spare), a)
			okEnc := bytes.HasPrefix(got, pre) && bytes.Equal(got[len(pre):], ea)
			var okDec bool
			if len(got) >= len(pre) {
				r3, v3, err3 := codec.DecodeBytes(append([]byte{}, got[len(pre):]...), nil)
				okDec = err3 == nil && len(r3) == 0 && bytes.Equal(v3, a)
			}
			prop("append_bytes", okEnc && okDec, hx(a), strconv.Itoa(spare))
		}
		prop("bytes_order", sign(bytes.Compare(ea, eb)) == sign(bytes.Compare(a, b)), hx(a), hx(b))
		prop("bytes_prefix_free", bytes.Equal(a, b) || !bytes.HasPrefix(eb, ea), hx(a), hx(b))
	}()
}

func propsDecodeStrict(in []byte) {
	defer func() {
		if r := recover(); r != nil {
			prop("decode_nopanic", false, hx(in))
		}
	}()
	rest, v, err := codec.DecodeBytes(append([]byte{}, in...), nil)
	if err == nil {
		re := append(codec.EncodeBytes(nil, v), rest...)
		prop("bytes_strict", bytes.Equal(re, in), hx(in))
	}
	// the other decoders must not panic and, when they succeed, the leftover must be a suffix
	chkU := func(name string, f func([]byte) ([]byte, uint64, error)) {
		r, _, err := f(in)
		if err == nil {
			prop(name+"_suffix", len(r) < len(in) && bytes.HasSuffix(in, r), hx(in))
		}
	}
	chkI := func(name string, f func([]byte) ([]byte, int64, error)) {
		r, _, err := f(in)
		if err == nil {
			prop(name+"_suffix", len(r) < len(in) && bytes.HasSuffix(in, r), hx(in))
		}
	}
	chkU("du", codec.DecodeUint)
	chkU("dud", codec.DecodeUintDesc)
	chkU("duv", codec.DecodeUvarint)
	chkU("dcu", codec.DecodeComparableUvarint)
	chkI("di", codec.DecodeInt)
	chkI("did", codec.DecodeIntDesc)
	chkI("dv", codec.DecodeVarint)
	chkI("dcv", codec.DecodeComparableVarint)
}

// dirtyDst returns a slice with contents pre and `spare` bytes of spare capacity filled with stale non-zero bytes, as a
// destination buffer that is being reused (buf = Encode(buf[:0], ...)) looks like.
func dirtyDst(pre []byte, spare int) []byte {
	b := make([]byte, len(pre)+spare)
	for i := range b {
		b[i] = 0xA5 ^ byte(i*7)
		if b[i] == 0 {
			b[i] = 0x5A
		}
	}
	copy(b, pre)
	return b[: len(pre) : len(pre)+spare]
}

func propsInts(a, b int64, rest []byte) {
	defer func() {
		if r := recover(); r != nil {
			prop("int_nopanic", false, i64s(a), i64s(b))
		}
	}()
	// every encoder appends to its first argument: enc(prefix, v) = prefix ++ enc(nil, v), prefix untouched
	pre := dirtyDst([]byte{0xDE, 0xAD, 0xBE}, 37) // reused destination: stale non-zero bytes in the spare capacity
	okApp := func(got, want []byte) bool {
		return bytes.HasPrefix(got, []byte{0xDE, 0xAD, 0xBE}) && bytes.Equal(got[3:], want)
	}
	prop("append_int", okApp(codec.EncodeInt(pre[:3], a), codec.EncodeInt(nil, a)) && okApp(codec.EncodeIntDesc(pre[:3], a), codec.EncodeIntDesc(nil, a)) &&
		okApp(codec.EncodeVarint(pre[:3], a), codec.EncodeVarint(nil, a)) && okApp(codec.EncodeComparableVarint(pre[:3], a), codec.EncodeComparableVarint(nil, a)), i64s(a))
	prop("append_uint", okApp(codec.EncodeUint(pre[:3], uint64(a)), codec.EncodeUint(nil, uint64(a))) && okApp(codec.EncodeUintDesc(pre[:3], uint64(a)), codec.EncodeUintDesc(nil, uint64(a))) &&
		okApp(codec.EncodeUvarint(pre[:3], uint64(a)), codec.EncodeUvarint(nil, uint64(a))) && okApp(codec.EncodeComparableUvarint(pre[:3], uint64(a)), codec.EncodeComparableUvarint(nil, uint64(a))), i64s(a))
	type encI struct {
		name string
		enc  func([]byte, int64) []byte
		dec  func([]byte) ([]byte, int64, error)
		ord  int // 1 ascending, -1 descending, 0 none
	}
	for _, e := range []encI{
		{"int", codec.EncodeInt, codec.DecodeInt, 1},
		{"intdesc", codec.EncodeIntDesc, codec.DecodeIntDesc, -1},
		{"varint", codec.EncodeVarint, codec.DecodeVarint, 0},
		{"cmpvarint", codec.EncodeComparableVarint, codec.DecodeComparableVarint, 1},
	} {
		ea, eb := e.enc(nil, a), e.enc(nil, b)
		r, v, err := e.dec(append(append([]byte{}, ea...), rest...))
		prop(e.name+"_roundtrip", err == nil && v == a && bytes.Equal(r, rest), i64s(a), hx(rest))
		if e.ord != 0 {
			want := 0
			if a < b {
				want = -1
			} else if a > b {
				want = 1
			}
			prop(e.name+"_order", sign(bytes.Compare(ea, eb)) == want*e.ord, i64s(a), i64s(b))
		}
		prop(e.name+"_prefix_free", a == b || !bytes.HasPrefix(eb, ea), i64s(a), i64s(b))
	}
	// the exported sign-flip pair: a bijection int64 <-> uint64 (both directions) that is monotone (both directions),
	// and the fixed-width int encodings are the uint encodings of the flipped value
	ca, cb := codec.EncodeIntToCmpUint(a), codec.EncodeIntToCmpUint(b)
	prop("cmpuint_roundtrip", codec.DecodeCmpUintToInt(ca) == a && codec.EncodeIntToCmpUint(codec.DecodeCmpUintToInt(uint64(a))) == uint64(a), i64s(a))
	prop("cmpuint_order", (a < b) == (ca < cb) && (a == b) == (ca == cb), i64s(a), i64s(b))
	da, db := codec.DecodeCmpUintToInt(uint64(a)), codec.DecodeCmpUintToInt(uint64(b))
	prop("cmpuint_decode_order", (uint64(a) < uint64(b)) == (da < db) && (a == b) == (da == db), i64s(a), i64s(b))
	prop("int_is_uint_of_cmpuint", bytes.Equal(codec.EncodeInt(nil, a), codec.EncodeUint(nil, ca)) && bytes.Equal(codec.EncodeIntDesc(nil, a), codec.EncodeUintDesc(nil, ca)), i64s(a))
	ua, ub := uint64(a), uint64(b)
	type encU struct {
		name string
		enc  func([]byte, uint64) []byte
		dec  func([]byte) ([]byte, uint64, error)
		ord  int
	}
	for _, e := range []encU{
		{"uint", codec.EncodeUint, codec.DecodeUint, 1},
		{"uintdesc", codec.EncodeUintDesc, codec.DecodeUintDesc, -1},
		{"uvarint", codec.EncodeUvarint, codec.DecodeUvarint, 0},
		{"cmpuvarint", codec.EncodeComparableUvarint, codec.DecodeComparableUvarint, 1},
	} {
		ea, eb := e.enc(nil, ua), e.enc(nil, ub)
		r, v, err := e.dec(append(append([]byte{}, ea...), rest...))
		prop(e.name+"_roundtrip", err == nil && v == ua && bytes.Equal(r, rest), u64s(ua), hx(rest))
		if e.ord != 0 {
			want := 0
			if ua < ub {
				want = -1
			} else if ua > ub {
				want = 1
			}
			prop(e.name+"_order", sign(bytes.Compare(ea, eb)) == want*e.ord, u64s(ua), u64s(ub))
		}
		prop(e.name+"_prefix_free", ua == ub || !bytes.HasPrefix(eb, ea), u64s(ua), u64s(ub))
	}
}

// composite keys: mvccEncode(key, ver) sorts by key ascending then version descending, round-trips, and is
// never confused with the meta key or another pair
func propsMvcc(k1 []byte, v1 uint64, k2 []byte, v2 uint64) {
	defer func() {
		if r := recover(); r != nil {
			prop("mvcc_nopanic", false, hx(k1), u64s(v1), hx(k2), u64s(v2))
		}
	}()
	e1, e2 := mocktikv.VerifMvccEncode(k1, v1), mocktikv.VerifMvccEncode(k2, v2)
	k, v, err := mocktikv.VerifMvccDecode(append([]byte{}, e1...))
	prop("mvcc_roundtrip", err == nil && bytes.Equal(k, k1) && v == v1, hx(k1), u64s(v1))
	want := sign(bytes.Compare(k1, k2))
	if want == 0 {
		if v1 > v2 {
			want = -1
		} else if v1 < v2 {
			want = 1
		}
	}
	prop("mvcc_order", sign(bytes.Compare(e1, e2)) == want, hx(k1), u64s(v1), hx(k2), u64s(v2))
	meta := codec.EncodeBytes(nil, k1)
	prop("mvcc_meta_first", bytes.Compare(meta, e1) < 0, hx(k1), u64s(v1))
	mk, mv, err := mocktikv.VerifMvccDecode(append([]byte{}, meta...))
	prop("mvcc_meta_roundtrip", err == nil && bytes.Equal(mk, k1) && mv == 0, hx(k1))
	dk, err := apicodec.VerifMemDecodeKey(apicodec.VerifMemEncodeKey(k1))
	prop("memkey_roundtrip", err == nil && bytes.Equal(dk, k1), hx(k1))
	m1, m2 := apicodec.VerifMemEncodeKey(k1), apicodec.VerifMemEncodeKey(k2)
	prop("memkey_order", sign(bytes.Compare(m1, m2)) == sign(bytes.Compare(k1, k2)), hx(k1), hx(k2))
	// decodeKey drops what follows the first encoded string (here: an encoded second key, as in a composite key)
	dk2, err := apicodec.VerifMemDecodeKey(append(append([]byte{}, m1...), m2...))
	prop("memkey_ignores_suffix", err == nil && bytes.Equal(dk2, k1), hx(k1), hx(k2))
}

// strictness of mvccDecode evaluated on the implementation: whatever it accepts is a meta key or exactly one mvccEncode image
func propMvccStrict(in []byte) {
	defer func() {
		if r := recover(); r != nil {
			prop("mvcc_decode_nopanic", false, hx(in))
		}
	}()
	k, v, err := mocktikv.VerifMvccDecode(append([]byte{}, in...))
	if err != nil {
		return
	}
	meta := codec.EncodeBytes(nil, k)
	prop("mvcc_strict", (v == 0 && bytes.Equal(meta, in)) || bytes.Equal(mocktikv.VerifMvccEncode(k, v), in), hx(in))
	// whatever the memcomparable key codec accepts starts with the encoding of the key it returns
	if mk, err := apicodec.VerifMemDecodeKey(append([]byte{}, in...)); err == nil {
		prop("memkey_decode_prefix", bytes.HasPrefix(in, apicodec.VerifMemEncodeKey(mk)), hx(in))
	}
}

var alphabet = []byte{0x00, 0x01, 0x7F, 0x80, 0xFE, 0xFF}

func enumStrings(maxLen int, f func([]byte)) {
	var rec func(cur []byte)
	rec = func(cur []byte) {
		f(cur)
		if len(cur) == maxLen {
			return
		}
		for _, c := range alphabet {
			rec(append(cur, c))
		}
	}
	rec([]byte{})
}

func boundaryInts() []int64 {
	var vs []int64
	add := func(v int64) {
		for d := int64(-2); d <= 2; d++ {
			vs = append(vs, v+d) // wraps at the extremes, fine
		}
	}
	add(0)
	for s := uint(1); s < 64; s++ {
		add(int64(1) << s)
		add(-(int64(1) << s))
	}
	for s := uint(7); s < 64; s += 7 {
		add(int64(1)<<s - 1)
	}
	add(239)
	add(240)
	add(-255)
	add(-256)
	add(-65535)
	add(-65536)
	vs = append(vs, -1<<63, 1<<63-1)
	return vs
}

func main() {
	out = bufio.NewWriterSize(os.Stdout, 1<<20)
	defer out.Flush()
	if len(os.Args) >= 2 && os.Args[1] == "replay" {
		// replay: op args...
		emit(os.Args[2], os.Args[3:]...)
		return
	}
	seed, _ := strconv.ParseInt(os.Getenv("VERIF_SEED"), 10, 64)
	tier := os.Getenv("VERIF_TIER")
	rng := rand.New(rand.NewSource(seed))
	maxLen, nRandom := 5, 4000
	if tier == "thorough" {
		maxLen, nRandom = 7, 60000
	}
	rb := func(n int) []byte {
		b := make([]byte, n)
		for i := range b {
			if rng.Intn(3) == 0 {
				b[i] = alphabet[rng.Intn(len(alphabet))]
			} else {
				b[i] = byte(rng.Intn(256))
			}
		}
		return b
	}
	// 1. exhaustive boundary-alphabet strings: encode, decode-as-malformed, compare
	var prev []byte
	enumStrings(maxLen, func(s []byte) {
		d := append([]byte{}, s...)
		emit("eb", hx(d))
		emit("db", hx(d)) // malformed stream (too short)
		propsBytes(d, prev, []byte{0xAA})
		emit("cmp", hx(d), hx(prev))
		if len(d) <= 3 {
			for _, v := range []uint64{0, 1, 1<<64 - 1} {
				emit("me", hx(d), u64s(v))
				propsMvcc(d, v, prev, 1<<64-1-v)
			}
			emit("md", hx(d))
			emit("mkd", hx(d))
		}
		prev = d
	})
	// 2. lengths around multiples of 8, random content; decoders fed encodings with mutated bytes
	for i := 0; i < nRandom; i++ {
		base := []int{0, 7, 8, 9, 15, 16, 17, 23, 24, 25, 31, 32, 33}[rng.Intn(13)]
		a := rb(base)
		b := append([]byte{}, a...)
		switch rng.Intn(4) {
		case 0:
			b = append(b, rb(1+rng.Intn(3))...)
		case 1:
			if len(b) > 0 {
				b = b[:rng.Intn(len(b))]
			}
		case 2:
			if len(b) > 0 {
				b[rng.Intn(len(b))] ^= byte(1 << uint(rng.Intn(8)))
			}
		}
		rest := rb(rng.Intn(3))
		emit("eb", hx(a))
		propsBytes(a, b, rest)
		enc := codec.EncodeBytes(nil, a)
		emit("db", hx(append(append([]byte{}, enc...), rest...)))
		// malformed: flip / truncate / bad marker / bad padding
		m := append([]byte{}, enc...)
		switch rng.Intn(4) {
		case 0:
			m[rng.Intn(len(m))] ^= byte(1 << uint(rng.Intn(8)))
		case 1:
			m = m[:rng.Intn(len(m))]
		case 2:
			m[len(m)-1] = byte(rng.Intn(256))
		case 3:
			m[len(m)-2] = byte(1 + rng.Intn(255))
		}
		emit("db", hx(m))
		propsDecodeStrict(m)
		// scratch buffer / append semantics: dirty buffers shorter, as long as and longer than the value, with spare capacity
		full := append(append([]byte{}, enc...), rest...)
		for _, bl := range []int{0, 1, len(a), len(a) + 5} {
			for _, extra := range []int{0, 3, len(full) + 8} {
				emit("dbb", hx(full), strconv.Itoa(bl), strconv.Itoa(bl+extra))
			}
		}
		emit("dbb", hx(m), strconv.Itoa(len(m)), strconv.Itoa(2*len(m)+1))
		emit("ebp", hx(rb(1+rng.Intn(4))), hx(a))
		// composite keys
		vers := []uint64{0, 1, 2, 1<<63 - 1, 1 << 63, 1<<64 - 2, 1<<64 - 1, rng.Uint64(), rng.Uint64() >> uint(rng.Intn(64))}
		va, vb := vers[rng.Intn(len(vers))], vers[rng.Intn(len(vers))]
		emit("me", hx(a), u64s(va))
		emit("mke", hx(a))
		me := mocktikv.VerifMvccEncode(a, va)
		emit("md", hx(me))
		emit("md", hx(enc)) // meta key
		emit("md", hx(m))   // malformed
		emit("mkd", hx(m))
		mm := append([]byte{}, me...)
		switch rng.Intn(4) {
		case 0:
			mm = append(mm, rb(1+rng.Intn(2))...) // trailing bytes after the version
		case 1:
			mm = mm[:len(mm)-1-rng.Intn(7)] // truncated version
		case 2:
			mm[rng.Intn(len(mm))] ^= byte(1 << uint(rng.Intn(8)))
		}
		emit("md", hx(mm))
		emit("mkd", hx(mm))
		propMvccStrict(mm)
		propMvccStrict(m)
		propMvccStrict(me)
		propsMvcc(a, va, b, vb)
		propsMvcc(a, va, a, vb)
		for _, op := range []string{"du", "dud", "di", "did", "duv", "dv", "dcu", "dcv"} {
			emit(op, hx(m))
		}
	}
	// 3. all decoders on short boundary strings (malformed stream)
	enumStrings(3, func(s []byte) {
		for _, op := range []string{"du", "di", "duv", "dv", "dcu", "dcv"} {
			emit(op, hx(s))
		}
		propsDecodeStrict(append([]byte{}, s...))
	})
	// comparable-varint tags with every length of payload
	for tag := 0; tag < 256; tag++ {
		for n := 0; n <= 9; n++ {
			p := append([]byte{byte(tag)}, rb(n)...)
			emit("dcu", hx(p))
			emit("dcv", hx(p))
			propsDecodeStrict(p)
		}
	}
	// uvarint overflow region
	for n := 8; n <= 11; n++ {
		for _, last := range []byte{0, 1, 2, 0x7f, 0x80, 0xff} {
			p := bytes.Repeat([]byte{0xff}, n)
			p = append(p, last)
			emit("duv", hx(p))
			emit("dv", hx(p))
		}
	}
	// 4. integers around boundaries, and random
	ints := boundaryInts()
	for i := 0; i < nRandom; i++ {
		ints = append(ints, int64(rng.Uint64()), int64(rng.Uint64()>>uint(rng.Intn(64))), -int64(rng.Uint64()>>uint(1+rng.Intn(63))))
	}
	for i, a := range ints {
		b := ints[(i+1)%len(ints)]
		if i%3 == 0 {
			b = a + int64(rng.Intn(5)) - 2
		}
		rest := rb(rng.Intn(3))
		emit("icu", i64s(a))
		emit("cui", u64s(uint64(a)))
		emit("icx", i64s(a)) // the xor form of the model against the same function
		emit("cux", u64s(uint64(a)))
		emit("u64", i64s(a)) // Go's int64 -> uint64 conversion against the model's reinterpretation
		emit("i64", u64s(uint64(a)))
		emit("ei", i64s(a))
		emit("eid", i64s(a))
		emit("ev", i64s(a))
		emit("ecv", i64s(a))
		emit("eu", u64s(uint64(a)))
		emit("eud", u64s(uint64(a)))
		emit("euv", u64s(uint64(a)))
		emit("ecu", u64s(uint64(a)))
		for _, p := range []struct {
			op  string
			enc []byte
		}{
			{"di", codec.EncodeInt(nil, a)}, {"did", codec.EncodeIntDesc(nil, a)},
			{"dv", codec.EncodeVarint(nil, a)}, {"dcv", codec.EncodeComparableVarint(nil, a)},
			{"du", codec.EncodeUint(nil, uint64(a))}, {"dud", codec.EncodeUintDesc(nil, uint64(a))},
			{"duv", codec.EncodeUvarint(nil, uint64(a))}, {"dcu", codec.EncodeComparableUvarint(nil, uint64(a))},
		} {
			emit(p.op, hx(append(append([]byte{}, p.enc...), rest...)))
		}
		propsInts(a, b, rest)
	}
}
