//go:build verif

// Script mode of the C17 driver: Lock / UnLock / Close through the REAL LatchesScheduler (run() goroutine,
// channel, WaitGroup), one client action at a time; after every action the driver waits until the process is
// quiescent — decided exactly from runtime.Stack: run() is parked in its channel receive (or gone after Close),
// every Lock() caller is parked in WaitGroup.Wait, no recycle goroutine is alive — and prints a dump that the
// extracted model must reproduce (model: the client step, then scheduler steps until none is enabled).
// Lines:  G action => result | dump      actions: L<i> Lock, U<i> SetCommitTS+UnLock, X Close,
//
//	M = hold every slot mutex, UnLock ALL returned locks from goroutines (channel capacity 100), release.
package main

import (
	"fmt"
	"math/rand"
	"runtime"
	"sort"
	"strconv"
	"strings"
	"sync/atomic"
	"time"

	"github.com/tikv/client-go/v2/internal/latch"
)

type scr struct {
	cfg    *config
	sched  *latch.LatchesScheduler
	lat    *latch.Latches
	kb     [][]byte
	locks  []*latch.Lock
	ret    []atomic.Bool
	status []byte // N not started, B inside Lock, U UnLock called
	byTS   map[uint64]int
	closed bool
}

func lockWorker(sc *scr, i int, keys [][]byte) {
	l := sc.sched.Lock(sc.cfg.txns[i].start, keys)
	sc.locks[i] = l
	sc.ret[i].Store(true)
}

func unlockWorker(sc *scr, i int, done *atomic.Int64) {
	sc.sched.UnLock(sc.locks[i])
	done.Add(1)
}

// createdBy returns the "created by ..." line of a goroutine's stack
func createdBy(body string) string {
	i := strings.LastIndex(body, "created by ")
	if i < 0 {
		return ""
	}
	j := strings.IndexByte(body[i:], '\n')
	if j < 0 {
		return body[i:]
	}
	return body[i : i+j]
}

type gstate struct {
	runParked, runAlive  bool
	lockParked, lockBusy int
	senders, unlockers   int
	recyclers            int
}

var stackBuf = make([]byte, 8<<20)

func goroutines() gstate {
	buf := stackBuf
	n := runtime.Stack(buf, true)
	var g gstate
	for _, blk := range strings.Split(string(buf[:n]), "\n\n") {
		nl := strings.IndexByte(blk, '\n')
		if nl < 0 {
			continue
		}
		head, body := blk[:nl], blk[nl:]
		switch {
		case strings.Contains(createdBy(body), "LatchesScheduler).run"):
			// spawned by run(): `go latches.recycle(ts)`, possibly not started yet (only the gowrap frame is visible)
			g.recyclers++
		case strings.Contains(createdBy(body), "latch.NewScheduler"):
			g.runAlive = true
			if strings.Contains(head, "[chan receive") {
				g.runParked = true
			}
		case strings.Contains(body, "created by main.runScript"):
			// a worker of this driver (possibly not started yet: only the gowrap frame is visible then)
			switch {
			case strings.Contains(body, "main.unlockWorker"):
				g.unlockers++
				if strings.Contains(head, "[chan send") {
					g.senders++
				}
			case strings.Contains(body, "WaitGroup).Wait") && (strings.Contains(head, "[semacquire") || strings.Contains(head, "[sync.WaitGroup.Wait")):
				g.lockParked++
			default:
				g.lockBusy++
			}
		}
	}
	return g
}

// quiescent: nothing can move without a new client action
func (sc *scr) quiesce() string {
	deadline := time.Now().Add(60 * time.Second)
	for {
		g := goroutines()
		if (g.runParked || !g.runAlive) && g.lockBusy == 0 && g.unlockers == 0 && g.recyclers == 0 && (sc.sched.VPending() == 0 || !g.runAlive) {
			// run() parked with an empty channel; double check that it did not get work meanwhile
			g2 := goroutines()
			if g2 == g && (sc.sched.VPending() == 0 || !g.runAlive) {
				return ""
			}
		}
		if time.Now().After(deadline) {
			return fmt.Sprintf("not quiescent after 60 s: %+v pending=%d", g, sc.sched.VPending())
		}
		runtime.Gosched()
		time.Sleep(100 * time.Microsecond)
	}
}

func (sc *scr) id(l *latch.Lock) string {
	if l == nil {
		return "nil"
	}
	if i, ok := sc.byTS[l.VStartTS()]; ok {
		return strconv.Itoa(i)
	}
	return "?"
}

func (sc *scr) dump(snap []latch.VSlot) string {
	var sb strings.Builder
	for i, sl := range snap {
		fmt.Fprintf(&sb, "s%d#%d[", i, sl.Count)
		for j, n := range sl.Nodes {
			if j > 0 {
				sb.WriteByte(' ')
			}
			h := "-"
			if n.Holder != nil {
				h = sc.id(n.Holder)
			}
			fmt.Fprintf(&sb, "%d:%d:%s", keyID(n.Key), n.Max, h)
		}
		sb.WriteString("]w[")
		for j, w := range sl.Waiting {
			if j > 0 {
				sb.WriteByte(' ')
			}
			if w == nil {
				sb.WriteString("nil")
			} else {
				fmt.Fprintf(&sb, "%s@%d", sc.id(w), w.VAcquired())
			}
		}
		sb.WriteString("] ")
	}
	sb.WriteString("T ")
	for i := range sc.status {
		c := sc.status[i]
		if c == 'B' && sc.ret[i].Load() {
			if sc.locks[i].IsStale() {
				c = 'S'
			} else {
				c = 'K'
			}
		}
		sb.WriteByte(c)
	}
	fmt.Fprintf(&sb, " R %d", sc.sched.VLastRecycleTime())
	return sb.String()
}

func (sc *scr) keysOf(i int) [][]byte {
	var ks [][]byte
	for _, k := range sc.cfg.txns[i].keys {
		ks = append(ks, sc.kb[k])
	}
	return ks
}

func runScript(id string, c *config, fixed []string, next func(sc *scr, step int) string) {
	var actions []string
	sc := &scr{cfg: c, byTS: map[uint64]int{}}
	sc.sched = latch.NewScheduler(uint(c.size))
	sc.lat = sc.sched.VLatches()
	for k := range c.pat {
		sc.kb = append(sc.kb, keyBytes(sc.lat, c.size, k, c.pat[k]))
	}
	n := len(c.txns)
	sc.locks = make([]*latch.Lock, n)
	sc.ret = make([]atomic.Bool, n)
	sc.status = []byte(strings.Repeat("N", n))
	fmt.Fprintf(out, "CASE\t%s\t%s\n", id, c.spec())
	fmt.Fprintf(out, "NS\t%d\n", sc.lat.VNumSlots())
	for k := range sc.kb {
		fmt.Fprintf(out, "SF\t%d\t%d\t%x\n", k, sc.lat.VSlotID(sc.kb[k]), sc.kb[k])
	}
	for i, t := range c.txns {
		sc.byTS[t.start] = i
		fmt.Fprintf(out, "TS\t%d\t%d\t%d\t%s\n", i, t.start, t.commit, ints(t.keys))
	}
	nfail := 0
	for step := 0; ; step++ {
		var a string
		if next != nil {
			a = next(sc, step)
		} else if step < len(fixed) {
			a = fixed[step]
		}
		if a == "" {
			break
		}
		actions = append(actions, a)
		res := "-"
		func() {
			defer func() {
				if r := recover(); r != nil {
					res = fmt.Sprintf("panic:%v", r)
				}
			}()
			switch a[0] {
			case 'L':
				i, _ := strconv.Atoi(a[1:])
				sc.status[i] = 'B'
				go lockWorker(sc, i, sc.keysOf(i))
			case 'U':
				i, _ := strconv.Atoi(a[1:])
				cm := c.txns[i].commit
				if sc.locks[i].IsStale() {
					cm = 0
				}
				sc.locks[i].SetCommitTS(cm)
				sc.status[i] = 'U'
				sc.sched.UnLock(sc.locks[i])
			case 'X':
				sc.sched.Close()
				sc.closed = true
			case 'M':
				var todo []int
				for i := range sc.status {
					if sc.status[i] == 'B' && sc.ret[i].Load() {
						todo = append(todo, i)
					}
				}
				release := sc.lat.VHoldSlots()
				var done atomic.Int64
				for _, i := range todo {
					sc.locks[i].SetCommitTS(c.txns[i].commit)
					sc.status[i] = 'U'
					go unlockWorker(sc, i, &done)
				}
				// run() took one lock and is stuck at a slot mutex; 100 more fit into the channel; the rest block in send
				want := len(todo) - 101
				if want < 0 {
					want = 0
				}
				deadline := time.Now().Add(60 * time.Second)
				for {
					g := goroutines()
					if int(done.Load()) == len(todo)-want && g.senders == want && g.unlockers == want && g.lockBusy == 0 {
						break
					}
					if time.Now().After(deadline) {
						break
					}
					time.Sleep(50 * time.Microsecond)
				}
				g := goroutines()
				res = fmt.Sprintf("pending=%d blocked=%d", sc.sched.VPending(), g.senders)
				release()
			case 'Q':
				// mixed queue at shutdown: run() is stuck at a slot mutex with one lock in hand, the locks with an even
				// index are in the channel, then Close(); run() must still drain the channel; later UnLocks are dropped
				var todo []int
				for i := range sc.status {
					if sc.status[i] == 'B' && sc.ret[i].Load() && i%2 == 0 && len(todo) < 100 {
						todo = append(todo, i)
					}
				}
				release := sc.lat.VHoldSlots()
				var done atomic.Int64
				for _, i := range todo {
					sc.locks[i].SetCommitTS(c.txns[i].commit)
					sc.status[i] = 'U'
					go unlockWorker(sc, i, &done)
				}
				deadline := time.Now().Add(60 * time.Second)
				for int(done.Load()) != len(todo) && time.Now().Before(deadline) {
					time.Sleep(50 * time.Microsecond)
				}
				// every sender is done (none blocked: they all fit), so Close() does not wait for a reader lock
				pend := sc.sched.VPending()
				sc.sched.Close()
				sc.closed = true
				res = fmt.Sprintf("pending=%d closed", pend)
				release()
			}
		}()
		if q := sc.quiesce(); q != "" {
			fmt.Fprintf(out, "P\tno_deadlock\t%s\t%s\t%s\t%s\n", id, c.spec(), strings.Join(actions, " "), "real scheduler: "+q)
			nfail++
			break
		}
		if a[0] == 'Q' || a[0] == 'M' {
			// oracle on the implementation: every lock whose UnLock was accepted (before Close) has been released
			for i := range sc.status {
				if sc.status[i] == 'U' && sc.locks[i] != nil && sc.locks[i].VAcquired() != 0 && !(sc.closed && a[0] != 'Q') {
					fmt.Fprintf(out, "P\tno_deadlock\t%s\t%s\t%s\t%s\n", id, c.spec(), strings.Join(actions, " "),
						fmt.Sprintf("lock %d was sent to the scheduler before Close() but is still not released at quiescence", i))
					nfail++
					break
				}
			}
			totals.npass["sent_before_close_released"]++
		}
		if a[0] == 'L' {
			i, _ := strconv.Atoi(a[1:])
			if sc.ret[i].Load() {
				res = "ret"
			} else {
				res = "blk"
			}
		}
		fmt.Fprintf(out, "G\t%s\t=>\t%s\t|\t%s\n", a, res, sc.dump(sc.lat.VSnapshot()))
		totals.edges++
		if strings.HasPrefix(res, "panic") {
			break
		}
	}
	if !sc.closed {
		sc.sched.Close()
	}
	fmt.Fprintf(out, "END\t%s\tscript=%d\n", id, len(actions))
	totals.cases++
	totals.nfail += nfail
}

// random client: Lock a transaction not started yet, UnLock one whose Lock() returned, Close() once at closeAt
func randomClient(rng *rand.Rand, n int, closeAt int) func(sc *scr, step int) string {
	return func(sc *scr, step int) string {
		if step >= 5*n {
			return ""
		}
		if step == closeAt {
			return "X"
		}
		var cand []string
		for i := 0; i < n; i++ {
			switch {
			case sc.status[i] == 'N':
				cand = append(cand, "L"+strconv.Itoa(i))
			case sc.status[i] == 'B' && sc.ret[i].Load():
				cand = append(cand, "U"+strconv.Itoa(i))
			}
		}
		if len(cand) == 0 {
			return ""
		}
		return cand[rng.Intn(len(cand))]
	}
}

func schedMain(seed int64, thorough bool) {
	rng := rand.New(rand.NewSource(seed*104729 + 5))
	nscripts := 60
	if thorough {
		nscripts = 1500
	}
	sub4 := subsets(4, 3)
	for j := 0; j < nscripts; j++ {
		nt := 3 + rng.Intn(4)
		phys := j%3 == 0
		var tx []txn
		perm := rng.Perm(nt)
		for t := 0; t < nt; t++ {
			var s, cm uint64
			if phys {
				s = uint64(1+rng.Intn(4))*unit + uint64(perm[t])
				if rng.Intn(4) != 0 {
					cm = s + uint64(rng.Intn(3))*unit + 10
				}
			} else {
				s = uint64(1 + 2*perm[t] + rng.Intn(2))
				if rng.Intn(4) != 0 {
					cm = s + 1 + uint64(rng.Intn(4))
				}
			}
			ks := shuffled(rng, sub4[rng.Intn(len(sub4))])
			if rng.Intn(8) == 0 {
				ks = nil // Lock with no keys: returns at once, its UnLock still goes through run()
			}
			tx = append(tx, txn{ks, s, cm})
		}
		c := &config{size: []int{1, 2, 4}[rng.Intn(3)], pat: []int{0, 1, 1, 0}, txns: tx}
		closeAt := -1
		if j%4 == 1 {
			closeAt = 2 + rng.Intn(2*nt)
		}
		runScript(fmt.Sprintf("sc-%d", j), c, nil, randomClient(rng, nt, closeAt))
	}
	// channel capacity: 130 locks on distinct keys, all unlocked while run() is stuck: 1 in run(), 100 buffered, 29 blocked senders
	for _, nt := range []int{130, 101, 60} {
		var tx []txn
		var pat []int
		var acts []string
		for t := 0; t < nt; t++ {
			tx = append(tx, txn{[]int{t}, uint64(10 + t), uint64(500 + t)})
			pat = append(pat, t%2)
			acts = append(acts, "L"+strconv.Itoa(t))
		}
		acts = append(acts, "M")
		c := &config{size: 2, pat: pat, txns: tx}
		runScript(fmt.Sprintf("cap-%d", nt), c, acts, nil)
	}
	// Close() with a non-empty channel: 60 locks, the even ones queued behind a stuck run(), Close, drain; two odd ones
	// unlocked afterwards (dropped: their latches stay held)
	{
		var tx []txn
		var pat []int
		var acts []string
		for t := 0; t < 60; t++ {
			tx = append(tx, txn{[]int{t}, uint64(10 + t), uint64(500 + t)})
			pat = append(pat, t%2)
			acts = append(acts, "L"+strconv.Itoa(t))
		}
		acts = append(acts, "Q", "U1", "U3")
		runScript("capx-60", &config{size: 2, pat: pat, txns: tx}, acts, nil)
	}
	summary()
}

var _ = sort.Ints
