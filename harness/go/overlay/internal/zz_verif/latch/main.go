//go:build verif

// Driver for property C17 (local latch scheduler). In-package access through
// internal/latch/zz_verif_export.go (overlay). Three parts:
//  1. DFS over ALL interleavings of the atomic latch methods (acquireSlot / releaseSlot / recycle,
//     plus the composite acquire / release / wakeup as macro edges) for small configurations,
//     with state hashing; every edge is printed with the implementation's result and a dump of
//     every slot / lock so that the extracted Coq model can be run on the same edge (modelrun).
//  2. seeded random walks on bigger configurations (same line protocol, no backtracking).
//  3. seeded concurrent stress through the real LatchesScheduler with an exclusivity /
//     staleness / termination monitor.
//
// Property oracles (exclusive, stale sound/complete, no lost wake-up, no deadlock) are evaluated
// here on the implementation state after every edge, independently of the model.
//
// Lines (tab separated):
//
//	CASE id spec | SF key slot | T i start commit keys => sortedkeys slots
//	N op => res | dump      (edge; the model must accept op and produce the same res/dump)
//	E ops...                (enabled edges at the node just entered, as the driver computed them)
//	B                       (backtrack one level) | END
//	P oracle caseid spec path detail   (oracle FAILED on the implementation)
//	PS oracle count         (oracle evaluations that passed)
//	STRESS name detail ok|fail
package main

import (
	"bufio"
	"fmt"
	"hash/fnv"
	"math/rand"
	"os"
	"sort"
	"strconv"
	"strings"
	"sync"
	"sync/atomic"
	"time"

	"github.com/tikv/client-go/v2/internal/latch"
)

var out *bufio.Writer
var wgFailed bool

type txn struct {
	keys          []int
	start, commit uint64
}
type config struct {
	size      int
	pat       []int // desired slot per key id (only meaningful modulo real slot count)
	txns      []txn
	recTS     []uint64 // timestamps offered to the external recycle step (empty: no such step)
	recMax    int
	noMacro   bool
	withClose bool // the client may call Close() (LClose edge); UnLock afterwards drops the lock
}

func (c *config) spec() string {
	var ts []string
	for _, t := range c.txns {
		var ks []string
		for _, k := range t.keys {
			ks = append(ks, strconv.Itoa(k))
		}
		ts = append(ts, fmt.Sprintf("%s:%d:%d", strings.Join(ks, "."), t.start, t.commit))
	}
	var ps, rs []string
	for _, p := range c.pat {
		ps = append(ps, strconv.Itoa(p))
	}
	for _, r := range c.recTS {
		rs = append(rs, strconv.FormatUint(r, 10))
	}
	nm := 0
	if c.noMacro {
		nm = 1
	}
	cl := 0
	if c.withClose {
		cl = 1
	}
	return fmt.Sprintf("size=%d;pat=%s;txns=%s;rec=%s;recmax=%d;nomacro=%d;close=%d", c.size, strings.Join(ps, ","), strings.Join(ts, "/"), strings.Join(rs, ","), c.recMax, nm, cl)
}

func parseSpec(s string) *config {
	c := &config{}
	for _, f := range strings.Split(s, ";") {
		kv := strings.SplitN(f, "=", 2)
		if len(kv) != 2 {
			continue
		}
		switch kv[0] {
		case "size":
			c.size, _ = strconv.Atoi(kv[1])
		case "pat":
			for _, p := range strings.Split(kv[1], ",") {
				if p != "" {
					v, _ := strconv.Atoi(p)
					c.pat = append(c.pat, v)
				}
			}
		case "txns":
			for _, t := range strings.Split(kv[1], "/") {
				p := strings.Split(t, ":")
				var x txn
				for _, k := range strings.Split(p[0], ".") {
					if k != "" {
						v, _ := strconv.Atoi(k)
						x.keys = append(x.keys, v)
					}
				}
				x.start, _ = strconv.ParseUint(p[1], 10, 64)
				x.commit, _ = strconv.ParseUint(p[2], 10, 64)
				c.txns = append(c.txns, x)
			}
		case "rec":
			for _, p := range strings.Split(kv[1], ",") {
				if p != "" {
					v, _ := strconv.ParseUint(p, 10, 64)
					c.recTS = append(c.recTS, v)
				}
			}
		case "recmax":
			c.recMax, _ = strconv.Atoi(kv[1])
		case "nomacro":
			c.noMacro = kv[1] == "1"
		case "close":
			c.withClose = kv[1] == "1"
		}
	}
	return c
}

// ---- key naming: key id n -> bytes {'a'+n, salt}: byte order = id order; salt chosen so that the
// real slotID (murmur3 & mask) equals the wanted pattern.
var keyCache = map[string][]byte{}

func keyBytes(l *latch.Latches, size int, id int, want int) []byte {
	ck := fmt.Sprintf("%d/%d/%d", size, id, want)
	if b, ok := keyCache[ck]; ok {
		return b
	}
	n := l.VNumSlots()
	for s := 0; s < 256; s++ {
		b := []byte{byte('a' + id), byte(s)}
		if l.VSlotID(b) == want%n {
			keyCache[ck] = b
			return b
		}
	}
	panic("no salt")
}

type relEv struct {
	key, lock int
	commit    uint64
}

const (
	skIdle = iota
	skRel
	skWake
	skRun
	skTrig
)

type sim struct {
	cfg     *config
	lat     *latch.Latches
	kb      [][]byte // key id -> bytes
	locks   []*latch.Lock
	lkeys   [][]int // sorted key ids per lock (as genLock sorted them)
	idx     map[*latch.Lock]int
	pcs     []byte
	ch      []int
	sk, si  int
	wl      []int
	recUsed int
	closed  bool
	// oracle bookkeeping
	relLog   []relEv
	liveMax  map[int]uint64
	fails    []string
	npass    map[string]int
	hadNodes map[int]uint64
}

func keyID(b []byte) int {
	if len(b) > 2 {
		return (len(b) - 2) / 2 // chained naming: every key extends the previous one by two bytes
	}
	return int(b[0] - 'a')
}

// chained naming: key id n is key id n-1 followed by two salt bytes, so that every key is a strict prefix of the
// next ones (byte order = id order still holds, the real slotID still equals the wanted pattern). The latch code
// must treat keys as whole byte strings; which naming a case uses is derived from its spec and invisible to the model.
func keyBytesChain(l *latch.Latches, prev []byte, id int, want int) []byte {
	n := l.VNumSlots()
	if id == 0 {
		for s := 0; s < 256; s++ {
			b := []byte{'a', byte(s)}
			if l.VSlotID(b) == want%n {
				return b
			}
		}
		panic("no salt")
	}
	for s := 0; s < 65536; s++ {
		b := append(append([]byte{}, prev...), byte(s>>8), byte(s))
		if l.VSlotID(b) == want%n {
			return b
		}
	}
	panic("no salt")
}

func chained(c *config) bool {
	h := fnv.New32a()
	h.Write([]byte(c.spec()))
	return h.Sum32()%2 == 0
}

func newSim(c *config, npass map[string]int) *sim {
	s := &sim{cfg: c, idx: map[*latch.Lock]int{}, liveMax: map[int]uint64{}, npass: npass, hadNodes: map[int]uint64{}}
	s.lat = latch.VNewLatches(uint(c.size))
	chain := chained(c)
	for id := range c.pat {
		if chain {
			var prev []byte
			if id > 0 {
				prev = s.kb[id-1]
			}
			s.kb = append(s.kb, keyBytesChain(s.lat, prev, id, c.pat[id]))
		} else {
			s.kb = append(s.kb, keyBytes(s.lat, c.size, id, c.pat[id]))
		}
	}
	for i, t := range c.txns {
		var ks [][]byte
		for _, k := range t.keys {
			ks = append(ks, s.kb[k])
		}
		l := s.lat.VGenLock(t.start, ks)
		l.VWgAdd()
		s.locks = append(s.locks, l)
		s.idx[l] = i
		var ids []int
		for _, b := range l.VKeys() {
			ids = append(ids, keyID(b))
		}
		s.lkeys = append(s.lkeys, ids)
		if len(ids) == 0 {
			s.pcs = append(s.pcs, 'D')
		} else {
			s.pcs = append(s.pcs, 'A')
		}
	}
	return s
}

func (s *sim) header(id string) {
	fmt.Fprintf(out, "CASE\t%s\t%s\n", id, s.cfg.spec())
	fmt.Fprintf(out, "NS\t%d\n", s.lat.VNumSlots())
	for k := range s.kb {
		fmt.Fprintf(out, "SF\t%d\t%d\t%x\n", k, s.lat.VSlotID(s.kb[k]), s.kb[k])
	}
	for i, t := range s.cfg.txns {
		fmt.Fprintf(out, "T\t%d\t%d\t%d\t%s\t=>\t%s\t%s\n", i, t.start, t.commit, ints(t.keys), ints(s.lkeys[i]), ints(s.locks[i].VSlots()))
	}
}

func ints(a []int) string {
	if len(a) == 0 {
		return "-"
	}
	var r []string
	for _, v := range a {
		r = append(r, strconv.Itoa(v))
	}
	return strings.Join(r, ",")
}

func (s *sim) nextSch() {
	if len(s.wl) == 0 {
		s.sk = skTrig // the recycle-trigger block of run() ends the iteration
	} else {
		s.sk = skWake
	}
}

func (s *sim) complete(i int) bool { return s.locks[i].VAcquired() >= len(s.lkeys[i]) }

var resName = map[int]string{0: "S", 1: "L", 2: "X"}

func (s *sim) unlockCommit(i int) uint64 {
	if s.locks[i].IsStale() {
		return 0
	}
	return s.cfg.txns[i].commit
}

// enabled edges, in a fixed order
func (s *sim) enabled() []string {
	var en []string
	for i, p := range s.pcs {
		switch p {
		case 'A':
			en = append(en, fmt.Sprintf("a%d", i))
			if !s.cfg.noMacro {
				en = append(en, fmt.Sprintf("A%d", i))
			}
		case 'D':
			en = append(en, fmt.Sprintf("u%d", i))
		}
	}
	switch s.sk {
	case skIdle:
		if len(s.ch) > 0 {
			en = append(en, "p")
		}
	case skRel:
		en = append(en, "r")
		if !s.cfg.noMacro {
			en = append(en, "R")
		}
	case skWake:
		en = append(en, "w")
		if !s.cfg.noMacro {
			en = append(en, "V", "W")
		}
	case skRun:
		en = append(en, "w")
		if !s.cfg.noMacro {
			en = append(en, "V")
		}
	case skTrig:
		en = append(en, "t")
	}
	if s.cfg.withClose && !s.closed {
		en = append(en, "x")
	}
	if s.recUsed < s.cfg.recMax {
		for sl := 0; sl < s.lat.VNumSlots(); sl++ {
			for _, t := range s.cfg.recTS {
				en = append(en, fmt.Sprintf("c%d:%d", sl, t))
			}
		}
	}
	return en
}

// ---- oracle bookkeeping around the real calls
type lsnap struct {
	acq   int
	stale bool
}

func (s *sim) snapLocks() []lsnap {
	r := make([]lsnap, len(s.locks))
	for i, l := range s.locks {
		r[i] = lsnap{l.VAcquired(), l.IsStale()}
	}
	return r
}

func (s *sim) fail(oracle, detail string) { s.fails = append(s.fails, oracle+"\t"+detail) }

// after an acquiring call by lock i (own thread or scheduler): check staleness oracles
func (s *sim) afterAcquire(i int, before []lsnap) {
	l := s.locks[i]
	st := s.cfg.txns[i].start
	for a := before[i].acq; a < l.VAcquired(); a++ {
		k := s.lkeys[i][a]
		// acquired without being stale: every earlier (not recycled) release of k has commit <= start
		if m := s.liveMax[k]; m > st {
			s.fail("stale_complete", fmt.Sprintf("lock %d (start %d) acquired key %d released earlier with commit %d", i, st, k, m))
		} else {
			s.npass["stale_complete"]++
		}
	}
	if l.IsStale() && !before[i].stale {
		s.checkStaleSound(i)
	}
}

func (s *sim) checkStaleSound(i int) {
	st := s.cfg.txns[i].start
	for _, e := range s.relLog {
		if e.lock != i && e.commit > st {
			for _, k := range s.lkeys[i] {
				if k == e.key {
					s.npass["stale_sound"]++
					return
				}
			}
		}
	}
	s.fail("stale_sound", fmt.Sprintf("lock %d (start %d) became stale but no other lock released one of its keys with a larger commit ts", i, st))
}

func (s *sim) logRelease(i int, a int) {
	k := s.lkeys[i][a]
	c := s.locks[i].VCommitTS()
	s.relLog = append(s.relLog, relEv{k, i, c})
	if c > s.liveMax[k] {
		s.liveMax[k] = c
	}
}

func (s *sim) afterRelease(before []lsnap) {
	for j, l := range s.locks {
		if l.IsStale() && !before[j].stale {
			s.checkStaleSound(j)
		}
	}
}

// a node that vanished, or whose maxCommitTS decreased (recycled and created again), lost its
// release history: the recycle window of C17_stale_complete
func (s *sim) trackNodes() {
	now := map[int]uint64{}
	for _, sl := range s.lat.VSnapshot() {
		for _, n := range sl.Nodes {
			now[keyID(n.Key)] = n.Max
		}
	}
	for k, m := range s.hadNodes {
		if m2, in := now[k]; !in || m2 < m {
			delete(s.liveMax, k)
		}
	}
	s.hadNodes = now
}

func (s *sim) doAcqResult(i int, r int, sched bool) {
	// bookkeeping of the automaton after one acquireSlot / acquire by lock i
	switch r {
	case 0:
		if s.complete(i) {
			s.pcs[i] = 'D'
			if sched {
				s.nextSch()
			}
		} else if sched {
			s.sk, s.si = skRun, i
		}
	case 1:
		if sched {
			s.nextSch()
		} else {
			s.pcs[i] = 'W'
		}
	case 2:
		s.pcs[i] = 'D'
		if sched {
			s.nextSch()
		}
	}
}

// apply one edge on the real code; returns the result string
func (s *sim) apply(op string) (res string) {
	defer func() {
		if r := recover(); r != nil {
			res = "panic"
		}
		s.trackNodes()
	}()
	before := s.snapLocks()
	arg := op[1:]
	switch op[0] {
	case 'a', 'A':
		i, _ := strconv.Atoi(arg)
		var r int
		if op[0] == 'a' {
			r = s.lat.VAcquireSlot(s.locks[i])
		} else {
			r = s.lat.VAcquire(s.locks[i])
		}
		s.afterAcquire(i, before)
		s.doAcqResult(i, r, false)
		return resName[r]
	case 'u':
		i, _ := strconv.Atoi(arg)
		c := s.unlockCommit(i)
		s.locks[i].SetCommitTS(c)
		if s.closed { // UnLock after Close(): nothing is sent
			s.pcs[i] = 'X'
			return strconv.FormatUint(c, 10)
		}
		s.pcs[i] = 'U'
		s.ch = append(s.ch, i)
		return strconv.FormatUint(c, 10)
	case 'x':
		s.closed = true
		return "-"
	case 'p':
		i := s.ch[0]
		s.ch = append([]int(nil), s.ch[1:]...)
		if s.locks[i].VAcquired() == 0 {
			s.pcs[i] = 'R'
			s.sk = skTrig
		} else {
			s.sk, s.si, s.wl = skRel, i, nil
		}
		return strconv.Itoa(i)
	case 't':
		s.sk = skIdle
		return "-"
	case 'r':
		i := s.si
		s.logRelease(i, s.locks[i].VAcquired()-1)
		nl := s.lat.VReleaseSlot(s.locks[i])
		s.afterRelease(before)
		res = "-"
		if nl != nil {
			s.wl = append(append([]int(nil), s.wl...), s.idx[nl])
			res = strconv.Itoa(s.idx[nl])
		}
		if s.locks[i].VAcquired() == 0 {
			s.pcs[i] = 'R'
			s.nextSch()
		}
		return res
	case 'R':
		i := s.si
		for a := s.locks[i].VAcquired() - 1; a >= 0; a-- {
			s.logRelease(i, a)
		}
		nls := s.lat.VRelease(s.locks[i], make([]*latch.Lock, 0))
		s.afterRelease(before)
		var woke []int
		for _, nl := range nls {
			woke = append(woke, s.idx[nl])
		}
		s.wl = append(append([]int(nil), s.wl...), woke...)
		s.pcs[i] = 'R'
		s.nextSch()
		return ints(woke)
	case 'w':
		var j int
		if s.sk == skWake {
			j = s.wl[0]
			s.wl = append([]int(nil), s.wl[1:]...)
			if s.locks[j].IsStale() {
				s.pcs[j] = 'D'
				s.nextSch()
				return "X"
			}
		} else {
			j = s.si
		}
		r := s.lat.VAcquireSlot(s.locks[j])
		s.afterAcquire(j, before)
		s.doAcqResult(j, r, true)
		return resName[r]
	case 'V':
		var j int
		if s.sk == skWake {
			j = s.wl[0]
			s.wl = append([]int(nil), s.wl[1:]...)
		} else {
			j = s.si
		}
		r := s.lat.VAcquire(s.locks[j])
		s.afterAcquire(j, before)
		s.doAcqResult(j, r, true)
		if s.sk == skRun { // cannot happen: acquire() never returns success incomplete
			s.fail("driver", "acquire returned success on an incomplete lock")
		}
		return resName[r]
	case 'W':
		wl := s.wl
		s.wl = nil
		var ls []*latch.Lock
		for _, j := range wl {
			ls = append(ls, s.locks[j])
		}
		s.lat.VWakeup(ls)
		var rs []string
		for _, j := range wl {
			s.afterAcquire(j, before)
			if s.locks[j].VIsLocked() {
				rs = append(rs, "L")
			} else {
				s.pcs[j] = 'D'
				rs = append(rs, "D")
				// wakeup() must have called wg.Done(): Wait returns (generous margin, no timing assertion otherwise)
				if wgFailed {
					continue // reported once already; do not wait again
				}
				done := make(chan struct{})
				go func(l *latch.Lock) { l.VWgWait(); close(done) }(s.locks[j])
				select {
				case <-done:
					s.npass["wakeup_done"]++
				case <-time.After(20 * time.Second):
					wgFailed = true
					s.fail("no_lost_wakeup", fmt.Sprintf("wakeup() left lock %d (not locked any more) without wg.Done()", j))
				}
			}
		}
		s.sk = skTrig
		return strings.Join(rs, "")
	case 'c':
		p := strings.Split(arg, ":")
		sl, _ := strconv.Atoi(p[0])
		t, _ := strconv.ParseUint(p[1], 10, 64)
		n := s.lat.VRecycleSlot(sl, t)
		s.recUsed++
		return strconv.Itoa(n)
	}
	panic("bad op " + op)
}

func (s *sim) dump() string {
	var sb strings.Builder
	snap := s.lat.VSnapshot()
	for i, sl := range snap {
		fmt.Fprintf(&sb, "s%d#%d[", i, sl.Count)
		for j, n := range sl.Nodes {
			if j > 0 {
				sb.WriteByte(' ')
			}
			h := "-"
			if n.Holder != nil {
				h = strconv.Itoa(s.idx[n.Holder])
			}
			fmt.Fprintf(&sb, "%d:%d:%s", keyID(n.Key), n.Max, h)
			if n.SlotID != i {
				sb.WriteString("!slot")
			}
		}
		sb.WriteString("]w[")
		for j, w := range sl.Waiting {
			if j > 0 {
				sb.WriteByte(' ')
			}
			if w == nil {
				sb.WriteString("nil")
			} else {
				sb.WriteString(strconv.Itoa(s.idx[w]))
			}
		}
		sb.WriteString("] ")
	}
	sb.WriteString("L")
	for i, l := range s.locks {
		st := 0
		if l.IsStale() {
			st = 1
		}
		fmt.Fprintf(&sb, " %d:%d:%d:%d", i, l.VAcquired(), st, l.VCommitTS())
	}
	sb.WriteString(" P ")
	sb.Write(s.pcs)
	sb.WriteString(" C ")
	sb.WriteString(ints(s.ch))
	switch s.sk {
	case skIdle:
		sb.WriteString(" S idle")
	case skRel:
		fmt.Fprintf(&sb, " S rel:%d:%s", s.si, ints(s.wl))
	case skWake:
		fmt.Fprintf(&sb, " S wake:%s", ints(s.wl))
	case skRun:
		fmt.Fprintf(&sb, " S run:%d:%s", s.si, ints(s.wl))
	case skTrig:
		sb.WriteString(" S trig")
	}
	return sb.String()
}

// ---- property oracles on the implementation state
func (s *sim) keyAt(i int) int {
	a := s.locks[i].VAcquired()
	if a < len(s.lkeys[i]) {
		return s.lkeys[i][a]
	}
	return -1
}

func (s *sim) oracles(nEnabled int) {
	defer func() {
		if r := recover(); r != nil {
			s.fail("exclusive", fmt.Sprintf("evaluating the oracles on the implementation state panicked: %v", r))
		}
	}()
	snap := s.lat.VSnapshot()
	holder := map[int]int{} // key -> holder (-1 none)
	hasNode := map[int]bool{}
	for _, sl := range snap {
		for _, n := range sl.Nodes {
			k := keyID(n.Key)
			if hasNode[k] {
				s.fail("exclusive", fmt.Sprintf("two nodes for key %d", k))
			}
			hasNode[k] = true
			holder[k] = -1
			if n.Holder != nil {
				holder[k] = s.idx[n.Holder]
			}
		}
	}
	ok := true
	// C17_exclusive: a lock holds exactly the keys whose node names it; a returned non-stale lock holds all its keys
	owners := map[int]int{}
	for i, l := range s.locks {
		for a := 0; a < l.VAcquired() && a < len(s.lkeys[i]); a++ {
			k := s.lkeys[i][a]
			if o, dup := owners[k]; dup {
				s.fail("exclusive", fmt.Sprintf("key %d held by locks %d and %d", k, o, i))
				ok = false
			}
			owners[k] = i
			if h, in := holder[k]; !in || h != i {
				s.fail("exclusive", fmt.Sprintf("lock %d counts key %d as acquired but the node's holder is %d", i, k, h))
				ok = false
			}
		}
		if s.pcs[i] == 'D' && !l.IsStale() && l.VAcquired() != len(s.lkeys[i]) {
			s.fail("exclusive", fmt.Sprintf("lock %d returned success with %d of %d keys", i, l.VAcquired(), len(s.lkeys[i])))
			ok = false
		}
	}
	for k, h := range holder {
		if h >= 0 {
			if o, in := owners[k]; !in || o != h {
				s.fail("exclusive", fmt.Sprintf("node of key %d names holder %d which does not count it", k, h))
				ok = false
			}
		}
	}
	if ok {
		s.npass["exclusive"]++
	}
	// C17_no_lost_wakeup
	ok = true
	inWl := map[int]bool{}
	for _, j := range s.wl {
		inWl[j] = true
	}
	places := make([]int, len(s.locks))
	for _, j := range s.wl {
		places[j]++
	}
	if s.sk == skRun {
		places[s.si]++
	}
	for si, sl := range snap {
		for _, wp := range sl.Waiting {
			if wp == nil {
				s.fail("no_lost_wakeup", fmt.Sprintf("nil entry in the waiting list of slot %d", si))
				ok = false
				continue
			}
			w := s.idx[wp]
			places[w]++
			k := s.keyAt(w)
			bad := ""
			switch {
			case s.pcs[w] != 'W':
				bad = "is not blocked"
			case wp.IsStale():
				bad = "is stale"
			case k < 0:
				bad = "has no next key"
			case s.locks[w].VSlots()[s.locks[w].VAcquired()] != si:
				bad = "waits in the wrong slot"
			case inWl[w] || (s.sk == skRun && s.si == w):
				bad = "is also in the wake-up list"
			default:
				pend := false
				for _, j := range s.wl {
					if !s.locks[j].IsStale() && s.keyAt(j) == k {
						pend = true
					}
				}
				if h, in := holder[k]; (!in || h < 0) && !pend {
					bad = fmt.Sprintf("waits for key %d which has no holder and no pending wake-up", k)
				}
			}
			if bad != "" {
				s.fail("no_lost_wakeup", fmt.Sprintf("lock %d in waiting list of slot %d %s", w, si, bad))
				ok = false
			}
		}
	}
	for i, p := range s.pcs {
		if p == 'W' && places[i] != 1 {
			s.fail("no_lost_wakeup", fmt.Sprintf("blocked lock %d is in %d waiting/wake-up places", i, places[i]))
			ok = false
		}
		if p != 'W' && places[i] != 0 {
			s.fail("no_lost_wakeup", fmt.Sprintf("lock %d (pc %c) still queued", i, p))
			ok = false
		}
	}
	if ok {
		s.npass["no_lost_wakeup"]++
	}
	// C17_no_deadlock: a quiescent state has only finished transactions
	if nEnabled == 0 && !s.closed {
		fin := true
		for i, p := range s.pcs {
			if p != 'R' {
				s.fail("no_deadlock", fmt.Sprintf("quiescent state with lock %d in pc %c", i, p))
				fin = false
			}
		}
		if fin {
			s.npass["no_deadlock"]++
		}
	}
}

// number of non-environment enabled edges
func progressEdges(en []string) int {
	n := 0
	for _, e := range en {
		if e[0] != 'c' && e[0] != 'x' {
			n++
		}
	}
	return n
}

// ---- exploration
type explorer struct {
	cfg      *config
	id       string
	visited  map[string]bool
	nodes    int
	edges    int
	budget   int
	trunc    bool
	npass    map[string]int
	reported int
}

func (e *explorer) rebuild(path []string) *sim {
	s := newSim(e.cfg, map[string]int{}) // oracle counts of replayed prefixes are not counted again
	for _, o := range path {
		s.apply(o)
	}
	s.fails = nil
	s.npass = e.npass
	return s
}

func (e *explorer) report(s *sim, path []string) {
	for _, f := range s.fails {
		if e.reported < 3 {
			fmt.Fprintf(out, "P\t%s\t%s\t%s\t%s\n", strings.SplitN(f, "\t", 2)[0], e.id, e.cfg.spec(), strings.Join(path, " ")+"\t"+strings.SplitN(f, "\t", 2)[1])
		}
		e.reported++
	}
	s.fails = nil
}

func (e *explorer) dfs(path []string, en []string) {
	fmt.Fprintf(out, "E\t%s\n", strings.Join(en, " "))
	for _, o := range en {
		c := e.rebuild(path)
		res := c.apply(o)
		d := c.dump()
		np := append(append([]string(nil), path...), o)
		e.edges++
		fmt.Fprintf(out, "N\t%s\t=>\t%s\t|\t%s\n", o, res, d)
		cen := c.enabled()
		vk := d + "#" + strconv.Itoa(c.recUsed) + fmt.Sprint(c.closed)
		first := !e.visited[vk]
		if first {
			c.oracles(progressEdges(cen))
		}
		e.report(c, np)
		if first && res != "panic" {
			if e.nodes < e.budget {
				e.visited[vk] = true
				e.nodes++
				e.dfs(np, cen)
			} else {
				e.trunc = true
			}
		}
		fmt.Fprintf(out, "B\n")
	}
}

var totals = struct {
	cases, nodes, edges, trunc int
	npass                      map[string]int
	nfail                      int
}{npass: map[string]int{}}

func runDFS(id string, c *config, budget int) {
	e := &explorer{cfg: c, id: id, visited: map[string]bool{}, budget: budget, npass: totals.npass}
	s := newSim(c, totals.npass)
	s.header(id)
	fmt.Fprintf(out, "N\tinit\t=>\t-\t|\t%s\n", s.dump())
	en := s.enabled()
	s.oracles(progressEdges(en))
	e.report(s, nil)
	e.dfs(nil, en)
	fmt.Fprintf(out, "B\nEND\t%s\tnodes=%d\tedges=%d\ttrunc=%v\n", id, e.nodes, e.edges, e.trunc)
	totals.cases++
	totals.nodes += e.nodes
	totals.edges += e.edges
	totals.nfail += e.reported
	if e.trunc {
		totals.trunc++
	}
}

func runWalk(id string, c *config, rng *rand.Rand, fixed []string) {
	s := newSim(c, totals.npass)
	s.header(id)
	fmt.Fprintf(out, "N\tinit\t=>\t-\t|\t%s\n", s.dump())
	var path []string
	reported := 0
	for step := 0; step < 400; step++ {
		en := s.enabled()
		if step == 0 {
			s.oracles(progressEdges(en))
		}
		var o string
		if fixed != nil {
			if step >= len(fixed) {
				break
			}
			o = fixed[step]
		} else {
			if progressEdges(en) == 0 {
				break
			}
			o = en[rng.Intn(len(en))]
		}
		fmt.Fprintf(out, "E\t%s\n", strings.Join(en, " "))
		res := s.apply(o)
		path = append(path, o)
		fmt.Fprintf(out, "N\t%s\t=>\t%s\t|\t%s\n", o, res, s.dump())
		totals.edges++
		s.oracles(progressEdges(s.enabled()))
		for _, f := range s.fails {
			if reported < 3 {
				p := strings.SplitN(f, "\t", 2)
				fmt.Fprintf(out, "P\t%s\t%s\t%s\t%s\t%s\n", p[0], id, c.spec(), strings.Join(path, " "), p[1])
			}
			reported++
		}
		s.fails = nil
		if res == "panic" {
			break
		}
	}
	fmt.Fprintf(out, "END\t%s\twalk=%d\n", id, len(path))
	totals.cases++
	totals.nfail += reported
}

// ---- configuration generators
func subsets(pool, maxk int) [][]int {
	var r [][]int
	for m := 1; m < 1<<pool; m++ {
		var s []int
		for b := 0; b < pool; b++ {
			if m&(1<<b) != 0 {
				s = append(s, b)
			}
		}
		if len(s) <= maxk {
			r = append(r, s)
		}
	}
	return r
}

func intersects(a, b []int) bool {
	for _, x := range a {
		for _, y := range b {
			if x == y {
				return true
			}
		}
	}
	return false
}

type sc struct{ s, c uint64 }

// start in 1..3, commit 0 (not committed) or in start+1..maxc: includes every order and ties of commit vs start
func tsOptions(maxc uint64) []sc {
	var r []sc
	for s := uint64(1); s <= 3; s++ {
		r = append(r, sc{s, 0})
		for c := s + 1; c <= maxc; c++ {
			r = append(r, sc{s, c})
		}
	}
	return r
}

func shuffled(rng *rand.Rand, keys []int) []int {
	k := append([]int(nil), keys...)
	rng.Shuffle(len(k), func(i, j int) { k[i], k[j] = k[j], k[i] })
	return k
}

const unit = uint64(70000) << 18 // 70 s of physical time: two units apart = expired (>= 2 min)

func main() {
	out = bufio.NewWriterSize(os.Stdout, 1<<20)
	defer out.Flush()
	if len(os.Args) >= 3 && os.Args[1] == "replay" {
		c := parseSpec(os.Args[2])
		var path []string
		if len(os.Args) >= 4 && os.Args[3] != "" {
			path = strings.Fields(os.Args[3])
		}
		runWalk("replay", c, nil, path)
		summary()
		return
	}
	if len(os.Args) >= 2 && os.Args[1] == "sched" {
		seed, _ := strconv.ParseInt(os.Getenv("VERIF_SEED"), 10, 64)
		schedMain(seed, os.Getenv("VERIF_TIER") == "thorough")
		return
	}
	if len(os.Args) >= 4 && os.Args[1] == "replay-sched" {
		runScript("replay", parseSpec(os.Args[2]), strings.Fields(os.Args[3]), nil)
		summary()
		return
	}
	if len(os.Args) >= 2 && os.Args[1] == "stress" {
		seed, _ := strconv.ParseInt(os.Getenv("VERIF_SEED"), 10, 64)
		stress(seed, os.Getenv("VERIF_TIER") == "thorough")
		return
	}
	seed, _ := strconv.ParseInt(os.Getenv("VERIF_SEED"), 10, 64)
	thorough := os.Getenv("VERIF_TIER") == "thorough"
	rng := rand.New(rand.NewSource(seed*7919 + 17))
	pats := [][]int{{0, 0, 0}, {0, 1, 0}, {0, 0, 1}}
	sizes := []int{1, 2, 2}
	n := 0
	// D2: two transactions, ALL pairs of intersecting key sets over a 3-key pool, all start/commit
	// options (ties included), one slot and two slots with a collision. Exhaustive DFS.
	sub3 := subsets(3, 3)
	opts := tsOptions(4)
	for pi := range pats {
		if pi == 2 && !thorough {
			continue
		}
		for _, a := range sub3 {
			for _, b := range sub3 {
				if !intersects(a, b) {
					continue
				}
				for _, ta := range opts {
					for _, tb := range opts {
						if ta.s > tb.s {
							continue
						}
						c := &config{size: sizes[pi], pat: pats[pi], txns: []txn{{shuffled(rng, a), ta.s, ta.c}, {shuffled(rng, b), tb.s, tb.c}}}
						c.withClose = thorough || n%4 == 0
						runDFS(fmt.Sprintf("d2-%d", n), c, 200000)
						n++
					}
				}
			}
		}
	}
	// D3: three transactions over the 3-key pool (<= 2 keys each, quick; <= 3 thorough), sampled configurations, exhaustive DFS each
	nd3 := 150
	if thorough {
		nd3 = 1500
	}
	opts5 := tsOptions(5)
	subs := subsets(3, 2)
	if thorough {
		subs = sub3
	}
	for j := 0; j < nd3; j++ {
		pi := rng.Intn(len(pats))
		var tx []txn
		for t := 0; t < 3; t++ {
			o := opts5[rng.Intn(len(opts5))]
			tx = append(tx, txn{shuffled(rng, subs[rng.Intn(len(subs))]), o.s, o.c})
		}
		c := &config{size: sizes[pi], pat: pats[pi], txns: tx, noMacro: j%3 == 0}
		runDFS(fmt.Sprintf("d3-%d", j), c, 60000)
	}
	// D3X (thorough): three transactions EXHAUSTIVELY: all triples of key sets (<= 2 keys, 3-key pool), starts 1 < 2 < 3
	// (transactions are interchangeable, all key-set triples are enumerated), every commit in {none, start+1, 4}
	// (a commit equal to / below / above each later start), 1 slot and 2 slots with a collision; atomic edges.
	if thorough {
		sub2 := subsets(3, 2)
		j := 0
		for pi := 0; pi < 2; pi++ {
			for _, a := range sub2 {
				for _, b := range sub2 {
					for _, cc := range sub2 {
						for m := 0; m < 27; m++ {
							cm := func(s uint64, x int) uint64 {
								switch x {
								case 0:
									return 0
								case 1:
									return s + 1
								}
								return 4
							}
							tx := []txn{{a, 1, cm(1, m%3)}, {b, 2, cm(2, (m/3)%3)}, {cc, 3, cm(3, m/9)}}
							runDFS(fmt.Sprintf("d3x-%d", j), &config{size: sizes[pi], pat: pats[pi], txns: tx, noMacro: true}, 200000)
							j++
						}
					}
				}
			}
		}
	}
	// D4: four transactions x <= 3 keys from a 4-key pool, sampled, budgeted DFS (atomic edges only)
	nd4 := 12
	if thorough {
		nd4 = 250
	}
	sub4 := subsets(4, 3)
	for j := 0; j < nd4; j++ {
		var tx []txn
		for t := 0; t < 4; t++ {
			o := opts5[rng.Intn(len(opts5))]
			tx = append(tx, txn{shuffled(rng, sub4[rng.Intn(len(sub4))]), o.s, o.c})
		}
		size := 1 + rng.Intn(2)
		c := &config{size: size, pat: []int{0, 1, 1, 0}, txns: tx, noMacro: true}
		runDFS(fmt.Sprintf("d4-%d", j), c, 30000)
	}
	// DR: recycle. Physical timestamps (units of 70 s), 6 keys in ONE slot so that count >= 5 triggers the
	// in-line recycle, plus the external recycle step (what the recycle goroutine does, per slot).
	ndr := 20
	if thorough {
		ndr = 600
	}
	sub6 := subsets(6, 3)
	for j := 0; j < ndr; j++ {
		var tx []txn
		nt := 2 + rng.Intn(2)
		for t := 0; t < nt; t++ {
			s := uint64(1+rng.Intn(4))*unit + uint64(rng.Intn(3))
			cm := uint64(0)
			if rng.Intn(4) != 0 {
				cm = s + uint64(rng.Intn(3))*unit + 1
			}
			tx = append(tx, txn{shuffled(rng, sub6[rng.Intn(len(sub6))]), s, cm})
		}
		c := &config{size: 1 + rng.Intn(2), pat: []int{0, 0, 0, 0, 0, 1}, txns: tx, recTS: []uint64{uint64(3+rng.Intn(4)) * unit}, recMax: 1, noMacro: true}
		runDFS(fmt.Sprintf("dr-%d", j), c, 20000)
	}
	// DRX: recycle, enumerated: 6 keys in ONE slot (count reaches 5: in-line recycle), physical timestamps on both sides
	// of the 2-minute expiry (unit = 70 s), external recycle once; T2 (keys 0,3) may start before or after the others
	{
		type so struct{ s, c uint64 }
		var os []so
		for _, st := range []uint64{1 * unit, 4 * unit} {
			os = append(os, so{st + 1, 0}, so{st + 1, st + 2}, so{st + 1, st + 2*unit + 2})
		}
		j := 0
		for _, o0 := range os {
			for _, o1 := range os {
				for _, s2 := range []uint64{1*unit + 5, 5 * unit} {
					j++
					if !thorough && (j+int(seed))%18 != 0 {
						continue
					}
					tx := []txn{{[]int{0, 1, 2}, o0.s, o0.c}, {[]int{3, 4, 5}, o1.s + 1, o1.c + 1*boolU(o1.c)}, {[]int{0, 3}, s2, 0}}
					c := &config{size: 1, pat: []int{0, 0, 0, 0, 0, 0}, txns: tx, recTS: []uint64{6 * unit}, recMax: 1, noMacro: true}
					runDFS(fmt.Sprintf("drx-%d", j), c, 60000)
				}
			}
		}
	}
	// fixed witnesses of Props.v replayed on the code: rw-0 = C17_recycle_waited_node_refuted / C17_ex_waited_completes
	// (the node of a key with a pending wake-up and a second waiter is recycled), mc-0 = C17_ex_missed_conflict
	runWalk("rw-0", &config{size: 1, pat: []int{0, 0}, txns: []txn{{[]int{1}, 1, 2}, {[]int{1}, 5, 7}, {[]int{1}, 6, 0}},
		recTS: []uint64{3 * unit}, recMax: 1, noMacro: true}, nil,
		strings.Fields(fmt.Sprintf("a0 a1 a2 u0 p r c0:%d w t u1 p r w t u2 p r t", 3*unit)))
	runWalk("mc-0", &config{size: 1, pat: []int{0, 0}, txns: []txn{{[]int{1}, unit, 2*unit + 1}, {[]int{1}, unit + 1, 0}},
		recTS: []uint64{5 * unit}, recMax: 1, noMacro: true}, nil,
		strings.Fields(fmt.Sprintf("a0 u0 p r t c0:%d a1", 5*unit)))
	// walks: bigger configurations, random schedules
	nw := 300
	if thorough {
		nw = 8000
	}
	for j := 0; j < nw; j++ {
		var tx []txn
		nt := 3 + rng.Intn(4)
		phys := rng.Intn(2) == 0
		for t := 0; t < nt; t++ {
			var s, cm uint64
			if phys {
				s = uint64(1+rng.Intn(5))*unit + uint64(rng.Intn(3))
				if rng.Intn(4) != 0 {
					cm = s + uint64(rng.Intn(3))*unit + 1
				}
			} else {
				s = uint64(1 + rng.Intn(6))
				if rng.Intn(4) != 0 {
					cm = s + 1 + uint64(rng.Intn(3))
				}
			}
			tx = append(tx, txn{shuffled(rng, sub6[rng.Intn(len(sub6))]), s, cm})
		}
		c := &config{size: []int{1, 2, 3, 4}[rng.Intn(4)], pat: []int{0, 1, 0, 1, 0, 0}, txns: tx}
		if phys {
			c.recTS = []uint64{uint64(3+rng.Intn(5)) * unit}
			c.recMax = 3
			c.noMacro = true
		}
		runWalk(fmt.Sprintf("w-%d", j), c, rng, nil)
	}
	summary()
}

func boolU(c uint64) uint64 {
	if c > 0 {
		return 1
	}
	return 0
}

func summary() {
	var ks []string
	for k := range totals.npass {
		ks = append(ks, k)
	}
	sort.Strings(ks)
	for _, k := range ks {
		fmt.Fprintf(out, "PS\t%s\t%d\n", k, totals.npass[k])
	}
	fmt.Fprintf(out, "TOTAL\tcases=%d\tnodes=%d\tedges=%d\ttrunc=%d\toraclefails=%d\n", totals.cases, totals.nodes, totals.edges, totals.trunc, totals.nfail)
}

// ---- concurrent stress through the real LatchesScheduler
func stress(seed int64, thorough bool) {
	rounds := 6
	if thorough {
		rounds = 40
	}
	for r := 0; r < rounds; r++ {
		rng := rand.New(rand.NewSource(seed*1000003 + int64(r)))
		size := []uint{1, 2, 4, 8}[rng.Intn(4)]
		nkeys := 2 + rng.Intn(6)
		workers := 4 + rng.Intn(12)
		per := 150
		sched := latch.NewScheduler(size)
		var tso uint64 = 10
		var owner = make([]int32, nkeys)       // 0 free, else worker+1
		var lastCommit = make([]uint64, nkeys) // written by the holder before UnLock
		var commitAnnounced = make([]uint64, nkeys)
		var annMu sync.Mutex
		var fails atomic.Int64
		var firstFail atomic.Value
		var nstale, nok atomic.Int64
		fail := func(s string) {
			if fails.Add(1) == 1 {
				firstFail.Store(s)
			}
		}
		var wg sync.WaitGroup
		for w := 0; w < workers; w++ {
			wseed := rng.Int63()
			wg.Add(1)
			go func(w int, wseed int64) {
				defer wg.Done()
				lr := rand.New(rand.NewSource(wseed))
				for it := 0; it < per; it++ {
					nk := 1 + lr.Intn(3)
					if nk > nkeys {
						nk = nkeys
					}
					perm := lr.Perm(nkeys)[:nk]
					var ks [][]byte
					for _, k := range perm {
						ks = append(ks, []byte{byte('a' + k), 7})
					}
					start := atomic.AddUint64(&tso, 1)
					if lr.Intn(3) == 0 {
						time.Sleep(time.Duration(lr.Intn(50)) * time.Microsecond) // let the start ts grow old
					}
					lock := sched.Lock(start, ks)
					if lock.IsStale() {
						nstale.Add(1)
						// sound: some key's commit > start was announced by another transaction before now
						annMu.Lock()
						okS := false
						for _, k := range perm {
							if commitAnnounced[k] > start {
								okS = true
							}
						}
						annMu.Unlock()
						if !okS {
							fail(fmt.Sprintf("stale_sound: start=%d keys=%v stale although no commit > start was ever unlocked on its keys", start, perm))
						}
						sched.UnLock(lock)
						continue
					}
					nok.Add(1)
					for _, k := range perm {
						if !atomic.CompareAndSwapInt32(&owner[k], 0, int32(w+1)) {
							fail(fmt.Sprintf("exclusive: key %d owned by worker %d while worker %d returned from Lock", k, atomic.LoadInt32(&owner[k])-1, w))
						}
						if lc := atomic.LoadUint64(&lastCommit[k]); lc > start {
							fail(fmt.Sprintf("stale_complete: key %d previously released with commit %d > start %d but Lock was not stale", k, lc, start))
						}
					}
					if lr.Intn(4) == 0 {
						time.Sleep(time.Duration(lr.Intn(30)) * time.Microsecond)
					}
					commit := uint64(0)
					if lr.Intn(5) != 0 {
						commit = atomic.AddUint64(&tso, 1)
						lock.SetCommitTS(commit)
						annMu.Lock()
						for _, k := range perm {
							if commit > commitAnnounced[k] {
								commitAnnounced[k] = commit
							}
						}
						annMu.Unlock()
					}
					for _, k := range perm {
						if commit > 0 {
							atomic.StoreUint64(&lastCommit[k], commit)
						}
						atomic.StoreInt32(&owner[k], 0)
					}
					sched.UnLock(lock)
				}
			}(w, wseed)
		}
		done := make(chan struct{})
		go func() { wg.Wait(); close(done) }()
		verdict := "ok"
		select {
		case <-done:
		case <-time.After(60 * time.Second):
			fail("no_deadlock: workers did not finish within 60 s (every holder unlocks)")
		}
		detail := fmt.Sprintf("size=%d keys=%d workers=%d iters=%d ok=%d stale=%d", size, nkeys, workers, per, nok.Load(), nstale.Load())
		if fails.Load() > 0 {
			verdict = "fail"
			detail += " :: " + firstFail.Load().(string)
		} else {
			sched.Close()
		}
		fmt.Fprintf(out, "STRESS\tround%d\t%s\t%s\n", r, detail, verdict)
		out.Flush()
		if verdict == "fail" {
			return
		}
	}
}
